"""C17 - serialised hierarchies and signals survive a round trip."""
import copy
import glob
import json
import os
from .. import core, gen
from . import vcdfam, c09

PID = "C17"
LEVEL = "proof"
RULE = ("with feature serde1 every Hierarchy and every loaded Signal of generated VCD files (negative and zero-width bit ranges, "
        "array scopes, attributes, source locators, 2/4/9-state, real and string signals, delta cycles) and of the corpus files of "
        "all three formats (enum tables, slices, aliases) is serialised with serde_json, deserialised, and the complete observation "
        "of the clone (tree walk with attributes, lookups, slice info, change iteration, point queries at every index) is compared "
        "with the original; a second serialisation must reproduce the text. Independently the JSON of real objects is validated "
        "against the schema translated from the derive sites of the current source (26 types). Model tie: the JSON of generated "
        "and corpus objects must be read by the model's de and written back identically by its ser (image of the model), and "
        "locally corrupted documents (value out of range, other JSON type, null, unknown variant, shortened array) must be "
        "accepted / rejected alike by the derived Deserialize and by the model. Non-trivial: the object has >= 1 "
        "scope and >= 2 variables/changes; distinct files; a corrupted document counts when its verdict is known to differ "
        "from the intact one's or its kind is new.")
ASSUMPTIONS = ["serde's derive macros and serde_json are modelled (Model/Serde.v: ser / de over shapes), not verified (A-serde); the "
               "theorem is about that model instantiated with the shapes translated from the derive sites",
               "objects are plain data: an accessor's result is a function of the field values (no skipped field: the translator "
               "refuses every #[serde(..)] attribute)"]
TRUSTED_BASE = ["translator vlib/translate.py (derive sites -> Generated/SerdeSchema.v and serde_schema.json)",
                "Python schema validator c17.conforms and document encoder c17.enc_doc; OCaml document parser in driver.ml (cmd_serde)"]

INT_RANGES = {"u8": (0, 2 ** 8 - 1), "u16": (0, 2 ** 16 - 1), "u32": (0, 2 ** 32 - 1), "u64": (0, 2 ** 64 - 1),
              "i8": (-2 ** 7, 2 ** 7 - 1), "i16": (-2 ** 15, 2 ** 15 - 1), "i32": (-2 ** 31, 2 ** 31 - 1), "i64": (-2 ** 63, 2 ** 63 - 1),
              "nzu16": (1, 2 ** 16 - 1), "nzu32": (1, 2 ** 32 - 1), "nzu64": (1, 2 ** 64 - 1), "nzi32": (-2 ** 31, 2 ** 31 - 1)}


def conforms(schema, t, v, path="$"):
    """None if the JSON value v is in the image of serde_json's serialisation of type t, else a reason"""
    if isinstance(t, str):
        if t in INT_RANGES:
            lo, hi = INT_RANGES[t]
            if isinstance(v, bool) or not isinstance(v, int) or not lo <= v <= hi or (t.startswith("nz") and v == 0):
                return "%s: %r is not a %s" % (path, v, t)
            return None
        if t == "bool":
            return None if isinstance(v, bool) else "%s: not a bool" % path
        if t == "str":
            return None if isinstance(v, str) else "%s: not a string" % path
        if t == "f64":
            return None if isinstance(v, (int, float)) and not isinstance(v, bool) else "%s: not a number" % path
        return "%s: unknown primitive %s" % (path, t)
    if "option" in t:
        return None if v is None else conforms(schema, t["option"], v, path)
    if "seq" in t:
        if not isinstance(v, list):
            return "%s: not an array" % path
        for i, x in enumerate(v):
            r = conforms(schema, t["seq"], x, "%s[%d]" % (path, i))
            if r:
                return r
        return None
    if "tuple" in t:
        if not isinstance(v, list) or len(v) != len(t["tuple"]):
            return "%s: not a %d-tuple" % (path, len(t["tuple"]))
        for i, (tt, x) in enumerate(zip(t["tuple"], v)):
            r = conforms(schema, tt, x, "%s.%d" % (path, i))
            if r:
                return r
        return None
    if "map" in t:
        if not isinstance(v, dict):
            return "%s: not an object" % path
        for k, x in v.items():
            kt = t["map"][0]
            # integer-like keys are written as decimal strings
            try:
                kv = int(k)
            except ValueError:
                return "%s: map key %r is not an integer string" % (path, k)
            r = conforms(schema, kt, kv, path + ".key") or conforms(schema, t["map"][1], x, "%s[%s]" % (path, k))
            if r:
                return r
        return None
    if "named" in t:
        d = schema.get(t["named"])
        if d is None:
            return "%s: unknown type %s" % (path, t["named"])
        if "newtype" in d:
            return conforms(schema, d["newtype"], v, path)
        if "struct" in d:
            return conforms_struct(schema, d["struct"], v, path)
        if "enum" in d:
            for vn, payload in d["enum"]:
                if payload == "unit":
                    if v == vn:
                        return None
                elif isinstance(v, dict) and list(v.keys()) == [vn]:
                    inner = v[vn]
                    if "newtype" in payload:
                        return conforms(schema, payload["newtype"], inner, path + "." + vn)
                    if "struct" in payload:
                        return conforms_struct(schema, payload["struct"], inner, path + "." + vn)
                    if "tuple" in payload:
                        return conforms(schema, {"tuple": payload["tuple"]}, inner, path + "." + vn)
            return "%s: %r is no variant of %s" % (path, str(v)[:60], t["named"])
        return "%s: unsupported definition of %s" % (path, t["named"])
    return "%s: unsupported type %r" % (path, t)


def enc_doc(v):
    """a JSON document in the prefix notation the model runner reads (coq/extract/driver.ml, cmd_serde)"""
    if v is None:
        return "n"
    if v is True:
        return "t"
    if v is False:
        return "f"
    if isinstance(v, int):
        return "i%d;" % v
    if isinstance(v, str):
        return "s%s;" % v.encode("utf-8", "surrogatepass").hex()
    if isinstance(v, list):
        return "a%d;" % len(v) + "".join(enc_doc(x) for x in v)
    if isinstance(v, dict):
        return "o%d;" % len(v) + "".join("s%s;" % k.encode("utf-8", "surrogatepass").hex() + enc_doc(x) for k, x in v.items())
    raise ValueError("no encoding for %r" % (v,))


def leaves(v, path=()):
    """paths of every node of a document"""
    yield path
    if isinstance(v, list):
        for i, x in enumerate(v):
            yield from leaves(x, path + (i,))
    elif isinstance(v, dict):
        for k, x in v.items():
            yield from leaves(x, path + (k,))


def get_at(v, path):
    for p in path:
        v = v[p]
    return v


def set_at(v, path, new):
    if not path:
        return new
    v = copy.deepcopy(v)
    cur = v
    for p in path[:-1]:
        cur = cur[p]
    cur[path[-1]] = new
    return v


def corrupt(rng, doc):
    """one local change of a document that the derived Deserialize and the model must judge alike: a value out of
    its range, of another JSON type, null, an unknown variant name, a shortened array.  (Changes on which the derived
    code is more liberal than the model - reordered, missing or extra object members, map keys - are not made.)"""
    paths = list(leaves(doc))
    for _ in range(50):
        path = rng.choice(paths)
        old = get_at(doc, path)
        kind = None
        if isinstance(old, bool):
            new, kind = rng.choice([(1, "bool->int"), (None, "bool->null"), (not old, "bool-flip")])
        elif isinstance(old, int):
            cands = [(0, "int->0"), (-1, "int->-1"), (2 ** 16, "int->2^16"), (2 ** 32, "int->2^32"), (2 ** 64, "int->2^64"),
                     (2 ** 64 - 1, "int->2^64-1"), (old + 1, "int+1"), ("x", "int->str"), (None, "int->null"), (True, "int->bool"),
                     (-2 ** 31, "int->-2^31"), (255, "int->255"), (256, "int->256")]
            new, kind = rng.choice(cands)
        elif isinstance(old, str):
            new, kind = rng.choice([("Bogus", "str->Bogus"), (7, "str->int"), (None, "str->null"), ("", "str->empty")])
        elif old is None:
            new, kind = rng.choice([(1, "null->1"), ("x", "null->str"), ([], "null->[]")])
        elif isinstance(old, list):
            if not old:
                new, kind = rng.choice([(None, "[]->null"), ([1], "[]->[1]")])
            else:
                new, kind = rng.choice([(old[:-1], "drop-last"), (old + old[-1:], "repeat-last"), (None, "array->null")])
        elif isinstance(old, dict):
            ks = list(old.keys())
            if len(ks) == 1 and ks[0][:1].isupper():
                new, kind = rng.choice([({"Bogus": old[ks[0]]}, "variant->Bogus"), (ks[0], "variant->unit-string"), (None, "variant->null")])
            else:
                new, kind = None, "object->null"
        if kind is None or new == old and type(new) == type(old):
            continue
        return set_at(doc, path, new), kind
    return None, None


def conforms_struct(schema, fields, v, path):
    if not isinstance(v, dict):
        return "%s: not an object" % path
    if list(v.keys()) != [f for f, _ in fields]:
        return "%s: fields %r, schema has %r" % (path, list(v.keys())[:12], [f for f, _ in fields][:12])
    for f, ft in fields:
        r = conforms(schema, ft, v[f], path + "." + f)
        if r:
            return r
    return None


def run(res, rng, tier, model_ok, replay=None):
    lines = []
    keys = []
    if replay:
        lines.append(replay.get("case") or replay["broken_correspondence"]["case"])
        keys.append(None)
    else:
        for _ in range(150 if tier == "quick" else 2500):
            # header from the C09 generator (indices, arrays, attributes), body with values for its bit-vector variables
            flatten = rng.random() < 0.3
            g, meta, text = c09.gen_header(rng, flatten, regime=rng.choice(["dense", "gaps", "hashed"]))
            if g.spec.panic:
                continue
            body = ["\n#%d\n" % rng.choice([0, 3])]
            nchanges = 0
            # collect declared variables with their ids from the spec
            decl = []

            def collect(node):
                for c in node["children"]:
                    if c["kind"] == "V":
                        decl.append(c)
                    else:
                        collect(c)
            collect(g.spec.root)
            by_sig = {}
            for c in decl:
                by_sig[c["sig"]] = c
            codes = {}
            for code in g.ids:
                codes[g.sig_ref(code)] = code
            t = 0
            for _ in range(rng.randint(0, 6)):
                for sref, c in by_sig.items():
                    if rng.random() < 0.5 or sref not in codes:
                        continue
                    ident = codes[sref].decode("latin1")
                    enc = c["enc"]
                    if enc == "r":
                        body.append("r%s %s\n" % (rng.choice(gen.REALS), ident))
                    elif enc == "s":
                        body.append("s%s %s\n" % (gen.rand_value(rng, gen.Sig("s"), None), ident))
                    else:
                        w = int(enc[1:])
                        if w > 300:
                            continue
                        body.append("b%s %s\n" % (gen.rand_bits(rng, w, rng.choice([2, 4, 9])), ident))
                    nchanges += 1
                if rng.random() < 0.7:
                    t += rng.randint(1, 5)
                    body.append("#%d\n" % t)
            line = "serdev - %s %s" % (text.encode("latin1").hex(), "".join(body).encode("latin1").hex())
            lines.append(line)
            keys.append(hash(line) if (g.spec.nscopes >= 1 and g.spec.nvars >= 2 and nchanges >= 2) else None)
        files = sorted(f for f in glob.glob("/repo/wellen/inputs/**/*", recursive=True)
                       if f.rsplit(".", 1)[-1] in ("vcd", "fst", "ghw") and os.path.isfile(f)
                       and 0 < os.path.getsize(f) < (150000 if tier == "quick" else 5000000)
                       and "with_errors" not in f and "ghdl_issue_538" not in f and "libsigrok.vcd.fst" not in f)
        for f in files:
            lines.append("serde " + f)
            keys.append(f)
    outs = core.run_cases(core.WV_DEBUG, lines, "c17", timeout=1200)
    for line, key, o in zip(lines, keys, outs):
        res.evaluations += 1
        kl = "corpus-" + line.rsplit(".", 1)[-1] if line.startswith("serde ") else "generated-vcd"
        res.distribution[kl] = res.distribution.get(kl, 0) + 1
        if o.startswith("ok "):
            if key is not None:
                res.nontrivial.add(key)
        elif o == "LOADFAIL":
            res.distribution["did-not-load"] = res.distribution.get("did-not-load", 0) + 1
        else:
            res.violations.append((line[:4000], o[:1500], "ok ...", "serde round trip changes the behaviour of the object"))
    # shape: real JSON against the schema translated from the derive sites
    schema_path = os.path.join(core.COQ, "Generated", "serde_schema.json")
    schema = json.load(open(schema_path))
    shape_files = ["/repo/wellen/inputs/ghdl/wellen_issue_12.ghw", "/repo/wellen/inputs/nvc/vhdl_test_bool_issue_16.fst",
                   "/repo/wellen/inputs/wikipedia/example.vcd", "/repo/wellen/inputs/ghdl/oscar/test.ghw",
                   "/repo/wellen/inputs/nvc/xwb_fofb_shaper_filt_tb.fst", "/repo/wellen/inputs/my-hdl/Simple_Memory.vcd"]
    shape_files = [f for f in shape_files if os.path.exists(f)]
    jouts = core.run_cases(core.WV_DEBUG, ["serdej " + f for f in shape_files], "c17j", timeout=600)
    for f, o in zip(shape_files, jouts):
        res.evaluations += 1
        res.distribution["schema-shape"] = res.distribution.get("schema-shape", 0) + 1
        try:
            doc = json.loads(o)
        except ValueError:
            res.violations.append(("serdej " + f, o[:300], "JSON", "could not serialise"))
            continue
        why = conforms(schema, {"named": "Hierarchy"}, doc["hierarchy"], "$hierarchy")
        for i, s in enumerate(doc["signals"]):
            why = why or conforms(schema, {"named": "Signal"}, s, "$signal%d" % i)
        if why:
            # the translated description of the derive sites no longer matches what the code serialises
            res.mismatches.append(("serdej " + f, "JSON of the implementation", "schema translated from the derive sites: " + why))
        else:
            res.nontrivial.add(("shape", f))
    # model tie: the implementation's documents lie in the image of the model; corrupted documents are judged alike
    if core.TRANSLATOR_INFO.get("serde_translator_degraded"):
        res.mismatches.append(("translation of the derive sites", "current source",
                               "the translator cannot describe it: " + core.TRANSLATOR_INFO["serde_translator_degraded"]))
    if model_ok and not replay:
        nj = 40 if tier == "quick" else 400
        jlines = ["serdej - " + l.split(" ", 2)[2] for l in lines if l.startswith("serdev - ")][:nj]
        jlines += ["serdej " + f for f in shape_files if os.path.getsize(f) < 400000]
        docs = []
        for jl, o in zip(jlines, core.run_cases(core.WV_DEBUG, jlines, "c17m", timeout=600)):
            if o == "LOADFAIL":
                continue
            try:
                d = json.loads(o)
            except ValueError:
                res.violations.append((jl[:4000], o[:300], "JSON", "could not serialise"))
                continue
            docs.append((jl, "Hierarchy", d["hierarchy"]))
            for sdoc in d["signals"][:6]:
                docs.append((jl, "Signal", sdoc))
        cases = []
        for jl, tname, d in docs:
            cases.append((jl, tname, d, "intact"))
            for _ in range(3 if tier == "quick" else 8):
                c, kind = corrupt(rng, d)
                if c is not None:
                    cases.append((jl, tname, c, kind))
        enc = []
        for jl, tname, d, kind in cases:
            try:
                enc.append(enc_doc(d))
            except ValueError as e:
                enc.append(None)
                res.mismatches.append((jl[:300], "document with " + str(e), "the model's JSON has integers, strings, arrays, objects only"))
        idx = [i for i, e in enumerate(enc) if e is not None]
        mouts = core.run_cases(core.MODEL_RUN, ["serde %s %s" % (cases[i][1], enc[i]) for i in idx], "c17mm", timeout=900)
        iouts = core.run_cases(core.WV_DEBUG, ["serdede %s %s" % (cases[i][1], json.dumps(cases[i][2], separators=(",", ":")).encode("utf-8").hex())
                                               for i in idx], "c17mi", timeout=900)
        for i, mo, io in zip(idx, mouts, iouts):
            jl, tname, d, kind = cases[i]
            res.evaluations += 1
            kk = "model-" + ("intact" if kind == "intact" else "corrupted") + "-" + io.split(" ")[0]
            res.distribution[kk] = res.distribution.get(kk, 0) + 1
            if kind == "intact" and io != "accept-same":
                res.violations.append((("serdede %s <document of> %s" % (tname, jl))[:4000], io, "accept-same",
                                       "the object's own JSON is not read back into an object that writes the same JSON"))
            elif mo != io:
                res.mismatches.append((("%s of %s, %s: %s" % (tname, jl[:300], kind, json.dumps(d, separators=(",", ":"))[:1500])),
                                       "derived Deserialize: " + io, "model de/ser: " + mo))
            else:
                res.nontrivial.add(("doc", tname, kind, io, hash(enc[i]) if kind == "intact" else 0))
    res.samples = [l[:200] for l in lines[:2]] + [lines[-1]]


def check_known(entry):
    return False
