//! `hier <ops> <queries> [flatten]`: drives `HierarchyBuilder` (hook) with an operation list and
//! prints the canonical observation of the finished `Hierarchy`.
//! ops (`;` separated): `S:<flatten 0|1>:<namehex>:<componenthex|~>:<tpe>` add_scope,
//! `V:<namehex>:<tpe>:<dir>:<enc>:<msb>/<lsb>|~:<signal idx>` add_var, `P` pop_scope.
//! queries (`;` separated): `s/<namehex>/<namehex>..` lookup_scope,
//! `v/<namehex>/../=<namehex>=<msb>/<lsb>|*` lookup_var(_with_index) (`*` = without index, `~` = None index).
use crate::util::*;
use wellen::verif::HierarchyBuilder;
use wellen::*;

pub const SCOPE_TYPES: [ScopeType; 24] = [
    ScopeType::Module, ScopeType::Task, ScopeType::Function, ScopeType::Begin, ScopeType::Fork,
    ScopeType::Generate, ScopeType::Struct, ScopeType::Union, ScopeType::Class, ScopeType::Interface,
    ScopeType::Package, ScopeType::Program, ScopeType::VhdlArchitecture, ScopeType::VhdlProcedure,
    ScopeType::VhdlFunction, ScopeType::VhdlRecord, ScopeType::VhdlProcess, ScopeType::VhdlBlock,
    ScopeType::VhdlForGenerate, ScopeType::VhdlIfGenerate, ScopeType::VhdlGenerate, ScopeType::VhdlPackage,
    ScopeType::GhwGeneric, ScopeType::VhdlArray,
];

pub const VAR_TYPES: [VarType; 35] = [
    VarType::Event, VarType::Integer, VarType::Parameter, VarType::Real, VarType::Reg, VarType::Supply0,
    VarType::Supply1, VarType::Time, VarType::Tri, VarType::TriAnd, VarType::TriOr, VarType::TriReg,
    VarType::Tri0, VarType::Tri1, VarType::WAnd, VarType::Wire, VarType::WOr, VarType::String,
    VarType::Port, VarType::SparseArray, VarType::RealTime, VarType::Bit, VarType::Logic, VarType::Int,
    VarType::ShortInt, VarType::LongInt, VarType::Byte, VarType::Enum, VarType::ShortReal,
    VarType::Boolean, VarType::BitVector, VarType::StdLogic, VarType::StdLogicVector, VarType::StdULogic,
    VarType::StdULogicVector,
];

pub const DIRECTIONS: [VarDirection; 7] = [
    VarDirection::Unknown, VarDirection::Implicit, VarDirection::Input, VarDirection::Output,
    VarDirection::InOut, VarDirection::Buffer, VarDirection::Linkage,
];

pub fn scope_type_code(t: ScopeType) -> usize {
    SCOPE_TYPES.iter().position(|x| *x == t).unwrap()
}
pub fn var_type_code(t: VarType) -> usize {
    VAR_TYPES.iter().position(|x| *x == t).unwrap()
}
pub fn dir_code(t: VarDirection) -> usize {
    DIRECTIONS.iter().position(|x| *x == t).unwrap()
}

fn path_of(s: &str) -> Vec<String> {
    if s.is_empty() {
        return vec![];
    }
    s.split('/').map(|x| if x == "_" { String::new() } else { s_of_hex(x) }).collect()
}

fn s_of_hex(h: &str) -> String {
    String::from_utf8_lossy(&bytes_of_hex(h)).to_string()
}

pub fn enc_str(e: SignalEncoding) -> String {
    match e {
        SignalEncoding::String => "s".to_string(),
        SignalEncoding::Real => "r".to_string(),
        SignalEncoding::BitVector(n) => format!("b{}", n.get()),
    }
}

pub fn index_str(i: Option<VarIndex>) -> String {
    match i {
        None => "~".to_string(),
        Some(i) => format!("{}/{}", i.msb(), i.lsb()),
    }
}

fn parse_index(s: &str) -> Option<VarIndex> {
    if s == "~" {
        None
    } else {
        let (m, l) = s.split_once('/').unwrap();
        Some(VarIndex::new(m.parse::<i64>().unwrap(), l.parse::<i64>().unwrap()))
    }
}

fn scope_index(h: &Hierarchy, s: &Scope) -> usize {
    h.iter_scopes().position(|x| std::ptr::eq(x, s)).unwrap()
}
fn var_index(h: &Hierarchy, v: &Var) -> usize {
    h.iter_vars().position(|x| std::ptr::eq(x, v)).unwrap()
}

fn walk<'a>(h: &'a Hierarchy, items: impl Iterator<Item = HierarchyItem<'a>>, depth: usize, out: &mut Vec<String>, extra: bool) {
    for item in items {
        match item {
            HierarchyItem::Scope(s) => {
                let mut e = format!(
                    "{}S{}:{}:{}:{}:{}",
                    depth,
                    scope_index(h, s),
                    hex_of_bytes(s.name(h).as_bytes()),
                    hex_of_bytes(s.full_name(h).as_bytes()),
                    scope_type_code(s.scope_type()),
                    s.component(h).map(|c| hex_of_bytes(c.as_bytes())).unwrap_or("~".to_string())
                );
                if extra {
                    e.push_str(&format!(
                        ":{}:{}",
                        s.source_loc(h).map(|(p, l)| format!("{}@{}", hex_of_bytes(p.as_bytes()), l)).unwrap_or("~".to_string()),
                        s.instantiation_source_loc(h).map(|(p, l)| format!("{}@{}", hex_of_bytes(p.as_bytes()), l)).unwrap_or("~".to_string())
                    ));
                }
                out.push(e);
                walk(h, s.items(h), depth + 1, out, extra);
            }
            HierarchyItem::Var(v) => {
                let mut e = format!(
                    "{}V{}:{}:{}:{}:{}:{}:{}:{}",
                    depth,
                    var_index(h, v),
                    hex_of_bytes(v.name(h).as_bytes()),
                    hex_of_bytes(v.full_name(h).as_bytes()),
                    var_type_code(v.var_type()),
                    dir_code(v.direction()),
                    enc_str(v.signal_encoding()),
                    index_str(v.index()),
                    v.signal_ref().index()
                );
                if extra {
                    e.push_str(&format!(
                        ":{}:{}",
                        v.vhdl_type_name(h).map(|c| hex_of_bytes(c.as_bytes())).unwrap_or("~".to_string()),
                        v.enum_type(h)
                            .map(|(n, m)| format!(
                                "{}[{}]",
                                hex_of_bytes(n.as_bytes()),
                                m.iter().map(|(a, b)| format!("{}>{}", hex_of_bytes(a.as_bytes()), hex_of_bytes(b.as_bytes()))).collect::<Vec<_>>().join("+")
                            ))
                            .unwrap_or("~".to_string())
                    ));
                }
                out.push(e);
            }
        }
    }
}

fn refs_str(vars: Vec<VarRef>, scopes: Vec<ScopeRef>) -> String {
    format!(
        "{}/{}",
        vars.iter().map(|v| v.index().to_string()).collect::<Vec<_>>().join("."),
        scopes.iter().map(|v| v.index().to_string()).collect::<Vec<_>>().join(".")
    )
}

/// canonical observation of a hierarchy; `extra` adds attributes only file loaders can set
pub fn hierarchy_obs(h: &Hierarchy, extra: bool) -> String {
    let mut w = Vec::new();
    walk(h, h.items(), 0, &mut w, extra);
    let mut out = format!("walk={}", if w.is_empty() { "-".to_string() } else { w.join("|") });
    out.push_str(&format!(" nv={} ns={}", h.iter_vars().count(), h.iter_scopes().count()));
    // vars()/scopes() of the top level and of every scope
    let mut parts = vec![refs_str(h.vars().collect(), h.scopes().collect())];
    for s in h.iter_scopes() {
        parts.push(refs_str(s.vars(h).collect(), s.scopes(h).collect()));
    }
    out.push_str(&format!(" part={}", parts.join(";")));
    let n = h.num_unique_signals();
    let tpes: Vec<String> = (0..n)
        .map(|i| h.get_signal_tpe(SignalRef::from_index(i).unwrap()).map(enc_str).unwrap_or("-".to_string()))
        .collect();
    out.push_str(&format!(" nsig={} tpes={}", n, if tpes.is_empty() { "-".to_string() } else { tpes.join(",") }));
    out.push_str(&format!(" first={}", h.first_scope().map(|s| hex_of_bytes(s.name(h).as_bytes())).unwrap_or("~".to_string())));
    out
}

pub fn queries_obs(h: &Hierarchy, queries: &[&str]) -> String {
    let mut res = Vec::new();
    for q in queries {
        if let Some(rest) = q.strip_prefix("s/") {
            let path = path_of(rest);
            res.push(h.lookup_scope(&path).map(|r| r.index().to_string()).unwrap_or("~".to_string()));
        } else if let Some(rest) = q.strip_prefix("v/") {
            let f: Vec<&str> = rest.split('=').collect();
            let path = path_of(f[0]);
            let name = s_of_hex(f[1]);
            let r = if f[2] == "*" {
                h.lookup_var(&path, &name)
            } else {
                h.lookup_var_with_index(&path, &name, &parse_index(f[2]))
            };
            res.push(r.map(|r| r.index().to_string()).unwrap_or("~".to_string()));
        }
    }
    if res.is_empty() { "-".to_string() } else { res.join(",") }
}

pub fn run(args: &[&str]) -> String {
    let ops = split(args[0], ';');
    let queries = split(args[1], ';');
    let mut h = HierarchyBuilder::new(FileFormat::Vcd);
    for op in ops {
        let f: Vec<&str> = op.split(':').collect();
        match f[0] {
            "S" => {
                let name = h.add_string(s_of_hex(f[2]));
                let comp = if f[3] == "~" { None } else { Some(h.add_string(s_of_hex(f[3]))) };
                h.add_scope(name, comp, SCOPE_TYPES[f[4].parse::<usize>().unwrap()], None, None, f[1] == "1");
            }
            "V" => {
                let name = h.add_string(s_of_hex(f[1]));
                let enc = match f[4].as_bytes()[0] {
                    b'r' => SignalEncoding::Real,
                    b's' => SignalEncoding::String,
                    _ => SignalEncoding::bit_vec_of_len(f[4][1..].parse::<u32>().unwrap()),
                };
                h.add_var(
                    name,
                    VAR_TYPES[f[2].parse::<usize>().unwrap()],
                    enc,
                    DIRECTIONS[f[3].parse::<usize>().unwrap()],
                    parse_index(f[5]),
                    SignalRef::from_index(f[6].parse::<usize>().unwrap()).unwrap(),
                    None,
                    None,
                );
            }
            "P" => h.pop_scope(),
            _ => panic!("bad op"),
        }
    }
    let h = h.finish();
    format!("{} lk={}", hierarchy_obs(&h, false), queries_obs(&h, &queries))
}

/// `vhdr <flatten 0|1> <filehex>`: viewers::read_header on a Cursor; prints hierarchy (with attributes),
/// date, version, timescale and header length.
pub fn run_vhdr(args: &[&str]) -> String {
    let mut opts = LoadOptions::default();
    opts.remove_scopes_with_empty_name = args[0] == "1";
    let bytes = bytes_of_hex(args[1]);
    let total = bytes.len() as u64;
    match viewers::read_header(std::io::Cursor::new(bytes), &opts) {
        Err(_) => "ERR".to_string(),
        Ok(header) => {
            let h = &header.hierarchy;
            let unit = match h.timescale().map(|t| t.unit) {
                None => 9,
                Some(TimescaleUnit::FemtoSeconds) => 0,
                Some(TimescaleUnit::PicoSeconds) => 1,
                Some(TimescaleUnit::NanoSeconds) => 2,
                Some(TimescaleUnit::MicroSeconds) => 3,
                Some(TimescaleUnit::MilliSeconds) => 4,
                Some(TimescaleUnit::Seconds) => 5,
                Some(TimescaleUnit::Unknown) => 6,
            };
            format!(
                "{} date={} version={} ts={} hl={}",
                hierarchy_obs(h, true),
                hex_of_bytes(h.date().as_bytes()),
                hex_of_bytes(h.version().as_bytes()),
                h.timescale().map(|t| format!("{}:{}", t.factor, unit)).unwrap_or("~".to_string()),
                total - header.body_len
            )
        }
    }
}
