#!/bin/bash
# usage: mutant_check.sh <seeded-id> <Cxx> [<Cyy> ...]
# applies /verif/seeded/<id>/patch.diff to /repo, runs the listed checks (quick), reverts, records the outcome.
ID=$1; shift
D=/verif/seeded/$ID
cd /verif
git -C /repo diff --quiet || { echo "/repo is dirty"; exit 2; }
git -C /repo apply $D/patch.diff || { echo "$ID: patch does not apply to /repo HEAD"; exit 2; }
RES=""
for P in "$@"; do
  out=$(timeout 1500 ./check $P 2>&1); rc=$?
  v=$(echo "$out" | grep "^VIOLATION" | head -1)
  echo "$ID $P rc=$rc $v"
  RES="$RES$P:$rc:$(echo $v | sed 's/"/ /g');"
  if [ $rc = 1 ]; then r=$(echo "$v" | sed -n 's/.*replay=\([^ ]*\).*/\1/p'); [ -n "$r" ] && cp "$r" $D/replay-$P.json 2>/dev/null; fi
done
git -C /repo checkout -- .
python3 - "$D/meta.json" "$RES" <<'PY'
import json,sys
m=json.load(open(sys.argv[1]))
det=m.get("detected_by") or {}
if not isinstance(det,dict): det={}
for item in sys.argv[2].split(";"):
    if not item: continue
    p,rc,v=item.split(":",2)
    det[p]={"exit":int(rc),"line":v}
m["detected_by"]=det
json.dump(m,open(sys.argv[1],"w"),indent=1)
PY
