(* Property C15 for real-valued and string-valued variables: the store half and the any-cut theorem of
   Proofs/TruncProofs.v on the recordings of Spec.StoreSpec.recorded_rs. *)
From Coq Require Import Lia.
From WV Require Import Model.Base Generated.Consts Model.Bits Model.Leb128 Model.WaveMem Model.VcdBody
  Spec.TimeSpec Spec.StoreSpec Proofs.BitsProofs Proofs.StoreProofs Proofs.TimeTableProofs Proofs.EncoderProofs
  Proofs.RealStringProofs Proofs.RealStringEnc Proofs.CanonProofs Proofs.BodyProofs Proofs.VcdStreamProofs Proofs.PrefixProofs
  Proofs.TokenProofs Proofs.CutProofs Proofs.TilingProofs Proofs.MtProofs Proofs.MtRsProofs Proofs.TruncProofs.
Open Scope N_scope.

Lemma recorded_rs_times_only id : forall tms tbl sk, forallb is_optime tms = true -> recorded_rs id tms tbl sk = [].
Proof.
  induction tms as [|op tms IH]; intros tbl sk H; [reflexivity|]. cbn [forallb] in H. apply andb_prop in H as [Ho H].
  destruct op; try discriminate. cbn [recorded_rs]. destruct (last_of tbl) as [p|]; [destruct (N.compare p t)|]; now apply IH.
Qed.

Lemma recorded_rs_no_times id : forall vals tbl sk, forallb (fun op => negb (is_optime op)) vals = true ->
  Forall (fun r : N * rs_val => fst r = N.of_nat (length tbl) - 1) (recorded_rs id vals tbl sk).
Proof.
  induction vals as [|op vals IH]; intros tbl sk H; [constructor|]. cbn [forallb] in H. apply andb_prop in H as [Ho H].
  destruct op as [t|i v|i d st|i le]; try discriminate; cbn [recorded_rs].
  - destruct (sk || negb (Nat.eqb i id)); [now apply IH|]. constructor; [reflexivity|now apply IH].
  - now apply IH.
  - destruct (sk || negb (Nat.eqb i id)); [now apply IH|]. constructor; [reflexivity|now apply IH].
Qed.

Lemma recorded_rs_idx_ge id : forall ops tbl sk, Forall (fun r : N * rs_val => N.of_nat (length tbl) - 1 <= fst r) (recorded_rs id ops tbl sk).
Proof.
  induction ops as [|op ops IH]; intros tbl sk; [constructor|]. destruct op as [t|i v|i d st|i le]; cbn [recorded_rs].
  - assert (Hgrow : Forall (fun r : N * rs_val => N.of_nat (length tbl) - 1 <= fst r) (recorded_rs id ops (tbl ++ [t]) false)).
    { eapply Forall_impl; [|apply IH]. intros r Hr. cbn beta in *. rewrite app_length in Hr. cbn [length] in Hr. lia. }
    destruct (last_of tbl) as [p|]; [destruct (N.compare p t)|]; try apply IH; exact Hgrow.
  - destruct (sk || negb (Nat.eqb i id)); [apply IH|]. constructor; [cbn [fst]; lia|apply IH].
  - apply IH.
  - destruct (sk || negb (Nat.eqb i id)); [apply IH|]. constructor; [cbn [fst]; lia|apply IH].
Qed.


Lemma ops_cost_app' id a b : ops_cost id (a ++ b) = ops_cost id a + ops_cost id b.
Proof. induction a as [|op a IH]; [reflexivity|]. destruct op; cbn [app ops_cost]; rewrite ?IH; lia. Qed.

Lemma gdedup_by_in (l : list gent) : forall prev a, In a (dedup_by list_eqb snd l prev) -> In a l.
Proof.
  induction l as [|x l IH]; intros prev a H; cbn [dedup_by] in H; [exact H|].
  destruct prev as [p|].
  - destruct (list_eqb _ _); [right; eapply IH; eauto|]. destruct H as [->|H]; [now left|right; eapply IH; eauto].
  - destruct H as [->|H]; [now left|right; eapply IH; eauto].
Qed.

Lemma gdedup_by_sub (l : list gent) (P : gent -> Prop) : forall prev, Forall P l -> Forall P (dedup_by list_eqb snd l prev).
Proof. intros prev H. rewrite Forall_forall in *. intros a Ha. apply H. eapply gdedup_by_in; eauto. Qed.

Section TruncRs.
Variable parse_f64 : list byte -> option (list byte).
Hypothesis parse_f64_len : forall r le, parse_f64 r = Some le -> length le = 8%nat.
Variable lz_compress : list byte -> list byte.
Variable lz_decompress : list byte -> nat -> option (list byte).
Hypothesis lz_ok : forall d n, (length d <= n)%nat -> lz_decompress (lz_compress d) n = Some d.
Variable cap : N.
Hypothesis cap_pos : 1 <= cap.
Hypothesis cap_u16 : cap <= 65536.

Definition rend (str : bool) (a : gent) : N * value_kind * list byte := (fst a, if str then KString else KReal, snd a).

Lemma gdecodes_fun' str : forall R1 R2 rec, Forall2 (gdecodes parse_f64 str) R1 rec -> Forall2 (gdecodes parse_f64 str) R2 rec -> R1 = R2.
Proof. exact (gdecodes_fun parse_f64 str). Qed.

Theorem cut_history_report_rs id str tpes oc tms vals more e1 e2 b1 t1 b2 t2 :
  nth_error tpes id = Some (rs_tpe str) ->
  Forall (rs_op_ok id str) (oc ++ tms ++ vals) -> Forall (rs_op_ok id str) (oc ++ more) ->
  ops_cost id (oc ++ tms ++ vals) < 4294967264 ->
  ops_cost id (oc ++ more) < 4294967264 ->
  forallb is_optime tms = true -> forallb (fun op => negb (is_optime op)) vals = true ->
  run_ops parse_f64 lz_compress cap (enc_new tpes) (oc ++ tms ++ vals) = Ok e1 ->
  run_ops parse_f64 lz_compress cap (enc_new tpes) (oc ++ more) = Ok e2 ->
  enc_finish lz_compress e1 = Ok (b1, t1) -> enc_finish lz_compress e2 = Ok (b2, t2) ->
  N.of_nat (length t1) < 4294967296 -> N.of_nat (length t2) < 4294967296 ->
  (length tms <= 1)%nat -> (tms <> [] -> vals <> [] -> oc = []) ->
  (forall t, tms = [OpTime t] -> vals = [] -> more = [] \/ exists t' r, more = OpTime t' :: r /\ t <= t') ->
  exists T0 L0 s1 s2 extra rest2,
    is_prefix T0 t1 /\ is_prefix T0 t2 /\ (length t1 <= length T0 + length tms)%nat /\
    load_signal lz_decompress b1 id (rs_tpe str) = Ok s1 /\ observe_signal s1 = Ok (L0 ++ extra) /\
    load_signal lz_decompress b2 id (rs_tpe str) = Ok s2 /\ observe_signal s2 = Ok (L0 ++ rest2) /\
    Forall (fun x : N * value_kind * list byte => fst (fst x) = N.of_nat (length t1) - 1) extra /\
    Forall (fun x : N * value_kind * list byte => N.of_nat (length t1) - 1 <= fst (fst x)) rest2.
Proof.
  intros Htp Hok1 Hok2 Hbud1 Hbud2 Htm Hvl Hr1 Hr2 Hf1 Hf2 Hl1 Hl2 Hlt Himp Hmore.
  destruct (run_ops_split parse_f64 lz_compress cap oc _ _ _ Hr1) as (e0 & Hr0 & _).
  destruct (time_table_spec parse_f64 lz_compress cap cap_pos tpes oc e0 Hr0) as (b0 & Hf0).
  destruct (time_table_spec parse_f64 lz_compress cap cap_pos tpes _ e1 Hr1) as (bb1 & Ht1). rewrite Hf1 in Ht1. inversion Ht1; subst t1 bb1.
  destruct (time_table_spec parse_f64 lz_compress cap cap_pos tpes _ e2 Hr2) as (bb2 & Ht2). rewrite Hf2 in Ht2. inversion Ht2; subst t2 bb2.
  set (T0 := accepted (times_of oc)) in *.
  assert (Hp1 : is_prefix T0 (accepted (times_of (oc ++ tms ++ vals)))) by (rewrite times_of_app; apply accepted_app).
  assert (Hp2 : is_prefix T0 (accepted (times_of (oc ++ more)))) by (rewrite times_of_app; apply accepted_app).
  assert (Hl0 : N.of_nat (length T0) < 4294967296) by (destruct Hp2 as (r & E); rewrite E, app_length in Hl2; lia).
  apply Forall_app in Hok1 as Hok1'. destruct Hok1' as [Hok0 _].
  assert (Hbud0 : ops_cost id oc < 4294967264) by (rewrite ops_cost_app' in Hbud2; lia).
  destruct (storage_transparent_rs parse_f64 parse_f64_len lz_compress lz_decompress lz_ok cap cap_pos cap_u16 id str tpes oc e0 b0 _ Htp Hok0 Hbud0 Hr0 Hf0 Hl0) as (R0 & s0 & Hd0 & _ & _ & _).
  destruct (storage_transparent_rs parse_f64 parse_f64_len lz_compress lz_decompress lz_ok cap cap_pos cap_u16 id str tpes _ e1 b1 _ Htp Hok1 Hbud1 Hr1 Hf1 Hl1) as (R1 & s1 & Hd1 & _ & Hload1 & Hobs1).
  destruct (storage_transparent_rs parse_f64 parse_f64_len lz_compress lz_decompress lz_ok cap cap_pos cap_u16 id str tpes _ e2 b2 _ Htp Hok2 Hbud2 Hr2 Hf2 Hl2) as (R2 & s2 & Hd2 & _ & Hload2 & Hobs2).
  (* the truncated recording *)
  rewrite recorded_rs_app_exact in Hd1. destruct (forall2_app_inv_r _ R1 _ _ Hd1) as (R1a & Rx & -> & Ha1 & Hx).
  assert (R1a = R0) by (eapply (gdecodes_fun' str); eauto). subst R1a.
  rewrite recorded_rs_app_exact, (recorded_rs_times_only id tms _ _ Htm) in Hx. cbn [app] in Hx.
  (* the complete recording *)
  rewrite recorded_rs_app_exact in Hd2.
  destruct (forall2_app_inv_r _ R2 _ _ Hd2) as (R2a & Ry & -> & Ha2 & Hy).
  assert (R2a = R0) by (eapply (gdecodes_fun' str); eauto). subst R2a.
  unfold gdedup in Hobs1, Hobs2.
  destruct (dedup_by_app list_eqb (@snd N (list byte)) R0 Rx None) as (p1 & E1). destruct (dedup_by_app list_eqb (@snd N (list byte)) R0 Ry None) as (p2 & E2).
  unfold byte in *. rewrite E1, map_app in Hobs1. rewrite E2, map_app in Hobs2.
  exists T0, (map (rend str) (dedup_by list_eqb snd R0 None)), s1, s2, (map (rend str) (dedup_by list_eqb snd Rx p1)), (map (rend str) (dedup_by list_eqb snd Ry p2)).
  split; [exact Hp1|]. split; [exact Hp2|]. split.
  { rewrite !times_of_app, (times_no_times vals Hvl), app_nil_r. unfold accepted. rewrite fold_left_app. fold (accepted (times_of oc)). fold T0.
    clear. generalize T0. assert (Hlen : (length (times_of tms) <= length tms)%nat).
    { induction tms as [|op tms IH]; [cbn; lia|]. destruct op; unfold times_of in *; cbn [flat_map app length]; lia. }
    revert Hlen. generalize (times_of tms). intros ts. revert tms. induction ts as [|t ts IH]; intros tms Hlen T; cbn [fold_left]; [lia|].
    destruct tms as [|op tms]; [cbn in Hlen; lia|]. cbn [length] in *. specialize (IH tms ltac:(lia) (accept T t)).
    assert (length (accept T t) <= S (length T))%nat.
    { unfold accept. destruct (last_of T) as [p|]; [destruct (p <? t)|]; rewrite ?app_length; cbn [length]; lia. }
    lia. }
  split; [exact Hload1|]. split; [exact Hobs1|]. split; [exact Hload2|]. split; [exact Hobs2|].
  assert (Hacc1 : accepted (times_of (oc ++ tms ++ vals)) = fold_left accept (times_of tms) T0).
  { rewrite !times_of_app, (times_no_times vals Hvl), app_nil_r. unfold accepted. now rewrite fold_left_app. }
  split.
  2:{ (* what the complete file adds lies at or after the truncated file's last time *)
      apply Forall_map. apply gdedup_by_sub.
      assert (Hidx : Forall (fun r : N * rs_val => N.of_nat (length (accepted (times_of (oc ++ tms ++ vals)))) - 1 <= fst r)
                            (recorded_rs id more (fold_left accept (times_of oc) []) (skip_after oc [] false))).
      { fold (accepted (times_of oc)). fold T0. rewrite Hacc1.
        destruct tms as [|[t| | |] [|op2 tms']]; try (cbn in Hlt; lia); try discriminate.
        - cbn [times_of flat_map fold_left]. apply recorded_rs_idx_ge.
        - unfold times_of. cbn [flat_map app fold_left]. destruct (accept_shape T0 t) as [->|[-> Hlast]]; [apply recorded_rs_idx_ge|].
          rewrite app_length. cbn [length]. replace (N.of_nat (length T0 + 1) - 1) with (N.of_nat (length T0)) by lia.
          destruct vals as [|vop vals'].
          + destruct (Hmore t eq_refl eq_refl) as [->|(t' & r & -> & Hle)]; [constructor|]. cbn [recorded_rs].
            assert (Hgrow : Forall (fun r0 : N * rs_val => N.of_nat (length T0) <= fst r0) (recorded_rs id r (T0 ++ [t']) false)).
            { eapply Forall_impl; [|apply recorded_rs_idx_ge]. intros r0 Hq0. cbn beta in *. rewrite app_length in Hq0. cbn [length] in Hq0. lia. }
            destruct (last_of T0) as [p|]; [|exact Hgrow]. destruct (N.compare_spec p t'); try lia. exact Hgrow.
          + (* a time stamp followed by a change is the implicit time 0 of a file that recorded nothing before *)
            apply Forall_forall. intros r0 _. pose proof (Himp ltac:(discriminate) ltac:(discriminate)) as Eoc. unfold T0. rewrite Eoc. cbn. apply N.le_0_l. }
      clear -Hy Hidx. revert Hy Hidx. generalize (recorded_rs id more (fold_left accept (times_of oc) []) (skip_after oc [] false)).
      intros rec Hy. induction Hy as [|a r Ry rec Ha _ IH]; intros Hidx; [constructor|]. apply Forall_cons_iff in Hidx as [Hr Hidx].
      constructor; [|now apply IH]. destruct a as [g pl]. destruct Ha as (Hg & _). unfold rend. cbn [fst]. cbn [fst] in Hg. now rewrite Hg. }
  (* everything added lies at the last time *)
  apply Forall_map. apply gdedup_by_sub.
  assert (Hidx : Forall (fun r : N * rs_val => fst r = N.of_nat (length (accepted (times_of (oc ++ tms ++ vals)))) - 1)
                        (recorded_rs id vals (fold_left accept (times_of tms) (fold_left accept (times_of oc) [])) (skip_after tms (fold_left accept (times_of oc) []) (skip_after oc [] false)))).
  { rewrite Hacc1. unfold T0, accepted. apply recorded_rs_no_times. exact Hvl. }
  clear -Hx Hidx. revert Hx Hidx. generalize (recorded_rs id vals (fold_left accept (times_of tms) (fold_left accept (times_of oc) [])) (skip_after tms (fold_left accept (times_of oc) []) (skip_after oc [] false))).
  intros rec Hx. induction Hx as [|a r Rx rec Ha _ IH]; intros Hidx; [constructor|]. apply Forall_cons_iff in Hidx as [Hr Hidx].
  constructor; [|now apply IH]. destruct a as [g pl]. destruct Ha as (Hg & _). unfold rend. cbn [fst]. cbn [fst] in Hg. now rewrite Hg.
Qed.

(* Property C15 for a cut at ANY byte of the body, real-valued and string-valued variables *)
Theorem truncated_any_cut_rs debug tpes lookup (a b : list byte) stop id str e1 e2 b1 t1 b2 t2 :
  nth_error tpes id = Some (rs_tpe str) ->
  read_single_stream parse_f64 lz_compress cap debug tpes lookup a stop true = Ok e1 ->
  read_single_stream parse_f64 lz_compress cap debug tpes lookup (a ++ b) stop true = Ok e2 ->
  enc_finish lz_compress e1 = Ok (b1, t1) -> enc_finish lz_compress e2 = Ok (b2, t2) ->
  N.of_nat (length t1) < 4294967296 -> N.of_nat (length t2) < 4294967296 ->
  (forall x ops, (x = a \/ x = a ++ b) -> ops_of lookup true false (fst (parse_body debug x stop)) = Some ops ->
               Forall (rs_op_ok id str) ops /\ ops_cost id ops < 4294967264) ->
  exists T0 L0 s1 s2 extra rest2,
    is_prefix T0 t1 /\ is_prefix T0 t2 /\ (length t1 <= length T0 + 1)%nat /\
    load_signal lz_decompress b1 id (rs_tpe str) = Ok s1 /\ observe_signal s1 = Ok (L0 ++ extra) /\
    load_signal lz_decompress b2 id (rs_tpe str) = Ok s2 /\ observe_signal s2 = Ok (L0 ++ rest2) /\
    Forall (fun x : N * value_kind * list byte => fst (fst x) = N.of_nat (length t1) - 1) extra /\
    Forall (fun x : N * value_kind * list byte => N.of_nat (length t1) - 1 <= fst (fst x)) rest2.
Proof.
  intros Htp Hr1 Hr2 Hf1 Hf2 Hl1 Hl2 Hbud.
  destruct (prefix_events_time debug stop a b) as (common & tail & rest & Hev & Hfull & Htl & Hnext).
  pose proof (Hbud a) as Hbud1. pose proof (Hbud (a ++ b)) as Hbud2. clear Hbud.
  unfold read_single_stream in Hr1, Hr2.
  destruct (parse_body debug a stop) as [evs1 pres1] eqn:Ep1. destruct (parse_body debug (a ++ b) stop) as [evs2 pres2] eqn:Ep2.
  cbn [fst snd] in *. subst evs1 evs2.
  destruct (feed_events parse_f64 lz_compress cap lookup (mk_ve (enc_new tpes) true false) (common ++ tail)) as [ve1| |] eqn:Ef1; try discriminate.
  cbn [bind] in Hr1. destruct pres1; try discriminate. inversion Hr1; subst e1.
  destruct (feed_events parse_f64 lz_compress cap lookup (mk_ve (enc_new tpes) true false) (common ++ rest)) as [ve2| |] eqn:Ef2; try discriminate.
  cbn [bind] in Hr2. destruct pres2; try discriminate. inversion Hr2; subst e2.
  destruct (feed_events_ops parse_f64 lz_compress cap lookup _ _ _ _ _ Ef1) as (ops1 & Ho1 & Hro1).
  destruct (feed_events_ops parse_f64 lz_compress cap lookup _ _ _ _ _ Ef2) as (ops2 & Ho2 & Hro2).
  destruct (Hbud1 ops1 (or_introl eq_refl) Ho1) as [Hok1 Hc1]. destruct (Hbud2 ops2 (or_intror eq_refl) Ho2) as [Hok2 Hc2].
  destruct (ops_of_app_strong lookup _ _ _ _ _ Ho1) as (oc & f' & otl & Hoc & Hotl & E1 & _ & Hz1). subst ops1.
  destruct (ops_of_app_strong lookup _ _ _ _ _ Ho2) as (oc' & f2 & more & Hoc' & Hmore & E2 & _ & _). subst ops2.
  rewrite Hoc in Hoc'. injection Hoc' as <-.
  destruct (ops_of_short parse_f64 lz_compress lz_decompress lz_ok cap cap_pos cap_u16 lookup true f' tail otl Htl Hotl) as (tms & vals & -> & Htm & Hvl & Hlt & Htime & Himp).
  assert (Himp' : tms <> [] -> vals <> [] -> oc = []) by (intros N1 N2; apply Hz1; [reflexivity|now apply Himp]).
  assert (Hmore' : forall t, tms = [OpTime t] -> vals = [] -> more = [] \/ exists t' r, more = OpTime t' :: r /\ t <= t').
  { intros t Et Ev. destruct (Hnext t (Htime t Et Ev)) as [->|(v' & r & -> & Hle)].
    - cbn [ops_of] in Hmore. injection Hmore as <-. now left.
    - cbn [ops_of] in Hmore. destruct (ops_of lookup true true r) as [o|]; [|discriminate]. injection Hmore as <-. right. eauto. }
  destruct (cut_history_report_rs id str tpes oc tms vals more _ _ b1 t1 b2 t2 Htp Hok1 Hok2 Hc1 Hc2 Htm Hvl Hro1 Hro2 Hf1 Hf2 Hl1 Hl2 Hlt Himp' Hmore')
    as (T0 & L0 & s1 & s2 & extra & rest2 & H1 & H2 & H3 & H4 & H5 & H6 & H7 & H8 & H9).
  exists T0, L0, s1, s2, extra, rest2. repeat split; try assumption. lia.
Qed.

End TruncRs.
