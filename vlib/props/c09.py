"""C09 - VCD declarations appear in the hierarchy as declared."""
from .. import core, gen
from . import vcdfam, c08

PID = "C09"
LEVEL = "proof"
RULE = ("abstract declaration trees (scopes of every accepted kind, variables of every accepted kind, widths 0..4096, bit ranges "
        "[i] / [msb:lsb] with negative bounds and optional spaces, 0..3 extra bracket groups, dense / gapped / hashed identifier "
        "codes with aliases, re-opened same-named scopes, empty scope names, $attrbegin misc 02/03/04 extensions, $date/$version/"
        "$timescale/$comment anywhere) are printed as VCD headers and loaded with both values of remove_scopes_with_empty_name. "
        "Oracle: hierarchy computed from the abstract tree by the rose-tree specification of C08 (kind, name, full name, width, "
        "index, signal sharing, type name, source locator), date/version/timescale as written, header length. Exhaustive: every "
        "scope and variable keyword, every index form x sign combination. Non-trivial: the header has a bit range or an array "
        "group or a re-opened/empty scope or hashed ids or an attribute; distinct headers.")
ASSUMPTIONS = ["blank space inside a command is limited to spaces (find_tokens splits on ' ' only); names are ASCII"]
TRUSTED_BASE = ["Python declaration printer and rose-tree oracle (c09.py, c08.Spec)"]

SCOPE_KW = ["module", "task", "function", "begin", "fork", "generate", "struct", "union", "class", "interface", "package",
            "program", "vhdl_architecture", "vhdl_procedure", "vhdl_function", "vhdl_record", "vhdl_process", "vhdl_block",
            "vhdl_for_generate", "vhdl_if_generate", "vhdl_generate", "vhdl_package"]
# VarType in declaration order (harness/src/hier.rs VAR_TYPES)
VAR_TYPES = ["Event", "Integer", "Parameter", "Real", "Reg", "Supply0", "Supply1", "Time", "Tri", "TriAnd", "TriOr", "TriReg",
             "Tri0", "Tri1", "WAnd", "Wire", "WOr", "String", "Port", "SparseArray", "RealTime", "Bit", "Logic", "Int",
             "ShortInt", "LongInt", "Byte", "Enum", "ShortReal", "Boolean", "BitVector", "StdLogic", "StdLogicVector",
             "StdULogic", "StdULogicVector"]
VAR_KW = {"wire": "Wire", "reg": "Reg", "parameter": "Parameter", "integer": "Integer", "string": "String", "event": "Event",
          "real": "Real", "real_parameter": "Parameter", "supply0": "Supply0", "supply1": "Supply1", "time": "Time", "tri": "Tri",
          "triand": "TriAnd", "trior": "TriOr", "trireg": "TriReg", "tri0": "Tri0", "tri1": "Tri1", "wand": "WAnd", "wor": "WOr",
          "logic": "Logic", "port": "Port", "sparray": "SparseArray", "realtime": "RealTime", "bit": "Bit", "int": "Int",
          "shortint": "ShortInt", "longint": "LongInt", "byte": "Byte", "enum": "Enum", "shortread": "ShortReal"}
VHDL_DATA = {1: "Boolean", 2: "Bit", 3: "BitVector", 4: "StdULogic", 5: "StdULogicVector", 6: "StdLogic", 7: "StdLogicVector",
             10: "Integer", 11: "Real", 14: "Time", 16: "String"}
UNITS = {"fs": 0, "ps": 1, "ns": 2, "us": 3, "ms": 4, "s": 5}


def hx(s):
    return s.encode().hex() if s else "-"


def sp(rng):
    return rng.choice([" ", " ", "  ", "   "])


class HeaderGen:
    def __init__(self, rng, flatten, regime):
        self.rng = rng
        self.flatten = flatten
        self.regime = regime
        self.lines = []
        self.spec = c08.Spec()
        self.ids = []            # identifier codes in order of first appearance
        self.pending_type = None
        self.pending_loc = None
        self.paths = {}
        self.special = regime == "hashed"
        self.next_dense = 0

    def new_id(self):
        rng = self.rng
        if self.ids and rng.random() < 0.2:
            return rng.choice(self.ids)                       # alias
        if self.regime == "dense":
            v = self.next_dense
            self.next_dense += 1
        elif self.regime == "gaps":
            v = self.next_dense + rng.randint(0, 30)
            self.next_dense = v + 1
        else:
            v = 94 ** 4 * 3 + len(self.ids) * 7919 + rng.randint(0, 1000) * 94 ** 2
        code = gen.id_code(v)
        while code in self.ids:
            v += 1
            code = gen.id_code(v)
        self.ids.append(code)
        return code

    def sig_ref(self, code):
        if self.regime == "hashed":
            return self.ids.index(code) + 1
        return gen.id_to_int(code)

    def emit(self, text):
        rng = self.rng
        self.lines.append(text + rng.choice(["\n", "\n", " ", "\n\n", "\r\n"]))

    def meta(self, kind, value):
        self.emit("$%s%s%s%s$end" % (kind, self.rng.choice([" ", "\n", "\n  "]), value, self.rng.choice([" ", "\n", "  \n "])))

    def attr_type(self):
        rng = self.rng
        dt = rng.choice(list(VHDL_DATA) + [0, 8, 9, 12, 13, 15])
        vt = rng.randint(0, 5)
        name = rng.choice(["STD_LOGIC_VECTOR", "bit", "my_type"])
        self.emit("$attrbegin misc 02 %s %d $end" % (name, vt * 1024 + dt))
        self.pending_type = (name, dt)
        self.special = True

    def attr_loc(self):
        rng = self.rng
        pid = rng.randint(0, 3)
        if pid not in self.paths or rng.random() < 0.3:
            path = rng.choice(["/home/a.vhd", "b.v", "c/d.sv"])
            self.paths[pid] = path
            self.emit("$attrbegin misc 03 %s %d $end" % (path, pid))
        line = rng.choice([rng.randint(0, 5000), rng.randint(0, 5000), 2 ** 32, 2 ** 63 - 1, 2 ** 63, 2 ** 63 + 7, 2 ** 64 - 1])
        self.emit("$attrbegin misc 04 %d %d $end" % (pid, line))
        if self.pending_loc is None:
            self.pending_loc = (self.paths[pid], line)
        self.special = True

    def scope(self, name, kw):
        rng = self.rng
        self.emit("$scope%s%s%s%s%s$end" % (sp(rng), kw, sp(rng), name, sp(rng) if name else " "))
        flat = self.flatten and name == ""
        before = self.spec.nscopes
        self.spec.open(name, flat, SCOPE_KW.index(kw), None)
        if self.spec.nscopes > before and self.pending_loc:
            node = self.spec.stack[-1]
            node["decl"] = self.pending_loc
        self.pending_loc = None
        self.pending_type = None   # scope attributes are consumed (type info on a scope would be a debug assert: not generated)
        if name == "" or self.spec.reopened:
            self.special = True

    def upscope(self):
        self.emit("$upscope%s$end" % sp(self.rng))
        self.spec.pop()

    def var(self):
        rng = self.rng
        kw = rng.choice(list(VAR_KW))
        width = rng.choice([0, 1, 1, 2, 8, 16, 32, 64, 65, 4096, rng.randint(0, 300)])
        code = self.new_id()
        base = rng.choice(["a", "b", "clk", "data", "x_y", "sig$1", "q"])
        groups = []
        for _ in range(rng.choice([0, 0, 0, 1, 2, 3])):
            groups.append("[%d]" % rng.randint(0, 9))
        form = rng.choice(["none", "none", "bit", "range", "range", "negrange"])
        index = "~"
        idx_txt = ""
        if form == "bit":
            i = rng.choice([0, 1, 7, 31, -1, -5, 123456])
            idx_txt = "[%d]" % i
            index = "%d/%d" % (i, i)
        elif form == "range":
            m, l = rng.choice([(7, 0), (0, 7), (31, 0), (3, 1), (width - 1 if width else 0, 0), (15, 8)])
            idx_txt = "[%d:%d]" % (m, l)
            index = "%d/%d" % (m, l)
        elif form == "negrange":
            m, l = rng.choice([(1, -1), (-1, -8), (-4, -1), (0, -3)])
            idx_txt = "[%d:%d]" % (m, l)
            index = "%d/%d" % (m, l)
        pieces = [base] + groups + ([idx_txt] if idx_txt else [])
        if not idx_txt and groups:
            # the last bracket group of a name is its bit index, only the groups before it are array scopes
            last = groups[-1]
            i = int(last[1:-1])
            index = "%d/%d" % (i, i)
            idx_txt = last
            groups = groups[:-1]
        text = pieces[0]
        for p in pieces[1:]:
            text += rng.choice(["", "", " ", "  "]) + p
        self.emit("$var%s%s%s%d%s%s%s%s%s$end" % (sp(rng), kw, sp(rng), width, sp(rng), code.decode("latin1"), sp(rng), text, sp(rng)))
        tname = VAR_KW[kw]
        enc = "s" if tname == "String" else ("r" if tname in ("Real", "RealTime", "ShortReal") else "b%d" % (width if width else 1))
        type_name = None
        if self.pending_type:
            type_name, dt = self.pending_type
            if dt in VHDL_DATA:
                tname = VHDL_DATA[dt]
        self.pending_type = None
        self.pending_loc = None
        if groups or idx_txt:
            self.special = True
        # array scopes: base, then all groups but the last; the variable is named after the last group
        if groups:
            scopes = [base] + groups[:-1]
            for s in scopes:
                self.spec.open(s, False, 23, None)
            self.spec.var(groups[-1], VAR_TYPES.index(tname), 0, enc, index, self.sig_ref(code))
            self.spec.parent()["children"][-1]["type_name"] = type_name
            for _ in scopes:
                self.spec.pop()
        else:
            self.spec.var(base, VAR_TYPES.index(tname), 0, enc, index, self.sig_ref(code))
            self.spec.parent()["children"][-1]["type_name"] = type_name


def walk_extra(spec):
    out = []

    def go(node, d):
        for c in node["children"]:
            if c["kind"] == "S":
                decl = c.get("decl")
                out.append("%dS%d:%s:%s:%d:~:%s:~" % (d, c["idx"], hx(c["name"]), hx(c["full"]), c["tpe"],
                                                      ("%s@%d" % (hx(decl[0]), decl[1])) if decl else "~"))
                go(c, d + 1)
            else:
                out.append("%dV%d:%s:%s:%d:%d:%s:%s:%d:%s:~" % (d, c["idx"], hx(c["name"]), hx(c["full"]), c["tpe"], c["dir"],
                                                                 c["enc"], c["index"], c["sig"],
                                                                 hx(c["type_name"]) if c.get("type_name") else "~"))
    go(spec.root, 0)
    return out


def gen_header(rng, flatten, regime=None):
    regime = regime or rng.choice(["dense", "dense", "gaps", "hashed"])
    g = HeaderGen(rng, flatten, regime)
    meta = {"date": "", "version": "", "ts": "~"}
    todo_meta = []
    if rng.random() < 0.7:
        d = rng.choice(["Mon Jan 1 2024", "today", "x", "Mon Feb 22 19:49:29 2021\n    (UTC+1)", "a\tb", "line 1\r\nline 2\n\nline 4"])
        todo_meta.append(("date", d))
        meta["date"] = d
    if rng.random() < 0.7:
        v = rng.choice(["Icarus Verilog", "tool 1.0  beta", "v", "tool\n  build 7\n  (x86)", "t\tv"])
        todo_meta.append(("version", v))
        meta["version"] = v
    if rng.random() < 0.8:
        f = rng.choice([1, 10, 100, 1000, 5])
        u = rng.choice(list(UNITS) + ["xs"])
        todo_meta.append(("timescale", rng.choice(["%d%s" % (f, u), "%d %s" % (f, u)])))
        meta["ts"] = "%d:%d" % (f, UNITS.get(u, 6))
    if rng.random() < 0.3:
        todo_meta.append(("comment", "some comment text"))
    rng.shuffle(todo_meta)
    depth = 0
    nitems = rng.randint(1, 25)
    for _ in range(nitems):
        if todo_meta and rng.random() < 0.3:
            k, v = todo_meta.pop()
            g.meta(k, v)
        r = rng.random()
        if r < 0.3:
            if rng.random() < 0.25:
                g.attr_loc()
            g.scope(rng.choice(["top", "u0", "u1", "", "a", "top"]), rng.choice(SCOPE_KW))
            depth += 1
        elif r < 0.75:
            if rng.random() < 0.2:
                g.attr_type()
            g.var()
        elif depth > 0:
            g.upscope()
            depth -= 1
    while depth > 0 and rng.random() < 0.8:
        g.upscope()
        depth -= 1
    for k, v in todo_meta:
        g.meta(k, v)
    g.emit("$enddefinitions $end")
    text = "".join(g.lines)
    # the header ends directly after the `$end` of $enddefinitions
    text = text[:text.rindex("$end") + 4]
    return g, meta, text


def expected(g, meta, text):
    base = g.spec.obs([])
    # replace the walk by the one with attributes and drop the lookup part
    w = walk_extra(g.spec)
    rest = base.split(" ", 1)[1].rsplit(" lk=", 1)[0]
    return "walk=%s %s date=%s version=%s ts=%s hl=%d" % ("|".join(w) or "-", rest, hx(meta["date"]), hx(meta["version"]),
                                                       meta["ts"], len(text))


def run(res, rng, tier, model_ok, replay=None):
    cases = []
    if replay:
        line = replay.get("case") or replay["broken_correspondence"]["case"]
        cases.append({"line": line})
    else:
        # exhaustive keyword sweeps
        for kw in SCOPE_KW + ["bogus", "MODULE", ""]:
            text = "$scope %s s1 $end $var wire 1 ! a $end $upscope $end $enddefinitions $end" % kw
            exp = None
            if kw in SCOPE_KW:
                exp = ("walk=0S0:7331:7331:%d:~:~:~|1V0:61:73312e61:15:0:b1:~:0:~:~ nv=1 ns=1 part=/0;0/ nsig=1 tpes=b1 first=7331 "
                       "date=- version=- ts=~ hl=%d" % (SCOPE_KW.index(kw), len(text)))
            cases.append({"line": "vhdr 0 %s" % text.encode().hex(), "expect": exp, "klass": "scope-keywords", "key": ("skw", kw) if exp else None})
        for kw in list(VAR_KW) + ["bogus", "WIRE"]:
            text = "$var %s 5 ! a [4:0] $end $enddefinitions $end" % kw
            exp = None
            if kw in VAR_KW:
                t = VAR_KW[kw]
                enc = "s" if t == "String" else ("r" if t in ("Real", "RealTime", "ShortReal") else "b5")
                exp = ("walk=0V0:61:61:%d:0:%s:4/0:0:~:~ nv=1 ns=0 part=0/ nsig=1 tpes=%s first=~ date=- version=- ts=~ hl=%d"
                       % (VAR_TYPES.index(t), enc, enc, len(text)))
            cases.append({"line": "vhdr 0 %s" % text.encode().hex(), "expect": exp, "klass": "var-keywords", "key": ("vkw", kw) if exp else None})
        for m in (-9, -1, 0, 1, 5, 2147483647, 2147483648, -2147483648, 4294967296, 10 ** 17):
            for l in (-9, -1, 0, 1, 5, 10 ** 17):
                for fmt in ("a[%d:%d]", "a [%d:%d]", "a[ %d : %d ]", "a  [%d:%d]"):
                    text = "$var wire 1 ! %s $end $enddefinitions $end" % (fmt % (m, l))
                    d = m - l
                    w = ((d + 2 ** 31) % 2 ** 32) - 2 ** 31
                    msb = l if w in (0, -2 ** 31) else w + l
                    exp = ("walk=0V0:61:61:15:0:b1:%d/%d:0:~:~ nv=1 ns=0 part=0/ nsig=1 tpes=b1 first=~ date=- version=- ts=~ hl=%d"
                           % (msb, l, len(text)))
                    faithful = abs(d) < 2 ** 31
                    cases.append({"line": "vhdr 0 %s" % text.encode().hex(), "expect": exp if faithful else None,
                                  "klass": "index-forms" if faithful else "index-forms-beyond-i32(model only)",
                                  "key": ("idx", m, l, fmt) if faithful else None})
        res.exhaustive = True
        n = 700 if tier == "quick" else 15000
        for _ in range(n):
            flatten = rng.random() < 0.5
            g, meta, text = gen_header(rng, flatten)
            if g.spec.panic:
                continue
            body = rng.choice(["", "\n#0\n", "\n"])
            exp = expected(g, meta, text)
            cases.append({"line": "vhdr %d %s" % (1 if flatten else 0, (text + body).encode("latin1").hex()), "expect": exp,
                          "klass": "random-%s%s" % (g.regime, "-flatten" if flatten else ""),
                          "key": hash(text) if g.special else None})
    vcdfam.run_both(res, cases, "c09", model_ok)
    res.samples = [bytes.fromhex(c["line"].split(" ")[2]).decode("latin1")[:400] for c in cases[-2:]]


def check_known(entry):
    return False
