(* The FST value path (fst.rs SignalWriter): values arrive as text, the signal's storage kind is widened
   on demand (expand_entries) - the loaded signal reports exactly the values delivered, whatever the order
   in which 2-, 4- and 9-state values first appear (property C10). *)
From Coq Require Import Lia ZifyBool ZifyNat ZifyN.
From WV Require Import Model.Base Generated.Consts Model.Bits Model.Leb128 Model.WaveMem Model.FstLoad
  Spec.StoreSpec Proofs.BitsProofs Proofs.LebProofs Proofs.WaveMemProofs Proofs.StoreProofs Proofs.EncoderProofs.
Ltac Zify.zify_post_hook ::= Z.div_mod_to_equations.
Open Scope N_scope.
Arguments N.add : simpl never. Arguments N.mul : simpl never. Arguments N.div : simpl never.
Arguments N.modulo : simpl never. Arguments N.pow : simpl never. Arguments N.lor : simpl never.
Arguments N.sub : simpl never.
Opaque Nat.div Nat.modulo.

(* ------------------------------------------------------------------ stored forms of a value *)

(* `w` is a stored form of the value (l, syms) in a signal whose widest kind is mx: it has the entry
   length, its kind bits are l, and the bytes get_value_at looks at decode to syms.  In a 2-state signal
   the form is exact.  Otherwise bytes that get_value_at never looks at (padding, spare bits of a partial
   first byte) are unconstrained: expand_entries leaves old meta bits there. *)
Definition stored (mx : states) (bits : nat) (l : states) (syms : list N) (w : list byte) : Prop :=
  length w = bpe_of mx bits /\ length syms = bits /\ small_syms l syms /\
  let data := if snd (get_len_and_meta mx bits) then tl w else w in
  match mx with
  | Two => l = Two /\ w = write_n_state_loop Two syms 0 None
  | _ => (hd 0 w / 64) mod 4 = states_num l /\
         (div_ceil bits (per_byte l) <= length data)%nat /\
         n_state_symbols l (skipn (length data - div_ceil bits (per_byte l)) data) bits = Ok syms
  end.

Lemma wide_two bits syms : (1 <= bits)%nat -> length syms = bits ->
  wide Two bits Two (write_n_state_loop Two syms 0 None) = write_n_state_loop Two syms 0 None.
Proof.
  intros Hb Hl. unfold wide, get_len_and_meta, states_eqb. cbn [states_num N.eqb negb andb].
  rewrite Nat.eqb_refl. cbn [andb Bool.eqb]. rewrite N.mul_0_l, N.lor_0_l.
  pose proof (packed_nonempty Two syms ltac:(lia)) as Hne.
  destruct (write_n_state_loop Two syms 0 None); [congruence|reflexivity].
Qed.

Lemma wide_stored mx bits l syms : (1 <= bits)%nat -> length syms = bits -> small_syms l syms ->
  states_num l <= states_num mx -> stored mx bits l syms (wide mx bits l (write_n_state_loop l syms 0 None)).
Proof.
  intros Hb Hl Hs Hle. split; [|split; [exact Hl|split; [exact Hs|]]].
  - apply wide_length. repeat split; [assumption..|]. now rewrite packed_length, Hl.
  - pose proof (wide_decode mx bits l syms Hb Hl Hs Hle) as [H2 H9]. cbn zeta in *.
    destruct mx.
    + assert (l = Two) by (destruct l; cbn in Hle; [reflexivity|lia..]). subst l. split; [reflexivity|].
      now apply wide_two.
    + apply H9. discriminate.
    + apply H9. discriminate.
Qed.

(* get_value_at on any stored form *)
Lemma stored_render mx bits l syms w pre post (k : nat) : (1 <= bits)%nat -> states_num l <= states_num mx ->
  stored mx bits l syms w -> length pre = (k * bpe_of mx bits)%nat ->
  get_value_at (SigBits mx bits (snd (get_len_and_meta mx bits)) (bpe_of mx bits) (pre ++ w ++ post)) k
  = do s <- lookup_all (lookup_table l) syms; Ok (kind_of_states l, s).
Proof.
  intros Hb Hle (Hwl & Hls & Hss & Hd) Hpre. cbn zeta in Hd.
  destruct mx.
  - destruct Hd as [-> ->]. rewrite <- (wide_two bits syms Hb Hls).
    now apply entry_render.
  - destruct Hd as (Hk & Hlen & Hsym).
    pose proof (bpe_pos Four bits Hb) as Hpos. unfold get_value_at.
    destruct (Nat.ltb_spec (length (pre ++ w ++ post)) (k * bpe_of Four bits + bpe_of Four bits)) as [Hlt|_].
    { rewrite !app_length in Hlt. lia. }
    rewrite (firstn_skipn_mid pre w post _ _ (eq_sym Hpre) (eq_sym Hwl)).
    destruct w as [|w0 wr]; [cbn in Hwl; lia|]. cbn [hd] in Hk.
    assert (Hdata : (if snd (get_len_and_meta Four bits) then match w0 :: wr with [] => Panic | _ :: r => Ok r end else Ok (w0 :: wr))
                    = Ok (if snd (get_len_and_meta Four bits) then tl (w0 :: wr) else w0 :: wr)).
    { destruct (snd (get_len_and_meta Four bits)); reflexivity. }
    rewrite Hdata. cbn [bind].
    set (data := if snd (get_len_and_meta Four bits) then tl (w0 :: wr) else w0 :: wr) in *. clearbody data.
    cbn [hd_error of_option bind]. rewrite Hk, states_of_num_num. cbn [of_option bind].
    unfold usub. destruct (Nat.leb_spec (div_ceil bits (per_byte l)) (length data)) as [_|Hc]; [|lia].
    cbn [bind]. unfold n_state_to_bit_string. rewrite Hsym. cbn [bind]. reflexivity.
  - destruct Hd as (Hk & Hlen & Hsym).
    pose proof (bpe_pos Nine bits Hb) as Hpos. unfold get_value_at.
    destruct (Nat.ltb_spec (length (pre ++ w ++ post)) (k * bpe_of Nine bits + bpe_of Nine bits)) as [Hlt|_].
    { rewrite !app_length in Hlt. lia. }
    rewrite (firstn_skipn_mid pre w post _ _ (eq_sym Hpre) (eq_sym Hwl)).
    destruct w as [|w0 wr]; [cbn in Hwl; lia|]. cbn [hd] in Hk.
    assert (Hdata : (if snd (get_len_and_meta Nine bits) then match w0 :: wr with [] => Panic | _ :: r => Ok r end else Ok (w0 :: wr))
                    = Ok (if snd (get_len_and_meta Nine bits) then tl (w0 :: wr) else w0 :: wr)).
    { destruct (snd (get_len_and_meta Nine bits)); reflexivity. }
    rewrite Hdata. cbn [bind].
    set (data := if snd (get_len_and_meta Nine bits) then tl (w0 :: wr) else w0 :: wr) in *. clearbody data.
    cbn [hd_error of_option bind]. rewrite Hk, states_of_num_num. cbn [of_option bind].
    unfold usub. destruct (Nat.leb_spec (div_ceil bits (per_byte l)) (length data)) as [_|Hc]; [|lia].
    cbn [bind]. unfold n_state_to_bit_string. rewrite Hsym. cbn [bind]. reflexivity.
Qed.

Lemma forall2_cons_inv {A B} (P : A -> B -> Prop) a l b l' : Forall2 P (a :: l) (b :: l') -> P a b /\ Forall2 P l l'.
Proof. intros H. inversion H; subst. split; assumption. Qed.

(* iter_changes over a signal whose entries are stored forms of `abs` *)
Definition stored_of (mx : states) (bits : nat) (a : aentry) (w : list byte) : Prop :=
  let '(_, l, syms) := a in stored mx bits l syms w /\ states_num l <= states_num mx.

Theorem observe_stored mx bits (abs : list aentry) (ws : list (list byte)) : (1 <= bits)%nat ->
  Forall2 (stored_of mx bits) abs ws ->
  observe_signal (mk_signal (map (fun a : aentry => fst (fst a)) abs)
                            (SigBits mx bits (snd (get_len_and_meta mx bits)) (bpe_of mx bits) (concat ws)))
  = outcome_map render_of abs.
Proof.
  intros Hb Hall. unfold observe_signal. cbn [s_idx s_data]. rewrite map_length.
  assert (G : forall donea donew todoa todow, abs = donea ++ todoa -> ws = donew ++ todow ->
            Forall2 (stored_of mx bits) donea donew -> Forall2 (stored_of mx bits) todoa todow ->
            outcome_map (fun '(k, t) => do v <- get_value_at (SigBits mx bits (snd (get_len_and_meta mx bits)) (bpe_of mx bits)
                                                   (concat ws)) k; Ok (t, fst v, snd v))
                        (combine (seq (length donea) (length todoa)) (map (fun a : aentry => fst (fst a)) todoa))
            = outcome_map render_of todoa).
  { intros donea donew todoa. revert donea donew. induction todoa as [|a todoa IH]; intros donea donew todow Ea Ew Hd Ht; [reflexivity|].
    destruct todow as [|w todow']; [inversion Ht|]. apply forall2_cons_inv in Ht as [Haw Ht'].
    cbn [length seq map combine outcome_map].
    destruct a as [[t l] syms]. destruct Haw as [Hst Hle]. cbn [fst].
    rewrite Ew at 1. rewrite concat_app. cbn [concat].
    rewrite (stored_render mx bits l syms w (concat donew) (concat todow') (length donea) Hb Hle Hst).
    - cbn [render_of]. destruct (lookup_all (lookup_table l) syms); cbn [bind fst snd]; try reflexivity.
      specialize (IH (donea ++ [(t, l, syms)]) (donew ++ [w]) todow'). rewrite app_length in IH. cbn [length] in IH.
      rewrite Nat.add_1_r in IH. rewrite IH; [reflexivity|now rewrite <- app_assoc|now rewrite <- app_assoc| |assumption].
      apply Forall2_app; [assumption|]. constructor; [split; assumption|constructor].
    - clear -Hd. induction Hd as [|a0 w0 da dw H0 _ IHd]; [reflexivity|].
      cbn [concat length]. rewrite app_length, IHd. destruct a0 as [[t0 l0] s0]. destruct H0 as [[Hl0 _] _]. lia. }
  specialize (G [] [] abs ws eq_refl eq_refl ltac:(constructor) Hall). cbn [length] in G. exact G.
Qed.

(* ------------------------------------------------------------------ expand_entries *)

Lemma chunks_step n f (w rest : list byte) : w <> [] -> length w = n ->
  chunks n (S f) (w ++ rest) = w :: chunks n f rest.
Proof.
  intros Hne Hw. cbn [chunks]. destruct (w ++ rest) as [|b r] eqn:E.
  { destruct w; [congruence|discriminate]. }
  rewrite <- E. subst n. rewrite firstn_app, firstn_all, Nat.sub_diag. cbn [firstn]. rewrite app_nil_r.
  rewrite skipn_app, skipn_all, Nat.sub_diag. reflexivity.
Qed.

Lemma chunks_concat n (ws : list (list byte)) : (0 < n)%nat -> Forall (fun w => length w = n) ws ->
  forall fuel, (length ws <= fuel)%nat -> chunks n fuel (concat ws) = ws.
Proof.
  intros Hn Hall. induction Hall as [|w ws Hw _ IH]; intros fuel Hf.
  - destruct fuel; reflexivity.
  - destruct fuel as [|f]; [cbn in Hf; lia|]. cbn [concat].
    rewrite chunks_step; [|destruct w; [cbn in Hw; lia|discriminate]|exact Hw].
    rewrite IH; [reflexivity|cbn in Hf; lia].
Qed.

Lemma concat_length_eq n (ws : list (list byte)) : Forall (fun w => length w = n) ws -> length (concat ws) = (length ws * n)%nat.
Proof. induction 1 as [|w ws Hw _ IH]; [reflexivity|]. cbn [concat length]. rewrite app_length, IH, Hw. lia. Qed.

Lemma packed_head_small st syms : small_syms st syms -> (length syms mod per_byte st <> 0)%nat ->
  hd 0 (write_n_state_loop st syms 0 None) < 2 ^ (N.of_nat (length syms mod per_byte st) * sbits st).
Proof.
  intros Hs Hm. rewrite wns_is_loop.
  pose proof (per_byte_pos st) as Hpb. pose proof (per_byte_sbits st) as Hsb.
  destruct (decompose (sbits st) (per_byte st) Hpb Hsb syms) as (h & cs & -> & Hh & Hcs).
  apply Forall_app in Hs as [Hsh _].
  rewrite (length_mod_decomposed (sbits st) (per_byte st) Hpb Hsb h cs Hh Hcs) in *.
  rewrite (wns_decomposed (sbits st) (per_byte st) Hpb Hsb h cs Hh Hcs).
  destruct h as [|s h']; [cbn in Hm; lia|]. cbn [hd].
  exact (val_small (sbits st) (per_byte st) Hpb Hsb (s :: h') Hsh).
Qed.

(* the per-entry transformation of expand_entries *)
Definition expand_one (from to : states) (bits : nat) (w : list byte) : list byte :=
  let '(from_len, from_meta) := get_len_and_meta from bits in
  let '(to_len, to_meta) := get_len_and_meta to bits in
  if Nat.eqb from_len to_len && Bool.eqb from_meta to_meta then w
  else
    (if states_eqb from Two then 0 else (hd 0 w / 64) * 64)
      :: zeros (if negb to_meta then to_len - from_len - 1 else to_len - from_len)
      ++ (if from_meta then tl w else w).

(* widening keeps every stored form a stored form of the same value *)
Lemma expand_one_stored from to bits l syms w : (1 <= bits)%nat -> states_num from < states_num to ->
  states_num l <= states_num from -> stored from bits l syms w -> stored to bits l syms (expand_one from to bits w).
Proof.
  intros Hb Hlt Hle (Hwl & Hls & Hss & Hd). cbn zeta in Hd.
  split; [|split; [exact Hls|split; [exact Hss|]]].
  - (* length *)
    pose proof (bpe_pos from bits Hb) as Hpos.
    assert (w <> []) by (intros ->; cbn [length] in Hwl; lia). clear Hpos.
    unfold expand_one, bpe_of, get_len_and_meta, get_bytes_per_entry, states_eqb, div_ceil in *. cbn [fst snd] in *.
    destruct w as [|w0 wr]; [congruence|]. cbn [tl length] in *.
    destruct from, to; cbn [states_num per_byte] in *; try lia; cbn [negb N.eqb Pos.eqb andb] in *;
      repeat match goal with
      | |- context [Nat.eqb ?a ?b] => destruct (Nat.eqb_spec a b)
      | H : context [Nat.eqb ?a ?b] |- _ => destruct (Nat.eqb_spec a b)
      end; cbn [andb Bool.eqb negb length app] in *; rewrite ?app_length, ?zeros_length; cbn [length]; lia.
  - (* content *)
    cbn zeta. unfold expand_one.
    destruct (get_len_and_meta from bits) as [from_len from_meta] eqn:Ef.
    destruct (get_len_and_meta to bits) as [to_len to_meta] eqn:Et. cbn [snd] in *.
    assert (Hto : to <> Two) by (intros ->; cbn in Hlt; lia).
    set (k := div_ceil bits (per_byte l)) in *.
    destruct (Nat.eqb from_len to_len && Bool.eqb from_meta to_meta) eqn:Esame.
    + (* same layout: at most 3 bits *)
      apply andb_prop in Esame as [E1 E2]. apply Nat.eqb_eq in E1. apply eqb_prop in E2. subst to_len to_meta.
      destruct from.
      * destruct Hd as [-> ->].
        unfold get_len_and_meta, states_eqb, div_ceil in Ef, Et. cbn [states_num per_byte N.eqb negb andb] in Ef.
        inversion Ef; subst from_len from_meta; clear Ef.
        assert (Hbits : (bits <= 3)%nat).
        { destruct to; cbn [states_num per_byte N.eqb Pos.eqb negb andb] in *; [lia| |];
            pose proof (f_equal fst Et) as E3; pose proof (f_equal snd Et) as E4; cbn [fst snd] in E3, E4;
            destruct (Nat.eqb_spec (bits mod 4) 0); destruct (Nat.eqb_spec (bits mod 2) 0); cbn [andb] in E4; try discriminate; lia. }
        pose proof (packed_head_small Two syms Hss) as Hhd. rewrite Hls in Hhd. cbn [per_byte sbits] in Hhd.
        pose proof (packed_length Two syms) as Hpl. rewrite Hls in Hpl. unfold div_ceil in Hpl. cbn [per_byte] in Hpl.
        assert (Hmod : (bits mod 8 = bits)%nat) by (apply Nat.mod_small; lia).
        assert (Hh64 : hd 0 (write_n_state_loop Two syms 0 None) < 64).
        { eapply N.lt_le_trans; [apply Hhd; lia|].
          change 64 with (2 ^ 6). apply N.pow_le_mono_r; [lia|]. rewrite Hmod. lia. }
        unfold k. cbn [per_byte]. unfold div_ceil.
        destruct to; [congruence| |]; cbn [states_num]; rewrite Hpl, Nat.sub_diag; cbn [skipn];
          (split; [rewrite N.div_small by exact Hh64; reflexivity|]); (split; [lia|]);
          rewrite <- Hls; now apply pack_unpack.
      * destruct to; cbn in Hlt; try lia. exact Hd.
      * destruct to; cbn in Hlt; lia.
    + (* a longer layout: new meta byte, padding, the old data *)
      set (data := if from_meta then tl w else w) in *.
      set (m := if states_eqb from Two then 0 else (hd 0 w / 64) * 64).
      set (pad := if negb to_meta then (to_len - from_len - 1)%nat else (to_len - from_len)%nat).
      assert (Hnew : (if to_meta then tl (m :: zeros pad ++ data) else m :: zeros pad ++ data)
                     = (if to_meta then zeros pad else m :: zeros pad) ++ data).
      { destruct to_meta; reflexivity. }
      assert (Hm : (m / 64) mod 4 = states_num l /\ (k <= length data)%nat /\
                   n_state_symbols l (skipn (length data - k) data) bits = Ok syms).
      { destruct from.
        - destruct Hd as [-> ->]. unfold m. cbn [states_eqb states_num N.eqb]. split; [reflexivity|].
          unfold data. unfold get_len_and_meta, states_eqb in Ef. cbn [states_num N.eqb negb andb] in Ef. inversion Ef; subst from_meta.
          unfold k. cbn [per_byte]. rewrite packed_length, Hls. split; [apply Nat.le_refl|]. rewrite Nat.sub_diag. cbn [skipn].
          rewrite <- Hls. now apply pack_unpack.
        - destruct Hd as (Hk & Hlen & Hsym). unfold m. cbn [states_eqb states_num N.eqb].
          split; [|split; assumption]. rewrite N.div_mul by lia. exact Hk.
        - destruct Hd as (Hk & Hlen & Hsym). unfold m. cbn [states_eqb states_num N.eqb].
          split; [|split; assumption]. rewrite N.div_mul by lia. exact Hk. }
      destruct Hm as (Hm1 & Hm2 & Hm3).
      destruct to; [congruence| |]; cbn [hd]; (split; [exact Hm1|]); unfold byte in *; rewrite Hnew, app_length; (split; [lia|]);
        match goal with |- context [skipn ?n (?p ++ data)] =>
          replace n with (length p + (length data - k))%nat by lia end;
        rewrite skipn_app, skipn_all2 by lia;
        match goal with |- context [(?a + ?b - ?a)%nat] => replace (a + b - a)%nat with b by lia end;
        cbn [app]; exact Hm3.
Qed.

Lemma outcome_map_concat_ok {A B} (f : A -> outcome (list B)) (g : A -> list B) (l : list A) :
  Forall (fun x => f x = Ok (g x)) l -> outcome_map_concat f l = Ok (concat (map g l)).
Proof.
  induction 1 as [|x l Hx _ IH]; [reflexivity|]. cbn [outcome_map_concat map concat]. now rewrite Hx, IH.
Qed.

(* expand_entries re-encodes every entry with expand_one *)
Lemma expand_entries_spec from to bits (ws : list (list byte)) : (1 <= bits)%nat -> states_num from < states_num to ->
  Forall (fun w => length w = bpe_of from bits) ws ->
  expand_entries from to (concat ws) bits = Ok (concat (map (expand_one from to bits) ws)).
Proof.
  intros Hb Hlt Hall. pose proof (bpe_pos from bits Hb) as Hpos.
  unfold expand_entries, expand_one. unfold bpe_of in *.
  destruct (get_len_and_meta from bits) as [from_len from_meta] eqn:Ef.
  destruct (get_len_and_meta to bits) as [to_len to_meta] eqn:Et. cbn [fst snd] in *.
  destruct (Nat.eqb from_len to_len && Bool.eqb from_meta to_meta) eqn:Esame.
  - f_equal. clear. induction ws as [|w ws IH]; [reflexivity|]. cbn [map concat]. now rewrite <- IH.
  - assert (Hpad : (if negb to_meta then do x <- usub to_len from_len; usub x 1 else usub to_len from_len)
                   = Ok (if negb to_meta then (to_len - from_len - 1)%nat else (to_len - from_len)%nat)).
    { unfold get_len_and_meta, states_eqb, div_ceil, usub in *.
      pose proof (f_equal fst Ef) as E1; pose proof (f_equal snd Ef) as E2; pose proof (f_equal fst Et) as E3; pose proof (f_equal snd Et) as E4.
      cbn [fst snd] in E1, E2, E3, E4. subst from_len to_len from_meta to_meta.
      destruct from, to; cbn [states_num per_byte N.eqb Pos.eqb negb andb] in *; try lia;
        repeat match goal with
        | |- context [Nat.eqb ?a ?b] => destruct (Nat.eqb_spec a b)
        | H : context [Nat.eqb ?a ?b] |- _ => destruct (Nat.eqb_spec a b)
        end; cbn [andb Bool.eqb negb bind] in *; try discriminate;
        repeat match goal with
        | |- context [(?a <=? ?b)%nat] => destruct (Nat.leb_spec a b); cbn [bind]
        end; try reflexivity; try lia. }
    rewrite Hpad. cbn [bind].
    destruct (Nat.eqb_spec (get_bytes_per_entry from_len from_meta) 0) as [E0|_]; [lia|].
    rewrite chunks_concat; [|exact Hpos|exact Hall|].
    + apply outcome_map_concat_ok. rewrite Forall_forall in *. intros w Hw. specialize (Hall w Hw).
      destruct w as [|w0 wr]; [cbn in Hall; lia|]. reflexivity.
    + rewrite (concat_length_eq _ ws Hall). nia.
Qed.

(* ------------------------------------------------------------------ SignalWriter::add_change on bit vectors *)

Lemma wns_nonempty_gen st : forall syms work meta, syms <> [] -> write_n_state_loop st syms work meta <> [].
Proof.
  induction syms as [|v rest IH]; intros work meta Hne; [congruence|]. cbn [write_n_state_loop].
  destruct (_ =? 0) eqn:E; [discriminate|]. apply IH. intros ->. cbn in E. rewrite N.mul_0_l in E. discriminate.
Qed.

(* the meta bits handed to write_n_state end up or-ed into the first byte *)
Lemma wns_some_meta st m : forall syms work, syms <> [] ->
  write_n_state_loop st syms work (Some m)
  = N.lor (hd 0 (write_n_state_loop st syms work None)) m :: tl (write_n_state_loop st syms work None).
Proof.
  induction syms as [|v rest IH]; intros work Hne; [congruence|]. cbn [write_n_state_loop].
  destruct (_ =? 0) eqn:E; [reflexivity|]. apply IH. intros ->. cbn in E. rewrite N.mul_0_l in E. discriminate.
Qed.

(* the entry SignalWriter::add_change appends is the same widened entry the wavemem loader builds *)
Lemma sw_entry_code mx bits local value nums : (1 <= bits)%nat -> chars_to_nums value = Some nums ->
  length nums = bits -> states_num local <= states_num mx ->
  (let '(len, has_meta) := get_len_and_meta mx bits in
   let meta_data := states_num local * 64 in
   let '(local_len, local_has_meta) := get_len_and_meta local bits in
   if Nat.eqb local_len len && Bool.eqb local_has_meta has_meta then
     if has_meta then do p <- write_n_state local value None; Ok (meta_data :: p)
     else write_n_state local value (Some meta_data)
   else
     do pad <- (if has_meta then usub len local_len else do x <- usub len local_len; usub x 1);
     do p <- write_n_state local value None;
     Ok (meta_data :: zeros pad ++ p))
  = Ok (wide mx bits local (write_n_state_loop local nums 0 None)).
Proof.
  intros Hb Hn Hl Hle.
  assert (Hwf : wf_entry mx bits local (write_n_state_loop local nums 0 None)).
  { repeat split; [assumption..|]. now rewrite packed_length, Hl. }
  pose proof (wide_code mx bits local _ Hwf) as Hc.
  assert (Hne : nums <> []) by (intros ->; cbn in Hl; lia).
  unfold write_n_state. rewrite Hn.
  destruct (get_len_and_meta mx bits) as [len has_meta]. destruct (get_len_and_meta local bits) as [local_len local_has_meta].
  destruct (Nat.eqb local_len len && Bool.eqb local_has_meta has_meta).
  - destruct has_meta; cbn [bind] in *; [exact Hc|].
    rewrite wns_some_meta by assumption. rewrite <- Hc.
    pose proof (wns_nonempty_gen local nums 0 None Hne) as Hp.
    destruct (write_n_state_loop local nums 0 None) as [|b0 br]; [congruence|]. cbn [hd tl]. now rewrite N.lor_comm.
  - destruct (if has_meta then usub len local_len else do x <- usub len local_len; usub x 1); cbn [bind] in *; exact Hc.
Qed.

Section Writer.
Variable bits : nat.
Hypothesis bits_ge2 : (1 <= bits)%nat.

Definition push_abs (A : list aentry) (a : aentry) : list aentry :=
  match last_opt A with
  | Some a0 => if akey_eqb (akey a0) (akey a) then A else A ++ [a]
  | None => A ++ [a]
  end.

Record winv (sw : signal_writer) (A : list aentry) (ws : list (list byte)) : Prop := {
  w_tpe : sw_tpe sw = EncBits bits;
  w_data : sw_data sw = concat ws;
  w_idx : sw_idx sw = map (fun a : aentry => fst (fst a)) A;
  w_st : Forall2 (stored_of (sw_max sw) bits) A ws;
  w_last : match last_opt A, last_opt ws with
           | Some a, Some w => w = snd (wide_of (sw_max sw) bits a)
           | None, None => True
           | _, _ => False
           end;
  w_ok : Forall (rec_ok bits) A
}.

Lemma forall2_last {A B} (P : A -> B -> Prop) l1 l2 : Forall2 P l1 l2 ->
  match last_opt l1, last_opt l2 with Some a, Some b => P a b | None, None => True | _, _ => False end.
Proof.
  induction 1 as [|a b l1 l2 Hab H12 IH]; [exact I|].
  destruct l1 as [|a' l1'], l2 as [|b' l2']; try (inversion H12; fail); [exact Hab|exact IH].
Qed.

Lemma forall2_app_inv_last {A B} (P : A -> B -> Prop) l1 a l2 : Forall2 P (l1 ++ [a]) l2 ->
  exists l2' b, l2 = l2' ++ [b] /\ Forall2 P l1 l2' /\ P a b.
Proof.
  intros H. apply Forall2_app_inv_l in H as (l2' & lb & H1 & H2 & ->).
  inversion H2 as [|? b ? lb' Hab Hnil]; subst. inversion Hnil; subst. exists l2', b. repeat split; assumption.
Qed.

(* one bit-vector change delivered by the FST reader *)
Lemma sw_step sw A ws t value sw' : winv sw A ws -> length value = bits ->
  sw_add_bits sw bits t value = Ok sw' ->
  exists local nums ws',
    check_states value = Some local /\ chars_to_nums value = Some nums /\
    winv sw' (push_abs A (t, local, nums)) ws'.
Proof.
  intros [Htp Hdata Hidx Hst Hlast Hok] Hlv H. unfold sw_add_bits in H.
  destruct (check_states value) as [local|] eqn:Ecs; [|discriminate]. cbn [of_option bind] in H. cbn zeta in H.
  destruct (check_states_min value local Ecs) as (nums & Hn & Hs & H8 & _).
  destruct (chars_to_nums_lookup value nums Hn) as [Hln _]. rewrite Hlv in Hln.
  set (mx := sw_max sw) in *. set (mx' := join mx local) in *.
  assert (Hmx' : states_num local <= states_num mx' /\ states_num mx <= states_num mx').
  { unfold mx'. rewrite join_num. lia. }
  set (a := (t, local, nums) : aentry).
  assert (Ha : rok bits mx' a) by (split; [repeat split; assumption|apply Hmx']).
  (* the old entries in the (possibly widened) format *)
  assert (Hexp : exists ws1, (if states_eqb mx' mx then Ok (sw_data sw) else expand_entries mx mx' (sw_data sw) bits) = Ok (concat ws1) /\
                  Forall2 (stored_of mx' bits) A ws1 /\
                  match last_opt A, last_opt ws1 with
                  | Some a0, Some w => (states_num mx' = states_num mx -> w = snd (wide_of mx' bits a0)) /\
                                       (hd 0 w / 64) mod 4 = states_num (snd (fst a0)) \/ mx' = Two
                  | None, None => True
                  | _, _ => False
                  end).
  { destruct (states_eqb mx' mx) eqn:Eeq.
    - assert (mx' = mx) by (unfold states_eqb in Eeq; apply N.eqb_eq in Eeq; destruct mx', mx; cbn in Eeq; congruence).
      exists ws. rewrite H0 in *. split; [now rewrite Hdata|]. split; [exact Hst|].
      pose proof (forall2_last _ _ _ Hst) as Hl2.
      destruct (last_opt A) as [[[t0 l0] s0]|], (last_opt ws) as [w|]; try contradiction; [|exact I].
      destruct Hl2 as [(Hwl & _ & _ & Hd) _]. cbn [fst snd].
      destruct mx; [right; reflexivity|left|left]; (split; [intros _; exact Hlast|apply Hd]).
    - assert (Hlt : states_num mx < states_num mx').
      { unfold states_eqb in Eeq. apply N.eqb_neq in Eeq. lia. }
      exists (map (expand_one mx mx' bits) ws). split.
      + rewrite Hdata. apply expand_entries_spec; [exact bits_ge2|exact Hlt|].
        clear -Hst. induction Hst as [|[[t0 l0] s0] w A' ws' [[Hw _] _] _ IH]; constructor; assumption.
      + split.
        * clear -Hst Hlt bits_ge2. induction Hst as [|[[t0 l0] s0] w A' ws' [Hw Hle] _ IH]; cbn [map]; constructor; [|exact IH].
          split; [apply expand_one_stored; assumption|lia].
        * pose proof (forall2_last _ _ _ Hst) as Hl2. rewrite last_opt_map.
          destruct (last_opt A) as [[[t0 l0] s0]|], (last_opt ws) as [w|]; try contradiction; [|exact I].
          cbn [option_map fst snd]. destruct Hl2 as [Hw Hle].
          pose proof (expand_one_stored mx mx' bits l0 s0 w bits_ge2 Hlt Hle Hw) as (_ & _ & _ & Hd).
          destruct mx'; [cbn in Hlt; lia|left|left]; (split; [intros E; lia|apply Hd]). }
  destruct Hexp as (ws1 & Hexp1 & Hst1 & Hlast1). rewrite Hexp1 in H. cbn [bind] in H.
  pose proof (sw_entry_code mx' bits local value nums bits_ge2 Hn Hln (proj1 Hmx')) as Hcode.
  destruct (get_len_and_meta mx' bits) as [len has_meta] eqn:Eg.
  destruct (get_len_and_meta local bits) as [local_len local_has_meta] eqn:El.
  cbn zeta in Hcode. rewrite Hcode in H. cbn [bind] in H.
  set (entry := wide mx' bits local (write_n_state_loop local nums 0 None)) in *.
  assert (Hentry : stored mx' bits local nums entry) by (apply wide_stored; [exact bits_ge2|assumption..|apply Hmx']).
  assert (Hbpe : get_bytes_per_entry len has_meta = bpe_of mx' bits) by (unfold bpe_of; now rewrite Eg).
  rewrite Hbpe in H.
  exists local, nums.
  (* compare with the previous entry *)
  unfold push_abs.
  destruct (last_opt A) as [a0|] eqn:ElA.
  - destruct (last_opt ws1) as [w0|] eqn:Elw; [|contradiction].
    apply last_opt_some in ElA as [A' ->]. apply last_opt_some in Elw as [ws1' ->].
    apply forall2_app_inv_last in Hst1 as (ws2 & w0' & Eq & Hst1' & Hst0).
    apply app_inj_tail in Eq as [<- <-].
    rewrite concat_app in H. cbn [concat] in H. rewrite app_nil_r, <- app_assoc in H.
    destruct a0 as [[t0 l0] s0]. destruct Hst0 as [Hw0 Hle0].
    rewrite (ccat_next (bpe_of mx' bits) (concat ws1') w0 entry (proj1 Hw0) (proj1 Hentry)) in H.
    assert (Hcmp : list_eqb w0 entry = akey_eqb (akey (t0, l0, s0)) (akey a)).
    { destruct Hlast1 as [[Hexact Hkind]|Htwo].
      - destruct (N.eq_dec (states_num mx') (states_num mx)) as [Esame|Ediff].
        + rewrite (Hexact Esame). apply (wide_inj bits bits_ge2 mx' (t0, l0, s0) a); [|exact Ha].
          split; [|exact Hle0]. apply Forall_app in Hok as [_ Hx]. now apply Forall_cons_iff in Hx as [? _].
        + (* widened just now: the kinds differ *)
          assert (Hl0 : states_num l0 <= states_num mx).
          { apply Forall2_app_inv_l in Hst as (x1 & x2 & _ & Hx2 & _). inversion Hx2 as [|? ? ? ? Hq _]; subst. exact (proj2 Hq). }
          assert (Hloc : states_num local = states_num mx').
          { unfold mx'. rewrite join_num. unfold mx' in Ediff. rewrite join_num in Ediff. lia. }
          assert (Hne : l0 <> local) by (intros ->; lia).
          unfold a, akey, akey_eqb. cbn [fst snd]. replace (states_eqb l0 local) with false
            by (unfold states_eqb; symmetry; apply N.eqb_neq; destruct l0, local; cbn; congruence). cbn [andb].
          destruct (list_eqb w0 entry) eqn:Eq. 2: { reflexivity. } apply list_eqb_spec in Eq. subst w0. exfalso.
          cbn [fst snd] in Hkind. destruct Hentry as (_ & _ & _ & Hde). cbn zeta in Hde.
          assert (Hn2 : states_num mx' <> 0) by lia.
          destruct mx'; [cbn in Hn2; congruence| |];
            destruct Hde as (Hke & _); rewrite Hke in Hkind; destruct l0, local; cbn in Hkind; congruence.
      - (* everything is 2-state *)
        assert (mx = Two) by (destruct mx; [reflexivity|rewrite Htwo in Hmx'; cbn in Hmx'; lia..]).
        rewrite Htwo in *. destruct Hw0 as (_ & _ & _ & -> & ->). destruct Hentry as (_ & _ & _ & Hl & He).
        assert (local = Two) by (destruct local; [reflexivity|cbn in Hmx'; lia..]). subst local.
        rewrite He. unfold a, akey, akey_eqb, states_eqb. cbn [fst snd states_num N.eqb andb].
        destruct (list_eqb s0 nums) eqn:E1.
        + apply list_eqb_spec in E1. subst s0. apply list_eqb_spec. reflexivity.
        + destruct (list_eqb (write_n_state_loop Two s0 0 None) (write_n_state_loop Two nums 0 None)) eqn:E2; [|reflexivity]. apply list_eqb_spec in E2.
          assert (Hs0 : small_syms Two s0 /\ length s0 = bits).
          { apply Forall_app in Hok as [_ Hx]. apply Forall_cons_iff in Hx as [(Hq1 & Hq2 & _) _]. split; assumption. }
          pose proof (pack_unpack Two s0 (proj1 Hs0)) as P1. pose proof (pack_unpack Two nums Hs) as P2.
          rewrite (proj2 Hs0) in P1. rewrite Hln in P2. rewrite E2, P2 in P1. inversion P1; subst.
          assert (list_eqb s0 s0 = true) by (apply list_eqb_spec; reflexivity). congruence. }
    rewrite Hcmp in H. unfold a in *.
    destruct (akey_eqb (akey (t0, l0, s0)) (akey (t, local, nums))) eqn:Ek.
    + (* same value again: dropped *)
      inversion H; subst sw'; clear H. exists (ws1' ++ [w0]). split; [reflexivity|]. split; [exact Hn|].
      apply Build_winv; cbn [sw_tpe sw_data sw_idx sw_max]; auto.
      * now rewrite concat_app; cbn [concat]; rewrite app_nil_r.
      * apply Forall2_app; [assumption|]. constructor; [split; assumption|constructor].
      * rewrite !last_opt_app. apply list_eqb_spec in Hcmp.
        unfold akey_eqb, akey in Ek. cbn [fst snd] in Ek. apply andb_prop in Ek as [Ek1 Ek2].
        apply list_eqb_spec in Ek2. subst s0.
        assert (l0 = local) by (unfold states_eqb in Ek1; apply N.eqb_eq in Ek1; destruct l0, local; cbn in Ek1; congruence). subst l0.
        exact Hcmp.
    + inversion H; subst sw'; clear H. exists ((ws1' ++ [w0]) ++ [entry]). split; [reflexivity|]. split; [exact Hn|].
      apply Build_winv; cbn [sw_tpe sw_data sw_idx sw_max]; auto.
      * rewrite !concat_app. cbn [concat]. now rewrite !app_nil_r, <- app_assoc.
      * rewrite Hidx, !map_app. reflexivity.
      * apply Forall2_app; [apply Forall2_app; [assumption|constructor; [split; assumption|constructor]]|].
        constructor; [split; [exact Hentry|apply Hmx']|constructor].
      * rewrite !last_opt_app. reflexivity.
      * apply Forall_app. split; [exact Hok|]. constructor; [|constructor]. repeat split; assumption.
  - destruct (last_opt ws1) as [w0|] eqn:Elw; [contradiction|].
    apply last_opt_none in ElA. apply last_opt_none in Elw. subst A ws1. cbn [concat app] in H.
    rewrite (ccat_first (bpe_of mx' bits) entry (proj1 Hentry) (bpe_pos mx' bits bits_ge2)) in H.
    inversion H; subst sw'; clear H. exists [entry]. split; [reflexivity|]. split; [exact Hn|].
    apply Build_winv; cbn [sw_tpe sw_data sw_idx sw_max app].
    + exact Htp.
    + cbn [concat]. now rewrite app_nil_r.
    + rewrite Hidx. reflexivity.
    + constructor; [split; [exact Hentry|apply Hmx']|constructor].
    + reflexivity.
    + constructor; [|constructor]. repeat split; assumption.
Qed.

Lemma fold_push_abs : forall (l c : list aentry),
  fold_left push_abs l c = c ++ dedup_by akey_eqb akey l (option_map akey (last_opt c)).
Proof.
  induction l as [|a l IH]; intros c; cbn [fold_left dedup_by]; [now rewrite app_nil_r|].
  rewrite IH. unfold push_abs. destruct (last_opt c) as [a0|] eqn:Elc; cbn [option_map].
  - destruct (akey_eqb (akey a0) (akey a)).
    + now rewrite Elc.
    + rewrite last_opt_app. cbn [option_map]. now rewrite <- app_assoc.
  - rewrite last_opt_app. cbn [option_map]. now rewrite <- app_assoc.
Qed.

(* what the FST reader delivers for a bit-vector signal: `bits` characters per change *)
Definition fst_change_ok (c : N * fst_value) : Prop :=
  exists value, snd c = FvString value /\ length value = bits.

(* the meaning of a delivered change *)
Definition fst_decodes (a : aentry) (c : N * fst_value) : Prop :=
  let '(t, l, s) := a in
  t = fst c /\ exists value, snd c = FvString value /\ check_states value = Some l /\ chars_to_nums value = Some s.

Lemma sw_run_inv : forall changes sw As ws sw',
  winv sw (fold_left push_abs As []) ws -> Forall fst_change_ok changes ->
  sw_run sw changes = Ok sw' ->
  exists Bs ws', Forall2 fst_decodes Bs changes /\ winv sw' (fold_left push_abs (As ++ Bs) []) ws'.
Proof.
  induction changes as [|[t v] changes IH]; intros sw As ws sw' Hinv Hok H; cbn [sw_run] in H.
  - inversion H; subst sw'. exists [], ws. rewrite app_nil_r. split; [constructor|exact Hinv].
  - apply Forall_cons_iff in Hok as [(value & Hv & Hlv) Hok]. cbn [snd] in Hv. subst v.
    destruct (sw_add_change sw t (FvString value)) as [sw1| |] eqn:E1; try discriminate. cbn [bind] in H.
    unfold sw_add_change in E1. rewrite (w_tpe _ _ _ Hinv) in E1.
    destruct (sw_step sw _ ws t value sw1 Hinv Hlv E1) as (local & nums & ws1 & Hcs & Hcn & Hinv1).
    assert (Hfold : push_abs (fold_left push_abs As []) (t, local, nums) = fold_left push_abs (As ++ [(t, local, nums)]) []).
    { rewrite fold_left_app. reflexivity. }
    rewrite Hfold in Hinv1.
    destruct (IH sw1 _ ws1 sw' Hinv1 Hok H) as (Bs & ws' & Hdec & Hinv').
    exists ((t, local, nums) :: Bs), ws'. split.
    + constructor; [|exact Hdec]. cbn [fst_decodes fst snd]. split; [reflexivity|]. exists value. repeat split; assumption.
    + now rewrite <- app_assoc in Hinv'.
Qed.

(* Property C10, value path: the signal built by SignalWriter from the changes the FST reader delivers reports
   exactly those changes - time index, least kind, characters, equal neighbours once - whatever the order in
   which 2-, 4- and 9-state values appear (every widening by expand_entries is invisible) *)
Theorem fst_writer_spec changes sw : Forall fst_change_ok changes ->
  sw_run (sw_new (EncBits bits)) changes = Ok sw ->
  exists A, Forall2 fst_decodes A changes /\ observe_signal (sw_finish sw) = outcome_map render_of (dedup A).
Proof.
  intros Hok H.
  assert (Hinit : winv (sw_new (EncBits bits)) (fold_left push_abs [] []) []).
  { apply Build_winv; cbn; auto; constructor. }
  destruct (sw_run_inv changes _ [] [] sw Hinit Hok H) as (A & ws & Hdec & Hinv). cbn [app] in Hinv.
  exists A. split; [exact Hdec|].
  destruct Hinv as [Htp Hdata Hidx Hst _ _].
  unfold sw_finish. rewrite Htp. unfold bpe_of.
  destruct (get_len_and_meta (sw_max sw) bits) as [bytes meta_byte] eqn:Eg.
  rewrite Hdata, Hidx. rewrite fold_push_abs in *. cbn [app last_opt option_map] in *.
  pose proof (observe_stored (sw_max sw) bits _ ws bits_ge2 Hst) as Hobs.
  unfold bpe_of in Hobs. rewrite Eg in Hobs. cbn [fst snd] in Hobs. exact Hobs.
Qed.


End Writer.

(* the hypotheses are satisfiable: a 3-bit signal that is widened twice (4-state, 2-state, 9-state, 2-state) *)
Example fst_writer_example :
  let changes := [(0, FvString [120; 48; 49]); (1, FvString [48; 49; 49]); (2, FvString [48; 49; 49]);
                  (3, FvString [48; 104; 48]); (5, FvString [49; 48; 49])] in
  exists sw, sw_run (sw_new (EncBits 3)) changes = Ok sw /\
             observe_signal (sw_finish sw)
             = Ok [(0, KFour, [120; 48; 49]); (1, KBinary, [48; 49; 49]); (3, KNine, [48; 104; 48]); (5, KBinary, [49; 48; 49])].
Proof. cbn zeta. eexists. vm_compute. split; reflexivity. Qed.
