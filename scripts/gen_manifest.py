#!/usr/bin/env python3
"""Writes /verif/MANIFEST.json from the per-property table below (kept in one place so the
manifest is always valid)."""
import json, os
VERIF = os.path.dirname(os.path.dirname(os.path.abspath(__file__)))

CLAIMED = {
 "C05": dict(
   category="proof",
   text="Machine-checked Coq theorems over a line-by-line Gallina model of binary_search / "
        "find_offset_from_time_table_idx / get_offset (usize underflow and out-of-bounds as explicit Panic): "
        "for every non-decreasing index list and every query, None iff no change <= i, otherwise exactly the group "
        "of the greatest index <= i (start, elements, time_match, next_index), uniqueness of that answer, agreement of "
        "iter_changes/get_time_idx_at/get_value_at; plus get_offset_u16_refuted (known finding D12). The model is tied "
        "to the code by running the extracted model and the real Signal API on the same sequences "
        "(exhaustive small scope + random long runs) and an independent oracle on the implementation.",
   design_ref="DESIGN.md section 6, C05",
   note="Trusted: Coq kernel, extraction (ExtrOcamlBasic), OCaml driver, Rust harness, Python oracle; hypothesis "
        "`sorted` (non-decreasing indices, property C02) and run_fits_u16 (complement = known finding D12).",
   technique="Coq proof (induction + loop invariants) over hand-written model; correspondence by OCaml extraction vs real code"),
 "C02": dict(
   category="proof",
   text="Coq theorems over the Gallina model of wavemem::Encoder: for every operation sequence (any interleaving of "
        "time_change and value changes, any block capacity >= 1 incl. the 65535 roll-over, any compressor) finish returns "
        "exactly accepted(times) - time_table_spec - which is strictly increasing (accepted_strict) and contains every "
        "timestamp greater than all earlier ones (accepted_complete); time_change never panics. Tied to the code by "
        "running the extracted model and the real Encoder (hook) / VCD loader on the same histories with 1..131072 "
        "(thorough: 262140) steps, repeated/backwards/late-start timestamps, plus an oracle computed from the abstract history.",
   design_ref="DESIGN.md section 6, C02",
   note="Trusted: Coq kernel, extraction, OCaml driver, Rust harness, generator/oracle gen.expected_obs. Index validity/monotonicity "
        "of loaded signals is checked by the oracle (monitor) on every loaded waveform, its proof belongs to C04's load theorems. "
        "FST time chain and GHW section reader are exercised in C10/C11, not modelled here.",
   technique="Coq proof (invariant over op sequences) + correspondence via OCaml extraction"),
}

NOT_YET = {}

def main():
    props = [json.loads(l) for l in open(os.path.join(VERIF, "properties.jsonl"))]
    checks = []
    na = []
    for p in props:
        pid = p["id"]
        if pid in CLAIMED:
            c = CLAIMED[pid]
            checks.append({
                "property_id": pid,
                "quick_cmd": "./check %s --tier quick" % pid,
                "thorough_cmd": "./check %s --tier thorough" % pid,
                "evidence_file": "/verif/evidence/%s.json" % pid,
                "replay_cmd_template": "./check %s --replay {path}" % pid,
                "engine": "coq-model-correspondence",
                "level_claimed": {"category": c["category"], "text": c["text"], "design_ref": c["design_ref"]},
                "level_note": c["note"],
                "technique": c["technique"],
            })
        else:
            na.append({"property_id": pid,
                       "reason": NOT_YET.get(pid, "not claimed yet: model, theorems and correspondence for this property are still under construction (see DESIGN.md section 6); the technique applies")})
    m = {
        "version": 1,
        "setup_cmd": "./scripts/setup.sh",
        "hooks": {
            "guard": "wellen_verif",
            "enable": "RUSTFLAGS=\"--cfg wellen_verif\" cargo build --offline (in /verif/harness, path dependency on /repo/wellen)",
            "baseline_off_cmd": "/verif/scripts/baseline_off.sh",
            "source_commits": [l.strip() for l in open(os.path.join(VERIF, "hooks_commits.txt")) if l.strip()],
            "add_only": True,
        },
        "engines": [{
            "name": "coq-model-correspondence",
            "path": "/verif/check",
            "serves_properties": sorted(CLAIMED),
            "kind_free_text": "Coq 8.16 theorems over a hand-written executable Gallina model (coq/), tied to /repo's working tree on every run by a correspondence check: model extracted to OCaml vs Rust harness built with --cfg wellen_verif, plus an independent property oracle on the implementation",
        }],
        "checks": checks,
        "notes": "See DESIGN.md. Known findings are listed in known_findings.jsonl.",
        "not_applicable": na,
    }
    json.dump(m, open(os.path.join(VERIF, "MANIFEST.json"), "w"), indent=1)

main()
