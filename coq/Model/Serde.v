(* Model of what `#[derive(serde::Serialize, serde::Deserialize)]` generates for the shapes of types that occur at
   wellen's derive sites, over serde_json's encoding of serde's data model (DESIGN.md section 6, C17).

   A `ty` is the shape of a Rust type (named types are inlined by the translator: Generated/SerdeSchema.v is written
   from the derive sites of the current source).  `ser t v` is the JSON document serde_json writes for the value `v`
   of a type of shape `t`; `de t j` is the value the derived Deserialize reads from the document `j`.  Only what the
   round trip needs is modelled of `de`: it accepts documents of the form `ser` writes (object fields in declaration
   order), the derived code accepts more (fields in any order, sequences for structs).

   No proofs live in Model/ files. *)
From WV Require Import Model.Base.
Open Scope Z_scope.

Inductive ty : Type :=
| TInt (lo hi : Z) (nz : bool)        (* u8..u64, i8..i64 and the NonZero types: lo <= z <= hi, z <> 0 if nz *)
| TBool
| TStr                                (* String *)
| TOption (t : ty)                    (* Option<T>: null | T *)
| TSeq (t : ty)                       (* Vec<T>: array *)
| TMap (k v : ty)                     (* HashMap<K, V> with an integer key: object with decimal keys *)
| TTuple (ts : tys)                   (* (A, B, ..) and tuple structs: array of fixed length *)
| TStruct (fs : fields)               (* struct with named fields: object, one member per field *)
| TEnum (vs : variants)               (* enum: "Name" for a unit variant, {"Name": payload} otherwise *)
with tys : Type := TNil | TCons (t : ty) (ts : tys)
with fields : Type := FNil | FCons (name : list byte) (t : ty) (fs : fields)
with variants : Type :=
| VNil
| VUnit (name : list byte) (vs : variants)
| VPay (name : list byte) (t : ty) (vs : variants).   (* newtype variant: t; struct variant: TStruct; tuple variant: TTuple *)

(* Rust values, untyped *)
Inductive val : Type :=
| VInt (z : Z)
| VBool (b : bool)
| VStr (s : list byte)
| VNone
| VSome (v : val)
| VList (l : list val)                 (* Vec, tuple, and the fields of a struct in declaration order *)
| VMapV (l : list (Z * val))           (* a map in its iteration order *)
| VVariant (n : nat) (p : option val). (* the n-th variant of an enum and its payload *)

Inductive json : Type :=
| JNull
| JBool (b : bool)
| JNum (z : Z)
| JStr (s : list byte)
| JArr (l : list json)
| JObj (l : list (list byte * json)).

Definition int_ok (lo hi : Z) (nz : bool) (z : Z) : bool :=
  (lo <=? z) && (z <=? hi) && negb (nz && (z =? 0)).

Fixpoint mapM {A B} (f : A -> option B) (l : list A) : option (list B) :=
  match l with
  | [] => Some []
  | a :: r => match f a, mapM f r with Some b, Some bs => Some (b :: bs) | _, _ => None end
  end.

(* decimal text of a map key (itoa) and its parser *)
Fixpoint digits_lsb (fuel : nat) (n : N) : list byte :=
  match fuel with
  | O => []
  | S f => (48 + n mod 10)%N :: (if (n <? 10)%N then [] else digits_lsb f (n / 10)%N)
  end.
Definition show_N (n : N) : list byte := rev (digits_lsb (S (N.to_nat (N.log2 n))) n).
Fixpoint read_lsb (l : list byte) : option N :=
  match l with
  | [] => Some 0%N
  | d :: r => if ((48 <=? d) && (d <=? 57))%N then option_map (fun x => (x * 10 + (d - 48))%N) (read_lsb r) else None
  end.
Definition read_N (s : list byte) : option N :=
  match s with [] => None | _ => read_lsb (rev s) end.

Definition ser_key (lo hi : Z) (nz : bool) (z : Z) : option (list byte) :=
  if (0 <=? z) && int_ok lo hi nz z then Some (show_N (Z.to_N z)) else None.
Definition de_key (lo hi : Z) (nz : bool) (s : list byte) : option Z :=
  match read_N s with
  | Some n => if int_ok lo hi nz (Z.of_N n) then Some (Z.of_N n) else None
  | None => None
  end.

Fixpoint ser (t : ty) (v : val) {struct t} : option json :=
  match t with
  | TInt lo hi nz => match v with VInt z => if int_ok lo hi nz z then Some (JNum z) else None | _ => None end
  | TBool => match v with VBool b => Some (JBool b) | _ => None end
  | TStr => match v with VStr s => Some (JStr s) | _ => None end
  | TOption t' => match v with VNone => Some JNull | VSome v' => ser t' v' | _ => None end
  | TSeq t' => match v with VList l => option_map JArr (mapM (ser t') l) | _ => None end
  | TMap k t' =>
      match k, v with
      | TInt lo hi nz, VMapV l =>
          option_map JObj (mapM (fun p : Z * val =>
            match ser_key lo hi nz (fst p), ser t' (snd p) with Some s, Some j => Some (s, j) | _, _ => None end) l)
      | _, _ => None
      end
  | TTuple ts => match v with VList l => option_map JArr (ser_tys ts l) | _ => None end
  | TStruct fs => match v with VList l => option_map JObj (ser_fields fs l) | _ => None end
  | TEnum vs => match v with VVariant n p => ser_variants vs n p | _ => None end
  end
with ser_tys (ts : tys) (l : list val) {struct ts} : option (list json) :=
  match ts, l with
  | TNil, [] => Some []
  | TCons t ts', v :: l' => match ser t v, ser_tys ts' l' with Some j, Some js => Some (j :: js) | _, _ => None end
  | _, _ => None
  end
with ser_fields (fs : fields) (l : list val) {struct fs} : option (list (list byte * json)) :=
  match fs, l with
  | FNil, [] => Some []
  | FCons name t fs', v :: l' =>
      match ser t v, ser_fields fs' l' with Some j, Some js => Some ((name, j) :: js) | _, _ => None end
  | _, _ => None
  end
with ser_variants (vs : variants) (n : nat) (p : option val) {struct vs} : option json :=
  match vs with
  | VNil => None
  | VUnit name vs' =>
      match n with
      | O => match p with None => Some (JStr name) | Some _ => None end
      | S n' => ser_variants vs' n' p
      end
  | VPay name t vs' =>
      match n with
      | O => match p with Some v => option_map (fun j => JObj [(name, j)]) (ser t v) | None => None end
      | S n' => ser_variants vs' n' p
      end
  end.

Definition bytes_eqb (a b : list byte) : bool := if list_eq_dec N.eq_dec a b then true else false.

Fixpoint de (t : ty) (j : json) {struct t} : option val :=
  match t with
  | TInt lo hi nz => match j with JNum z => if int_ok lo hi nz z then Some (VInt z) else None | _ => None end
  | TBool => match j with JBool b => Some (VBool b) | _ => None end
  | TStr => match j with JStr s => Some (VStr s) | _ => None end
  | TOption t' => match j with JNull => Some VNone | _ => option_map VSome (de t' j) end
  | TSeq t' => match j with JArr l => option_map VList (mapM (de t') l) | _ => None end
  | TMap k t' =>
      match k, j with
      | TInt lo hi nz, JObj l =>
          option_map VMapV (mapM (fun p : list byte * json =>
            match de_key lo hi nz (fst p), de t' (snd p) with Some z, Some v => Some (z, v) | _, _ => None end) l)
      | _, _ => None
      end
  | TTuple ts => match j with JArr l => option_map VList (de_tys ts l) | _ => None end
  | TStruct fs => match j with JObj l => option_map VList (de_fields fs l) | _ => None end
  | TEnum vs =>
      match j with
      | JStr s => de_variants vs s None O
      | JObj [(s, j')] => de_variants vs s (Some j') O
      | _ => None
      end
  end
with de_tys (ts : tys) (l : list json) {struct ts} : option (list val) :=
  match ts, l with
  | TNil, [] => Some []
  | TCons t ts', j :: l' => match de t j, de_tys ts' l' with Some v, Some vs => Some (v :: vs) | _, _ => None end
  | _, _ => None
  end
with de_fields (fs : fields) (l : list (list byte * json)) {struct fs} : option (list val) :=
  match fs, l with
  | FNil, [] => Some []
  | FCons name t fs', (n, j) :: l' =>
      if bytes_eqb n name
      then match de t j, de_fields fs' l' with Some v, Some vs => Some (v :: vs) | _, _ => None end
      else None
  | _, _ => None
  end
with de_variants (vs : variants) (s : list byte) (p : option json) (idx : nat) {struct vs} : option val :=
  (* the first variant called s decides *)
  match vs with
  | VNil => None
  | VUnit name vs' =>
      if bytes_eqb s name
      then match p with None => Some (VVariant idx None) | Some _ => None end
      else de_variants vs' s p (S idx)
  | VPay name t vs' =>
      if bytes_eqb s name
      then match p with Some j => option_map (fun v => VVariant idx (Some v)) (de t j) | None => None end
      else de_variants vs' s p (S idx)
  end.

(* side conditions under which the round trip holds: no Option directly inside an Option (None and Some(None) are
   both written as null), enum variants have distinct names *)
Definition nullable (t : ty) : bool := match t with TOption _ => true | _ => false end.

Fixpoint variant_names (vs : variants) : list (list byte) :=
  match vs with VNil => [] | VUnit n vs' => n :: variant_names vs' | VPay n _ vs' => n :: variant_names vs' end.
Fixpoint distinct (l : list (list byte)) : bool :=
  match l with [] => true | a :: r => negb (existsb (bytes_eqb a) r) && distinct r end.

Fixpoint ty_okb (t : ty) : bool :=
  match t with
  | TInt _ _ _ | TBool | TStr => true
  | TOption t' => negb (nullable t') && ty_okb t'
  | TSeq t' => ty_okb t'
  | TMap k t' => match k with TInt _ _ _ => ty_okb t' | _ => false end
  | TTuple ts => tys_okb ts
  | TStruct fs => fields_okb fs
  | TEnum vs => distinct (variant_names vs) && variants_okb vs
  end
with tys_okb (ts : tys) : bool := match ts with TNil => true | TCons t ts' => ty_okb t && tys_okb ts' end
with fields_okb (fs : fields) : bool := match fs with FNil => true | FCons _ t fs' => ty_okb t && fields_okb fs' end
with variants_okb (vs : variants) : bool :=
  match vs with VNil => true | VUnit _ vs' => variants_okb vs' | VPay _ t vs' => ty_okb t && variants_okb vs' end.

(* checks a document: reads it and writes it again; used by the correspondence run on the implementation's JSON *)
Definition reserialises (t : ty) (j : json) : option json :=
  match de t j with Some v => ser t v | None => None end.

(* a value of every shape (non-vacuity of the round-trip theorem on the translated derive sites) *)
Fixpoint inhabitant (t : ty) : val :=
  match t with
  | TInt lo hi nz => VInt (if int_ok lo hi nz 1 then 1 else lo)
  | TBool => VBool true
  | TStr => VStr [119; 118]%N
  | TOption t' => VSome (inhabitant t')
  | TSeq t' => VList [inhabitant t'; inhabitant t']
  | TMap k t' => VMapV [(7, inhabitant t'); (4294967295, inhabitant t')]
  | TTuple ts => VList (inh_tys ts)
  | TStruct fs => VList (inh_fields fs)
  | TEnum vs => inh_last vs O (VVariant O None)
  end
with inh_tys (ts : tys) : list val := match ts with TNil => [] | TCons t ts' => inhabitant t :: inh_tys ts' end
with inh_fields (fs : fields) : list val := match fs with FNil => [] | FCons _ t fs' => inhabitant t :: inh_fields fs' end
with inh_last (vs : variants) (idx : nat) (acc : val) : val :=   (* the last variant *)
  match vs with
  | VNil => acc
  | VUnit _ vs' => inh_last vs' (S idx) (VVariant idx None)
  | VPay _ t vs' => inh_last vs' (S idx) (VVariant idx (Some (inhabitant t)))
  end.
