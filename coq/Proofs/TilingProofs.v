(* Multi-threaded VCD loading equals single-threaded loading (property C03) for bodies written one token group per line:
   each parser thread emits the events of the lines between the first line start after its chunk start and the first
   time stamp line that starts after the next chunk start; dropping what a later thread drops (value lines before its
   first time stamp), the threads' operation lists tile the sequential one. *)
From WV Require Import Model.Base Generated.Consts Model.Bits Model.VcdBody Proofs.BodyProofs Proofs.HandoverProofs Proofs.TokenProofs.
From Coq Require Import Lia.
Open Scope N_scope.

Definition llen (l : line) : nat := S (length (text_of l)).
Definition bytes_of (X : list line) : list byte := concat (map (fun l => text_of l ++ [10]) X).

Lemma bytes_of_cons l X : bytes_of (l :: X) = (text_of l ++ [10]) ++ bytes_of X.
Proof. reflexivity. Qed.

Lemma bytes_of_length X : length (bytes_of X) = fold_right (fun l a => (llen l + a)%nat) 0%nat X.
Proof. induction X as [|l X IH]; [reflexivity|]. rewrite bytes_of_cons, !app_length, IH. cbn [length fold_right]. unfold llen. lia. Qed.

(* the lines a thread emits from a clean state at position p: all of them up to the first time stamp line at which the
   hand-over rule fires (the byte before the token lies beyond the stop position) *)
Fixpoint upto (stop p : N) (X : list line) : list line :=
  match X with
  | [] => []
  | l :: r => if is_time l && (stop + 1 <? p) then [] else l :: upto stop (p + N.of_nat (llen l)) r
  end.

Lemma time_fires debug stop d s : line_ok (LTime d) -> clean s -> stop + 1 < ps_pos s ->
  run_bytes debug stop (text_of (LTime d) ++ [10]) s = Finished (rev_append (ps_acc s) [], PDone).
Proof.
  intros [Hd (v & Hv)] (Hst & Hf & Hid & Hpos) Hfire. cbn [text_of].
  rewrite run_bytes_app, (feed_first debug stop (35 :: d) s Hst (no_ws_cons 35 d eq_refl Hd)), Hf. cbn [app].
  cbn [run_bytes ps_state ps_pos ps_first ps_id ps_acc]. rewrite ws_10.
  assert (Hpf : parse_first_token debug (35 :: d) = Ok (FtTime v)).
  { unfold parse_first_token. destruct d as [|d0 dr]; [cbn in Hv; discriminate|].
    cbn [length]. rewrite Bool.andb_false_r. change (35 =? 35) with true. cbn iota. now rewrite Hv. }
  rewrite Hpf. cbn [length] in *.
  destruct (N.ltb_spec (ps_pos s + N.of_nat (S (length d))) (N.of_nat (S (length d)) + 1)) as [Hc|_]; [lia|].
  destruct (N.ltb_spec stop (ps_pos s + N.of_nat (S (length d)) - N.of_nat (S (length d)) - 1)) as [_|Hc]; [reflexivity|lia].
Qed.

Lemma run_lines_stop debug stop : forall X s, Forall line_ok X -> clean s ->
  finish debug (run_bytes debug stop (bytes_of X) s) = (rev (ps_acc s) ++ flat_map events_of (upto stop (ps_pos s) X), PDone).
Proof.
  induction X as [|l X IH]; intros s Hok Hs.
  - cbn [bytes_of map concat run_bytes finish upto flat_map]. unfold eof_flush. destruct Hs as (Hst & Hf & _). rewrite Hst, Hf.
    now rewrite rev_append_rev, !app_nil_r.
  - apply Forall_cons_iff in Hok as [Hl HX]. rewrite bytes_of_cons, run_bytes_app. cbn [upto].
    destruct (is_time l && (stop + 1 <? ps_pos s)) eqn:Efire.
    + apply andb_prop in Efire as [Et Ef]. apply N.ltb_lt in Ef. destruct l as [d| | | |]; try discriminate.
      rewrite (time_fires debug stop d s Hl Hs Ef). cbn [finish flat_map]. now rewrite rev_append_rev, !app_nil_r.
    + destruct (line_step debug stop l s Hl Hs) as (s1 & Hr1 & Hc1 & Hp1 & Ha1).
      { intros Ht. rewrite Ht in Efire. cbn [andb] in Efire. apply N.ltb_ge in Efire. exact Efire. }
      rewrite Hr1, (IH s1 HX Hc1), Ha1, Hp1. cbn [flat_map]. rewrite rev_app_distr, rev_involutive, <- app_assoc.
      replace (ps_pos s + N.of_nat (length (text_of l)) + 1) with (ps_pos s + N.of_nat (llen l)) by (unfold llen; lia). reflexivity.
Qed.

(* ------------------------------------------------------------------ absolute offsets *)

Definition body (ls : list line) : list byte := 10 :: bytes_of ls.

Lemma body_render ls : body ls = render ls.
Proof. reflexivity. Qed.

(* the lines before the first time stamp line that starts beyond offset T; `o` is the offset of the first line *)
Fixpoint cutabs (T o : nat) (X : list line) : list line :=
  match X with
  | [] => []
  | l :: r => if is_time l && (T <? o)%nat then [] else l :: cutabs T (o + llen l) r
  end.

Lemma upto_cutabs s len : forall X o, (s < o)%nat -> (1 <= len)%nat ->
  upto (N.of_nat (len - 1)) (N.of_nat (o - s)) X = cutabs (s + len) o X.
Proof.
  induction X as [|l X IH]; intros o Ho Hl; [reflexivity|]. cbn [upto cutabs].
  assert (E : (N.of_nat (len - 1) + 1 <? N.of_nat (o - s)) = (s + len <? o)%nat).
  { destruct (N.ltb_spec (N.of_nat (len - 1) + 1) (N.of_nat (o - s))); destruct (Nat.ltb_spec (s + len) o); try reflexivity; lia. }
  rewrite E. destruct (is_time l && (s + len <? o)%nat); [reflexivity|]. f_equal.
  rewrite <- (IH (o + llen l)%nat) by lia. f_equal. lia.
Qed.

(* the lines after the line that contains offset s, and the offset of the first of them *)
Fixpoint after (s o : nat) (X : list line) : list line * nat :=
  match X with
  | [] => ([], o)
  | l :: r => if (s <? o + llen l)%nat then (r, (o + llen l)%nat) else after s (o + llen l) r
  end.

Lemma text_no_lf l : line_ok l -> ~ In 10 (text_of l).
Proof.
  assert (W : forall w, no_ws w -> ~ In 10 w).
  { intros w Hw Hin. unfold no_ws in Hw. rewrite Forall_forall in Hw. specialize (Hw 10 Hin). discriminate. }
  destruct l as [d|c id|v id|ws|kw]; cbn [line_ok text_of]; intros H Hin.
  - destruct H as [Hd _]. destruct Hin as [E|Hin]; [discriminate|]. exact (W d Hd Hin).
  - destruct H as (Hc & _ & Hid). destruct (one_bit_facts c Hc) as [Hcw _]. destruct Hin as [E|Hin]; [subst c; discriminate|]. exact (W id Hid Hin).
  - destruct H as (_ & Hv & _ & Hid). apply in_app_or in Hin as [Hin|Hin]; [exact (W v Hv Hin)|].
    destruct Hin as [E|Hin]; [discriminate|]. exact (W id Hid Hin).
  - apply in_app_or in Hin as [Hin|Hin]; [revert Hin; unfold kw_comment; cbn; intuition discriminate|].
    apply in_app_or in Hin as [Hin|Hin].
    + apply in_concat in Hin as (x & Hx & Hin). apply in_map_iff in Hx as (w & <- & Hw). rewrite Forall_forall in H. destruct (H w Hw) as (_ & Hww & _).
      unfold sp in Hin. destruct Hin as [E|Hin]; [discriminate|]. exact (W w Hww Hin).
    + revert Hin. unfold kw_end. cbn. intuition discriminate.
  - destruct H as [E|[E|[E|E]]]; subst kw; revert Hin; cbn; intuition discriminate.
Qed.

Lemma in_skipn_ {A} (l : list A) : forall n x, In x (skipn n l) -> In x l.
Proof. induction l as [|a l IH]; intros [|n] x H; cbn in *; auto. right. eapply IH; eauto. Qed.

(* skipping into the body: the rest of the current line, its line feed, the remaining lines *)
Lemma skipn_after : forall X s o, Forall line_ok X -> (o <= s)%nat -> (s < o + length (bytes_of X))%nat ->
  exists x, skipn (s - o) (bytes_of X) = x ++ [10] ++ bytes_of (fst (after s o X)) /\ ~ In 10 x /\
            snd (after s o X) = (s + length x + 1)%nat.
Proof.
  induction X as [|l X IH]; intros s o Hok Ho Hs; [cbn in Hs; lia|].
  apply Forall_cons_iff in Hok as [Hl HX]. rewrite bytes_of_cons in *. rewrite !app_length in Hs. cbn [length] in Hs.
  cbn [after]. unfold llen. destruct (Nat.ltb_spec s (o + S (length (text_of l)))) as [Hin|Hout]; cbn [fst snd].
  - exists (skipn (s - o) (text_of l)). rewrite <- app_assoc. rewrite skipn_app.
    replace (s - o - length (text_of l))%nat with 0%nat by lia. cbn [skipn]. split; [reflexivity|].
    split; [intros Hx; apply (text_no_lf l Hl); eapply in_skipn_; eauto|]. rewrite skipn_length. lia.
  - destruct (IH s (o + S (length (text_of l)))%nat HX ltac:(lia) ltac:(lia)) as (x & Hsk & Hno & Hoff).
    exists x. split; [|split; assumption]. rewrite <- Hsk.
    rewrite skipn_app. rewrite skipn_all2 by (rewrite app_length; cbn [length]; lia). cbn [app]. f_equal. rewrite app_length. cbn [length]. lia.
Qed.

(* ------------------------------------------------------------------ what one parser thread emits *)

Lemma thread_first debug ls len : Forall line_ok ls -> (1 <= len)%nat ->
  parse_body debug (body ls) (N.of_nat (len - 1)) = (flat_map events_of (cutabs len 1 ls), PDone).
Proof.
  intros Hok Hl. unfold parse_body, body. rewrite parse_loop_run.
  cbn [run_bytes ps_state ps_pos ps_first ps_id ps_acc]. change (10 =? 10) with true. cbn iota.
  rewrite (run_lines_stop debug _ ls (mk_ps (0 + 1) ParsingFirstToken [] [] []) Hok) by (unfold clean; cbn; repeat split; lia).
  cbn [ps_acc ps_pos rev app]. pose proof (upto_cutabs 0 len ls 1 ltac:(lia) Hl) as E. cbn [Nat.add Nat.sub] in E. rewrite <- E. reflexivity.
Qed.

Lemma after_nil s : forall X o, (o + length (bytes_of X) <= s)%nat -> fst (after s o X) = [].
Proof.
  induction X as [|l X IH]; intros o H; [reflexivity|]. rewrite bytes_of_cons, !app_length in H. cbn [length] in H.
  cbn [after]. unfold llen. destruct (Nat.ltb_spec s (o + S (length (text_of l)))) as [Hc|_]; [lia|]. apply IH. lia.
Qed.

Lemma thread_later debug ls s len : Forall line_ok ls -> (1 <= s)%nat -> (s <= length (body ls))%nat -> (1 <= len)%nat ->
  parse_body debug (skipn s (body ls)) (N.of_nat (len - 1))
  = (flat_map events_of (cutabs (s + len) (snd (after s 1 ls)) (fst (after s 1 ls))), PDone).
Proof.
  intros Hok Hs Hle Hl. unfold body in *. cbn [length] in Hle.
  destruct s as [|s']; [lia|]. cbn [skipn].
  destruct (Nat.eq_dec (S s') (S (length (bytes_of ls)))) as [E|Hne].
  - inversion E; subst s'. rewrite skipn_all. rewrite (after_nil _ ls 1) by lia. reflexivity.
  - destruct (skipn_after ls (S s') 1 Hok ltac:(lia) ltac:(lia)) as (x & Hsk & Hno & Hoff).
    replace (S s' - 1)%nat with s' in Hsk by lia. rewrite Hsk.
    unfold parse_body. rewrite parse_loop_run. fold init_state.
    rewrite app_assoc, run_bytes_app, (skip_phase debug _ x init_state eq_refl Hno).
    cbn [init_state ps_pos ps_first ps_id ps_acc].
    rewrite (run_lines_stop debug _ _ _) ; [| | unfold clean; cbn [ps_state ps_first ps_id ps_pos]; repeat split; lia].
    2:{ clear -Hok. revert Hok. generalize 1%nat. induction ls as [|l X IH]; intros o H; [constructor|].
        apply Forall_cons_iff in H as [_ HX]. cbn [after]. destruct (_ <? _)%nat; cbn [fst]; [exact HX|now apply IH]. }
    cbn [ps_acc ps_pos rev app]. rewrite Hoff.
    rewrite <- (upto_cutabs (S s') len _ (S s' + length x + 1)) by lia. f_equal. f_equal. f_equal. lia.
Qed.

(* ------------------------------------------------------------------ splitting the line list at time stamp lines *)

(* (lines before the first time stamp line that starts beyond T, the lines from it on, the offset of the latter) *)
Fixpoint tsplit (T o : nat) (X : list line) : list line * list line * nat :=
  match X with
  | [] => ([], [], o)
  | l :: r => if is_time l && (T <? o)%nat then ([], X, o)
              else let '(b, a, oa) := tsplit T (o + llen l) r in (l :: b, a, oa)
  end.

Lemma tsplit_cutabs T : forall X o, fst (fst (tsplit T o X)) = cutabs T o X.
Proof.
  induction X as [|l X IH]; intros o; [reflexivity|]. cbn [tsplit cutabs].
  destruct (is_time l && (T <? o)%nat); [reflexivity|]. specialize (IH (o + llen l)%nat).
  destruct (tsplit T (o + llen l) X) as [[b a] oa]. cbn [fst] in *. now rewrite IH.
Qed.

Lemma tsplit_app T : forall X o, X = fst (fst (tsplit T o X)) ++ snd (fst (tsplit T o X)).
Proof.
  induction X as [|l X IH]; intros o; [reflexivity|]. cbn [tsplit].
  destruct (is_time l && (T <? o)%nat); [reflexivity|]. specialize (IH (o + llen l)%nat).
  destruct (tsplit T (o + llen l) X) as [[b a] oa]. cbn [fst snd app] in *. now rewrite <- IH.
Qed.

(* the rest starts with a time stamp line (or is empty) *)
Definition starts_with_time (X : list line) : Prop := match X with [] => True | l :: _ => is_time l = true end.

Lemma tsplit_rest_time T : forall X o, starts_with_time (snd (fst (tsplit T o X))).
Proof.
  induction X as [|l X IH]; intros o; [exact I|]. cbn [tsplit].
  destruct (is_time l && (T <? o)%nat) eqn:E; [cbn; now apply andb_prop in E as [E _]|]. specialize (IH (o + llen l)%nat).
  destruct (tsplit T (o + llen l) X) as [[b a] oa]. exact IH.
Qed.

(* splitting at a later offset only moves the split point to the right *)
Lemma tsplit_compose T1 T2 : (T1 <= T2)%nat -> forall X o,
  let '(b1, a1, o1) := tsplit T1 o X in
  let '(b2, a2, o2) := tsplit T2 o X in
  let '(b12, a12, o12) := tsplit T2 o1 a1 in
  b2 = b1 ++ b12 /\ a2 = a12 /\ o2 = o12.
Proof.
  intros Hle. induction X as [|l X IH]; intros o; [cbn; auto|]. cbn [tsplit].
  destruct (is_time l) eqn:Et; cbn [andb].
  - destruct (Nat.ltb_spec T1 o) as [H1|H1].
    + (* split 1 here *) cbn [tsplit]. rewrite Et. cbn [andb].
      destruct (Nat.ltb_spec T2 o) as [H2|H2]; [auto|].
      destruct (tsplit T2 (o + llen l) X) as [[b a] oa]. auto.
    + destruct (Nat.ltb_spec T2 o) as [H2|H2]; [lia|]. specialize (IH (o + llen l)%nat).
      destruct (tsplit T1 (o + llen l) X) as [[b1 a1] o1]. destruct (tsplit T2 (o + llen l) X) as [[b2 a2] o2].
      destruct (tsplit T2 o1 a1) as [[b12 a12] o12]. destruct IH as (-> & -> & ->). auto.
  - specialize (IH (o + llen l)%nat).
    destruct (tsplit T1 (o + llen l) X) as [[b1 a1] o1]. destruct (tsplit T2 (o + llen l) X) as [[b2 a2] o2].
    destruct (tsplit T2 o1 a1) as [[b12 a12] o12]. destruct IH as (-> & -> & ->). auto.
Qed.

(* the lines a later thread looks at (after the line containing s) are value / comment lines followed by the rest of the
   split at s *)
Lemma after_tsplit s : forall X o, (o <= s)%nat ->
  exists D, fst (after s o X) = D ++ snd (fst (tsplit s o X)) /\ Forall (fun l => is_time l = false) D /\
            (snd (after s o X) + length (bytes_of D) = snd (tsplit s o X))%nat.
Proof.
  induction X as [|l X IH]; intros o Ho.
  - exists []. cbn. repeat split; [constructor|lia].
  - cbn [after tsplit]. destruct (Nat.ltb_spec s o) as [Hc|_]; [lia|]. rewrite Bool.andb_false_r.
    destruct (Nat.ltb_spec s (o + llen l)) as [Hin|Hout].
    + (* s lies in line l: the thread sees X, all of it beyond s *)
      cbn [fst snd]. clear IH.
      assert (G : forall Y oy, (s < oy)%nat -> exists D, Y = D ++ snd (fst (tsplit s oy Y)) /\ Forall (fun l => is_time l = false) D /\
                                                        (oy + length (bytes_of D) = snd (tsplit s oy Y))%nat).
      { induction Y as [|y Y IHY]; intros oy Hoy.
        - exists []. cbn. repeat split; [constructor|lia].
        - cbn [tsplit]. destruct (Nat.ltb_spec s oy) as [_|Hc]; [|lia]. destruct (is_time y) eqn:Ey; cbn [andb].
          + exists []. cbn. repeat split; [constructor|lia].
          + destruct (IHY (oy + llen y)%nat ltac:(lia)) as (D & HD & HF & HO).
            destruct (tsplit s (oy + llen y) Y) as [[b a] oa]. cbn [fst snd] in *. exists (y :: D).
            split; [cbn [app]; now rewrite <- HD|]. split; [constructor; assumption|].
            rewrite bytes_of_cons, !app_length. cbn [length]. unfold llen in *. lia. }
      destruct (G X (o + llen l)%nat Hin) as (D & HD & HF & HO).
      destruct (tsplit s (o + llen l) X) as [[b a] oa]. cbn [fst snd] in *. exists D. repeat split; assumption.
    + destruct (IH (o + llen l)%nat Hout) as (D & HD & HF & HO).
      destruct (tsplit s (o + llen l) X) as [[b a] oa]. cbn [fst snd] in *. exists D. repeat split; assumption.
Qed.

Lemma cutabs_notime T : forall D Y o, Forall (fun l => is_time l = false) D ->
  cutabs T o (D ++ Y) = D ++ cutabs T (o + length (bytes_of D)) Y.
Proof.
  induction D as [|d D IH]; intros Y o H; [cbn; now rewrite Nat.add_0_r|].
  apply Forall_cons_iff in H as [Hd HD]. cbn [app cutabs]. rewrite Hd. cbn [andb]. rewrite IH by exact HD.
  rewrite bytes_of_cons, !app_length. cbn [length]. unfold llen. f_equal. f_equal. f_equal. lia.
Qed.
