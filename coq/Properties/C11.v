(* Property C11: GHW files load faithfully.  Pinned: the store side of the GHW value path - a correctly packed
   vector handed to SignalEncoder::add_n_bit_change is re-packed into the least sufficient kind (check_min_state,
   compress_template) and appended as one stream entry; with storage_transparent (Properties/C04.v, raw value
   changes are part of its histories) the loaded signal reports exactly those symbols.
   Also pinned: the vector buffer - writing one per-bit record (VecBuffer::set_value) is writing one symbol of the
   vector (first declared element leftmost) and keeps the buffer correctly packed (ve_set_spec, ve_get_spec).
   NOT proved: the dispatch schedule of the buffer (when a vector is handed to the store), the section grammar, the hierarchy; those
   are decided by the correspondence run on signal sections and by the GHW file generator (MANIFEST level_note). *)
From WV Require Import Model.Base Model.Bits Model.WaveMem Model.Ghw Proofs.BitsProofs Proofs.StoreProofs Proofs.RawProofs Proofs.VecProofs.
Open Scope N_scope.

Check compress_template_spec :
  forall in_st out_st syms, small_syms in_st syms ->
  compress_template (write_n_state_loop in_st syms 0 None) in_st out_st (length syms)
  = Ok (write_n_state_loop out_st syms 0 None).

Check check_min_state_spec :
  forall st syms, small_syms st syms -> Forall (fun v => v <= 8) syms ->
  let m := check_min_state (write_n_state_loop st syms 0 None) st in
  small_syms m syms /\ states_num m <= states_num st /\
  (forall st', small_syms st' syms -> states_num m <= states_num st').

Check add_n_bit_change_entry :
  forall se t st syms bits se', se_tpe se = EncBits bits -> (1 <= bits)%nat ->
  length syms = bits -> small_syms st syms -> Forall (fun v => v <= 8) syms ->
  add_n_bit_change se t (write_n_state_loop st syms 0 None) st = Ok se' ->
  exists l,
    small_syms l syms /\ states_num l <= states_num st /\
    (forall l', small_syms l' syms -> states_num l <= states_num l') /\
    se_prev se <= t /\
    se_data se' = se_data se ++ enc_entry bits (t - se_prev se, l, write_n_state_loop l syms 0 None) /\
    (bits = 1%nat -> l = from_value (hd 0 syms)) /\
    se_tpe se' = se_tpe se /\ se_prev se' = t /\ se_max se' = join (se_max se) st.

(* VecBuffer::set_value / get_value on a vector whose buffer is the packed form of `syms`: bit 0 is the last declared
   element; the result is again the packed form (of the updated symbol list) *)
Check ve_set_spec :
  forall v syms bit value, vinv v syms -> (bit < ve_bits v)%nat -> value < 2 ^ sbits (ve_states v) ->
  ve_set_value v bit value = Ok (write_n_state_loop (ve_states v) (list_update syms (ve_bits v - 1 - bit) value) 0 None).
Check ve_get_spec :
  forall v syms bit, vinv v syms -> (bit < ve_bits v)%nat ->
  ve_get_value v bit = Ok (nth (ve_bits v - 1 - bit) syms 0).

Print Assumptions ve_set_spec.
Print Assumptions ve_get_spec.
Print Assumptions compress_template_spec.
Print Assumptions check_min_state_spec.
Print Assumptions add_n_bit_change_entry.
