#!/bin/bash
# usage: mutant_store.sh <agent dir name, e.g. C05b> <N> <seeded id, e.g. C05-m4> "<verify line>"
# stores a confirmed sub-agent change under /verif/seeded/<id>/ (patch.diff, demo, description.md, meta.json)
A=$1; N=$2; ID=$3; VER=$4
O=/tmp/mut/$A-out; D=/verif/seeded/$ID
mkdir -p $D
cp $O/mut$N.diff $D/patch.diff
demo=$(ls $O/mut${N}_demo.* | head -1); cp $demo $D/demo.${demo##*.}
cp $O/mut$N.md $D/description.md
python3 - "$D/meta.json" "$ID" "$A" "$N" "$VER" "$D/description.md" <<'PY'
import json,sys
path,id_,a,n,ver,desc=sys.argv[1:7]
first=open(desc).read().strip().split("\n")[0]
m={"id":id_,"breaks_property":id_.split("-")[0],
   "origin":"independent sub-agent (sub-agent round; see DESIGN 12.4) given only the property text, one-line summaries of the earlier changes to avoid, and a scratch worktree",
   "needs_to_manifest":first,"confirmed":ver,
   "what_i_ran":"scripts/mutant_verify.sh %s %s (apply in scratch worktree, cargo build with and without --cfg wellen_verif, pinned suite == baseline, demo passes clean / fails mutated)"%(a,n),
   "detected_by":{}}
json.dump(m,open(path,"w"),indent=1)
PY
echo stored $ID
