(* Property C18: the Python binding reports what the Rust API reports. *)
From Coq Require Import Sorted.
From WV Require Import Model.Base Model.WaveMem Model.Py Proofs.PyProofs.
Open Scope N_scope.

(* value_at_time(t) is value_at_idx of the latest time step at or before t, None before the first *)
Check value_at_time_spec :
  forall tt s t, StronglySorted N.lt tt -> N.of_nat (length tt) < 4294967296 ->
  value_at_time tt s t = match count_le tt t with O => Ok None | S i => value_at_idx s (N.of_nat i) end.

(* TimeTable indexing follows the Python conventions *)
Check getitem_nonneg : forall tt (i : nat), time_table_getitem tt (Z.of_nat i) = nth_error tt i.
Check getitem_negative :
  forall tt (k : nat), (1 <= k <= length tt)%nat -> time_table_getitem tt (- Z.of_nat k) = nth_error tt (length tt - k).
Check getitem_out_of_range :
  forall tt (i : Z), (i < - Z.of_nat (length tt) \/ Z.of_nat (length tt) <= i)%Z -> time_table_getitem tt i = None.

Print Assumptions value_at_time_spec.
Print Assumptions getitem_nonneg.
Print Assumptions getitem_negative.
Print Assumptions getitem_out_of_range.
