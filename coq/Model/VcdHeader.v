(* Model of the VCD header path of wellen/src/vcd.rs: read_command, read_until_end_token, find_tokens,
   read_vcd_header, the callback of read_hierarchy_inner ($scope/$upscope/$var/$date/$version/
   $comment/$timescale/$attrbegin misc 02/03/04), IdTracker::need_id_map and the restart with an id
   map, parse_name, extract_suffix_index, VarIndex::{new,msb,lsb}, convert_* keyword tables,
   SignalEncoding::bit_vec_of_len.  The result is the list of HierarchyBuilder operations the
   header issues (Model/Hierarchy.v), the meta data and the identifier lookup. *)
From WV Require Import Model.Base Generated.Consts Model.Bits Model.WaveMem Model.VcdBody Model.Hierarchy.
Open Scope N_scope.

(* ---------- read_command ---------- *)

Fixpoint skip_ws (l : list byte) : option (byte * list byte) :=
  match l with
  | [] => None
  | b :: r => if is_white_space b then skip_ws r else Some (b, r)
  end.

Fixpoint read_token (l : list byte) (acc : list byte) : option (list byte * list byte) :=
  match l with
  | [] => None
  | b :: r => if is_white_space b then Some (rev_append acc [], r) else read_token r (b :: acc)
  end.

Fixpoint drop_ws (l : list byte) : list byte :=
  match l with
  | b :: r => if is_white_space b then drop_ws r else l
  | [] => []
  end.

(* read_until_end_token: leading blank space is skipped, everything is appended to the buffer
   (newest first in `acc`), `$end` is recognised by the 4-state matcher, dropped, and the buffer
   is right-stripped *)
Fixpoint until_end (l : list byte) (skipping : bool) (end_index : N) (acc : list byte)
  : option (list byte * list byte) :=
  match l with
  | [] => None
  | b :: r =>
    if skipping && is_white_space b then until_end r true end_index acc
    else
      if (end_index =? 3) && (b =? 100) then Some (rev_append (drop_ws (skipn 3 acc)) [], r)
      else
        let ei := if (end_index =? 0) && (b =? 36) then 1
                  else if (end_index =? 1) && (b =? 101) then 2
                  else if (end_index =? 2) && (b =? 110) then 3 else 0 in
        until_end r false ei (b :: acc)
  end.

Inductive vcd_cmd := CDate | CTimescale | CVar | CScope | CUpScope | CComment | CVersion | CEndDefs | CAttr.

Definition cmd_table : list (list byte * vcd_cmd) :=
  [ ([100;97;116;101], CDate);
    ([116;105;109;101;115;99;97;108;101], CTimescale);
    ([118;97;114], CVar);
    ([115;99;111;112;101], CScope);
    ([117;112;115;99;111;112;101], CUpScope);
    ([99;111;109;109;101;110;116], CComment);
    ([118;101;114;115;105;111;110], CVersion);
    ([101;110;100;100;101;102;105;110;105;116;105;111;110;115], CEndDefs);
    ([97;116;116;114;98;101;103;105;110], CAttr) ].

Fixpoint lookup_bytes {A} (k : list byte) (t : list (list byte * A)) : option A :=
  match t with
  | [] => None
  | (a, v) :: r => if list_eqb a k then Some v else lookup_bytes k r
  end.

(* Ok (cmd, body, rest) | Err *)
Definition read_command (l : list byte) : outcome (vcd_cmd * list byte * list byte) :=
  match skip_ws l with
  | None => Err
  | Some (c, r) =>
    if negb (c =? 36) then Err
    else match read_token r [] with
         | None => Err
         | Some (w, r2) =>
           match lookup_bytes w cmd_table with
           | None => Err
           | Some cmd => match until_end r2 true 0 [] with
                         | None => Err
                         | Some (body, r3) => Ok (cmd, body, r3)
                         end
           end
         end
  end.

(* find_tokens: split on ' ' only, empty pieces dropped; also returns the offset of every token *)
Fixpoint find_tokens_go (l : list byte) (pos : nat) (cur : list byte) (cur_start : nat)
  : list (nat * list byte) :=
  match l with
  | [] => match cur with [] => [] | _ => [(cur_start, rev_append cur [])] end
  | b :: r =>
    if b =? 32 then
      match cur with
      | [] => find_tokens_go r (S pos) [] (S pos)
      | _ => (cur_start, rev_append cur []) :: find_tokens_go r (S pos) [] (S pos)
      end
    else find_tokens_go r (S pos) (b :: cur) (match cur with [] => pos | _ => cur_start end)
  end.
Definition find_tokens (l : list byte) : list (nat * list byte) := find_tokens_go l 0 [] 0.

(* ---------- parse_name / extract_suffix_index ---------- *)

Definition i64_min : Z := (-9223372036854775808)%Z.
Definition i64_max : Z := 9223372036854775807%Z.
(* i64 arithmetic of a debug build: overflow panics *)
Definition chk64 (z : Z) : outcome Z := if (z <? i64_min)%Z || (i64_max <? z)%Z then Panic else Ok z.

Definition wrap_i32 (z : Z) : Z :=
  let m := (z mod 4294967296)%Z in if (m <? 2147483648)%Z then m else (m - 4294967296)%Z.

(* VarIndex::new stores (lsb, width as NonZeroI32); msb() recomputes the msb *)
Definition var_index_new (msb lsb : Z) : outcome (Z * Z) :=
  do d <- chk64 (msb - lsb)%Z;
  let w := wrap_i32 d in
  let w' := if (w =? 0)%Z then (-2147483648)%Z else w in
  let msb' := if (w' =? -2147483648)%Z then lsb else (w' + lsb)%Z in
  Ok (msb', lsb).

Inductive esi_state :=
| EsiClose
| EsiLsb (end_ : nat) (num factor : Z)
| EsiMsb (end_ : nat) (lsb num factor : Z)
| EsiName (idx : Z * Z).

Definition is_digit (c : byte) : bool := (48 <=? c) && (c <=? 57).

(* extract_suffix_index walks the bytes from the back; `rl` = reversed prefix still to visit,
   its length is the index ii + 1 of its head *)
Fixpoint esi (value : list byte) (rl : list byte) (st : esi_state) : outcome (list byte * option (Z * Z)) :=
  match rl with
  | [] => Ok (value, None)
  | cc :: r =>
    let ii := length r in
    if cc =? 32 then esi value r st
    else
      match st with
      | EsiClose =>
        if cc =? 93 then esi value r (EsiLsb ii 0 1) else Ok (firstn (S ii) value, None)
      | EsiLsb e num factor =>
        if is_digit cc then
          do n <- chk64 (num + Z.of_N (cc - 48) * factor)%Z;
          do f <- chk64 (factor * 10)%Z;
          esi value r (EsiLsb e n f)
        else if cc =? 45 then do n <- chk64 (- num)%Z; esi value r (EsiLsb e n factor)
        else if cc =? 58 then esi value r (EsiMsb e num 0 1)
        else if cc =? 91 then do i <- var_index_new num num; esi value r (EsiName i)
        else Ok (firstn (S e) value, None)
      | EsiMsb e lsb num factor =>
        if is_digit cc then
          do n <- chk64 (num + Z.of_N (cc - 48) * factor)%Z;
          do f <- chk64 (factor * 10)%Z;
          esi value r (EsiMsb e lsb n f)
        else if cc =? 45 then do n <- chk64 (- num)%Z; esi value r (EsiMsb e lsb n factor)
        else if cc =? 91 then do i <- var_index_new num lsb; esi value r (EsiName i)
        else Ok (firstn (S e) value, None)
      | EsiName idx => Ok (firstn (S ii) value, Some idx)
      end
  end.
Definition extract_suffix_index (value : list byte) : outcome (list byte * option (Z * Z)) :=
  esi value (rev_append value []) EsiClose.

Fixpoint trim_right_rev (rl : list byte) : list byte :=
  match rl with 32 :: r => trim_right_rev r | _ => rl end.
Definition trim_right (l : list byte) : list byte := rev_append (trim_right_rev (rev_append l [])) [].

(* position of the last `[` *)
Fixpoint find_last_go (l : list byte) (pos : nat) (best : option nat) : option nat :=
  match l with
  | [] => best
  | b :: r => find_last_go r (S pos) (if b =? 91 then Some pos else best)
  end.

(* the loop that peels further `[..]` groups off the name (fuel = length) *)
Fixpoint peel_indices (fuel : nat) (nm : list byte) (indices : list (list byte))
  : outcome (list byte * list (list byte)) :=
  match fuel with
  | O => Ok (nm, indices)
  | S f =>
    match last_opt nm with
    | Some 93 =>
      match find_last_go nm 0 None with
      | None => Err                                           (* VcdVarNameParsing *)
      | Some start =>
        peel_indices f (trim_right (firstn start nm)) (indices ++ [skipn start nm])
      end
    | _ => Ok (nm, indices)
    end
  end.

(* parse_name: (variable name, index, array scopes) *)
Definition parse_name (nm : list byte) : outcome (list byte * option (Z * Z) * list (list byte)) :=
  match nm with
  | [] => Ok ([], None, [])
  | c :: _ =>
    if c =? 91 then Panic                                     (* debug_assert!(name[0] != b'[') *)
    else
      do '(nm1, index) <- extract_suffix_index nm;
      do '(nm2, indices) <- peel_indices (S (length nm1)) nm1 [];
      match rev_append indices [] with
      | [] => Ok (nm2, index, [])
      | first_pushed_last :: _ =>
        (* scopes = name :: indices popped from the back except the first pushed one, which is the name *)
        match indices with
        | [] => Ok (nm2, index, [])
        | final_name :: others => Ok (final_name, index, nm2 :: rev_append others [])
        end
      end
  end.

(* ---------- keyword tables ---------- *)

(* generated from vcd.rs convert_scope_tpe and the declaration order of hierarchy.rs ScopeType (Generated/Consts.v) *)
Definition scope_kw : list (list byte * N) := scope_kw_src.

(* VarType codes follow the declaration order of the enum (see harness/src/hier.rs VAR_TYPES) *)
Definition var_kw : list (list byte * N) := var_kw_src.

(* TimescaleUnit codes: fs ps ns us ms s unknown = 0..6 *)
Definition unit_kw : list (list byte * N) :=
  [ ([102;115], 0); ([112;115], 1); ([110;115], 2); ([117;115], 3); ([109;115], 4); ([115], 5) ].

(* merge_vhdl_data_and_var_type: FstVhdlDataType code -> VarType code (None = keep) *)
Definition vhdl_merge (data_type : N) : option N :=
  if data_type =? 1 then Some 29 else if data_type =? 2 then Some 21 else if data_type =? 3 then Some 30
  else if data_type =? 4 then Some 33 else if data_type =? 5 then Some 34 else if data_type =? 6 then Some 31
  else if data_type =? 7 then Some 32 else if data_type =? 10 then Some 1 else if data_type =? 11 then Some 3
  else if data_type =? 14 then Some 7 else if data_type =? 16 then Some 17 else None.

(* ---------- the callback ---------- *)

Definition u32_max : N := 4294967295.
Fixpoint parse_dec (l : list byte) (acc : N) (limit : N) : option N :=
  match l with
  | [] => Some acc
  | c :: r => if is_digit c
              then let a := acc * 10 + (c - 48) in if limit <? a then None else parse_dec r a limit
              else None
  end.
Definition parse_uint (l : list byte) (limit : N) : option N :=
  match l with
  | [] => None
  | 43 :: [] => None
  | 43 :: r => parse_dec r 0 limit
  | _ => parse_dec l 0 limit
  end.

Inductive attribute :=
| ASourceLoc (path : name) (line : N)
| AVhdlTypeInfo (type_name : name) (data_type : N).

Record id_tracker := mk_idt { idt_count : N; idt_minmax : option (N * N); idt_not_mono : bool }.

(* IdTracker::need_id_map *)
Definition need_id_map (t : id_tracker) (id_value : N) : id_tracker * bool :=
  let count := idt_count t + 1 in
  let not_mono := if idt_not_mono t then true
                  else negb (match idt_minmax t with Some (_, mx) => mx <? id_value | None => true end) in
  let '(mn, mx) := match idt_minmax t with
                   | Some (a, b) => (N.min a id_value, N.max b id_value)
                   | None => (id_value, id_value)
                   end in
  let t' := mk_idt count (Some (mn, mx)) not_mono in
  if 1048576 <? id_value / count then (t', true)
  else if 1000 <? (mx - mn) / count then (t', true)
  else (t', false).

Record hstate := mk_hs {
  hs_ops : list hier_op;              (* newest first *)
  hs_attrs : list attribute;          (* attribute stack, newest first *)
  hs_paths : list (N * name);         (* path_names *)
  hs_idmap : list (list byte * nat);  (* id_map, newest first *)
  hs_tracker : id_tracker;
  hs_date : list byte;
  hs_version : list byte;
  hs_timescale : option (N * N);
  hs_comments : list (list byte)
}.

Inductive hres (A : Type) := HOk (a : A) | HErr | HPanic | HRestart.
Arguments HOk {A} a. Arguments HErr {A}. Arguments HPanic {A}. Arguments HRestart {A}.
Definition hres_of {A} (o : outcome A) : hres A :=
  match o with Ok a => HOk a | Err => HErr | Panic => HPanic end.
Definition hbind {A B} (x : hres A) (f : A -> hres B) : hres B :=
  match x with HOk a => f a | HErr => HErr | HPanic => HPanic | HRestart => HRestart end.
Notation "'hdo' x <- e ; k" := (hbind e (fun x => k))
  (at level 200, x name, e at level 100, k at level 200, right associativity).
Notation "'hdo' ' p <- e ; k" := (hbind e (fun x => match x with p => k end))
  (at level 200, p pattern, e at level 100, k at level 200, right associativity).

Definition is_ascii (l : list byte) : bool := forallb (fun b => b <? 128) l.

(* id_to_signal_ref *)
Definition id_to_signal_ref (use_id_map : bool) (st : hstate) (id : list byte) : hres (hstate * nat) :=
  if use_id_map then
    match map_get (hs_idmap st) id with
    | Some r => HOk (st, r)
    | None =>
      let r := S (length (hs_idmap st)) in
      HOk (mk_hs (hs_ops st) (hs_attrs st) (hs_paths st) ((id, r) :: hs_idmap st) (hs_tracker st)
                 (hs_date st) (hs_version st) (hs_timescale st) (hs_comments st), r)
    end
  else
    match id_to_int id with
    | None => HRestart
    | Some v =>
      let '(t', need) := need_id_map (hs_tracker st) v in
      if need then HRestart
      else HOk (mk_hs (hs_ops st) (hs_attrs st) (hs_paths st) (hs_idmap st) t'
                      (hs_date st) (hs_version st) (hs_timescale st) (hs_comments st),
                N.to_nat (u32_wrap v))
    end.

Definition with_ops (st : hstate) (ops : list hier_op) (attrs : list attribute) : hstate :=
  mk_hs ops attrs (hs_paths st) (hs_idmap st) (hs_tracker st) (hs_date st) (hs_version st)
        (hs_timescale st) (hs_comments st).

(* parse_scope_attributes: pops every attribute; the last SourceLoc popped (= the first pushed) wins *)
Fixpoint scope_attrs (attrs : list attribute) (decl : option (name * N)) : outcome (option (name * N)) :=
  match attrs with
  | [] => Ok decl
  | ASourceLoc p l :: r => scope_attrs r (Some (p, l))
  | AVhdlTypeInfo _ _ :: r => Panic                           (* debug_assert!(false) *)
  end.

(* parse_var_attributes *)
Fixpoint var_attrs (attrs : list attribute) (tpe : N) (tn : option name) : outcome (option name * N) :=
  match attrs with
  | [] => Ok (tn, tpe)
  | ASourceLoc _ _ :: _ => Panic
  | AVhdlTypeInfo n dt :: r =>
    var_attrs r (match vhdl_merge dt with Some t => t | None => tpe end) (Some n)
  end.

Definition real_types : list N := [3; 20; 28].               (* Real, RealTime, ShortReal *)

Definition handle_cmd (flatten_empty use_id_map : bool) (st : hstate) (cmd : vcd_cmd) (body : list byte)
  : hres hstate :=
  let toks := map snd (find_tokens body) in
  match cmd with
  | CScope =>
    match toks with
    | [] => HPanic                                             (* tokens[0] *)
    | tpe :: rest =>
      let nm := match rest with n :: _ => n | [] => [] end in
      let flatten := flatten_empty && (match nm with [] => true | _ => false end) in
      hdo decl <- hres_of (scope_attrs (hs_attrs st) None);
      if negb (is_ascii nm) then HErr                          (* non-ASCII names are outside the model *)
      else match lookup_bytes tpe scope_kw with
           | None => HErr
           | Some t => HOk (with_ops st (HScope nm None t decl flatten :: hs_ops st) [])
           end
    end
  | CUpScope => HOk (with_ops st (HPop :: hs_ops st) (hs_attrs st))
  | CVar =>
    match find_tokens body with
    | (_, tpe) :: (_, size) :: (_, id) :: (name_start, _) :: _ =>
      let nm := skipn name_start body in
      if negb (is_ascii size) then HPanic                      (* from_utf8(size).unwrap() *)
      else match parse_uint size u32_max with
      | None => HErr
      | Some length =>
        hdo '(var_name, index, scopes) <- hres_of (parse_name nm);
        match lookup_bytes tpe var_kw with
        | None => HErr
        | Some raw_tpe =>
          let enc := if raw_tpe =? 17 then EncString
                     else if mem_byte raw_tpe real_types then EncReal
                     else EncBits (if length =? 0 then 1%nat else N.to_nat length) in
          hdo '(type_name, var_type) <- hres_of (var_attrs (hs_attrs st) raw_tpe None);
          let ops1 := rev_append (map (fun s => HScope s None 23 None false) scopes) (hs_ops st) in
          hdo '(st1, sref) <- id_to_signal_ref use_id_map (with_ops st ops1 []) id;
          let ops2 := HVar var_name var_type 0 enc index sref type_name :: hs_ops st1 in
          let ops3 := rev_append (map (fun _ => HPop) scopes) ops2 in
          if negb (is_ascii nm) then HErr else
          HOk (with_ops st1 ops3 [])
        end
      end
    | _ => HErr
    end
  | CDate =>
    match hs_date st with
    | [] => HOk (mk_hs (hs_ops st) (hs_attrs st) (hs_paths st) (hs_idmap st) (hs_tracker st)
                       body (hs_version st) (hs_timescale st) (hs_comments st))
    | _ => HPanic                                              (* assert!(self.meta.date.is_empty()) *)
    end
  | CVersion =>
    match hs_version st with
    | [] => HOk (mk_hs (hs_ops st) (hs_attrs st) (hs_paths st) (hs_idmap st) (hs_tracker st)
                       (hs_date st) body (hs_timescale st) (hs_comments st))
    | _ => HPanic
    end
  | CComment => HOk (mk_hs (hs_ops st) (hs_attrs st) (hs_paths st) (hs_idmap st) (hs_tracker st)
                           (hs_date st) (hs_version st) (hs_timescale st) (hs_comments st ++ [body]))
  | CTimescale =>
    hdo '(factor, unit) <-
      (match toks with
       | [t] => let digits := (fix go (l : list byte) : list byte :=
                                 match l with c :: r => if is_digit c then c :: go r else [] | [] => [] end) t in
                HOk (digits, skipn (length digits) t)
       | [a; b] => HOk (a, b)
       | _ => HErr
       end);
    if negb (is_ascii factor) then HErr
    else match parse_uint factor u32_max with
    | None => HErr
    | Some f =>
      match hs_timescale st with
      | Some _ => HPanic                                       (* assert!(self.meta.timescale.is_none()) *)
      | None =>
        let u := match lookup_bytes unit unit_kw with Some u => u | None => 6 end in
        HOk (mk_hs (hs_ops st) (hs_attrs st) (hs_paths st) (hs_idmap st) (hs_tracker st)
                   (hs_date st) (hs_version st) (Some (f, u)) (hs_comments st))
      end
    end
  | CEndDefs => HOk st
  | CAttr =>
    match toks with
    | kind :: code :: rest =>
      match rest with [] => HErr | _ =>
      if negb (list_eqb kind [109;105;115;99]) then HErr      (* only `misc` *)
      else if list_eqb code [48;50] then                      (* 02: VhdlVarInfo *)
        match rest with
        | [type_name; arg] =>
          if negb (is_ascii type_name && is_ascii arg) then HErr else
          match parse_uint arg u64_max with
          | None => HErr
          | Some a =>
            let var_type := (a / 1024) mod 256 in
            let data_type := (a mod 1024) mod 256 in
            if (5 <? var_type) || (16 <? data_type) then HErr
            else HOk (with_ops st (hs_ops st) (AVhdlTypeInfo type_name data_type :: hs_attrs st))
          end
        | _ => HErr
        end
      else if list_eqb code [48;51] then                      (* 03: PathName *)
        match rest with
        | [path; idt] =>
          if negb (is_ascii path && is_ascii idt) then HErr else
          match parse_uint idt u64_max with
          | None => HErr
          | Some i => HOk (mk_hs (hs_ops st) (hs_attrs st) ((i, path) :: hs_paths st) (hs_idmap st)
                                 (hs_tracker st) (hs_date st) (hs_version st) (hs_timescale st) (hs_comments st))
          end
        | _ => HErr
        end
      else if list_eqb code [48;52] then                      (* 04: SourceStem *)
        match rest with
        | [pid; line] =>
          if negb (is_ascii pid && is_ascii line) then HErr else
          match parse_uint pid u64_max, parse_uint line u64_max with
          | Some p, Some ln =>
            match (fix get (m : list (N * name)) : option name :=
                     match m with [] => None | (k, v) :: r => if k =? p then Some v else get r end) (hs_paths st) with
            | None => HPanic                                   (* path_names[&path_id] *)
            | Some path => HOk (with_ops st (hs_ops st) (ASourceLoc path ln :: hs_attrs st))
            end
          | _, _ => HErr
          end
        | _ => HErr
        end
      else HErr
      end
    | _ => HErr
    end
  end.

(* read_vcd_header: one command per unit of fuel *)
Fixpoint header_loop (fuel : nat) (flatten_empty use_id_map : bool) (l : list byte) (st : hstate)
  : hres (hstate * list byte) :=
  match fuel with
  | O => HErr
  | S f =>
    match read_command l with
    | Err => HErr
    | Panic => HPanic
    | Ok (cmd, body, rest) =>
      match cmd with
      | CEndDefs => HOk (st, rest)
      | _ => hdo st' <- handle_cmd flatten_empty use_id_map st cmd body;
             header_loop f flatten_empty use_id_map rest st'
      end
    end
  end.

Definition hs_init : hstate := mk_hs [] [] [] [] (mk_idt 0 None false) [] [] None [].

Record header_result := mk_hr {
  hr_len : nat;
  hr_ops : list hier_op;
  hr_lookup : id_lookup;
  hr_date : list byte;
  hr_version : list byte;
  hr_timescale : option (N * N)
}.

(* read_hierarchy: first without an id map, restart with one on VcdNonContiguousIds *)
Definition read_header (flatten_empty : bool) (input : list byte) : outcome header_result :=
  let finish (use_map : bool) (r : hstate * list byte) :=
    let '(st, rest) := r in
    Ok (mk_hr (length input - length rest) (rev_append (hs_ops st) [])
              (if use_map then Some (hs_idmap st) else None)
              (hs_date st) (hs_version st) (hs_timescale st)) in
  match header_loop (S (length input)) flatten_empty false input hs_init with
  | HOk r => finish false r
  | HErr => Err
  | HPanic => Panic
  | HRestart =>
    match header_loop (S (length input)) flatten_empty true input hs_init with
    | HOk r => finish true r
    | HErr => Err
    | HPanic => Panic
    | HRestart => Panic
    end
  end.
