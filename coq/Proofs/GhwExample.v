(* C11, end to end: a concrete GHW file (291 bytes: `data : std_logic_vector(3 downto 0)` and `cnt : integer` in an instance
   `top`; snapshot at time 0 with the values 01xz and 5; one cycle section at time 10 fs with a delta cycle: 1100 and -2, then 1101)
   is read by the model of the whole loader, satisfies the hypotheses of ghw_file_store_ops, and loads as the file says. *)
From Coq Require Import Lia.
From WV Require Import Model.Base Generated.Consts Model.Bits Model.WaveMem Model.Hierarchy Model.FstHier Model.Ghw Model.GhwAlias
  Model.GhwHier Model.GhwFile Proofs.GhwProofs Proofs.GhwFileProofs.
Open Scope N_scope.

Definition example_ghw : list byte := [71; 72; 68; 76; 119; 97; 118; 101; 10; 16; 0; 1; 1; 4; 0; 0; 83; 84; 82; 0; 0; 0; 0; 0; 16; 0; 0; 0; 0; 0; 0; 0; 116; 111; 112; 0; 100; 97; 116; 97; 0; 115; 116; 100; 95; 117; 108; 111; 103; 105; 99; 0; 39; 85; 39; 1; 88; 39; 1; 48; 39; 1; 49; 39; 1; 90; 39; 1; 87; 39; 1; 76; 39; 1; 72; 39; 1; 45; 39; 0; 115; 116; 100; 95; 108; 111; 103; 105; 99; 95; 118; 101; 99; 116; 111; 114; 0; 105; 110; 116; 101; 103; 101; 114; 0; 110; 97; 116; 117; 114; 97; 108; 0; 99; 110; 116; 0; 69; 79; 83; 0; 84; 89; 80; 0; 0; 0; 0; 0; 5; 0; 0; 0; 23; 3; 9; 4; 5; 6; 7; 8; 9; 10; 11; 12; 25; 14; 34; 15; 2; 25; 0; 255; 255; 255; 255; 7; 31; 13; 1; 1; 3; 35; 0; 4; 153; 3; 0; 0; 72; 73; 69; 0; 0; 0; 0; 0; 1; 0; 0; 0; 2; 0; 0; 0; 5; 0; 0; 0; 6; 1; 16; 2; 5; 1; 2; 3; 4; 18; 16; 2; 5; 15; 0; 69; 79; 72; 0; 83; 78; 80; 0; 0; 0; 0; 0; 0; 0; 0; 0; 0; 0; 0; 0; 2; 3; 1; 4; 5; 69; 83; 78; 0; 67; 89; 67; 0; 10; 0; 0; 0; 0; 0; 0; 0; 1; 3; 2; 2; 1; 2; 1; 126; 0; 0; 4; 3; 0; 127; 69; 67; 89; 0; 68; 73; 82; 0; 0; 0; 0; 0; 0; 0; 0; 0; 69; 79; 68; 0; 84; 65; 73; 0; 0; 0; 0; 0; 7; 1; 0; 0].

Definition id_compress (d : list byte) : list byte := d.
Definition id_decompress (d : list byte) (n : nat) : option (list byte) := Some d.

Definition example_load : outcome (list (N * value_kind * list byte) * list (N * value_kind * list byte) * list N) :=
  do '(res, tpes, body) <- ghw_read_file id_compress 65535 true example_ghw;
  match body with
  | None => Err
  | Some (blocks, ttb) =>
    do s0 <- load_signal id_decompress blocks 0 (EncBits 4);
    do s1 <- load_signal id_decompress blocks 1 (EncBits 32);
    do o0 <- observe_signal s0;
    do o1 <- observe_signal s1;
    Ok (o0, o1, ttb)
  end.

(* what the file says: data = 01xz at time 0, then 1100 and - a delta cycle later, under the same time index - 1101 at 10 fs;
   cnt = 5, then -2 as a 32-bit two's complement number; the time table is 0, 10 *)
Example example_ghw_loads :
  example_load
  = Ok ([(0, KFour, [48; 49; 120; 122]); (1, KBinary, [49; 49; 48; 48]); (1, KBinary, [49; 49; 48; 49])],
        [(0, KBinary, repeat 48 29 ++ [49; 48; 49]); (1, KBinary, repeat 49 31 ++ [48])],
        [0; 10]).
Proof. vm_compute. reflexivity. Qed.

(* and it meets the hypotheses of ghw_file_store_ops *)
Example example_ghw_hypotheses :
  exists res tpes blocks ttb,
    ghw_read_file id_compress 65535 true example_ghw = Ok (res, tpes, Some (blocks, ttb)) /\ bytes_ok (ghr_rest res) /\
    tpes = [EncBits 4; EncBits 32].
Proof.
  destruct (ghw_read_file id_compress 65535 true example_ghw) as [[[res tpes] [[blocks ttb]|]]| |] eqn:E;
    try (vm_compute in E; discriminate).
  exists res, tpes, blocks, ttb. split; [reflexivity|].
  vm_compute in E. injection E as <- <- _ _. split; [|reflexivity].
  unfold bytes_ok. cbn [ghr_rest]. repeat constructor.
Qed.
