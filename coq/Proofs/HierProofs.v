(* The hierarchy builder (hierarchy.rs HierarchyBuilder): the arrays of scopes and variables with their
   child / next / parent links always form a forest in which every item is listed exactly once, every child
   list is reachable by the iterators, and the cached last children of the scope stack are exact (property C08). *)
From Coq Require Import Lia Permutation.
From WV Require Import Model.Base Model.Bits Model.WaveMem Model.Hierarchy.
Open Scope N_scope.

(* ------------------------------------------------------------------ reading the links *)

Definition valid (b : builder) (x : item_id) : Prop :=
  match x with
  | IScope i => (i < length (hb_scopes b))%nat
  | IVar i => (i < length (hb_vars b))%nat
  end.

Definition next_of (b : builder) (x : item_id) : option item_id :=
  match x with
  | IScope i => match nth_error (hb_scopes b) i with Some s => sc_next s | None => None end
  | IVar i => match nth_error (hb_vars b) i with Some v => v_next v | None => None end
  end.

Definition parent_of (b : builder) (x : item_id) : option nat :=
  match x with
  | IScope i => match nth_error (hb_scopes b) i with Some s => sc_parent s | None => None end
  | IVar i => match nth_error (hb_vars b) i with Some v => v_parent v | None => None end
  end.

Definition child_of (b : builder) (p : option nat) : option item_id :=
  match p with
  | None => hb_first b
  | Some s => match nth_error (hb_scopes b) s with Some sc => sc_child sc | None => None end
  end.

(* `l` is the sibling chain starting at `start` *)
Fixpoint is_chain (b : builder) (start : option item_id) (l : list item_id) : Prop :=
  match l with
  | [] => start = None
  | x :: r => start = Some x /\ valid b x /\ is_chain b (next_of b x) r
  end.

Lemma get_next_ok b x : valid b x -> get_next b x = Ok (next_of b x).
Proof.
  destruct x as [i|i]; cbn [valid get_next next_of]; intros H.
  - destruct (nth_error (hb_scopes b) i) eqn:E; [reflexivity|]. apply nth_error_None in E. lia.
  - destruct (nth_error (hb_vars b) i) eqn:E; [reflexivity|]. apply nth_error_None in E. lia.
Qed.

(* the iterator over a sibling chain returns it, given enough fuel *)
Lemma chain_ok b : forall l start fuel, is_chain b start l -> (length l < fuel)%nat -> chain fuel b start = Ok l.
Proof.
  induction l as [|x r IH]; intros start fuel H Hf; cbn [is_chain] in H.
  - subst. destruct fuel; [lia|reflexivity].
  - destruct H as (-> & Hv & Hc). destruct fuel as [|f]; [cbn in Hf; lia|]. cbn [chain].
    rewrite (get_next_ok b x Hv). cbn [bind]. rewrite (IH _ f Hc ltac:(cbn in Hf; lia)). reflexivity.
Qed.

(* the children lists: top level and one list per scope *)
Definition kids (kt : list item_id) (ks : list (list item_id)) (p : option nat) : list item_id :=
  match p with None => kt | Some s => nth s ks [] end.

Definition all_ids (b : builder) : list item_id :=
  map IScope (seq 0 (length (hb_scopes b))) ++ map IVar (seq 0 (length (hb_vars b))).

(* a stack entry that is not a flattening marker caches the last child of its scope *)
Definition entry_ok (kt : list item_id) (ks : list (list item_id)) (e : stack_entry) : Prop :=
  se_flattened e = false -> se_last_child e = last_opt (kids kt ks (se_scope e)).

(* the scopes on the stack, innermost first (flattening markers and the bottom entry carry no scope) *)
Definition stack_scopes (st : list stack_entry) : list nat :=
  flat_map (fun e => match se_scope e with Some s => [s] | None => [] end) st.

Fixpoint decreasing (l : list nat) : Prop :=
  match l with
  | [] => True
  | x :: r => (match r with y :: _ => (y < x)%nat | [] => True end) /\ decreasing r
  end.

(* every entry but the bottom one either names a scope or is a flattening marker; the bottom entry is the top level *)
Fixpoint stack_shape (st : list stack_entry) : Prop :=
  match st with
  | [] => False
  | [e] => se_scope e = None /\ se_flattened e = false
  | e :: r => (match se_scope e with Some _ => se_flattened e = false | None => se_flattened e = true end) /\ stack_shape r
  end.

Record hinv (b : builder) (kt : list item_id) (ks : list (list item_id)) : Prop := {
  h_len : length ks = length (hb_scopes b);
  h_top : is_chain b (hb_first b) kt;
  h_sub : forall s, (s < length ks)%nat -> is_chain b (child_of b (Some s)) (nth s ks []);
  h_perm : Permutation (kt ++ concat ks) (all_ids b);
  h_par : forall p x, (match p with Some s => (s < length ks)%nat | None => True end) -> In x (kids kt ks p) -> parent_of b x = p;
  h_parlt : forall i p, parent_of b (IScope i) = Some p -> (p < i)%nat;
  h_stack : Forall (entry_ok kt ks) (hb_stack b);
  h_valid : Forall (fun s => (s < length ks)%nat) (stack_scopes (hb_stack b));
  h_dec : decreasing (stack_scopes (hb_stack b));
  h_shape : stack_shape (hb_stack b)
}.

Lemma hinv_new : hinv hb_new [] [].
Proof.
  apply Build_hinv; cbn; auto; try constructor.
  - intros s H. lia.
  - intros p x H. destruct p as [s|]; [destruct s; intros []|intros []].
  - intros i p H. destruct i; discriminate.
  - intros _. reflexivity.
  - constructor.
Qed.

(* ------------------------------------------------------------------ chains under updates *)

Lemma last_opt_nil {A} (l : list A) : last_opt l = None -> l = [].
Proof. induction l as [|y [|z r] IH]; intros H; [reflexivity|discriminate|]. specialize (IH H). discriminate. Qed.

Lemma last_opt_In {A} (l : list A) x : last_opt l = Some x -> In x l.
Proof.
  induction l as [|y [|z r] IH]; intros H; [discriminate| |].
  - inversion H. now left.
  - right. apply IH. exact H.
Qed.


Lemma is_chain_frame b b' : forall l start,
  (forall x, In x l -> valid b x -> valid b' x /\ next_of b' x = next_of b x) ->
  is_chain b start l -> is_chain b' start l.
Proof.
  induction l as [|x r IH]; intros start Hf H; cbn [is_chain] in *; [exact H|].
  destruct H as (-> & Hv & Hc). destruct (Hf x (or_introl eq_refl) Hv) as [Hv' Hn].
  split; [reflexivity|]. split; [exact Hv'|]. rewrite Hn. apply IH; [|exact Hc].
  intros y Hy. apply Hf. now right.
Qed.

(* appending a node to a chain whose last element (or whose head pointer) now points to it *)
Lemma is_chain_snoc b b' node : forall l start start',
  is_chain b start l -> NoDup l ->
  (forall x, In x l -> valid b' x) ->
  (forall x, In x l -> last_opt l <> Some x -> next_of b' x = next_of b x) ->
  (match last_opt l with Some c => next_of b' c = Some node /\ start' = start | None => start' = Some node end) ->
  valid b' node -> next_of b' node = None ->
  is_chain b' start' (l ++ [node]).
Proof.
  induction l as [|x r IH]; intros start start' H Hnd Hv Hn Hl Hvn Hnn; cbn [is_chain app] in *.
  - subst. cbn [last_opt] in Hl. split; [exact Hl|]. split; [exact Hvn|]. exact Hnn.
  - destruct H as (-> & _ & Hc). apply NoDup_cons_iff in Hnd as [Hnx Hnd].
    destruct r as [|y r'].
    + cbn [last_opt] in Hl. destruct Hl as [Hl ->]. split; [reflexivity|]. split; [apply Hv; now left|].
      rewrite Hl. cbn [app is_chain]. split; [reflexivity|]. split; [exact Hvn|exact Hnn].
    + assert (Hlast : last_opt (x :: y :: r') = last_opt (y :: r')) by reflexivity.
      rewrite Hlast in *.
      assert (Hx : next_of b' x = next_of b x).
      { apply Hn; [now left|]. intros E. apply Hnx. exact (last_opt_In _ _ E). }
      destruct (last_opt (y :: r')) as [c|] eqn:Elast.
      * destruct Hl as [Hl ->]. split; [reflexivity|]. split; [apply Hv; now left|]. rewrite Hx.
        apply (IH (next_of b x) (next_of b x) Hc Hnd).
        -- intros z Hz. apply Hv. now right.
        -- intros z Hz Hne. apply Hn; [now right|]. exact Hne.
        -- split; [exact Hl|reflexivity].
        -- exact Hvn.
        -- exact Hnn.
      * exfalso. clear -Elast. revert y Elast. induction r' as [|z r' IH]; intros y E; [discriminate|]. apply (IH z). exact E.
Qed.

(* ------------------------------------------------------------------ the scope stack *)

Definition top_parent (st : list stack_entry) : option nat := hd_error (stack_scopes st).

Lemma find_parent_ok : forall st, stack_shape st ->
  exists pos e, find_parent_pos st = Ok pos /\ nth_error st pos = Some e /\ se_flattened e = false /\
                se_scope e = top_parent st.
Proof.
  induction st as [|e r IH]; intros H; [destruct H|]. cbn [find_parent_pos].
  destruct r as [|e2 r2].
  - destruct H as [Hs Hf]. rewrite Hf. exists 0%nat, e. unfold top_parent, stack_scopes. cbn. rewrite Hs. repeat split; auto.
  - destruct H as [H1 H2]. destruct (se_scope e) as [s|] eqn:Es.
    + rewrite H1. exists 0%nat, e. unfold top_parent, stack_scopes. cbn [flat_map]. rewrite Es. repeat split; auto.
    + rewrite H1. destruct (IH H2) as (pos & e' & Hp & Hn & Hf & Hsc). rewrite Hp. cbn [bind].
      exists (S pos), e'. unfold top_parent, stack_scopes in *. cbn [flat_map]. rewrite Es. cbn [app nth_error]. repeat split; auto.
Qed.

Lemma stack_scopes_update st : forall pos e e', nth_error st pos = Some e -> se_scope e' = se_scope e ->
  stack_scopes (list_update st pos e') = stack_scopes st.
Proof.
  induction st as [|x r IH]; intros [|pos] e e' Hn Hs; cbn [nth_error] in Hn; try discriminate.
  - inversion Hn; subst x. unfold stack_scopes. cbn [list_update flat_map]. now rewrite Hs.
  - unfold stack_scopes in *. cbn [list_update flat_map]. f_equal. eapply IH; eauto.
Qed.

Lemma stack_shape_update st : forall pos e e', nth_error st pos = Some e -> se_scope e' = se_scope e ->
  se_flattened e' = se_flattened e -> stack_shape st -> stack_shape (list_update st pos e').
Proof.
  induction st as [|x r IH]; intros [|pos] e e' Hn Hs Hf H; cbn [nth_error] in Hn; try discriminate.
  - inversion Hn; subst x. cbn [list_update]. destruct r as [|y r']; cbn [stack_shape] in *; rewrite Hs, Hf; exact H.
  - cbn [list_update]. destruct r as [|y r']; [destruct pos; discriminate|].
    destruct H as [H1 H2]. specialize (IH pos e e' Hn Hs Hf H2).
    destruct (list_update (y :: r') pos e') as [|z zs] eqn:E.
    + destruct pos; discriminate.
    + cbn [stack_shape]. split; [exact H1|exact IH].
Qed.

(* ------------------------------------------------------------------ effects of the setters *)

Lemma nth_error_update_eq {A} (l : list A) : forall i x y, nth_error l i = Some y -> nth_error (list_update l i x) i = Some x.
Proof. induction l as [|a l IH]; intros [|i] x y H; cbn in *; try discriminate; [reflexivity|]. eapply IH; eauto. Qed.

Lemma nth_error_update_neq {A} (l : list A) : forall i j x, i <> j -> nth_error (list_update l i x) j = nth_error l j.
Proof. induction l as [|a l IH]; intros [|i] [|j] x H; cbn; try reflexivity; try congruence. apply IH. congruence. Qed.

Lemma update_length {A} (l : list A) : forall i x, length (list_update l i x) = length l.
Proof. induction l as [|a l IH]; intros [|i] x; cbn; auto. Qed.

(* ------------------------------------------------------------------ linking a new node into the tree *)

Definition set_first (b : builder) (node : item_id) : builder :=
  mk_builder (hb_vars b) (hb_scopes b) (match hb_first b with None => Some node | f => f end) (hb_stack b) (hb_handles b).

Lemma in_all_ids b x : In x (all_ids b) <-> valid b x.
Proof.
  unfold all_ids. rewrite in_app_iff, !in_map_iff. destruct x as [i|i]; cbn [valid]; split.
  - intros [(k & E & Hk)|(k & E & Hk)]; [inversion E; subst; apply in_seq in Hk; lia|discriminate].
  - intros H. left. exists i. split; [reflexivity|apply in_seq; lia].
  - intros [(k & E & Hk)|(k & E & Hk)]; [discriminate|inversion E; subst; apply in_seq in Hk; lia].
  - intros H. right. exists i. split; [reflexivity|apply in_seq; lia].
Qed.

Lemma nodup_app {A} (l1 l2 : list A) : NoDup l1 -> NoDup l2 -> (forall x, In x l1 -> In x l2 -> False) -> NoDup (l1 ++ l2).
Proof.
  induction l1 as [|a l1 IH]; intros H1 H2 Hd; [exact H2|]. cbn [app]. apply NoDup_cons_iff in H1 as [Ha H1].
  constructor.
  - intros Hin. apply in_app_or in Hin as [Hin|Hin]; [contradiction|]. apply (Hd a); [now left|exact Hin].
  - apply IH; [exact H1|exact H2|]. intros x Hx1 Hx2. apply (Hd x); [now right|exact Hx2].
Qed.

Lemma nodup_all_ids b : NoDup (all_ids b).
Proof.
  unfold all_ids. apply nodup_app.
  - apply FinFun.Injective_map_NoDup; [intros a c E; now inversion E|apply seq_NoDup].
  - apply FinFun.Injective_map_NoDup; [intros a c E; now inversion E|apply seq_NoDup].
  - intros x H1 H2. apply in_map_iff in H1 as (a & <- & _). apply in_map_iff in H2 as (c & E & _). discriminate.
Qed.

Lemma nodup_app_l {A} (l1 l2 : list A) : NoDup (l1 ++ l2) -> NoDup l1.
Proof. induction l1 as [|a l1 IH]; intros H; [constructor|]. cbn [app] in H. apply NoDup_cons_iff in H as [Ha H].
  constructor; [intros Hin; apply Ha; apply in_or_app; now left|now apply IH]. Qed.
Lemma nodup_app_r {A} (l1 l2 : list A) : NoDup (l1 ++ l2) -> NoDup l2.
Proof. induction l1 as [|a l1 IH]; intros H; [exact H|]. cbn [app] in H. apply NoDup_cons_iff in H as [_ H]. now apply IH. Qed.

Lemma in_concat_nth {A} (ks : list (list A)) s x : (s < length ks)%nat -> In x (nth s ks []) -> In x (concat ks).
Proof.
  intros Hs Hx. apply in_concat. exists (nth s ks []). split; [apply nth_In; exact Hs|exact Hx].
Qed.

Lemma nodup_concat_nth {A} (ks : list (list A)) : NoDup (concat ks) -> forall s, NoDup (nth s ks []).
Proof.
  induction ks as [|k ks IH]; intros H s; [destruct s; constructor|]. cbn [concat] in H.
  destruct s as [|s]; cbn [nth].
  - eapply nodup_app_l; eauto.
  - apply IH. eapply nodup_app_r; eauto.
Qed.

Section Inv.
Variable b : builder.
Variable kt : list item_id.
Variable ks : list (list item_id).
Hypothesis Hinv : hinv b kt ks.

Definition pvalid (p : option nat) : Prop := match p with Some s => (s < length ks)%nat | None => True end.

Lemma kids_in_all p x : pvalid p -> In x (kids kt ks p) -> In x (kt ++ concat ks).
Proof.
  intros Hp Hx. apply in_or_app. destruct p as [s|]; cbn [kids] in Hx; [right|left; exact Hx].
  eapply in_concat_nth; eauto.
Qed.

Lemma kids_valid p x : pvalid p -> In x (kids kt ks p) -> valid b x.
Proof.
  intros Hp Hx. apply in_all_ids. eapply Permutation_in; [apply (h_perm _ _ _ Hinv)|]. now apply kids_in_all with (p := p).
Qed.

Lemma nodup_whole : NoDup (kt ++ concat ks).
Proof. eapply Permutation_NoDup; [apply Permutation_sym, (h_perm _ _ _ Hinv)|apply nodup_all_ids]. Qed.

Lemma nodup_kids p : NoDup (kids kt ks p).
Proof.
  pose proof nodup_whole as H. destruct p as [s|]; cbn [kids].
  - apply nodup_concat_nth. eapply nodup_app_r; eauto.
  - eapply nodup_app_l; eauto.
Qed.

Lemma valid_in_kids x : valid b x -> exists p, pvalid p /\ In x (kids kt ks p).
Proof.
  intros Hv. apply in_all_ids in Hv. apply (Permutation_in _ (Permutation_sym (h_perm _ _ _ Hinv))) in Hv.
  apply in_app_or in Hv as [Hv|Hv].
  - exists None. split; [exact I|exact Hv].
  - apply in_concat in Hv as (l & Hl & Hx). apply In_nth with (d := []) in Hl as (s & Hs & <-).
    exists (Some s). split; [exact Hs|exact Hx].
Qed.

(* an item is the last child of at most one parent *)
Lemma last_unique p q x : pvalid p -> pvalid q -> last_opt (kids kt ks p) = Some x -> last_opt (kids kt ks q) = Some x -> p = q.
Proof.
  intros Hp Hq H1 H2. apply last_opt_In in H1. apply last_opt_In in H2.
  rewrite <- (h_par _ _ _ Hinv p x Hp H1). now rewrite (h_par _ _ _ Hinv q x Hq H2).
Qed.

Lemma chain_of p : pvalid p -> is_chain b (child_of b p) (kids kt ks p).
Proof. intros Hp. destruct p as [s|]; [apply (h_sub _ _ _ Hinv); exact Hp|apply (h_top _ _ _ Hinv)]. Qed.

(* the last element of a chain has no successor *)
Lemma chain_last_next : forall l start x, is_chain b start l -> last_opt l = Some x -> next_of b x = None.
Proof.
  induction l as [|y [|z r] IH]; intros start x H E; cbn [is_chain] in H; [discriminate| |].
  - inversion E; subst. destruct H as (_ & _ & H). exact H.
  - destruct H as (_ & _ & H). eapply IH; eauto.
Qed.

Lemma chain_nil_start : forall start, is_chain b start [] -> start = None.
Proof. intros start H. exact H. Qed.

(* the first scope is a top-level item: if any scope exists the top level is not empty *)
Lemma top_nonempty : hb_scopes b <> [] -> kt <> [].
Proof.
  intros Hne Hkt. assert (Hv : valid b (IScope 0)) by (cbn; destruct (hb_scopes b); [congruence|cbn; lia]).
  destruct (valid_in_kids _ Hv) as (p & Hp & Hx). destruct p as [s|].
  - pose proof (h_par _ _ _ Hinv (Some s) _ Hp Hx) as Hpar. apply (h_parlt _ _ _ Hinv) in Hpar. lia.
  - cbn [kids] in Hx. rewrite Hkt in Hx. destruct Hx.
Qed.

End Inv.

(* ------------------------------------------------------------------ the setters *)

Lemma set_var_next_eff vars c n vs : set_var_next vars c n = Ok vs ->
  length vs = length vars /\
  (exists v, nth_error vars c = Some v /\ v_next v = None /\
             nth_error vs c = Some (mk_var (v_name v) (v_tpe v) (v_direction v) (v_enc v) (v_index v) (v_signal v) (v_type_name v) (v_parent v) n)) /\
  (forall j, j <> c -> nth_error vs j = nth_error vars j).
Proof.
  unfold set_var_next. destruct (nth_error vars c) as [v|] eqn:E; [|discriminate].
  destruct (v_next v) eqn:En; [discriminate|]. intros H; inversion H; subst vs.
  split; [apply update_length|]. split.
  - exists v. repeat split; auto. eapply nth_error_update_eq; eauto.
  - intros j Hj. apply nth_error_update_neq. congruence.
Qed.

Lemma set_scope_next_eff scopes c n ss : set_scope_next scopes c n = Ok ss ->
  length ss = length scopes /\
  (exists s, nth_error scopes c = Some s /\ sc_next s = None /\
             nth_error ss c = Some (mk_scope (sc_name s) (sc_component s) (sc_tpe s) (sc_decl s) (sc_child s) (sc_parent s) n)) /\
  (forall j, j <> c -> nth_error ss j = nth_error scopes j).
Proof.
  unfold set_scope_next. destruct (nth_error scopes c) as [s|] eqn:E; [|discriminate].
  destruct (sc_next s) eqn:En; [discriminate|]. intros H; inversion H; subst ss.
  split; [apply update_length|]. split.
  - exists s. repeat split; auto. eapply nth_error_update_eq; eauto.
  - intros j Hj. apply nth_error_update_neq. congruence.
Qed.

Lemma set_scope_child_eff scopes c n ss : set_scope_child scopes c n = Ok ss ->
  length ss = length scopes /\
  (exists s, nth_error scopes c = Some s /\ sc_child s = None /\
             nth_error ss c = Some (mk_scope (sc_name s) (sc_component s) (sc_tpe s) (sc_decl s) n (sc_parent s) (sc_next s))) /\
  (forall j, j <> c -> nth_error ss j = nth_error scopes j).
Proof.
  unfold set_scope_child. destruct (nth_error scopes c) as [s|] eqn:E; [|discriminate].
  destruct (sc_child s) eqn:En; [discriminate|]. intros H; inversion H; subst ss.
  split; [apply update_length|]. split.
  - exists s. repeat split; auto. eapply nth_error_update_eq; eauto.
  - intros j Hj. apply nth_error_update_neq. congruence.
Qed.

(* what linking a fresh node as the last child of the current parent does to the links *)
Record linked (b b2 : builder) (kt : list item_id) (ks : list (list item_id)) (node : item_id) (P : option nat) : Prop := {
  lk_vars : length (hb_vars b2) = length (hb_vars b);
  lk_scopes : length (hb_scopes b2) = length (hb_scopes b);
  lk_next_last : forall x, valid b x -> last_opt (kids kt ks P) = Some x -> next_of b2 x = Some node;
  lk_next_other : forall x, valid b x -> last_opt (kids kt ks P) <> Some x -> next_of b2 x = next_of b x;
  lk_child_new : kids kt ks P = [] -> child_of b2 P = Some node;
  lk_child_old : forall q, pvalid ks q -> (q <> P \/ kids kt ks P <> []) -> child_of b2 q = child_of b q;
  lk_parent : forall x, valid b x -> parent_of b2 x = parent_of b x;
  lk_names : forall i, option_map sc_name (nth_error (hb_scopes b2) i) = option_map sc_name (nth_error (hb_scopes b) i);
  lk_stack : exists pos e, nth_error (hb_stack b) pos = Some e /\ se_flattened e = false /\ se_scope e = P /\
               hb_stack b2 = list_update (hb_stack b) pos (mk_entry (se_scope e) (Some node) (se_flattened e));
  lk_handles : hb_handles b2 = hb_handles b
}.

Lemma top_parent_valid b kt ks : hinv b kt ks -> pvalid ks (top_parent (hb_stack b)).
Proof.
  intros H. unfold top_parent. pose proof (h_valid _ _ _ H) as Hv.
  destruct (stack_scopes (hb_stack b)) as [|s r]; [exact I|]. cbn [hd_error pvalid]. now apply Forall_cons_iff in Hv as [? _].
Qed.

Lemma link_effects b kt ks node b2 parent : hinv b kt ks -> ~ valid b node ->
  add_to_tree (set_first b node) node = Ok (b2, parent) ->
  parent = top_parent (hb_stack b) /\ linked b b2 kt ks node (top_parent (hb_stack b)).
Proof.
  intros Hinv Hfresh H. unfold add_to_tree in H. cbn [set_first hb_stack hb_vars hb_scopes hb_first hb_handles] in H.
  destruct (find_parent_ok (hb_stack b) (h_shape _ _ _ Hinv)) as (pos & e & Hfp & Hne & Hfl & Hsc).
  rewrite Hfp in H. cbn [bind] in H. rewrite Hne in H. cbn [of_option bind] in H.
  set (P := top_parent (hb_stack b)) in *.
  pose proof (top_parent_valid b kt ks Hinv) as HPv. fold P in HPv.
  assert (Hlast : se_last_child e = last_opt (kids kt ks P)).
  { pose proof (h_stack _ _ _ Hinv) as Hst. rewrite Forall_forall in Hst.
    specialize (Hst e (nth_error_In _ _ Hne) Hfl). now rewrite Hsc in Hst. }
  pose proof (chain_of b kt ks Hinv P HPv) as Hchain.
  rewrite Hlast in H.
  destruct (last_opt (kids kt ks P)) as [lst|] eqn:El.
  - (* there is a last child: set its next pointer *)
    assert (Hin : In lst (kids kt ks P)) by (apply last_opt_In; exact El).
    assert (Hne' : kids kt ks P <> []) by (intros E; rewrite E in Hin; destruct Hin).
    assert (Hfirst : hb_first b <> None).
    { intros E. pose proof (h_top _ _ _ Hinv) as Ht. rewrite E in Ht.
      destruct kt as [|x r]; [|cbn in Ht; destruct Ht; discriminate].
      destruct P as [s|]; [|cbn [kids] in Hne'; congruence].
      assert (hb_scopes b <> []) by (intros E2; pose proof (h_len _ _ _ Hinv) as Hl; rewrite E2 in Hl; cbn in Hl; cbn in HPv; lia).
      exact (top_nonempty b [] ks Hinv H0 eq_refl). }
    assert (Hf1 : (match hb_first b with None => Some node | f => f end) = hb_first b) by (destruct (hb_first b); congruence).
    destruct lst as [c|c].
    + destruct (set_scope_next (hb_scopes b) c (Some node)) as [ss| |] eqn:Es; try discriminate. cbn [bind] in H.
      inversion H; subst b2 parent; clear H. split; [first [exact Hsc|reflexivity]|].
      destruct (set_scope_next_eff _ _ _ _ Es) as (Hlen & (s0 & Hn0 & Hnx0 & Hn1) & Hoth).
      apply Build_linked; cbn [hb_vars hb_scopes hb_first hb_stack hb_handles]; auto.
      * intros x Hv E. rewrite El in E. injection E as <-. cbn [next_of hb_scopes hb_vars]. now rewrite Hn1.
      * intros x Hv E. destruct x as [i|i]; cbn [next_of hb_scopes hb_vars]; [|reflexivity].
        rewrite Hoth; [reflexivity|]. intros ->. now apply E.
      * congruence.
      * intros q Hq _. destruct q as [s|]; cbn [child_of hb_scopes hb_first]; [|exact Hf1].
        destruct (Nat.eq_dec s c) as [->|Hd]; [rewrite Hn1, Hn0; reflexivity|now rewrite Hoth].
      * intros x Hv. destruct x as [i|i]; cbn [parent_of hb_scopes hb_vars]; [|reflexivity].
        destruct (Nat.eq_dec i c) as [->|Hd]; [rewrite Hn1, Hn0; reflexivity|now rewrite Hoth].
      * intros i. destruct (Nat.eq_dec i c) as [->|Hd]; [rewrite Hn1, Hn0; reflexivity|now rewrite Hoth].
      * exists pos, e. repeat split; auto.
    + destruct (set_var_next (hb_vars b) c (Some node)) as [vs| |] eqn:Es; try discriminate. cbn [bind] in H.
      inversion H; subst b2 parent; clear H. split; [first [exact Hsc|reflexivity]|].
      destruct (set_var_next_eff _ _ _ _ Es) as (Hlen & (v0 & Hn0 & Hnx0 & Hn1) & Hoth).
      apply Build_linked; cbn [hb_vars hb_scopes hb_first hb_stack hb_handles]; auto.
      * intros x Hv E. rewrite El in E. injection E as <-. cbn [next_of hb_scopes hb_vars]. now rewrite Hn1.
      * intros x Hv E. destruct x as [i|i]; cbn [next_of hb_scopes hb_vars]; [reflexivity|].
        rewrite Hoth; [reflexivity|]. intros ->. now apply E.
      * congruence.
      * intros q Hq _. destruct q as [s|]; cbn [child_of hb_scopes hb_first]; [reflexivity|exact Hf1].
      * intros x Hv. destruct x as [i|i]; cbn [parent_of hb_scopes hb_vars]; [reflexivity|].
        destruct (Nat.eq_dec i c) as [->|Hd]; [rewrite Hn1, Hn0; reflexivity|now rewrite Hoth].
      * exists pos, e. repeat split; auto.
  - (* first child of its parent *)
    apply last_opt_nil in El.
    rewrite Hsc in H. destruct P as [p|] eqn:EP.
    + assert (Hfirst : hb_first b <> None).
      { intros E. pose proof (h_top _ _ _ Hinv) as Ht. rewrite E in Ht.
        destruct kt as [|x r]; [|cbn in Ht; destruct Ht; discriminate].
        assert (hb_scopes b <> []) by (intros E2; pose proof (h_len _ _ _ Hinv) as Hl; rewrite E2 in Hl; cbn in Hl; cbn in HPv; lia).
        exact (top_nonempty b [] ks Hinv H0 eq_refl). }
      assert (Hf1 : (match hb_first b with None => Some node | f => f end) = hb_first b) by (destruct (hb_first b); congruence).
      destruct (set_scope_child (hb_scopes b) p (Some node)) as [ss| |] eqn:Es; try discriminate. cbn [bind] in H.
      inversion H; subst b2 parent; clear H. split; [first [exact Hsc|reflexivity]|].
      destruct (set_scope_child_eff _ _ _ _ Es) as (Hlen & (s0 & Hn0 & Hnx0 & Hn1) & Hoth).
      apply Build_linked; cbn [hb_vars hb_scopes hb_first hb_stack hb_handles]; auto.
      * intros x Hv E. rewrite El in E. discriminate.
      * intros x Hv _. destruct x as [i|i]; cbn [next_of hb_scopes hb_vars]; [|reflexivity].
        destruct (Nat.eq_dec i p) as [->|Hd]; [rewrite Hn1, Hn0; reflexivity|now rewrite Hoth].
      * intros _. cbn [child_of hb_scopes hb_first]. now rewrite Hn1.
      * intros q Hq [Hd|Hd]; [|congruence]. destruct q as [s|]; cbn [child_of hb_scopes hb_first]; [|exact Hf1].
        rewrite Hoth; [reflexivity|congruence].
      * intros x Hv. destruct x as [i|i]; cbn [parent_of hb_scopes hb_vars]; [|reflexivity].
        destruct (Nat.eq_dec i p) as [->|Hd]; [rewrite Hn1, Hn0; reflexivity|now rewrite Hoth].
      * intros i. destruct (Nat.eq_dec i p) as [->|Hd]; [rewrite Hn1, Hn0; reflexivity|now rewrite Hoth].
      * exists pos, e. repeat split; auto. now rewrite Hsc.
    + (* the very first top-level item *)
      cbn [bind] in H. inversion H; subst b2 parent; clear H. split; [first [exact Hsc|reflexivity]|].
      cbn [kids] in El. subst kt. pose proof (h_top _ _ _ Hinv) as Ht. cbn [is_chain] in Ht.
      apply Build_linked; cbn [hb_vars hb_scopes hb_first hb_stack hb_handles]; auto.
      * intros x Hv E. discriminate.
      * intros _. cbn [child_of hb_scopes hb_first]. now rewrite Ht.
      * intros q Hq [Hd|Hd]; [|cbn [kids] in Hd; congruence]. destruct q as [s|]; [reflexivity|congruence].
      * exists pos, e. repeat split; auto. now rewrite Hsc.
Qed.

(* ------------------------------------------------------------------ the children lists after a link *)

Definition add_kid (kt : list item_id) (ks : list (list item_id)) (P : option nat) (x : item_id)
  : list item_id * list (list item_id) :=
  match P with
  | None => (kt ++ [x], ks)
  | Some s => (kt, list_update ks s (nth s ks [] ++ [x]))
  end.

Lemma nth_update_eq {A} (l : list A) d : forall i x, (i < length l)%nat -> nth i (list_update l i x) d = x.
Proof. induction l as [|a l IH]; intros [|i] x H; cbn in *; try lia; [reflexivity|]. apply IH. lia. Qed.

Lemma nth_update_neq {A} (l : list A) d : forall i j x, i <> j -> nth j (list_update l i x) d = nth j l d.
Proof. induction l as [|a l IH]; intros [|i] [|j] x H; cbn; try reflexivity; try congruence. apply IH. congruence. Qed.

Lemma kids_add_same kt ks P x : pvalid ks P ->
  kids (fst (add_kid kt ks P x)) (snd (add_kid kt ks P x)) P = kids kt ks P ++ [x].
Proof. destruct P as [s|]; cbn [add_kid fst snd kids pvalid]; intros H; [now apply nth_update_eq|reflexivity]. Qed.

Lemma kids_add_other kt ks P x q : q <> P ->
  kids (fst (add_kid kt ks P x)) (snd (add_kid kt ks P x)) q = kids kt ks q.
Proof.
  intros H. destruct P as [s|], q as [t|]; cbn [add_kid fst snd kids]; try reflexivity; try congruence.
  apply nth_update_neq. congruence.
Qed.

Lemma add_kid_length kt ks P x : length (snd (add_kid kt ks P x)) = length ks.
Proof. destruct P; cbn [add_kid snd]; [apply update_length|reflexivity]. Qed.

Lemma concat_update_perm {A} (ks : list (list A)) : forall s x, (s < length ks)%nat ->
  Permutation (concat (list_update ks s (nth s ks [] ++ [x]))) (concat ks ++ [x]).
Proof.
  induction ks as [|k ks IH]; intros [|s] x H; cbn [length] in H; try lia; cbn [list_update concat nth].
  - rewrite <- !app_assoc. apply Permutation_app_head. apply Permutation_app_comm.
  - rewrite <- app_assoc. apply Permutation_app_head. apply IH. lia.
Qed.

Lemma add_kid_perm kt ks P x : pvalid ks P ->
  Permutation (fst (add_kid kt ks P x) ++ concat (snd (add_kid kt ks P x))) ((kt ++ concat ks) ++ [x]).
Proof.
  intros H. destruct P as [s|]; cbn [add_kid fst snd pvalid] in *.
  - rewrite <- app_assoc. apply Permutation_app_head. now apply concat_update_perm.
  - rewrite <- !app_assoc. apply Permutation_app_head. apply Permutation_app_comm.
Qed.

Section AfterLink.
Variables (b b2 b' : builder) (kt : list item_id) (ks : list (list item_id)) (node : item_id) (P : option nat).
Hypothesis Hinv : hinv b kt ks.
Hypothesis Hlk : linked b b2 kt ks node P.
Hypothesis HP : pvalid ks P.
Hypothesis Hfresh : ~ valid b node.
Hypothesis Hval : forall x, valid b x -> valid b' x.
Hypothesis Hvaln : valid b' node.
Hypothesis Hnext : forall x, valid b x -> next_of b' x = next_of b2 x.
Hypothesis Hnextn : next_of b' node = None.
Hypothesis Hchild : forall q, pvalid ks q -> child_of b' q = child_of b2 q.

Let kt' := fst (add_kid kt ks P node).
Let ks' := snd (add_kid kt ks P node).

Lemma chains_after_link q : pvalid ks q -> is_chain b' (child_of b' q) (kids kt' ks' q).
Proof.
  intros Hq. pose proof (chain_of b kt ks Hinv q Hq) as Hc.
  assert (Hdec : {q = P} + {q <> P}) by (destruct q as [s|], P as [t|]; try (right; congruence); [destruct (Nat.eq_dec s t); [left; congruence|right; congruence]|left; reflexivity]).
  destruct Hdec as [->|Hne].
  - unfold kt', ks'. rewrite kids_add_same by exact HP.
    apply (is_chain_snoc b b' node (kids kt ks P) (child_of b P) (child_of b' P) Hc (nodup_kids b kt ks Hinv P)).
    + intros x Hx. apply Hval. eapply kids_valid; eauto.
    + intros x Hx Hl. rewrite Hnext by (eapply kids_valid; eauto). apply (lk_next_other _ _ _ _ _ _ Hlk); [eapply kids_valid; eauto|exact Hl].
    + destruct (last_opt (kids kt ks P)) as [c|] eqn:El.
      * assert (Hcv : valid b c) by (eapply kids_valid; eauto; apply last_opt_In; exact El).
        split.
        -- rewrite Hnext by exact Hcv. apply (lk_next_last _ _ _ _ _ _ Hlk); [exact Hcv|exact El].
        -- rewrite Hchild by exact HP. apply (lk_child_old _ _ _ _ _ _ Hlk); [exact HP|]. right.
           intros E. rewrite E in El. discriminate.
      * apply last_opt_nil in El. rewrite Hchild by exact HP. now apply (lk_child_new _ _ _ _ _ _ Hlk).
    + exact Hvaln.
    + exact Hnextn.
  - unfold kt', ks'. rewrite kids_add_other by exact Hne.
    rewrite Hchild by exact Hq. rewrite (lk_child_old _ _ _ _ _ _ Hlk q Hq (or_introl Hne)).
    apply (is_chain_frame b b'); [|exact Hc].
    intros x Hx Hv. split; [now apply Hval|]. rewrite Hnext by exact Hv.
    apply (lk_next_other _ _ _ _ _ _ Hlk); [exact Hv|]. intros El. apply Hne.
    apply last_opt_In in El.
    rewrite <- (h_par _ _ _ Hinv q x Hq Hx). now rewrite (h_par _ _ _ Hinv P x HP El).
Qed.

Lemma node_not_in_kids q : pvalid ks q -> ~ In node (kids kt ks q).
Proof. intros Hq Hin. apply Hfresh. eapply kids_valid; eauto. Qed.

End AfterLink.

(* ------------------------------------------------------------------ stack entries other than the current parent's *)

Lemma decreasing_hd_max : forall l x, decreasing (x :: l) -> Forall (fun y => (y < x)%nat) l.
Proof.
  induction l as [|y r IH]; intros x H; [constructor|]. cbn [decreasing] in H. destruct H as [Hyx Hr].
  constructor; [exact Hyx|]. specialize (IH y Hr). eapply Forall_impl; [|exact IH]. intros z Hz. cbn beta in Hz. lia.
Qed.

(* the entry found by find_parent_pos is the only non-flattened entry for its scope *)
Lemma other_entries : forall st pos e, stack_shape st -> decreasing (stack_scopes st) ->
  find_parent_pos st = Ok pos -> nth_error st pos = Some e ->
  forall j ej, j <> pos -> nth_error st j = Some ej -> se_flattened ej = false -> se_scope ej <> se_scope e.
Proof.
  induction st as [|x r IH]; intros pos e Hsh Hdec Hfp Hn j ej Hj Hnj Hfj; [destruct Hsh|].
  cbn [find_parent_pos] in Hfp. destruct r as [|y r'].
  - destruct Hsh as [Hs Hf]. rewrite Hf in Hfp. inversion Hfp; subst pos. destruct j as [|j]; [congruence|]. destruct j; discriminate.
  - destruct Hsh as [H1 H2]. destruct (se_flattened x) eqn:Ex.
    + (* x is a flattening marker: look below *)
      destruct (find_parent_pos (y :: r')) as [p| |] eqn:Ep; try discriminate. cbn [bind] in Hfp. inversion Hfp; subst pos.
      cbn [nth_error] in Hn. destruct (se_scope x) eqn:Esx; [congruence|].
      assert (Hdec' : decreasing (stack_scopes (y :: r'))) by (unfold stack_scopes in *; cbn [flat_map] in Hdec; rewrite Esx in Hdec; exact Hdec).
      destruct j as [|j]; cbn [nth_error] in Hnj; [inversion Hnj; subst ej; congruence|].
      eapply (IH p e H2 Hdec' eq_refl Hn j ej); eauto.
    + inversion Hfp; subst pos. cbn [nth_error] in Hn. inversion Hn; subst e.
      destruct (se_scope x) as [s|] eqn:Esx; [|congruence].
      destruct j as [|j]; [congruence|]. cbn [nth_error] in Hnj.
      unfold stack_scopes in Hdec. cbn [flat_map] in Hdec. rewrite Esx in Hdec. cbn [app] in Hdec.
      pose proof (decreasing_hd_max _ _ Hdec) as Hmax.
      destruct (se_scope ej) as [t|] eqn:Et; [|discriminate].
      intros E. inversion E; subst t.
      assert (Hin : In s (flat_map (fun e0 => match se_scope e0 with Some s0 => [s0] | None => [] end) (y :: r'))).
      { apply in_flat_map. exists ej. split; [eapply nth_error_In; eauto|]. rewrite Et. now left. }
      rewrite Forall_forall in Hmax. specialize (Hmax s Hin). lia.
Qed.

Lemma last_opt_snoc {A} (l : list A) x : last_opt (l ++ [x]) = Some x.
Proof. induction l as [|y l IH]; [reflexivity|]. cbn [app last_opt]. destruct (l ++ [x]) eqn:E; [destruct l; discriminate|]. exact IH. Qed.

(* the stack after a link caches exact last children again *)
Lemma stack_after_link b b2 kt ks node P : hinv b kt ks -> linked b b2 kt ks node P -> P = top_parent (hb_stack b) ->
  Forall (entry_ok (fst (add_kid kt ks P node)) (snd (add_kid kt ks P node))) (hb_stack b2) /\
  stack_scopes (hb_stack b2) = stack_scopes (hb_stack b) /\ stack_shape (hb_stack b2).
Proof.
  intros Hinv Hlk HPeq. pose proof (top_parent_valid b kt ks Hinv) as HPv. rewrite <- HPeq in HPv.
  destruct (lk_stack _ _ _ _ _ _ Hlk) as (pos & e & Hne & Hfl & Hsc & Hst).
  destruct (find_parent_ok (hb_stack b) (h_shape _ _ _ Hinv)) as (pos' & e' & Hfp & Hne' & Hfl' & Hsc').
  split; [|split].
  - rewrite Hst. apply Forall_forall. intros x Hx. apply In_nth_error in Hx as (j & Hj).
    destruct (Nat.eq_dec j pos) as [->|Hd].
    + rewrite (nth_error_update_eq _ _ _ _ Hne) in Hj. inversion Hj; subst x. intros _. cbn [se_last_child se_scope].
      rewrite Hsc, kids_add_same by exact HPv. now rewrite last_opt_snoc.
    + rewrite nth_error_update_neq in Hj by congruence. intros Hfx.
      pose proof (h_stack _ _ _ Hinv) as Hall. rewrite Forall_forall in Hall.
      rewrite (Hall x (nth_error_In _ _ Hj) Hfx). f_equal. symmetry. apply kids_add_other.
      (* the entry at pos is the one find_parent_pos finds *)
      assert (Hpos : pos = pos' \/ pos <> pos') by lia. destruct Hpos as [->|Hpp].
      * rewrite Hne in Hne'. inversion Hne'; subst e'. rewrite <- Hsc.
        eapply (other_entries (hb_stack b) pos' e (h_shape _ _ _ Hinv) (h_dec _ _ _ Hinv) Hfp Hne j x); eauto.
      * exfalso. apply (other_entries (hb_stack b) pos' e' (h_shape _ _ _ Hinv) (h_dec _ _ _ Hinv) Hfp Hne' pos e Hpp Hne Hfl).
        rewrite Hsc, Hsc'. exact HPeq.
  - rewrite Hst. eapply stack_scopes_update; eauto.
  - rewrite Hst. eapply stack_shape_update; eauto. apply (h_shape _ _ _ Hinv).
Qed.

(* ------------------------------------------------------------------ add_var *)

Lemma seq_snoc a n : seq a (S n) = seq a n ++ [(a + n)%nat].
Proof. rewrite seq_S. reflexivity. Qed.

Lemma nth_error_snoc {A} (l : list A) x : nth_error (l ++ [x]) (length l) = Some x.
Proof. rewrite nth_error_app2 by lia. now rewrite Nat.sub_diag. Qed.

Lemma all_ids_var b b' : length (hb_scopes b') = length (hb_scopes b) -> length (hb_vars b') = S (length (hb_vars b)) ->
  all_ids b' = all_ids b ++ [IVar (length (hb_vars b))].
Proof. intros Hs Hv. unfold all_ids. rewrite Hs, Hv, seq_snoc, map_app, <- app_assoc. reflexivity. Qed.

Theorem add_var_inv b kt ks nm tpe dir enc idx sig tn b' : hinv b kt ks ->
  add_var b nm tpe dir enc idx sig tn = Ok b' ->
  let P := top_parent (hb_stack b) in
  let node := IVar (length (hb_vars b)) in
  hinv b' (fst (add_kid kt ks P node)) (snd (add_kid kt ks P node)) /\
  hb_scopes b' = hb_scopes b' /\ length (hb_scopes b') = length (hb_scopes b) /\
  length (hb_vars b') = S (length (hb_vars b)) /\
  (forall i, option_map sc_name (nth_error (hb_scopes b') i) = option_map sc_name (nth_error (hb_scopes b) i)) /\
  stack_scopes (hb_stack b') = stack_scopes (hb_stack b) /\ length (hb_stack b') = length (hb_stack b).
Proof.
  intros Hinv H. cbn zeta. unfold add_var in H.
  set (node := IVar (length (hb_vars b))) in *.
  change (mk_builder (hb_vars b) (hb_scopes b) (match hb_first b with None => Some node | f => f end) (hb_stack b) (hb_handles b))
    with (set_first b node) in H.
  destruct (add_to_tree (set_first b node) node) as [[b2 parent]| |] eqn:Eat; try discriminate. cbn [bind] in H.
  inversion H; subst b'; clear H.
  assert (Hfresh : ~ valid b node) by (unfold node; cbn [valid]; lia).
  destruct (link_effects b kt ks node b2 parent Hinv Hfresh Eat) as [-> Hlk].
  set (P := top_parent (hb_stack b)) in *.
  pose proof (top_parent_valid b kt ks Hinv) as HPv. fold P in HPv.
  set (b' := mk_builder _ _ _ _ _).
  pose proof (lk_vars _ _ _ _ _ _ Hlk) as Hlv. pose proof (lk_scopes _ _ _ _ _ _ Hlk) as Hls.
  assert (Hval : forall x, valid b x -> valid b' x).
  { intros [i|i]; unfold b'; cbn [valid hb_scopes hb_vars]; [lia|rewrite app_length; cbn [length]; lia]. }
  assert (Hvaln : valid b' node) by (unfold b', node; cbn [valid hb_vars]; rewrite app_length; cbn [length]; lia).
  assert (Hnext : forall x, valid b x -> next_of b' x = next_of b2 x).
  { intros [i|i] Hv; unfold b'; cbn [next_of hb_scopes hb_vars]; [reflexivity|].
    cbn [valid] in Hv. rewrite nth_error_app1 by lia. reflexivity. }
  assert (Hnextn : next_of b' node = None).
  { unfold b', node. cbn [next_of hb_vars]. rewrite <- Hlv, nth_error_snoc. reflexivity. }
  assert (Hchild : forall q, pvalid ks q -> child_of b' q = child_of b2 q) by (intros q _; reflexivity).
  assert (Hpar : forall x, valid b x -> parent_of b' x = parent_of b x).
  { intros [i|i] Hv; rewrite <- (lk_parent _ _ _ _ _ _ Hlk) by exact Hv; unfold b'; cbn [parent_of hb_scopes hb_vars]; [reflexivity|].
    cbn [valid] in Hv. rewrite nth_error_app1 by lia. reflexivity. }
  assert (Hparn : parent_of b' node = P).
  { unfold b', node. cbn [parent_of hb_vars]. rewrite <- Hlv, nth_error_snoc. reflexivity. }
  destruct (stack_after_link b b2 kt ks node P Hinv Hlk eq_refl) as (Hst1 & Hst2 & Hst3).
  split.
  - apply Build_hinv.
    + rewrite add_kid_length. unfold b'. cbn [hb_scopes]. rewrite Hls. apply (h_len _ _ _ Hinv).
    + apply (chains_after_link b b2 b' kt ks node P Hinv Hlk HPv Hval Hvaln Hnext Hnextn Hchild None I).
    + intros s Hs. rewrite add_kid_length in Hs.
      apply (chains_after_link b b2 b' kt ks node P Hinv Hlk HPv Hval Hvaln Hnext Hnextn Hchild (Some s) Hs).
    + rewrite (all_ids_var b b'); [|unfold b'; cbn [hb_scopes]; exact Hls|unfold b'; cbn [hb_vars]; rewrite app_length; cbn [length]; lia].
      eapply Permutation_trans; [apply add_kid_perm; exact HPv|]. apply Permutation_app_tail. apply (h_perm _ _ _ Hinv).
    + intros p x Hp Hx. assert (Hp' : pvalid ks p) by (destruct p; [cbn [pvalid]; rewrite add_kid_length in Hp; exact Hp|exact I]).
      assert (Hdec : p = P \/ p <> P) by (destruct p as [s|], P as [t|]; try (right; congruence); [destruct (Nat.eq_dec s t); [left; congruence|right; congruence]|left; reflexivity]).
      destruct Hdec as [->|Hne].
      * rewrite kids_add_same in Hx by exact HPv. apply in_app_or in Hx as [Hx|[<-|[]]]; [|exact Hparn].
        rewrite Hpar by (eapply kids_valid; eauto). now apply (h_par _ _ _ Hinv).
      * rewrite kids_add_other in Hx by exact Hne. rewrite Hpar by (eapply kids_valid; eauto). now apply (h_par _ _ _ Hinv).
    + intros i p Hp. destruct (Nat.lt_ge_cases i (length (hb_scopes b))) as [Hi|Hi].
      * rewrite (Hpar (IScope i) Hi) in Hp. now apply (h_parlt _ _ _ Hinv).
      * unfold b' in Hp. cbn [parent_of hb_scopes] in Hp. rewrite (proj2 (nth_error_None _ _)) in Hp by lia. discriminate.
    + exact Hst1.
    + unfold b'. cbn [hb_stack]. rewrite Hst2. rewrite add_kid_length. apply (h_valid _ _ _ Hinv).
    + unfold b'. cbn [hb_stack]. rewrite Hst2. apply (h_dec _ _ _ Hinv).
    + exact Hst3.
  - unfold b'. cbn [hb_scopes hb_vars hb_stack]. repeat split; auto.
    + rewrite app_length. cbn [length]. lia.
    + apply (lk_names _ _ _ _ _ _ Hlk).
    + destruct (lk_stack _ _ _ _ _ _ Hlk) as (pos & e & _ & _ & _ & ->). apply update_length.
Qed.

(* ------------------------------------------------------------------ searching the children of the current parent *)

(* the first scope among `l` whose name is nm *)
Fixpoint first_named (b : builder) (nm : name) (l : list item_id) : option nat :=
  match l with
  | [] => None
  | IScope i :: r => match nth_error (hb_scopes b) i with
                     | Some s => if list_eqb (sc_name s) nm then Some i else first_named b nm r
                     | None => first_named b nm r
                     end
  | IVar _ :: r => first_named b nm r
  end.

Lemma find_dup_loop_spec b nm : forall l start fuel, is_chain b start l -> (length l < fuel)%nat ->
  find_dup_loop fuel b nm start = Ok (first_named b nm l).
Proof.
  induction l as [|x r IH]; intros start fuel H Hf; cbn [is_chain] in H.
  - subst. destruct fuel; [lia|reflexivity].
  - destruct H as (-> & Hv & Hc). destruct fuel as [|f]; [cbn in Hf; lia|]. cbn [find_dup_loop first_named].
    destruct x as [i|i].
    + cbn [valid] in Hv. destruct (nth_error (hb_scopes b) i) as [s|] eqn:E; [|apply nth_error_None in E; lia].
      cbn [of_option bind]. destruct (list_eqb (sc_name s) nm); [reflexivity|].
      rewrite (get_next_ok b (IScope i) Hv). cbn [bind]. apply IH; [exact Hc|cbn in Hf; lia].
    + cbn [bind]. rewrite (get_next_ok b (IVar i) Hv). cbn [bind]. apply IH; [exact Hc|cbn in Hf; lia].
Qed.

Lemma last_child_loop_spec b : forall l x start fuel, is_chain b start (x :: l) -> (length l < fuel)%nat ->
  exists z, last_opt (x :: l) = Some z /\ last_child_loop fuel b x = Ok z.
Proof.
  induction l as [|y r IH]; intros x start fuel H Hf; cbn [is_chain] in H; destruct H as (_ & Hv & Hc).
  - destruct fuel as [|f]; [lia|]. exists x. split; [reflexivity|]. cbn [last_child_loop]. rewrite (get_next_ok b x Hv). cbn [bind is_chain] in *. now rewrite Hc.
  - destruct fuel as [|f]; [cbn in Hf; lia|]. cbn [last_child_loop]. rewrite (get_next_ok b x Hv). cbn [bind].
    pose proof Hc as Hc'. cbn [is_chain] in Hc'. destruct Hc' as (Hn & _ & _). rewrite Hn.
    destruct (IH y (next_of b x) f Hc ltac:(cbn in Hf; lia)) as (z & Hz & Hl). exists z. split; [exact Hz|exact Hl].
Qed.

Section Search.
Variables (b : builder) (kt : list item_id) (ks : list (list item_id)).
Hypothesis Hinv : hinv b kt ks.

Lemma kids_length p : pvalid ks p -> (length (kids kt ks p) < items_fuel b)%nat.
Proof.
  intros Hp. unfold items_fuel.
  assert (Hincl : incl (kids kt ks p) (all_ids b)).
  { intros x Hx. apply in_all_ids. eapply kids_valid; eauto. }
  pose proof (NoDup_incl_length (nodup_kids b kt ks Hinv p) Hincl) as Hl.
  unfold all_ids in Hl. rewrite app_length, !map_length, !seq_length in Hl. lia.
Qed.

Lemma find_duplicate_spec nm : find_duplicate_scope b nm = Ok (first_named b nm (kids kt ks (top_parent (hb_stack b)))).
Proof.
  unfold find_duplicate_scope.
  destruct (find_parent_ok (hb_stack b) (h_shape _ _ _ Hinv)) as (pos & e & Hfp & Hne & Hfl & Hsc).
  rewrite Hfp. cbn [bind]. rewrite Hne. cbn [of_option bind]. rewrite Hsc.
  pose proof (top_parent_valid b kt ks Hinv) as HPv.
  set (P := top_parent (hb_stack b)) in *.
  pose proof (chain_of b kt ks Hinv P HPv) as Hc.
  assert (Hstart : (match P with None => Ok (hb_first b) | Some p => do s <- of_option (nth_error (hb_scopes b) p); Ok (sc_child s) end)
                   = Ok (child_of b P)).
  { destruct P as [p|]; [|reflexivity]. cbn [child_of pvalid] in *. rewrite (h_len _ _ _ Hinv) in HPv.
    destruct (nth_error (hb_scopes b) p) eqn:E; [reflexivity|apply nth_error_None in E; lia]. }
  rewrite Hstart. cbn [bind]. apply find_dup_loop_spec; [exact Hc|now apply kids_length].
Qed.

Lemma find_last_child_spec d : (d < length ks)%nat -> find_last_child b d = Ok (last_opt (kids kt ks (Some d))).
Proof.
  intros Hd. unfold find_last_child. pose proof (h_sub _ _ _ Hinv d Hd) as Hc. cbn [child_of kids] in *.
  rewrite (h_len _ _ _ Hinv) in Hd.
  destruct (nth_error (hb_scopes b) d) as [s|] eqn:E; [|apply nth_error_None in E; lia]. cbn [of_option bind].
  destruct (nth d ks []) as [|x l] eqn:Ek.
  - cbn [is_chain] in Hc. now rewrite Hc.
  - pose proof Hc as Hc'. cbn [is_chain] in Hc'. destruct Hc' as (Hs & _ & _). rewrite Hs.
    assert (Hlen : (length l < items_fuel b)%nat).
    { pose proof (kids_length (Some d)) as Hk. cbn [kids pvalid] in Hk. rewrite Ek in Hk. cbn [length] in Hk.
      rewrite (h_len _ _ _ Hinv) in Hk. specialize (Hk Hd). lia. }
    destruct (last_child_loop_spec b l x _ _ Hc Hlen) as (z & Hz & Hl). rewrite Hl. cbn [bind]. now rewrite Hz.
Qed.

Lemma first_named_in nm l d : first_named b nm l = Some d -> In (IScope d) l.
Proof.
  induction l as [|x r IH]; intros H; [discriminate|]. cbn [first_named] in H. destruct x as [i|i].
  - destruct (nth_error (hb_scopes b) i) as [s|]; [destruct (list_eqb (sc_name s) nm); [inversion H; now left|]|]; right; now apply IH.
  - right. now apply IH.
Qed.

End Search.

(* ------------------------------------------------------------------ add_scope and pop_scope *)

Lemma all_ids_scope b b' : length (hb_vars b') = length (hb_vars b) -> length (hb_scopes b') = S (length (hb_scopes b)) ->
  Permutation (all_ids b') (all_ids b ++ [IScope (length (hb_scopes b))]).
Proof.
  intros Hv Hs. unfold all_ids. rewrite Hs, Hv, seq_snoc, map_app. cbn [map Nat.add].
  rewrite <- !app_assoc. apply Permutation_app_head. apply Permutation_app_comm.
Qed.

Lemma nth_app_l {A} (l1 l2 : list A) d i : (i < length l1)%nat -> nth i (l1 ++ l2) d = nth i l1 d.
Proof. intros H. now apply app_nth1. Qed.

Lemma kids_ext kt ks p : pvalid ks p -> kids kt (ks ++ [[]]) p = kids kt ks p.
Proof. destruct p as [s|]; cbn [kids pvalid]; intros H; [now apply app_nth1|reflexivity]. Qed.

Lemma decreasing_cons x l : Forall (fun y => (y < x)%nat) l -> decreasing l -> decreasing (x :: l).
Proof. intros Hx Hl. cbn [decreasing]. split; [|exact Hl]. destruct l as [|y r]; [exact I|]. now apply Forall_cons_iff in Hx as [? _]. Qed.

(* only the stack changes *)
Lemma hinv_new_stack b kt ks st : hinv b kt ks ->
  Forall (entry_ok kt ks) st -> Forall (fun s => (s < length ks)%nat) (stack_scopes st) ->
  decreasing (stack_scopes st) -> stack_shape st ->
  hinv (mk_builder (hb_vars b) (hb_scopes b) (hb_first b) st (hb_handles b)) kt ks.
Proof.
  intros Hinv H1 H2 H3 H4.
  assert (Hsame : forall l start, is_chain b start l ->
            is_chain (mk_builder (hb_vars b) (hb_scopes b) (hb_first b) st (hb_handles b)) start l).
  { intros l start Hc. eapply is_chain_frame; [|exact Hc]. intros x _ Hv. split; [destruct x; exact Hv|destruct x; reflexivity]. }
  apply Build_hinv; cbn [hb_vars hb_scopes hb_first hb_stack hb_handles]; auto.
  - apply (h_len _ _ _ Hinv).
  - apply Hsame, (h_top _ _ _ Hinv).
  - intros s Hs. apply Hsame. apply (h_sub _ _ _ Hinv s Hs).
  - apply (h_perm _ _ _ Hinv).
  - apply (h_par _ _ _ Hinv).
  - apply (h_parlt _ _ _ Hinv).
Qed.

Theorem add_scope_inv b kt ks nm comp tpe decl flatten b' : hinv b kt ks ->
  add_scope b nm comp tpe decl flatten = Ok b' ->
  let P := top_parent (hb_stack b) in
  match first_named b nm (kids kt ks P) with
  | Some d => hinv b' kt ks /\ hb_scopes b' = hb_scopes b /\ hb_vars b' = hb_vars b /\ length (hb_stack b') = S (length (hb_stack b))
  | None =>
    if flatten then hinv b' kt ks /\ hb_scopes b' = hb_scopes b /\ hb_vars b' = hb_vars b /\ length (hb_stack b') = S (length (hb_stack b))
    else
      let node := IScope (length (hb_scopes b)) in
      hinv b' (fst (add_kid kt ks P node)) (snd (add_kid kt ks P node) ++ [[]]) /\
      length (hb_vars b') = length (hb_vars b) /\ length (hb_scopes b') = S (length (hb_scopes b)) /\
      (forall i, (i < length (hb_scopes b))%nat ->
                 option_map sc_name (nth_error (hb_scopes b') i) = option_map sc_name (nth_error (hb_scopes b) i)) /\
      option_map sc_name (nth_error (hb_scopes b') (length (hb_scopes b))) = Some nm /\
      length (hb_stack b') = S (length (hb_stack b))
  end.
Proof.
  intros Hinv H. cbn zeta. unfold add_scope in H.
  rewrite (find_duplicate_spec b kt ks Hinv nm) in H. cbn [bind] in H.
  pose proof (top_parent_valid b kt ks Hinv) as HPv.
  set (P := top_parent (hb_stack b)) in *.
  destruct (first_named b nm (kids kt ks P)) as [d|] eqn:Efn.
  - (* re-open an existing scope *)
    assert (Hin : In (IScope d) (kids kt ks P)) by (eapply first_named_in; eauto).
    assert (Hdv : valid b (IScope d)) by (eapply kids_valid; eauto).
    assert (Hd : (d < length ks)%nat) by (cbn [valid] in Hdv; now rewrite (h_len _ _ _ Hinv)).
    rewrite (find_last_child_spec b kt ks Hinv d Hd) in H. cbn [bind] in H. inversion H; subst b'; clear H.
    split; [|split; [reflexivity|split; reflexivity]].
    apply (hinv_new_stack b kt ks _ Hinv).
    + constructor; [|apply (h_stack _ _ _ Hinv)]. intros _. reflexivity.
    + unfold stack_scopes. cbn [flat_map se_scope app]. constructor; [exact Hd|apply (h_valid _ _ _ Hinv)].
    + unfold stack_scopes. cbn [flat_map se_scope app]. apply decreasing_cons; [|apply (h_dec _ _ _ Hinv)].
      pose proof (h_par _ _ _ Hinv P _ HPv Hin) as Hpar.
      fold (stack_scopes (hb_stack b)). unfold P, top_parent in Hpar.
      destruct (stack_scopes (hb_stack b)) as [|s r] eqn:Ess; [constructor|]. cbn [hd_error] in Hpar.
      apply (h_parlt _ _ _ Hinv) in Hpar.
      pose proof (h_dec _ _ _ Hinv) as Hdec. rewrite Ess in Hdec. pose proof (decreasing_hd_max _ _ Hdec) as Hmax.
      constructor; [exact Hpar|]. eapply Forall_impl; [|exact Hmax]. intros z Hz. cbn beta in Hz. lia.
    + cbn [stack_shape se_scope se_flattened]. pose proof (h_shape _ _ _ Hinv) as Hsh.
      destruct (hb_stack b) as [|e0 r0]; [destruct Hsh|]. split; [reflexivity|exact Hsh].
  - destruct flatten.
    + inversion H; subst b'; clear H. split; [|split; [reflexivity|split; reflexivity]].
      apply (hinv_new_stack b kt ks _ Hinv).
      * constructor; [|apply (h_stack _ _ _ Hinv)]. intros E. discriminate.
      * unfold stack_scopes. cbn [flat_map se_scope app]. apply (h_valid _ _ _ Hinv).
      * unfold stack_scopes. cbn [flat_map se_scope app]. apply (h_dec _ _ _ Hinv).
      * cbn [stack_shape se_scope se_flattened]. pose proof (h_shape _ _ _ Hinv) as Hsh.
        destruct (hb_stack b) as [|e0 r0]; [destruct Hsh|]. split; [reflexivity|exact Hsh].
    + (* a new scope *)
      set (node := IScope (length (hb_scopes b))) in *.
      change (mk_builder (hb_vars b) (hb_scopes b) (match hb_first b with None => Some node | f => f end) (hb_stack b) (hb_handles b))
        with (set_first b node) in H.
      destruct (add_to_tree (set_first b node) node) as [[b2 parent]| |] eqn:Eat; try discriminate. cbn [bind] in H.
      inversion H; subst b'; clear H.
      assert (Hfresh : ~ valid b node) by (unfold node; cbn [valid]; lia).
      destruct (link_effects b kt ks node b2 parent Hinv Hfresh Eat) as [-> Hlk]. fold P in Hlk.
      set (b' := mk_builder _ _ _ _ _).
      pose proof (lk_vars _ _ _ _ _ _ Hlk) as Hlv. pose proof (lk_scopes _ _ _ _ _ _ Hlk) as Hls.
      assert (Hval : forall x, valid b x -> valid b' x).
      { intros [i|i]; unfold b'; cbn [valid hb_scopes hb_vars]; [rewrite app_length; cbn [length]; lia|lia]. }
      assert (Hvaln : valid b' node) by (unfold b', node; cbn [valid hb_scopes]; rewrite app_length; cbn [length]; lia).
      assert (Hnext : forall x, valid b x -> next_of b' x = next_of b2 x).
      { intros [i|i] Hv; unfold b'; cbn [next_of hb_scopes hb_vars]; [|reflexivity].
        cbn [valid] in Hv. rewrite nth_error_app1 by lia. reflexivity. }
      assert (Hnextn : next_of b' node = None).
      { unfold b', node. cbn [next_of hb_scopes]. rewrite <- Hls, nth_error_snoc. reflexivity. }
      assert (Hchild : forall q, pvalid ks q -> child_of b' q = child_of b2 q).
      { intros [s|] Hq; unfold b'; cbn [child_of hb_scopes hb_first]; [|reflexivity].
        cbn [pvalid] in Hq. rewrite (h_len _ _ _ Hinv) in Hq. rewrite nth_error_app1 by lia. reflexivity. }
      assert (Hpar : forall x, valid b x -> parent_of b' x = parent_of b x).
      { intros [i|i] Hv; rewrite <- (lk_parent _ _ _ _ _ _ Hlk) by exact Hv; unfold b'; cbn [parent_of hb_scopes hb_vars]; [|reflexivity].
        cbn [valid] in Hv. rewrite nth_error_app1 by lia. reflexivity. }
      assert (Hparn : parent_of b' node = P).
      { unfold b', node. cbn [parent_of hb_scopes]. rewrite <- Hls, nth_error_snoc. reflexivity. }
      destruct (stack_after_link b b2 kt ks node P Hinv Hlk eq_refl) as (Hst1 & Hst2 & Hst3).
      set (kt' := fst (add_kid kt ks P node)). set (ks' := snd (add_kid kt ks P node)).
      assert (Hlk' : length ks' = length ks) by (unfold ks'; apply add_kid_length).
      assert (Hn : length (hb_scopes b) = length ks) by (symmetry; apply (h_len _ _ _ Hinv)).
      split; [|split; [unfold b'; cbn [hb_vars]; exact Hlv|split; [unfold b'; cbn [hb_scopes]; rewrite app_length; cbn [length]; lia|split]]].
      * apply Build_hinv.
        -- rewrite app_length. cbn [length]. unfold b'. cbn [hb_scopes]. rewrite app_length. cbn [length]. lia.
        -- apply (chains_after_link b b2 b' kt ks node P Hinv Hlk HPv Hval Hvaln Hnext Hnextn Hchild None I).
        -- intros s Hs. rewrite app_length in Hs. cbn [length] in Hs.
           destruct (Nat.eq_dec s (length ks')) as [->|Hd].
           ++ rewrite app_nth2, Nat.sub_diag by lia. cbn [nth is_chain]. unfold b'. cbn [child_of hb_scopes].
              rewrite Hlk', <- Hn, <- Hls, nth_error_snoc. reflexivity.
           ++ rewrite app_nth1 by lia.
              apply (chains_after_link b b2 b' kt ks node P Hinv Hlk HPv Hval Hvaln Hnext Hnextn Hchild (Some s)). cbn [pvalid]. lia.
        -- rewrite concat_app. cbn [concat]. rewrite !app_nil_r.
           eapply Permutation_trans; [|apply Permutation_sym, (all_ids_scope b b')];
             [|unfold b'; cbn [hb_vars]; exact Hlv|unfold b'; cbn [hb_scopes]; rewrite app_length; cbn [length]; lia].
           eapply Permutation_trans; [apply add_kid_perm; exact HPv|]. apply Permutation_app_tail. apply (h_perm _ _ _ Hinv).
        -- intros p x Hp Hx.
           assert (Hpc : p = Some (length ks') \/ pvalid ks p).
           { destruct p as [s|]; [|right; exact I]. cbn [pvalid] in *. rewrite app_length in Hp. cbn [length] in Hp.
             destruct (Nat.eq_dec s (length ks')); [left; congruence|right; lia]. }
           destruct Hpc as [->|Hp'].
           ++ cbn [kids] in Hx. rewrite app_nth2, Nat.sub_diag in Hx by lia. destruct Hx.
           ++ rewrite kids_ext in Hx by (destruct p; [cbn [pvalid] in *; lia|exact I]).
              assert (Hdec : p = P \/ p <> P) by (destruct p as [s|], P as [t|]; try (right; congruence); [destruct (Nat.eq_dec s t); [left; congruence|right; congruence]|left; reflexivity]).
              destruct Hdec as [->|Hne].
              ** unfold kt', ks' in Hx. rewrite kids_add_same in Hx by exact HPv. apply in_app_or in Hx as [Hx|[<-|[]]]; [|exact Hparn].
                 rewrite Hpar by (eapply kids_valid; eauto). now apply (h_par _ _ _ Hinv).
              ** unfold kt', ks' in Hx. rewrite kids_add_other in Hx by exact Hne. rewrite Hpar by (eapply kids_valid; eauto). now apply (h_par _ _ _ Hinv).
        -- intros i p Hp. destruct (Nat.lt_ge_cases i (length (hb_scopes b))) as [Hi|Hi].
           ++ rewrite (Hpar (IScope i) Hi) in Hp. now apply (h_parlt _ _ _ Hinv).
           ++ destruct (Nat.eq_dec i (length (hb_scopes b))) as [->|Hd].
              ** fold node in Hp. rewrite Hparn in Hp. subst P. unfold top_parent in Hp.
                 pose proof (h_valid _ _ _ Hinv) as Hv. destruct (stack_scopes (hb_stack b)) as [|s r]; [discriminate|].
                 cbn [hd_error] in Hp. inversion Hp; subst p. apply Forall_cons_iff in Hv as [Hv _]. lia.
              ** unfold b' in Hp. cbn [parent_of hb_scopes] in Hp.
                 rewrite (proj2 (nth_error_None _ _)) in Hp by (rewrite app_length; cbn [length]; lia). discriminate.
        -- unfold b'. cbn [hb_stack]. constructor.
           ++ intros _. cbn [se_last_child se_scope kids].
              assert (E : nth (length (hb_scopes b)) (ks' ++ [[]]) [] = @nil item_id).
              { rewrite app_nth2 by lia. replace (length (hb_scopes b) - length ks')%nat with 0%nat by lia. reflexivity. }
              rewrite E. reflexivity.
           ++ apply Forall_forall. intros e Hin Hf. pose proof Hst1 as Hall. rewrite Forall_forall in Hall.
              rewrite (Hall e Hin Hf). f_equal. symmetry. apply kids_ext.
              destruct (se_scope e) as [s|] eqn:Es; [|exact I]. cbn [pvalid].
              assert (Hs : In s (stack_scopes (hb_stack b2))) by (apply in_flat_map; exists e; split; [exact Hin|rewrite Es; now left]).
              rewrite Hst2 in Hs. pose proof (h_valid _ _ _ Hinv) as Hv. rewrite Forall_forall in Hv. specialize (Hv s Hs).
              rewrite add_kid_length. exact Hv.
        -- unfold b'. cbn [hb_stack]. unfold stack_scopes. cbn [flat_map se_scope app]. fold (stack_scopes (hb_stack b2)).
           rewrite Hst2, app_length. cbn [length]. constructor; [lia|].
           eapply Forall_impl; [|apply (h_valid _ _ _ Hinv)]. intros z Hz. cbn beta in Hz. lia.
        -- unfold b'. cbn [hb_stack]. unfold stack_scopes. cbn [flat_map se_scope app]. fold (stack_scopes (hb_stack b2)).
           rewrite Hst2. apply decreasing_cons; [|apply (h_dec _ _ _ Hinv)].
           eapply Forall_impl; [|apply (h_valid _ _ _ Hinv)]. intros z Hz. cbn beta in Hz. lia.
        -- unfold b'. cbn [hb_stack stack_shape se_scope se_flattened].
           destruct (hb_stack b2) as [|e0 r0]; [destruct Hst3|]. split; [reflexivity|exact Hst3].
      * intros i Hi. unfold b'. cbn [hb_scopes]. rewrite nth_error_app1 by lia. apply (lk_names _ _ _ _ _ _ Hlk).
      * split; [unfold b'; cbn [hb_scopes]; rewrite <- Hls, nth_error_snoc; reflexivity|].
        unfold b'. cbn [hb_stack length]. f_equal.
        destruct (lk_stack _ _ _ _ _ _ Hlk) as (pos & e & _ & _ & _ & ->). apply update_length.
Qed.


Lemma decreasing_tail x l : decreasing (x :: l) -> decreasing l.
Proof. intros [_ H]. exact H. Qed.

Theorem pop_scope_inv b kt ks b' : hinv b kt ks -> (1 < length (hb_stack b))%nat ->
  pop_scope b = Ok b' -> hinv b' kt ks /\ hb_scopes b' = hb_scopes b /\ hb_vars b' = hb_vars b.
Proof.
  intros Hinv Hlen H. unfold pop_scope in H. destruct (hb_stack b) as [|e r] eqn:Es; [discriminate|].
  inversion H; subst b'; clear H. split; [|split; reflexivity].
  pose proof (h_stack _ _ _ Hinv) as H1. pose proof (h_valid _ _ _ Hinv) as H2.
  pose proof (h_dec _ _ _ Hinv) as H3. pose proof (h_shape _ _ _ Hinv) as H4. rewrite Es in *.
  apply (hinv_new_stack b kt ks r Hinv).
  - now apply Forall_cons_iff in H1 as [_ ?].
  - unfold stack_scopes in *. cbn [flat_map] in H2. apply Forall_app in H2 as [_ ?]. assumption.
  - unfold stack_scopes in *. cbn [flat_map] in H3. destruct (se_scope e); [cbn [app] in H3; now apply decreasing_tail in H3|exact H3].
  - destruct r as [|e2 r2]; [cbn in Hlen; lia|]. destruct H4 as [_ H4]. exact H4.
Qed.

(* ------------------------------------------------------------------ every reachable builder state *)

(* op sequences that never pop the bottom entry of the scope stack (an unbalanced $upscope) *)
Fixpoint balanced (depth : nat) (ops : list hier_op) : Prop :=
  match ops with
  | [] => True
  | HScope _ _ _ _ _ :: r => balanced (S depth) r
  | HVar _ _ _ _ _ _ _ :: r => balanced depth r
  | HPop :: r => (0 < depth)%nat /\ balanced (depth - 1) r
  end.

Theorem hier_run_inv : forall ops b kt ks b',
  hinv b kt ks -> balanced (length (hb_stack b) - 1) ops -> hier_run b ops = Ok b' ->
  exists kt' ks', hinv b' kt' ks'.
Proof.
  induction ops as [|op ops IH]; intros b kt ks b' Hinv Hbal H; cbn [hier_run] in H.
  - inversion H; subst. eauto.
  - destruct (hier_step b op) as [b1| |] eqn:E1; try discriminate. cbn [bind] in H.
    assert (Hst : (0 < length (hb_stack b))%nat).
    { pose proof (h_shape _ _ _ Hinv) as Hs. destruct (hb_stack b); [destruct Hs|cbn; lia]. }
    destruct op as [nm c t dl f|nm t d e i s tn|]; cbn [hier_step balanced] in *.
    + pose proof (add_scope_inv b kt ks nm c t dl f b1 Hinv E1) as Hs. cbn zeta in Hs.
      assert (Hlen : length (hb_stack b1) = S (length (hb_stack b))).
      { destruct (first_named b nm _) as [d|]; [apply Hs|]. destruct f; apply Hs. }
      assert (Hbal' : balanced (length (hb_stack b1) - 1) ops) by (rewrite Hlen; replace (S (length (hb_stack b)) - 1)%nat with (S (length (hb_stack b) - 1)) by lia; exact Hbal).
      destruct (first_named b nm _) as [d|].
      * destruct Hs as (Hi & _). eapply IH; eauto.
      * destruct f; [destruct Hs as (Hi & _)|destruct Hs as (Hi & _)]; eapply IH; eauto.
    + destruct (add_var_inv b kt ks nm t d e i s tn b1 Hinv E1) as (Hi & _ & _ & _ & _ & _ & Hlen).
      eapply IH; [exact Hi| |exact H]. now rewrite Hlen.
    + destruct Hbal as [Hd Hbal].
      destruct (pop_scope_inv b kt ks b1 Hinv ltac:(lia) E1) as (Hi & _ & _).
      assert (Hlen : length (hb_stack b1) = (length (hb_stack b) - 1)%nat).
      { unfold pop_scope in E1. destruct (hb_stack b); [discriminate|]. inversion E1; subst. cbn. lia. }
      eapply IH; [exact Hi| |exact H]. now rewrite Hlen.
Qed.

(* ------------------------------------------------------------------ navigation of a well-formed hierarchy *)

Section Navigation.
Variables (b : builder) (kt : list item_id) (ks : list (list item_id)).
Hypothesis Hinv : hinv b kt ks.

(* Hierarchy::items(): the top-level items *)
Theorem top_items_spec : top_items b = Ok kt.
Proof. unfold top_items. apply chain_ok; [apply (h_top _ _ _ Hinv)|apply (kids_length b kt ks Hinv None I)]. Qed.

(* Scope::items(): the children of a scope *)
Theorem scope_items_spec s : (s < length (hb_scopes b))%nat -> scope_items b s = Ok (nth s ks []).
Proof.
  intros Hs. unfold scope_items. rewrite <- (h_len _ _ _ Hinv) in Hs.
  pose proof (h_sub _ _ _ Hinv s Hs) as Hc. cbn [child_of] in Hc.
  destruct (nth_error (hb_scopes b) s) as [sc|] eqn:E; [|apply nth_error_None in E; rewrite (h_len _ _ _ Hinv) in Hs; lia].
  cbn [of_option bind]. apply chain_ok; [exact Hc|apply (kids_length b kt ks Hinv (Some s) Hs)].
Qed.

(* every variable and every scope is a child of exactly one parent (or top-level), exactly once *)
Theorem items_exactly_once : Permutation (kt ++ concat ks) (all_ids b) /\ NoDup (kt ++ concat ks).
Proof. split; [apply (h_perm _ _ _ Hinv)|apply (nodup_whole b kt ks Hinv)]. Qed.

(* the parent link of every listed item is the scope whose list it is in; parents precede their children *)
Theorem parent_links p x : pvalid ks p -> In x (kids kt ks p) -> parent_of b x = p.
Proof. apply (h_par _ _ _ Hinv). Qed.

Theorem parents_first i p : parent_of b (IScope i) = Some p -> (p < i)%nat.
Proof. apply (h_parlt _ _ _ Hinv). Qed.

End Navigation.

(* ------------------------------------------------------------------ sibling scopes have distinct names *)

Definition scope_names (b : builder) (l : list item_id) : list name :=
  flat_map (fun x => match x with
                     | IScope i => match nth_error (hb_scopes b) i with Some s => [sc_name s] | None => [] end
                     | IVar _ => []
                     end) l.

Definition names_ok (b : builder) (kt : list item_id) (ks : list (list item_id)) : Prop :=
  forall p, pvalid ks p -> NoDup (scope_names b (kids kt ks p)).

Lemma list_eqb_true a : forall c, list_eqb a c = true <-> a = c.
Proof.
  induction a as [|x a IH]; intros [|y c]; cbn [list_eqb]; split; intros H; try discriminate; try reflexivity.
  - apply andb_prop in H as [H1 H2]. apply N.eqb_eq in H1. apply IH in H2. now subst.
  - inversion H; subst. rewrite N.eqb_refl. cbn. now apply IH.
Qed.

Lemma first_named_none b nm l : first_named b nm l = None -> ~ In nm (scope_names b l).
Proof.
  induction l as [|x r IH]; intros H Hin; [destruct Hin|]. cbn [first_named scope_names flat_map] in *.
  destruct x as [i|i].
  - destruct (nth_error (hb_scopes b) i) as [s|] eqn:E.
    + destruct (list_eqb (sc_name s) nm) eqn:El; [discriminate|]. cbn [app] in Hin. destruct Hin as [Hin|Hin].
      * assert (list_eqb (sc_name s) nm = true) by (apply list_eqb_true; exact Hin). congruence.
      * exact (IH H Hin).
    + exact (IH H Hin).
  - exact (IH H Hin).
Qed.

Lemma scope_names_ext b b' l : (forall i, In (IScope i) l -> option_map sc_name (nth_error (hb_scopes b') i) = option_map sc_name (nth_error (hb_scopes b) i)) ->
  scope_names b' l = scope_names b l.
Proof.
  induction l as [|x r IH]; intros H; [reflexivity|]. cbn [scope_names flat_map]. fold (scope_names b' r) (scope_names b r).
  rewrite IH by (intros i Hi; apply H; now right). f_equal.
  destruct x as [i|i]; [|reflexivity]. specialize (H i (or_introl eq_refl)).
  destruct (nth_error (hb_scopes b') i), (nth_error (hb_scopes b) i); cbn in H; try discriminate; [now inversion H|reflexivity].
Qed.

Lemma scope_names_app b l1 l2 : scope_names b (l1 ++ l2) = scope_names b l1 ++ scope_names b l2.
Proof. unfold scope_names. apply flat_map_app. Qed.

Lemma nodup_snoc {A} (l : list A) x : NoDup l -> ~ In x l -> NoDup (l ++ [x]).
Proof.
  intros H Hx. apply nodup_app; [exact H|constructor; [intros []|constructor]|].
  intros y Hy [<-|[]]. contradiction.
Qed.

(* ------------------------------------------------------------------ children are listed in declaration order *)

Definition vars_of (l : list item_id) : list nat := flat_map (fun x => match x with IVar i => [i] | IScope _ => [] end) l.
Definition scopes_of (l : list item_id) : list nat := flat_map (fun x => match x with IScope i => [i] | IVar _ => [] end) l.

Fixpoint increasing (l : list nat) : Prop :=
  match l with
  | [] => True
  | x :: r => Forall (fun y => (x < y)%nat) r /\ increasing r
  end.

Lemma increasing_snoc l n : increasing l -> Forall (fun y => (y < n)%nat) l -> increasing (l ++ [n]).
Proof.
  induction l as [|x r IH]; intros Hi Hl; cbn [app increasing]; [split; constructor|].
  destruct Hi as [Hx Hr]. apply Forall_cons_iff in Hl as [Hxn Hl]. split.
  - apply Forall_app. split; [exact Hx|constructor; [exact Hxn|constructor]].
  - now apply IH.
Qed.

(* within every children list the variables appear in the order they were added, and so do the scopes *)
Definition order_ok (kt : list item_id) (ks : list (list item_id)) : Prop :=
  forall p, pvalid ks p -> increasing (vars_of (kids kt ks p)) /\ increasing (scopes_of (kids kt ks p)).

Lemma vars_of_app a c : vars_of (a ++ c) = vars_of a ++ vars_of c.
Proof. unfold vars_of. apply flat_map_app. Qed.
Lemma scopes_of_app a c : scopes_of (a ++ c) = scopes_of a ++ scopes_of c.
Proof. unfold scopes_of. apply flat_map_app. Qed.

Lemma vars_of_bound b kt ks (Hinv : hinv b kt ks) p : pvalid ks p -> Forall (fun y => (y < length (hb_vars b))%nat) (vars_of (kids kt ks p)).
Proof.
  intros Hp. apply Forall_forall. intros y Hy. unfold vars_of in Hy. apply in_flat_map in Hy as (x & Hx & Hy).
  destruct x as [i|i]; [destruct Hy|]. destruct Hy as [<-|[]]. exact (kids_valid b kt ks Hinv p (IVar i) Hp Hx).
Qed.

Lemma scopes_of_bound b kt ks (Hinv : hinv b kt ks) p : pvalid ks p -> Forall (fun y => (y < length (hb_scopes b))%nat) (scopes_of (kids kt ks p)).
Proof.
  intros Hp. apply Forall_forall. intros y Hy. unfold scopes_of in Hy. apply in_flat_map in Hy as (x & Hx & Hy).
  destruct x as [i|i]; [|destruct Hy]. destruct Hy as [<-|[]]. exact (kids_valid b kt ks Hinv p (IScope i) Hp Hx).
Qed.

(* adding a kid with a fresh, largest index keeps every list in order *)
Lemma order_add_var b kt ks (Hinv : hinv b kt ks) P : pvalid ks P -> order_ok kt ks ->
  order_ok (fst (add_kid kt ks P (IVar (length (hb_vars b))))) (snd (add_kid kt ks P (IVar (length (hb_vars b))))).
Proof.
  intros HP Ho p Hp. assert (Hp' : pvalid ks p) by (destruct p; [cbn [pvalid] in *; rewrite add_kid_length in Hp; exact Hp|exact I]).
  assert (Hdec : p = P \/ p <> P) by (destruct p as [a|], P as [c0|]; try (right; congruence); [destruct (Nat.eq_dec a c0); [left; congruence|right; congruence]|left; reflexivity]).
  destruct Hdec as [->|Hne].
  - rewrite kids_add_same by exact HP. rewrite vars_of_app, scopes_of_app. cbn [vars_of scopes_of flat_map app]. rewrite app_nil_r.
    destruct (Ho P HP) as [H1 H2]. split; [|exact H2]. apply increasing_snoc; [exact H1|]. now apply (vars_of_bound b kt ks Hinv).
  - rewrite kids_add_other by exact Hne. now apply Ho.
Qed.

Lemma order_add_scope b kt ks (Hinv : hinv b kt ks) P : pvalid ks P -> order_ok kt ks ->
  order_ok (fst (add_kid kt ks P (IScope (length (hb_scopes b))))) (snd (add_kid kt ks P (IScope (length (hb_scopes b)))) ++ [[]]).
Proof.
  intros HP Ho p Hp.
  assert (Hpc : p = Some (length ks) \/ pvalid ks p).
  { destruct p as [q|]; [|right; exact I]. cbn [pvalid] in *. rewrite app_length, add_kid_length in Hp. cbn [length] in Hp.
    destruct (Nat.eq_dec q (length ks)); [left; congruence|right; lia]. }
  destruct Hpc as [->|Hp'].
  - cbn [kids]. rewrite app_nth2 by (rewrite add_kid_length; lia). rewrite add_kid_length, Nat.sub_diag. cbn. split; exact I.
  - rewrite kids_ext by (destruct p; [cbn [pvalid] in *; rewrite add_kid_length; exact Hp'|exact I]).
    assert (Hdec : p = P \/ p <> P) by (destruct p as [a|], P as [c0|]; try (right; congruence); [destruct (Nat.eq_dec a c0); [left; congruence|right; congruence]|left; reflexivity]).
    destruct Hdec as [->|Hne].
    + rewrite kids_add_same by exact HP. rewrite vars_of_app, scopes_of_app. cbn [vars_of scopes_of flat_map app]. rewrite app_nil_r.
      destruct (Ho P HP) as [H1 H2]. split; [exact H1|]. apply increasing_snoc; [exact H2|]. now apply (scopes_of_bound b kt ks Hinv).
    + rewrite kids_add_other by exact Hne. now apply Ho.
Qed.

(* all builder states reachable by balanced op sequences: well-formed and with unique sibling scope names *)
Theorem hier_run_wf : forall ops b kt ks b',
  hinv b kt ks -> names_ok b kt ks -> order_ok kt ks -> balanced (length (hb_stack b) - 1) ops -> hier_run b ops = Ok b' ->
  exists kt' ks', hinv b' kt' ks' /\ names_ok b' kt' ks' /\ order_ok kt' ks'.
Proof.
  induction ops as [|op ops IH]; intros b kt ks b' Hinv Hnm Hord Hbal H; cbn [hier_run] in H.
  - inversion H; subst. eauto.
  - destruct (hier_step b op) as [b1| |] eqn:E1; try discriminate. cbn [bind] in H.
    destruct op as [nm c t dl f|nm t d e i s tn|]; cbn [hier_step balanced] in *.
    + pose proof (add_scope_inv b kt ks nm c t dl f b1 Hinv E1) as Hs. cbn zeta in Hs.
      pose proof (top_parent_valid b kt ks Hinv) as HPv.
      set (P := top_parent (hb_stack b)) in *.
      destruct (first_named b nm (kids kt ks P)) as [d|] eqn:Efn.
      * destruct Hs as (Hi & Hsc & _ & Hlen). eapply IH; [exact Hi| |exact Hord| |exact H].
        -- intros p Hp. unfold scope_names. rewrite Hsc. apply (Hnm p Hp).
        -- rewrite Hlen. replace (S (length (hb_stack b)) - 1)%nat with (S (length (hb_stack b) - 1)); [exact Hbal|].
           pose proof (h_shape _ _ _ Hinv) as Hsh. destruct (hb_stack b); [destruct Hsh|cbn; lia].
      * assert (Hdepth : (S (length (hb_stack b)) - 1 = S (length (hb_stack b) - 1))%nat).
        { pose proof (h_shape _ _ _ Hinv) as Hsh. destruct (hb_stack b); [destruct Hsh|cbn; lia]. }
        destruct f.
        -- destruct Hs as (Hi & Hsc & _ & Hlen). eapply IH; [exact Hi| |exact Hord| |exact H].
           ++ intros p Hp. unfold scope_names. rewrite Hsc. apply (Hnm p Hp).
           ++ rewrite Hlen, Hdepth. exact Hbal.
        -- destruct Hs as (Hi & Hlv & Hls & Hold & Hnew & Hlen).
           set (node := IScope (length (hb_scopes b))) in *.
           eapply IH; [exact Hi| |exact (order_add_scope b kt ks Hinv P HPv Hord)| |exact H]; [|rewrite Hlen, Hdepth; exact Hbal].
           intros p Hp.
           assert (Hn : length ks = length (hb_scopes b)) by apply (h_len _ _ _ Hinv).
           assert (Hpc : p = Some (length ks) \/ pvalid ks p).
           { destruct p as [q|]; [|right; exact I]. cbn [pvalid] in *. rewrite app_length, add_kid_length in Hp. cbn [length] in Hp.
             destruct (Nat.eq_dec q (length ks)); [left; congruence|right; lia]. }
           destruct Hpc as [->|Hp'].
           ++ cbn [kids]. rewrite app_nth2 by (rewrite add_kid_length; lia). rewrite add_kid_length, Nat.sub_diag. constructor.
           ++ rewrite kids_ext by (destruct p; [cbn [pvalid] in *; rewrite add_kid_length; exact Hp'|exact I]).
              assert (Hold' : forall l, (forall i, In (IScope i) l -> (i < length (hb_scopes b))%nat) -> scope_names b1 l = scope_names b l).
              { intros l Hl. apply scope_names_ext. intros j Hj. apply Hold. now apply Hl. }
              assert (Hkv : forall q i, pvalid ks q -> In (IScope i) (kids kt ks q) -> (i < length (hb_scopes b))%nat).
              { intros q i Hq Hin. exact (kids_valid b kt ks Hinv q (IScope i) Hq Hin). }
              assert (Hdec : p = P \/ p <> P) by (destruct p as [a|], P as [c0|]; try (right; congruence); [destruct (Nat.eq_dec a c0); [left; congruence|right; congruence]|left; reflexivity]).
              destruct Hdec as [->|Hne].
              ** rewrite kids_add_same by exact HPv. rewrite scope_names_app.
                 rewrite Hold' by (intros i Hin; eapply Hkv; eauto).
                 unfold node. cbn [scope_names flat_map]. destruct (nth_error (hb_scopes b1) (length (hb_scopes b))) as [sn|]; [|discriminate].
                 cbn [option_map] in Hnew. inversion Hnew; subst nm. cbn [app].
                 apply nodup_snoc; [apply (Hnm P HPv)|now apply first_named_none].
              ** rewrite kids_add_other by exact Hne. rewrite Hold' by (intros i Hin; eapply Hkv; eauto). apply (Hnm p Hp').
    + destruct (add_var_inv b kt ks nm t d e i s tn b1 Hinv E1) as (Hi & _ & Hls & _ & Hnames & _ & Hlen).
      pose proof (top_parent_valid b kt ks Hinv) as HPv. set (P := top_parent (hb_stack b)) in *.
      eapply IH; [exact Hi| |exact (order_add_var b kt ks Hinv P HPv Hord)|now rewrite Hlen|exact H].
      intros p Hp. assert (Hp' : pvalid ks p) by (destruct p; [cbn [pvalid] in *; rewrite add_kid_length in Hp; exact Hp|exact I]).
      assert (Hdec : p = P \/ p <> P) by (destruct p as [a|], P as [c0|]; try (right; congruence); [destruct (Nat.eq_dec a c0); [left; congruence|right; congruence]|left; reflexivity]).
      destruct Hdec as [->|Hne].
      * rewrite kids_add_same by exact HPv. rewrite scope_names_app. cbn [scope_names flat_map]. rewrite app_nil_r.
        rewrite (scope_names_ext b b1) by (intros j _; apply Hnames). apply (Hnm P HPv).
      * rewrite kids_add_other by exact Hne. rewrite (scope_names_ext b b1) by (intros j _; apply Hnames). apply (Hnm p Hp').
    + destruct Hbal as [Hd Hbal].
      destruct (pop_scope_inv b kt ks b1 Hinv ltac:(lia) E1) as (Hi & Hsc & _).
      assert (Hlen : length (hb_stack b1) = (length (hb_stack b) - 1)%nat).
      { unfold pop_scope in E1. destruct (hb_stack b); [discriminate|]. inversion E1; subst. cbn. lia. }
      eapply IH; [exact Hi| |exact Hord|now rewrite Hlen|exact H].
      intros p Hp. unfold scope_names. rewrite Hsc. apply (Hnm p Hp).
Qed.

(* Property C08 (structure): every hierarchy built by a balanced sequence of builder calls *)
Theorem hierarchy_wellformed ops b : balanced 0 ops -> hier_run hb_new ops = Ok b ->
  exists kt ks,
    top_items b = Ok kt /\
    (forall s, (s < length (hb_scopes b))%nat -> scope_items b s = Ok (nth s ks [])) /\
    Permutation (kt ++ concat ks) (all_ids b) /\ NoDup (kt ++ concat ks) /\
    (forall p x, pvalid ks p -> In x (kids kt ks p) -> parent_of b x = p) /\
    (forall i p, parent_of b (IScope i) = Some p -> (p < i)%nat) /\
    (forall p, pvalid ks p -> NoDup (scope_names b (kids kt ks p))) /\
    (forall p, pvalid ks p -> increasing (vars_of (kids kt ks p)) /\ increasing (scopes_of (kids kt ks p))) /\
    length ks = length (hb_scopes b).
Proof.
  intros Hbal H.
  destruct (hier_run_wf ops hb_new [] [] b hinv_new ltac:(intros [s|] Hp; [cbn in Hp; lia|constructor])
              ltac:(intros [s|] Hp; [cbn in Hp; lia|cbn; split; exact I]) Hbal H) as (kt & ks & Hinv & Hnm & Hord).
  exists kt, ks. split; [exact (top_items_spec b kt ks Hinv)|]. split; [intros s Hs; exact (scope_items_spec b kt ks Hinv s Hs)|].
  destruct (items_exactly_once b kt ks Hinv) as [Hp Hn].
  split; [exact Hp|]. split; [exact Hn|]. split; [apply (h_par _ _ _ Hinv)|]. split; [apply (h_parlt _ _ _ Hinv)|].
  split; [exact Hnm|]. split; [exact Hord|apply (h_len _ _ _ Hinv)].
Qed.

Example hierarchy_example :
  let ops := [HScope [97] None 0 None false; HVar [120] 0 0 (EncBits 1) None 0 None; HPop;
              HScope [98] None 0 None false; HPop; HScope [97] None 0 None false; HVar [121] 0 0 (EncBits 8) None 1 None; HPop] in
  exists b, hier_run hb_new ops = Ok b /\ balanced 0 ops /\
            top_items b = Ok [IScope 0; IScope 1] /\ scope_items b 0 = Ok [IVar 0; IVar 1].
Proof. cbn zeta. eexists. split; [vm_compute; reflexivity|]. split; [cbn; repeat split; lia|]. split; vm_compute; reflexivity. Qed.
