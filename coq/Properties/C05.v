(* Property C05: point queries return the latest change at or before the requested index.
   This file only pins statements; the proofs live in Proofs/. *)
From WV Require Import Model.Base Model.Signals Spec.OffsetSpec Proofs.SignalsProofs Proofs.SignalsRefuted.

(* get_offset(i) is None exactly when the signal has no change at an index <= i;
   it never panics on a sorted index list (the search never underflows). *)
Check get_offset_none :
  forall l i, sorted l -> (get_offset l i = Ok None <-> no_change_le l i).

(* otherwise it designates the group carrying the greatest index <= i *)
Check get_offset_some :
  forall l i, sorted l -> run_fits_u16 l -> ~ no_change_le l i ->
  exists s e tm nx,
    get_offset l i = Ok (Some (mk_offset s (N.of_nat e) tm nx)) /\ group_spec l i s e tm nx.

(* the specification determines start, elements, time_match and next_index uniquely *)
Check group_spec_unique :
  forall l i s e tm nx s' e' tm' nx',
  group_spec l i s e tm nx -> group_spec l i s' e' tm' nx' ->
  s = s' /\ e = e' /\ tm = tm' /\ nx = nx'.

Check binary_search_spec :
  forall l needle, sorted l -> l <> [] -> (at_ l 0 <= needle)%N ->
  exists p, binary_search l needle = Ok p /\ bs_post l needle p.

Check @iter_agree :
  forall (V : Type) (l : list N) (vals : list V), length l = length vals ->
  map fst (iter_changes l vals) = l /\ map snd (iter_changes l vals) = vals.

Check time_idx_at_group :
  forall l i s e tm nx, group_spec l i s e tm nx ->
  get_time_idx_at l (mk_offset s (N.of_nat e) tm nx) = Ok (at_ l s) /\
  forall k, k < e -> get_value_pos (mk_offset s (N.of_nat e) tm nx) (N.of_nat k) = Ok (s + k).

(* known finding D12: a group of 65536 changes under one index reports elements = 0 *)
Check get_offset_u16_refuted :
  exists d, get_offset long_run 7%N = Ok (Some d) /\ do_elements d = 0%N /\ ~ run_fits_u16 long_run.

Print Assumptions get_offset_none.
Print Assumptions get_offset_some.
Print Assumptions group_spec_unique.
Print Assumptions binary_search_spec.
Print Assumptions iter_agree.
Print Assumptions time_idx_at_group.
Print Assumptions get_offset_u16_refuted.
