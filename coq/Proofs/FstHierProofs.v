(* C10: the hierarchy side of the FST loader (Model/FstHier.v, wellen/src/fst.rs read_hierarchy).
   A stream of hierarchy entries that is the rendering of a list of declarations - each scope preceded by its source
   stems, each variable by its VHDL infos and enum references - yields exactly the builder calls of those
   declarations: attributes attach to the next scope / variable only, of several source stems of one kind, type infos
   or enum references the first in file order stays, path names and enum tables are resolved as known at that point
   of the stream, variables sharing a handle share a signal. *)
From Coq Require Import Lia.
From WV Require Import Model.Base Generated.Consts Model.Bits Model.WaveMem Model.VcdBody Model.Hierarchy Model.VcdHeader Model.FstHier.
Open Scope N_scope.

(* ---- the attribute stack *)
Lemma f_scope_attrs_app debug s1 : forall s2 d i,
  f_scope_attrs debug (s1 ++ s2) d i
  = match f_scope_attrs debug s1 d i with Ok (d', i') => f_scope_attrs debug s2 d' i' | Err => Err | Panic => Panic end.
Proof.
  induction s1 as [|a s1 IH]; intros s2 d i; cbn [app f_scope_attrs]; [reflexivity|].
  destruct a as [p l [|]| |]; try apply IH; destruct debug; try reflexivity; apply IH.
Qed.

Lemma f_var_attrs_app debug s1 : forall s2 t tn en,
  f_var_attrs debug (s1 ++ s2) t tn en
  = match f_var_attrs debug s1 t tn en with Ok (tn', t', en') => f_var_attrs debug s2 t' tn' en' | Err => Err | Panic => Panic end.
Proof.
  induction s1 as [|a s1 IH]; intros s2 t tn en; cbn [app f_var_attrs]; [reflexivity|].
  destruct a; try apply IH. destruct debug; [reflexivity|apply IH].
Qed.

(* source stems of a scope, in file order: (is_instantiation, path, line) *)
Definition src := (bool * name * N)%type.
Definition src_attr (s : src) : fattr := FaSrc (snd (fst s)) (snd s) (fst (fst s)).
Fixpoint first_src (inst : bool) (l : list src) : option (name * N) :=
  match l with
  | [] => None
  | (i, p, ln) :: r => if Bool.eqb i inst then Some (p, ln) else first_src inst r
  end.
Definition or_else {A} (a b : option A) : option A := match a with Some _ => a | None => b end.

Lemma scope_attrs_first debug (l : list src) : forall d i,
  f_scope_attrs debug (rev (map src_attr l)) d i = Ok (or_else (first_src false l) d, or_else (first_src true l) i).
Proof.
  induction l as [|[[inst p] ln] r IH]; intros d i; [reflexivity|].
  cbn [map rev]. rewrite f_scope_attrs_app, IH. unfold src_attr at 1. cbn [fst snd f_scope_attrs first_src].
  destruct inst; cbn [Bool.eqb or_else]; reflexivity.
Qed.

(* attributes of a variable, in file order *)
Inductive vattr := VaVhdl (tn : name) (vt dt : N) | VaEnum (id : nat).
Definition vattr_attr (a : vattr) : fattr := match a with VaVhdl tn vt dt => FaVhdl tn vt dt | VaEnum id => FaEnum id end.
Fixpoint first_type_name (l : list vattr) : option name :=
  match l with [] => None | VaVhdl tn _ _ :: _ => Some tn | _ :: r => first_type_name r end.
Fixpoint first_enum (l : list vattr) : option nat :=
  match l with [] => None | VaEnum id :: _ => Some id | _ :: r => first_enum r end.
(* the type infos are merged into the variable type from the last one given back to the first *)
Fixpoint merged_type (l : list vattr) (t : N) : N :=
  match l with
  | [] => t
  | VaVhdl _ _ dt :: r => merge_vhdl (merged_type r t) dt
  | _ :: r => merged_type r t
  end.

Lemma var_attrs_first debug (l : list vattr) : forall t tn en,
  f_var_attrs debug (rev (map vattr_attr l)) t tn en
  = Ok (or_else (first_type_name l) tn, merged_type l t, or_else (first_enum l) en).
Proof.
  induction l as [|a r IH]; intros t tn en; [reflexivity|].
  cbn [map rev]. rewrite f_var_attrs_app, IH. destruct a; cbn [vattr_attr f_var_attrs first_type_name first_enum merged_type or_else]; reflexivity.
Qed.

(* ---- streams *)
Lemma fst_run_app debug es1 : forall es2 st,
  fst_run debug st (es1 ++ es2)
  = match fst_run debug st es1 with
    | Ok (st1, c1) => match fst_run debug st1 es2 with Ok (st2, c2) => Ok (st2, c1 ++ c2) | Err => Err | Panic => Panic end
    | Err => Err | Panic => Panic
    end.
Proof.
  induction es1 as [|e r IH]; intros es2 st; cbn [app fst_run].
  - cbn [bind]. destruct (fst_run debug st es2) as [[st2 c2]| |]; reflexivity.
  - destruct (fst_step debug st e) as [[st1 c1]| |]; cbn [bind]; [|reflexivity..].
    rewrite IH. destruct (fst_run debug st1 r) as [[st2 c2]| |]; cbn [bind]; [|reflexivity..].
    destruct (fst_run debug st2 es2) as [[st3 c3]| |]; cbn [bind]; [|reflexivity..].
    rewrite app_assoc. reflexivity.
Qed.

(* ---- declarations *)
Inductive fdecl :=
| DPath (id : N) (nm : name)
| DEnumDef (nm : name) (handle : N) (mapping : list (name * name))
| DUp
| DComment
| DAttrEnd
| DScope (tpe : N) (nm comp : name) (stems : list (bool * N * N))      (* source stems in file order: is_inst, path id, line *)
| DVar (tpe dir : N) (nm : name) (length : N) (handle : nat) (attrs : list (name * N * N + N)).
                                                                        (* in file order: VHDL info | enum table handle *)

Definition stem_entry (s : bool * N * N) : fst_entry := FeSourceStem (fst (fst s)) (snd (fst s)) (snd s).
Definition vattr_entry (a : name * N * N + N) : fst_entry :=
  match a with inl (tn, vt, dt) => FeVhdlVarInfo tn vt dt | inr h => FeEnumTableRef h end.

Definition entries_of (d : fdecl) : list fst_entry :=
  match d with
  | DPath id nm => [FePathName id nm]
  | DEnumDef nm h m => [FeEnumTable nm h m]
  | DUp => [FeUpScope]
  | DComment => [FeComment]
  | DAttrEnd => [FeAttributeEnd]
  | DScope tpe nm comp stems => map stem_entry stems ++ [FeScope tpe nm comp]
  | DVar tpe dir nm len h attrs => map vattr_entry attrs ++ [FeVar tpe dir nm len h]
  end.

Fixpoint mapM_opt {A B} (f : A -> option B) (l : list A) : option (list B) :=
  match l with
  | [] => Some []
  | a :: r => match f a, mapM_opt f r with Some b, Some bs => Some (b :: bs) | _, _ => None end
  end.

(* what the declarations mean, given the path names and enum tables known so far (a state with an empty attribute
   stack); None where the loader panics (unknown path id or enum handle, a name parse_name rejects, an unknown type) *)
Definition resolve_stem (st : fstate) (s : bool * N * N) : option src :=
  match n_get (fs_paths st) (snd (fst s)) with Some p => Some (fst (fst s), p, snd s) | None => None end.
Definition resolve_vattr (st : fstate) (a : name * N * N + N) : option vattr :=
  match a with
  | inl (tn, vt, dt) => Some (VaVhdl tn vt dt)
  | inr h => match n_get (fs_enums st) h with Some id => Some (VaEnum id) | None => None end
  end.

Definition var_enc (tpe length : N) : sig_enc :=
  if existsb (N.eqb tpe) fst_string_var_types then EncString
  else if existsb (N.eqb tpe) fst_real_var_types then EncReal
  else EncBits (if length =? 0 then 1%nat else N.to_nat length).

Definition decl_calls (st : fstate) (d : fdecl) : option (fstate * list fcall) :=
  match d with
  | DPath id nm => Some (mk_fs (fs_attrs st) ((id, nm) :: fs_paths st) (fs_enums st) (fs_nenums st), [])
  | DEnumDef nm h m =>
      Some (mk_fs (fs_attrs st) (fs_paths st) ((h, fs_nenums st) :: fs_enums st) (S (fs_nenums st)), [FcEnum nm m])
  | DUp => Some (st, [FcPop])
  | DComment | DAttrEnd => Some (st, [])
  | DScope tpe nm comp stems =>
      match mapM_opt (resolve_stem st) stems, n_get fst_scope_tab tpe with
      | Some ss, Some t => Some (st, [FcScope nm (Some comp) t (first_src false ss) (first_src true ss)])
      | _, _ => None
      end
  | DVar tpe dir nm len h attrs =>
      match mapM_opt (resolve_vattr st) attrs, parse_name nm, n_get fst_var_tab tpe, n_get fst_dir_tab dir with
      | Some vs, Ok (var_name, index, scopes), Some vt, Some d =>
          Some (st, map (fun s => FcScope s None vhdl_array_code None None) scopes
                    ++ [FcVar var_name (merged_type vs vt) d (var_enc tpe len) index h (first_enum vs) (first_type_name vs)]
                    ++ map (fun _ => FcPop) scopes)
      | _, _, _, _ => None
      end
  end.

Fixpoint design_calls (st : fstate) (ds : list fdecl) : option (fstate * list fcall) :=
  match ds with
  | [] => Some (st, [])
  | d :: r =>
      match decl_calls st d with
      | Some (st1, c1) => match design_calls st1 r with Some (st2, c2) => Some (st2, c1 ++ c2) | None => None end
      | None => None
      end
  end.

Lemma with_attrs_twice st a b : with_attrs (with_attrs st a) b = with_attrs st b.
Proof. reflexivity. Qed.

(* pushing the stems of a scope *)
Lemma push_stems debug : forall stems st ss acc,
  mapM_opt (resolve_stem st) stems = Some ss ->
  fst_run debug (with_attrs st acc) (map stem_entry stems)
  = Ok (with_attrs st (rev (map src_attr ss) ++ acc), []).
Proof.
  induction stems as [|[[inst pid] ln] r IH]; intros st ss acc H; cbn [mapM_opt] in H.
  - injection H as <-. reflexivity.
  - unfold resolve_stem in H at 1. cbn [fst snd] in H.
    destruct (n_get (fs_paths st) pid) as [p|] eqn:Ep; [|discriminate].
    destruct (mapM_opt (resolve_stem st) r) as [ss'|] eqn:Er; [|discriminate]. injection H as <-.
    cbn [map fst_run]. unfold stem_entry at 1. cbn [fst snd fst_step with_attrs fs_paths fs_attrs fs_enums fs_nenums]. rewrite Ep. cbn [bind].
    rewrite with_attrs_twice, (IH st ss' _ Er). cbn [bind app map rev]. unfold src_attr at 2. cbn [fst snd].
    rewrite <- app_assoc. reflexivity.
Qed.

Lemma push_vattrs debug : forall attrs st vs acc,
  mapM_opt (resolve_vattr st) attrs = Some vs ->
  fst_run debug (with_attrs st acc) (map vattr_entry attrs)
  = Ok (with_attrs st (rev (map vattr_attr vs) ++ acc), []).
Proof.
  induction attrs as [|a r IH]; intros st vs acc H; cbn [mapM_opt] in H.
  - injection H as <-. reflexivity.
  - destruct (resolve_vattr st a) as [v|] eqn:Ea; [|discriminate].
    destruct (mapM_opt (resolve_vattr st) r) as [vs'|] eqn:Er; [|discriminate]. injection H as <-.
    cbn [map fst_run]. destruct a as [[[tn vt] dt]|h]; cbn [vattr_entry fst_step resolve_vattr] in Ea |- *.
    + injection Ea as <-. cbn [bind with_attrs fs_attrs fs_paths fs_enums fs_nenums].
      rewrite ?with_attrs_twice, (IH st vs' _ Er). cbn [bind app map rev vattr_attr]. rewrite <- app_assoc. reflexivity.
    + cbn [with_attrs fs_enums fs_attrs fs_paths fs_nenums]. destruct (n_get (fs_enums st) h) as [id|]; [|discriminate].
      injection Ea as <-. cbn [bind].
      rewrite ?with_attrs_twice, (IH st vs' _ Er). cbn [bind app map rev vattr_attr]. rewrite <- app_assoc. reflexivity.
Qed.

Lemma with_attrs_same st : fs_attrs st = [] -> with_attrs st [] = st.
Proof. destruct st as [a p e n]. cbn. intros ->. reflexivity. Qed.

Lemma decl_step debug st d st' cs :
  fs_attrs st = [] -> decl_calls st d = Some (st', cs) ->
  fst_run debug st (entries_of d) = Ok (st', cs) /\ fs_attrs st' = [].
Proof.
  intros Ha H. destruct d as [id nm|nm h m| | | |tpe nm comp stems|tpe dir nm len h attrs]; cbn [decl_calls] in H.
  - injection H as <- <-. cbn. rewrite Ha. split; reflexivity.
  - injection H as <- <-. cbn. rewrite Ha. split; reflexivity.
  - injection H as <- <-. cbn. split; [reflexivity|exact Ha].
  - injection H as <- <-. cbn. split; [reflexivity|exact Ha].
  - injection H as <- <-. cbn. split; [reflexivity|exact Ha].
  - destruct (mapM_opt (resolve_stem st) stems) as [ss|] eqn:Es; [|discriminate].
    destruct (n_get fst_scope_tab tpe) as [t|] eqn:Et; [|discriminate]. injection H as <- <-.
    cbn [entries_of]. rewrite fst_run_app. rewrite <- (with_attrs_same st Ha) at 1.
    rewrite (push_stems debug stems st ss [] Es). rewrite app_nil_r.
    cbn [fst_run fst_step with_attrs fs_attrs fs_paths fs_enums fs_nenums].
    rewrite scope_attrs_first. cbn [bind or_else]. rewrite Et. cbn [bind app].
    replace (or_else (first_src false ss) None) with (first_src false ss) by (destruct (first_src false ss); reflexivity).
    replace (or_else (first_src true ss) None) with (first_src true ss) by (destruct (first_src true ss); reflexivity).
    split; [|exact Ha]. f_equal. f_equal. destruct st as [a p e n]. cbn in Ha |- *. subst a. reflexivity.
  - destruct (mapM_opt (resolve_vattr st) attrs) as [vs|] eqn:Es; [|discriminate].
    destruct (parse_name nm) as [[[var_name index] scopes]| |] eqn:Ep; try discriminate.
    destruct (n_get fst_var_tab tpe) as [vt|] eqn:Et; [|discriminate].
    destruct (n_get fst_dir_tab dir) as [dd|] eqn:Ed; [|discriminate]. injection H as <- <-.
    cbn [entries_of]. rewrite fst_run_app. rewrite <- (with_attrs_same st Ha) at 1.
    rewrite (push_vattrs debug attrs st vs [] Es). rewrite app_nil_r.
    cbn [fst_run fst_step with_attrs fs_attrs fs_paths fs_enums fs_nenums].
    rewrite Ep, Et, Ed. rewrite var_attrs_first. cbn [bind or_else app].
    replace (or_else (first_type_name vs) None) with (first_type_name vs) by (destruct (first_type_name vs); reflexivity).
    replace (or_else (first_enum vs) None) with (first_enum vs) by (destruct (first_enum vs); reflexivity).
    split; [|exact Ha]. rewrite app_nil_r. unfold var_enc. f_equal. f_equal.
    destruct st as [a p e n]. cbn in Ha |- *. subst a. reflexivity.
Qed.

Theorem fst_design_calls debug : forall ds st st' cs,
  fs_attrs st = [] -> design_calls st ds = Some (st', cs) ->
  fst_run debug st (concat (map entries_of ds)) = Ok (st', cs) /\ fs_attrs st' = [].
Proof.
  induction ds as [|d r IH]; intros st st' cs Ha H; cbn [design_calls] in H.
  - injection H as <- <-. split; [reflexivity|exact Ha].
  - destruct (decl_calls st d) as [[st1 c1]|] eqn:Ed; [|discriminate].
    destruct (design_calls st1 r) as [[st2 c2]|] eqn:Er; [|discriminate]. injection H as <- <-.
    destruct (decl_step debug st d st1 c1 Ha Ed) as [H1 Ha1].
    destruct (IH st1 st2 c2 Ha1 Er) as [H2 Ha2].
    cbn [map concat]. rewrite fst_run_app, H1, H2. split; [reflexivity|exact Ha2].
Qed.

(* the whole hierarchy of a file *)
Corollary fst_read_hierarchy_design debug ds st' cs :
  design_calls fs_init ds = Some (st', cs) ->
  fst_read_hierarchy debug (concat (map entries_of ds)) = Ok cs.
Proof.
  intros H. unfold fst_read_hierarchy. destruct (fst_design_calls debug ds fs_init st' cs eq_refl H) as [-> _]. reflexivity.
Qed.

(* aliases: variables declared with the same handle refer to the same signal, with different handles to different ones *)
Lemma var_call_signal st tpe dir nm len h attrs st' cs :
  decl_calls st (DVar tpe dir nm len h attrs) = Some (st', cs) ->
  exists pre vn vt d enc idx en tn post,
    cs = pre ++ [FcVar vn vt d enc idx h en tn] ++ post /\
    Forall (fun c => match c with FcVar _ _ _ _ _ _ _ _ => False | _ => True end) (pre ++ post).
Proof.
  cbn [decl_calls]. destruct (mapM_opt (resolve_vattr st) attrs) as [vs|]; [|discriminate].
  destruct (parse_name nm) as [[[var_name index] scopes]| |]; try discriminate.
  destruct (n_get fst_var_tab tpe) as [vt|]; [|discriminate].
  destruct (n_get fst_dir_tab dir) as [dd|]; [|discriminate]. intros H. injection H as <- <-.
  do 9 eexists. split; [reflexivity|].
  apply Forall_app. split; apply Forall_forall; intros c Hc; apply in_map_iff in Hc; destruct Hc as (x & <- & _); exact I.
Qed.

(* ---- the timescale *)
Definition ts_ok (debug : bool) (k : nat) : bool :=
  let e := (Z.of_nat k - 15)%Z in
  match convert_timescale debug e with
  | Ok (f, u) => (f * 10 ^ (3 * u) =? 10 ^ N.of_nat k) && (u <=? 5) && (1 <=? f) && ((f <=? 100) || (u =? 5))
  | _ => false
  end.

Lemma ts_sweep : forallb (fun k => ts_ok true k && ts_ok false k) (seq 0 25) = true.
Proof. vm_compute. reflexivity. Qed.

(* exponents -15 .. 9: factor x unit = 10^exponent seconds (in femtoseconds: factor * 10^(3 * unit) = 10^(exponent + 15)),
   the factor is 1, 10 or 100 below one second *)
Theorem convert_timescale_spec debug (e : Z) :
  (-15 <= e <= 9)%Z ->
  exists f u, convert_timescale debug e = Ok (f, u) /\ f * 10 ^ (3 * u) = 10 ^ Z.to_N (e + 15) /\ u <= 5 /\
              1 <= f /\ (f <= 100 \/ u = 5).
Proof.
  intros He. pose proof ts_sweep as H. rewrite forallb_forall in H.
  specialize (H (Z.to_nat (e + 15))). assert (Hin : In (Z.to_nat (e + 15)) (seq 0 25)) by (apply in_seq; lia).
  specialize (H Hin). apply andb_true_iff in H. destruct H as [Ht Hf].
  assert (Hk : ts_ok debug (Z.to_nat (e + 15)) = true) by (destruct debug; assumption).
  unfold ts_ok in Hk. replace (Z.of_nat (Z.to_nat (e + 15)) - 15)%Z with e in Hk by lia.
  destruct (convert_timescale debug e) as [[f u]| |]; try discriminate.
  apply andb_true_iff in Hk. destruct Hk as [Hk H4]. apply andb_true_iff in Hk. destruct Hk as [Hk H3].
  apply andb_true_iff in Hk. destruct Hk as [H1 H2].
  exists f, u. split; [reflexivity|]. apply N.eqb_eq in H1. apply N.leb_le in H2. apply N.leb_le in H3.
  rewrite Z_N_nat in H1 || rewrite <- Z_nat_N in H1 || idtac.
  split; [|split; [exact H2|split; [exact H3|]]].
  - rewrite H1. f_equal. lia.
  - apply orb_true_iff in H4. destruct H4 as [H4|H4]; [left; apply N.leb_le; exact H4|right; apply N.eqb_eq; exact H4].
Qed.

Theorem convert_timescale_below debug (e : Z) : (e < -15)%Z -> convert_timescale debug e = Panic.
Proof.
  intros He. unfold convert_timescale.
  repeat match goal with |- context [(?a <=? e)%Z] => let H := fresh in destruct (Z.leb_spec a e) as [H|H]; [lia|] end.
  reflexivity.
Qed.

(* a non-vacuous instance: two path names, an enum table, a scope with a declaration and an instantiation stem, a
   variable with VHDL info and enum reference, an alias of it with array indices *)
Example fst_design_example :
  let ds := [DPath 1 [97]; DPath 2 [98]; DEnumDef [101] 7 [([48], [120]); ([49], [121])];
             DScope 0 [116; 111; 112] [99] [(false, 1, 10); (true, 2, 20); (false, 2, 30)];
             DVar 16 1 [115] 1 0%nat [inl ([108], 1, 6); inr 7];
             DVar 5 0 [109; 91; 51; 93; 91; 55; 58; 48; 93] 8 0%nat [];
             DUp] in
  match design_calls fs_init ds with
  | Some (_, cs) =>
      cs = [FcEnum [101] [([48], [120]); ([49], [121])];
            FcScope [116; 111; 112] (Some [99]) 0 (Some ([97], 10)) (Some ([98], 20));
            FcVar [115] 31 2 (EncBits 1) None 0%nat (Some 0%nat) (Some [108]);
            FcScope [109] None 23 None None;
            FcVar [91; 51; 93] 4 1 (EncBits 8) (Some (7%Z, 0%Z)) 0%nat None None;
            FcPop; FcPop]
      /\ fst_read_hierarchy true (concat (map entries_of ds)) = Ok cs
  | None => False
  end.
Proof. vm_compute. split; reflexivity. Qed.

(* the hand-written table of the VCD attribute path (Model/VcdHeader.v vhdl_merge, `$attrbegin misc 02`) is the table
   translated from merge_vhdl_data_and_var_type *)
Lemma vhdl_merge_sweep :
  forallb (fun k => match vhdl_merge (N.of_nat k), n_get fst_vhdl_merge_tab (N.of_nat k) with
                    | Some a, Some b => a =? b | None, None => true | _, _ => false end) (seq 0 256) = true.
Proof. vm_compute. reflexivity. Qed.

Lemma vhdl_merge_translated dt : dt < 256 -> vhdl_merge dt = n_get fst_vhdl_merge_tab dt.
Proof.
  intros H. pose proof vhdl_merge_sweep as S. rewrite forallb_forall in S.
  specialize (S (N.to_nat dt) ltac:(apply in_seq; lia)). rewrite N2Nat.id in S.
  destruct (vhdl_merge dt) as [a|], (n_get fst_vhdl_merge_tab dt) as [b|]; try discriminate; [|reflexivity].
  apply N.eqb_eq in S. now subst.
Qed.
