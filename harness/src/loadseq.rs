//! `loadseq <sigs> <hdrhex> <bodyhex> <ops>` / `loadseqf <path> <ops>`: a history of
//! load_signals (`L:ids`), load_signals_multi_threaded (`M:ids`), unload_signals (`U:ids`) calls on
//! a simple::Waveform, and direct SignalSource::load_signals calls (`S:ids`, reported immediately).
//! Prints, for every signal id that has a variable, whether it is loaded and its observation.
use crate::obs::*;
use crate::util::*;
use wellen::*;

fn ids_of(s: &str) -> Vec<SignalRef> {
    split(s, ',').iter().map(|x| SignalRef::from_index(x.parse::<usize>().unwrap()).unwrap()).collect()
}

fn digest(s: &str) -> String {
    use std::hash::{Hash, Hasher};
    let mut h = std::collections::hash_map::DefaultHasher::new();
    s.hash(&mut h);
    format!("{:016x}", h.finish())
}

fn run_ops(wave: &mut simple::Waveform, ops: &str, hash: bool) -> String {
    for op in split(ops, ';') {
        let (k, ids) = op.split_once(':').unwrap();
        let ids = ids_of(ids);
        match k {
            "L" => wave.load_signals(&ids),
            "M" => wave.load_signals_multi_threaded(&ids),
            "U" => wave.unload_signals(&ids),
            _ => panic!("bad op"),
        }
    }
    let n = wave.hierarchy().num_unique_signals();
    let mut out = vec![];
    for i in 0..n {
        let id = SignalRef::from_index(i).unwrap();
        if wave.hierarchy().get_signal_tpe(id).is_none() {
            continue;
        }
        match wave.get_signal(id) {
            None => out.push(format!("s{}=unloaded", i)),
            Some(s) => {
                let o = signal_obs(s);
                out.push(format!("s{}={}", i, if hash { digest(&o) } else { o }))
            }
        }
    }
    out.join(" ")
}

pub fn run(args: &[&str]) -> String {
    let mut file = bytes_of_hex(args[1]);
    file.extend_from_slice(&bytes_of_hex(args[2]));
    let mut wave = simple::read_from_reader(std::io::Cursor::new(file)).unwrap();
    run_ops(&mut wave, args[3], false)
}

pub fn run_file(args: &[&str]) -> String {
    let mut wave = simple::read(args[0]).unwrap();
    run_ops(&mut wave, args[1], true)
}

/// `loadsrc <path> <ids>`: SignalSource::load_signals directly: the ids of the returned entries, in order
pub fn run_source(args: &[&str]) -> String {
    let opts = LoadOptions::default();
    let header = viewers::read_header_from_file(args[0], &opts).unwrap();
    let body = viewers::read_body(header.body, &header.hierarchy, None).unwrap();
    let mut source = body.source;
    let ids = ids_of(args[1]);
    let mt = args.get(2).map(|s| *s == "mt").unwrap_or(false);
    let res = source.load_signals(&ids, &header.hierarchy, mt);
    let r: Vec<String> = res.iter().map(|(id, s)| format!("{}:{}", id.index(), digest(&signal_obs(s)))).collect();
    if r.is_empty() { "-".to_string() } else { r.join(",") }
}

/// `nsig <path>`: ids of the signals that have a variable
pub fn run_nsig(args: &[&str]) -> String {
    let opts = LoadOptions::default();
    let header = viewers::read_header_from_file(args[0], &opts).unwrap();
    let h = &header.hierarchy;
    let ids: Vec<String> = (0..h.num_unique_signals())
        .filter(|i| h.get_signal_tpe(SignalRef::from_index(*i).unwrap()).is_some())
        .map(|i| i.to_string())
        .collect();
    ids.join(",")
}
