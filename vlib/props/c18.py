"""C18 - the Python binding reports what the Rust API reports."""
import os
import shutil
from .. import core, gen
from . import vcdfam

PID = "C18"
LEVEL = "proof"
PYDIR = os.path.join(core.CACHE, "run", "pywellen")
PYTARGET = os.path.join(core.CACHE, "target-py")
RUNNER = "env PYWELLEN_DIR=%s python3 %s" % (PYDIR, os.path.join(core.VERIF, "pyharness", "run_py.py"))
RULE = ("generated VCD files (all value kinds, delta cycles = several changes of one variable in one time step, first timestamp "
        "> 0, repeated timestamps) are opened with the pywellen extension module built from /repo; for every variable the driver "
        "queries all_changes, value_at_idx(i) for i in 0..len+1, value_at_time(t) for every table entry, every midpoint, before "
        "the first and after the last entry - in ascending order, in a random order and jumping between late, too-early and middle times on the same Signal object -, and time_table[i] for -len-2 <= i < len+2. Oracle: computed from the abstract "
        "history (ints for pure 0/1 values, strings otherwise, floats for reals); the Gallina model of the binding's logic is "
        "run on the same files. Non-trivial: a variable has a delta cycle or a query time strictly between two table entries; "
        "distinct files.")
ASSUMPTIONS = ["PyO3 glue and num-bigint are exercised, not modelled", "files are loaded with multi_threaded=False (C03 covers multi-threading)"]
TRUSTED_BASE = ["Python driver pyharness/run_py.py", "Python oracle c18.expected"]


def prepare(tier):
    rc, out = core.sh("cargo build -p pywellen --offline", cwd=core.REPO, timeout=1500,
                      env=dict(core.ENV, CARGO_TARGET_DIR=PYTARGET, RUSTFLAGS=""))
    if rc != 0:
        raise core.InfraError("pywellen does not build:\n" + out[-3000:])
    os.makedirs(PYDIR, exist_ok=True)
    shutil.copy(os.path.join(PYTARGET, "debug", "libpywellen.so"), os.path.join(PYDIR, "pywellen.so"))


def pyshow(kind, val):
    if kind == "2":
        return "i%x" % int(val, 2)
    if kind in "49":
        return "s" + val.encode().hex()
    if kind == "R":
        return "f" + val
    return "s" + (val if val != "-" else "-")


def expected(sigs, steps, imp, idx, times):
    table, out = gen.expected_obs(sigs, steps, imp)
    n = len(table)
    tt = []
    for i in range(-n - 2, n + 2):
        tt.append("i%x" % table[i] if -n <= i < n else "~")
    parts = ["tt=" + ",".join(tt)]
    for si in sorted(out, key=lambda s: idx[s]):
        lst = out[si]
        ch = ",".join("%x:%s" % (table[i], pyshow(k, v)) for (i, k, v) in lst)
        at_idx = []
        for q in range(0, n + 2):
            le = [e for e in lst if e[0] <= q]
            at_idx.append(pyshow(le[-1][1], le[-1][2]) if le else "~")
        at_time = []
        for t in times:
            le = [e for e in lst if table[e[0]] <= t]
            at_time.append(pyshow(le[-1][1], le[-1][2]) if le else "~")
        parts.append("v%d=ch[%s]idx[%s]time[%s]" % (idx[si], ch, ",".join(at_idx), ",".join(at_time)))
    return " ".join(parts)


def run(res, rng, tier, model_ok, replay=None):
    cases = []
    if replay:
        line = replay.get("case") or replay["broken_correspondence"]["case"]
        cases.append({"line": line})
    else:
        n = 250 if tier == "quick" else 4000
        for _ in range(n):
            sigs, steps, imp = gen.gen_history(rng, max_steps=8, time_profile="increasing" if rng.random() < 0.5 else "mixed")
            idents, kind, idx, nuniq = gen.assign_ids(rng, len(sigs), "dense")
            hdr = gen.header_text(rng, sigs, idents, plain=True)
            body = gen.body_text(rng, sigs, idents, steps, imp, "plain")
            table, out = gen.expected_obs(sigs, steps, imp)
            times = set([0])
            for a, b in zip(table, table[1:]):
                times.update([a, b, (a + b) // 2, a + 1])
            if table:
                times.update([table[0], max(0, table[0] - 1), table[-1], table[-1] + 1, table[-1] + 1000])
            times = sorted(times)
            # the same Signal object is queried in ascending order, then in a random order, then with jumps between late
            # times, times before the first entry and times in between: an answer must not depend on the queries before it
            shuffled = list(times)
            rng.shuffle(shuffled)
            jumps = []
            if table:
                for _ in range(6):
                    jumps += [rng.choice(table[len(table) // 2:]) + rng.choice([0, 1]), max(0, table[0] - 1),
                              rng.choice(table[:len(table) // 2 + 1]) + rng.choice([0, 1])]
            times = times + shuffled + jumps
            exp = expected(sigs, steps, imp, idx, times)
            delta = any(len(set(e[0] for e in lst)) < len(lst) for lst in out.values())
            between = any(t not in table and table and table[0] < t < table[-1] for t in times)
            line = "py %s %s %s %s" % (gen.sigs_arg(sigs, kind, idx, nuniq, idents), hdr.hex(), body.hex(),
                                       ",".join("%x" % t for t in times))
            cases.append({"line": line, "expect": exp, "key": hash(line) if (delta or between) else None,
                          "klass": "delta" if delta else "plain"})
    lines = [c["line"] for c in cases]
    impl = core.run_cases(RUNNER, lines, "c18i", timeout=900)
    # the harness names variables v<k> (header_text) - same as the model's v<signal index> in the dense regime
    model = core.run_cases(core.MODEL_RUN, lines, "c18m") if model_ok else [None] * len(lines)
    for c, io, mo in zip(cases, impl, model):
        res.evaluations += 1
        if c.get("key") is not None:
            res.nontrivial.add(c["key"])
        res.distribution[c.get("klass", "x")] = res.distribution.get(c.get("klass", "x"), 0) + 1
        if c.get("expect") is not None and io != c["expect"]:
            res.violations.append((c["line"], io, c["expect"], "the Python binding differs from the meaning of the file"))
        if mo is not None and mo != io:
            res.mismatches.append((c["line"], io, mo))
    res.samples = [c["line"][:300] for c in cases[:2]]


def check_known(entry):
    return False
