(* The GHW signal sections (ghw/signals.rs read_signals: snapshot, cycle, directory, tailer) read into the store: whatever
   the bytes are, when the reader succeeds the encoder it leaves is the result of a history of store operations -
   time stamps, raw changes that carry the packed form of valid symbols, doubles of 8 bytes - i.e. exactly the
   histories the storage theorems (Proofs/EncoderProofs.v, Proofs/RealStringEnc.v) speak about (property C11). *)
From Coq Require Import Lia ZifyBool ZifyNat ZifyN.
From WV Require Import Model.Base Generated.Consts Model.Bits Model.Leb128 Model.WaveMem Model.Ghw
  Spec.TimeSpec Proofs.TimeTableProofs Proofs.BitsProofs Proofs.SliceProofs Proofs.StoreProofs Proofs.RawProofs Proofs.VecProofs.
From Coq Require Import Sorted.
Ltac Zify.zify_post_hook ::= Z.div_mod_to_equations.
Open Scope N_scope.
Arguments N.add : simpl never. Arguments N.mul : simpl never. Arguments N.div : simpl never.
Arguments N.modulo : simpl never. Arguments N.pow : simpl never. Arguments N.lor : simpl never.
Arguments N.sub : simpl never.

(* ------------------------------------------------------------------ operations the reader may issue *)

Definition ghw_op_ok (op : enc_op) : Prop :=
  match op with
  | OpTime _ => True
  | OpRaw _ data st => exists syms, data = write_n_state_loop st syms 0 None /\ small_syms st syms /\ Forall (fun x => x <= 8) syms
  | OpReal _ le => length le = 8%nat
  | OpVcd _ _ => False
  end.

Lemma packed_raw_ok op : packed_raw op -> ghw_op_ok op.
Proof. destruct op; cbn; auto; contradiction. Qed.

Lemma run_ops_app parse_f64 lz cap : forall a b e e1 e2,
  run_ops parse_f64 lz cap e a = Ok e1 -> run_ops parse_f64 lz cap e1 b = Ok e2 -> run_ops parse_f64 lz cap e (a ++ b) = Ok e2.
Proof.
  induction a as [|op a IH]; intros b e e1 e2 Ha Hb; cbn [app WaveMem.run_ops] in *.
  - inversion Ha; subst. exact Hb.
  - destruct (run_op parse_f64 lz cap e op) as [e'| |]; try discriminate. cbn [bind] in *. eapply IH; eauto.
Qed.

(* ------------------------------------------------------------------ whole bytes are packed two-state data *)

Lemma gdigit_small (b : N) (i : nat) : gdigit 1 b i < 2 ^ 1.
Proof. unfold gdigit. apply N.mod_lt. discriminate. Qed.

Lemma bytes_packed_two (bs : list N) : Forall (fun b => b < 256) bs ->
  let syms := concat (map (gdigits 1 8) bs) in
  write_n_state_loop Two syms 0 None = bs /\ small_syms Two syms /\ Forall (fun x => x <= 8) syms.
Proof.
  intros Hb. cbn zeta. split; [|split].
  - rewrite wns_is_loop.
    assert (Hcs : chunks_ok (per_byte Two) (map (gdigits 1 8) bs)).
    { apply Forall_forall. intros c Hc. apply in_map_iff in Hc as (b & <- & _). unfold gdigits. now rewrite map_length, rev_length, seq_length. }
    pose proof (wns_decomposed (sbits Two) (per_byte Two) (per_byte_pos Two) (per_byte_sbits Two) [] _ ltac:(cbn; lia) Hcs) as H.
    cbn [app] in H. rewrite H, map_map. clear H Hcs. induction Hb as [|b bs Hlt _ IH]; [reflexivity|]. cbn [map]. f_equal; [|exact IH].
    apply (byte_recon Two); exact Hlt.
  - unfold small_syms. apply Forall_forall. intros x Hx. apply in_concat in Hx as (l & Hl & Hx). apply in_map_iff in Hl as (b & <- & _).
    unfold gdigits in Hx. apply in_map_iff in Hx as (i & <- & _). apply gdigit_small.
  - apply Forall_forall. intros x Hx. apply in_concat in Hx as (l & Hl & Hx). apply in_map_iff in Hl as (b & <- & _).
    unfold gdigits in Hx. apply in_map_iff in Hx as (i & <- & _). pose proof (gdigit_small b i). change (2 ^ 1) with 2 in H. lia.
Qed.

Lemma be_bytes_small : forall n v, Forall (fun b => b < 256) (be_bytes n v).
Proof.
  induction n as [|n IH]; intros v; cbn [be_bytes]; [constructor|]. apply Forall_app. split; [apply IH|].
  constructor; [|constructor]. apply N.mod_lt. discriminate.
Qed.

Lemma lut_le8 g v : nth_error std_logic_lut (N.to_nat g) = Some v -> v <= 8.
Proof.
  unfold std_logic_lut, ghw_std_logic_lut. intros H.
  set (k := N.to_nat g) in *. clearbody k.
  do 9 (destruct k as [|k]; [cbn in H; inversion H; lia|]). destruct k; discriminate.
Qed.

(* ------------------------------------------------------------------ one signal value *)

Definition vstates (vb : vec_buffer) : list states := map ve_states (vb_vecs vb).

(* the decode information of the hierarchy reader agrees with the vector buffer: a vector element of std_logic /
   bit type belongs to a nine-state / two-state vector *)
Definition sigs_ok (sigs : list ghw_sig) (sts : list states) : Prop :=
  forall idx info, nth_error sigs idx = Some info ->
    match gs_tpe info with
    | GNineVec => exists vid, gs_vec info = Some vid /\ nth_error sts vid = Some Nine
    | GTwoVec => exists vid, gs_vec info = Some vid /\ nth_error sts vid = Some Two
    | _ => True
    end.

Lemma map_update_same {A B} (f : A -> B) (l : list A) : forall i x y, nth_error l i = Some y -> f x = f y ->
  map f (list_update l i x) = map f l.
Proof. induction l as [|z l IH]; intros [|i] x y H E; cbn in *; try discriminate; [inversion H; subst; now rewrite E|f_equal; eauto]. Qed.

Lemma vec_update_states vb e vec_id si value sref st vb' e' :
  vec_update vb e vec_id si value sref st = Ok (vb', e') -> vstates vb' = vstates vb.
Proof.
  unfold vec_update. intros H.
  destruct (nth_error (vb_vecs vb) vec_id) as [v|] eqn:Ev; [|discriminate]. cbn [of_option bind] in H.
  destruct (bit_of v si) as [bit| |]; try discriminate. cbn [bind] in H.
  destruct (nth_error (ve_bit_change v) bit) as [ch|]; [|discriminate]. cbn [of_option bind] in H.
  destruct (ve_get_value v bit) as [old| |]; try discriminate. cbn [bind] in H.
  assert (G : forall v1 e1, ve_states v1 = ve_states v ->
     (do data <- ve_set_value v1 bit value;
      let was_listed := ve_signal_change v1 in
      let v2 := mk_ve (ve_bits v1) (ve_states v1) (ve_ref v1) (ve_max_index v1) data (list_update (ve_bit_change v1) bit true) true in
      let cl := if was_listed then vb_change_list vb else vb_change_list vb ++ [vec_id] in
      do '(v3, e3) <- (if full_signal_has_changed v2 then do e' <- raw e1 sref (ve_data v2) st; Ok (clear_changes v2, e') else Ok (v2, e1));
      Ok (mk_vb (list_update (vb_vecs vb) vec_id v3) cl, e3)) = Ok (vb', e') -> vstates vb' = vstates vb).
  { intros v1 e1 Hst G. destruct (ve_set_value v1 bit value) as [data| |]; try discriminate. cbn [bind] in G. cbn zeta in G.
    match type of G with context [full_signal_has_changed ?vv] => destruct (full_signal_has_changed vv) end.
    - destruct (raw e1 sref _ st) as [e2| |]; try discriminate. cbn [bind] in G. inversion G; subst. unfold vstates. cbn [vb_vecs].
      apply (map_update_same ve_states _ vec_id _ v Ev). cbn [clear_changes ve_states]. exact Hst.
    - inversion G; subst. unfold vstates. cbn [vb_vecs]. apply (map_update_same ve_states _ vec_id _ v Ev). cbn [ve_states]. exact Hst. }
  destruct (ch && negb (old =? value)).
  - destruct (raw e sref (ve_data v) st) as [e1| |]; try discriminate. cbn [bind] in H. exact (G (clear_changes v) e1 eq_refl H).
  - cbn [bind] in H. exact (G v e eq_refl H).
Qed.

Definition bytes_ok (l : list byte) : Prop := Forall (fun b => b < 256) l.

Lemma bytes_ok_skipn n l : bytes_ok l -> bytes_ok (skipn n l).
Proof. unfold bytes_ok. intros H. apply Forall_forall. intros x Hx. rewrite Forall_forall in H. apply H. eapply in_skipn; eauto. Qed.
Lemma bytes_ok_firstn n l : bytes_ok l -> bytes_ok (firstn n l).
Proof. unfold bytes_ok. intros H. apply Forall_forall. intros x Hx. rewrite Forall_forall in H. apply H. eapply in_firstn; eauto. Qed.

Section Reader.
Variable parse_f64 : list byte -> option (list byte).
Variable lz_compress : list byte -> list byte.
Variable cap : N.
Notation run_ops := (run_ops parse_f64 lz_compress cap).

(* what a successful step of the reader guarantees *)
Definition step_ok (e : encoder) (sts : list states) (x : option (vec_buffer * encoder * list byte)) : Prop :=
  match x with
  | None => True
  | Some (vb', e', rest) =>
    exists ops S', run_ops e ops = Ok e' /\ Forall ghw_op_ok ops /\ vbinv vb' S' /\ vstates vb' = sts /\ bytes_ok rest
  end.

Lemma sleb_rest : forall data shift result z r, bytes_ok data -> sleb_read_go data shift result = Some (z, r) -> bytes_ok r.
Proof.
  induction data as [|b d IH]; intros shift result z r Hb H; cbn [sleb_read_go] in H; [discriminate|].
  apply Forall_cons_iff in Hb as [_ Hd].
  destruct ((shift =? 63) && negb (b =? 0) && negb (b =? 127)); [discriminate|].
  destruct (b <? 128); [inversion H; subst; exact Hd|]. eapply IH; eauto.
Qed.

Lemma read_signal_value_ops sigs idx vb e input S x : vbinv vb S -> sigs_ok sigs (vstates vb) -> bytes_ok input ->
  read_signal_value sigs idx vb e input = Ok x -> step_ok e (vstates vb) x.
Proof.
  intros Hinv Hsig Hb H. unfold read_signal_value in H.
  destruct (nth_error sigs idx) as [info|] eqn:Ei; [|discriminate]. cbn [of_option bind] in H.
  specialize (Hsig idx info Ei).
  destruct (gs_tpe info) eqn:Et.
  - (* std_logic scalar *)
    destruct input as [|g r]; [inversion H; exact I|]. apply Forall_cons_iff in Hb as [_ Hr].
    destruct (nth_error std_logic_lut (N.to_nat g)) as [v|] eqn:El; [|discriminate]. cbn [of_option bind] in H.
    destruct (raw e (gs_ref info) [v] Nine) as [e'| |] eqn:Er; try discriminate. cbn [bind] in H. inversion H; subst x.
    exists [OpRaw (gs_ref info) [v] Nine], S. split; [cbn [WaveMem.run_ops WaveMem.run_op]; unfold raw in Er; now rewrite Er|].
    split; [|split; [exact Hinv|split; [reflexivity|exact Hr]]].
    constructor; [|constructor]. exists [v]. pose proof (lut_le8 g v El). split; [now rewrite wns_single'|].
    split; constructor; try constructor; [change (2 ^ sbits Nine) with 16; lia|lia].
  - (* element of a std_logic vector *)
    destruct input as [|g r]; [inversion H; exact I|]. apply Forall_cons_iff in Hb as [_ Hr].
    destruct (nth_error std_logic_lut (N.to_nat g)) as [v|] eqn:El; [|discriminate]. cbn [of_option bind] in H.
    destruct Hsig as (vid & Hv & Hst). rewrite Hv in H. cbn [of_option bind] in H.
    destruct (vec_update vb e vid idx v (gs_ref info) Nine) as [[vb' e']| |] eqn:Eu; try discriminate. cbn [bind] in H. inversion H; subst x.
    unfold vstates in Hst. rewrite nth_error_map in Hst. destruct (nth_error (vb_vecs vb) vid) as [ve|] eqn:Eve; [|discriminate].
    cbn [option_map] in Hst. inversion Hst as [Hs9]. pose proof (lut_le8 g v El) as H8.
    destruct (vec_update_spec parse_f64 lz_compress cap vb e vid idx v (gs_ref info) Nine vb' e' S ve Hinv Eve (eq_sym Hs9)
                ltac:(rewrite Hs9; change (2 ^ sbits Nine) with 16; lia) H8 Eu) as (ops & syms & bit & _ & _ & _ & Hrun & Hp & _ & Hinv').
    exists ops. eexists. split; [exact Hrun|]. split; [eapply Forall_impl; [apply packed_raw_ok|exact Hp]|].
    split; [exact Hinv'|]. split; [apply (vec_update_states _ _ _ _ _ _ _ _ _ Eu)|exact Hr].
  - (* bit scalar *)
    destruct input as [|g r]; [inversion H; exact I|]. apply Forall_cons_iff in Hb as [_ Hr].
    destruct (N.ltb_spec 1 g) as [|Hg]; [discriminate|].
    destruct (raw e (gs_ref info) [g] Two) as [e'| |] eqn:Er; try discriminate. cbn [bind] in H. inversion H; subst x.
    exists [OpRaw (gs_ref info) [g] Two], S. split; [cbn [WaveMem.run_ops WaveMem.run_op]; unfold raw in Er; now rewrite Er|].
    split; [|split; [exact Hinv|split; [reflexivity|exact Hr]]].
    constructor; [|constructor]. exists [g]. split; [now rewrite wns_single'|].
    split; constructor; try constructor; [change (2 ^ sbits Two) with 2; lia|lia].
  - (* element of a bit vector *)
    destruct input as [|g r]; [inversion H; exact I|]. apply Forall_cons_iff in Hb as [_ Hr].
    destruct (N.ltb_spec 1 g) as [|Hg]; [discriminate|]. cbn [bind] in H.
    destruct Hsig as (vid & Hv & Hst). rewrite Hv in H. cbn [of_option bind] in H.
    destruct (vec_update vb e vid idx g (gs_ref info) Two) as [[vb' e']| |] eqn:Eu; try discriminate. cbn [bind] in H. inversion H; subst x.
    unfold vstates in Hst. rewrite nth_error_map in Hst. destruct (nth_error (vb_vecs vb) vid) as [ve|] eqn:Eve; [|discriminate].
    cbn [option_map] in Hst. inversion Hst as [Hs2].
    destruct (vec_update_spec parse_f64 lz_compress cap vb e vid idx g (gs_ref info) Two vb' e' S ve Hinv Eve (eq_sym Hs2)
                ltac:(rewrite Hs2; change (2 ^ sbits Two) with 2; lia) ltac:(lia) Eu) as (ops & syms & bit & _ & _ & _ & Hrun & Hp & _ & Hinv').
    exists ops. eexists. split; [exact Hrun|]. split; [eapply Forall_impl; [apply packed_raw_ok|exact Hp]|].
    split; [exact Hinv'|]. split; [apply (vec_update_states _ _ _ _ _ _ _ _ _ Eu)|exact Hr].
  - (* 8-bit enumeration / character *)
    destruct input as [|g r]; [inversion H; exact I|]. apply Forall_cons_iff in Hb as [Hg Hr].
    destruct (raw e (gs_ref info) [g] Two) as [e'| |] eqn:Er; try discriminate. cbn [bind] in H. inversion H; subst x.
    exists [OpRaw (gs_ref info) [g] Two], S. split; [cbn [WaveMem.run_ops WaveMem.run_op]; unfold raw in Er; now rewrite Er|].
    split; [|split; [exact Hinv|split; [reflexivity|exact Hr]]].
    constructor; [|constructor]. destruct (bytes_packed_two [g] ltac:(constructor; [exact Hg|constructor])) as (H1 & H2 & H3).
    eexists. split; [symmetry; exact H1|split; assumption].
  - (* integer *)
    destruct (sleb_read input) as [[z r]|] eqn:Es; [|inversion H; exact I].
    destruct (raw e (gs_ref info) (be_bytes 8 (u64_of_z z)) Two) as [e'| |] eqn:Er; try discriminate. cbn [bind] in H. inversion H; subst x.
    exists [OpRaw (gs_ref info) (be_bytes 8 (u64_of_z z)) Two], S.
    split; [cbn [WaveMem.run_ops WaveMem.run_op]; unfold raw in Er; now rewrite Er|].
    split; [|split; [exact Hinv|split; [reflexivity|exact (sleb_rest _ _ _ _ _ Hb Es)]]].
    constructor; [|constructor]. destruct (bytes_packed_two _ (be_bytes_small 8 (u64_of_z z))) as (H1 & H2 & H3).
    eexists. split; [symmetry; exact H1|split; assumption].
  - (* double *)
    destruct (Nat.ltb_spec (length input) 8) as [|Hl]; [inversion H; exact I|].
    destruct (real_change e (gs_ref info) (firstn 8 input)) as [e'| |] eqn:Er; try discriminate. cbn [bind] in H. inversion H; subst x.
    exists [OpReal (gs_ref info) (firstn 8 input)], S. split; [cbn [WaveMem.run_ops WaveMem.run_op]; now rewrite Er|].
    split; [|split; [exact Hinv|split; [reflexivity|exact (bytes_ok_skipn 8 input Hb)]]].
    constructor; [|constructor]. cbn [ghw_op_ok]. rewrite firstn_length. lia.
Qed.

Lemma leb_rest : forall data shift result v r, bytes_ok data -> leb_read_go data shift result = Some (v, r) -> bytes_ok r.
Proof.
  induction data as [|b d IH]; intros shift result v r Hb H; cbn [leb_read_go] in H; [discriminate|].
  apply Forall_cons_iff in Hb as [_ Hd].
  destruct ((shift =? 63) && negb (b =? 0) && negb (b =? 1)); [discriminate|].
  destruct (b <? 128); [inversion H; subst; exact Hd|]. eapply IH; eauto.
Qed.

(* two successful steps compose *)
Lemma step_trans e sts vb1 e1 r1 x : step_ok e sts (Some (vb1, e1, r1)) -> step_ok e1 sts x -> step_ok e sts x.
Proof.
  intros (ops1 & S1 & Hr1 & Ho1 & _) H2. destruct x as [[[vb2 e2] r2]|]; [|exact I].
  destruct H2 as (ops2 & S2 & Hr2 & Ho2 & Hrest). exists (ops1 ++ ops2), S2.
  split; [eapply run_ops_app; eauto|]. split; [apply Forall_app; now split|exact Hrest].
Qed.

Lemma step_refl e vb S input : vbinv vb S -> bytes_ok input -> step_ok e (vstates vb) (Some (vb, e, input)).
Proof. intros Hi Hb. exists [], S. repeat split; auto. Qed.

(* the invariants a successful step hands to the next one *)
Lemma step_next e sts vb1 e1 r1 : step_ok e sts (Some (vb1, e1, r1)) -> exists S1, vbinv vb1 S1 /\ vstates vb1 = sts /\ bytes_ok r1.
Proof. intros (ops & S1 & _ & _ & Hi & Hs & Hb). eauto. Qed.

(* all signals of a snapshot *)
Lemma snapshot_ops sigs : forall n idx vb e input S x, vbinv vb S -> sigs_ok sigs (vstates vb) -> bytes_ok input ->
  snapshot_signals sigs n idx vb e input = Ok x -> step_ok e (vstates vb) x.
Proof.
  induction n as [|n IH]; intros idx vb e input S x Hinv Hsig Hb H; cbn [snapshot_signals] in H.
  - inversion H; subst. now apply (step_refl e vb S).
  - destruct (read_signal_value sigs idx vb e input) as [y| |] eqn:Er; try discriminate. cbn [bind] in H.
    pose proof (read_signal_value_ops sigs idx vb e input S y Hinv Hsig Hb Er) as Hy.
    destruct y as [[[vb1 e1] r1]|]; [|inversion H; exact I].
    destruct (step_next _ _ _ _ _ Hy) as (S1 & Hi1 & Hs1 & Hb1).
    eapply step_trans; [exact Hy|]. rewrite <- Hs1. apply (IH (Datatypes.S idx) vb1 e1 r1 S1 x Hi1); [now rewrite Hs1|exact Hb1|exact H].
Qed.

(* the signals of one cycle *)
Lemma cycle_signals_ops sigs : forall fuel pos vb e input S x, vbinv vb S -> sigs_ok sigs (vstates vb) -> bytes_ok input ->
  cycle_signals fuel sigs pos vb e input = Ok x -> step_ok e (vstates vb) x.
Proof.
  induction fuel as [|f IH]; intros pos vb e input S x Hinv Hsig Hb H; cbn [cycle_signals] in H; [inversion H; exact I|].
  destruct (leb_read input) as [[delta r]|] eqn:El; [|inversion H; exact I].
  pose proof (leb_rest _ _ _ _ _ Hb El) as Hr.
  destruct (delta =? 0); [inversion H; subst; now apply (step_refl e vb S)|].
  destruct (18446744073709551616 <=? pos + delta); [discriminate|].
  destruct ((pos + delta) mod 4294967296 =? 0); [discriminate|].
  destruct (N.of_nat (length sigs) <=? (pos + delta) mod 4294967296 - 1); [discriminate|].
  destruct (read_signal_value sigs _ vb e r) as [y| |] eqn:Er; try discriminate. cbn [bind] in H.
  pose proof (read_signal_value_ops sigs _ vb e r S y Hinv Hsig Hr Er) as Hy.
  destruct y as [[[vb1 e1] r1]|]; [|inversion H; exact I].
  destruct (step_next _ _ _ _ _ Hy) as (S1 & Hi1 & Hs1 & Hb1).
  eapply step_trans; [exact Hy|]. rewrite <- Hs1. apply (IH (pos + delta) vb1 e1 r1 S1 x Hi1); [now rewrite Hs1|exact Hb1|exact H].
Qed.

Lemma process_changed_states : forall cl vecs e vecs' e', process_changed vecs cl e = Ok (vecs', e') ->
  map ve_states vecs' = map ve_states vecs.
Proof.
  induction cl as [|id cl IH]; intros vecs e vecs' e' H; cbn [process_changed] in H; [now inversion H|].
  destruct (nth_error vecs id) as [v|] eqn:Ev; [|discriminate]. cbn [of_option bind] in H.
  destruct (ve_signal_change v).
  - destruct (raw e (ve_ref v) (ve_data v) (ve_states v)) as [e1| |]; try discriminate. cbn [bind] in H.
    rewrite (IH _ _ _ _ H). apply (map_update_same ve_states vecs id _ v Ev). reflexivity.
  - exact (IH _ _ _ _ H).
Qed.

Lemma finish_time_step_ops vb e vb' e' S r : vbinv vb S -> bytes_ok r -> finish_time_step vb e = Ok (vb', e') ->
  step_ok e (vstates vb) (Some (vb', e', r)).
Proof.
  intros Hinv Hb H. destruct (finish_time_step_spec parse_f64 lz_compress cap vb e vb' e' S Hinv H) as (ops & Hr & Hp & Hi).
  exists ops, S. split; [exact Hr|]. split; [eapply Forall_impl; [apply packed_raw_ok|exact Hp]|]. split; [exact Hi|]. split; [|exact Hb].
  unfold finish_time_step in H. destruct (process_changed (vb_vecs vb) (vb_change_list vb) e) as [[vecs e1]| |] eqn:E; try discriminate.
  cbn [bind] in H. inversion H; subst. unfold vstates. cbn [vb_vecs]. apply (process_changed_states _ _ _ _ _ E).
Qed.

Lemma time_step_ops e t e1 vb S r : vbinv vb S -> bytes_ok r -> time_change lz_compress cap e t = Ok e1 ->
  step_ok e (vstates vb) (Some (vb, e1, r)).
Proof.
  intros Hinv Hb H. exists [OpTime t], S. split; [cbn [WaveMem.run_ops WaveMem.run_op]; now rewrite H|].
  split; [constructor; [exact I|constructor]|]. split; [exact Hinv|]. split; [reflexivity|exact Hb].
Qed.

(* a cycle section: time steps with their signal values *)
Lemma cycle_loop_ops sigs : forall fuel time vb e input S x, vbinv vb S -> sigs_ok sigs (vstates vb) -> bytes_ok input ->
  cycle_loop lz_compress cap fuel sigs time vb e input = Ok x -> step_ok e (vstates vb) x.
Proof.
  induction fuel as [|f IH]; intros time vb e input S x Hinv Hsig Hb H; cbn [cycle_loop] in H; [inversion H; exact I|].
  destruct (time_change lz_compress cap e time) as [e1| |] eqn:Et; try discriminate. cbn [bind] in H.
  pose proof (time_step_ops e time e1 vb S input Hinv Hb Et) as H1.
  destruct (cycle_signals (Datatypes.S (length input)) sigs 0 vb e1 input) as [y| |] eqn:Ec; try discriminate. cbn [bind] in H.
  pose proof (cycle_signals_ops sigs _ 0 vb e1 input S y Hinv Hsig Hb Ec) as Hy.
  destruct y as [[[vb2 e2] r]|]; [|inversion H; exact I].
  destruct (step_next _ _ _ _ _ Hy) as (S2 & Hi2 & Hs2 & Hb2).
  destruct (finish_time_step vb2 e2) as [[vb3 e3]| |] eqn:Ef; try discriminate. cbn [bind] in H.
  destruct (sleb_read r) as [[dt r2]|] eqn:Es; [|inversion H; exact I].
  pose proof (sleb_rest _ _ _ _ _ Hb2 Es) as Hb3.
  pose proof (finish_time_step_ops vb2 e2 vb3 e3 S2 r2 Hi2 Hb3 Ef) as H3. rewrite Hs2 in H3.
  assert (Hall : step_ok e (vstates vb) (Some (vb3, e3, r2))).
  { eapply step_trans; [exact H1|]. eapply step_trans; [exact Hy|exact H3]. }
  destruct (dt <? 0)%Z; [inversion H; subst; exact Hall|].
  destruct (step_next _ _ _ _ _ Hall) as (S3 & Hi3 & Hs3 & _).
  eapply step_trans; [exact Hall|]. rewrite <- Hs3. eapply (IH _ vb3 e3 r2 S3 x Hi3); [now rewrite Hs3|exact Hb3|exact H].
Qed.

(* Property C11, structure of the reader: whatever the section bytes are, when read_signals' section loop succeeds the
   encoder it returns is the result of running a history of time stamps, raw changes carrying the packed form of
   valid symbols and doubles of 8 bytes on the encoder it started with *)
Theorem sections_ops big_endian sigs : forall fuel vb e input S e', vbinv vb S -> sigs_ok sigs (vstates vb) -> bytes_ok input ->
  sections lz_compress cap fuel big_endian sigs vb e input = Ok (Some e') ->
  exists ops, run_ops e ops = Ok e' /\ Forall ghw_op_ok ops.
Proof.
  induction fuel as [|f IH]; intros vb e input S e' Hinv Hsig Hb H; cbn [sections] in H; [discriminate|].
  destruct (length input <? 4)%nat; [discriminate|].
  destruct (mark_eq (firstn 4 input) SNP).
  - set (r := skipn 4 input) in *. assert (Hr : bytes_ok r) by (apply bytes_ok_skipn; exact Hb).
    destruct (length r <? 12)%nat; [discriminate|]. destruct (negb (list_eqb (firstn 4 r) [0; 0; 0; 0])); [discriminate|].
    destruct (time_change lz_compress cap e _) as [e1| |] eqn:Et; try discriminate. cbn [bind] in H.
    pose proof (time_step_ops e _ e1 vb S (skipn 12 r) Hinv (bytes_ok_skipn 12 r Hr) Et) as H1.
    destruct (snapshot_signals sigs (length sigs) 0 vb e1 (skipn 12 r)) as [y| |] eqn:Ess; try discriminate. cbn [bind] in H.
    pose proof (snapshot_ops sigs _ 0 vb e1 _ S y Hinv Hsig (bytes_ok_skipn 12 r Hr) Ess) as Hy.
    destruct y as [[[vb2 e2] r2]|]; [|discriminate].
    destruct (step_next _ _ _ _ _ Hy) as (S2 & Hi2 & Hs2 & Hb2).
    destruct (finish_time_step vb2 e2) as [[vb3 e3]| |] eqn:Ef; try discriminate. cbn [bind] in H.
    destruct (mark_eq (firstn 4 r2) ESN); [|discriminate].
    pose proof (finish_time_step_ops vb2 e2 vb3 e3 S2 (skipn 4 r2) Hi2 (bytes_ok_skipn 4 r2 Hb2) Ef) as H3. rewrite Hs2 in H3.
    assert (Hall : step_ok e (vstates vb) (Some (vb3, e3, skipn 4 r2))).
    { eapply step_trans; [exact H1|]. eapply step_trans; [exact Hy|exact H3]. }
    destruct Hall as (ops1 & S3 & Hr1 & Ho1 & Hi3 & Hs3 & Hb3).
    destruct (IH vb3 e3 (skipn 4 r2) S3 e' Hi3 ltac:(now rewrite Hs3) Hb3 H) as (ops2 & Hr2 & Ho2).
    exists (ops1 ++ ops2). split; [eapply run_ops_app; eauto|apply Forall_app; now split].
  - destruct (mark_eq (firstn 4 input) CYC).
    + set (r := skipn 4 input) in *. assert (Hr : bytes_ok r) by (apply bytes_ok_skipn; exact Hb).
      destruct (length r <? 8)%nat; [discriminate|].
      destruct (cycle_loop lz_compress cap (Datatypes.S (length r)) sigs _ vb e (skipn 8 r)) as [y| |] eqn:Ec; try discriminate. cbn [bind] in H.
      pose proof (cycle_loop_ops sigs _ _ vb e _ S y Hinv Hsig (bytes_ok_skipn 8 r Hr) Ec) as Hy.
      destruct y as [[[vb2 e2] r2]|]; [|discriminate].
      destruct (mark_eq (firstn 4 r2) ECY); [|discriminate].
      destruct Hy as (ops1 & S2 & Hr1 & Ho1 & Hi2 & Hs2 & Hb2).
      destruct (IH vb2 e2 (skipn 4 r2) S2 e' Hi2 ltac:(now rewrite Hs2) (bytes_ok_skipn 4 r2 Hb2) H) as (ops2 & Hr2 & Ho2).
      exists (ops1 ++ ops2). split; [eapply run_ops_app; eauto|apply Forall_app; now split].
    + destruct (mark_eq (firstn 4 input) DIR).
      * set (r := skipn 4 input) in *. assert (Hr : bytes_ok r) by (apply bytes_ok_skipn; exact Hb).
        destruct (length r <? 8)%nat; [discriminate|]. destruct (2147483648 <=? _); [discriminate|].
        destruct (N.of_nat (length (skipn 8 r)) <? _); [discriminate|].
        destruct (negb (dir_entries_ok big_endian _ (skipn 8 r))); [discriminate|].
        destruct (mark_eq _ EOD); [|discriminate].
        eapply (IH vb e _ S e' Hinv Hsig); [|exact H]. apply bytes_ok_skipn. apply bytes_ok_skipn. exact Hr.
      * destruct (mark_eq (firstn 4 input) TAI); [|discriminate].
        destruct (length (skipn 4 input) <? 8)%nat; [discriminate|]. inversion H; subst e'.
        exists []. split; [reflexivity|constructor].
Qed.

End Reader.

(* ------------------------------------------------------------------ the initial buffer and the whole reader *)

Lemma val_all_zero sb : forall l, Forall (fun x => x = 0) l -> val sb 0 l = 0.
Proof. induction l as [|x l IH]; intros H; [reflexivity|]. apply Forall_cons_iff in H as [-> H]. cbn [val]. rewrite N.mul_0_l, N.add_0_l. now apply IH. Qed.

Lemma all_zero_repeat (l : list N) : Forall (fun x => x = 0) l -> l = repeat 0 (length l).
Proof. induction 1 as [|x l -> _ IH]; [reflexivity|]. cbn [length repeat]. now rewrite <- IH. Qed.

Lemma packed_zeros st n : write_n_state_loop st (repeat 0 n) 0 None = zeros (div_ceil n (per_byte st)).
Proof.
  pose proof (packed_length st (repeat 0 n)) as Hl. rewrite repeat_length in Hl. unfold zeros. rewrite <- Hl.
  apply all_zero_repeat. rewrite wns_is_loop.
  pose proof (per_byte_pos st) as Hpb. pose proof (per_byte_sbits st) as Hsb.
  destruct (decompose (sbits st) (per_byte st) Hpb Hsb (repeat 0 n)) as (h & cs & E & Hh & Hcs).
  assert (Hz : Forall (fun x => x = 0) (h ++ concat cs)) by (rewrite <- E; apply Forall_forall; intros x Hx; now apply repeat_spec in Hx).
  rewrite E, (wns_decomposed (sbits st) (per_byte st) Hpb Hsb h cs Hh Hcs).
  apply Forall_app in Hz as [Hzh Hzc].
  assert (Hm : Forall (fun x => x = 0) (map (val (sbits st) 0) cs)).
  { apply Forall_forall. intros x Hx. apply in_map_iff in Hx as (c & <- & Hc). apply val_all_zero.
    apply Forall_forall. intros y Hy. rewrite Forall_forall in Hzc. apply Hzc. apply in_concat. eauto. }
  destruct h; [exact Hm|]. constructor; [now apply val_all_zero|exact Hm].
Qed.

Lemma vec_of_inv v ve : vec_of v = Ok ve -> vinv' ve (repeat 0 (ve_bits ve)) /\ ve_states ve = (if snd (fst v) then Two else Nine).
Proof.
  destruct v as [[[mn mx] two] r]. unfold vec_of. destruct (Nat.eqb mn 0 || Nat.eqb mx 0); [discriminate|].
  destruct (usub (mx - 1) (mn - 1)) as [d| |]; try discriminate. cbn [bind]. intros H. inversion H; subst ve. cbn [ve_bits ve_states fst snd].
  split; [|reflexivity]. split.
  - unfold vinv. cbn [ve_data ve_states ve_bits]. split; [now rewrite packed_zeros|]. split; [now rewrite repeat_length|].
    split; apply Forall_forall; intros x Hx; apply repeat_spec in Hx; subst x; [|lia].
    apply N.neq_0_lt_0. apply N.pow_nonzero. discriminate.
  - cbn [ve_bit_change ve_bits]. exact (repeat_length false (S d)).
Qed.

Lemma vecs_of_inv : forall vectors vecs, outcome_map vec_of vectors = Ok vecs ->
  exists S, Forall2 vinv' vecs S /\ map ve_states vecs = map (fun v : nat * nat * bool * nat => if snd (fst v) then Two else Nine) vectors.
Proof.
  induction vectors as [|v vs IH]; intros vecs H; cbn [outcome_map] in H.
  - inversion H; subst. exists []. split; [constructor|reflexivity].
  - destruct (vec_of v) as [ve| |] eqn:Ev; try discriminate. cbn [bind] in H.
    destruct (outcome_map vec_of vs) as [rest| |] eqn:Er; try discriminate. cbn [bind] in H. inversion H; subst vecs.
    destruct (IH rest eq_refl) as (S & HS & Hst). destruct (vec_of_inv v ve Ev) as [Hi Hs].
    exists (repeat 0 (ve_bits ve) :: S). split; [constructor; assumption|]. cbn [map]. now rewrite Hs, Hst.
Qed.

(* Property C11, the reader as a whole: read_signals returns the blocks and the time table that finishing an encoder
   yields after a history of well-formed store operations - so the storage theorems (C02: the time table is the accepted
   time stamps; C04: every signal reports what the history records) apply to what a GHW file's signal sections encode *)
Theorem read_signals_ops parse_f64 lz_compress cap big_endian tpes sigs vectors input blocks ttb :
  sigs_ok sigs (map (fun v : nat * nat * bool * nat => if snd (fst v) then Two else Nine) vectors) -> bytes_ok input ->
  read_signals lz_compress cap big_endian tpes sigs vectors input = Ok (Some (blocks, ttb)) ->
  exists ops e', run_ops parse_f64 lz_compress cap (enc_new tpes) ops = Ok e' /\ Forall ghw_op_ok ops /\
                 enc_finish lz_compress e' = Ok (blocks, ttb).
Proof.
  intros Hsig Hb H. unfold read_signals in H.
  destruct (outcome_map vec_of vectors) as [vecs| |] eqn:Ev; try discriminate. cbn [bind] in H.
  destruct (sections lz_compress cap _ big_endian sigs (mk_vb vecs []) (enc_new tpes) input) as [[e'|]| |] eqn:Es; try discriminate.
  cbn [bind] in H. destruct (enc_finish lz_compress e') as [x| |] eqn:Ef; try discriminate. cbn [bind] in H. inversion H; subst x.
  destruct (vecs_of_inv vectors vecs Ev) as (S & HS & Hst).
  destruct (sections_ops parse_f64 lz_compress cap big_endian sigs _ (mk_vb vecs []) (enc_new tpes) input S e' HS
              ltac:(unfold vstates; cbn [vb_vecs]; now rewrite Hst) Hb Es) as (ops & Hr & Ho).
  exists ops, e'. split; [exact Hr|]. split; [exact Ho|exact Ef].
Qed.

(* the premises are satisfiable: a std_logic scalar, a 2-bit std_logic vector and an integer; one snapshot, one cycle *)
Example read_signals_example :
  let sigs := [mk_gs GNine 0 None; mk_gs GNineVec 1 (Some 0%nat); mk_gs GNineVec 1 (Some 0%nat); mk_gs GLeb 2 None] in
  let input := SNP ++ [0;0;0;0] ++ [0;0;0;0;0;0;0;0] ++ [2; 3; 2; 5] ++ ESN ++
               CYC ++ [10;0;0;0;0;0;0;0] ++ [1; 3; 2; 2; 0; 127] ++ ECY ++ TAI ++ [0;0;0;0;0;0;0;0] in
  sigs_ok sigs [Nine] /\ bytes_ok input /\
  exists r, read_signals (fun d => d) 65535 false [EncBits 1; EncBits 2; EncBits 64] sigs [(2, 3, false, 1)]%nat input = Ok (Some r) /\ snd r = [0; 10].
Proof.
  cbn zeta. split.
  - intros idx info H. do 4 (destruct idx as [|idx]; [cbn in H; inversion H; subst; cbn; eauto|]). destruct idx; discriminate.
  - split; [repeat constructor; cbn; lia|]. eexists. split; [vm_compute; reflexivity|reflexivity].
Qed.

(* with the time table theorem of the store (C02): the time table of a GHW file is the strictly increasing list of the
   time stamps its snapshot and cycle sections open *)
Corollary read_signals_time_table (parse_f64 : list byte -> option (list byte)) lz_compress cap (cap_pos : 1 <= cap) big_endian tpes sigs vectors input blocks ttb :
  sigs_ok sigs (map (fun v : nat * nat * bool * nat => if snd (fst v) then Two else Nine) vectors) -> bytes_ok input ->
  read_signals lz_compress cap big_endian tpes sigs vectors input = Ok (Some (blocks, ttb)) ->
  exists ops, Forall ghw_op_ok ops /\ ttb = accepted (times_of ops) /\
              StronglySorted N.lt ttb.
Proof.
  intros Hsig Hb H. destruct (read_signals_ops parse_f64 lz_compress cap big_endian tpes sigs vectors input blocks ttb Hsig Hb H)
    as (ops & e' & Hr & Ho & Hf).
  destruct (time_table_spec parse_f64 lz_compress cap cap_pos tpes ops e' Hr) as (bb & Ht).
  rewrite Hf in Ht. inversion Ht; subst. exists ops. split; [exact Ho|]. split; [reflexivity|].
  apply accepted_strict.
Qed.
