(* The GHW vector buffer (ghw/signals.rs VecBuffer): per-bit writes keep the buffer the packed form of the
   vector's current symbols, so that every value it hands to the store is correctly packed (property C11). *)
From Coq Require Import Lia ZifyBool ZifyNat ZifyN.
From WV Require Import Model.Base Generated.Consts Model.Bits Model.Leb128 Model.WaveMem Model.Ghw
  Proofs.BitsProofs Proofs.SliceProofs Proofs.StoreProofs Proofs.RawProofs.
Ltac Zify.zify_post_hook ::= Z.div_mod_to_equations.
Open Scope N_scope.
Arguments N.add : simpl never. Arguments N.mul : simpl never. Arguments N.div : simpl never.
Arguments N.modulo : simpl never. Arguments N.pow : simpl never. Arguments N.lor : simpl never.
Arguments N.sub : simpl never.

(* ------------------------------------------------------------------ one byte *)

Definition set_byte (st : states) (b : N) (slot : nat) (value : N) : N :=
  let shift := N.of_nat slot * sbits st in
  (N.lor (b - digit st b slot * 2 ^ shift) (value * 2 ^ shift)) mod 256.

Definition all_states3 : list states := [Two; Four; Nine].

(* writing one symbol slot of a byte changes that slot and no other (exhaustive over all bytes, kinds, slots, values) *)
Lemma set_byte_sweep :
  forallb (fun st =>
    forallb (fun b =>
      forallb (fun slot =>
        forallb (fun value =>
          let b' := set_byte st b slot value in
          (b' <? 256) &&
          forallb (fun slot' => digit st b' slot' =? (if Nat.eqb slot' slot then value else digit st b slot'))
                  (seq 0 (per_byte st)))
          (map N.of_nat (seq 0 (N.to_nat (2 ^ sbits st)))))
        (seq 0 (per_byte st)))
      (map N.of_nat (seq 0 256)))
    all_states3 = true.
Proof. vm_compute. reflexivity. Qed.

Lemma set_byte_spec st b slot value : b < 256 -> (slot < per_byte st)%nat -> value < 2 ^ sbits st ->
  set_byte st b slot value < 256 /\
  forall slot', (slot' < per_byte st)%nat ->
    digit st (set_byte st b slot value) slot' = if Nat.eqb slot' slot then value else digit st b slot'.
Proof.
  intros Hb Hs Hv. pose proof set_byte_sweep as S. rewrite forallb_forall in S.
  assert (Hst : In st all_states3) by (destruct st; cbn; auto). specialize (S st Hst).
  rewrite forallb_forall in S. specialize (S b (in_range 256 b Hb)).
  rewrite forallb_forall in S. specialize (S slot ltac:(apply in_seq; lia)).
  rewrite forallb_forall in S.
  assert (Hvi : In value (map N.of_nat (seq 0 (N.to_nat (2 ^ sbits st))))).
  { apply in_map_iff. exists (N.to_nat value). split; [lia|]. apply in_seq. lia. }
  specialize (S value Hvi). cbn zeta in S. apply andb_prop in S as [S1 S2]. split; [now apply N.ltb_lt|].
  intros slot' Hs'. rewrite forallb_forall in S2. specialize (S2 slot' ltac:(apply in_seq; lia)). now apply N.eqb_eq.
Qed.

(* ------------------------------------------------------------------ bytes from their digits *)
Section Recon.
Variable st : states.
Notation sb := (sbits st).
Notation pb := (per_byte st).
Let Hpb := per_byte_pos st.
Let Hsb := per_byte_sbits st.

Lemma val_gdigits (cnt : nat) (b : N) : val sb 0 (gdigits sb cnt b) = b mod 2 ^ (N.of_nat cnt * sb).
Proof.
  induction cnt as [|c IH].
  - cbn. rewrite N.mul_0_l. cbn. now rewrite N.mod_1_r.
  - rewrite gdigits_S. cbn [val]. rewrite N.mul_0_l, N.add_0_l, (val_acc sb pb Hpb Hsb), IH.
    unfold gdigits at 1. rewrite map_length, rev_length, seq_length. unfold gdigit.
    rewrite Nat2N.inj_succ, N.mul_succ_l, N.pow_add_r.
    assert (H1 : 2 ^ (N.of_nat c * sb) <> 0) by (apply N.pow_nonzero; lia).
    assert (H2 : 2 ^ sb <> 0) by (apply N.pow_nonzero; lia).
    rewrite (N.mod_mul_r b _ _ H1 H2). lia.
Qed.

Lemma byte_recon (b : N) : b < 256 -> val sb 0 (gdigits sb pb b) = b.
Proof. intros H. rewrite val_gdigits, Hsb. change (2 ^ 8) with 256. now apply N.mod_small. Qed.

(* the digit list of a byte after writing one slot *)
Lemma gdigits_set_byte (b : N) (slot : nat) (v : N) : b < 256 -> (slot < pb)%nat -> v < 2 ^ sb ->
  gdigits sb pb (set_byte st b slot v) = list_update (gdigits sb pb b) (pb - 1 - slot) v.
Proof.
  intros Hb Hs Hv. destruct (set_byte_spec st b slot v Hb Hs Hv) as [_ Hd].
  apply nth_ext with (d := 0) (d' := 0).
  - assert (Hlu : forall (l : list N) i x, length (list_update l i x) = length l).
    { induction l as [|y l IH]; intros [|i] x; cbn; auto. }
    rewrite Hlu. unfold gdigits. now rewrite !map_length.
  - intros k Hk. unfold gdigits in Hk. rewrite map_length, rev_length, seq_length in Hk.
    assert (Hnth : forall x, nth k (gdigits sb pb x) 0 = digit st x (pb - 1 - k)).
    { intros x. unfold gdigits. rewrite (nth_map_lt _ _ k 0 0%nat) by (rewrite rev_length, seq_length; lia).
      rewrite nth_rev_seq by lia. reflexivity. }
    rewrite Hnth, Hd by lia.
    assert (Hup : forall (l : list N) i x j, (j < length l)%nat -> nth j (list_update l i x) 0 = if Nat.eqb j i then x else nth j l 0).
    { induction l as [|y l IH]; intros [|i] x [|j] Hj; cbn in *; try lia; auto. apply IH. lia. }
    rewrite Hup by (unfold gdigits; rewrite map_length, rev_length, seq_length; lia).
    rewrite Hnth.
    destruct (Nat.eqb_spec (pb - 1 - k) slot); destruct (Nat.eqb_spec k (pb - 1 - slot)); try lia; reflexivity.
Qed.

End Recon.

Lemma list_update_length {A} (l : list A) : forall i x, length (list_update l i x) = length l.
Proof. induction l as [|y l IH]; intros [|i] x; cbn; auto. Qed.

Lemma list_update_app_r {A} (a b : list A) i x : list_update (a ++ b) (length a + i) x = a ++ list_update b i x.
Proof. induction a as [|y a IH]; cbn [app length Nat.add list_update]; [reflexivity|]. now rewrite IH. Qed.

Lemma list_update_app_l {A} (a b : list A) i x : (i < length a)%nat -> list_update (a ++ b) i x = list_update a i x ++ b.
Proof. revert i. induction a as [|y a IH]; intros [|i] H; cbn in *; try lia; [reflexivity|]. now rewrite IH by lia. Qed.

Lemma list_update_0 {A} (x y : A) l : list_update (x :: l) 0 y = y :: l.
Proof. reflexivity. Qed.

Section VecUpdate.
Variable st : states.
Notation sb := (sbits st).
Notation pb := (per_byte st).
Let Hpb := per_byte_pos st.
Let Hsb := per_byte_sbits st.

Lemma val_zeros k l : val sb 0 (repeat 0 k ++ l) = val sb 0 l.
Proof. induction k as [|k IH]; [reflexivity|]. cbn [repeat app val]. now rewrite N.mul_0_l, N.add_0_l. Qed.

Lemma small_update (c : list N) p v : small sb c -> v < 2 ^ sb -> small sb (list_update c p v).
Proof.
  unfold small. revert p. induction c as [|y c IH]; intros [|p] Hs Hv; cbn [list_update]; try constructor;
    apply Forall_cons_iff in Hs as [H1 H2]; auto.
Qed.

(* writing one symbol of a (possibly partial) byte *)
Lemma val_update_chunk (c : list N) (p : nat) (v : N) : (length c <= pb)%nat -> small sb c ->
  (p < length c)%nat -> v < 2 ^ sb ->
  val sb 0 (list_update c p v) = set_byte st (val sb 0 c) (length c - 1 - p) v.
Proof.
  intros Hlen Hs Hp Hv.
  assert (Hb : val sb 0 c < 256).
  { pose proof (val_small sb pb Hpb Hsb c Hs). eapply N.lt_le_trans; [eassumption|].
    change 256 with (2 ^ 8). rewrite <- Hsb. apply N.pow_le_mono_r; nia. }
  destruct (set_byte_spec st (val sb 0 c) (length c - 1 - p) v Hb ltac:(lia) Hv) as [Hb' _].
  rewrite <- (byte_recon st (set_byte st (val sb 0 c) (length c - 1 - p) v) Hb').
  rewrite (gdigits_set_byte st) by (assumption || lia).
  assert (E : gdigits sb pb (val sb 0 c) = repeat 0 (pb - length c) ++ c).
  { rewrite <- (gdigits_pad st c Hs). f_equal. lia. }
  rewrite E.
  replace (pb - 1 - (length c - 1 - p))%nat with (length (repeat 0%N (pb - length c)) + p)%nat by (rewrite repeat_length; lia).
  rewrite list_update_app_r, val_zeros. reflexivity.
Qed.

Lemma concat_update (cs : list (list N)) : forall q p v c, chunks_ok pb cs -> nth_error cs q = Some c -> (p < pb)%nat ->
  list_update (concat cs) (q * pb + p) v = concat (list_update cs q (list_update c p v)).
Proof.
  induction cs as [|c0 cs IH]; intros q p v c Hok Hq Hp; [destruct q; discriminate|].
  apply Forall_cons_iff in Hok as [Hc0 Hok]. destruct q as [|q]; cbn [nth_error] in Hq.
  - inversion Hq; subst c0. cbn [concat list_update Nat.mul Nat.add]. apply list_update_app_l. lia.
  - cbn [concat list_update]. replace (S q * pb + p)%nat with (length c0 + (q * pb + p))%nat by (rewrite Hc0; lia).
    rewrite list_update_app_r. f_equal. eapply IH; eauto.
Qed.

Lemma map_update {A B} (f : A -> B) (l : list A) : forall i x, map f (list_update l i x) = list_update (map f l) i (f x).
Proof. induction l as [|y l IH]; intros [|i] x; cbn; auto. now rewrite IH. Qed.

Lemma chunks_ok_update (cs : list (list N)) q c' : chunks_ok pb cs -> length c' = pb -> chunks_ok pb (list_update cs q c').
Proof.
  unfold chunks_ok. revert q. induction cs as [|c0 cs IH]; intros [|q] Hok Hc; cbn [list_update]; try constructor;
    apply Forall_cons_iff in Hok as [H1 H2]; auto.
Qed.

(* VecBuffer::set_value: writing bit `bit` (0 = last declared element) of a packed vector is writing the symbol at
   position length-1-bit of the symbol list *)
Theorem packed_update syms (bit : nat) (v : N) : small_syms st syms -> (bit < length syms)%nat -> v < 2 ^ sb ->
  let data := write_n_state_loop st syms 0 None in
  let '(index, slot) := data_index (length syms) bit st in
  exists b, nth_error data index = Some b /\
            write_n_state_loop st (list_update syms (length syms - 1 - bit) v) 0 None
            = list_update data index (set_byte st b slot v).
Proof.
  intros Hs Hbit Hv. cbn zeta. unfold data_index. rewrite !wns_is_loop.
  destruct (decompose sb pb Hpb Hsb syms) as (h & cs & -> & Hh & Hcs).
  apply Forall_app in Hs as [Hsh Hsc]. pose proof (forall_small_concat sb cs Hsc) as Hsc'.
  assert (Hlc : length (concat cs) = (length cs * pb)%nat) by (apply length_concat_chunks; exact Hcs).
  rewrite app_length, Hlc in *.
  set (m := length cs) in *.
  assert (Hbytes : div_ceil (length h + m * pb) pb = (m + (if Nat.eqb (length h) 0 then 0 else 1))%nat).
  { unfold div_ceil. destruct (Nat.eqb_spec (length h) 0) as [E|E].
    - rewrite E. replace (0 + m * pb + pb - 1)%nat with (pb - 1 + m * pb)%nat by lia.
      rewrite Nat.div_add by lia. rewrite Nat.div_small by lia. lia.
    - replace (length h + m * pb + pb - 1)%nat with (length h - 1 + (m + 1) * pb)%nat by lia.
      rewrite Nat.div_add by lia. rewrite Nat.div_small by lia. lia. }
  rewrite Hbytes.
  rewrite (wns_decomposed sb pb Hpb Hsb h cs Hh Hcs).
  set (k := (length h + m * pb - 1 - bit)%nat).
  destruct (Nat.ltb_spec k (length h)) as [Hk|Hk].
  - (* the symbol lives in the partial first byte *)
    destruct h as [|s h']; [cbn in Hk; lia|]. cbn [Nat.eqb length].
    assert (Hq : (bit / pb = m)%nat).
    { symmetry. apply Nat.div_unique with (r := (length (s :: h') - 1 - k)%nat); unfold k; cbn [length] in *; nia. }
    assert (Hr : (bit mod pb = length (s :: h') - 1 - k)%nat).
    { symmetry. apply Nat.mod_unique with (q := m); unfold k; cbn [length] in *; nia. }
    rewrite Hq, Hr. replace (m + 1 - 1 - m)%nat with 0%nat by lia.
    exists (val sb 0 (s :: h')). split; [reflexivity|].
    rewrite list_update_app_l by exact Hk.
    assert (Hlu : length (list_update (s :: h') k v) = length (s :: h')) by apply list_update_length.
    rewrite (wns_decomposed sb pb Hpb Hsb _ cs ltac:(rewrite Hlu; exact Hh) Hcs).
    destruct (list_update (s :: h') k v) as [|s2 h2] eqn:E; [cbn in Hlu; discriminate|]. rewrite <- E.
    rewrite list_update_0. f_equal. apply val_update_chunk; [lia|exact Hsh|exact Hk|exact Hv].
  - (* the symbol lives in a full byte *)
    set (k' := (k - length h)%nat).
    assert (Hk' : (k' < m * pb)%nat) by (unfold k', k; lia).
    set (q := (k' / pb)%nat). set (p := (k' mod pb)%nat).
    assert (Hqp : (k' = q * pb + p /\ p < pb)%nat).
    { unfold q, p. pose proof (Nat.div_mod k' pb ltac:(lia)). pose proof (Nat.mod_upper_bound k' pb ltac:(lia)). lia. }
    destruct Hqp as [Hqp Hp].
    assert (Hqm : (q < m)%nat) by nia.
    assert (Hbq : (bit / pb = m - 1 - q)%nat).
    { symmetry. apply Nat.div_unique with (r := (pb - 1 - p)%nat); unfold k', k in *; nia. }
    assert (Hbr : (bit mod pb = pb - 1 - p)%nat).
    { symmetry. apply Nat.mod_unique with (q := (m - 1 - q)%nat); unfold k', k in *; nia. }
    rewrite Hbq, Hbr.
    destruct (nth_error cs q) as [c|] eqn:Ec; [|apply nth_error_None in Ec; unfold m in *; lia].
    assert (Hcl : length c = pb).
    { unfold chunks_ok in Hcs. rewrite Forall_forall in Hcs. apply Hcs. eapply nth_error_In; eauto. }
    assert (Hcs_s : small sb c).
    { rewrite Forall_forall in Hsc'. apply Hsc'. eapply nth_error_In; eauto. }
    replace k with (length h + k')%nat by (unfold k'; lia).
    rewrite list_update_app_r, Hqp.
    rewrite (concat_update cs q p v c Hcs Ec Hp).
    assert (Hcs2 : chunks_ok pb (list_update cs q (list_update c p v))).
    { apply chunks_ok_update; [exact Hcs|]. now rewrite list_update_length. }
    rewrite (wns_decomposed sb pb Hpb Hsb h _ Hh Hcs2).
    rewrite map_update, (val_update_chunk c p v ltac:(lia) Hcs_s ltac:(lia) Hv), Hcl.
    destruct h as [|s h']; cbn [Nat.eqb length].
    + replace (m + 0 - 1 - (m - 1 - q))%nat with q by lia.
      exists (val sb 0 c). split; [rewrite nth_error_map'; now rewrite Ec|reflexivity].
    + replace (m + 1 - 1 - (m - 1 - q))%nat with (S q) by lia.
      exists (val sb 0 c). split; [cbn [nth_error]; rewrite nth_error_map'; now rewrite Ec|reflexivity].
Qed.

End VecUpdate.

(* ------------------------------------------------------------------ the vector entries of the buffer *)

(* the buffer of a vector is the packed form of its current symbols (first declared element first) *)
Definition vinv (v : vec_entry) (syms : list N) : Prop :=
  ve_data v = write_n_state_loop (ve_states v) syms 0 None /\ ve_bits v = length syms /\
  small_syms (ve_states v) syms /\ Forall (fun x => x <= 8) syms.

Theorem ve_set_spec v syms bit value : vinv v syms -> (bit < ve_bits v)%nat -> value < 2 ^ sbits (ve_states v) ->
  ve_set_value v bit value = Ok (write_n_state_loop (ve_states v) (list_update syms (ve_bits v - 1 - bit) value) 0 None).
Proof.
  intros (Hd & Hb & Hs & _) Hbit Hv. unfold ve_set_value. rewrite Hb in *.
  pose proof (packed_update (ve_states v) syms bit value Hs Hbit Hv) as P. cbn zeta in P.
  destruct (data_index (length syms) bit (ve_states v)) as [index slot].
  destruct P as (b & Hn & Hu). rewrite Hd, Hn. cbn [of_option bind]. rewrite Hu. reflexivity.
Qed.

Theorem ve_get_spec v syms bit : vinv v syms -> (bit < ve_bits v)%nat ->
  ve_get_value v bit = Ok (nth (ve_bits v - 1 - bit) syms 0).
Proof.
  intros (Hd & Hb & Hs & _) Hbit. unfold ve_get_value, data_index. rewrite Hb in *.
  destruct (packed_symbol (ve_states v) syms bit Hs Hbit) as (b & Hn & Hdg). cbn zeta in Hn.
  rewrite packed_length in Hn. pose proof (per_byte_pos (ve_states v)) as Hpb.
  set (pb := per_byte (ve_states v)) in *. set (B := div_ceil (length syms) pb) in *.
  assert (Hcap : (S bit <= B * pb)%nat).
  { pose proof (packed_capacity (ve_states v) syms). rewrite packed_length in H. fold pb B in H. lia. }
  assert (Hidx : ((B * pb - S bit) / pb = B - 1 - bit / pb)%nat).
  { symmetry. apply Nat.div_unique with (r := (pb - 1 - bit mod pb)%nat).
    - pose proof (Nat.mod_upper_bound bit pb ltac:(lia)). lia.
    - pose proof (Nat.div_mod bit pb ltac:(lia)). pose proof (Nat.mod_upper_bound bit pb ltac:(lia)).
      assert (bit / pb < B)%nat by (apply Nat.div_lt_upper_bound; lia). nia. }
  rewrite Hidx in Hn. rewrite Hd, Hn. cbn [of_option bind]. now rewrite Hdg.
Qed.

Lemma list_update_small st syms k v : small_syms st syms -> v < 2 ^ sbits st -> small_syms st (list_update syms k v).
Proof. intros H Hv. now apply (small_update st). Qed.

Lemma list_update_le8 (syms : list N) : forall k v, Forall (fun x => x <= 8) syms -> v <= 8 -> Forall (fun x => x <= 8) (list_update syms k v).
Proof.
  induction syms as [|y l IH]; intros [|k] v H Hv; cbn [list_update]; try constructor;
    apply Forall_cons_iff in H as [H1 H2]; auto.
Qed.

(* writing a bit keeps the invariant, for the updated symbol list *)
Lemma vinv_set v syms bit value data : vinv v syms -> (bit < ve_bits v)%nat -> value < 2 ^ sbits (ve_states v) -> value <= 8 ->
  ve_set_value v bit value = Ok data ->
  forall bc sc, vinv (mk_ve (ve_bits v) (ve_states v) (ve_ref v) (ve_max_index v) data bc sc)
                     (list_update syms (ve_bits v - 1 - bit) value).
Proof.
  intros Hi Hbit Hv H8 H bc sc. rewrite (ve_set_spec v syms bit value Hi Hbit Hv) in H. inversion H; subst data.
  destruct Hi as (Hd & Hb & Hs & Hle). unfold vinv. cbn [ve_data ve_states ve_bits].
  repeat split; [now rewrite list_update_length|now apply list_update_small|now apply list_update_le8].
Qed.

Example vec_example :
  let v := mk_ve 5 Nine 0 4 (write_n_state_loop Nine [5; 5; 5; 5; 5] 0 None) (repeat false 5) false in
  (do d <- ve_set_value v 1 3; Ok d) = Ok (write_n_state_loop Nine [5; 5; 5; 3; 5] 0 None) /\
  ve_get_value v 4 = Ok 5.
Proof. split; reflexivity. Qed.

(* ------------------------------------------------------------------ one per-bit record through the buffer *)

(* every vector of the buffer holds the packed form of its current symbols *)
Definition vinv' (v : vec_entry) (syms : list N) : Prop := vinv v syms /\ length (ve_bit_change v) = ve_bits v.
Definition vbinv (vb : vec_buffer) (S : list (list N)) : Prop := Forall2 vinv' (vb_vecs vb) S.

(* a raw change whose data is the packed form of a valid symbol list of the vector's width: what the store theorems
   (EncoderProofs op_ok) ask of the GHW path *)
Definition packed_raw (op : enc_op) : Prop :=
  match op with
  | OpRaw _ data st => exists syms, data = write_n_state_loop st syms 0 None /\ small_syms st syms /\ Forall (fun x => x <= 8) syms
  | _ => False
  end.

Lemma vinv_clear v syms : vinv v syms -> vinv (clear_changes v) syms.
Proof. intros H. exact H. Qed.

Lemma forall2_update {A B} (P : A -> B -> Prop) l1 : forall l2 k a b, Forall2 P l1 l2 -> P a b ->
  Forall2 P (list_update l1 k a) (list_update l2 k b).
Proof.
  induction l1 as [|x l1 IH]; intros l2 k a b H Hab; inversion H; subst; [destruct k; constructor|].
  destruct k as [|k]; cbn [list_update]; constructor; auto.
Qed.

Lemma forall2_nth {A B} (P : A -> B -> Prop) l1 : forall l2 k a, Forall2 P l1 l2 -> nth_error l1 k = Some a ->
  exists b, nth_error l2 k = Some b /\ P a b.
Proof.
  induction l1 as [|x l1 IH]; intros l2 k a H Hn; [destruct k; discriminate|].
  inversion H; subst. destruct k as [|k]; cbn [nth_error] in *.
  - inversion Hn; subst. eauto.
  - eapply IH; eauto.
Qed.

(* VecBuffer: one per-bit record (read_signal_value on a vector element) hands the store zero, one or two raw changes,
   each carrying the packed form of the vector's symbols at that moment, and leaves every vector of the buffer equal to
   the packed form of its updated symbols *)
Theorem vec_update_spec parse_f64 lz_compress cap vb e vec_id signal_index value sref st vb' e' S v :
  vbinv vb S -> nth_error (vb_vecs vb) vec_id = Some v -> st = ve_states v ->
  value < 2 ^ sbits (ve_states v) -> value <= 8 ->
  vec_update vb e vec_id signal_index value sref st = Ok (vb', e') ->
  exists ops syms bit,
    nth_error S vec_id = Some syms /\ bit_of v signal_index = Ok bit /\ (bit < ve_bits v)%nat /\
    run_ops parse_f64 lz_compress cap e ops = Ok e' /\ Forall packed_raw ops /\ (length ops <= 2)%nat /\
    vbinv vb' (list_update S vec_id (list_update syms (ve_bits v - 1 - bit) value)).
Proof.
  intros Hinv Hv -> Hval H8 H. unfold vec_update in H. rewrite Hv in H. cbn [of_option bind] in H.
  destruct (forall2_nth vinv' _ _ _ _ Hinv Hv) as (syms & HS & [Hvi Hmask]).
  destruct (bit_of v signal_index) as [bit| |] eqn:Ebit; try discriminate. cbn [bind] in H.
  destruct (nth_error (ve_bit_change v) bit) as [changed|] eqn:Ech; [|discriminate]. cbn [of_option bind] in H.
  (* the bit is inside the vector: the model's get/set would otherwise panic; we derive it from the change mask *)
  destruct (Nat.ltb_spec bit (ve_bits v)) as [Hbit|Hbit].
  2:{ exfalso. assert (bit < length (ve_bit_change v))%nat by (apply nth_error_Some; congruence). lia. }
  rewrite (ve_get_spec v syms bit Hvi Hbit) in H. cbn [bind] in H.
  set (old := nth (ve_bits v - 1 - bit) syms 0) in *.
  (* first dispatch *)
  destruct (changed && negb (old =? value)) eqn:Efirst.
  - destruct (raw e sref (ve_data v) (ve_states v)) as [e1| |] eqn:E1; try discriminate. cbn [bind] in H.
    pose proof (vinv_clear v syms Hvi) as Hvc.
    destruct (ve_set_value (clear_changes v) bit value) as [data| |] eqn:Eset; try discriminate. cbn [bind] in H.
    pose proof (vinv_set (clear_changes v) syms bit value data Hvc Hbit Hval H8 Eset) as Hv2.
    cbn [clear_changes ve_bits ve_states ve_ref ve_max_index ve_signal_change ve_bit_change] in *.
    match type of H with context [full_signal_has_changed ?vv] => set (v2 := vv) in *; destruct (full_signal_has_changed v2) eqn:Efull end.
    + destruct (raw e1 sref (ve_data v2) (ve_states v)) as [e2| |] eqn:E2; try discriminate. cbn [bind] in H. inversion H; subst vb' e'.
      exists [OpRaw sref (ve_data v) (ve_states v); OpRaw sref (ve_data v2) (ve_states v)], syms, bit.
      split; [exact HS|]. split; [reflexivity|]. split; [exact Hbit|]. split.
      { cbn [WaveMem.run_ops WaveMem.run_op]. unfold raw in E1, E2. rewrite E1. cbn [bind]. rewrite E2. reflexivity. }
      split.
      { constructor; [|constructor; [|constructor]].
        - destruct Hvi as (Hd & _ & Hs & Hle). exists syms. repeat split; assumption.
        - specialize (Hv2 (list_update (repeat false (ve_bits v)) bit true) true). destruct Hv2 as (Hd & _ & Hs & Hle).
          eexists. repeat split; [exact Hd|exact Hs|exact Hle]. }
      split; [cbn; lia|].
      unfold vbinv. cbn [vb_vecs]. apply forall2_update; [exact Hinv|]. split; [apply vinv_clear; apply Hv2|cbn [clear_changes ve_bit_change ve_bits]; apply repeat_length].
    + inversion H; subst vb' e'.
      exists [OpRaw sref (ve_data v) (ve_states v)], syms, bit.
      split; [exact HS|]. split; [reflexivity|]. split; [exact Hbit|]. split.
      { cbn [WaveMem.run_ops WaveMem.run_op]. unfold raw in E1. rewrite E1. reflexivity. }
      split.
      { constructor; [|constructor]. destruct Hvi as (Hd & _ & Hs & Hle). exists syms. repeat split; assumption. }
      split; [cbn; lia|].
      unfold vbinv. cbn [vb_vecs]. apply forall2_update; [exact Hinv|]. split; [apply Hv2|unfold v2; cbn [ve_bit_change ve_bits]; rewrite list_update_length, ?repeat_length; auto].
  - cbn [bind] in H.
    destruct (ve_set_value v bit value) as [data| |] eqn:Eset; try discriminate. cbn [bind] in H.
    pose proof (vinv_set v syms bit value data Hvi Hbit Hval H8 Eset) as Hv2.
    match type of H with context [full_signal_has_changed ?vv] => set (v2 := vv) in *; destruct (full_signal_has_changed v2) eqn:Efull end.
    + destruct (raw e sref (ve_data v2) (ve_states v)) as [e2| |] eqn:E2; try discriminate. cbn [bind] in H. inversion H; subst vb' e'.
      exists [OpRaw sref (ve_data v2) (ve_states v)], syms, bit.
      split; [exact HS|]. split; [reflexivity|]. split; [exact Hbit|]. split.
      { cbn [WaveMem.run_ops WaveMem.run_op]. unfold raw in E2. rewrite E2. reflexivity. }
      split.
      { constructor; [|constructor]. specialize (Hv2 (list_update (ve_bit_change v) bit true) true). destruct Hv2 as (Hd & _ & Hs & Hle).
        eexists. repeat split; [exact Hd|exact Hs|exact Hle]. }
      split; [cbn; lia|].
      unfold vbinv. cbn [vb_vecs]. apply forall2_update; [exact Hinv|]. split; [apply vinv_clear; apply Hv2|cbn [clear_changes ve_bit_change ve_bits]; apply repeat_length].
    + inversion H; subst vb' e'. exists [], syms, bit.
      split; [exact HS|]. split; [reflexivity|]. split; [exact Hbit|]. split; [reflexivity|]. split; [constructor|].
      split; [cbn; lia|].
      unfold vbinv. cbn [vb_vecs]. apply forall2_update; [exact Hinv|]. split; [apply Hv2|unfold v2; cbn [ve_bit_change ve_bits]; rewrite list_update_length, ?repeat_length; auto].
Qed.

(* finish_time_step / process_changed_signals: every vector still listed as changed is handed to the store once, as the
   packed form of its current symbols; the symbols of the buffer are unchanged *)
Lemma process_changed_spec parse_f64 lz_compress cap : forall cl vecs e vecs' e' S,
  Forall2 vinv' vecs S -> process_changed vecs cl e = Ok (vecs', e') ->
  exists ops, run_ops parse_f64 lz_compress cap e ops = Ok e' /\ Forall packed_raw ops /\ Forall2 vinv' vecs' S.
Proof.
  induction cl as [|id cl IH]; intros vecs e vecs' e' S Hinv H; cbn [process_changed] in H.
  - inversion H; subst. exists []. split; [reflexivity|]. split; [constructor|exact Hinv].
  - destruct (nth_error vecs id) as [v|] eqn:Ev; [|discriminate]. cbn [of_option bind] in H.
    destruct (forall2_nth vinv' _ _ _ _ Hinv Ev) as (syms & HS & [Hvi Hmask]).
    unfold raw in H. destruct (ve_signal_change v).
    + destruct (raw_value_change e (ve_ref v) (ve_data v) (ve_states v)) as [e1| |] eqn:E1; try discriminate. cbn [bind] in H.
      assert (Hinv1 : Forall2 vinv' (list_update vecs id (clear_changes v)) S).
      { replace S with (list_update S id syms).
        - apply forall2_update; [exact Hinv|]. split; [exact Hvi|cbn [clear_changes ve_bit_change ve_bits]; apply repeat_length].
        - clear -HS. revert id HS. induction S as [|x S IH]; intros [|k] H; try discriminate; cbn [list_update nth_error] in *.
          + now inversion H.
          + f_equal. now apply IH. }
      destruct (IH _ _ _ _ _ Hinv1 H) as (ops & Hr & Hp & Hi).
      exists (OpRaw (ve_ref v) (ve_data v) (ve_states v) :: ops). split; [|split; [|exact Hi]].
      * cbn [WaveMem.run_ops WaveMem.run_op]. rewrite E1. cbn [bind]. exact Hr.
      * constructor; [|exact Hp]. destruct Hvi as (Hd & _ & Hs & Hle). exists syms. repeat split; assumption.
    + now apply (IH vecs e vecs' e' S).
Qed.

Theorem finish_time_step_spec parse_f64 lz_compress cap vb e vb' e' S : vbinv vb S ->
  finish_time_step vb e = Ok (vb', e') ->
  exists ops, run_ops parse_f64 lz_compress cap e ops = Ok e' /\ Forall packed_raw ops /\ vbinv vb' S.
Proof.
  intros Hinv H. unfold finish_time_step in H.
  destruct (process_changed (vb_vecs vb) (vb_change_list vb) e) as [[vecs e1]| |] eqn:E; try discriminate.
  cbn [bind] in H. inversion H; subst vb' e'.
  destruct (process_changed_spec parse_f64 lz_compress cap _ _ _ _ _ S Hinv E) as (ops & Hr & Hp & Hi).
  exists ops. split; [exact Hr|]. split; [exact Hp|exact Hi].
Qed.
