"""C03 - multi-threaded VCD loading equals single-threaded loading."""
from .. import core, gen
from . import vcdfam

PID = "C03"
LEVEL = "proof"
RULE = ("VCD bodies satisfying the line discipline LD1-LD5 of DESIGN.md section 6/C03 (timestamps line-initial, one-line "
        "comments, value and id on one line, hand-over increasing, body ends in a newline, chunk 0 non-empty) are loaded with "
        "multi_thread=true inside rayon pools of 1..6 (and 16) threads with the MIN_CHUNK_SIZE override, so that the uniform "
        "production chunking puts a boundary at every byte alignment: every leading pad 0..L and trailing pad 0..3 of blank "
        "lines is swept; plus production chunking (no override) on 16 KiB..MiB bodies with 2..16 threads. Oracle: observation == "
        "single-threaded observation == meaning of the abstract history. Non-trivial: >= 2 chunks are actually formed "
        "(threads >= 2 and min_chunk < body length) - counted per distinct (body, threads, min_chunk).")
ASSUMPTIONS = ["A-rayon: par_iter().map().collect() preserves chunk order and each closure is a pure function of shared immutable data",
               "line discipline LD1-LD5 (outside it the property is false on this code: known findings D8, D15, D16)",
               "n*(n-1) <= body length when the override is used (otherwise chunk starts exceed the body - an artefact of the override)"]
TRUSTED_BASE = ["Python oracle gen.expected_obs", "LD-respecting printer gen.body_text(line_discipline=True)"]


def ld_history(rng, max_steps):
    """strictly increasing times, so that any hand-over is increasing (LD3)"""
    sigs, steps, imp = gen.gen_history(rng, max_steps=max_steps, time_profile="increasing")
    # repeated / backwards timestamps are fine inside a chunk but not across a hand-over; keep increasing
    out = []
    last = -1
    for (t, ch) in steps:
        if t <= last:
            t = last + 1
        out.append((t, ch))
        last = t
    return sigs, out, imp


def chunk_count(body_len, threads, min_chunk):
    n4 = -(-body_len // min_chunk)
    return min(threads, n4)


def chunks_ok(body, threads, min_chunk):
    """decidable side conditions: chunks in bounds, LD5 (first token after the first LF starts in chunk 0)"""
    n = chunk_count(len(body), threads, min_chunk)
    if n <= 1:
        return True, n
    size = -(-len(body) // n)
    if (n - 1) * size > len(body) - 1:
        return False, n
    # LD5: chunk 0 must record a time step: the first non-blank after the first LF starts at or before size
    i = body.find(b"\n")
    j = i + 1
    while j < len(body) and body[j] in b" \t\r\n":
        j += 1
    if j > size:
        return False, n
    # values before the first timestamp (implicit step) all have to be in chunk 0 together with the first timestamp
    return True, n


def implicit_ok(body, size):
    """when values precede the first timestamp, the first timestamp must be handled by chunk 0 (LD3, implicit 0)"""
    k = body.find(b"\n#")
    return k + 1 <= size


def run(res, rng, tier, model_ok, replay=None):
    cases = []
    if replay:
        line = replay.get("case") or replay["broken_correspondence"]["case"]
        exp = replay.get("expected")
        cases.append({"line": line, "expect": exp if isinstance(exp, str) and exp.startswith("tt=") else None})
    else:
        nbodies = 30 if tier == "quick" else 90
        for b in range(nbodies):
            sigs, steps, imp = ld_history(rng, max_steps=rng.choice([3, 6, 12, 25]))
            ws = rng.choice(["lf", "crlf", "mixed"])
            idents, kind, idx, nuniq = gen.assign_ids(rng, len(sigs), rng.choice(["dense", "dense", "hashed"]))
            hdr = gen.header_text(rng, sigs, idents)
            base = gen.body_text(rng, sigs, idents, steps, imp, ws if ws != "lf" else "plain", line_discipline=True)
            table, out = gen.expected_obs(sigs, steps, imp)
            exp = gen.obs_string(table, out, idx)
            sarg = gen.sigs_arg(sigs, kind, idx, nuniq, idents)
            maxpad = min(len(base), 60 if tier == "quick" else 120)
            for lead in range(0, maxpad + 1, 1):
                for trail in ([0, 1] if tier == "quick" else [0, 1, 3]):
                    body = base[:1] + b"\n" * lead + base[1:] + b"\n" * trail
                    for threads in ([2, 3, 4, 5, 7, 16] if tier != "quick" else [2, 3, 5]):
                        # uniform chunks of roughly len/threads: choose min_chunk so that exactly `threads` chunks form
                        min_chunk = max(1, len(body) // threads - rng.choice([0, 0, 1, 3]))
                        ok, n = chunks_ok(body, threads, min_chunk)
                        if not ok:
                            continue
                        size = -(-len(body) // max(n, 1))
                        if imp and n > 1 and not implicit_ok(body, size):
                            continue
                        line = "vcd mt:%d:%d %s %s %s" % (threads, min_chunk, sarg, hdr.hex(), body.hex())
                        cases.append({"line": line, "expect": exp, "klass": "pad-sweep-%dchunks" % min(n, 7),
                                      "key": (b, lead, trail, threads, min_chunk) if n >= 2 else None})
            cases.append({"line": "vcd st %s %s %s" % (sarg, hdr.hex(), base.hex()), "expect": exp, "klass": "single-thread"})
        # production chunking on large bodies
        # (2200 KiB with 2 threads: more than 1 MiB per thread, the size at which a loader might start to use more
        # chunks than threads)
        for kb in ([16, 40, 200, 2200] if tier == "quick" else [16, 17, 33, 64, 200, 1024, 2200, 4096]):
            nsteps = kb * 1024 // 40
            sigs = [gen.Sig("b", 1), gen.Sig("b", 16), gen.Sig("r"), gen.Sig("b", 5)]
            steps = []
            for k in range(nsteps):
                steps.append((k * 5, [(0, "01xz"[k % 4]), (1, format((k * 2654435761) % 65536, "016b")),
                                      (3, gen.rand_bits(rng, 5, rng.choice([2, 4, 9])))] + ([(2, "%d.25" % k)] if k % 7 == 0 else [])))
            for threads in ([2] if kb == 2200 else [2, 7, 16] if tier == "quick" else [2, 3, 4, 7, 8, 15, 16]):
                line, exp, meta = gen.vcd_case(rng, "mt:%d:0" % threads, sigs, steps, False, ws="plain", regime="dense",
                                               pad=(rng.randint(0, 7), 1))
                n = chunk_count(len(meta["body"]), threads, 8192)
                cases.append({"line": line, "expect": exp, "klass": "production-%dKiB" % kb,
                              "key": ("prod", kb, threads) if n >= 2 else None, "nomodel": kb > 256})
        # recordings longer than one storage block (65535 time steps) per parser thread: the hand-over between
        # chunks and the block roll-over inside a chunk have to compose; decided by the oracle alone
        for gap, modes in ([(70000, ["st", "mt:2:0"]), (140000, ["mt:2:0"])] if tier == "quick" else
                           [(70000, ["st", "mt:2:0", "mt:7:0"]), (140000, ["st", "mt:2:0", "mt:3:0"]), (200000, ["mt:2:0", "mt:3:0"])]):
            sigs, steps = gen.gap_history(rng, gap, nsteps_after=5)
            for mode in modes:
                line, exp, meta = gen.vcd_case(rng, mode, sigs, steps, False, ws="plain", regime="dense")
                cases.append({"line": line, "expect": exp, "klass": "long-recording", "key": ("long", gap, mode), "nomodel": True})
    vcdfam.run_both(res, cases, "c03", model_ok, timeout=1500)
    res.samples = [c["line"][:300] for c in cases[:2]] + [cases[-1]["line"][:200]]


def check_known(entry):
    line = entry["case"]
    io = core.run_cases(core.WV_DEBUG, [line], "c03k")[0]
    return vcdfam.strip_bl(io) != entry["expected"]
