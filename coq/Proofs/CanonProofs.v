(* Loaded signals are in canonical form (property C06): the report of a loaded bit-vector signal has no two
   equal neighbours, every value has exactly the declared width, and every value carries the least state kind
   that can hold it.  Corollary of storage_transparent. *)
From Coq Require Import Lia.
From WV Require Import Model.Base Generated.Consts Model.Bits Model.Leb128 Model.WaveMem
  Spec.TimeSpec Spec.StoreSpec Proofs.BitsProofs Proofs.StoreProofs Proofs.EncoderProofs.
Open Scope N_scope.

Lemma chars_to_nums_le8 value : forall nums, chars_to_nums value = Some nums -> Forall (fun v => v <= 8) nums.
Proof.
  induction value as [|c r IH]; intros nums H; cbn [chars_to_nums] in H.
  - inversion H. constructor.
  - destruct (bit_char_to_num c) as [v|] eqn:E; [|discriminate]. destruct (chars_to_nums r) as [l|]; [|discriminate].
    inversion H; subst. constructor; [apply (bit_char_facts c v E)|now apply IH].
Qed.

Lemma decodes_ok bits a r : decodes bits a r ->
  let '(_, l, s) := a in length s = bits /\ small_syms l s /\ Forall (fun v => v <= 8) s /\
                         (forall l', small_syms l' s -> states_num l <= states_num l').
Proof.
  destruct a as [[g l] s]. cbn [decodes]. intros (_ & Hv & Hs & Hm).
  destruct (snd r) as [v|data st].
  - destruct Hv as (chars & _ & Hlc & Hcn). destruct (chars_to_nums_lookup chars s Hcn) as [Hl _].
    repeat split; try assumption; [congruence|now apply (chars_to_nums_le8 chars)].
  - destruct Hv as (_ & Hl & _ & H8). repeat split; assumption.
Qed.

(* no two neighbours of the de-duplicated list have the same (kind, symbols) *)
Fixpoint no_adjacent {K} (eqb : K -> K -> bool) (prev : option K) (l : list K) : Prop :=
  match l with
  | [] => True
  | k :: r => (match prev with Some p => eqb p k = false | None => True end) /\ no_adjacent eqb (Some k) r
  end.

Lemma dedup_no_adjacent (l : list aentry) : forall prev,
  no_adjacent akey_eqb prev (map akey (dedup_by akey_eqb akey l prev)).
Proof.
  induction l as [|a l IH]; intros prev; cbn [dedup_by map no_adjacent]; [exact I|].
  destruct prev as [p|].
  - destruct (akey_eqb p (akey a)) eqn:E; [apply IH|]. cbn [map no_adjacent]. split; [exact E|apply IH].
  - cbn [map no_adjacent]. split; [exact I|apply IH].
Qed.

(* the rendered form of a valid abstract entry *)
Definition rendered (a : aentry) : N * value_kind * list byte :=
  let '(t, l, s) := a in (t, kind_of_states l, map char_of s).

Lemma render_all (A : list aentry) : Forall (fun a : aentry => let '(_, l, s) := a in small_syms l s /\ Forall (fun v => v <= 8) s) A ->
  outcome_map render_of A = Ok (map rendered A).
Proof.
  induction A as [|[[t l] s] A IH]; intros H; [reflexivity|]. apply Forall_cons_iff in H as [[Hs H8] H].
  cbn [outcome_map render_of map rendered]. rewrite (lookup_ok l s Hs H8). cbn [bind]. now rewrite (IH H).
Qed.

Section Canon.
Variable parse_f64 : list byte -> option (list byte).
Variable lz_compress : list byte -> list byte.
Variable lz_decompress : list byte -> nat -> option (list byte).
Hypothesis lz_ok : forall d n, (length d <= n)%nat -> lz_decompress (lz_compress d) n = Some d.
Variable cap : N.
Hypothesis cap_pos : 1 <= cap.
Hypothesis cap_u16 : cap <= 65536.

(* Property C06 for bit-vector signals: the loaded signal is canonical *)
Theorem loaded_signal_canonical id bits tpes ops e blocks ttb :
  (1 <= bits)%nat -> nth_error tpes id = Some (EncBits bits) -> Forall (op_ok id bits) ops ->
  N.of_nat (count_vcd id ops) * (10 + N.of_nat bits) < 4294967264 ->
  run_ops parse_f64 lz_compress cap (enc_new tpes) ops = Ok e ->
  enc_finish lz_compress e = Ok (blocks, ttb) -> N.of_nat (length ttb) < 4294967296 ->
  exists sig (A : list aentry),
    load_signal lz_decompress blocks id (EncBits bits) = Ok sig /\
    observe_signal sig = Ok (map rendered A) /\
    (* exact width, least kind *)
    Forall (fun a : aentry => let '(_, l, s) := a in
              length s = bits /\ small_syms l s /\ (forall l', small_syms l' s -> states_num l <= states_num l')) A /\
    (* no equal neighbours *)
    no_adjacent akey_eqb None (map akey A).
Proof.
  intros Hb Htp Hops Hbud Hrun Hfin Hlen.
  destruct (storage_transparent parse_f64 lz_compress lz_decompress lz_ok cap cap_pos cap_u16 id bits Hb
              tpes ops e blocks ttb Htp Hops Hbud Hrun Hfin Hlen) as (R & sig & Hdec & Hload & Hobs).
  assert (HR : Forall (fun a : aentry => let '(_, l, s) := a in length s = bits /\ small_syms l s /\ Forall (fun v => v <= 8) s /\
                         (forall l', small_syms l' s -> states_num l <= states_num l')) R).
  { clear -Hdec. induction Hdec as [|a r R rec Ha _ IH]; constructor; [|exact IH]. exact (decodes_ok bits a r Ha). }
  assert (HD : Forall (fun a : aentry => let '(_, l, s) := a in length s = bits /\ small_syms l s /\ Forall (fun v => v <= 8) s /\
                         (forall l', small_syms l' s -> states_num l <= states_num l')) (dedup R)).
  { rewrite Forall_forall in *. intros a Ha. apply HR. unfold dedup in Ha. apply dedup_by_in in Ha. exact Ha. }
  exists sig, (dedup R). split; [exact Hload|]. split; [|split].
  - rewrite Hobs. apply render_all. eapply Forall_impl; [|exact HD]. intros [[t l] s] (_ & H1 & H2 & _). split; assumption.
  - eapply Forall_impl; [|exact HD]. intros [[t l] s] (H0 & H1 & _ & H3). repeat split; assumption.
  - apply dedup_no_adjacent.
Qed.

End Canon.
