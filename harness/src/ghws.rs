//! `ghws <endian b|l> <vars> <sigs> <vecs> <hexbytes>`: runs the GHW signal section reader (hook
//! `verif_read_signals`) with explicit decode information and prints time table and signals.
//! vars: comma list of `b<width>` | `r` per signal ref; sigs: `tpe:ref:vec|~` per GHW signal;
//! vecs: `min:max:two(0|1):ref`.
use crate::enc::build_hierarchy;
use crate::obs::*;
use crate::util::*;
use wellen::verif::verif_read_signals;
use wellen::*;

pub fn run(args: &[&str]) -> String {
    let big = args[0] == "b";
    let vars = split(args[1], ',');
    let h = build_hierarchy(&vars);
    let sigs: Vec<(u8, usize, Option<usize>)> = split(args[2], ',')
        .iter()
        .map(|s| {
            let f: Vec<&str> = s.split(':').collect();
            (f[0].parse::<u8>().unwrap(), f[1].parse::<usize>().unwrap(), if f[2] == "~" { None } else { Some(f[2].parse::<usize>().unwrap()) })
        })
        .collect();
    let vecs: Vec<(u32, u32, bool, usize)> = split(args[3], ',')
        .iter()
        .map(|s| {
            let f: Vec<&str> = s.split(':').collect();
            (f[0].parse::<u32>().unwrap(), f[1].parse::<u32>().unwrap(), f[2] == "1", f[3].parse::<usize>().unwrap())
        })
        .collect();
    let input = bytes_of_hex(args[4]);
    match verif_read_signals(big, &sigs, &vecs, &h, &input) {
        Err(_) => "ERR".to_string(),
        Ok((mut source, tt)) => {
            let ids: Vec<SignalRef> = (0..vars.len()).map(|i| SignalRef::from_index(i).unwrap()).collect();
            let loaded = source.load_signals(&ids, &h, false);
            let mut out = format!("tt={}", time_table_obs(&tt));
            for (ii, (_, sig)) in loaded.iter().enumerate() {
                out.push_str(&format!(" s{}={}", ii, signal_obs(sig)));
            }
            out
        }
    }
}

/// `ghwreg <max id> <min:max:bin,...>`: GhwSignalTracker::register_bit_vec sequence (hook); prints the
/// signal ref of each request and the slice table.
pub fn run_reg(args: &[&str]) -> String {
    use wellen::verif::verif_register_bit_vecs;
    let max_id = args[0].parse::<u32>().unwrap();
    let reqs: Vec<(u32, u32, bool)> = split(args[1], ',')
        .iter()
        .map(|s| {
            let f: Vec<&str> = s.split(':').collect();
            (f[0].parse::<u32>().unwrap(), f[1].parse::<u32>().unwrap(), f[2] == "1")
        })
        .collect();
    let (refs, table) = verif_register_bit_vecs(max_id, &reqs);
    let r: Vec<String> = refs.iter().map(|x| x.to_string()).collect();
    let t: Vec<String> = table.iter().map(|(r, m, l, s)| format!("{}:{}:{}:{}", r, m, l, s)).collect();
    format!("refs={} aliases={}", r.join(","), if t.is_empty() { "-".to_string() } else { t.join(",") })
}
