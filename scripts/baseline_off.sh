#!/bin/sh
# Runs the repository's pinned baseline with the hook guard OFF and compares with BASELINE.json.
cd /repo || exit 2
unset RUSTFLAGS
CARGO_NET_OFFLINE=true cargo test --workspace --no-fail-fast --offline > /tmp/wv_baseline.$$ 2>&1
python3 - /tmp/wv_baseline.$$ <<'PY'
import json, re, sys
log = open(sys.argv[1], errors="replace").read()
base = json.load(open("/root/.vp/BASELINE.json"))
passed = set()
binary = None
for line in log.split("\n"):
    m = re.search(r"Running (?:unittests )?(\S+)", line)
    if m:
        p = m.group(1)
        crate = "pywellen" if "pywellen" in line else "wellen"
        name = p.split("/")[-1].replace(".rs", "")
        binary = (crate, None if p.startswith("src/") else name)
    m = re.match(r"test (\S+) \.\.\. ok", line)
    if m and binary:
        crate, b = binary
        t = m.group(1)
        passed.add("%s::%s" % (crate, t) if b is None else "%s::%s::%s" % (crate, b, t))
missing = [t for t in base["stable_pass"] if t not in passed]
print("baseline: %d/%d stable tests pass with the guard off" % (len(base["stable_pass"]) - len(missing), len(base["stable_pass"])))
for t in missing:
    print("MISSING", t)
sys.exit(1 if missing else 0)
PY
rc=$?
rm -f /tmp/wv_baseline.$$
exit $rc
