(* Proofs about Model/Signals.v (property C05). *)
From WV Require Import Model.Base Model.Signals Spec.OffsetSpec.
From Coq Require Import Lia.

Lemma nth_error_at l q : q < length l -> nth_error l q = Some (at_ l q).
Proof. intros H. unfold at_. now apply nth_error_nth'. Qed.

Lemma nth_error_at_inv l q v : nth_error l q = Some v -> q < length l /\ at_ l q = v.
Proof.
  intros H. assert (q < length l) by (apply nth_error_Some; congruence).
  split; [assumption|]. rewrite nth_error_at in H by assumption. congruence.
Qed.

(* ---------- binary_search ---------- *)

Definition bs_inv (l : list N) (needle : N) (lo hi : nat) :=
  (forall q, q < lo -> (at_ l q < needle)%N) /\
  (forall q, hi < q -> q < length l -> (needle < at_ l q)%N) /\
  lo <= hi + 1 /\ hi < length l.

Definition bs_post (l : list N) (needle : N) (p : nat) :=
  p < length l /\ (at_ l p <= needle)%N /\
  (forall q, p < q -> q < length l -> (at_ l p < needle)%N -> (needle < at_ l q)%N).

Lemma bsearch_ok l needle : sorted l -> (at_ l 0 <= needle)%N -> 0 < length l ->
  forall fuel lo hi, bs_inv l needle lo hi -> hi + 2 - lo <= fuel ->
  exists p, bsearch fuel l needle lo hi = Ok p /\ bs_post l needle p.
Proof.
  intros Hs H0 Hlen. induction fuel as [|f IH]; intros lo hi (I1 & I2 & I3 & I4) Hf; [lia|].
  cbn [bsearch]. destruct (Nat.ltb_spec hi lo) as [Hlt|Hge].
  - assert (lo = hi + 1) by lia. subst lo.
    destruct (hi + 1) as [|lo'] eqn:E; [lia|]. assert (lo' = hi) by lia. subst lo'.
    exists hi. split; [reflexivity|]. repeat split; try assumption.
    + destruct hi as [|h]; [assumption|]. apply N.lt_le_incl, I1. lia.
    + intros q Hq Hq2 _. now apply I2.
  - set (mid := lo + (hi - lo) / 2).
    assert (Hmid : lo <= mid <= hi).
    { unfold mid. split; [lia|].
      assert ((hi - lo) / 2 <= hi - lo) by (apply Nat.div_le_upper_bound; lia). lia. }
    rewrite (nth_error_at l mid) by lia.
    destruct (N.compare_spec (at_ l mid) needle) as [Heq|Hlt|Hgt].
    + exists mid. split; [reflexivity|]. unfold bs_post. split; [lia|]. split; [lia|]. intros; lia.
    + apply IH; [|lia]. repeat split; [|assumption|lia|assumption].
      intros q Hq. assert (q <= mid) by lia.
      pose proof (Hs q mid ltac:(lia) ltac:(lia)). lia.
    + destruct mid as [|m'] eqn:Em.
      * exfalso. unfold at_ in *. lia.
      * apply IH; [|lia]. repeat split; [assumption| |lia|lia].
        intros q Hq Hq2. pose proof (Hs (S m') q ltac:(lia) ltac:(lia)). lia.
Qed.

Theorem binary_search_spec l needle : sorted l -> l <> [] -> (at_ l 0 <= needle)%N ->
  exists p, binary_search l needle = Ok p /\ bs_post l needle p.
Proof.
  intros Hs Hne H0. destruct l as [|x r]; [congruence|]. unfold binary_search.
  apply bsearch_ok; try assumption; cbn [length]; try lia.
  unfold bs_inv. split; [intros q Hq; lia|].
  split; [intros q Hq Hq2; cbn [length] in *; lia|]. cbn [length]. lia.
Qed.

(* the guard in get_offset is necessary: without hd <= needle the code underflows *)
Example guard_needed : binary_search [5%N] 3%N = Panic.
Proof. reflexivity. Qed.

(* ---------- run start ---------- *)

Lemma find_start_spec l v : forall p, p < length l -> at_ l p = v -> sorted l ->
  exists s, find_start l p v = Ok s /\ s <= p /\
            (forall q, s <= q <= p -> at_ l q = v) /\
            (forall q, q < s -> (at_ l q < v)%N).
Proof.
  induction p as [|p' IH]; intros Hp Hv Hs.
  - exists 0. cbn. repeat split; try lia. intros q Hq. assert (q = 0) by lia. now subst.
  - cbn [find_start]. rewrite (nth_error_at l p') by lia.
    destruct (N.eqb_spec (at_ l p') v) as [E|E].
    + destruct (IH ltac:(lia) E Hs) as (s & Hfs & Hle & Hall & Hbefore).
      exists s. split; [assumption|]. split; [lia|]. split; [|assumption].
      intros q Hq. destruct (Nat.eq_dec q (S p')) as [->|]; [assumption|]. apply Hall. lia.
    + exists (S p'). split; [reflexivity|]. split; [lia|]. split.
      * intros q Hq. assert (q = S p') by lia. now subst.
      * intros q Hq. pose proof (Hs q p' ltac:(lia) ltac:(lia)).
        pose proof (Hs p' (S p') ltac:(lia) ltac:(lia)). lia.
Qed.

(* ---------- run length ---------- *)

Lemma at_skipn l n q : at_ (skipn n l) q = at_ l (n + q).
Proof. unfold at_. revert l; induction n as [|n IH]; intros l; [reflexivity|].
  destruct l as [|x t]; cbn [skipn]; [destruct q; reflexivity | apply IH]. Qed.

Lemma run_len_spec t v :
  run_len t v <= length t /\
  (forall q, q < run_len t v -> at_ t q = v) /\
  (run_len t v < length t -> at_ t (run_len t v) <> v).
Proof.
  induction t as [|x t IH]; cbn [run_len length].
  - repeat split; intros; lia.
  - destruct (N.eqb_spec x v) as [E|E].
    + destruct IH as (I1 & I2 & I3). split; [lia|]. split.
      * intros [|q] Hq; [exact E|]. apply I2. lia.
      * intros H. apply I3. lia.
    + split; [lia|]. split; [intros; lia|]. intros _. exact E.
Qed.

(* ---------- find_offset / get_offset ---------- *)

Theorem find_offset_spec l i : sorted l -> l <> [] -> (at_ l 0 <= i)%N ->
  exists s e tm nx,
    find_offset l i = Ok (mk_offset s (u16_wrap (N.of_nat e)) tm nx) /\
    group_spec l i s e tm (match nx with Some x => Some x | None =>
                             if s + e <? length l then Some 0%N else None end) /\
    (nx = None -> s + e < length l -> at_ l (s + e) = 0%N).
Proof.
  intros Hs Hne H0.
  destruct (binary_search_spec l i Hs Hne H0) as (p & Hbs & Hp & Hle & Hgt).
  destruct (find_start_spec l (at_ l p) p Hp eq_refl Hs) as (s & Hfs & Hsp & Hall & Hbefore).
  pose proof (run_len_spec (skipn (S s) l) (at_ l p)) as (R1 & R2 & R3).
  set (r := run_len (skipn (S s) l) (at_ l p)) in *.
  rewrite skipn_length in R1, R3.
  assert (Hats : at_ l s = at_ l p) by (apply Hall; lia).
  assert (Hrun : forall q, s <= q < s + S r -> at_ l q = at_ l p).
  { intros q Hq. destruct (Nat.eq_dec q s) as [->|]; [assumption|].
    specialize (R2 (q - S s) ltac:(lia)). rewrite at_skipn in R2.
    replace (S s + (q - S s)) with q in R2 by lia. exact R2. }
  assert (Hp_in : p < s + S r).
  { destruct (Nat.lt_ge_cases p (s + S r)) as [|Hge]; [assumption|exfalso].
    assert (r < length l - S s) by lia. specialize (R3 H).
    rewrite at_skipn in R3. apply R3.
    pose proof (Hs s (S s + r) ltac:(lia) ltac:(lia)).
    pose proof (Hs (S s + r) p ltac:(lia) ltac:(lia)). lia. }
  assert (Hafter : forall q, s + S r <= q < length l -> (at_ l p < at_ l q)%N).
  { intros q Hq. assert (Hr : r < length l - S s) by lia. specialize (R3 Hr).
    rewrite at_skipn in R3.
    pose proof (Hs p (S s + r) ltac:(lia) ltac:(lia)).
    pose proof (Hs (S s + r) q ltac:(lia) ltac:(lia)). lia. }
  unfold find_offset. rewrite Hbs. cbn [bind]. rewrite (nth_error_at l p Hp). cbn [of_option bind].
  rewrite Hfs. cbn [bind]. fold r.
  exists s, (S r), (N.eqb (at_ l p) i).
  destruct (Nat.ltb_spec (s + S r) (length l)) as [Hin|Hout].
  - rewrite (nth_error_at l (s + S r) Hin).
    exists (nonzero_new (at_ l (s + S r))). split; [reflexivity|]. split.
    + apply Build_group_spec.
      * lia.
      * lia.
      * rewrite Hats. exact Hle.
      * intros q Hq. rewrite Hats. now apply Hrun.
      * intros q Hq. rewrite Hats. now apply Hbefore.
      * intros q Hq. specialize (Hafter q Hq).
        destruct (N.eq_dec (at_ l p) i) as [E|E]; [lia|]. apply Hgt; try lia.
      * intros q Hq. rewrite Hats. now apply Hafter.
      * now rewrite Hats.
      * destruct (Nat.ltb_spec (s + S r) (length l)); [|lia].
        unfold nonzero_new. destruct (N.eqb_spec (at_ l (s + S r)) 0) as [->|]; reflexivity.
    + unfold nonzero_new. destruct (N.eqb_spec (at_ l (s + S r)) 0); [auto|discriminate].
  - assert (Hnone : nth_error l (s + S r) = None) by (apply nth_error_None; lia).
    rewrite Hnone. exists None. split; [reflexivity|]. split.
    + destruct (Nat.ltb_spec (s + S r) (length l)); [lia|].
      apply Build_group_spec.
      * lia.
      * lia.
      * rewrite Hats. exact Hle.
      * intros q Hq. rewrite Hats. now apply Hrun.
      * intros q Hq. rewrite Hats. now apply Hbefore.
      * intros q Hq. lia.
      * intros q Hq. lia.
      * now rewrite Hats.
      * destruct (Nat.ltb_spec (s + S r) (length l)); [lia|reflexivity].
    + intros; lia.
Qed.

(* NonZero::new never drops a real successor: the element after the group is > at_ l s >= 0 *)
Lemma next_index_nonzero l i s e tm nx : group_spec l i s e tm nx ->
  s + e < length l -> at_ l (s + e) <> 0%N.
Proof.
  intros G H. pose proof (gs_group_maximal _ _ _ _ _ _ G (s + e) ltac:(lia)). lia.
Qed.

Definition run_fits_u16 (l : list N) : Prop :=
  forall s e, (forall q, s <= q < s + e -> at_ l q = at_ l s) -> s + e <= length l -> (N.of_nat e < 65536)%N.

Theorem get_offset_none l i : sorted l ->
  (get_offset l i = Ok None <-> no_change_le l i).
Proof.
  intros Hs. destruct l as [|x t].
  - cbn. split; [intros _ q Hq; cbn in Hq; lia|reflexivity].
  - cbn [get_offset]. destruct (N.ltb_spec i x) as [Hlt|Hge].
    + split; [|reflexivity]. intros _ q Hq.
      pose proof (Hs 0 q ltac:(lia) Hq). unfold at_ in *. cbn [nth] in *. lia.
    + split.
      * intros H. exfalso.
        destruct (find_offset_spec (x :: t) i Hs ltac:(discriminate) Hge) as (s & e & tm & nx & E & _).
        rewrite E in H. discriminate.
      * intros H. specialize (H 0 ltac:(cbn; lia)). unfold at_ in H. cbn in H. lia.
Qed.

Theorem get_offset_some l i : sorted l -> run_fits_u16 l -> ~ no_change_le l i ->
  exists s e tm nx,
    get_offset l i = Ok (Some (mk_offset s (N.of_nat e) tm nx)) /\ group_spec l i s e tm nx.
Proof.
  intros Hs Hfit Hsome. destruct l as [|x t].
  - exfalso. apply Hsome. intros q Hq. cbn in Hq. lia.
  - cbn [get_offset]. destruct (N.ltb_spec i x) as [Hlt|Hge].
    + exfalso. apply Hsome. intros q Hq.
      pose proof (Hs 0 q ltac:(lia) Hq). unfold at_ in *. cbn [nth] in *. lia.
    + destruct (find_offset_spec (x :: t) i Hs ltac:(discriminate) Hge)
        as (s & e & tm & nx & E & G & Hz).
      rewrite E. cbn [bind].
      assert (He : (N.of_nat e < 65536)%N).
      { apply (Hfit s e); [|apply (gs_in_range _ _ _ _ _ _ G)].
        intros q Hq. now apply (gs_group _ _ _ _ _ _ G). }
      assert (u16_wrap (N.of_nat e) = N.of_nat e) as ->.
      { unfold u16_wrap. apply N.mod_small. exact He. }
      exists s, e, tm, nx. split; [reflexivity|].
      destruct nx as [nx|]; [exact G|].
      destruct (Nat.ltb_spec (s + e) (length (x :: t))) as [Hin|Hout]; [|exact G].
      exfalso. exact (next_index_nonzero _ _ _ _ _ _ G Hin (Hz eq_refl Hin)).
Qed.

(* group_spec determines the answer uniquely: the specification is functional *)
Theorem group_spec_unique l i s e tm nx s' e' tm' nx' :
  group_spec l i s e tm nx -> group_spec l i s' e' tm' nx' ->
  s = s' /\ e = e' /\ tm = tm' /\ nx = nx'.
Proof.
  intros G G'.
  assert (Hs : s = s').
  { destruct (Nat.lt_total s s') as [H|[H|H]]; [exfalso| assumption |exfalso].
    - pose proof (gs_first _ _ _ _ _ _ G' s H).
      destruct (Nat.lt_ge_cases s' (s + e)) as [H1|H1].
      + pose proof (gs_group _ _ _ _ _ _ G s' ltac:(lia)). lia.
      + pose proof (gs_greatest _ _ _ _ _ _ G s'
                      ltac:(pose proof (gs_in_range _ _ _ _ _ _ G'); pose proof (gs_nonempty _ _ _ _ _ _ G'); lia)).
        pose proof (gs_le _ _ _ _ _ _ G'). lia.
    - pose proof (gs_first _ _ _ _ _ _ G s' H).
      destruct (Nat.lt_ge_cases s (s' + e')) as [H1|H1].
      + pose proof (gs_group _ _ _ _ _ _ G' s ltac:(lia)). lia.
      + pose proof (gs_greatest _ _ _ _ _ _ G' s
                      ltac:(pose proof (gs_in_range _ _ _ _ _ _ G); pose proof (gs_nonempty _ _ _ _ _ _ G); lia)).
        pose proof (gs_le _ _ _ _ _ _ G). lia. }
  subst s'.
  assert (He : e = e').
  { destruct (Nat.lt_total e e') as [H|[H|H]]; [exfalso| assumption |exfalso].
    - pose proof (gs_group _ _ _ _ _ _ G' (s + e) ltac:(pose proof (gs_nonempty _ _ _ _ _ _ G); lia)).
      pose proof (gs_group_maximal _ _ _ _ _ _ G (s + e)
                    ltac:(pose proof (gs_in_range _ _ _ _ _ _ G'); lia)). lia.
    - pose proof (gs_group _ _ _ _ _ _ G (s + e') ltac:(pose proof (gs_nonempty _ _ _ _ _ _ G'); lia)).
      pose proof (gs_group_maximal _ _ _ _ _ _ G' (s + e')
                    ltac:(pose proof (gs_in_range _ _ _ _ _ _ G); lia)). lia. }
  subst e'. repeat split.
  - rewrite (gs_time_match _ _ _ _ _ _ G), (gs_time_match _ _ _ _ _ _ G'). reflexivity.
  - rewrite (gs_next _ _ _ _ _ _ G), (gs_next _ _ _ _ _ _ G'). reflexivity.
Qed.

(* iter_changes / get_time_idx_at agree with time_indices position by position *)
Theorem iter_agree {V} (l : list N) (vals : list V) : length l = length vals ->
  map fst (iter_changes l vals) = l /\ map snd (iter_changes l vals) = vals.
Proof.
  unfold iter_changes. revert vals. induction l as [|x t IH]; intros [|v vs] H; cbn in *;
    try discriminate; [split; reflexivity|].
  destruct (IH vs ltac:(lia)) as [-> ->]. split; reflexivity.
Qed.

Theorem time_idx_at_group l i s e tm nx : group_spec l i s e tm nx ->
  get_time_idx_at l (mk_offset s (N.of_nat e) tm nx) = Ok (at_ l s) /\
  forall k, k < e -> get_value_pos (mk_offset s (N.of_nat e) tm nx) (N.of_nat k) = Ok (s + k).
Proof.
  intros G. split.
  - unfold get_time_idx_at. cbn [do_start].
    rewrite nth_error_at; [reflexivity|].
    pose proof (gs_in_range _ _ _ _ _ _ G). pose proof (gs_nonempty _ _ _ _ _ _ G). lia.
  - intros k Hk. unfold get_value_pos. cbn [do_elements do_start].
    destruct (N.ltb_spec (N.of_nat k) (N.of_nat e)); [|lia]. now rewrite Nat2N.id.
Qed.

(* non-vacuity: a concrete sequence with delta-cycle runs at both ends and in the middle *)
Example nonvacuous_query :
  get_offset [0;0;2;2;2;5;5]%N 3%N = Ok (Some (mk_offset 2 3 false (Some 5%N))) /\
  get_offset [0;0;2;2;2;5;5]%N 0%N = Ok (Some (mk_offset 0 2 true (Some 2%N))) /\
  get_offset [0;0;2;2;2;5;5]%N 9%N = Ok (Some (mk_offset 5 2 false None)) /\
  get_offset [3;4]%N 2%N = Ok None.
Proof. repeat split; reflexivity. Qed.
