(* Storage layer (wavemem.rs): the value stream written by SignalEncoder is read back by
   load_fixed_len_signal as the de-duplicated list of widened entries, and every widened entry
   renders as the characters that were recorded.  Groundwork for C04 (and C01/C03/C11). *)
From Coq Require Import Lia ZifyBool ZifyNat ZifyN.
From WV Require Import Model.Base Generated.Consts Model.Bits Model.Leb128 Model.WaveMem
  Proofs.BitsProofs Proofs.LebProofs Proofs.WaveMemProofs.
Ltac Zify.zify_post_hook ::= Z.div_mod_to_equations.
Open Scope N_scope.
Arguments N.add : simpl never. Arguments N.mul : simpl never. Arguments N.div : simpl never.
Arguments N.modulo : simpl never. Arguments N.pow : simpl never. Arguments N.lor : simpl never.

(* ------------------------------------------------------------------ list equality, dedup *)

Lemma list_eqb_spec a : forall b, list_eqb a b = true <-> a = b.
Proof.
  induction a as [|x a IH]; intros [|y b]; cbn [list_eqb]; split; intros H; try discriminate; try reflexivity.
  - apply andb_prop in H as [H1 H2]. apply N.eqb_eq in H1. apply IH in H2. now subst.
  - inversion H; subst. rewrite N.eqb_refl. cbn. now apply IH.
Qed.

Lemma ccat_first bpe e : length e = bpe -> (0 < bpe)%nat ->
  check_if_changed_and_truncate bpe e = (true, e).
Proof.
  intros H Hp. unfold check_if_changed_and_truncate.
  destruct (Nat.ltb_spec (length e) (2 * bpe)); [reflexivity|lia].
Qed.

Lemma ccat_next bpe pre prev new : length prev = bpe -> length new = bpe ->
  check_if_changed_and_truncate bpe (pre ++ prev ++ new)
  = if list_eqb prev new then (false, pre ++ prev) else (true, pre ++ prev ++ new).
Proof.
  intros Hp Hn. unfold check_if_changed_and_truncate.
  rewrite !app_length, Hp, Hn.
  destruct (Nat.ltb_spec (length pre + (bpe + bpe)) (2 * bpe)) as [Hlt|Hge].
  - lia.
  - replace (length pre + (bpe + bpe) - 2 * bpe)%nat with (length pre) by lia.
    replace (length pre + (bpe + bpe) - bpe)%nat with (length (pre ++ prev)) by (rewrite app_length; lia).
    rewrite skipn_app, skipn_all, Nat.sub_diag. cbn [skipn app].
    rewrite firstn_app, firstn_all2 by lia. rewrite Hp, Nat.sub_diag. cbn [firstn]. rewrite app_nil_r.
    rewrite app_assoc. rewrite skipn_app, skipn_all, Nat.sub_diag. cbn [skipn app].
    rewrite firstn_app, firstn_all, Nat.sub_diag. cbn [firstn]. rewrite app_nil_r.
    rewrite <- app_assoc. reflexivity.
Qed.

(* the canonical (de-duplicated) entry list: an entry equal to its predecessor is dropped *)
Definition push_canon {T} (canon : list (T * list byte)) (te : T * list byte) : list (T * list byte) :=
  match last_opt canon with
  | Some (_, prev) => if list_eqb prev (snd te) then canon else canon ++ [te]
  | None => canon ++ [te]
  end.

Lemma last_opt_app {A} (l : list A) x : last_opt (l ++ [x]) = Some x.
Proof. induction l as [|y l IH]; [reflexivity|]. cbn [app last_opt]. destruct (l ++ [x]) eqn:E; [destruct l; discriminate|]. exact IH. Qed.

Lemma last_opt_none {A} (l : list A) : last_opt l = None -> l = [].
Proof. destruct l as [|x l] using rev_ind; [reflexivity|]. now rewrite last_opt_app. Qed.

Lemma last_opt_some {A} (l : list A) x : last_opt l = Some x -> exists l', l = l' ++ [x].
Proof. destruct l as [|y l _] using rev_ind; [discriminate|]. rewrite last_opt_app. intros H; inversion H; subst. now exists l. Qed.

Definition entries_ok (bpe : nat) {T} (canon : list (T * list byte)) := Forall (fun te => length (snd te) = bpe) canon.

(* accumulating one entry: the loader's (indices, bytes) pair follows push_canon *)
Lemma push_entry_spec bpe (canon : list (N * list byte)) t e : (0 < bpe)%nat ->
  entries_ok bpe canon -> length e = bpe ->
  let '(changed, out) := check_if_changed_and_truncate bpe (concat (map snd canon) ++ e) in
  (if changed then map fst canon ++ [t] else map fst canon) = map fst (push_canon canon (t, e)) /\
  out = concat (map snd (push_canon canon (t, e))) /\
  entries_ok bpe (push_canon canon (t, e)).
Proof.
  intros Hb Hok He. unfold push_canon.
  destruct (last_opt canon) as [[tp prev]|] eqn:El.
  - apply last_opt_some in El as [c' ->]. 
    apply Forall_app in Hok as [Hok' Hp]. apply Forall_cons_iff in Hp as [Hp _]. cbn [snd] in Hp.
    rewrite map_app, concat_app. cbn [map concat snd]. rewrite app_nil_r, <- app_assoc.
    rewrite (ccat_next bpe _ prev e Hp He). cbn [snd].
    destruct (list_eqb prev e) eqn:Eq.
    + split; [reflexivity|]. split.
      * rewrite map_app, concat_app. cbn. now rewrite app_nil_r.
      * apply Forall_app; split; [assumption|]. now constructor.
    + split; [now rewrite !map_app|]. split.
      * rewrite !map_app, !concat_app. cbn. now rewrite !app_nil_r, <- app_assoc.
      * apply Forall_app; split; [apply Forall_app; split; [assumption|now constructor]|now constructor].
  - apply last_opt_none in El. subst canon. cbn [map concat app].
    rewrite (ccat_first bpe e He Hb). cbn. rewrite app_nil_r. repeat split. now constructor.
Qed.

(* ------------------------------------------------------------------ widened entries *)

(* the entry load_fixed_len_signal (and the FST SignalWriter) appends for a value of kind `local`
   packed in `buf`, in a signal whose widest kind is `mx` *)
Definition wide (mx : states) (bits : nat) (local : states) (buf : list byte) : list byte :=
  let '(len, has_meta) := get_len_and_meta mx bits in
  let '(local_len, local_has_meta) := get_len_and_meta local bits in
  let meta_data := states_num local * 64 in
  if Nat.eqb local_len len && Bool.eqb local_has_meta has_meta then
    if has_meta then meta_data :: buf else N.lor meta_data (hd 0 buf) :: tl buf
  else meta_data :: zeros (if has_meta then len - local_len else len - local_len - 1) ++ buf.

Definition bpe_of (mx : states) (bits : nat) : nat :=
  get_bytes_per_entry (fst (get_len_and_meta mx bits)) (snd (get_len_and_meta mx bits)).

Definition wf_entry (mx : states) (bits : nat) (local : states) (buf : list byte) : Prop :=
  (1 <= bits)%nat /\ states_num local <= states_num mx /\ length buf = div_ceil bits (per_byte local).

Lemma zeros_length n : length (zeros n) = n. Proof. apply repeat_length. Qed.

Lemma wide_length mx bits local buf : wf_entry mx bits local buf ->
  length (wide mx bits local buf) = bpe_of mx bits.
Proof.
  intros (Hb & Hle & Hl). unfold wide, bpe_of, get_len_and_meta, get_bytes_per_entry, states_eqb.
  cbn [fst snd].
  assert (Hne : buf <> []).
  { intros ->. cbn in Hl. unfold div_ceil in Hl. destruct local; cbn [per_byte] in Hl; lia. }
  destruct buf as [|b0 br]; [congruence|]. cbn [hd tl].
  destruct mx, local; cbn [states_num per_byte] in *; try lia; unfold div_ceil in *;
    cbn [negb N.eqb Pos.eqb andb]; cbn [length] in *;
    repeat match goal with
    | |- context [Nat.eqb ?a ?b] => destruct (Nat.eqb_spec a b)
    end; cbn [andb Bool.eqb negb length app]; rewrite ?app_length, ?zeros_length; cbn [length]; lia.
Qed.

(* the code of load_fixed_len_signal never panics on a well-formed entry and produces `wide` *)
Lemma wide_code mx bits local buf : wf_entry mx bits local buf ->
  (let '(len, has_meta) := get_len_and_meta mx bits in
   let '(local_len, local_has_meta) := get_len_and_meta local bits in
   let meta_data := states_num local * 64 in
   if Nat.eqb local_len len && Bool.eqb local_has_meta has_meta then
     if has_meta then Ok (meta_data :: buf)
     else match buf with b0 :: br => Ok (N.lor meta_data b0 :: br) | [] => Panic end
   else
     do pad <- (if has_meta then usub len local_len else do x <- usub len local_len; usub x 1);
     Ok (meta_data :: zeros pad ++ buf)) = Ok (wide mx bits local buf).
Proof.
  intros (Hb & Hle & Hl). unfold wide, get_len_and_meta, states_eqb, usub.
  assert (Hne : buf <> []).
  { intros ->. cbn in Hl. unfold div_ceil in Hl. destruct local; cbn [per_byte] in Hl; lia. }
  destruct buf as [|b0 br]; [congruence|]. cbn [hd tl].
  destruct mx, local; cbn [states_num per_byte] in *; try lia; unfold div_ceil in *;
    cbn [negb N.eqb Pos.eqb andb];
    repeat match goal with
    | |- context [Nat.eqb ?a ?b] => destruct (Nat.eqb_spec a b)
    end; cbn [andb Bool.eqb negb bind]; try reflexivity;
    repeat match goal with
    | |- context [(?a <=? ?b)%nat] => destruct (Nat.leb_spec a b); cbn [bind]
    end; try reflexivity; try lia.
Qed.

(* ------------------------------------------------------------------ the value stream of one block *)

(* one recorded change: (time index delta, kind of the value, packed value) *)
Definition sentry := (N * states * list byte)%type.

(* 1-bit signals store the value in the leb128 word itself (4 bits), wider signals the kind (2 bits) followed by
   the packed value *)
Definition enc_entry (bits : nat) (e : sentry) : list byte :=
  let '(delta, local, packed) := e in
  if Nat.eqb bits 1 then leb_write (delta * 16 + hd 0 packed)
  else leb_write (delta * 4 + states_num local) ++ packed.

Definition enc_stream (bits : nat) (es : list sentry) : list byte := concat (map (enc_entry bits) es).

Definition wf_sentry (mx : states) (bits : nat) (e : sentry) : Prop :=
  let '(delta, local, packed) := e in
  wf_entry mx bits local packed /\
  (if Nat.eqb bits 1 then delta * 16 + hd 0 packed < 2 ^ 32 /\ hd 0 packed <= 8 /\ local = from_value (hd 0 packed)
   else delta * 4 + states_num local < 2 ^ 32).

(* accumulate the decoded entries of a stream (time index = running sum of the deltas) *)
Fixpoint load_spec (mx : states) (bits : nat) (es : list sentry) (t : N) (canon : list (N * list byte))
  : list (N * list byte) :=
  match es with
  | [] => canon
  | (delta, local, packed) :: r =>
    load_spec mx bits r (t + delta) (push_canon canon (t + delta, wide mx bits local packed))
  end.

Definition acc_rep (bpe : nat) (acc : load_acc) (canon : list (N * list byte)) : Prop :=
  la_idx acc = map fst canon /\ la_bytes acc = concat (map snd canon) /\ entries_ok bpe canon.

Lemma bpe_pos mx bits : (1 <= bits)%nat -> (0 < bpe_of mx bits)%nat.
Proof.
  intros H. unfold bpe_of, get_len_and_meta, get_bytes_per_entry, div_ceil. cbn [fst snd].
  destruct (negb _ && _); [lia|]. destruct mx; cbn [per_byte]; lia.
Qed.

Lemma pow32 : 2 ^ 32 = 4294967296. Proof. reflexivity. Qed.

Lemma from_value_meta_sweep :
  forallb (fun v => (N.lor v (states_num (from_value v) * 64) =? N.lor (states_num (from_value v) * 64) v)) small9 = true.
Proof. vm_compute. reflexivity. Qed.

Lemma load_fixed_step f e rest t bits mx acc canon :
  wf_sentry mx bits e -> acc_rep (bpe_of mx bits) acc canon ->
  exists acc', acc_rep (bpe_of mx bits) acc'
                 (push_canon canon (t + fst (fst e), wide mx bits (snd (fst e)) (snd e))) /\
    load_fixed (S f) (enc_entry bits e ++ rest) t bits mx acc
    = load_fixed f rest (t + fst (fst e)) bits mx acc' /\ la_strings acc' = la_strings acc.
Proof.
  destruct e as [[delta local] packed]. intros [Hwf Hlt] (Hi & Hby & Hok). cbn [fst snd].
  pose proof Hwf as (Hb & Hle & Hl).
  pose proof (wide_code mx bits local packed Hwf) as Hc.
  pose proof (wide_length mx bits local packed Hwf) as Hwl.
  assert (Hpos : (0 < bpe_of mx bits)%nat) by (apply bpe_pos; exact Hb).
  pose proof (push_entry_spec (bpe_of mx bits) canon (t + delta) (wide mx bits local packed)) as Hp.
  rewrite <- Hby in Hp. specialize (Hp Hpos Hok Hwl).
  cbn [load_fixed enc_entry].
  destruct (Nat.eqb_spec bits 1) as [E1|E1].
  - (* one bit: the value travels in the leb128 word *)
    subst bits. destruct Hlt as (Hlt & Hv8 & Hloc).
    assert (Hpk : exists v, packed = [v]).
    { unfold div_ceil in Hl. destruct packed as [|v [|v2 r]]; [cbn in Hl; destruct local; cbn in Hl; lia|eexists; reflexivity|
        cbn [length] in Hl; destruct local; cbn [per_byte] in Hl; lia]. }
    destruct Hpk as [v ->]. cbn [hd] in *.
    rewrite leb_roundtrip by (assert (2 ^ 32 < 2 ^ 64) by (apply N.pow_lt_mono_r; lia); lia).
    unfold u32_wrap. rewrite pow32 in Hlt. rewrite (N.mod_small _ _ Hlt).
    replace ((delta * 16 + v) mod 16) with v by lia.
    replace ((delta * 16 + v) / 16) with delta by lia.
    cbn [bind].
    assert (Hw : [N.lor v (states_num (from_value v) * 64)] = wide mx 1 local [v]).
    { unfold wide, get_len_and_meta, states_eqb, div_ceil. subst local.
      assert (Hl1 : forall st, ((1 + per_byte st - 1) / per_byte st)%nat = 1%nat) by (intros [| |]; reflexivity).
      assert (Hm1 : forall st, negb (states_num st =? 0) && Nat.eqb (1 mod per_byte st) 0 = false) by (intros [| |]; reflexivity).
      rewrite !Hl1, !Hm1. cbn [Nat.eqb Bool.eqb andb hd tl]. f_equal.
      pose proof from_value_meta_sweep as S. rewrite forallb_forall in S. specialize (S v (le8_in v Hv8)). now apply N.eqb_eq. }
    unfold bpe_of in *. destruct (get_len_and_meta mx 1) as [len has_meta] eqn:Eg. cbn [fst snd] in *.
    rewrite Hw.
    destruct (check_if_changed_and_truncate _ _) as [changed out]. destruct Hp as (Hp1 & Hp2 & Hp3).
    eexists. split; [|split; [reflexivity|]].
    + unfold acc_rep. destruct changed; cbn [la_idx la_bytes]; rewrite <- ?Hi in Hp1; repeat split; try assumption; now rewrite Hi in Hp1.
    + now destruct changed.
  - rewrite <- app_assoc.
    rewrite leb_roundtrip by (assert (2 ^ 32 < 2 ^ 64) by (apply N.pow_lt_mono_r; lia); lia).
    unfold u32_wrap. rewrite pow32 in Hlt. rewrite (N.mod_small _ _ Hlt).
    pose proof (states_num_lt4 local) as Hn.
    replace ((delta * 4 + states_num local) mod 4) with (states_num local) by lia.
    replace ((delta * 4 + states_num local) / 4) with delta by lia.
    rewrite states_of_num_num. cbn [of_option bind].
    unfold bpe_of in *.
    destruct (get_len_and_meta mx bits) as [len has_meta] eqn:Eg. cbn [fst snd] in *.
    rewrite app_length. destruct (Nat.ltb_spec (length packed + length rest) (div_ceil bits (per_byte local))) as [Hlt'|_]; [lia|].
    rewrite <- Hl. rewrite firstn_app, firstn_all, Nat.sub_diag. cbn [firstn]. rewrite app_nil_r.
    rewrite skipn_app, skipn_all, Nat.sub_diag. cbn [skipn app].
    destruct (get_len_and_meta local bits) as [local_len local_has_meta] eqn:El.
    rewrite Hc. cbn [bind].
    destruct (check_if_changed_and_truncate _ _) as [changed out]. destruct Hp as (Hp1 & Hp2 & Hp3).
    eexists. split; [|split; [reflexivity|]].
    + unfold acc_rep. destruct changed; cbn [la_idx la_bytes]; rewrite <- ?Hi in Hp1; repeat split; try assumption; now rewrite Hi in Hp1.
    + now destruct changed.
Qed.

Lemma leb_read_nil : leb_read [] = None. Proof. reflexivity. Qed.

(* load_fixed_len_signal over a whole stream: the canonical entries of load_spec *)
Theorem load_fixed_stream mx bits : forall es fuel t acc canon,
  Forall (wf_sentry mx bits) es -> acc_rep (bpe_of mx bits) acc canon -> (length es < fuel)%nat ->
  exists acc', load_fixed fuel (enc_stream bits es) t bits mx acc = Ok acc' /\
               acc_rep (bpe_of mx bits) acc' (load_spec mx bits es t canon) /\
               la_strings acc' = la_strings acc.
Proof.
  induction es as [|e es IH]; intros fuel t acc canon Hwf Hrep Hf.
  - destruct fuel as [|f]; [cbn in Hf; lia|]. cbn. exists acc. repeat split; apply Hrep.
  - destruct fuel as [|f]; [cbn in Hf; lia|].
    apply Forall_cons_iff in Hwf as [He Hes].
    unfold enc_stream. cbn [map concat]. fold (enc_stream bits es).
    destruct (load_fixed_step f e (enc_stream bits es) t bits mx acc canon He Hrep) as (acc1 & Hrep1 & -> & Hs1).
    destruct e as [[delta local] packed]. cbn [fst snd] in *.
    destruct (IH f (t + delta) acc1 _ Hes Hrep1 ltac:(cbn in Hf; lia)) as (acc' & H1 & H2 & H3).
    exists acc'. split; [exact H1|]. split; [exact H2|congruence].
Qed.

(* ------------------------------------------------------------------ rendering of widened entries *)

Lemma in_range (k : nat) (n : N) : n < N.of_nat k -> In n (map N.of_nat (seq 0 k)).
Proof. intros H. apply in_map_iff. exists (N.to_nat n). split; [lia|]. apply in_seq. lia. Qed.

Lemma lor_meta_sweep :
  forallb (fun k => forallb (fun b => (N.lor (k * 64) b =? k * 64 + b)) (map N.of_nat (seq 0 64)))
          [0; 1; 2] = true.
Proof. vm_compute. reflexivity. Qed.

Lemma lor_meta st b : b < 64 -> N.lor (states_num st * 64) b = states_num st * 64 + b.
Proof.
  intros Hb. pose proof lor_meta_sweep as H. rewrite forallb_forall in H.
  assert (Hin : In (states_num st) [0; 1; 2]) by (destruct st; cbn; auto).
  specialize (H _ Hin). rewrite forallb_forall in H.
  specialize (H b (in_range 64 b Hb)). now apply N.eqb_eq in H.
Qed.

(* the kind bits or-ed into a partial first byte are invisible to the symbol extraction and
   are read back by `(byte >> 6) & 3` *)
Lemma pack_unpack_meta st local syms : small_syms st syms ->
  (length syms mod per_byte st <> 0)%nat -> (N.of_nat (length syms mod per_byte st) * sbits st <= 6) ->
  let packed := write_n_state_loop st syms 0 None in
  let b0 := N.lor (states_num local * 64) (hd 0 packed) in
  n_state_symbols st (b0 :: tl packed) (length syms) = Ok syms /\ (b0 / 64) mod 4 = states_num local.
Proof.
  intros Hs Hm H6. cbn zeta. rewrite wns_is_loop.
  pose proof (per_byte_pos st) as Hpb. pose proof (per_byte_sbits st) as Hsb.
  destruct (decompose (sbits st) (per_byte st) Hpb Hsb syms) as (h & cs & -> & Hh & Hcs).
  apply Forall_app in Hs as [Hsh Hsc].
  pose proof (forall_small_concat (sbits st) cs Hsc) as Hsc'.
  rewrite (length_mod_decomposed (sbits st) (per_byte st) Hpb Hsb h cs Hh Hcs) in *.
  rewrite (wns_decomposed (sbits st) (per_byte st) Hpb Hsb h cs Hh Hcs).
  destruct h as [|s h']; [cbn in Hm; lia|]. cbn [hd tl].
  pose proof (val_small (sbits st) (per_byte st) Hpb Hsb (s :: h') Hsh) as Hv.
  assert (H64 : val (sbits st) 0 (s :: h') < 64).
  { eapply N.lt_le_trans; [exact Hv|]. change 64 with (2 ^ 6). apply N.pow_le_mono_r; lia. }
  rewrite (lor_meta local _ H64). split.
  - unfold n_state_symbols.
    destruct (Nat.eqb_spec (length ((s :: h') ++ concat cs)) 0) as [E0|_]; [cbn in E0; lia|].
    rewrite (length_mod_decomposed (sbits st) (per_byte st) Hpb Hsb (s :: h') cs Hh Hcs).
    cbn [length]. f_equal.
    change (flat_map (digits st (per_byte st))) with (flat_map (gdigits (sbits st) (per_byte st))).
    rewrite (unpack_chunks (sbits st) (per_byte st) Hpb Hsb) by assumption. f_equal.
    change (S (length h')) with (length (s :: h')).
    set (e := N.of_nat (length (s :: h')) * sbits st) in *.
    replace (states_num local * 64) with ((states_num local * 2 ^ (6 - e)) * 2 ^ e).
    + apply (gdigits_val (sbits st) (per_byte st) Hpb Hsb (s :: h') _ Hsh).
    + rewrite <- N.mul_assoc, <- N.pow_add_r. replace (6 - e + e) with 6 by lia. reflexivity.
  - pose proof (states_num_lt4 local). lia.
Qed.

Lemma skipn_pre {A} (pre l : list A) k : k = length pre -> skipn k (pre ++ l) = l.
Proof. intros ->. rewrite skipn_app, skipn_all, Nat.sub_diag. reflexivity. Qed.

Lemma packed_nonempty st syms : (0 < length syms)%nat -> write_n_state_loop st syms 0 None <> [].
Proof.
  intros H E. apply (f_equal (@length _)) in E. rewrite packed_length in E. cbn [length] in E.
  unfold div_ceil in E. pose proof (per_byte_pos st). destruct st; cbn [per_byte] in *; lia.
Qed.

(* what SignalChangeData::get_value_at needs from an entry: the kind bits, enough bytes, and the
   symbols of the packed value after dropping the padding *)
Lemma wide_decode mx bits local syms :
  (1 <= bits)%nat -> length syms = bits -> small_syms local syms -> states_num local <= states_num mx ->
  let w := wide mx bits local (write_n_state_loop local syms 0 None) in
  let data := if snd (get_len_and_meta mx bits) then tl w else w in
  (mx = Two -> n_state_symbols Two data bits = Ok syms) /\
  (mx <> Two -> (hd 0 w / 64) mod 4 = states_num local /\
                (div_ceil bits (per_byte local) <= length data)%nat /\
                n_state_symbols local (skipn (length data - div_ceil bits (per_byte local)) data) bits = Ok syms).
Proof.
  intros Hb Hl Hs Hle. cbn zeta.
  pose proof (packed_length local syms) as Hpl. rewrite Hl in Hpl.
  pose proof (pack_unpack local syms Hs) as Hpu. rewrite Hl in Hpu.
  pose proof (packed_nonempty local syms ltac:(lia)) as Hne.
  pose proof (pack_unpack_meta local local syms Hs) as Hpm. rewrite Hl in Hpm. cbn zeta in Hpm.
  pose proof (states_num_lt4 local) as Hn4.
  set (packed := write_n_state_loop local syms 0 None) in *.
  assert (Hmeta : (states_num local * 64 / 64) mod 4 = states_num local) by lia.
  clearbody packed.
  assert (Htl : S (length (tl packed)) = length packed) by (destruct packed; [congruence|reflexivity]).
  assert (Hht : hd 0 packed :: tl packed = packed) by (destruct packed; [congruence|reflexivity]).
  unfold wide, get_len_and_meta, states_eqb in *. cbn [fst snd].
  destruct mx, local; cbn [states_num per_byte sbits] in *; try lia; unfold div_ceil in *;
    cbn [negb N.eqb Pos.eqb andb] in *;
    repeat match goal with
    | |- context [Nat.eqb ?a ?b] => destruct (Nat.eqb_spec a b)
    end; cbn [andb Bool.eqb negb hd tl]; (split; [intros Hmx; try discriminate | intros Hmx; try congruence]).
  all: try (split; [first [exact Hmeta | idtac] | split]).
  all: cbn [length]; rewrite ?app_length, ?zeros_length, ?Hpl.
  all: try lia.
  all: try (rewrite Nat.sub_diag; cbn [skipn]).
  all: try exact Hpu.
  all: unfold byte in *.
  all: try (match goal with
            | |- context [skipn ?k (zeros ?p ++ ?l)] =>
              rewrite (@skipn_pre N (zeros p) l k) by (rewrite zeros_length; lia)
            | |- context [skipn ?k (?m :: zeros ?p ++ ?l)] =>
              change (m :: zeros p ++ l) with ((m :: zeros p) ++ l);
              rewrite (@skipn_pre N (m :: zeros p) l k) by (cbn [length]; rewrite zeros_length; lia)
            end; exact Hpu).
  all: try (rewrite N.mul_0_l, N.lor_0_l, Hht; rewrite ?Htl, ?Hpl, ?Nat.sub_diag; cbn [skipn]; exact Hpu).
  all: try (rewrite Htl, Hpl, Nat.sub_diag; cbn [skipn]; apply Hpm; lia).
Qed.

Lemma firstn_skipn_mid {A} (pre mid post : list A) n k : n = length pre -> k = length mid ->
  firstn k (skipn n (pre ++ mid ++ post)) = mid.
Proof. intros -> ->. rewrite skipn_app, skipn_all, Nat.sub_diag. cbn [skipn app].
  rewrite firstn_app, firstn_all, Nat.sub_diag. cbn [firstn]. now rewrite app_nil_r. Qed.

(* SignalChangeData::get_value_at on the k-th entry of a loaded bit-vector signal: the kind the
   value was recorded with and exactly its symbols, whatever the signal's widest kind is and
   whatever surrounds the entry *)
Theorem entry_render mx bits local syms pre post (k : nat) :
  (1 <= bits)%nat -> length syms = bits -> small_syms local syms -> states_num local <= states_num mx ->
  length pre = (k * bpe_of mx bits)%nat ->
  get_value_at (SigBits mx bits (snd (get_len_and_meta mx bits)) (bpe_of mx bits)
                        (pre ++ wide mx bits local (write_n_state_loop local syms 0 None) ++ post)) k
  = do s <- lookup_all (lookup_table local) syms; Ok (kind_of_states local, s).
Proof.
  intros Hb Hl Hs Hle Hpre.
  pose proof (wide_decode mx bits local syms Hb Hl Hs Hle) as Hd. cbn zeta in Hd.
  assert (Hwf : wf_entry mx bits local (write_n_state_loop local syms 0 None)).
  { repeat split; [assumption..|]. now rewrite packed_length, Hl. }
  pose proof (wide_length mx bits local _ Hwf) as Hwl.
  pose proof (bpe_pos mx bits Hb) as Hpos.
  set (w := wide mx bits local (write_n_state_loop local syms 0 None)) in *. clearbody w.
  unfold get_value_at.
  destruct (Nat.ltb_spec (length (pre ++ w ++ post)) (k * bpe_of mx bits + bpe_of mx bits)) as [Hlt|_].
  { rewrite !app_length in Hlt. lia. }
  rewrite (firstn_skipn_mid pre w post _ _ (eq_sym Hpre) (eq_sym Hwl)).
  assert (Hw : w <> []) by (intros ->; cbn in Hwl; lia).
  destruct w as [|w0 wr]; [congruence|].
  destruct Hd as [Hd2 Hd9].
  destruct (states_eqb mx Two) eqn:Emx.
  - assert (mx = Two) by (destruct mx; [reflexivity|discriminate..]). subst mx.
    assert (local = Two) by (destruct local; cbn in Hle; [reflexivity|lia..]). subst local.
    specialize (Hd2 eq_refl). cbn [get_len_and_meta snd states_eqb states_num N.eqb negb andb] in *.
    cbn [bind]. unfold n_state_to_bit_string. rewrite Hd2. cbn [bind]. reflexivity.
  - assert (Hne : mx <> Two) by (intros ->; discriminate).
    destruct (Hd9 Hne) as (Hk & Hlen & Hsym). cbn [hd] in Hk.
    assert (Hdata : (if snd (get_len_and_meta mx bits) then match w0 :: wr with [] => Panic | _ :: r => Ok r end else Ok (w0 :: wr))
                    = Ok (if snd (get_len_and_meta mx bits) then tl (w0 :: wr) else w0 :: wr)).
    { destruct (snd (get_len_and_meta mx bits)); reflexivity. }
    rewrite Hdata. cbn [bind].
    set (data := if snd (get_len_and_meta mx bits) then tl (w0 :: wr) else w0 :: wr) in *. clearbody data.
    destruct mx; [congruence| |]; cbn [hd_error of_option bind]; rewrite Hk, states_of_num_num; cbn [of_option bind];
      unfold usub; (destruct (Nat.leb_spec (div_ceil bits (per_byte local)) (length data)) as [_|Hc]; [|lia]);
      cbn [bind]; unfold n_state_to_bit_string; rewrite Hsym; cbn [bind]; reflexivity.
Qed.

Example entry_render_nonvacuous :
  get_value_at (SigBits Nine 3 false 2 ([9; 9] ++ wide Nine 3 Four (write_n_state_loop Four [2; 0; 1] 0 None) ++ [7])) 1
  = Ok (KFour, [120; 48; 49]).
Proof. vm_compute. reflexivity. Qed.

(* ------------------------------------------------------------------ what SignalEncoder writes (VCD path) *)

(* the value a VCD bit-vector change denotes: prefix stripped, extended to the declared width *)
Definition normalize (len : nat) (value : list byte) : outcome (list byte) :=
  do vb <- strip_prefix value;
  if Nat.eqb len 1 then match vb with c :: _ => Ok [c] | [] => Panic end   (* a scalar takes the first character *)
  else if Nat.eqb (length vb) len then Ok vb
  else do e <- expand_special_vector_cases vb len;
       match e with None => Panic | Some x => Ok x end.

Lemma chars_to_nums_app a : forall b na nb, chars_to_nums a = Some na -> chars_to_nums b = Some nb ->
  chars_to_nums (a ++ b) = Some (na ++ nb).
Proof.
  induction a as [|c a IH]; intros b na nb Ha Hb; cbn [chars_to_nums app] in *.
  - inversion Ha. exact Hb.
  - destruct (bit_char_to_num c); [|discriminate]. destruct (chars_to_nums a) as [la|]; [|discriminate].
    inversion Ha; subst. now rewrite (IH b la nb eq_refl Hb).
Qed.

Lemma chars_to_nums_repeat c v n : bit_char_to_num c = Some v -> chars_to_nums (repeat c n) = Some (repeat v n).
Proof. intros H. induction n as [|n IH]; cbn [repeat chars_to_nums]; [reflexivity|]. now rewrite H, IH. Qed.

Lemma forall_repeat {A} (P : A -> Prop) x n : P x -> Forall P (repeat x n).
Proof. intros H. induction n; cbn; constructor; auto. Qed.

(* extension keeps the kind: the padding is '0' or a copy of the leading x/z *)
Lemma expand_keeps_kind vb len st x nums : chars_to_nums vb = Some nums ->
  small_syms st nums -> Forall (fun v => v <= 8) nums ->
  expand_special_vector_cases vb len = Ok (Some x) ->
  exists pad, chars_to_nums x = Some (pad ++ nums) /\ small_syms st (pad ++ nums) /\
              Forall (fun v => v <= 8) (pad ++ nums) /\ length x = len.
Proof.
  intros Hn Hs H8 He. unfold expand_special_vector_cases in He.
  destruct (Nat.leb_spec len (length vb)) as [|Hlt]; [discriminate|].
  destruct vb as [|c r]; [discriminate|].
  cbn [chars_to_nums] in Hn. destruct (bit_char_to_num c) as [v|] eqn:Ec; [|discriminate].
  destruct (chars_to_nums r) as [lr|] eqn:Er; [|discriminate]. inversion Hn; subst nums; clear Hn.
  assert (Hfull : chars_to_nums (c :: r) = Some (v :: lr)) by (cbn [chars_to_nums]; now rewrite Ec, Er).
  apply Forall_cons_iff in Hs as [Hsv Hsr]. apply Forall_cons_iff in H8 as [H8v H8r].
  assert (H0 : bit_char_to_num 48 = Some 0) by reflexivity.
  assert (Hpow : 0 < 2 ^ sbits st) by (destruct st; reflexivity).
  destruct ((c =? 49) || (c =? 48)).
  - inversion He; subst x; clear He. exists (repeat 0 (len - length (c :: r))).
    split; [apply chars_to_nums_app; [now apply chars_to_nums_repeat|assumption]|].
    split; [apply Forall_app; split; [now apply forall_repeat|now constructor]|].
    split; [apply Forall_app; split; [apply forall_repeat; lia|now constructor]|].
    rewrite app_length, repeat_length. unfold byte in *. cbn [length] in *. lia.
  - destruct ((c =? 120) || (c =? 88) || (c =? 122) || (c =? 90)); [|discriminate].
    inversion He; subst x; clear He. exists (repeat v (len - length (c :: r))).
    split; [apply chars_to_nums_app; [now apply chars_to_nums_repeat|assumption]|].
    split; [apply Forall_app; split; [now apply forall_repeat|now constructor]|].
    split; [apply Forall_app; split; [now apply forall_repeat|now constructor]|].
    rewrite app_length, repeat_length. unfold byte in *. cbn [length] in *. lia.
Qed.

(* one successful add_vcd_change on a bit-vector signal appends exactly one stream entry *)
Lemma add_vcd_change_entry parse_f64 se t value len se' : se_tpe se = EncBits len ->
  add_vcd_change parse_f64 se t value = Ok se' ->
  exists st chars nums,
    normalize len value = Ok chars /\ length chars = len /\ chars_to_nums chars = Some nums /\
    small_syms st nums /\ Forall (fun v => v <= 8) nums /\
    (forall st', small_syms st' nums -> states_num st <= states_num st') /\
    se_prev se <= t /\
    se_data se' = se_data se ++ enc_entry len (t - se_prev se, st, write_n_state_loop st nums 0 None) /\
    (len = 1%nat -> st = from_value (hd 0 nums)) /\
    se_tpe se' = se_tpe se /\ se_prev se' = t /\ se_max se' = join (se_max se) st.
Proof.
  intros Ht H. unfold add_vcd_change, nsub in H. rewrite Ht in H.
  destruct (N.leb_spec (se_prev se) t) as [Hle|]; [|discriminate]. cbn [bind] in H.
  unfold normalize, enc_entry.
  destruct (strip_prefix value) as [vb| |]; try discriminate. cbn [bind] in *.
  destruct (Nat.eqb_spec len 1) as [E1|E1].
  - (* scalar *)
    destruct vb as [|c r]; [discriminate|].
    destruct (bit_char_to_num c) as [bv|] eqn:Ec; [|discriminate]. inversion H; subst se'; clear H.
    destruct (bit_char_facts c bv Ec) as [H8 _].
    assert (Hsm : bv < 2 ^ sbits (from_value bv)) by (apply from_value_least; [exact H8|lia]).
    exists (from_value bv), [c], [bv]. cbn [se_data se_prev se_max se_tpe chars_to_nums length hd write_n_state_loop].
    rewrite Ec. cbn [length N.of_nat]. rewrite N.mul_0_l. cbn [N.modulo N.eqb]. change (0 mod 8 =? 0) with true. cbn iota.
    rewrite N.mul_0_l, N.add_0_l. cbn [hd].
    split; [reflexivity|]. split; [now rewrite E1|]. split; [reflexivity|].
    split; [constructor; [exact Hsm|constructor]|]. split; [constructor; [exact H8|constructor]|].
    split.
    { intros st' Hs'. apply Forall_cons_iff in Hs' as [Hs' _]. now apply from_value_least. }
    repeat split; auto.
  - destruct (check_states vb) as [st|] eqn:Ecs; [|discriminate].
    destruct (check_states_min vb st Ecs) as (nums & Hn & Hs & H8 & Hmin).
    destruct (chars_to_nums_lookup vb nums Hn) as [Hlen _].
    destruct (Nat.eqb_spec (length vb) len) as [Hlv|Hlv].
    + cbn [bind] in H. unfold write_n_state in H. rewrite Hn in H. cbn [bind] in H. inversion H; subst se'; clear H.
      exists st, vb, nums. cbn [se_data se_prev se_max se_tpe]. repeat split; auto. intros E; congruence.
    + destruct (expand_special_vector_cases vb len) as [[x|]| |] eqn:Ee; try discriminate. cbn [bind] in *.
      destruct (expand_keeps_kind vb len st x nums Hn Hs H8 Ee) as (pad & Hx & Hsx & H8x & Hlx).
      unfold write_n_state in H. rewrite Hx in H. cbn [bind] in H. inversion H; subst se'; clear H.
      exists st, x, (pad ++ nums). cbn [se_data se_prev se_max se_tpe]. repeat split; auto.
      * intros st' Hs'. apply Hmin. now apply Forall_app in Hs' as [_ ?].
      * intros E; congruence.
Qed.

(* ------------------------------------------------------------------ block layout *)
Section Blocks.
Variable lz_compress : list byte -> list byte.
Variable lz_decompress : list byte -> nat -> option (list byte).

(* the bytes a signal contributes to a block: nothing, or leb128(meta) followed by the payload *)
Definition region (se : signal_encoder) : list byte :=
  match snd (se_finish lz_compress se) with
  | Some (sd, meta) => leb_write (meta_encode meta) ++ sd
  | None => []
  end.

Fixpoint offs_of (start : nat) (regs : list (list byte)) : list (option nat) :=
  match regs with
  | [] => []
  | r :: rs => (match r with [] => None | _ => Some start end) :: offs_of (start + length r) rs
  end.

Lemma nth_error_map_ {A B} (f : A -> B) l k : nth_error (map f l) k = option_map f (nth_error l k).
Proof. revert k; induction l as [|x l IH]; intros [|k]; cbn; auto. Qed.

Lemma leb_write_nonempty v : leb_write v <> [].
Proof. unfold leb_write. cbn [leb_write_fuel]. destruct (_ =? 0); discriminate. Qed.

Lemma finish_signals_spec : forall sigs data,
  let '(sigs', offs, dfin) := finish_signals lz_compress sigs data in
  sigs' = map (fun se => fst (se_finish lz_compress se)) sigs /\
  offs = offs_of (length data) (map region sigs) /\
  dfin = data ++ concat (map region sigs).
Proof.
  induction sigs as [|se r IH]; intros data; cbn [finish_signals map offs_of concat].
  - now rewrite app_nil_r.
  - unfold region at 1 2. destruct (se_finish lz_compress se) as [se' [[sd meta]|]] eqn:Ef; cbn [snd fst].
    + specialize (IH (data ++ leb_write (meta_encode meta) ++ sd)).
      destruct (finish_signals lz_compress r _) as [[r' offs] dfin]. destruct IH as (-> & -> & ->).
      split; [reflexivity|]. split.
      * destruct (leb_write (meta_encode meta) ++ sd) eqn:E.
        { apply app_eq_nil in E as [E _]. now apply leb_write_nonempty in E. }
        rewrite <- E. now rewrite app_length.
      * unfold region. rewrite Ef. cbn [snd]. now rewrite <- !app_assoc.
    + specialize (IH data).
      destruct (finish_signals lz_compress r data) as [[r' offs] dfin]. destruct IH as (-> & -> & ->).
      cbn [length]. rewrite Nat.add_0_r. repeat split. unfold region. now rewrite Ef.
Qed.

Lemma first_some_offs regs : forall start,
  match first_some (offs_of start regs) with
  | Some s => exists pre r post, regs = pre ++ r :: post /\ concat pre = [] /\ r <> [] /\ s = start
  | None => concat regs = []
  end.
Proof.
  induction regs as [|r rs IH]; intros start; cbn [offs_of first_some concat]; [reflexivity|].
  destruct r as [|b r'].
  - cbn [length app]. rewrite Nat.add_0_r. specialize (IH start).
    destruct (first_some (offs_of start rs)) as [s|].
    + destruct IH as (pre & r & post & -> & Hp & Hr & ->). exists ([] :: pre), r, post. repeat split; auto.
    + exact IH.
  - exists [], (b :: r'), rs. repeat split; auto. discriminate.
Qed.

Lemma nth_error_offs regs : forall start id r, nth_error regs id = Some r ->
  nth_error (offs_of start regs) id
  = Some (match r with [] => None | _ => Some (start + length (concat (firstn id regs)))%nat end) /\
  skipn (S id) (offs_of start regs) = offs_of (start + length (concat (firstn (S id) regs))) (skipn (S id) regs).
Proof.
  induction regs as [|r0 rs IH]; intros start id r H; [destruct id; discriminate|].
  destruct id as [|id]; cbn [nth_error] in H.
  - inversion H; subst r0. cbn [offs_of nth_error firstn concat length skipn]. rewrite Nat.add_0_r, app_nil_r. split; reflexivity.
  - cbn [offs_of nth_error]. destruct (IH (start + length r0)%nat id r H) as [H1 H2]. split.
    + rewrite H1. cbn [firstn concat]. rewrite app_length. destruct r; [reflexivity|]. f_equal. f_equal. lia.
    + change (skipn (S (S id)) (?x :: ?l)) with (skipn (S id) l). rewrite H2.
      cbn [firstn concat skipn]. rewrite !app_length. f_equal. lia.
Qed.

(* Block::get_offset_and_length finds exactly the signal's region in a block written by finish_signals *)
Lemma region_found (sigs : list signal_encoder) id se start_time tt :
  nth_error sigs id = Some se ->
  let '(_, offs, data) := finish_signals lz_compress sigs [] in
  let b := mk_block start_time tt offs data in
  match region se with
  | [] => get_offset_and_length b id = Ok None
  | _ => exists start len, get_offset_and_length b id = Ok (Some (start, len)) /\
                           firstn len (skipn start data) = region se
  end.
Proof.
  intros Hn. pose proof (finish_signals_spec sigs []) as Hf.
  destruct (finish_signals lz_compress sigs []) as [[sigs' offs] data]. destruct Hf as (_ & -> & ->).
  cbn [length app]. unfold get_offset_and_length. cbn [b_offsets b_data].
  assert (Hr : nth_error (map region sigs) id = Some (region se)) by (rewrite nth_error_map_; now rewrite Hn).
  destruct (nth_error_offs (map region sigs) 0 id (region se) Hr) as [H1 H2].
  rewrite H1, H2. cbn [Nat.add].
  destruct (region se) as [|b0 rr] eqn:Er; [reflexivity|].
  set (regs := map region sigs) in *.
  assert (Hsplit : regs = firstn id regs ++ (b0 :: rr) :: skipn (S id) regs).
  { clear -Hr. revert id Hr. induction regs as [|x xs IH]; intros [|id] H; try discriminate; cbn in *.
    - now inversion H.
    - f_equal. now apply IH. }
  assert (Hpre : concat (firstn (S id) regs) = concat (firstn id regs) ++ b0 :: rr).
  { rewrite Hsplit at 1. rewrite firstn_app. rewrite firstn_length.
    assert (id < length regs)%nat by (apply nth_error_Some; congruence).
    replace (S id - Nat.min id (length regs))%nat with 1%nat by lia.
    rewrite firstn_firstn. replace (Nat.min (S id) id) with id by lia.
    cbn [firstn]. rewrite concat_app. cbn [concat]. now rewrite app_nil_r. }
  pose proof (first_some_offs (skipn (S id) regs) (length (concat (firstn (S id) regs)))) as Hfs.
  assert (Hnext : match first_some (offs_of (length (concat (firstn (S id) regs))) (skipn (S id) regs)) with
                  | Some x => x | None => length (concat regs) end = length (concat (firstn (S id) regs))).
  { destruct (first_some _) as [s|].
    - now destruct Hfs as (_ & _ & _ & _ & _ & _ & ->).
    - rewrite Hsplit at 1. rewrite concat_app. cbn [concat]. rewrite Hfs, app_nil_r. now rewrite Hpre. }
  rewrite Hnext. unfold usub.
  rewrite Hpre, app_length.
  destruct (Nat.leb_spec (length (concat (firstn id regs))) (length (concat (firstn id regs)) + length (b0 :: rr))) as [_|]; [|lia].
  cbn [bind]. eexists _, _. split; [reflexivity|].
  replace (length (concat (firstn id regs)) + length (b0 :: rr) - length (concat (firstn id regs)))%nat
    with (length (b0 :: rr)) by lia.
  assert (Hc : concat regs = concat (firstn id regs) ++ (b0 :: rr) ++ concat (skipn (S id) regs)).
  { rewrite Hsplit at 1. rewrite concat_app. reflexivity. }
  rewrite Hc. apply firstn_skipn_mid; reflexivity.
Qed.

(* ------------------------------------------------------------------ a finished signal block decodes to its stream *)

(* A-lz4: decompression inverts compression whenever the announced size is large enough *)
Hypothesis lz_ok : forall d n, (length d <= n)%nat -> lz_decompress (lz_compress d) n = Some d.

Lemma meta_encode_lt m : match em_comp m with Compressed len => len < 2 ^ 32 * 32 | Uncompressed => True end ->
  meta_encode m < 2 ^ 64.
Proof.
  intros H. unfold meta_encode, ndiv_ceil, u32_wrap, signal_decompressed_len_div.
  pose proof (states_num_lt4 (em_max m)). destruct (em_comp m) as [len|].
  - assert (2 ^ 32 = 4294967296) by reflexivity. assert (2 ^ 64 = 18446744073709551616) by reflexivity. lia.
  - assert (2 ^ 64 = 18446744073709551616) by reflexivity. lia.
Qed.

(* what collect_signal_meta_data + decompression recover from the region written by SignalEncoder::finish *)
Lemma region_decodes se : se_data se <> [] -> N.of_nat (length (se_data se)) < 4294967264 ->
  exists meta payload,
    leb_read (region se) = Some (meta_encode meta, payload) /\
    meta_decode (meta_encode meta) = Ok meta /\ em_max meta = se_max se /\
    (match em_comp meta with
     | Compressed ulen => of_option (lz_decompress payload (N.to_nat ulen))
     | Uncompressed => Ok payload
     end) = Ok (se_data se).
Proof.
  intros Hne Hlen. unfold region, se_finish.
  destruct (se_data se) as [|d0 dr] eqn:Ed; [congruence|]. rewrite <- Ed in *.
  destruct ((N.of_nat (length (se_data se)) <? min_size_to_compress) || skip_compression) eqn:Esmall.
  - cbn [snd]. exists (mk_meta Uncompressed (se_max se)), (se_data se).
    rewrite leb_roundtrip by (apply meta_encode_lt; exact I).
    rewrite metadata_roundtrip_uncompressed. repeat split.
  - destruct (Nat.leb_spec (length (se_data se)) (length (lz_compress (se_data se)) + 1)) as [Hle|Hgt]; cbn [snd].
    + exists (mk_meta Uncompressed (se_max se)), (se_data se).
      rewrite leb_roundtrip by (apply meta_encode_lt; exact I).
      rewrite metadata_roundtrip_uncompressed. repeat split.
    + destruct (metadata_roundtrip_compressed (se_max se) _ Hlen) as [Hrt Hbig].
      exists (meta_compressed (se_max se) (N.of_nat (length (se_data se)))), (lz_compress (se_data se)).
      rewrite leb_roundtrip.
      * rewrite Hrt. repeat split. cbn [meta_compressed em_comp] in *.
        rewrite lz_ok by lia. reflexivity.
      * apply meta_encode_lt. cbn [meta_compressed em_comp].
        unfold ndiv_ceil, u32_wrap, signal_decompressed_len_div.
        assert (2 ^ 32 = 4294967296) by reflexivity. lia.
Qed.

(* ------------------------------------------------------------------ loading a signal from a list of blocks *)

Definition block_of (sigs : list signal_encoder) (st : N) (ttb : list N) : block :=
  let '(_, offs, data) := finish_signals lz_compress sigs [] in mk_block st ttb offs data.

(* one finished block as seen from signal `id`: the encoders at finish time, the block's time
   table, the encoder of the signal and the stream entries it holds *)
Definition blk := (list signal_encoder * N * list N * signal_encoder * list sentry)%type.

Definition blk_ok (id bits : nat) (x : blk) : Prop :=
  let '(sigs, st, ttb, se, es) := x in
  nth_error sigs id = Some se /\ se_data se = enc_stream bits es /\
  Forall (wf_sentry (se_max se) bits) es /\ N.of_nat (length (se_data se)) < 4294967264.

Definition blk_block (x : blk) : block := let '(sigs, st, ttb, _, _) := x in block_of sigs st ttb.

(* the widest kind over the blocks that hold data of the signal (Reader::load_signal's max_states) *)
Fixpoint blks_max (bl : list blk) : option states :=
  match bl with
  | [] => None
  | (_, _, _, se, es) :: r =>
    match es with
    | [] => blks_max r
    | _ => Some (match blks_max r with Some m => join (se_max se) m | None => se_max se end)
    end
  end.

Fixpoint blks_spec (mx : states) (bits : nat) (bl : list blk) (off : N) (canon : list (N * list byte))
  : list (N * list byte) :=
  match bl with
  | [] => canon
  | (_, _, ttb, _, es) :: r =>
    blks_spec mx bits r (u32_wrap (off + N.of_nat (length ttb))) (load_spec mx bits es off canon)
  end.

Lemma enc_entry_nonempty bits e : enc_entry bits e <> [].
Proof.
  destruct e as [[d l] p]. unfold enc_entry. destruct (Nat.eqb bits 1); [apply leb_write_nonempty|].
  intros H. apply app_eq_nil in H as [H _]. now apply leb_write_nonempty in H.
Qed.

Lemma enc_stream_nil_iff bits es : enc_stream bits es = [] <-> es = [].
Proof.
  split; [|now intros ->]. destruct es as [|e r]; [reflexivity|].
  unfold enc_stream. cbn [map concat]. intros H. apply app_eq_nil in H as [H _]. now apply enc_entry_nonempty in H.
Qed.

Lemma enc_stream_length bits es : (length es <= length (enc_stream bits es))%nat.
Proof.
  induction es as [|e r IH]; [cbn; lia|]. unfold enc_stream in *. cbn [map concat length].
  rewrite app_length. pose proof (enc_entry_nonempty bits e). destruct (enc_entry bits e); [congruence|]. cbn [length]. lia.
Qed.

Definition meta_of (bits : nat) (x : blk) (m : N * list byte * enc_meta) : Prop :=
  let '(_, _, _, se, es) := x in
  em_max (snd m) = se_max se /\
  (match em_comp (snd m) with
   | Compressed ulen => of_option (lz_decompress (snd (fst m)) (N.to_nat ulen))
   | Uncompressed => Ok (snd (fst m))
   end) = Ok (enc_stream bits es).

(* collect_signal_meta_data: one entry per block that holds data of the signal, with the block's
   time index offset *)
Fixpoint metas_rel (bits : nat) (bl : list blk) (off : N) (ms : list (N * list byte * enc_meta)) : Prop :=
  match bl with
  | [] => ms = []
  | ((_, _, ttb, _, es) as x) :: r =>
    match es with
    | [] => metas_rel bits r (u32_wrap (off + N.of_nat (length ttb))) ms
    | _ => match ms with
           | [] => False
           | m :: ms' => fst (fst m) = off /\ meta_of bits x m /\ metas_rel bits r (u32_wrap (off + N.of_nat (length ttb))) ms'
           end
    end
  end.

Lemma collect_meta_spec id bits : forall bl off, Forall (blk_ok id bits) bl ->
  exists ms, collect_meta (map blk_block bl) id off = Ok ms /\ metas_rel bits bl off ms.
Proof.
  induction bl as [|x r IH]; intros off Hok.
  - exists []. split; reflexivity.
  - apply Forall_cons_iff in Hok as [Hx Hr]. destruct x as [[[[sigs st] ttb] se] es].
    destruct Hx as (Hn & Hd & Hwf & Hlen).
    cbn [map collect_meta blk_block]. unfold block_of.
    pose proof (region_found sigs id se st ttb Hn) as Hrf.
    destruct (finish_signals lz_compress sigs []) as [[sigs' offs] data].
    cbn [b_tt]. destruct (IH (u32_wrap (off + N.of_nat (length ttb))) Hr) as (ms & Hcm & Hrel).
    destruct es as [|e0 er].
    + assert (Hreg : region se = []).
      { unfold region, se_finish. rewrite Hd. reflexivity. }
      rewrite Hreg in Hrf. rewrite Hrf. cbn [bind]. rewrite Hcm. cbn [bind].
      exists ms. split; [reflexivity|exact Hrel].
    + assert (Hne : se_data se <> []).
      { rewrite Hd. intros E. apply enc_stream_nil_iff in E. discriminate. }
      destruct (region_decodes se Hne Hlen) as (meta & payload & Hlr & Hmd & Hmax & Hdec).
      destruct (region se) as [|b0 rr] eqn:Er; [cbn in Hlr; discriminate|].
      destruct Hrf as (start & len & Hgo & Hfs). rewrite Hgo. cbn [bind]. rewrite Hcm. cbn [bind].
      cbn [b_data]. rewrite Hfs, Hlr, Hmd. cbn [bind].
      eexists. split; [reflexivity|]. cbn [metas_rel fst snd meta_of]. repeat split; try assumption.
      now rewrite <- Hd.
Qed.

Lemma join_ge_l a b : states_num a <= states_num (join a b).
Proof. rewrite join_num. lia. Qed.
Lemma join_ge_r a b : states_num b <= states_num (join a b).
Proof. rewrite join_num. lia. Qed.

Lemma fold_join_ge (l : list (N * list byte * enc_meta)) : forall a,
  states_num a <= states_num (fold_left (fun a x => join a (em_max (snd x))) l a) /\
  Forall (fun x => states_num (em_max (snd x)) <= states_num (fold_left (fun a x => join a (em_max (snd x))) l a)) l.
Proof.
  induction l as [|x l IH]; intros a; cbn [fold_left]; [split; [lia|constructor]|].
  destruct (IH (join a (em_max (snd x)))) as [H1 H2]. split.
  - pose proof (join_ge_l a (em_max (snd x))). lia.
  - constructor; [|exact H2]. pose proof (join_ge_r a (em_max (snd x))). lia.
Qed.

Lemma max_states_ge ms : Forall (fun x => states_num (em_max (snd x)) <= states_num (max_states_of ms)) ms.
Proof.
  destruct ms as [|[[o d] m] r]; [constructor|]. cbn [max_states_of].
  destruct (fold_join_ge r (em_max m)) as [H1 H2]. constructor; [exact H1|exact H2].
Qed.

Lemma wf_sentry_mono mx mx' bits e : states_num mx <= states_num mx' -> wf_sentry mx bits e -> wf_sentry mx' bits e.
Proof. destruct e as [[d l] p]. unfold wf_sentry, wf_entry. intros H [(Hb & Hle & Hl) Hlt]. repeat split; try assumption. lia. Qed.

(* the per-block loop of Reader::load_signal over the collected blocks *)
Lemma load_go_spec bits mx : (1 <= bits)%nat -> forall bl off ms acc canon,
  metas_rel bits bl off ms ->
  Forall (fun x : blk => let '(_, _, _, se, es) := x in
            Forall (wf_sentry (se_max se) bits) es /\ (es <> [] -> states_num (se_max se) <= states_num mx)) bl ->
  acc_rep (bpe_of mx bits) acc canon ->
  exists acc', load_go lz_decompress (EncBits bits) mx ms acc = Ok acc' /\
               acc_rep (bpe_of mx bits) acc' (blks_spec mx bits bl off canon) /\
               la_strings acc' = la_strings acc.
Proof.
  intros Hb. induction bl as [|x r IH]; intros off ms acc canon Hrel Hwf Hrep.
  - cbn in Hrel. subst ms. exists acc. repeat split; apply Hrep.
  - apply Forall_cons_iff in Hwf as [Hx Hr]. destruct x as [[[[sigs st] ttb] se] es].
    destruct Hx as [Hwfe Hmx]. cbn [metas_rel blks_spec] in *.
    destruct es as [|e0 er].
    + cbn [load_spec]. now apply IH.
    + destruct ms as [|m ms']; [contradiction|]. destruct Hrel as (Hoff & [Hmax Hdec] & Hrel').
      destruct m as [[o payload] meta]. cbn [fst snd] in *. subst o.
      cbn [load_go]. rewrite Hdec. cbn [bind].
      assert (Hwf' : Forall (wf_sentry mx bits) (e0 :: er)).
      { eapply Forall_impl; [|exact Hwfe]. intros e. apply wf_sentry_mono. apply Hmx. discriminate. }
      destruct (load_fixed_stream mx bits (e0 :: er) (S (length (enc_stream bits (e0 :: er)))) off acc canon Hwf' Hrep
                  ltac:(pose proof (enc_stream_length bits (e0 :: er)); lia)) as (acc1 & H1 & H2 & H3).
      rewrite H1. cbn [bind].
      destruct (IH _ ms' acc1 _ Hrel' Hr H2) as (acc' & Ha & Hb' & Hc).
      exists acc'. split; [exact Ha|]. split; [exact Hb'|congruence].
Qed.

Lemma metas_rel_max bits bl : forall off ms mx, metas_rel bits bl off ms ->
  Forall (fun x => states_num (em_max (snd x)) <= states_num mx) ms ->
  Forall (fun x : blk => let '(_, _, _, se, es) := x in es <> [] -> states_num (se_max se) <= states_num mx) bl.
Proof.
  induction bl as [|x r IH]; intros off ms mx Hrel Hall; [constructor|].
  destruct x as [[[[sigs st] ttb] se] es]. cbn [metas_rel] in Hrel. destruct es as [|e0 er].
  - constructor; [congruence|]. eapply IH; eassumption.
  - destruct ms as [|m ms']; [contradiction|]. destruct Hrel as (_ & [Hmax _] & Hrel').
    apply Forall_cons_iff in Hall as [Hm Hms]. constructor.
    + intros _. now rewrite <- Hmax.
    + eapply IH; eassumption.
Qed.

(* Reader::load_signal over any list of finished blocks: the loaded signal holds exactly the
   canonical (de-duplicated, widened) entries of all blocks, in order, with each block's time
   index offset added *)
Theorem load_signal_blocks id bits bl : (1 <= bits)%nat -> Forall (blk_ok id bits) bl ->
  exists mx,
    Forall (fun x : blk => let '(_, _, _, se, es) := x in es <> [] -> states_num (se_max se) <= states_num mx) bl /\
    load_signal lz_decompress (map blk_block bl) id (EncBits bits)
    = Ok (mk_signal (map fst (blks_spec mx bits bl 0 []))
                    (SigBits mx bits (snd (get_len_and_meta mx bits)) (bpe_of mx bits)
                             (concat (map snd (blks_spec mx bits bl 0 []))))).
Proof.
  intros Hb Hok. destruct (collect_meta_spec id bits bl 0 Hok) as (ms & Hcm & Hrel).
  exists (max_states_of ms).
  pose proof (metas_rel_max bits bl 0 ms _ Hrel (max_states_ge ms)) as Hmx. split; [exact Hmx|].
  unfold load_signal. rewrite Hcm. cbn [bind].
  assert (Hwf : Forall (fun x : blk => let '(_, _, _, se, es) := x in
            Forall (wf_sentry (se_max se) bits) es /\ (es <> [] -> states_num (se_max se) <= states_num (max_states_of ms))) bl).
  { rewrite Forall_forall in *. intros x Hin. specialize (Hok x Hin). specialize (Hmx x Hin).
    destruct x as [[[[sigs st] ttb] se] es]. destruct Hok as (_ & _ & Hw & _). split; assumption. }
  destruct (load_go_spec bits (max_states_of ms) Hb bl 0 ms (mk_acc [] [] []) [] Hrel Hwf) as (acc & Hgo & (Hi & Hby & _) & _).
  { repeat split; constructor. }
  rewrite Hgo. cbn [bind]. unfold bpe_of.
  destruct (get_len_and_meta (max_states_of ms) bits) as [bytes meta_byte]. cbn [fst snd].
  now rewrite Hi, Hby.
Qed.

End Blocks.

(* ------------------------------------------------------------------ what the loaded signal reports *)

(* an abstract recorded value: time index, kind, symbols *)
Definition aentry := (N * states * list N)%type.

Definition aentry_ok (mx : states) (bits : nat) (a : aentry) : Prop :=
  let '(_, l, syms) := a in length syms = bits /\ small_syms l syms /\ states_num l <= states_num mx.

Definition wide_of (mx : states) (bits : nat) (a : aentry) : N * list byte :=
  let '(t, l, syms) := a in (t, wide mx bits l (write_n_state_loop l syms 0 None)).

Definition render_of (a : aentry) : outcome (N * value_kind * list byte) :=
  let '(t, l, syms) := a in do c <- lookup_all (lookup_table l) syms; Ok (t, kind_of_states l, c).

Lemma outcome_map_app {A B} (f : A -> outcome B) l1 l2 :
  outcome_map f (l1 ++ l2) = do a <- outcome_map f l1; do b <- outcome_map f l2; Ok (a ++ b).
Proof.
  induction l1 as [|x l1 IH]; cbn [app outcome_map bind].
  - destruct (outcome_map f l2); reflexivity.
  - destruct (f x); cbn [bind]; try reflexivity. rewrite IH.
    destruct (outcome_map f l1); cbn [bind]; try reflexivity.
    destruct (outcome_map f l2); reflexivity.
Qed.

(* iter_changes over a loaded signal whose bytes are the widened entries of `abs` reports, for
   every entry, its time index, the kind it was recorded with and its characters *)
Theorem observe_entries mx bits (abs : list aentry) : (1 <= bits)%nat -> Forall (aentry_ok mx bits) abs ->
  observe_signal (mk_signal (map fst (map (wide_of mx bits) abs))
                            (SigBits mx bits (snd (get_len_and_meta mx bits)) (bpe_of mx bits)
                                     (concat (map snd (map (wide_of mx bits) abs)))))
  = outcome_map render_of abs.
Proof.
  intros Hb Hok. unfold observe_signal. cbn [s_idx s_data]. rewrite !map_length.
  (* generalise over a prefix already consumed *)
  assert (G : forall done todo, abs = done ++ todo ->
            outcome_map (fun '(k, t) => do v <- get_value_at (SigBits mx bits (snd (get_len_and_meta mx bits)) (bpe_of mx bits)
                                                   (concat (map snd (map (wide_of mx bits) abs)))) k; Ok (t, fst v, snd v))
                        (combine (seq (length done) (length todo)) (map fst (map (wide_of mx bits) todo)))
            = outcome_map render_of todo).
  { intros done todo. revert done. induction todo as [|a todo IH]; intros done E; [reflexivity|].
    cbn [length seq map combine outcome_map].
    assert (Ha : aentry_ok mx bits a).
    { rewrite Forall_forall in Hok. apply Hok. rewrite E. apply in_or_app. right. now left. }
    destruct a as [[t l] syms]. destruct Ha as (Hl & Hs & Hle).
    cbn [wide_of fst]. rewrite E at 1. rewrite !map_app, concat_app. cbn [map concat wide_of snd].
    rewrite (entry_render mx bits l syms _ _ (length done) Hb Hl Hs Hle).
    - cbn [render_of]. destruct (lookup_all (lookup_table l) syms); cbn [bind fst snd]; try reflexivity.
      specialize (IH (done ++ [(t, l, syms)])). rewrite app_length in IH. cbn [length] in IH.
      rewrite Nat.add_1_r in IH. rewrite IH by (rewrite <- app_assoc; exact E). reflexivity.
    - clear -Hok E Hb. assert (Hd : Forall (aentry_ok mx bits) done).
      { rewrite E in Hok. now apply Forall_app in Hok as [? _]. }
      clear E Hok. induction done as [|[[t' l'] s'] done IH]; [reflexivity|].
      apply Forall_cons_iff in Hd as [(Hl' & Hs' & Hle') Hd]. cbn [map concat wide_of snd length].
      rewrite app_length, IH by assumption.
      rewrite wide_length; [lia|]. repeat split; [lia|assumption|]. now rewrite packed_length, Hl'. }
  specialize (G [] abs eq_refl). cbn [length] in G. exact G.
Qed.
