(* Machine-checked description of known finding D12 (property C05). *)
From WV Require Import Model.Base Model.Signals Spec.OffsetSpec Proofs.SignalsProofs.
From Coq Require Import Lia.

(* today's code: the group size is narrowed to u16 and wraps (known finding D12) *)
Definition long_run : list N := repeat 7%N (N.to_nat 65536).
Theorem get_offset_u16_refuted :
  exists d, get_offset long_run 7%N = Ok (Some d) /\ do_elements d = 0%N /\
            ~ run_fits_u16 long_run.
Proof.
  eexists. split; [vm_compute; reflexivity|]. split; [reflexivity|].
  intros H. specialize (H 0 (N.to_nat 65536)). unfold long_run in H. rewrite repeat_length in H.
  rewrite N2Nat.id in H.
  assert (65536 < 65536)%N; [|lia]. apply H; [|lia].
  intros q Hq. unfold at_.
  assert (R : forall k, k < N.to_nat 65536 -> nth k (repeat 7%N (N.to_nat 65536)) 0%N = 7%N).
  { intros k Hk. apply (repeat_spec (N.to_nat 65536)). apply nth_In. now rewrite repeat_length. }
  rewrite !R by lia. reflexivity.
Qed.

