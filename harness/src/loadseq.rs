//! `loadseq <sigs> <hdrhex> <bodyhex> <ops>` / `loadseqf <path> <ops>`: a history of
//! load_signals (`L:ids`), load_signals_multi_threaded (`M:ids`), unload_signals (`U:ids`) calls on
//! a simple::Waveform, and direct SignalSource::load_signals calls (`S:ids`, reported immediately).
//! Prints, for every signal id that has a variable, whether it is loaded and its observation.
use crate::obs::*;
use crate::util::*;
use wellen::*;

fn ids_of(s: &str) -> Vec<SignalRef> {
    split(s, ',').iter().map(|x| SignalRef::from_index(x.parse::<usize>().unwrap()).unwrap()).collect()
}

fn digest(s: &str) -> String {
    use std::hash::{Hash, Hasher};
    let mut h = std::collections::hash_map::DefaultHasher::new();
    s.hash(&mut h);
    format!("{:016x}", h.finish())
}

fn run_ops(wave: &mut simple::Waveform, ops: &str, hash: bool) -> String {
    for op in split(ops, ';') {
        let (k, ids) = op.split_once(':').unwrap();
        let ids = ids_of(ids);
        match k {
            "L" => wave.load_signals(&ids),
            "M" => wave.load_signals_multi_threaded(&ids),
            "U" => wave.unload_signals(&ids),
            _ => panic!("bad op"),
        }
    }
    let n = wave.hierarchy().num_unique_signals();
    let mut out = vec![];
    for i in 0..n {
        let id = SignalRef::from_index(i).unwrap();
        if wave.hierarchy().get_signal_tpe(id).is_none() {
            continue;
        }
        match wave.get_signal(id) {
            None => out.push(format!("s{}=unloaded", i)),
            Some(s) => {
                let o = signal_obs(s);
                out.push(format!("s{}={}", i, if hash { digest(&o) } else { o }))
            }
        }
    }
    out.join(" ")
}

pub fn run(args: &[&str]) -> String {
    let mut file = bytes_of_hex(args[1]);
    file.extend_from_slice(&bytes_of_hex(args[2]));
    let mut wave = simple::read_from_reader(std::io::Cursor::new(file)).unwrap();
    run_ops(&mut wave, args[3], false)
}

/// `loadseqm <threads> <min_chunk> <sigs> <hdrhex> <bodyhex> <ops>`: like `loadseq`, but the file is parsed by the
/// multi-threaded VCD loader (rayon pool of `threads`, MIN_CHUNK_SIZE override) so that the store holds several blocks
pub fn run_mt(args: &[&str]) -> String {
    let threads = args[0].parse::<usize>().unwrap();
    let min_chunk = args[1].parse::<usize>().unwrap();
    let mut file = bytes_of_hex(args[3]);
    file.extend_from_slice(&bytes_of_hex(args[4]));
    let path = crate::vcd::tmp_file(&file, "vcd");
    let opts = LoadOptions { multi_thread: true, remove_scopes_with_empty_name: false };
    let pool = rayon::ThreadPoolBuilder::new().num_threads(threads).build().unwrap();
    wellen::verif::verif_set_min_chunk_size(min_chunk);
    let wave = pool.install(|| simple::read_with_options(&path, &opts));
    wellen::verif::verif_set_min_chunk_size(0);
    let _ = std::fs::remove_file(&path);
    let mut wave = wave.unwrap();
    pool.install(|| run_ops(&mut wave, args[5], false))
}

pub fn run_file(args: &[&str]) -> String {
    let mut wave = simple::read(args[0]).unwrap();
    run_ops(&mut wave, args[1], true)
}

/// `loadsrc <path> <ids>`: SignalSource::load_signals directly: the ids of the returned entries, in order
pub fn run_source(args: &[&str]) -> String {
    let opts = LoadOptions::default();
    let header = viewers::read_header_from_file(args[0], &opts).unwrap();
    let body = viewers::read_body(header.body, &header.hierarchy, None).unwrap();
    let mut source = body.source;
    let ids = ids_of(args[1]);
    let mt = args.get(2).map(|s| *s == "mt").unwrap_or(false);
    let res = source.load_signals(&ids, &header.hierarchy, mt);
    let r: Vec<String> = res.iter().map(|(id, s)| format!("{}:{}", id.index(), digest(&signal_obs(s)))).collect();
    if r.is_empty() { "-".to_string() } else { r.join(",") }
}

/// `nsig <path>`: ids of the signals that have a variable
pub fn run_nsig(args: &[&str]) -> String {
    let opts = LoadOptions::default();
    let header = viewers::read_header_from_file(args[0], &opts).unwrap();
    let h = &header.hierarchy;
    let ids: Vec<String> = (0..h.num_unique_signals())
        .filter(|i| h.get_signal_tpe(SignalRef::from_index(*i).unwrap()).is_some())
        .map(|i| i.to_string())
        .collect();
    // groups of signals that are sub-ranges of the same parent: `parent>alias.alias`
    let mut groups: std::collections::BTreeMap<usize, Vec<usize>> = std::collections::BTreeMap::new();
    for i in 0..h.num_unique_signals() {
        if let Some(s) = h.get_slice_info(SignalRef::from_index(i).unwrap()) {
            groups.entry(s.sliced_signal.index()).or_default().push(i);
        }
    }
    let g: Vec<String> = groups
        .iter()
        .map(|(p, a)| format!("{}>{}", p, a.iter().map(|x| x.to_string()).collect::<Vec<_>>().join(".")))
        .collect();
    format!("{}|{}", ids.join(","), g.join(";"))
}

/// `wobs <path>`: format independent listing of a waveform: timescale, time table, and for every variable in
/// walk order `<depth>:<kind>:<namehex>:<width>` followed by its changes as `<time>:<K>:<value>`.
pub fn run_wobs(args: &[&str]) -> String {
    wobs_impl(args, false)
}

/// `wfull <path>`: like `wobs`, with all format specific meta-data: scopes as
/// `<depth>:S:<namehex>:<ScopeType>:<componenthex>:<decl source>:<inst source>`, variables as
/// `<depth>:V:<namehex>:<enc>:<VarType>:<Direction>:<msb.lsb>:<signal ref>:<enum name hex>/<value hex>.<name hex>;..:<vhdl type hex>`
pub fn run_wfull(args: &[&str]) -> String {
    wobs_impl(args, true)
}

fn hex_or_tilde(s: Option<&str>) -> String {
    match s {
        None => "~".to_string(),
        Some(x) if x.is_empty() => "_".to_string(),
        Some(x) => hex_of_bytes(x.as_bytes()),
    }
}

fn wobs_impl(args: &[&str], full: bool) -> String {
    // an optional second argument `st` loads single threaded
    let opts = LoadOptions { multi_thread: !(args.len() > 1 && args[1] == "st"), remove_scopes_with_empty_name: false };
    let mut wave = match simple::read_with_options(args[0], &opts) {
        Ok(w) => w,
        Err(_) => return "ERR".to_string(),
    };
    let ts = wave.hierarchy().timescale().map(|t| format!("{}e{}", t.factor, t.unit.to_exponent().map(|e| e.to_string()).unwrap_or("?".to_string()))).unwrap_or("~".to_string());
    let n = wave.hierarchy().num_unique_signals();
    let ids: Vec<SignalRef> = (0..n)
        .map(|i| SignalRef::from_index(i).unwrap())
        .filter(|r| wave.hierarchy().get_signal_tpe(*r).is_some())
        .collect();
    // one request holding the signal of every variable (a signal with several variables is requested several times)
    let req: Vec<SignalRef> = wave.hierarchy().iter_vars().map(|v| v.signal_ref()).collect();
    wave.load_signals(&req);
    wave.load_signals(&ids);
    let tt: Vec<u64> = wave.time_table().to_vec();
    let mut out = vec![format!("ts={} tt={}", ts, time_table_obs(&tt))];
    fn walk(wave: &simple::Waveform, items: Vec<(bool, usize)>, depth: usize, tt: &[u64], out: &mut Vec<String>, full: bool) {
        let h = wave.hierarchy();
        for (is_scope, idx) in items {
            if is_scope {
                let s = h.iter_scopes().nth(idx).unwrap();
                if full {
                    let loc = |l: Option<(&str, u64)>| l.map(|(p, n)| format!("{}@{}", hex_of_bytes(p.as_bytes()), n)).unwrap_or("~".to_string());
                    out.push(format!(
                        "{}:S:{}:{:?}:{}:{}:{}",
                        depth,
                        hex_or_tilde(Some(s.name(h))),
                        s.scope_type(),
                        hex_or_tilde(s.component(h)),
                        loc(s.source_loc(h)),
                        loc(s.instantiation_source_loc(h))
                    ));
                } else {
                    out.push(format!("{}:S:{}:-", depth, hex_of_bytes(s.name(h).as_bytes())));
                }
                let children: Vec<(bool, usize)> = s
                    .items(h)
                    .map(|i| match i {
                        HierarchyItem::Scope(c) => (true, h.iter_scopes().position(|x| std::ptr::eq(x, c)).unwrap()),
                        HierarchyItem::Var(c) => (false, h.iter_vars().position(|x| std::ptr::eq(x, c)).unwrap()),
                    })
                    .collect();
                walk(wave, children, depth + 1, tt, out, full);
            } else {
                let v = h.iter_vars().nth(idx).unwrap();
                let enc = match v.signal_encoding() {
                    SignalEncoding::String => "s".to_string(),
                    SignalEncoding::Real => "r".to_string(),
                    SignalEncoding::BitVector(n) => format!("b{}", n.get()),
                };
                let sig = wave.get_signal(v.signal_ref()).unwrap();
                let ch: Vec<String> = sig
                    .iter_changes()
                    .map(|(i, val)| {
                        let t = tt[i as usize];
                        match val {
                            SignalValue::Real(r) => format!("{:x}:R:{:016x}", t, r.to_bits()),
                            SignalValue::String(s) => format!("{:x}:S:{}", t, hex_of_bytes(s.as_bytes())),
                            other => format!("{:x}:B:{}", t, other.to_bit_string().unwrap()),
                        }
                    })
                    .collect();
                let chs = if ch.is_empty() { "-".to_string() } else { ch.join(",") };
                if full {
                    let idx = v.index().map(|i| format!("{}.{}", i.msb(), i.lsb())).unwrap_or("~".to_string());
                    let en = v
                        .enum_type(h)
                        .map(|(n, m)| {
                            format!(
                                "{}/{}",
                                hex_or_tilde(Some(n)),
                                m.iter().map(|(a, b)| format!("{}.{}", hex_or_tilde(Some(a)), hex_or_tilde(Some(b)))).collect::<Vec<_>>().join(";")
                            )
                        })
                        .unwrap_or("~".to_string());
                    out.push(format!(
                        "{}:V:{}:{}:{:?}:{:?}:{}:{}:{}:{}={}",
                        depth,
                        hex_or_tilde(Some(v.name(h))),
                        enc,
                        v.var_type(),
                        v.direction(),
                        idx,
                        v.signal_ref().index(),
                        en,
                        hex_or_tilde(v.vhdl_type_name(h)),
                        chs
                    ));
                } else {
                    out.push(format!("{}:V:{}:{}={}", depth, hex_of_bytes(v.name(h).as_bytes()), enc, chs));
                }
            }
        }
    }
    let h = wave.hierarchy();
    let top: Vec<(bool, usize)> = h
        .items()
        .map(|i| match i {
            HierarchyItem::Scope(c) => (true, h.iter_scopes().position(|x| std::ptr::eq(x, c)).unwrap()),
            HierarchyItem::Var(c) => (false, h.iter_vars().position(|x| std::ptr::eq(x, c)).unwrap()),
        })
        .collect();
    walk(&wave, top, 0, &tt, &mut out, full);
    out.join(" ")
}
