(* Property C01: VCD value changes are reported faithfully.  Pinned so far: the value codec
   (check_states / write_n_state / n_state_to_bit_string); the end-to-end theorem C01_faithful is not
   closed - see MANIFEST level_claimed. *)
From WV Require Import Model.Base Model.Bits Proofs.BitsProofs.
Open Scope N_scope.

(* a value written with the kind the loader determines for it is rendered back as exactly its
   characters, lower-cased, at its full width - for every width and every accepted character *)
Check write_render_roundtrip :
  forall value st, check_states value = Some st ->
  exists packed, write_n_state st value None = Ok packed /\
                 length packed = div_ceil (length value) (per_byte st) /\
                 n_state_to_bit_string st packed (length value) = Ok (map lower value).

Print Assumptions write_render_roundtrip.
