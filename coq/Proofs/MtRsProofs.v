(* Property C03 for real-valued and string-valued variables: the multi-threaded and the single-threaded branch of
   read_values report the same, on the same class of bodies as Proofs/MtProofs.v. *)
From Coq Require Import Lia Sorted.
From WV Require Import Model.Base Generated.Consts Model.Bits Model.Leb128 Model.WaveMem Model.VcdBody
  Spec.TimeSpec Spec.StoreSpec Proofs.BitsProofs Proofs.StoreProofs Proofs.TimeTableProofs Proofs.EncoderProofs
  Proofs.RealStringProofs Proofs.RealStringEnc Proofs.BodyProofs Proofs.VcdStreamProofs Proofs.PrefixProofs
  Proofs.TokenProofs Proofs.TilingProofs Proofs.MtProofs.
Open Scope N_scope.

Definition pshift (k : N) (l : list (N * rs_val)) : list (N * rs_val) := map (fun r => (k + fst r, snd r)) l.

Lemma recorded_rs_app_exact id : forall a b tbl sk,
  recorded_rs id (a ++ b) tbl sk = recorded_rs id a tbl sk ++ recorded_rs id b (fold_left accept (times_of a) tbl) (skip_after a tbl sk).
Proof.
  induction a as [|op a IH]; intros b tbl sk; [reflexivity|]. destruct op as [t|i v|i d st|i le]; cbn [app recorded_rs skip_after].
  - unfold times_of. cbn [flat_map app fold_left]. fold (times_of a). rewrite accept_compare.
    destruct (last_of tbl) as [p|]; [destruct (N.compare p t)|]; apply IH.
  - unfold times_of. cbn [flat_map app]. fold (times_of a). destruct (sk || negb (Nat.eqb i id)); [apply IH|]. cbn [app]. now rewrite IH.
  - unfold times_of. cbn [flat_map app]. fold (times_of a). apply IH.
  - unfold times_of. cbn [flat_map app]. fold (times_of a). destruct (sk || negb (Nat.eqb i id)); [apply IH|]. cbn [app]. now rewrite IH.
Qed.

Lemma recorded_rs_prefix id pre : forall ops x sk, x <> [] ->
  recorded_rs id ops (pre ++ x) sk = pshift (N.of_nat (length pre)) (recorded_rs id ops x sk).
Proof.
  induction ops as [|op ops IH]; intros x sk Hx; [reflexivity|]. destruct op as [t|i v|i d st|i le]; cbn [recorded_rs].
  - rewrite (last_of_app_nonempty pre x Hx). destruct (last_of x) as [p|].
    + destruct (N.compare p t); try (now apply IH). rewrite <- app_assoc. apply IH. destruct x; discriminate.
    + rewrite <- app_assoc. apply IH. destruct x; discriminate.
  - destruct (sk || negb (Nat.eqb i id)); [now apply IH|]. cbn [pshift map fst snd]. rewrite IH by exact Hx. f_equal. f_equal.
    rewrite app_length. destruct x; [congruence|]. cbn [length]. lia.
  - now apply IH.
  - destruct (sk || negb (Nat.eqb i id)); [now apply IH|]. cbn [pshift map fst snd]. rewrite IH by exact Hx. f_equal. f_equal.
    rewrite app_length. destruct x; [congruence|]. cbn [length]. lia.
Qed.

Lemma recorded_rs_seam id ops tbl : starts_with_optime ops -> StronglySorted N.lt (tbl ++ times_of ops) ->
  recorded_rs id ops tbl false = pshift (N.of_nat (length tbl)) (recorded_rs id ops [] false).
Proof.
  intros [->|(t0 & r & ->)] H; [reflexivity|]. unfold times_of in H. cbn [flat_map app] in H. fold (times_of r) in H.
  pose proof (sorted_last_lt tbl t0 (times_of r) H) as Hlt. cbn [recorded_rs last_of].
  assert (E : recorded_rs id r (tbl ++ [t0]) false = pshift (N.of_nat (length tbl)) (recorded_rs id r [t0] false)) by (apply recorded_rs_prefix; discriminate).
  destruct (last_of tbl) as [p|]; [destruct (N.compare_spec p t0); try lia|]; exact E.
Qed.

Section MtRs.
Variable parse_f64 : list byte -> option (list byte).
Hypothesis parse_f64_len : forall r le, parse_f64 r = Some le -> length le = 8%nat.
Variable lz_compress : list byte -> list byte.
Variable lz_decompress : list byte -> nat -> option (list byte).
Hypothesis lz_ok : forall d n, (length d <= n)%nat -> lz_decompress (lz_compress d) n = Some d.
Variable cap : N.
Hypothesis cap_pos : 1 <= cap.
Hypothesis cap_u16 : cap <= 65536.

Lemma gdecodes_shift str k R rec : Forall2 (gdecodes parse_f64 str) R rec -> Forall2 (gdecodes parse_f64 str) (gshift k R) (pshift k rec).
Proof.
  induction 1 as [|a r R rec Ha _ IH]; [constructor|]. cbn [gshift pshift map]. constructor; [|exact IH].
  destruct a as [g p]. destruct Ha as (Hg & Hrest). cbn [fst snd] in *. split; [now rewrite Hg|exact Hrest].
Qed.

Lemma gdecodes_fun str : forall R1 R2 rec, Forall2 (gdecodes parse_f64 str) R1 rec -> Forall2 (gdecodes parse_f64 str) R2 rec -> R1 = R2.
Proof.
  induction R1 as [|a R1 IH]; intros R2 rec H1 H2; inversion H1; subst; inversion H2; subst; [reflexivity|].
  f_equal; [|eapply IH; eauto].
  match goal with Ha : gdecodes _ _ a ?r, Hb : gdecodes _ _ ?b ?r |- _ => destruct Ha as [Ha1 Ha2], Hb as [Hb1 Hb2]; destruct a as [ga pa], b as [gb pb], r as [gr vr] end.
  cbn [fst snd] in *. subst. f_equal. destruct vr as [v|le].
  - destruct str.
    + destruct Ha2 as (c & E1), Hb2 as (c' & E2). congruence.
    + destruct Ha2 as (c & r & E1 & P1), Hb2 as (c' & r' & E2 & P2). rewrite E1 in E2. injection E2 as _ <-. congruence.
  - destruct Ha2 as [_ ->], Hb2 as [_ ->]. reflexivity.
Qed.

Lemma rec_concat_rs id str : forall opss Rs tbl, Forall starts_with_optime opss ->
  StronglySorted N.lt (tbl ++ times_of (concat opss)) ->
  Forall2 (fun R o => Forall2 (gdecodes parse_f64 str) R (recorded_rs id o [] false)) Rs opss ->
  Forall2 (gdecodes parse_f64 str)
    (gcat_shift (combine Rs (map (fun o => N.of_nat (length (accepted (times_of o)))) opss)) (N.of_nat (length tbl)))
    (recorded_rs id (concat opss) tbl false).
Proof.
  induction opss as [|o opss IH]; intros Rs tbl Hst Hsorted HR.
  - inversion HR; subst. cbn. constructor.
  - inversion HR as [|R ? Rs' ? HRo HRs]; subst. apply Forall_cons_iff in Hst as [Ho Hst].
    cbn [concat] in *. unfold times_of in Hsorted. rewrite flat_map_app in Hsorted. fold (times_of o) (times_of (concat opss)) in Hsorted.
    assert (Hso : StronglySorted N.lt (tbl ++ times_of o)) by (rewrite app_assoc in Hsorted; now apply sorted_app_l in Hsorted).
    destruct (incr_accept o tbl Hso) as [Hacc Hsk].
    destruct (incr_accept o [] ltac:(cbn [app]; now apply sorted_app_r in Hso)) as [Hacc0 _]. cbn [app] in Hacc0.
    rewrite recorded_rs_app_exact, Hacc, Hsk. cbn [map combine gcat_shift].
    apply Forall2_app.
    + rewrite (recorded_rs_seam id o tbl Ho Hso). now apply gdecodes_shift.
    + change (accepted (times_of o)) with (fold_left accept (times_of o) []). rewrite Hacc0.
      replace (N.of_nat (length tbl) + N.of_nat (length (times_of o))) with (N.of_nat (length (tbl ++ times_of o))) by (rewrite app_length; lia).
      apply IH; [exact Hst|now rewrite <- app_assoc|exact HRs].
Qed.

Lemma ops_cost_app id a b : ops_cost id (a ++ b) = ops_cost id a + ops_cost id b.
Proof. induction a as [|op a IH]; [reflexivity|]. destruct op; cbn [app ops_cost]; rewrite ?IH; lia. Qed.

Lemma ops_cost_concat id : forall opss o, In o opss -> ops_cost id o <= ops_cost id (concat opss).
Proof.
  induction opss as [|a r IH]; intros o Hin; [destruct Hin|]. cbn [concat]. rewrite ops_cost_app. destruct Hin as [->|Hin]; [lia|]. specialize (IH o Hin). lia.
Qed.

Lemma forall_concat {A} (P : A -> Prop) : forall ll, Forall P (concat ll) -> Forall (Forall P) ll.
Proof. induction ll as [|a r IH]; intros H; [constructor|]. cbn [concat] in H. apply Forall_app in H as [H1 H2]. constructor; [exact H1|now apply IH]. Qed.

(* Property C03 on the model, real and string variables *)
Theorem mt_equals_st_rs debug tpes lookup ls len0 rest stop_st e_st b_st t_st encs first others e_mt b_mt t_mt id str :
  Forall line_ok ls ->
  contig 0 ((0%nat, len0) :: rest) -> (length (body ls) <= end_of 0 ((0%nat, len0) :: rest))%nat ->
  nth_error tpes id = Some (rs_tpe str) ->
  N.of_nat (length (body ls)) <= stop_st + 1 ->
  read_single_stream parse_f64 lz_compress cap debug tpes lookup (body ls) stop_st true = Ok e_st ->
  enc_finish lz_compress e_st = Ok (b_st, t_st) -> N.of_nat (length t_st) < 4294967296 ->
  Forall2 (fun c en => run_chunk parse_f64 lz_compress cap debug tpes lookup (body ls) c = Ok en) ((0%nat, len0) :: rest) encs ->
  encs = first :: others -> append_all lz_compress first others = Ok e_mt ->
  enc_finish lz_compress e_mt = Ok (b_mt, t_mt) -> N.of_nat (length t_mt) < 4294967296 ->
  (forall ops, ops_of lookup true false (evs ls) = Some ops ->
     StronglySorted N.lt (times_of ops) /\ Forall (rs_op_ok id str) ops /\ ops_cost id ops < 4294967264) ->
  exists s_st s_mt,
    load_signal lz_decompress b_st id (rs_tpe str) = Ok s_st /\
    load_signal lz_decompress b_mt id (rs_tpe str) = Ok s_mt /\
    observe_signal s_st = observe_signal s_mt /\ t_st = t_mt.
Proof.
  intros Hok Hcontig Hend Htp Hstop Hrs Hfs Hls Hchunks Hencs Happ Hfm Hlm Hhyp.
  destruct (mt_common parse_f64 lz_compress lz_decompress lz_ok cap cap_pos cap_u16 debug tpes lookup ls len0 rest stop_st e_st encs Hok Hcontig Hend Hstop Hrs Hchunks)
    as (ops & opss & Ho & Hr & Hcat & Hruns & Hopt).
  destruct (Hhyp ops Ho) as (Hsorted & Hopok & Hbud).
  assert (Hopsok : Forall (fun o => Forall (rs_op_ok id str) o /\ ops_cost id o < 4294967264) opss).
  { rewrite Hcat in Hopok. apply forall_concat in Hopok. apply Forall_forall. intros o Hin. split.
    - rewrite Forall_forall in Hopok. now apply Hopok.
    - pose proof (ops_cost_concat id opss o Hin). rewrite <- Hcat in H. lia. }
  destruct (appended_transparent_rs parse_f64 parse_f64_len lz_compress lz_decompress lz_ok cap cap_pos cap_u16 id str tpes opss encs first others e_mt b_mt t_mt
              Htp Hruns Hopsok Hencs Happ Hfm Hlm) as (Rs & s_mt & HRs & Hload_mt & Hobs_mt).
  destruct (storage_transparent_rs parse_f64 parse_f64_len lz_compress lz_decompress lz_ok cap cap_pos cap_u16 id str tpes ops _ b_st t_st
              Htp Hopok Hbud Hr Hfs Hls) as (R & s_st & HR & _ & Hload_st & Hobs_st).
  exists s_st, s_mt. split; [exact Hload_st|]. split; [exact Hload_mt|]. split.
  2:{ rewrite (mt_time_table parse_f64 lz_compress cap cap_pos tpes opss encs first others e_mt b_mt t_mt Hruns Hencs Happ Hfm).
      destruct (time_table_spec parse_f64 lz_compress cap cap_pos tpes ops _ Hr) as (bb & Hf). rewrite Hfs in Hf. injection Hf as _ ->.
      rewrite accepted_sorted by exact Hsorted. rewrite Hcat, times_of_concat.
      rewrite Hcat, times_of_concat in Hsorted. apply sorted_pieces in Hsorted. symmetry. now apply accepted_pieces. }
  rewrite Hobs_st, Hobs_mt. f_equal. f_equal. f_equal.
  pose proof (rec_concat_rs id str opss Rs [] Hopt ltac:(cbn [app]; now rewrite <- Hcat) HRs) as Hcs. cbn [length] in Hcs.
  rewrite <- Hcat in Hcs. apply (gdecodes_fun str _ _ _ HR Hcs).
Qed.

Theorem read_values_mt_equals_st_rs debug tpes lookup ls max_threads min_chunk b_st t_st b_mt t_mt id str :
  Forall line_ok ls -> nth_error tpes id = Some (rs_tpe str) ->
  read_values_st parse_f64 lz_compress cap debug tpes lookup (body ls) = Ok (b_st, t_st) -> N.of_nat (length t_st) < 4294967296 ->
  read_values_mt parse_f64 lz_compress cap debug tpes lookup (body ls) max_threads min_chunk = Ok (b_mt, t_mt) ->
  N.of_nat (length t_mt) < 4294967296 ->
  (forall ops, ops_of lookup true false (evs ls) = Some ops ->
     StronglySorted N.lt (times_of ops) /\ Forall (rs_op_ok id str) ops /\ ops_cost id ops < 4294967264) ->
  exists s_st s_mt,
    load_signal lz_decompress b_st id (rs_tpe str) = Ok s_st /\
    load_signal lz_decompress b_mt id (rs_tpe str) = Ok s_mt /\
    observe_signal s_st = observe_signal s_mt /\ t_st = t_mt.
Proof.
  intros Hok Htp Hs Hls Hm Hlm Hhyp.
  unfold read_values_st in Hs.
  destruct (read_single_stream parse_f64 lz_compress cap debug tpes lookup (body ls) _ true) as [e_st| |] eqn:Es; try discriminate. cbn [bind] in Hs.
  unfold read_values_mt in Hm. unfold body at 1 in Hm. cbn iota in Hm. fold (body ls) in Hm. unfold read_values_mt_nonempty in Hm.
  destruct (determine_thread_chunks (length (body ls)) max_threads min_chunk) as [chunks| |] eqn:Ec; try discriminate. cbn [bind] in Hm.
  destruct (collect_results _) as [encs| |] eqn:Ecr; try discriminate. cbn [bind] in Hm.
  destruct encs as [|first others]; [discriminate|].
  destruct (append_all lz_compress first others) as [e_mt| |] eqn:Ea; try discriminate. cbn [bind] in Hm.
  assert (Hlen : (1 <= length (body ls))%nat) by (unfold body; cbn [length]; lia).
  destruct (chunks_shape _ _ _ _ Hlen Ec) as (len0 & rest & -> & Hc & He).
  apply collect_ok in Ecr.
  eapply (mt_equals_st_rs debug tpes lookup ls len0 rest _ e_st b_st t_st
            (first :: others) first others e_mt b_mt t_mt id str); try eassumption; try reflexivity.
  unfold body. cbn [length]. lia.
Qed.

End MtRs.

(* non-vacuity: a real and a string variable, three threads cutting inside lines; a stand-in f64 parser that yields 8 bytes *)
Example read_values_mt_rs_example :
  let pf (r : list byte) : option (list byte) := Some (firstn 8 (r ++ repeat 0 8)) in
  let ls := [LTime [49]; LVector [114; 49; 46; 53] [33]; LVector [115; 102; 111; 111] [34]; LTime [50]; LVector [114; 49; 46; 53] [33];
             LComment [[49; 33]]; LTime [53]; LVector [115; 98; 97; 114] [34]; LTime [55]; LVector [114; 50] [33]; LVector [115; 98; 97; 114] [34]] in
  let lk : id_lookup := Some [([33], 0%nat); ([34], 1%nat)] in
  let tpes := [rs_tpe false; rs_tpe true] in
  (forall r le, pf r = Some le -> length le = 8%nat) /\
  determine_thread_chunks (length (body ls)) 3 7 = Ok [(0, 24); (24, 24); (48, 24)]%nat /\
  (exists ops, ops_of lk true false (evs ls) = Some ops /\ StronglySorted N.lt (times_of ops) /\
               ops_cost 0 ops < 4294967264 /\ ops_cost 1 ops < 4294967264) /\
  exists b_st b_mt t,
    read_values_st pf (fun d => d) 2 true tpes lk (body ls) = Ok (b_st, t) /\
    read_values_mt pf (fun d => d) 2 true tpes lk (body ls) 3 7 = Ok (b_mt, t) /\
    (do s <- load_signal (fun d _ => Some d) b_st 1 (rs_tpe true); observe_signal s) = Ok [(0, KString, [102; 111; 111]); (2, KString, [98; 97; 114])] /\
    (do s <- load_signal (fun d _ => Some d) b_mt 1 (rs_tpe true); observe_signal s) = Ok [(0, KString, [102; 111; 111]); (2, KString, [98; 97; 114])] /\
    (do s <- load_signal (fun d _ => Some d) b_st 0 (rs_tpe false); observe_signal s)
    = Ok [(0, KReal, [49; 46; 53; 0; 0; 0; 0; 0]); (3, KReal, [50; 0; 0; 0; 0; 0; 0; 0])] /\
    (do s <- load_signal (fun d _ => Some d) b_mt 0 (rs_tpe false); observe_signal s)
    = Ok [(0, KReal, [49; 46; 53; 0; 0; 0; 0; 0]); (3, KReal, [50; 0; 0; 0; 0; 0; 0; 0])].
Proof.
  cbn zeta. split.
  { intros r le H. cbv beta in H. assert (E : firstn 8 (r ++ repeat 0 8) = le) by congruence. rewrite <- E, firstn_length, app_length, repeat_length. lia. }
  split; [vm_compute; reflexivity|]. split.
  { eexists. split; [vm_compute; reflexivity|]. split; [vm_compute; repeat constructor|]. split; vm_compute; reflexivity. }
  do 3 eexists. vm_compute. repeat split; reflexivity.
Qed.
