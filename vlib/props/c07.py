"""C07 - signal loading is independent of how it is requested."""
import glob
import itertools
import os
from .. import core, gen
from . import vcdfam

PID = "C07"
LEVEL = "proof"
RULE = ("histories of Waveform::load_signals / load_signals_multi_threaded / unload_signals calls are run on generated VCD files "
        "(model + oracle from the abstract history) and on corpus FST, GHW (with alias/sub-range signals) and VCD files (oracle: "
        "the content obtained by loading each signal alone on a fresh waveform). Exhaustive: every history of <= 3 calls over 13 "
        "id lists on 4 signals (with repetitions, permutations, empty requests); random histories of 5..8 calls. "
        "SignalSource::load_signals is called directly with random id lists: exactly one entry per distinct id, in increasing order. "
        "Non-trivial: the history unloads or re-requests at least one signal; distinct histories per file.")
ASSUMPTIONS = ["A-fst: for any filter containing s the FST reader delivers the same time-ordered value sequence for s (exercised on the corpus)",
               "A-rayon: par_iter().map().collect() preserves order"]
TRUSTED_BASE = ["Python oracle c07.expected_history (set semantics of the history + per-signal content)"]

ID_LISTS = [[], [0], [1], [3], [0, 1], [1, 0], [0, 0, 1], [2, 3, 1], [3, 2, 1, 0], [2], [1, 1], [0, 2], [3, 3, 0]]


def expected_history(ops, content, all_ids):
    loaded = set()
    for k, ids in ops:
        if k in "LM":
            loaded.update(ids)
        else:
            loaded.difference_update(ids)
    return " ".join("s%d=%s" % (i, content[i] if i in loaded else "unloaded") for i in all_ids)


def ops_str(ops):
    return ";".join("%s:%s" % (k, ",".join(map(str, ids)) or "-") for k, ids in ops) or "-"


def is_nontrivial(ops):
    seen = set()
    for k, ids in ops:
        if k == "U" and ids:
            return True
        if any(i in seen for i in ids) or len(set(ids)) < len(ids):
            return True
        seen.update(ids)
    return False


def run(res, rng, tier, model_ok, replay=None):
    cases = []
    if replay:
        line = replay.get("case") or replay["broken_correspondence"]["case"]
        cases.append({"line": line})
        vcdfam.run_both(res, cases, "c07", model_ok)
        return
    # a generated VCD with 4 signals of different kinds
    for f in range(2 if tier == "quick" else 10):
        sigs = [gen.Sig("b", rng.choice([1, 5])), gen.Sig("b", rng.choice([8, 33])), gen.Sig("r"), gen.Sig("s")]
        steps = []
        t = 0
        for _ in range(rng.randint(4, 10)):
            steps.append((t, [(si, gen.rand_value(rng, sigs[si], [2, 4, 9])) for si in range(4) if rng.random() < 0.7]))
            t += rng.randint(1, 4)
        idents, kind, idx, nuniq = gen.assign_ids(rng, 4, "dense")
        hdr = gen.header_text(rng, sigs, idents, plain=True)
        body = gen.body_text(rng, sigs, idents, steps, False, "plain")
        sarg = gen.sigs_arg(sigs, kind, idx, nuniq, idents)
        table, out = gen.expected_obs(sigs, steps, False)
        content = {}
        for si in range(4):
            lst = out[si]
            content[si] = ",".join("%x:%s:%s" % e for e in lst) if lst else "-"
        kinds = "LMU"
        all_ops = [(k, ids) for k in kinds for ids in ID_LISTS]
        hist = []
        if f == 0:
            for n in (1, 2, 3) if tier == "thorough" else (1, 2):
                hist += [list(h) for h in itertools.product(all_ops, repeat=n)]
            res.exhaustive = True
        for _ in range(300 if tier == "quick" else 3000):
            hist.append([rng.choice(all_ops) for _ in range(rng.randint(3, 8))])
        for h in hist:
            line = "loadseq %s %s %s %s" % (sarg, hdr.hex(), body.hex(), ops_str(h))
            cases.append({"line": line, "expect": expected_history(h, content, range(4)),
                          "key": (f, ops_str(h)) if is_nontrivial(h) else None, "klass": "generated-vcd"})
    # the same load histories on a store that holds several blocks (the file is parsed by 2..5 parser threads): signals
    # with many redundant writes, so that a block often starts with the value the previous block ended with
    for f in range(2 if tier == "quick" else 12):
        sigs = [gen.Sig("b", 1), gen.Sig("b", rng.choice([2, 8])), gen.Sig("r"), gen.Sig("s")]
        pool = {0: ["0", "1"], 1: ["0" * sigs[1].width, "1" * sigs[1].width], 2: ["1.5", "2.5"], 3: ["a", "b"]}
        steps = []
        for k in range(rng.randint(30, 60)):
            steps.append((k * 3, [(si, rng.choice(pool[si])) for si in range(4) if rng.random() < 0.8]))
        idents, kind, idx, nuniq = gen.assign_ids(rng, 4, "dense")
        hdr = gen.header_text(rng, sigs, idents, plain=True)
        body = gen.body_text(rng, sigs, idents, steps, False, "plain")
        sarg = gen.sigs_arg(sigs, kind, idx, nuniq, idents)
        table, out = gen.expected_obs(sigs, steps, False)
        content = {}
        for si in range(4):
            lst = out[si]
            content[si] = ",".join("%x:%s:%s" % e for e in lst) if lst else "-"
        all_ops = [(k, ids) for k in "LMU" for ids in ID_LISTS]
        for threads in (2, 3, 5):
            min_chunk = max(8, len(body) // threads - 1)
            for _ in range(25 if tier == "quick" else 150):
                h = [rng.choice(all_ops) for _ in range(rng.randint(1, 5))]
                line = "loadseqm %d %d %s %s %s %s" % (threads, min_chunk, sarg, hdr.hex(), body.hex(), ops_str(h))
                cases.append({"line": line, "expect": expected_history(h, content, range(4)), "nomodel": True,
                              "key": ("multi-block", f, threads, ops_str(h)) if is_nontrivial(h) else None, "klass": "generated-vcd-multi-block"})
    vcdfam.run_both(res, cases, "c07", model_ok)
    # corpus files: FST (file backed), GHW (wavemem + slices), VCD
    files = ["/repo/wellen/inputs/ghdl/wellen_issue_12.ghw", "/repo/wellen/inputs/ghdl/oscar/test.ghw",
             "/repo/wellen/inputs/icarus/test1.vcd.fst", "/repo/wellen/inputs/scope_with_comment.vcd.fst",
             "/repo/wellen/inputs/nvc/vhdl_test_bool_issue_16.fst", "/repo/wellen/inputs/wikipedia/example.vcd"]
    if tier == "thorough":
        files += sorted(glob.glob("/repo/wellen/inputs/**/*.fst", recursive=True))[:25]
    files = [f for f in files if os.path.exists(f) and "libsigrok" not in f]
    ids_per_file = core.run_cases(core.WV_DEBUG, ["nsig " + f for f in files], "c07n")
    for f, idl in zip(files, ids_per_file):
        if not idl or idl in ("PANIC", "CRASH-OR-HANG"):
            res.notes.append("could not enumerate signals of " + f)
            continue
        idpart, _, grp = idl.partition("|")
        ids = [int(x) for x in idpart.split(",")]
        pick = ids if len(ids) <= 12 else rng.sample(ids, 12)
        # signals that are sub-ranges of one parent must be requested together, next to each other and with their parent
        groups = [g for g in grp.split(";") if g]
        for g in rng.sample(groups, min(3, len(groups))):
            par, als = g.split(">")
            als = [int(x) for x in als.split(".")]
            pick = sorted(set(pick + [int(par)] + als[:4]))
        single = core.run_cases(core.WV_DEBUG, ["loadseqf %s L:%d" % (f, i) for i in pick], "c07s")
        content = {}
        for i, o in zip(pick, single):
            for part in o.split(" "):
                if part.startswith("s%d=" % i):
                    content[i] = part.split("=", 1)[1]
        hlines = []
        hs = []
        for _ in range(40 if tier == "quick" else 300):
            h = []
            for _ in range(rng.randint(1, 6)):
                k = rng.choice("LLMU")
                sel = [rng.choice(pick) for _ in range(rng.randint(0, 5))]
                h.append((k, sel))
            hs.append(h)
            hlines.append("loadseqf %s %s" % (f, ops_str(h)))
        outs = core.run_cases(core.WV_DEBUG, hlines, "c07f")
        for h, line, o in zip(hs, hlines, outs):
            res.evaluations += 1
            kl = "corpus-" + f.rsplit(".", 1)[-1]
            res.distribution[kl] = res.distribution.get(kl, 0) + 1
            if is_nontrivial(h):
                res.nontrivial.add(line)
            got = dict(p.split("=", 1) for p in o.split(" ") if "=" in p)
            loaded = set()
            for k, sel in h:
                if k in "LM":
                    loaded.update(sel)
                else:
                    loaded.difference_update(sel)
            bad = None
            for i in ids:
                g = got.get("s%d" % i)
                if i in loaded:
                    if g != content.get(i):
                        bad = "signal %d after the history differs from loading it alone" % i
                elif g != "unloaded":
                    bad = "signal %d is exposed although it was not loaded / was unloaded" % i
            if bad or not got:
                res.violations.append((line, o[:300], "per-signal content of single loads", bad or o))
        # SignalSource::load_signals directly
        slines = []
        sels = []
        for _ in range(15 if tier == "quick" else 100):
            sel = [rng.choice(pick) for _ in range(rng.randint(0, 8))]
            sels.append(sel)
            slines.append("loadsrc %s %s%s" % (f, ",".join(map(str, sel)) or "-", rng.choice(["", " mt"])))
        outs = core.run_cases(core.WV_DEBUG, slines, "c07r")
        for sel, line, o in zip(sels, slines, outs):
            res.evaluations += 1
            exp_ids = sorted(set(sel))
            got_ids = [int(p.split(":")[0]) for p in o.split(",")] if o not in ("-", "PANIC", "CRASH-OR-HANG") else ([] if o == "-" else None)
            if got_ids != exp_ids:
                res.violations.append((line, o[:200], str(exp_ids), "SignalSource::load_signals does not return one entry per distinct id in order"))
            else:
                for p in (o.split(",") if o != "-" else []):
                    i, d = p.split(":")
                    if content.get(int(i)) != d:
                        res.violations.append((line, o[:200], "content of single load", "content of signal %s depends on the request" % i))
    res.samples = [c["line"][-120:] for c in cases[200:203]]


def check_known(entry):
    return False
