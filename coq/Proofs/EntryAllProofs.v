(* C14: the three ways a VCD body is read - through a reader (stop position = absolute end of the file), from a byte
   slice single-threaded (stop position = last byte) and from a byte slice multi-threaded (chunks, one parser per chunk,
   appended stores) - load the same signals and the same time table. *)
From WV Require Import Model.Base Model.Bits Model.WaveMem Model.VcdBody Spec.TimeSpec Spec.StoreSpec
  Proofs.TimeTableProofs Proofs.StoreProofs Proofs.EncoderProofs Proofs.BodyProofs Proofs.EntryProofs Proofs.HandoverProofs
  Proofs.RealStringEnc Proofs.VcdStreamProofs Proofs.TokenProofs Proofs.TilingProofs Proofs.MtProofs Proofs.MtRsProofs.
From Coq Require Import List Sorted. Import ListNotations.
Open Scope N_scope.

Theorem entry_points_all_agree :
  forall (parse_f64 : list byte -> option (list byte)) (lz_compress : list byte -> list byte)
         (lz_decompress : list byte -> nat -> option (list byte)),
  (forall d n, (length d <= n)%nat -> lz_decompress (lz_compress d) n = Some d) ->
  forall cap, 1 <= cap -> cap <= 65536 ->
  forall debug tpes lookup ls header_len max_threads min_chunk b_r t_r b_mt t_mt id bits,
  Forall line_ok ls -> (1 <= bits)%nat -> nth_error tpes id = Some (EncBits bits) ->
  read_values_reader parse_f64 lz_compress cap debug tpes lookup (body ls) header_len = Ok (b_r, t_r) ->
  N.of_nat (length t_r) < 4294967296 ->
  read_values_mt parse_f64 lz_compress cap debug tpes lookup (body ls) max_threads min_chunk = Ok (b_mt, t_mt) ->
  N.of_nat (length t_mt) < 4294967296 ->
  (forall ops, ops_of lookup true false (evs ls) = Some ops ->
     StronglySorted N.lt (times_of ops) /\ N.of_nat (count_vcd id ops) * (10 + N.of_nat bits) < 4294967264) ->
  read_values_st parse_f64 lz_compress cap debug tpes lookup (body ls) = Ok (b_r, t_r) /\
  exists s_r s_mt,
    load_signal lz_decompress b_r id (EncBits bits) = Ok s_r /\
    load_signal lz_decompress b_mt id (EncBits bits) = Ok s_mt /\
    observe_signal s_r = observe_signal s_mt /\ t_r = t_mt.
Proof.
  intros parse_f64 lz_compress lz_decompress Hlz cap Hc1 Hc2 debug tpes lookup ls header_len max_threads min_chunk
         b_r t_r b_mt t_mt id bits Hls Hbits Hty Hr Htr Hmt Htmt Hops.
  rewrite <- (entry_points_agree parse_f64 lz_compress cap debug tpes lookup (body ls) header_len) in Hr.
  split; [exact Hr|].
  exact (read_values_mt_equals_st parse_f64 lz_compress lz_decompress Hlz cap Hc1 Hc2 debug tpes lookup ls max_threads min_chunk
           b_r t_r b_mt t_mt id bits Hls Hbits Hty Hr Htr Hmt Htmt Hops).
Qed.
