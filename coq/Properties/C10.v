(* Property C10: FST files load faithfully.  The FST container (blocks, compression, hierarchy bytes, time chain) is
   decoded by the dependency fst-reader, which hands wellen (a) a stream of hierarchy entries and a header, (b) the time
   table and (c) value-change callbacks (time, handle, value).  Pinned is everything wellen's fst.rs does with them:
   (a) fst_design_calls / fst_read_hierarchy_design (Proofs/FstHierProofs.v): an entry stream that renders a list of
   declarations - each scope preceded by its source stems, each variable by its VHDL infos and enum table references,
   path names and enum tables where they occur - yields exactly the builder calls of those declarations: kinds, directions,
   component, width, bit range and array scopes (C09's parse_name), the variable's handle as its signal (aliases share it:
   var_call_signal), the first stem of each kind / the first type name / the first enum reference given, resolved as known
   at that point of the stream; attributes never reach a later declaration.  The conversion tables are translated from
   the source on every run (Generated/Consts.v).  convert_timescale_spec: exponents -15..9 give factor x unit = 10^e s.
   (b, c) fst_load_signals_spec (Proofs/FstDispatchProofs.v): however the callbacks of different signals are interleaved -
   within a time step, across value-change blocks - every requested signal is built from exactly its own callbacks in
   their order, each under the index of the first time-table entry not smaller than its time (first_ge_sorted: in a sorted
   table containing the time that is the first entry equal to it, also when a time is listed twice);
   fst_writer_spec / fst_writer_rs_spec: the signal built from those changes reports exactly them - fst::SignalWriter::
   {add_change, finish} and expand_entries (the on-the-fly widening), for bit-vector signals of width >= 1 and for real
   and string signals - in whatever order 2-, 4- and 9-state values first appear.
   MODELLED, not verified: the dependency (A-fst: it decodes the container and calls back per signal in time order),
   String::from_utf8_lossy on string values (A-utf8), the builder (C08).  The run ties the model to the code on generated
   and corpus FST files: the harness reads each file with fst-reader directly and through wellen, and the extracted
   model, run on the former, must print what wellen reports (MANIFEST level_note). *)
From WV Require Import Model.Base Model.Bits Model.WaveMem Model.FstLoad Proofs.BitsProofs Proofs.StoreProofs
  Proofs.EncoderProofs Proofs.FstProofs Proofs.RealStringEnc Proofs.FstRealString
  Generated.Consts Model.Hierarchy Model.VcdHeader Model.FstHier Proofs.FstHierProofs Proofs.FstDispatchProofs.
From Coq Require Import Sorted.
Open Scope N_scope.

(* the signal built from the changes the FST reader delivers reports exactly those changes (time index, least kind,
   characters; equal neighbours once), in whatever order 2-, 4- and 9-state values first appear *)
Check fst_writer_spec :
  forall bits, (1 <= bits)%nat -> forall changes sw,
  Forall (fst_change_ok bits) changes ->
  sw_run (sw_new (EncBits bits)) changes = Ok sw ->
  exists A, Forall2 fst_decodes A changes /\ observe_signal (sw_finish sw) = outcome_map render_of (dedup A).

(* widening re-encodes every stored entry into a stored form of the same value *)
Check expand_one_stored :
  forall from to bits l syms w, (1 <= bits)%nat -> states_num from < states_num to ->
  states_num l <= states_num from -> stored from bits l syms w -> stored to bits l syms (expand_one from to bits w).
Check expand_entries_spec :
  forall from to bits (ws : list (list byte)), (1 <= bits)%nat -> states_num from < states_num to ->
  Forall (fun w => length w = bpe_of from bits) ws ->
  expand_entries from to (concat ws) bits = Ok (concat (map (expand_one from to bits) ws)).

(* get_value_at on any stored form (exact or widened) *)
Check stored_render :
  forall mx bits l syms w pre post (k : nat), (1 <= bits)%nat -> states_num l <= states_num mx ->
  stored mx bits l syms w -> length pre = (k * bpe_of mx bits)%nat ->
  get_value_at (SigBits mx bits (snd (get_len_and_meta mx bits)) (bpe_of mx bits) (pre ++ w ++ post)) k
  = do s <- lookup_all (lookup_table l) syms; Ok (kind_of_states l, s).

(* real and string signals: every delivered change is reported with its time index and bytes, a change repeating the
   value before it once *)
Check fst_writer_rs_spec :
  forall str changes sw, Forall (fst_rs_ok str) changes ->
  sw_run (sw_new (rs_tpe str)) changes = Ok sw ->
  observe_signal (sw_finish sw)
  = Ok (map (fun a : N * list byte => (fst a, if str then KString else KReal, snd a))
            (gdedup (map (fun c : N * fst_value => (fst c, fv_payload (snd c))) changes))).

(* (a) the hierarchy *)
Check fst_design_calls :
  forall debug ds st st' cs, fs_attrs st = [] -> design_calls st ds = Some (st', cs) ->
  fst_run debug st (concat (map entries_of ds)) = Ok (st', cs) /\ fs_attrs st' = [].
Check fst_read_hierarchy_design :
  forall debug ds st' cs, design_calls fs_init ds = Some (st', cs) ->
  fst_read_hierarchy debug (concat (map entries_of ds)) = Ok cs.
Check var_call_signal :
  forall st tpe dir nm len h attrs st' cs,
  decl_calls st (DVar tpe dir nm len h attrs) = Some (st', cs) ->
  exists pre vn vt d enc idx en tn post,
    cs = pre ++ [FcVar vn vt d enc idx h en tn] ++ post /\
    Forall (fun c => match c with FcVar _ _ _ _ _ _ _ _ => False | _ => True end) (pre ++ post).
Check scope_attrs_first :
  forall debug (l : list src) d i,
  f_scope_attrs debug (rev (map src_attr l)) d i = Ok (or_else (first_src false l) d, or_else (first_src true l) i).
Check var_attrs_first :
  forall debug (l : list vattr) t tn en,
  f_var_attrs debug (rev (map vattr_attr l)) t tn en
  = Ok (or_else (first_type_name l) tn, merged_type l t, or_else (first_enum l) en).
Check convert_timescale_spec :
  forall debug (e : Z), (-15 <= e <= 9)%Z ->
  exists f u, convert_timescale debug e = Ok (f, u) /\ f * 10 ^ (3 * u) = 10 ^ Z.to_N (e + 15) /\ u <= 5 /\
              1 <= f /\ (f <= 100 \/ u = 5).
Check convert_timescale_below : forall debug (e : Z), (e < -15)%Z -> convert_timescale debug e = Panic.
Check fst_design_example.
Check vhdl_merge_translated : forall dt, dt < 256 -> vhdl_merge dt = n_get fst_vhdl_merge_tab dt.

(* the declarations' meaning, spelled out *)
Check (eq_refl : decl_calls = fun st d =>
  match d with
  | DPath id nm => Some (mk_fs (fs_attrs st) ((id, nm) :: fs_paths st) (fs_enums st) (fs_nenums st), [])
  | DEnumDef nm h m =>
      Some (mk_fs (fs_attrs st) (fs_paths st) ((h, fs_nenums st) :: fs_enums st) (S (fs_nenums st)), [FcEnum nm m])
  | DUp => Some (st, [FcPop])
  | DComment | DAttrEnd => Some (st, [])
  | DScope tpe nm comp stems =>
      match mapM_opt (resolve_stem st) stems, n_get fst_scope_tab tpe with
      | Some ss, Some t => Some (st, [FcScope nm (Some comp) t (first_src false ss) (first_src true ss)])
      | _, _ => None
      end
  | DVar tpe dir nm len h attrs =>
      match mapM_opt (resolve_vattr st) attrs, parse_name nm, n_get fst_var_tab tpe, n_get fst_dir_tab dir with
      | Some vs, Ok (var_name, index, scopes), Some vt, Some d =>
          Some (st, map (fun s => FcScope s None vhdl_array_code None None) scopes
                    ++ [FcVar var_name (merged_type vs vt) d (var_enc tpe len) index h (first_enum vs) (first_type_name vs)]
                    ++ map (fun _ => FcPop) scopes)
      | _, _, _, _ => None
      end
  end).

(* (b, c) the value changes *)
Check fst_load_signals_spec :
  forall debug tt ids tpes cbs sigs,
  NoDup ids -> length tpes = length ids -> StronglySorted N.le (map cb_time cbs) ->
  fst_load_signals debug tt ids tpes cbs = Ok sigs ->
  length sigs = length ids /\
  forall p h tpe, nth_error ids p = Some h -> nth_error tpes p = Some tpe ->
    exists sw, sw_run (sw_new tpe) (changes_for tt h cbs) = Ok sw /\ nth_error sigs p = Some (sw_finish sw).
Check first_ge_sorted :
  forall tt time, Sorted N.le tt -> In time tt -> nth_error tt (first_ge tt time) = Some time.
Check (eq_refl : changes_for = fix changes_for tt h cbs :=
  match cbs with
  | [] => []
  | (time, h', v) :: r =>
    if Nat.eqb h' h then (N.of_nat (first_ge tt time), v) :: changes_for tt h r else changes_for tt h r
  end).
Check fst_load_example.

Print Assumptions fst_design_calls.
Print Assumptions fst_read_hierarchy_design.
Print Assumptions var_call_signal.
Print Assumptions scope_attrs_first.
Print Assumptions var_attrs_first.
Print Assumptions convert_timescale_spec.
Print Assumptions convert_timescale_below.
Print Assumptions fst_load_signals_spec.
Print Assumptions first_ge_sorted.
Print Assumptions vhdl_merge_translated.
Print Assumptions fst_writer_spec.
Print Assumptions fst_writer_rs_spec.
Print Assumptions expand_one_stored.
Print Assumptions expand_entries_spec.
Print Assumptions stored_render.
