"""C14 - all entry points load the same waveform."""
import os
from .. import core, gen
from . import vcdfam

PID = "C14"
LEVEL = "proof"
MODES = ["st", "rd", "rb", "hc", "hp", "hf:0", "hf:1", "mt:4:0", "rbc:16", "rbc:7", "hbc:16:0", "hbc:5:1"]
MALFORMED = {"sigmoid_tb.vcd"}
KNOWN_MT = {"CGRA.vcd"}        # known_findings.jsonl, C14 / D8-implicit-zero-then-0-corpus


def _parse_full(o):
    parts = o.split(" ")
    head = [p for p in parts if p.startswith("H=") or p.startswith("M=")]
    tt = [p for p in parts if p.startswith("tt=")][0][3:].split(",")
    sigs = {}
    for p in parts:
        if p[:1] == "s" and "=" in p and p.split("=", 1)[0][1:].isdigit():
            k, v = p.split("=", 1)
            sigs[k] = [] if v == "-" else [tuple(e.split(":", 2)) for e in v.split(",")]
    return head, tt, sigs


def duplicated_time_zero(f):
    """True when multi-threaded loading of f differs from single-threaded loading exactly by a second entry for
    time 0 at the head of the time table (all later time indices one higher)"""
    outs = core.run_cases(core.WV_DEBUG, ["file st %s full" % f, "file mt %s full" % f], "c14k", timeout=600)
    if not (outs[0].startswith("H=") and outs[1].startswith("H=")):
        return False
    ha, ta, sa = _parse_full(outs[0].split(" bl=")[0])
    hb, tb, sb = _parse_full(outs[1].split(" bl=")[0])
    if ha != hb or tb[:2] != ["0", "0"] or tb[1:] != ta or set(sa) != set(sb):
        return False
    for k in sa:
        d = []
        for (i, kind, v) in sb[k]:
            n = int(i, 16)
            e = ("%x" % (n - 1 if n >= 1 else 0), kind, v)
            if d and d[-1][1:] == e[1:]:
                continue
            d.append(e)
        if d != sa[k]:
            return False
    return True
FILE_MODES = ["st", "mt", "rd", "rbc:16", "rbc:7", "hc", "hc:1", "hbc:16:0", "hbc:16:1", "hbc:3:1", "hf:0", "hf:1", "hf:1:1"]
RULE = ("every generated VCD (generator of C01, incl. CRLF, $dumpvars, hashed ids, values before the first timestamp) is loaded "
        "through all entry points: read_with_options (mmap, multi_thread false/true), read_from_reader over Cursor and over "
        "BufReader<File>, viewers::read_header+read_body over a Cursor (with and without progress counter), "
        "viewers::read_header_from_file+read_body with both multi_thread values, and read_from_reader / read_header over BufReader<File> with capacities of 5..16 bytes; empty and blank bodies; bodies of ~25 KiB at 8 (thorough: 24) alignments of the 8 KiB refill positions; a first header command of 6000 bytes; every non-empty corpus VCD/FST/GHW file below 60 KB (thorough: 3 MB) through 13 entry-point variants. Oracle: all observations equal each other and "
        "the meaning of the abstract history; body_len equal for the two-phase entry points. Non-trivial: the file has >= 2 time "
        "steps and >= 1 value change; distinct = distinct files.")
ASSUMPTIONS = ["mmap, BufReader, ProgressTracker are I/O plumbing: exercised (also with BufReader capacities of 3..16 bytes so "
               "that every multi-byte read straddles a refill), not modelled",
               "FST/GHW containers are the dependency's / not modelled: for corpus FST and GHW files the oracle is agreement of all "
               "entry points with each other"]
TRUSTED_BASE = ["Python oracle gen.expected_obs"]


def run(res, rng, tier, model_ok, replay=None):
    cases = []
    groups = []
    if replay:
        line = replay.get("case") or replay["broken_correspondence"]["case"]
        cases.append({"line": line})
    else:
        n = 150 if tier == "quick" else 3000
        for i in range(n):
            sigs, steps, imp = gen.gen_history(rng, max_steps=10)
            idents, kind, idx, nuniq = gen.assign_ids(rng, len(sigs))
            hdr = gen.header_text(rng, sigs, idents)
            body = gen.body_text(rng, sigs, idents, steps, imp, rng.choice(["mixed", "crlf", "plain"]))
            if rng.random() < 0.3 and body.strip():
                body = body.rstrip(b" \t\r\n")      # the file ends directly after its last token
            table, out = gen.expected_obs(sigs, steps, imp)
            exp = gen.obs_string(table, out, idx)
            sarg = gen.sigs_arg(sigs, kind, idx, nuniq, idents)
            nt = i if (len(table) >= 2 and any(ch for _, ch in steps)) else None
            start = len(cases)
            for mode in MODES:
                cases.append({"line": "vcd %s %s %s %s" % (mode, sarg, hdr.hex(), body.hex()), "expect": exp,
                              "key": nt, "klass": "mode-" + mode.split(":")[0]})
            groups.append((start, len(body)))
            if i % 10 == 0:
                # the same content under a file name whose extension says something else: the format is decided by
                # the content for every entry point (path based ones included)
                for mode in ("st@fst", "st@ghw", "st@txt", "mt:2:0@fst", "rb@ghw"):
                    cases.append({"line": "vcd %s %s %s %s" % (mode, sarg, hdr.hex(), body.hex()), "expect": exp, "nomodel": True,
                                  "key": ("misnamed", i, mode) if nt is not None else None, "klass": "misnamed-file"})
        # an empty body and blank bodies through every entry point
        sigs = [gen.Sig("b", 1), gen.Sig("b", 4)]
        idents, kind, idx, nuniq = gen.assign_ids(rng, 2, "dense")
        hdr = gen.header_text(rng, sigs, idents, plain=True)
        sarg = gen.sigs_arg(sigs, kind, idx, nuniq, idents)
        for body in (b"", b"\n", b" ", b"\r\n\n", b"\n#0", b"\n#0\n"):
            table, out = ([0], {0: [], 1: []}) if b"#0" in body else ([], {0: [], 1: []})
            exp = gen.obs_string(table, out, idx)
            start = len(cases)
            for mode in MODES:
                cases.append({"line": "vcd %s %s %s %s" % (mode, sarg, hdr.hex(), gen.hexs(body)), "expect": exp,
                              "key": ("tiny", body, mode), "klass": "tiny-body"})
            groups.append((start, len(body)))
        # every variable is dumped again, unchanged, in most time steps: wherever a parser thread's chunk (or a block of the
        # store) begins, its first change of a real / string / vector repeats the value before it (seeded change C14-m11)
        for k in range(6 if tier == "quick" else 60):
            sigs = [gen.Sig("b", 1), gen.Sig("r"), gen.Sig("s"), gen.Sig("b", 8)]
            nsteps = rng.randint(8, 40)
            steps = []
            for j in range(nsteps):
                ch = [(0, "01"[j % 2])]
                if rng.random() < 0.9:
                    ch.append((1, "%d.25" % (j // 3)))
                if rng.random() < 0.9:
                    ch.append((2, "w%d" % (j // 4)))
                if rng.random() < 0.9:
                    ch.append((3, format((j // 5) % 256, "08b")))
                steps.append((10 + j * 3, ch))
            idents, kind, idx, nuniq = gen.assign_ids(rng, len(sigs), "dense")
            hdr = gen.header_text(rng, sigs, idents, plain=True)
            body = gen.body_text(rng, sigs, idents, steps, False, "plain")
            table, out = gen.expected_obs(sigs, steps, False)
            exp = gen.obs_string(table, out, idx)
            sarg = gen.sigs_arg(sigs, kind, idx, nuniq, idents)
            start = len(cases)
            for mode in MODES + ["mt:3:48", "mt:5:100"]:
                cases.append({"line": "vcd %s %s %s %s" % (mode, sarg, hdr.hex(), body.hex()), "expect": exp,
                              "key": ("redump", k, mode), "klass": "unchanged-values-dumped-again"})
            groups.append((start, len(body)))
        # bodies larger than the 8 KiB BufReader buffer, at every alignment of the refill positions,
        # and a first header command longer than 4 KiB
        for k in range(8 if tier == "quick" else 24):
            nsteps = 700
            sigs = [gen.Sig("b", 1), gen.Sig("b", 16), gen.Sig("r")]
            steps = [(1000 + j * 7, [(0, "01"[j % 2]), (1, format((j * 40503) % 65536, "016b"))] + ([(2, "%d.5" % j)] if j % 9 == 0 else []))
                     for j in range(nsteps)]
            idents, kind, idx, nuniq = gen.assign_ids(rng, len(sigs), "dense")
            hdr = gen.header_text(rng, sigs, idents, plain=True)
            pad = b"x" * (k if k < 20 else 6000)
            hdr = b"$comment " + pad + b" $end\n" + hdr
            body = gen.body_text(rng, sigs, idents, steps, False, "plain")
            table, out = gen.expected_obs(sigs, steps, False)
            exp = gen.obs_string(table, out, idx)
            sarg = gen.sigs_arg(sigs, kind, idx, nuniq, idents)
            start = len(cases)
            for mode in MODES:
                cases.append({"line": "vcd %s %s %s %s" % (mode, sarg, hdr.hex(), body.hex()), "expect": exp,
                              "key": ("big", k, mode), "klass": "big-body-align"})
            groups.append((start, len(body)))
        k = 30
        sigs = [gen.Sig("b", 1)]
        idents, kind, idx, nuniq = gen.assign_ids(rng, 1, "dense")
        hdr = b"$comment " + b"y" * 6000 + b" $end\n" + gen.header_text(rng, sigs, idents, plain=True)
        body = b"\n#0\n1!\n#5\n0!\n"
        start = len(cases)
        for mode in MODES:
            cases.append({"line": "vcd %s %s %s %s" % (mode, gen.sigs_arg(sigs, kind, idx, nuniq, idents), hdr.hex(), body.hex()),
                          "expect": "tt=0,5 s0=0:2:1,1:2:0", "key": ("longcmd", mode), "klass": "long-first-command"})
        groups.append((start, len(body)))
    impl, _ = vcdfam.run_both(res, cases, "c14", model_ok)
    for start, blen in groups:
        bls = set()
        for k, mode in enumerate(MODES):
            o = impl[start + k]
            if " bl=" in o:
                bls.add(o.split(" bl=")[1])
        if len(bls) > 1 or (bls and bls != {"%x" % blen}):
            res.violations.append((cases[start]["line"], "body_len values %s" % sorted(bls), "%x" % blen, "body_len differs between entry points"))
    # corpus files of all three formats through every entry point: all observations must agree
    import glob, os
    files = sorted(f for f in glob.glob("/repo/wellen/inputs/**/*", recursive=True)
                   if f.rsplit(".", 1)[-1] in ("vcd", "fst", "ghw") and os.path.isfile(f)
                   and 0 < os.path.getsize(f) < (60000 if tier == "quick" else 3000000)
                   and "with_errors" not in f and "ghdl_issue_538" not in f and "libsigrok.vcd.fst" not in f)
    if not replay:
        flines = []
        for f in files:
            for mode in FILE_MODES:
                flines.append("file %s %s" % (mode, f))
        outs = core.run_cases(core.WV_DEBUG, flines, "c14f", timeout=1200)
        for i, f in enumerate(files):
            group = outs[i * len(FILE_MODES):(i + 1) * len(FILE_MODES)]
            res.evaluations += len(group)
            ext = f.rsplit(".", 1)[-1]
            res.distribution["corpus-" + ext] = res.distribution.get("corpus-" + ext, 0) + len(group)
            digests = set(g.split(" bl=")[0] for g in group)
            bls = set(g.split(" bl=")[1] for g in group if " bl=" in g)
            # sigmoid_tb.vcd is malformed (it declares a real and emits strings; upstream keeps its diff test ignored):
            # loading fails, and has to fail alike, through every entry point
            uniform_failure = len(digests) == 1 and not group[0].startswith("digest=") and os.path.basename(f) in MALFORMED
            mt_like = [k for k, m in enumerate(FILE_MODES) if m == "mt" or m.startswith("hf:1")]
            st_like = [k for k in range(len(FILE_MODES)) if k not in mt_like]
            if len(digests) > 1 and os.path.basename(f) in KNOWN_MT and len(bls) <= 1 \
                    and len(set(group[k].split(" bl=")[0] for k in st_like)) == 1 \
                    and len(set(group[k].split(" bl=")[0] for k in mt_like)) == 1 and duplicated_time_zero(f):
                # known finding D8-implicit-zero-then-0 (C03) on this corpus file: the multi-threaded entry points list time 0
                # twice; everything else is equal (confirmed on the full observations), the other entry points agree
                res.notes.append("%s: multi-threaded entry points show the known finding D8-implicit-zero-then-0" % f)
                continue
            if uniform_failure:
                res.notes.append("%s does not load (%s through every entry point): malformed corpus file" % (f, group[0][:20]))
            elif len(digests) > 1 or len(bls) > 1 or not group[0].startswith("digest="):
                bad = [m + "=>" + g[:60] for m, g in zip(FILE_MODES, group)]
                res.violations.append(("file <mode> " + f, "; ".join(bad)[:1500], "all entry points agree",
                                       "entry points disagree on a corpus file"))
            else:
                res.nontrivial.add(f)
    if not replay:
        # the option remove_scopes_with_empty_name through every entry point that takes options: files with
        # empty-named scopes (nested, siblings, re-opened) must give the same hierarchy and signals everywhere
        OPT_MODES = ["st", "mt", "hc", "hc:1", "hbc:16:0", "hbc:3:1", "hf:0", "hf:1", "hf:1:1"]
        gdir = os.path.join(core.CACHE, "c14gen")
        os.makedirs(gdir, exist_ok=True)
        gfiles = []
        for k in range(12 if tier == "quick" else 120):
            names = [rng.choice(["", "", "top", "u0"]) for _ in range(rng.randint(1, 4))]
            if k < 3:
                names = [["", "top"], ["top", "", ""], ["", "", "u0"]][k]
            txt = "$timescale 1ns $end\n"
            code = 33
            vars_ = 0
            for n in names:
                txt += "$scope module %s $end\n" % n
                for _ in range(rng.randint(0, 2)):
                    txt += "$var wire 1 %s v%d $end\n" % (chr(code), vars_)
                    code += 1
                    vars_ += 1
            if vars_ == 0:
                txt += "$var wire 1 %s v0 $end\n" % chr(code)
                code += 1
                vars_ = 1
            for j in range(rng.randint(0, len(names))):
                txt += "$upscope $end\n"
                if rng.random() < 0.5:
                    txt += "$scope module  $end\n$var wire 4 %s w%d $end\n$upscope $end\n" % (chr(code), j)
                    code += 1
            txt += "$upscope $end\n" * 0 + "$enddefinitions $end\n#0\n" + "".join("1%s\n" % chr(c) if c < 33 + vars_ else "" for c in range(33, code)) + "#5\n0!\n"
            path = os.path.join(gdir, "flat%d.vcd" % k)
            open(path, "w").write(txt)
            gfiles.append(path)
        flines = []
        for f in gfiles:
            for mode in OPT_MODES:
                flines.append("file %s+f %s" % (mode, f))
            flines.append("file st %s" % f)
        outs = core.run_cases(core.WV_DEBUG, flines, "c14o", timeout=600)
        step = len(OPT_MODES) + 1
        for i, f in enumerate(gfiles):
            group = outs[i * step:i * step + len(OPT_MODES)]
            plain = outs[i * step + len(OPT_MODES)]
            res.evaluations += len(group)
            res.distribution["option-flatten"] = res.distribution.get("option-flatten", 0) + len(group)
            digests = set(g.split(" bl=")[0] for g in group)
            if len(digests) > 1 or (not group[0].startswith("digest=") and group[0] != "ERR"):
                bad = [m + "+f=>" + g[:60] for m, g in zip(OPT_MODES, group)]
                res.violations.append(("file <mode>+f " + f, "; ".join(bad)[:1500], "all entry points agree",
                                       "entry points disagree on a file with empty-named scopes loaded with remove_scopes_with_empty_name"))
            elif plain.split(" bl=")[0] not in digests:
                res.nontrivial.add(f)          # the option made a difference for this file
    res.samples = [c["line"][:300] for c in cases[:2]]


def check_known(entry):
    f = entry["case"].split(" ")[-1]
    return os.path.exists(f) and duplicated_time_zero(f)
