(* The single-stream VCD body path (vcd.rs read_single_stream_of_values + VcdEncoder): the events the byte
   machine produces are fed to the store as a history of time / value operations; with storage_transparent the
   loaded signal reports exactly what those events record (properties C01, C15). *)
From Coq Require Import Lia.
From WV Require Import Model.Base Generated.Consts Model.Bits Model.Leb128 Model.WaveMem Model.VcdBody
  Spec.TimeSpec Spec.StoreSpec Proofs.BitsProofs Proofs.StoreProofs Proofs.EncoderProofs.
Open Scope N_scope.

Section Stream.
Variable parse_f64 : list byte -> option (list byte).
Variable lz_compress : list byte -> list byte.
Variable lz_decompress : list byte -> nat -> option (list byte).
Hypothesis lz_ok : forall d n, (length d <= n)%nat -> lz_decompress (lz_compress d) n = Some d.
Variable cap : N.
Hypothesis cap_pos : 1 <= cap.
Hypothesis cap_u16 : cap <= 65536.

Definition lookup_id (lookup : id_lookup) (id : list byte) : option nat :=
  match lookup with
  | None => option_map N.to_nat (id_to_int id)
  | Some m => map_get m id
  end.

(* the store operations a list of parser events stands for: a value before the first time stamp opens time 0
   in the first (or only) stream and is dropped in later streams; identifiers are resolved by the lookup *)
Fixpoint ops_of (lookup : id_lookup) (first found : bool) (evs : list event) : option (list enc_op) :=
  match evs with
  | [] => Some []
  | EvTime t :: r => option_map (cons (OpTime t)) (ops_of lookup first true r)
  | EvValue v i :: r =>
    let pre := if first && negb found then [OpTime 0] else [] in
    let found' := found || first in
    if found' then
      match lookup_id lookup i, ops_of lookup first found' r with
      | Some n, Some ops => Some (pre ++ OpVcd n v :: ops)
      | _, _ => None
      end
    else ops_of lookup first found' r
  end.

Lemma feed_events_ops lookup : forall evs e first found ve',
  feed_events parse_f64 lz_compress cap lookup (mk_ve e first found) evs = Ok ve' ->
  exists ops, ops_of lookup first found evs = Some ops /\
              run_ops parse_f64 lz_compress cap e ops = Ok (ve_enc ve').
Proof.
  induction evs as [|ev evs IH]; intros e first found ve' H; cbn [feed_events] in H.
  - inversion H; subst. exists []. split; reflexivity.
  - destruct ev as [t|v i].
    + unfold ve_time in H. cbn [ve_enc ve_first] in H.
      destruct (time_change lz_compress cap e t) as [e1| |] eqn:E1; try discriminate. cbn [bind] in H.
      destruct (IH e1 first true ve' H) as (ops & Ho & Hr). exists (OpTime t :: ops).
      cbn [ops_of]. rewrite Ho. split; [reflexivity|]. cbn [WaveMem.run_ops WaveMem.run_op]. now rewrite E1.
    + unfold ve_value in H. cbn [ve_enc ve_first ve_found] in H. cbn [ops_of].
      destruct first, found; cbn [andb negb orb app bind ve_enc ve_first ve_found] in *.
      * (* found already *)
        unfold lookup_id. destruct lookup as [m|].
        -- destruct (map_get m i) as [n|]; [|discriminate]. cbn [of_option bind] in H.
           destruct (vcd_value_change parse_f64 e n v) as [e1| |] eqn:E1; try discriminate. cbn [bind ve_enc ve_first ve_found] in H.
           destruct (IH e1 true true ve' H) as (ops & Ho & Hr). rewrite Ho. eexists. split; [reflexivity|].
           cbn [WaveMem.run_ops WaveMem.run_op]. now rewrite E1.
        -- destruct (id_to_int i) as [n|]; [|discriminate]. cbn [of_option bind option_map] in H |- *.
           destruct (vcd_value_change parse_f64 e (N.to_nat n) v) as [e1| |] eqn:E1; try discriminate. cbn [bind ve_enc ve_first ve_found] in H.
           destruct (IH e1 true true ve' H) as (ops & Ho & Hr). rewrite Ho. eexists. split; [reflexivity|].
           cbn [WaveMem.run_ops WaveMem.run_op]. now rewrite E1.
      * (* first stream, no time stamp yet: implicit time 0 *)
        unfold ve_time in H. cbn [ve_enc ve_first ve_found] in H.
        destruct (time_change lz_compress cap e 0) as [e0| |] eqn:E0; try discriminate. cbn [bind ve_found ve_enc ve_first] in H.
        unfold lookup_id. destruct lookup as [m|].
        -- destruct (map_get m i) as [n|]; [|discriminate]. cbn [of_option bind] in H.
           destruct (vcd_value_change parse_f64 e0 n v) as [e1| |] eqn:E1; try discriminate. cbn [bind ve_enc ve_first ve_found] in H.
           destruct (IH e1 true true ve' H) as (ops & Ho & Hr). rewrite Ho. eexists. split; [reflexivity|].
           cbn [WaveMem.run_ops WaveMem.run_op]. rewrite E0. cbn [bind]. now rewrite E1.
        -- destruct (id_to_int i) as [n|]; [|discriminate]. cbn [of_option bind option_map] in H |- *.
           destruct (vcd_value_change parse_f64 e0 (N.to_nat n) v) as [e1| |] eqn:E1; try discriminate. cbn [bind ve_enc ve_first ve_found] in H.
           destruct (IH e1 true true ve' H) as (ops & Ho & Hr). rewrite Ho. eexists. split; [reflexivity|].
           cbn [WaveMem.run_ops WaveMem.run_op]. rewrite E0. cbn [bind]. now rewrite E1.
      * unfold lookup_id. destruct lookup as [m|].
        -- destruct (map_get m i) as [n|]; [|discriminate]. cbn [of_option bind] in H.
           destruct (vcd_value_change parse_f64 e n v) as [e1| |] eqn:E1; try discriminate. cbn [bind ve_enc ve_first ve_found] in H.
           destruct (IH e1 false true ve' H) as (ops & Ho & Hr). rewrite Ho. eexists. split; [reflexivity|].
           cbn [WaveMem.run_ops WaveMem.run_op]. now rewrite E1.
        -- destruct (id_to_int i) as [n|]; [|discriminate]. cbn [of_option bind option_map] in H |- *.
           destruct (vcd_value_change parse_f64 e (N.to_nat n) v) as [e1| |] eqn:E1; try discriminate. cbn [bind ve_enc ve_first ve_found] in H.
           destruct (IH e1 false true ve' H) as (ops & Ho & Hr). rewrite Ho. eexists. split; [reflexivity|].
           cbn [WaveMem.run_ops WaveMem.run_op]. now rewrite E1.
      * (* a later stream before its first time stamp: dropped *)
        destruct (IH e false false ve' H) as (ops & Ho & Hr). exists ops. split; assumption.
Qed.

(* Property C01 for bit-vector variables, single-threaded path: the signal loaded after read_single_stream reports
   exactly what the parser's events record (Spec/StoreSpec.v `recorded` over the operations the events stand for):
   time-table index, least kind, characters; equal neighbours once *)
Theorem vcd_stream_transparent debug tpes lookup input stop_pos e blocks ttb id bits :
  (1 <= bits)%nat -> nth_error tpes id = Some (EncBits bits) ->
  read_single_stream parse_f64 lz_compress cap debug tpes lookup input stop_pos true = Ok e ->
  enc_finish lz_compress e = Ok (blocks, ttb) -> N.of_nat (length ttb) < 4294967296 ->
  exists ops, ops_of lookup true false (fst (parse_body debug input stop_pos)) = Some ops /\
    (N.of_nat (count_vcd id ops) * (10 + N.of_nat bits) < 4294967264 ->
     exists R sig,
       Forall2 (decodes bits) R (recorded id ops [] false) /\
       load_signal lz_decompress blocks id (EncBits bits) = Ok sig /\
       observe_signal sig = outcome_map render_of (dedup R)).
Proof.
  intros Hb Htp Hrs Hfin Hlen. unfold read_single_stream in Hrs.
  destruct (parse_body debug input stop_pos) as [evs pres] eqn:Ep. cbn [fst].
  destruct (feed_events parse_f64 lz_compress cap lookup (mk_ve (enc_new tpes) true false) evs) as [ve| |] eqn:Ef; try discriminate.
  cbn [bind] in Hrs. destruct pres; try discriminate. inversion Hrs; subst e.
  destruct (feed_events_ops lookup evs _ _ _ _ Ef) as (ops & Ho & Hr).
  exists ops. split; [exact Ho|]. intros Hbud.
  assert (Hok : Forall (op_ok id bits) ops).
  { clear -Ho. revert ops Ho. generalize false as found. generalize true as first.
    induction evs as [|ev evs IH]; intros first found ops Ho; cbn [ops_of] in Ho.
    - inversion Ho. constructor.
    - destruct ev as [t|v i].
      + destruct (ops_of lookup first true evs) as [o|] eqn:E; [|discriminate]. inversion Ho; subst.
        constructor; [exact I|]. eapply IH; eauto.
      + destruct (found || first) eqn:Ef.
        * destruct (lookup_id lookup i) as [n|]; [|discriminate].
          destruct (ops_of lookup first true evs) as [o|] eqn:E; [|discriminate]. inversion Ho; subst.
          apply Forall_app. split; [destruct (first && negb found); repeat constructor|].
          constructor; [exact I|]. eapply IH; eauto.
        * eapply IH; eauto. }
  exact (storage_transparent parse_f64 lz_compress lz_decompress lz_ok cap cap_pos cap_u16 id bits Hb
           tpes ops _ blocks ttb Htp Hok Hbud Hr Hfin Hlen).
Qed.

End Stream.
