(* C12: the hierarchy builder never looks at a scope's component or a variable's direction - it only stores them.  Hence
   two sequences of builder calls that agree up to component and direction (TreeAgree.same_op) build hierarchies that are
   equal up to component and direction: same scopes and variables with the same names, kinds, encodings, ranges and
   signals, linked in the same tree. *)
From Coq Require Import Lia.
From WV Require Import Model.Base Model.Bits Model.WaveMem Model.Hierarchy.
Open Scope N_scope.

Definition omap {A B} (f : A -> B) (o : outcome A) : outcome B :=
  match o with Ok a => Ok (f a) | Err => Err | Panic => Panic end.

Definition erase_scope (s : scope) : scope :=
  mk_scope (sc_name s) None (sc_tpe s) (sc_decl s) (sc_child s) (sc_parent s) (sc_next s).
Definition erase_var (v : var) : var :=
  mk_var (v_name v) (v_tpe v) 0 (v_enc v) (v_index v) (v_signal v) (v_type_name v) (v_parent v) (v_next v).
Definition erase_b (b : builder) : builder :=
  mk_builder (map erase_var (hb_vars b)) (map erase_scope (hb_scopes b)) (hb_first b) (hb_stack b) (hb_handles b).
Definition erase_op (op : hier_op) : hier_op :=
  match op with
  | HScope nm _ t d f => HScope nm None t d f
  | HVar nm t _ e i s tn => HVar nm t 0 e i s tn
  | HPop => HPop
  end.

Lemma list_update_map {A B} (f : A -> B) (l : list A) : forall i x,
  list_update (map f l) i (f x) = map f (list_update l i x).
Proof. induction l as [|a r IH]; intros [|i] x; cbn [map list_update]; try reflexivity. now rewrite IH. Qed.

Lemma set_scope_next_erase ss i n :
  set_scope_next (map erase_scope ss) i n = omap (map erase_scope) (set_scope_next ss i n).
Proof.
  unfold set_scope_next. rewrite nth_error_map. destruct (nth_error ss i) as [s|]; cbn [option_map omap]; [|reflexivity].
  cbn [erase_scope sc_next sc_name sc_component sc_tpe sc_decl sc_child sc_parent]. destruct (sc_next s); [reflexivity|].
  cbn [omap]. rewrite <- list_update_map. reflexivity.
Qed.

Lemma set_scope_child_erase ss i n :
  set_scope_child (map erase_scope ss) i n = omap (map erase_scope) (set_scope_child ss i n).
Proof.
  unfold set_scope_child. rewrite nth_error_map. destruct (nth_error ss i) as [s|]; cbn [option_map omap]; [|reflexivity].
  cbn [erase_scope sc_next sc_name sc_component sc_tpe sc_decl sc_child sc_parent]. destruct (sc_child s); [reflexivity|].
  cbn [omap]. rewrite <- list_update_map. reflexivity.
Qed.

Lemma set_var_next_erase vs i n :
  set_var_next (map erase_var vs) i n = omap (map erase_var) (set_var_next vs i n).
Proof.
  unfold set_var_next. rewrite nth_error_map. destruct (nth_error vs i) as [v|]; cbn [option_map omap]; [|reflexivity].
  cbn [erase_var v_next v_name v_tpe v_direction v_enc v_index v_signal v_type_name v_parent]. destruct (v_next v); [reflexivity|].
  cbn [omap]. rewrite <- list_update_map. reflexivity.
Qed.

Definition erase_bp (x : builder * option nat) : builder * option nat := (erase_b (fst x), snd x).

Lemma add_to_tree_erase b node : add_to_tree (erase_b b) node = omap erase_bp (add_to_tree b node).
Proof.
  unfold add_to_tree. cbn [erase_b hb_stack hb_vars hb_scopes hb_first hb_handles].
  destruct (find_parent_pos (hb_stack b)) as [pos| |]; cbn [bind omap]; [|reflexivity..].
  destruct (nth_error (hb_stack b) pos) as [entry|]; cbn [of_option bind omap]; [|reflexivity].
  destruct (se_last_child entry) as [[c|c]|].
  - rewrite set_scope_next_erase. destruct (set_scope_next (hb_scopes b) c (Some node)); cbn [omap bind]; reflexivity.
  - rewrite set_var_next_erase. destruct (set_var_next (hb_vars b) c (Some node)); cbn [omap bind]; reflexivity.
  - destruct (se_scope entry) as [p|]; [|reflexivity].
    rewrite set_scope_child_erase. destruct (set_scope_child (hb_scopes b) p (Some node)); cbn [omap bind]; reflexivity.
Qed.

Lemma get_next_erase b it : get_next (erase_b b) it = get_next b it.
Proof.
  destruct it as [i|i]; cbn [get_next erase_b hb_scopes hb_vars]; rewrite nth_error_map.
  - destruct (nth_error (hb_scopes b) i); reflexivity.
  - destruct (nth_error (hb_vars b) i); reflexivity.
Qed.

Lemma find_dup_loop_erase fuel b nm : forall item,
  find_dup_loop fuel (erase_b b) nm item = find_dup_loop fuel b nm item.
Proof.
  induction fuel as [|f IH]; intros item; cbn [find_dup_loop]; [reflexivity|].
  destruct item as [it|]; [|reflexivity].
  assert (E : (match it with
               | IScope i => do s <- of_option (nth_error (hb_scopes (erase_b b)) i); Ok (if list_eqb (sc_name s) nm then Some i else None)
               | IVar _ => Ok None end)
            = (match it with
               | IScope i => do s <- of_option (nth_error (hb_scopes b) i); Ok (if list_eqb (sc_name s) nm then Some i else None)
               | IVar _ => Ok None end)).
  { destruct it as [i|i]; [|reflexivity]. cbn [erase_b hb_scopes]. rewrite nth_error_map.
    destruct (nth_error (hb_scopes b) i); reflexivity. }
  rewrite E. clear E.
  match goal with |- context [bind ?x _] => destruct x as [[i|]| |] end; cbn [bind]; try reflexivity.
  rewrite get_next_erase. destruct (get_next b it); cbn [bind]; [apply IH|reflexivity..].
Qed.

Lemma items_fuel_erase b : items_fuel (erase_b b) = items_fuel b.
Proof. unfold items_fuel. cbn [erase_b hb_vars hb_scopes]. now rewrite !map_length. Qed.

Lemma find_duplicate_scope_erase b nm : find_duplicate_scope (erase_b b) nm = find_duplicate_scope b nm.
Proof.
  unfold find_duplicate_scope. rewrite items_fuel_erase. cbn [erase_b hb_stack hb_first hb_scopes].
  destruct (find_parent_pos (hb_stack b)) as [pos| |]; cbn [bind]; [|reflexivity..].
  destruct (nth_error (hb_stack b) pos) as [parent|]; cbn [of_option bind]; [|reflexivity].
  destruct (se_scope parent) as [p|].
  - rewrite nth_error_map. destruct (nth_error (hb_scopes b) p) as [s|]; cbn [option_map of_option bind]; [|reflexivity].
    cbn [erase_scope sc_child]. apply (find_dup_loop_erase _ b nm).
  - cbn [bind]. apply (find_dup_loop_erase _ b nm).
Qed.

Lemma last_child_loop_erase fuel b : forall c, last_child_loop fuel (erase_b b) c = last_child_loop fuel b c.
Proof.
  induction fuel as [|f IH]; intros c; cbn [last_child_loop]; [reflexivity|].
  rewrite get_next_erase. destruct (get_next b c) as [[n|]| |]; cbn [bind]; try reflexivity. apply IH.
Qed.

Lemma find_last_child_erase b sc : find_last_child (erase_b b) sc = find_last_child b sc.
Proof.
  unfold find_last_child. rewrite items_fuel_erase. cbn [erase_b hb_scopes]. rewrite nth_error_map.
  destruct (nth_error (hb_scopes b) sc) as [s|]; cbn [option_map of_option bind]; [|reflexivity].
  cbn [erase_scope sc_child]. destruct (sc_child s) as [c|]; [|reflexivity]. rewrite last_child_loop_erase. reflexivity.
Qed.

Lemma hier_step_erase b op : hier_step (erase_b b) (erase_op op) = omap erase_b (hier_step b op).
Proof.
  destruct op as [nm comp t d f|nm t dir e i s tn|]; cbn [erase_op hier_step].
  - unfold add_scope. rewrite find_duplicate_scope_erase.
    destruct (find_duplicate_scope b nm) as [[dup|]| |]; cbn [bind omap]; try reflexivity.
    + rewrite find_last_child_erase. destruct (find_last_child b dup); cbn [bind omap]; reflexivity.
    + destruct f; [reflexivity|].
      cbn [erase_b hb_vars hb_scopes hb_first hb_stack hb_handles]. rewrite map_length.
      change (mk_builder (map erase_var (hb_vars b)) (map erase_scope (hb_scopes b))
                (match hb_first b with None => Some (IScope (length (hb_scopes b))) | Some i => Some i end) (hb_stack b) (hb_handles b))
        with (erase_b (mk_builder (hb_vars b) (hb_scopes b)
                (match hb_first b with None => Some (IScope (length (hb_scopes b))) | Some i => Some i end) (hb_stack b) (hb_handles b))).
      rewrite add_to_tree_erase.
      match goal with |- context [add_to_tree ?x ?y] => destruct (add_to_tree x y) as [[b2 parent]| |] end; cbn [omap bind erase_bp fst snd]; try reflexivity.
      unfold erase_b. cbn [hb_vars hb_scopes hb_first hb_stack hb_handles]. rewrite map_app. reflexivity.
  - unfold add_var. cbn [erase_b hb_vars hb_scopes hb_first hb_stack hb_handles]. rewrite map_length.
    change (mk_builder (map erase_var (hb_vars b)) (map erase_scope (hb_scopes b))
              (match hb_first b with None => Some (IVar (length (hb_vars b))) | Some i => Some i end) (hb_stack b) (hb_handles b))
      with (erase_b (mk_builder (hb_vars b) (hb_scopes b)
              (match hb_first b with None => Some (IVar (length (hb_vars b))) | Some i => Some i end) (hb_stack b) (hb_handles b))).
    rewrite add_to_tree_erase.
    match goal with |- context [add_to_tree ?x ?y] => destruct (add_to_tree x y) as [[b2 parent]| |] end; cbn [omap bind erase_bp fst snd]; try reflexivity.
    unfold erase_b. cbn [hb_vars hb_scopes hb_first hb_stack hb_handles]. rewrite map_app. reflexivity.
  - unfold pop_scope. cbn [erase_b hb_stack]. destruct (hb_stack b); reflexivity.
Qed.

Lemma hier_run_erase ops : forall b, hier_run (erase_b b) (map erase_op ops) = omap erase_b (hier_run b ops).
Proof.
  induction ops as [|op r IH]; intros b; cbn [map hier_run]; [reflexivity|].
  rewrite hier_step_erase. destruct (hier_step b op) as [b'| |]; cbn [omap bind]; [apply IH|reflexivity..].
Qed.

(* equal calls up to component and direction give equal hierarchies up to component and direction *)
Theorem erased_calls_same_tree ops1 ops2 b1 b2 :
  map erase_op ops1 = map erase_op ops2 ->
  hier_run hb_new ops1 = Ok b1 -> hier_run hb_new ops2 = Ok b2 ->
  erase_b b1 = erase_b b2.
Proof.
  intros He H1 H2.
  pose proof (hier_run_erase ops1 hb_new) as E1. pose proof (hier_run_erase ops2 hb_new) as E2.
  rewrite H1 in E1. rewrite H2 in E2. cbn [omap] in E1, E2. rewrite He in E1. rewrite E1 in E2. assert (Hinj : forall x y : builder, Ok x = Ok y -> x = y) by (intros x y Hxy; inversion Hxy; reflexivity). exact (Hinj _ _ E2).
Qed.

(* and one of the two runs succeeds exactly when the other does *)
Theorem erased_calls_same_outcome ops1 ops2 :
  map erase_op ops1 = map erase_op ops2 ->
  omap erase_b (hier_run hb_new ops1) = omap erase_b (hier_run hb_new ops2).
Proof.
  intros He. rewrite <- (hier_run_erase ops1 hb_new), <- (hier_run_erase ops2 hb_new), He. reflexivity.
Qed.

(* ------------------------------------------------------------------ the same for the shape alone: names, nesting, order,
   encodings and widths, bit ranges, signals - whatever the kinds, components, directions, source locators and type names *)
Definition shape_scope (s : scope) : scope :=
  mk_scope (sc_name s) None 0 None (sc_child s) (sc_parent s) (sc_next s).
Definition shape_var (v : var) : var :=
  mk_var (v_name v) 0 0 (v_enc v) (v_index v) (v_signal v) None (v_parent v) (v_next v).
Definition shape_b (b : builder) : builder :=
  mk_builder (map shape_var (hb_vars b)) (map shape_scope (hb_scopes b)) (hb_first b) (hb_stack b) (hb_handles b).
Definition shape_op (op : hier_op) : hier_op :=
  match op with
  | HScope nm _ _ _ f => HScope nm None 0 None f
  | HVar nm _ _ e i s _ => HVar nm 0 0 e i s None
  | HPop => HPop
  end.

Lemma set_scope_next_shape ss i n :
  set_scope_next (map shape_scope ss) i n = omap (map shape_scope) (set_scope_next ss i n).
Proof.
  unfold set_scope_next. rewrite nth_error_map. destruct (nth_error ss i) as [s|]; cbn [option_map omap]; [|reflexivity].
  cbn [shape_scope sc_next sc_name sc_component sc_tpe sc_decl sc_child sc_parent]. destruct (sc_next s); [reflexivity|].
  cbn [omap]. rewrite <- list_update_map. reflexivity.
Qed.

Lemma set_scope_child_shape ss i n :
  set_scope_child (map shape_scope ss) i n = omap (map shape_scope) (set_scope_child ss i n).
Proof.
  unfold set_scope_child. rewrite nth_error_map. destruct (nth_error ss i) as [s|]; cbn [option_map omap]; [|reflexivity].
  cbn [shape_scope sc_next sc_name sc_component sc_tpe sc_decl sc_child sc_parent]. destruct (sc_child s); [reflexivity|].
  cbn [omap]. rewrite <- list_update_map. reflexivity.
Qed.

Lemma set_var_next_shape vs i n :
  set_var_next (map shape_var vs) i n = omap (map shape_var) (set_var_next vs i n).
Proof.
  unfold set_var_next. rewrite nth_error_map. destruct (nth_error vs i) as [v|]; cbn [option_map omap]; [|reflexivity].
  cbn [shape_var v_next v_name v_tpe v_direction v_enc v_index v_signal v_type_name v_parent]. destruct (v_next v); [reflexivity|].
  cbn [omap]. rewrite <- list_update_map. reflexivity.
Qed.

Definition shape_bp (x : builder * option nat) : builder * option nat := (shape_b (fst x), snd x).

Lemma add_to_tree_shape b node : add_to_tree (shape_b b) node = omap shape_bp (add_to_tree b node).
Proof.
  unfold add_to_tree. cbn [shape_b hb_stack hb_vars hb_scopes hb_first hb_handles].
  destruct (find_parent_pos (hb_stack b)) as [pos| |]; cbn [bind omap]; [|reflexivity..].
  destruct (nth_error (hb_stack b) pos) as [entry|]; cbn [of_option bind omap]; [|reflexivity].
  destruct (se_last_child entry) as [[c|c]|].
  - rewrite set_scope_next_shape. destruct (set_scope_next (hb_scopes b) c (Some node)); cbn [omap bind]; reflexivity.
  - rewrite set_var_next_shape. destruct (set_var_next (hb_vars b) c (Some node)); cbn [omap bind]; reflexivity.
  - destruct (se_scope entry) as [p|]; [|reflexivity].
    rewrite set_scope_child_shape. destruct (set_scope_child (hb_scopes b) p (Some node)); cbn [omap bind]; reflexivity.
Qed.

Lemma get_next_shape b it : get_next (shape_b b) it = get_next b it.
Proof.
  destruct it as [i|i]; cbn [get_next shape_b hb_scopes hb_vars]; rewrite nth_error_map.
  - destruct (nth_error (hb_scopes b) i); reflexivity.
  - destruct (nth_error (hb_vars b) i); reflexivity.
Qed.

Lemma find_dup_loop_shape fuel b nm : forall item,
  find_dup_loop fuel (shape_b b) nm item = find_dup_loop fuel b nm item.
Proof.
  induction fuel as [|f IH]; intros item; cbn [find_dup_loop]; [reflexivity|].
  destruct item as [it|]; [|reflexivity].
  assert (E : (match it with
               | IScope i => do s <- of_option (nth_error (hb_scopes (shape_b b)) i); Ok (if list_eqb (sc_name s) nm then Some i else None)
               | IVar _ => Ok None end)
            = (match it with
               | IScope i => do s <- of_option (nth_error (hb_scopes b) i); Ok (if list_eqb (sc_name s) nm then Some i else None)
               | IVar _ => Ok None end)).
  { destruct it as [i|i]; [|reflexivity]. cbn [shape_b hb_scopes]. rewrite nth_error_map.
    destruct (nth_error (hb_scopes b) i); reflexivity. }
  rewrite E. clear E.
  match goal with |- context [bind ?x _] => destruct x as [[i|]| |] end; cbn [bind]; try reflexivity.
  rewrite get_next_shape. destruct (get_next b it); cbn [bind]; [apply IH|reflexivity..].
Qed.

Lemma items_fuel_shape b : items_fuel (shape_b b) = items_fuel b.
Proof. unfold items_fuel. cbn [shape_b hb_vars hb_scopes]. now rewrite !map_length. Qed.

Lemma find_duplicate_scope_shape b nm : find_duplicate_scope (shape_b b) nm = find_duplicate_scope b nm.
Proof.
  unfold find_duplicate_scope. rewrite items_fuel_shape. cbn [shape_b hb_stack hb_first hb_scopes].
  destruct (find_parent_pos (hb_stack b)) as [pos| |]; cbn [bind]; [|reflexivity..].
  destruct (nth_error (hb_stack b) pos) as [parent|]; cbn [of_option bind]; [|reflexivity].
  destruct (se_scope parent) as [p|].
  - rewrite nth_error_map. destruct (nth_error (hb_scopes b) p) as [s|]; cbn [option_map of_option bind]; [|reflexivity].
    cbn [shape_scope sc_child]. apply (find_dup_loop_shape _ b nm).
  - cbn [bind]. apply (find_dup_loop_shape _ b nm).
Qed.

Lemma last_child_loop_shape fuel b : forall c, last_child_loop fuel (shape_b b) c = last_child_loop fuel b c.
Proof.
  induction fuel as [|f IH]; intros c; cbn [last_child_loop]; [reflexivity|].
  rewrite get_next_shape. destruct (get_next b c) as [[n|]| |]; cbn [bind]; try reflexivity. apply IH.
Qed.

Lemma find_last_child_shape b sc : find_last_child (shape_b b) sc = find_last_child b sc.
Proof.
  unfold find_last_child. rewrite items_fuel_shape. cbn [shape_b hb_scopes]. rewrite nth_error_map.
  destruct (nth_error (hb_scopes b) sc) as [s|]; cbn [option_map of_option bind]; [|reflexivity].
  cbn [shape_scope sc_child]. destruct (sc_child s) as [c|]; [|reflexivity]. rewrite last_child_loop_shape. reflexivity.
Qed.

Lemma hier_step_shape b op : hier_step (shape_b b) (shape_op op) = omap shape_b (hier_step b op).
Proof.
  destruct op as [nm comp t d f|nm t dir e i s tn|]; cbn [shape_op hier_step].
  - unfold add_scope. rewrite find_duplicate_scope_shape.
    destruct (find_duplicate_scope b nm) as [[dup|]| |]; cbn [bind omap]; try reflexivity.
    + rewrite find_last_child_shape. destruct (find_last_child b dup); cbn [bind omap]; reflexivity.
    + destruct f; [reflexivity|].
      cbn [shape_b hb_vars hb_scopes hb_first hb_stack hb_handles]. rewrite map_length.
      change (mk_builder (map shape_var (hb_vars b)) (map shape_scope (hb_scopes b))
                (match hb_first b with None => Some (IScope (length (hb_scopes b))) | Some i => Some i end) (hb_stack b) (hb_handles b))
        with (shape_b (mk_builder (hb_vars b) (hb_scopes b)
                (match hb_first b with None => Some (IScope (length (hb_scopes b))) | Some i => Some i end) (hb_stack b) (hb_handles b))).
      rewrite add_to_tree_shape.
      match goal with |- context [add_to_tree ?x ?y] => destruct (add_to_tree x y) as [[b2 parent]| |] end; cbn [omap bind shape_bp fst snd]; try reflexivity.
      unfold shape_b. cbn [hb_vars hb_scopes hb_first hb_stack hb_handles]. rewrite map_app. reflexivity.
  - unfold add_var. cbn [shape_b hb_vars hb_scopes hb_first hb_stack hb_handles]. rewrite map_length.
    change (mk_builder (map shape_var (hb_vars b)) (map shape_scope (hb_scopes b))
              (match hb_first b with None => Some (IVar (length (hb_vars b))) | Some i => Some i end) (hb_stack b) (hb_handles b))
      with (shape_b (mk_builder (hb_vars b) (hb_scopes b)
              (match hb_first b with None => Some (IVar (length (hb_vars b))) | Some i => Some i end) (hb_stack b) (hb_handles b))).
    rewrite add_to_tree_shape.
    match goal with |- context [add_to_tree ?x ?y] => destruct (add_to_tree x y) as [[b2 parent]| |] end; cbn [omap bind shape_bp fst snd]; try reflexivity.
    unfold shape_b. cbn [hb_vars hb_scopes hb_first hb_stack hb_handles]. rewrite map_app. reflexivity.
  - unfold pop_scope. cbn [shape_b hb_stack]. destruct (hb_stack b); reflexivity.
Qed.

Lemma hier_run_shape ops : forall b, hier_run (shape_b b) (map shape_op ops) = omap shape_b (hier_run b ops).
Proof.
  induction ops as [|op r IH]; intros b; cbn [map hier_run]; [reflexivity|].
  rewrite hier_step_shape. destruct (hier_step b op) as [b'| |]; cbn [omap bind]; [apply IH|reflexivity..].
Qed.

(* equal calls up to kinds, component, direction, source locators and type names give hierarchies equal up to those *)
Theorem shaped_calls_same_tree ops1 ops2 b1 b2 :
  map shape_op ops1 = map shape_op ops2 ->
  hier_run hb_new ops1 = Ok b1 -> hier_run hb_new ops2 = Ok b2 ->
  shape_b b1 = shape_b b2.
Proof.
  intros He H1 H2.
  pose proof (hier_run_shape ops1 hb_new) as E1. pose proof (hier_run_shape ops2 hb_new) as E2.
  rewrite H1 in E1. rewrite H2 in E2. cbn [omap] in E1, E2. rewrite He in E1. rewrite E1 in E2. assert (Hinj : forall x y : builder, Ok x = Ok y -> x = y) by (intros x y Hxy; inversion Hxy; reflexivity). exact (Hinj _ _ E2).
Qed.

(* and one of the two runs succeeds exactly when the other does *)
Theorem shaped_calls_same_outcome ops1 ops2 :
  map shape_op ops1 = map shape_op ops2 ->
  omap shape_b (hier_run hb_new ops1) = omap shape_b (hier_run hb_new ops2).
Proof.
  intros He. rewrite <- (hier_run_shape ops1 hb_new), <- (hier_run_shape ops2 hb_new), He. reflexivity.
Qed.
