(* Model of the Python binding pywellen/src/lib.rs: Signal::{value_at_time, value_at_idx, all_changes},
   SignalChangeIter::__next__, convert_py_idx, TimeTable::__getitem__, and the conversion of a value to a
   Python object (int for pure 0/1 values via BigUint::from_bytes_be, string otherwise).
   PyO3 glue and num-bigint are not modelled. *)
From WV Require Import Model.Base Model.Bits Model.WaveMem Model.Signals.
Open Scope N_scope.

Inductive pyval := PyInt (n : N) | PyStr (s : list byte) | PyFloat (le : list byte).

(* numeric value of a rendered 0/1 string, most significant first *)
Fixpoint bits_value (chars : list byte) (acc : N) : N :=
  match chars with
  | [] => acc
  | c :: r => bits_value r (acc * 2 + (c - 48))
  end.

Definition to_py (v : value_kind * list byte) : pyval :=
  match v with
  | (KBinary, chars) => PyInt (bits_value chars 0)
  | (KReal, le) => PyFloat le
  | (_, s) => PyStr s
  end.

(* Signal::value_at_idx: the last change of the group carrying the greatest index <= idx *)
Definition value_at_idx (s : signal) (idx : N) : outcome (option pyval) :=
  do off <- get_offset (s_idx s) idx;
  match off with
  | None => Ok None
  | Some d =>
    do el <- nsub (do_elements d) 1;                              (* elements - 1 (u16) *)
    do pos <- get_value_pos d el;
    do v <- get_value_at (s_data s) pos;
    Ok (Some (to_py v))
  end.

(* <[u64]>::binary_search on the (strictly increasing) time table: Ok(i) | Err(insertion point) *)
Fixpoint insertion_point (tt : list N) (time : N) (pos : nat) : nat * bool :=
  match tt with
  | [] => (pos, false)
  | t :: r => if t =? time then (pos, true) else if time <? t then (pos, false) else insertion_point r time (S pos)
  end.

(* Signal::value_at_time *)
Definition value_at_time (tt : list N) (s : signal) (time : N) : outcome (option pyval) :=
  match insertion_point tt time 0 with
  | (i, true) => value_at_idx s (u32_wrap (N.of_nat i))
  | (O, false) => Ok None
  | (S i, false) => value_at_idx s (u32_wrap (N.of_nat i))
  end.

(* SignalChangeIter: one step; None ends the iteration *)
Definition change_at (tt : list N) (s : signal) (offset : nat) : outcome (option (N * pyval)) :=
  match nth_error (s_idx s) offset with
  | None => Ok None
  | Some time_idx =>
    do off <- get_offset (s_idx s) time_idx;
    match off with
    | None => Ok None
    | Some d =>
      do el <- usub offset (do_start d);
      do pos <- get_value_pos d (u16_wrap (N.of_nat el));
      do v <- get_value_at (s_data s) pos;
      match nth_error tt (N.to_nat time_idx) with
      | None => Ok None
      | Some time => Ok (Some (time, to_py v))
      end
    end
  end.

Fixpoint all_changes_from (fuel : nat) (tt : list N) (s : signal) (offset : nat) : outcome (list (N * pyval)) :=
  match fuel with
  | O => Ok []
  | S f =>
    do c <- change_at tt s offset;
    match c with
    | None => Ok []
    | Some x => do r <- all_changes_from f tt s (S offset); Ok (x :: r)
    end
  end.
Definition all_changes (tt : list N) (s : signal) : outcome (list (N * pyval)) :=
  all_changes_from (S (length (s_idx s))) tt s 0.

(* convert_py_idx + TimeTable::__getitem__ *)
Definition time_table_getitem (tt : list N) (idx : Z) : option N :=
  let i := if (idx <? 0)%Z then (idx + Z.of_nat (length tt))%Z else idx in
  if (i <? 0)%Z then None                                        (* wraps to a huge usize: get() = None *)
  else nth_error tt (Z.to_nat i).
