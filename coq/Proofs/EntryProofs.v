(* The entry points of the VCD body reader (property C14): reading from memory (stop position = last byte) and
   reading through a BufRead (stop position = absolute end of the file, header included) feed the parser with
   a stop rule that can never fire, hence produce the same store. *)
From WV Require Import Model.Base Generated.Consts Model.Bits Model.WaveMem Model.VcdBody Proofs.BodyProofs.
From Coq Require Import Lia.
Open Scope N_scope.

(* a stop position at or beyond the last byte never triggers the hand-over rule *)
Lemma run_bytes_stop_irrelevant debug s1 s2 : forall input s,
  ps_pos s + N.of_nat (length input) <= s1 + 1 -> ps_pos s + N.of_nat (length input) <= s2 + 1 ->
  run_bytes debug s1 input s = run_bytes debug s2 input s.
Proof.
  induction input as [|b r IH]; intros s H1 H2; [reflexivity|].
  cbn [run_bytes]. cbn [length] in H1, H2. rewrite Nat2N.inj_succ in H1, H2.
  assert (Hn : forall st f i a, run_bytes debug s1 r (mk_ps (ps_pos s + 1) st f i a) = run_bytes debug s2 r (mk_ps (ps_pos s + 1) st f i a)).
  { intros. apply IH; cbn [ps_pos]; lia. }
  destruct (ps_state s).
  - apply Hn.
  - destruct (is_white_space b); [|apply Hn]. destruct (ps_first s) as [|c rest] eqn:Ef; [apply Hn|].
    destruct (parse_first_token debug (c :: rest)) as [[v| | | |]| |]; try reflexivity; try apply Hn.
    destruct (ps_pos s <? N.of_nat (length (c :: rest)) + 1) eqn:Ep; [reflexivity|].
    apply N.ltb_ge in Ep.
    replace (s1 <? ps_pos s - N.of_nat (length (c :: rest)) - 1) with false by (symmetry; apply N.ltb_ge; lia).
    replace (s2 <? ps_pos s - N.of_nat (length (c :: rest)) - 1) with false by (symmetry; apply N.ltb_ge; lia).
    apply Hn.
  - destruct (is_white_space b); [|apply Hn]. destruct (ps_id s); apply Hn.
  - destruct (is_white_space b); [|apply Hn]. destruct (ps_first s); apply Hn.
Qed.

Lemma parse_body_stop_irrelevant debug input s1 s2 :
  N.of_nat (length input) <= s1 + 1 -> N.of_nat (length input) <= s2 + 1 ->
  parse_body debug input s1 = parse_body debug input s2.
Proof.
  intros H1 H2. unfold parse_body. rewrite !parse_loop_run. f_equal.
  apply run_bytes_stop_irrelevant; cbn [ps_pos]; lia.
Qed.

Section Entry.
Variable parse_f64 : list byte -> option (list byte).
Variable lz_compress : list byte -> list byte.
Variable lz_decompress : list byte -> nat -> option (list byte).
Variable cap : N.

(* read_body from a byte slice (single-threaded) and from a reader produce the same blocks and time table *)
Theorem entry_points_agree debug tpes lookup input header_len :
  read_values_st parse_f64 lz_compress cap debug tpes lookup input
  = read_values_reader parse_f64 lz_compress cap debug tpes lookup input header_len.
Proof.
  unfold read_values_st, read_values_reader, read_single_stream.
  rewrite (parse_body_stop_irrelevant debug input (N.of_nat (length input - 1)) (N.of_nat (header_len + length input))); [reflexivity|lia|lia].
Qed.

End Entry.
