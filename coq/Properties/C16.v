(* Property C16: format detection is total and correct. *)
From WV Require Import Model.Base Model.Bits Model.VcdBody Model.Detect Proofs.DetectProofs.
Open Scope N_scope.

(* the VCD probe is total; detection can only panic or hang inside the dependency's FST block walk *)
Check is_vcd_total : forall input, exists b, is_vcd input = PBool b.
Check detect_total_if_walk_total :
  forall debug input, (exists b, is_fst debug input = PBool b) -> exists f, detect debug input = DFormat f.

(* ... and that walk terminates without panic whenever every declared block length points forward *)
Check detect_total_forward :
  forall debug input, forward_blocks input -> (Z.of_nat (length input) < 4611686018427387904)%Z ->
  exists f, detect debug input = DFormat f.

(* data that begins like none of the three formats is Unknown *)
Check detect_unknown : forall debug input, begins_like_none input -> detect debug input = DFormat FUnknown.

(* every input that starts with a VCD command closed by `$end` is a VCD *)
Check detect_vcd :
  forall debug ws w sep body rest,
  all_blank ws -> is_vcd_command w = true -> no_blank w -> is_white_space sep = true -> no_dollar body ->
  detect debug (ws ++ 36 :: w ++ sep :: body ++ [36; 101; 110; 100] ++ rest) = DFormat FVcd.

(* every input that starts with a legal 16-byte GHW header is a GHW file *)
Check detect_ghw :
  forall debug (v e w o : N) rest, v <= 1 -> (e = 1 \/ e = 2) ->
  detect debug (ghw_header_start ++ [16; 0; v; e; w; o; 0] ++ rest) = DFormat FGhw.

(* known findings D13 and D17: totality is false on this tree *)
Check detect_hang_refuted :
  detect true [0; 255; 255; 255; 255; 255; 255; 255; 255] = DHang /\
  detect false [0; 255; 255; 255; 255; 255; 255; 255; 255] = DHang.
Check detect_overflow_refuted : detect true [0; 128; 0; 0; 0; 0; 0; 0; 0] = DPanic.

Print Assumptions is_vcd_total.
Print Assumptions detect_total_if_walk_total.
Print Assumptions detect_total_forward.
Print Assumptions detect_unknown.
Print Assumptions detect_vcd.
Print Assumptions detect_ghw.
Print Assumptions detect_hang_refuted.
Print Assumptions detect_overflow_refuted.
