(* Property C01 from the text for any layout: parse_body_layout (Proofs/LayoutProofs.v) in front of the stream theorems. *)
From Coq Require Import Lia.
From WV Require Import Model.Base Generated.Consts Model.Bits Model.Leb128 Model.WaveMem Model.VcdBody
  Spec.TimeSpec Spec.StoreSpec Proofs.BitsProofs Proofs.StoreProofs Proofs.EncoderProofs Proofs.VcdStreamProofs
  Proofs.RealStringProofs Proofs.RealStringEnc Proofs.BodyProofs Proofs.TokenProofs Proofs.LayoutProofs Proofs.VcdStreamRS.
Open Scope N_scope.

Section Layout.
Variable parse_f64 : list byte -> option (list byte).
Hypothesis parse_f64_len : forall r le, parse_f64 r = Some le -> length le = 8%nat.
Variable lz_compress : list byte -> list byte.
Variable lz_decompress : list byte -> nat -> option (list byte).
Hypothesis lz_ok : forall d n, (length d <= n)%nat -> lz_decompress (lz_compress d) n = Some d.
Variable cap : N.
Hypothesis cap_pos : 1 <= cap.
Hypothesis cap_u16 : cap <= 65536.

(* a VCD body in any layout - token groups separated by any blank space, several on a line, CRLF, indentation - loaded
   by the single-threaded path reports, for a bit-vector variable, exactly what its token groups record *)
Theorem vcd_layout_transparent debug tpes lookup pre ws0 items stop e blocks ttb id bits :
  ~ In 10 pre -> ws ws0 -> Forall item_ok items ->
  N.of_nat (length (pre ++ [10] ++ ws0 ++ btext items)) <= stop + 1 ->
  (1 <= bits)%nat -> nth_error tpes id = Some (EncBits bits) ->
  read_single_stream parse_f64 lz_compress cap debug tpes lookup (pre ++ [10] ++ ws0 ++ btext items) stop true = Ok e ->
  enc_finish lz_compress e = Ok (blocks, ttb) -> N.of_nat (length ttb) < 4294967296 ->
  exists ops, ops_of lookup true false (ievents items) = Some ops /\
    (N.of_nat (count_vcd id ops) * (10 + N.of_nat bits) < 4294967264 ->
     exists R sig,
       Forall2 (decodes bits) R (recorded id ops [] false) /\
       load_signal lz_decompress blocks id (EncBits bits) = Ok sig /\
       observe_signal sig = outcome_map render_of (dedup R)).
Proof.
  intros Hpre Hws Hok Hstop Hb Htp Hrs Hfin Hlen.
  destruct (vcd_stream_transparent parse_f64 lz_compress lz_decompress lz_ok cap cap_pos cap_u16 debug tpes lookup
              _ stop e blocks ttb id bits Hb Htp Hrs Hfin Hlen) as (ops & Ho & Hrest).
  rewrite (parse_body_layout debug pre ws0 items stop Hpre Hws Hok Hstop) in Ho. cbn [fst] in Ho.
  exists ops. split; [exact Ho|exact Hrest].
Qed.

(* the same for real-valued and string-valued variables *)
Theorem vcd_layout_transparent_rs debug tpes lookup pre ws0 items stop e blocks ttb id str :
  ~ In 10 pre -> ws ws0 -> Forall item_ok items ->
  N.of_nat (length (pre ++ [10] ++ ws0 ++ btext items)) <= stop + 1 ->
  nth_error tpes id = Some (rs_tpe str) ->
  read_single_stream parse_f64 lz_compress cap debug tpes lookup (pre ++ [10] ++ ws0 ++ btext items) stop true = Ok e ->
  enc_finish lz_compress e = Ok (blocks, ttb) -> N.of_nat (length ttb) < 4294967296 ->
  exists ops, ops_of lookup true false (ievents items) = Some ops /\
    (Forall (rs_op_ok id str) ops -> ops_cost id ops < 4294967264 ->
     exists R sig,
       Forall2 (gdecodes parse_f64 str) R (recorded_rs id ops [] false) /\
       load_signal lz_decompress blocks id (rs_tpe str) = Ok sig /\
       observe_signal sig = Ok (map (fun a : N * list byte => (fst a, if str then KString else KReal, snd a)) (gdedup R))).
Proof.
  intros Hpre Hws Hok Hstop Htp Hrs Hfin Hlen.
  destruct (vcd_stream_transparent_rs parse_f64 parse_f64_len lz_compress lz_decompress lz_ok cap cap_pos cap_u16 debug tpes lookup
              _ stop e blocks ttb id str Htp Hrs Hfin Hlen) as (ops & Ho & Hrest).
  rewrite (parse_body_layout debug pre ws0 items stop Hpre Hws Hok Hstop) in Ho. cbn [fst] in Ho.
  exists ops. split; [exact Ho|exact Hrest].
Qed.

End Layout.
