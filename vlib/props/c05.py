"""C05 - point queries return the latest change at or before the requested index."""
import itertools
from .. import core

PID = "C05"
LEVEL = "proof"
RULE = ("cases = non-decreasing index sequences x query indices; exhaustive: every non-decreasing "
        "sequence of length 0..7 over {0..6} (3432) each queried at 0..max+2 and u32::MAX; random: long "
        "sequences with long equal runs at start/middle/end and large index values. A case is non-trivial "
        "when the sequence is non-empty and at least one query falls strictly between two groups or on a "
        "group of size > 1; distinct = distinct (sequence, queries) lines.")
ASSUMPTIONS = [
    "Signal::new_var_len is the public constructor used to build signals with arbitrary index sequences",
    "time indices of loaded signals are non-decreasing (C02) - the theorems carry it as hypothesis `sorted`",
    "group sizes below 65536 (hypothesis run_fits_u16; the complement is known finding D12)",
]
TRUSTED_BASE = ["Python oracle vlib/props/c05.py:expected (independent restatement of the property)"]
U32MAX = 0xFFFFFFFF


def expected(l, q):
    """The property, straight from its text."""
    le = [x for x in l if x <= q]
    if not le:
        return None
    m = max(le)
    start = l.index(m)
    elements = l.count(m)
    nxt = l[start + elements] if start + elements < len(l) else None
    return (start, elements, m == q, nxt)


def case_line(l, qs):
    return "offsets %s %s" % (",".join("%x" % x for x in l) or "-", ",".join("%x" % x for x in qs))


def parse_obs(obs):
    parts = obs.split(" ")
    it = parts[0]
    res = []
    for p in parts[1:]:
        if p == "none":
            res.append(None)
        elif p in ("PANIC", "ERR"):
            res.append(p)
        else:
            f = p.split(":")
            res.append((int(f[0]), int(f[1], 16), f[2] == "T", None if f[3] == "-" else int(f[3], 16),
                        f[4][1:], f[5][1:]))
    return it, res


def oracle(l, qs, obs):
    """returns None if the implementation's observation satisfies the property, else a reason."""
    if obs in ("PANIC", "CRASH-OR-HANG"):
        return "implementation " + obs
    it, res = parse_obs(obs)
    exp_it = "iter=" + ",".join("%x:%d" % (t, k) for k, t in enumerate(l))
    if it != exp_it:
        return "iter_changes disagrees with time_indices: %s vs %s" % (it, exp_it)
    if len(res) != len(qs):
        return "wrong number of answers"
    for q, r in zip(qs, res):
        e = expected(l, q)
        if e is None:
            if r is not None:
                return "query %d: expected None, got %r" % (q, r)
            continue
        if r is None or isinstance(r, str):
            return "query %d: expected %r, got %r" % (q, e, r)
        if (r[0], r[1], r[2], r[3]) != e:
            return "query %d: expected %r, got %r" % (q, e, r[:4])
        if r[4] != "%x" % l[e[0]]:
            return "query %d: get_time_idx_at = %s, expected %x" % (q, r[4], l[e[0]])
        if r[5] != ".".join(str(e[0] + k) for k in range(e[1])):
            return "query %d: get_value_at positions %s" % (q, r[5])
    return None


def nontrivial(l, qs):
    if not l:
        return False
    s = set(l)
    for q in qs:
        if q not in s and min(l) < q < max(l):
            return True
        if l.count(q) > 1:
            return True
    return False


def gen_exhaustive(maxlen, maxval):
    for n in range(0, maxlen + 1):
        for seq in itertools.combinations_with_replacement(range(maxval + 1), n):
            l = list(seq)
            top = (max(l) if l else 0) + 2
            yield l, list(range(0, top + 1)) + [U32MAX]


def gen_random(rng, count, maxlen):
    for _ in range(count):
        n = rng.randint(1, maxlen)
        l = []
        cur = rng.choice([0, 0, 1, 5, rng.randint(0, 1000), rng.choice([0, U32MAX - 2000])])
        while len(l) < n:
            run = rng.choice([1, 1, 1, 2, 3, rng.randint(1, 40), rng.randint(1, 400)])
            l.extend([cur] * run)
            cur += rng.choice([1, 1, 2, 3, rng.randint(1, 100)])
            if cur > U32MAX:
                break
        l = l[:n]
        qs = set()
        for x in rng.sample(l, min(len(l), 6)):
            qs.update([x, max(0, x - 1), min(U32MAX, x + 1)])
        qs.update([0, l[0], l[-1], min(U32MAX, l[-1] + 1), U32MAX, max(0, l[0] - 1)])
        yield l, sorted(qs)


def run(res, rng, tier, model_ok, replay=None):
    cases = []
    if replay:
        cases = [replay["case"]] if isinstance(replay.get("case"), str) else [replay["broken_correspondence"]["case"]]
        parsed = []
        for c in cases:
            _, a, b = c.split(" ")
            parsed.append(([int(x, 16) for x in a.split(",")] if a != "-" else [], [int(x, 16) for x in b.split(",")]))
    else:
        parsed = list(gen_exhaustive(7 if tier == "quick" else 8, 6))
        res.exhaustive = True
        parsed += list(gen_random(rng, 400 if tier == "quick" else 6000, 300 if tier == "quick" else 3000))
        cases = [case_line(l, qs) for l, qs in parsed]
    impl = core.run_cases(core.WV_DEBUG, cases, "c05i")
    model = core.run_cases(core.MODEL_RUN, cases, "c05m") if model_ok else [None] * len(cases)
    lens = {}
    for (l, qs), c, io, mo in zip(parsed, cases, impl, model):
        res.evaluations += 1
        if nontrivial(l, qs):
            res.nontrivial.add(c)
        lens[min(len(l), 8) if len(l) <= 8 else (">8")] = lens.get(min(len(l), 8) if len(l) <= 8 else ">8", 0) + 1
        why = oracle(l, qs, io)
        if why:
            res.violations.append((c, io, "see oracle", why))
        if mo is not None and mo != io:
            res.mismatches.append((c, io, mo))
    res.distribution = {"sequence_length_histogram": {str(k): v for k, v in sorted(lens.items(), key=lambda kv: str(kv[0]))},
                        "queries_total": sum(len(qs) for _, qs in parsed)}
    res.samples = [cases[0], cases[len(cases) // 3], cases[-1]] if cases else []


def check_known(entry):
    """D12: a group of 65536 changes under one index."""
    c = entry["case_gen"]
    if c == "run65536":
        case = case_line([7] * 65536, [7])
        io = core.run_cases(core.WV_DEBUG, [case], "c05k")[0]
        _, r = parse_obs(io) if io not in ("PANIC", "CRASH-OR-HANG") else (None, [io])
        return not (isinstance(r[0], tuple) and r[0][1] == 65536)
    return False
