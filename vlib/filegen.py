"""Waveform file generators: one abstract design (scope tree, typed variables, value histories) is serialised as a VCD,
an FST and a GHW file; `expected_wobs` / `expected_wfull` compute, from the design alone, what the harness commands
`wobs` / `wfull` must print for the loaded file.  Used by the checks of C10, C11 and C12 (end-to-end, file level).

The writers are test infrastructure (trusted base of those checks): they follow the GTKWave `block_format.txt` layout as
read by fst-reader 0.8.7 and the GHDL `ghwdump` layout as read by wellen/src/ghw."""
import gzip
import struct
import zlib

STD9 = "ux01zwlh-"          # order of the std_ulogic literals in GHDL files


# ----------------------------------------------------------------------------------------------- design
class Var:
    """kind: logic (std_logic[_vector], 9 states) | bit (2 states) | int (32 bit signed) | real | enum | string
    rng: (left, right) declared index range of a vector or None for a scalar
    changes: [(time, value)] strictly increasing times; value: str over 01xzhuwl- / int / float / literal index / bytes
    fst: dict of FST specific meta data (vartype code, direction code, alias_of (index of an earlier var),
         vhdl (type name, data type code), enum (name, [(value, name)])
    ghw: dict of GHW specific meta data (kind code 16..21, type name)"""

    def __init__(self, name, kind, rng=None, changes=None, literals=None, **extra):
        self.name = name
        self.kind = kind
        self.rng = rng
        self.changes = changes or []
        self.literals = literals
        self.extra = extra

    @property
    def width(self):
        if self.kind in ("logic", "bit"):
            return 1 if self.rng is None else abs(self.rng[0] - self.rng[1]) + 1
        if self.kind == "int":
            return 32
        if self.kind == "enum":
            return max(1, (len(self.literals) - 1).bit_length())
        return 0


class Scope:
    def __init__(self, name, children, kind="module", **extra):
        self.name = name
        self.children = children
        self.kind = kind
        self.extra = extra


def all_vars(items):
    out = []
    for it in items:
        if isinstance(it, Scope):
            out += all_vars(it.children)
        else:
            out.append(it)
    return out


def events(items):
    """[(time, [(var position, value)])] over all variables, times increasing"""
    vs = all_vars(items)
    m = {}
    for i, v in enumerate(vs):
        if v.extra.get("alias_of") is not None:
            continue
        for t, val in v.changes:
            m.setdefault(t, []).append((i, val))
    return sorted(m.items())


# ----------------------------------------------------------------------------------------------- rendering
def render(v, val):
    """what the common interface shows for a value: (tag, text) as printed by wobs"""
    if v.kind in ("logic", "bit"):
        return "B", val.lower()
    if v.kind == "int":
        return "B", format(val & 0xFFFFFFFF, "032b")
    if v.kind == "enum":
        return "B", format(val, "0%db" % v.width)
    if v.kind == "real":
        return "R", "%016x" % struct.unpack("<Q", struct.pack("<d", val))[0]
    return "S", val.decode("utf-8", "replace").encode().hex() if val else "-"      # String::from_utf8_lossy


def enc_str(v):
    if v.kind == "real":
        return "r"
    if v.kind == "string":
        return "s"
    return "b%d" % v.width


def dedup(v, changes):
    out = []
    prev = None
    for t, val in changes:
        r = render(v, val)
        if r != prev:
            out.append((t, r))
        prev = r
    return out


def hexname(s):
    return s.encode().hex() if isinstance(s, str) else s.hex()


def expected_wobs(items, ts="1e-15", time_table=None, var_name=None):
    """the line `wobs` prints for a file holding this design"""
    vs = all_vars(items)
    tt = time_table if time_table is not None else [t for t, _ in events(items)]
    parts = ["ts=%s" % ts, "tt=" + (",".join("%x" % t for t in tt) if tt else "-")]

    def walk(its, depth):
        for it in its:
            if isinstance(it, Scope):
                parts.append("%d:S:%s:-" % (depth, hexname(it.name)))
                walk(it.children, depth + 1)
            else:
                src = it if it.extra.get("alias_of") is None else vs[it.extra["alias_of"]]
                ch = dedup(it, src.changes)
                name = var_name(it) if var_name else it.name
                parts.append("%d:V:%s:%s=%s" % (depth, hexname(name), enc_str(it),
                                                ",".join("%x:%s:%s" % (t, k, x) for t, (k, x) in ch) if ch else "-"))
    walk(items, 0)
    return " ".join(parts)


# ----------------------------------------------------------------------------------------------- VCD
def vcd_id(i):
    chars = [chr(c) for c in range(33, 127)]
    s = ""
    i += 1
    while i:
        i, r = divmod(i - 1, len(chars))
        s = chars[r] + s
    return s


def write_vcd(path, items, timescale="1 fs", upper=None):
    vs = all_vars(items)
    out = ["$timescale %s $end" % timescale]
    ids = {}
    n = 0
    for i, v in enumerate(vs):
        a = v.extra.get("alias_of")
        if a is None:
            ids[i] = vcd_id(n)
            n += 1
        else:
            ids[i] = ids[a]

    def walk(its):
        for it in its:
            if isinstance(it, Scope):
                out.append("$scope %s %s $end" % (it.kind if it.kind in ("module", "task", "function", "begin", "fork") else "module", it.name))
                walk(it.children)
                out.append("$upscope $end")
            else:
                i = next(k for k, x in enumerate(vs) if x is it)
                if it.kind == "real":
                    out.append("$var real 64 %s %s $end" % (ids[i], it.name))
                elif it.kind == "string":
                    out.append("$var string 1 %s %s $end" % (ids[i], it.name))
                elif it.kind == "int":
                    out.append("$var integer 32 %s %s $end" % (ids[i], it.name))
                elif it.rng is None:
                    out.append("$var wire %d %s %s $end" % (it.width, ids[i], it.name))
                else:
                    out.append("$var wire %d %s %s [%d:%d] $end" % (it.width, ids[i], it.name, it.rng[0], it.rng[1]))
    walk(items)
    out.append("$enddefinitions $end")
    for t, chs in events(items):
        out.append("#%d" % t)
        for i, val in chs:
            v = vs[i]
            if v.kind == "real":
                out.append("r%r %s" % (val, ids[i]))
            elif v.kind == "string":
                out.append("s%s %s" % (val.decode("latin-1"), ids[i]))
            elif v.kind in ("int", "enum"):
                out.append("b%s %s" % (render(v, val)[1], ids[i]))
            elif v.width == 1:
                out.append("%s%s" % (val, ids[i]))
            else:
                out.append("b%s %s" % (val, ids[i]))
    open(path, "w", encoding="latin-1").write("\n".join(out) + "\n")


# ----------------------------------------------------------------------------------------------- FST
def varint(v):
    out = bytearray()
    while True:
        b = v & 0x7F
        v >>= 7
        if v:
            out.append(b | 0x80)
        else:
            out.append(b)
            return bytes(out)


def be64(v):
    return struct.pack(">Q", v)


def lz4_literals(data):
    """a valid LZ4 block consisting of one literal-only sequence"""
    n = len(data)
    out = bytearray()
    if n < 15:
        out.append(n << 4)
    else:
        out.append(0xF0)
        r = n - 15
        while r >= 255:
            out.append(255)
            r -= 255
        out.append(r)
    return bytes(out) + data


FST_SCOPE = {"module": 0, "task": 1, "function": 2, "begin": 3, "fork": 4, "generate": 5, "struct": 6, "union": 7,
             "class": 8, "interface": 9, "package": 10, "program": 11, "vhdl_architecture": 12, "vhdl_procedure": 13,
             "vhdl_function": 14, "vhdl_record": 15, "vhdl_process": 16, "vhdl_block": 17, "vhdl_for_generate": 18,
             "vhdl_if_generate": 19, "vhdl_generate": 20, "vhdl_package": 21}
FST_RCV = "xzhuwl-"


def fst_vartype(v):
    if "vartype" in v.extra:
        return v.extra["vartype"]
    return {"real": 3, "string": 21, "int": 1, "enum": 28}.get(v.kind, 16)


def fst_value(v, val, delta):
    """one value change record of a signal stream"""
    if v.kind == "real":
        return varint((delta << 1) | 1) + struct.pack("<d", val)
    if v.kind == "string":
        return varint(delta << 1) + varint(len(val)) + val
    text = render(v, val)[1] if v.kind in ("int", "enum") else val
    if len(text) == 1:
        c = text.lower()
        if c in "01":
            return varint((delta << 2) | (int(c) << 1))
        return varint((delta << 4) | (FST_RCV.index(c) << 1) | 1)
    if all(c in "01" for c in text):
        packed = bytearray((len(text) + 7) // 8)
        for pos, c in enumerate(text):
            if c == "1":
                packed[pos // 8] |= 1 << (7 - (pos & 7))
        return varint(delta << 1) + bytes(packed)
    return varint((delta << 1) | 1) + text.encode()


def write_fst(path, items, exponent=-15, blocks=None, use_frame=False, hier="lz4", zlib_values=False,
              zlib_times=False, zlib_geometry=False, file_type=1, version=b"wellen verif", date=b"today", split=None,
              enum_handles=None, path_ids=None):
    """blocks: list of block sizes (numbers of time table entries per value change block); default: one block.
    enum_handles / path_ids: the handles of the enum tables and the ids of the path names in order of first use (default
    1, 2, 3, ...; any distinct positive numbers are legal).
    split: {block index >= 1: k}: the writer flushed in the middle of the first time step of that block: the first k
    changes of the step close the previous block, the rest open this one, so the file's time chain lists that time
    twice.  Returns the file's time chain."""
    vs = all_vars(items)
    handles = {}           # var position -> signal index (0 based)
    sigs = []              # signal index -> var
    for i, v in enumerate(vs):
        a = v.extra.get("alias_of")
        if a is None:
            handles[i] = len(sigs)
            sigs.append(v)
        else:
            handles[i] = handles[a]
    evs = events(items)
    times = [t for t, _ in evs]
    n = len(sigs)
    out = bytearray()
    if blocks is None:
        blocks = [len(times)]
    assert sum(blocks) == len(times) and all(b > 0 for b in blocks)
    if split:
        starts, p0 = [], 0
        for b in blocks:
            starts.append(p0)
            p0 += b
        new_evs, new_blocks = [], list(blocks)
        for bi in range(len(blocks)):
            seg = evs[starts[bi]:starts[bi] + blocks[bi]]
            k = split.get(bi, split.get(str(bi)))
            if k and bi > 0 and 0 < k < len(seg[0][1]):
                t, chs = seg[0]
                new_evs.append((t, chs[:k]))
                new_blocks[bi - 1] += 1
                seg = [(t, chs[k:])] + seg[1:]
            new_evs += seg
        evs, blocks = new_evs, new_blocks
        times = [t for t, _ in evs]
    # header
    out.append(0)
    out += be64(329) + be64(times[0]) + be64(times[-1])
    out += struct.pack("<d", 2.718281828459045)
    out += be64(0) + be64(sum(1 for _ in _scopes(items))) + be64(len(vs)) + be64(n) + be64(len(blocks))
    out += struct.pack("b", exponent)
    out += version.ljust(128, b"\0")[:128] + date.ljust(119, b"\0")[:119]
    out.append(file_type)
    out += be64(0)

    def siglen(v):
        return 8 if v.kind == "real" else (0 if v.kind == "string" else v.width)

    pos = 0
    for bi, size in enumerate(blocks):
        bevs = evs[pos:pos + size]
        pos += size
        frame = b""
        first_frame = use_frame and bi == 0
        if first_frame:
            # the initial values travel in the frame; the time chain starts with the second time
            init = dict((i, val) for i, val in bevs[0][1])
            for si, v in enumerate(sigs):
                vi = next(k for k, h in handles.items() if h == si and vs[k].extra.get("alias_of") is None)
                if v.kind == "string":
                    assert vi not in init, "variable length signals have no initial value in a frame"
                    continue
                val = init[vi]
                if v.kind == "real":
                    frame += struct.pack("<d", val)
                else:
                    frame += (render(v, val)[1] if v.kind in ("int", "enum") else val).encode()
            start_time = bevs[0][0]
            bevs = bevs[1:]
            assert bevs, "a frame block needs at least one more time"
        else:
            frame = b"".join(b"x" * (siglen(v)) for v in sigs if v.kind != "string")
            start_time = bevs[0][0]
        btimes = [t for t, _ in bevs]
        streams = [bytearray() for _ in range(n)]
        prev = [0] * n
        for ti, (_, chs) in enumerate(bevs):
            for i, val in chs:
                si = handles[i]
                streams[si] += fst_value(vs[i], val, ti - prev[si])
                prev[si] = ti
        blk = bytearray()
        blk += be64(0) + be64(start_time) + be64(btimes[-1]) + be64(0)
        blk += varint(len(frame)) + varint(len(frame)) + varint(n) + frame
        blk += varint(n)
        vc_start = len(blk)
        blk.append(ord("Z") if zlib_values else ord("4"))
        chain = bytearray()
        prev_off = 0
        zeros = 0
        for s in streams:
            if not s:
                zeros += 1
                continue
            if zeros:
                chain += varint(zeros << 1)
                zeros = 0
            off = len(blk) - vc_start
            if zlib_values and len(s) > 8:
                blk += varint(len(s)) + zlib.compress(bytes(s))
            else:
                blk += b"\0" + s
            chain += varint(((off - prev_off) << 1) | 1)
            prev_off = off
        if zeros:
            chain += varint(zeros << 1)
        blk += chain + be64(len(chain))
        tt = bytearray()
        p = 0
        for t in btimes:
            tt += varint(t - p)
            p = t
        ctt = zlib.compress(bytes(tt)) if zlib_times else bytes(tt)
        if len(ctt) >= len(tt):
            ctt = bytes(tt)
        blk += ctt + be64(len(tt)) + be64(len(ctt)) + be64(len(btimes))
        blk[0:8] = be64(len(blk))
        out.append(1)
        out += blk
    # geometry
    geo = b"".join(varint(0 if v.kind == "real" else (0xFFFFFFFF if v.kind == "string" else v.width)) for v in sigs)
    cgeo = zlib.compress(geo) if zlib_geometry else geo
    if len(cgeo) >= len(geo):
        cgeo = geo
    out.append(3)
    out += be64(24 + len(cgeo)) + be64(len(geo)) + be64(n) + cgeo
    # hierarchy
    h = bytearray()

    def attr(subtype, name, arg):
        return bytes([252, 0, subtype]) + name + b"\0" + varint(arg)

    paths = {}

    def src_attrs(extra):
        o = b""
        for key, sub in (("decl_src", 4), ("inst_src", 5)):
            if key in extra:
                p, line = extra[key]
                if p not in paths:
                    paths[p] = path_ids[len(paths)] if path_ids and len(paths) < len(path_ids) else len(paths) + 1 + (max(path_ids) if path_ids else 0)
                    o += attr(3, p.encode(), paths[p])
                o += bytes([252, 0, sub]) + varint(paths[p]) + b"\0" + varint(line)
        return o
    enums = {}

    def walk(its, prefix=""):
        nonlocal h
        for it in its:
            if isinstance(it, Scope) and "fst_array" in it.extra:
                # variables named `mem[3]`, `mem [3] [7:0]`, ...: no scope entries in the file, the loader makes the array scope
                walk(it.children, prefix + it.name + it.extra["fst_array"])
            elif isinstance(it, Scope):
                h += src_attrs(it.extra)
                h += bytes([254, FST_SCOPE.get(it.kind, 0)]) + it.name.encode() + b"\0" + it.extra.get("component", "").encode() + b"\0"
                walk(it.children)
                h.append(255)
            else:
                i = next(k for k, x in enumerate(vs) if x is it)
                if "enum" in it.extra:
                    ename, mapping = it.extra["enum"]
                    if ename not in enums:
                        enums[ename] = (enum_handles[len(enums)] if enum_handles and len(enums) < len(enum_handles)
                                        else len(enums) + 1 + (max(enum_handles) if enum_handles else 0))
                        table = "%s %d %s %s" % (ename, len(mapping), " ".join(nm for _, nm in mapping), " ".join(vl for vl, _ in mapping))
                        h += attr(7, table.encode(), enums[ename])
                    h += attr(7, b"", enums[ename])
                if "vhdl" in it.extra:
                    tname, vtype, dtype = it.extra["vhdl"]
                    h += attr(2, tname.encode(), (vtype << 10) | dtype)
                name = prefix + (it.name if it.rng is None else "%s [%d:%d]" % (it.name, it.rng[0], it.rng[1]))
                if "fst_name" in it.extra:
                    name = it.extra["fst_name"]
                a = it.extra.get("alias_of")
                length = 8 if it.kind == "real" else (0 if it.kind == "string" else it.width)
                h += bytes([fst_vartype(it), it.extra.get("direction", 0)]) + name.encode() + b"\0" + varint(length)
                h += varint(0 if a is None else handles[a] + 1)
    walk(items)
    h = bytes(h)
    if hier == "gz":
        c = gzip.compress(h)
        out.append(4)
    else:
        c = lz4_literals(h)
        out.append(6)
    out += be64(16 + len(c)) + be64(len(h)) + c
    open(path, "wb").write(bytes(out))
    return times


def _scopes(items):
    for it in items:
        if isinstance(it, Scope):
            yield it
            yield from _scopes(it.children)


# ----------------------------------------------------------------------------------------------- GHW
def sleb(v):
    out = bytearray()
    while True:
        b = v & 0x7F
        v >>= 7
        if (v == 0 and not (b & 0x40)) or (v == -1 and (b & 0x40)):
            out.append(b)
            return bytes(out)
        out.append(b | 0x80)


GHW_SCOPE = {"instance": 6, "package": 7, "block": 3, "generate_if": 4, "generate_for": 5, "generic": 14, "process": 13}
GHW_DIR = {"signal": 16, "in": 17, "out": 18, "inout": 19, "buffer": 20, "linkage": 21}


class GhwTypes:
    """string and type tables of a GHW file under construction"""

    def __init__(self):
        self.strings = []
        self.types = []          # encoded type records
        self.memo = {}

    def sid(self, s):
        if s is None:
            return 0
        if s not in self.strings:
            self.strings.append(s)
        return self.strings.index(s) + 1

    def add(self, key, rec):
        if key in self.memo:
            return self.memo[key]
        self.types.append(rec)
        self.memo[key] = len(self.types)
        return len(self.types)

    def enum(self, name, literals, rtik=23):
        rec = bytes([rtik]) + varint(self.sid(name)) + varint(len(literals)) + b"".join(varint(self.sid(l)) for l in literals)
        return self.add(("enum", name, tuple(literals)), rec)

    def std_ulogic(self):
        return self.enum("std_ulogic", ["'%s'" % c.upper() for c in STD9])

    def bit(self):
        return self.enum("bit", ["'0'", "'1'"], rtik=22)

    def integer(self):
        return self.add(("i32",), bytes([25]) + varint(self.sid("integer")))

    def natural(self):
        base = self.integer()
        rec = bytes([34]) + varint(self.sid("natural")) + varint(base) + bytes([25]) + sleb(0) + sleb(2147483647)
        return self.add(("natural",), rec)

    def real(self):
        return self.add(("f64",), bytes([27]) + varint(self.sid("real")))

    def vector_base(self, elem, name):
        return self.add(("array", elem, name), bytes([31]) + varint(self.sid(name)) + varint(elem) + varint(1) + varint(self.natural()))

    def vector(self, elem, base_name, left, right, name=None, enum_index=False):
        downto = left > right
        if enum_index:
            # an array indexed by an enumeration (like `character`): the bounds are positions, stored as two raw bytes
            idx = self.enum("chr_t", ["c%d" % k for k in range(130)])
            base = self.add(("array", elem, base_name, idx), bytes([31]) + varint(self.sid(base_name)) + varint(elem) + varint(1) + varint(idx))
            rec = bytes([35]) + varint(self.sid(name)) + varint(base) + bytes([23 | (0x80 if downto else 0), left, right])
            return self.add(("subarray", base, left, right, name), rec)
        base = self.vector_base(elem, base_name)
        rec = bytes([35]) + varint(self.sid(name)) + varint(base) + bytes([25 | (0x80 if downto else 0)]) + sleb(left) + sleb(right)
        return self.add(("subarray", base, left, right, name), rec)

    def record(self, name, fields):
        rec = bytes([32]) + varint(self.sid(name)) + varint(len(fields)) + b"".join(varint(self.sid(f)) + varint(t) for f, t in fields)
        return self.add(("record", name, tuple(fields)), rec)


def ghw_type_of(tt, v):
    if v.kind == "logic":
        e = tt.std_ulogic()
        return e if v.rng is None else tt.vector(e, v.extra.get("type_name", "std_logic_vector"), v.rng[0], v.rng[1], name=v.extra.get("subtype_name"))
    if v.kind == "bit":
        e = tt.bit()
        return e if v.rng is None else tt.vector(e, v.extra.get("type_name", "bit_vector"), v.rng[0], v.rng[1], name=v.extra.get("subtype_name"))
    if v.kind == "int":
        return tt.integer()
    if v.kind == "real":
        return tt.real()
    if v.kind == "enum":
        return tt.enum(v.extra.get("type_name", "state_t"), v.literals, rtik=v.extra.get("rtik", 23))
    raise ValueError(v.kind)


def ghw_scalar(v, val, bit):
    if v.kind == "logic":
        return bytes([STD9.index(val[bit].lower())])
    if v.kind == "bit":
        return bytes([int(val[bit])])
    if v.kind == "int":
        return sleb(val)
    if v.kind == "real":
        return struct.pack("<d", val)
    if v.kind == "enum":
        return bytes([val])
    raise ValueError(v.kind)


def ghw_strings(strings, share=True):
    """string section body: every string is stored as the characters that follow the prefix it shares with its
    predecessor, terminated by the length of the prefix shared with the next string (5 bits per byte)"""
    out = bytearray()
    prev = ""
    for k, s in enumerate(strings):
        nxt = strings[k + 1] if k + 1 < len(strings) else ""
        common_prev = 0
        if share:
            while common_prev < min(len(prev), len(s)) and prev[common_prev] == s[common_prev]:
                common_prev += 1
        out += s[common_prev:].encode()
        common_next = 0
        if share:
            while common_next < min(len(nxt), len(s)) and nxt[common_next] == s[common_next]:
                common_next += 1
        if k + 1 == len(strings):
            common_next = 0
        first = True
        c = common_next
        while True:
            b = c & 0x1F
            c >>= 5
            out.append(b | (0x80 if c else 0))
            if not c:
                break
        prev = s
    return bytes(out)


def write_ghw(path, items, rounds=None, snapshot=None, share_strings=True, big_endian=False):
    """rounds: optional list of lists of (time, [(var position, value)]) - the cycle sections, each a list of
    rounds (a round at the same time as its predecessor is a delta cycle); default: one section per time"""
    vs = all_vars(items)
    evs = events(items)
    tt = GhwTypes()
    E = ">" if big_endian else "<"
    # hierarchy body first (collects strings and types)
    hie = bytearray()
    first_id = {}
    next_id = 1
    nscopes = 0
    ndecl = [0]

    def walk(its):
        nonlocal next_id, nscopes, hie
        for it in its:
            if isinstance(it, Scope) and it.extra.get("composite"):
                # one signal of a composite type: an array (its elements in declaration order) or a record (its fields);
                # elements and fields may be composite themselves
                def comp_type(x):
                    if not isinstance(x, Scope):
                        return ghw_type_of(tt, x)
                    comp = x.extra["composite"]
                    if comp[0] == "array":
                        return tt.vector(comp_type(x.children[0]), comp[3], comp[1], comp[2], name=comp[4], enum_index=len(comp) > 5 and comp[5])
                    return tt.record(comp[1], [(e.name, comp_type(e)) for e in x.children])

                def assign(x):
                    nonlocal next_id, hie
                    if isinstance(x, Scope):
                        for e in x.children:
                            assign(e)
                        return
                    i = next(k for k, y in enumerate(vs) if y is x)
                    first_id[i] = next_id
                    for _ in range(x.width if x.kind in ("logic", "bit") else 1):
                        hie += varint(next_id)
                        next_id += 1
                ndecl[0] += 1
                hie += bytes([GHW_DIR.get(it.extra.get("dir", "signal"), 16)]) + varint(tt.sid(it.name)) + varint(comp_type(it))
                assign(it)
                continue
            if isinstance(it, Scope) and it.kind == "process":
                # a process is a leaf of the hierarchy (no end marker); the loader leaves processes out
                hie += bytes([13]) + varint(tt.sid(it.name))
                continue
            if isinstance(it, Scope):
                nscopes += 1
                hie += bytes([GHW_SCOPE.get(it.kind, 6)]) + varint(tt.sid(it.name))
                if it.kind == "generate_for":
                    # the value of the iterator: its type and one value in that type's encoding
                    hie += varint(tt.integer()) + sleb(it.extra.get("iter", 0))
                walk(it.children)
                hie.append(15)
            else:
                i = next(k for k, x in enumerate(vs) if x is it)
                ndecl[0] += 1
                hie += bytes([GHW_DIR.get(it.extra.get("dir", "signal"), 16)]) + varint(tt.sid(it.name)) + varint(ghw_type_of(tt, it))
                if "slice_of" in it.extra:
                    # a variable made of signals that an earlier vector already consists of (elements a..b from the left)
                    par, a, b = it.extra["slice_of"]
                    for j in range(a, b + 1):
                        hie += varint(first_id[par] + j)
                    continue
                first_id[i] = next_id
                cnt = it.width if it.kind in ("logic", "bit") else 1
                for _ in range(cnt):
                    hie += varint(next_id)
                    next_id += 1
    walk(items)
    hie.append(0)
    num_ids = next_id - 1
    out = bytearray(b"GHDLwave\n" + bytes([16, 0, 1, 2 if big_endian else 1, 4, 0, 0]))
    strings = list(tt.strings)
    # string ids were handed out in order of first use; keep that order (ids are positions)
    out += b"STR\0" + bytes(4) + struct.pack(E + "I", len(strings)) + struct.pack(E + "i", 0)
    out += ghw_strings(strings, share_strings) + b"EOS\0"
    out += b"TYP\0" + bytes(4) + struct.pack(E + "I", len(tt.types)) + b"".join(tt.types) + b"\0"
    out += b"HIE\0" + bytes(4) + struct.pack(E + "I", nscopes) + struct.pack(E + "I", ndecl[0]) + struct.pack(E + "I", num_ids) + hie + b"EOH\0"

    def nbits(v):
        return v.width if v.kind in ("logic", "bit") else 1
    # snapshot: the initial values (first event)
    current = {}
    t0, chs0 = snapshot if snapshot is not None else evs[0]
    for i, val in chs0:
        current[i] = val
    assert len(current) == sum(1 for v in vs if "slice_of" not in v.extra), "every variable needs an initial value"
    out += b"SNP\0" + bytes(4) + struct.pack(E + "q", t0)
    for i, v in enumerate(vs):
        if "slice_of" in v.extra:
            continue
        for b in range(nbits(v)):
            out += ghw_scalar(v, current[i], b)
    out += b"ESN\0"
    sections = rounds if rounds is not None else [[e] for e in evs[1:]]
    for sec in sections:
        out += b"CYC\0" + struct.pack(E + "q", sec[0][0])
        tprev = sec[0][0]
        for k, (t, chs) in enumerate(sec):
            if k:
                out += sleb(t - tprev)
                tprev = t
            prev_id = 0
            for i, val in sorted(chs, key=lambda x: first_id[x[0]]):
                v = vs[i]
                for b in range(nbits(v)):
                    changed = (current[i][b] != val[b]) if v.kind in ("logic", "bit") else True
                    if changed or v.extra.get("write_all_bits"):
                        sid = first_id[i] + b
                        out += varint(sid - prev_id) + ghw_scalar(v, val, b)
                        prev_id = sid
                current[i] = val
            out += varint(0)
        out += sleb(-1) + b"ECY\0"
    dir_pos = len(out)
    out += b"DIR\0" + bytes(4) + struct.pack(E + "I", 0) + b"EOD\0"
    out += b"TAI\0" + bytes(4) + struct.pack(E + "I", dir_pos)
    open(path, "wb").write(bytes(out))


# ----------------------------------------------------------------------------------------------- expected full listing
FST_SCOPE_NAME = {"fst_array": "VhdlArray", "module": "Module", "task": "Task", "function": "Function", "begin": "Begin", "fork": "Fork",
                  "generate": "Generate", "struct": "Struct", "union": "Union", "class": "Class", "interface": "Interface",
                  "package": "Package", "program": "Program", "vhdl_architecture": "VhdlArchitecture",
                  "vhdl_procedure": "VhdlProcedure", "vhdl_function": "VhdlFunction", "vhdl_record": "VhdlRecord",
                  "vhdl_process": "VhdlProcess", "vhdl_block": "VhdlBlock", "vhdl_for_generate": "VhdlForGenerate",
                  "vhdl_if_generate": "VhdlIfGenerate", "vhdl_generate": "VhdlGenerate", "vhdl_package": "VhdlPackage"}
FST_VARTYPE_NAME = ["Event", "Integer", "Parameter", "Real", "Parameter", "Reg", "Supply0", "Supply1", "Time", "Tri",
                    "TriAnd", "TriOr", "TriReg", "Tri0", "Tri1", "WAnd", "Wire", "WOr", "Port", "SparseArray", "RealTime",
                    "String", "Bit", "Logic", "Int", "ShortInt", "LongInt", "Byte", "Enum", "ShortReal"]
# FstVhdlDataType code -> merged VarType (None: keep the VCD var type)
FST_VHDL_MERGE = {0: None, 1: "Boolean", 2: "Bit", 3: "BitVector", 4: "StdULogic", 5: "StdULogicVector", 6: "StdLogic",
                  7: "StdLogicVector", 8: None, 9: None, 10: "Integer", 11: "Real", 12: None, 13: None, 14: "Time",
                  15: None, 16: "String"}
DIR_NAME = ["Implicit", "Input", "Output", "InOut", "Buffer", "Linkage"]
GHW_SCOPE_NAME = {"instance": "VhdlArchitecture", "package": "VhdlPackage", "block": "VhdlBlock",
                  "generate_if": "VhdlIfGenerate", "generate_for": "VhdlForGenerate", "generic": "GhwGeneric", "process": "VhdlProcess",
                  "ghw_array": "VhdlArray", "ghw_record": "VhdlRecord"}
GHW_DIR_NAME = {"signal": "Implicit", "in": "Input", "out": "Output", "inout": "InOut", "buffer": "Buffer", "linkage": "Linkage"}


def hx(s):
    if s is None:
        return "~"
    if s == "" or s == b"":
        return "_"
    return hexname(s)


def expected_wfull(items, fmt, ts="1e-15", time_table=None):
    vs = all_vars(items)
    tt = time_table if time_table is not None else [t for t, _ in events(items)]
    parts = ["ts=%s" % ts, "tt=" + (",".join("%x" % t for t in tt) if tt else "-")]
    handles = {}
    n = 0
    slices = {}
    for i, v in enumerate(vs):
        a = v.extra.get("alias_of")
        if "slice_of" in v.extra:
            par, lo, hi = v.extra["slice_of"]
            if lo == 0 and hi == vs[par].width - 1:
                handles[i] = handles[par]             # the same signals: the same signal
            elif (par, lo, hi) in slices:
                handles[i] = slices[(par, lo, hi)]    # the same sub-range as an earlier variable
            else:
                handles[i] = slices[(par, lo, hi)] = n
                n += 1
        elif a is None:
            handles[i] = n
            n += 1
        else:
            handles[i] = handles[a]

    def loc(x):
        return "~" if x is None else "%s@%d" % (hexname(x[0]), x[1])

    def walk(its, depth):
        for it in its:
            if isinstance(it, Scope):
                if fmt == "fst":
                    parts.append("%d:S:%s:%s:%s:%s:%s" % (depth, hx(it.name), FST_SCOPE_NAME[it.kind], hx(it.extra.get("component") or None),
                                                        loc(it.extra.get("decl_src")), loc(it.extra.get("inst_src"))))
                elif it.kind == "process":
                    continue
                else:
                    parts.append("%d:S:%s:%s:~:~:~" % (depth, hx(it.name), GHW_SCOPE_NAME.get(it.kind, "VhdlArchitecture")))
                walk(it.children, depth + 1)
                continue
            i = next(k for k, x in enumerate(vs) if x is it)
            src = it if it.extra.get("alias_of") is None else vs[it.extra["alias_of"]]
            if "slice_of" in it.extra:
                par, lo, hi = it.extra["slice_of"]
                ch = dedup(it, [(t, val[lo:hi + 1]) for t, val in vs[par].changes])
            else:
                ch = dedup(it, src.changes)
            chs = ",".join("%x:%s:%s" % (t, k, x) for t, (k, x) in ch) if ch else "-"
            idx = "~" if it.rng is None else "%d.%d" % it.rng
            if fmt == "fst":
                code = fst_vartype(it)
                vt = FST_VARTYPE_NAME[code]
                vh = None
                if "vhdl" in it.extra:
                    vh = it.extra["vhdl"][0]
                    vt = FST_VHDL_MERGE[it.extra["vhdl"][2]] or vt
                en = "~"
                if "enum" in it.extra:
                    en = "%s/%s" % (hx(it.extra["enum"][0]), ";".join("%s.%s" % (hx(a), hx(b)) for a, b in it.extra["enum"][1]))
                enc = "s" if code == 21 else ("r" if code in (3, 4, 20, 29) else "b%d" % it.width)
                parts.append("%d:V:%s:%s:%s:%s:%s:%d:%s:%s=%s" % (depth, hx(it.name), enc, vt, DIR_NAME[it.extra.get("direction", 0)],
                                                                idx, handles[i], en, hx(vh), chs))
            else:
                tn = it.extra.get("type_name")
                if it.rng is not None and it.extra.get("subtype_name"):
                    tn = it.extra["subtype_name"]          # a named constrained subtype: its own name wins over the base type's
                if it.kind == "logic":
                    tn = tn or ("std_ulogic" if it.rng is None else "std_logic_vector")
                    vt = {"std_ulogic": "StdULogic", "std_logic": "StdLogic", "std_ulogic_vector": "StdULogicVector",
                          "std_logic_vector": "StdLogicVector"}.get(tn.lower(), "Wire")
                elif it.kind == "bit":
                    tn = tn or ("bit" if it.rng is None else "bit_vector")
                    vt = {"bit": "Bit", "bit_vector": "BitVector"}.get(tn.lower(), "Wire")
                elif it.kind == "int":
                    tn, vt = "integer", "Integer"
                elif it.kind == "real":
                    tn, vt = "real", "Real"
                else:
                    tn, vt = tn or "state_t", "Enum"
                en = "~"
                if it.kind == "enum":
                    en = "%s/%s" % (hx(tn), ";".join("%s.%s" % (hx(format(k, "0%db" % it.width)), hx(l)) for k, l in enumerate(it.literals)))
                parts.append("%d:V:%s:%s:%s:%s:%s:%d:%s:%s=%s" % (depth, hx(it.name), enc_str(it), vt, GHW_DIR_NAME[it.extra.get("dir", "signal")],
                                                                idx, handles[i], en, hx(tn), chs))
    walk(items, 0)
    return " ".join(parts)
