(* The raw (pre-packed) write path of the store, used by the GHW loader: SignalEncoder::add_n_bit_change,
   check_min_state, compress_template (properties C04, C11). *)
From Coq Require Import Lia ZifyBool ZifyNat ZifyN.
From WV Require Import Model.Base Generated.Consts Model.Bits Model.Leb128 Model.WaveMem
  Proofs.BitsProofs Proofs.LebProofs Proofs.WaveMemProofs Proofs.SliceProofs Proofs.StoreProofs.
Ltac Zify.zify_post_hook ::= Z.div_mod_to_equations.
Open Scope N_scope.
Arguments N.add : simpl never. Arguments N.mul : simpl never. Arguments N.div : simpl never.
Arguments N.modulo : simpl never. Arguments N.pow : simpl never. Arguments N.lor : simpl never.

(* ------------------------------------------------------------------ compress_template *)

(* re-packing the symbols of a value from kind in_st into kind out_st *)
Lemma compress_loop_spec in_st out_st syms : small_syms in_st syms ->
  forall n work, (n <= length syms)%nat ->
  compress_loop (write_n_state_loop in_st syms 0 None) in_st out_st
                (length (write_n_state_loop in_st syms 0 None) * per_byte in_st) n work
  = Ok (write_n_state_loop out_st (bits_list syms 0 n) work None).
Proof.
  intros Hs. induction n as [|n IH]; intros work Hn; [reflexivity|].
  cbn [compress_loop]. rewrite bits_list_S. cbn [write_n_state_loop Nat.add].
  destruct (packed_symbol in_st syms n Hs ltac:(lia)) as (b & Hb & Hd). cbn zeta in Hb.
  set (data := write_n_state_loop in_st syms 0 None) in *.
  set (mb := (length data * per_byte in_st)%nat) in *.
  assert (Hmb : (S n <= mb)%nat).
  { pose proof (packed_capacity in_st syms). unfold mb, data. lia. }
  unfold usub. destruct (Nat.leb_spec (S n) mb) as [_|H]; [|lia]. cbn [bind].
  rewrite Hb. cbn [of_option bind]. rewrite Hd.
  rewrite bits_list_length.
  rewrite (push_cond (sbits out_st) (per_byte out_st) (per_byte_pos out_st) (per_byte_sbits out_st) n).
  destruct (Nat.eqb (n mod per_byte out_st) 0).
  - rewrite IH by lia. reflexivity.
  - apply IH. lia.
Qed.

Lemma bits_list_all syms : bits_list syms 0 (length syms) = syms.
Proof. rewrite bits_list_sub by lia. rewrite Nat.sub_0_r, Nat.sub_diag. cbn [skipn]. apply firstn_all. Qed.

Theorem compress_template_spec in_st out_st syms : small_syms in_st syms ->
  compress_template (write_n_state_loop in_st syms 0 None) in_st out_st (length syms)
  = Ok (write_n_state_loop out_st syms 0 None).
Proof.
  intros Hs. unfold compress_template. rewrite (compress_loop_spec in_st out_st syms Hs (length syms) 0 (le_n _)).
  now rewrite bits_list_all.
Qed.

(* ------------------------------------------------------------------ check_min_state *)

(* the widest kind among a list of symbols *)
Definition kmax (l : list N) : N := fold_right (fun v acc => N.max (states_num (from_value v)) acc) 0 l.

Lemma kmax_app a b : kmax (a ++ b) = N.max (kmax a) (kmax b).
Proof. induction a as [|x a IH]; cbn [app kmax fold_right]; [unfold kmax; cbn; lia|]. fold (kmax (a ++ b)) (kmax a). rewrite IH. lia. Qed.

Lemma kmax_rev a : kmax (rev a) = kmax a.
Proof. induction a as [|x a IH]; [reflexivity|]. cbn [rev]. rewrite kmax_app, IH. unfold kmax. cbn [fold_right]. lia. Qed.

Lemma kmax_zeros n : kmax (repeat 0 n) = 0.
Proof. induction n as [|n IH]; [reflexivity|]. cbn [repeat]. unfold kmax in *. cbn [fold_right]. rewrite IH. reflexivity. Qed.

Lemma fold_lor_kind (l : list N) : forall u, u < 16 -> Forall (fun v => v < 16) l ->
  fold_left N.lor l u < 16 /\
  states_num (from_value (fold_left N.lor l u)) = N.max (states_num (from_value u)) (kmax l).
Proof.
  induction l as [|v l IH]; intros u Hu Hl; cbn [fold_left].
  - split; [exact Hu|]. unfold kmax. cbn. lia.
  - apply Forall_cons_iff in Hl as [Hv Hl]. destruct (lor_kind u v Hu Hv) as [H1 H2].
    destruct (IH (N.lor u v) H1 Hl) as [H3 H4]. split; [exact H3|].
    rewrite H4, H2, join_num. unfold kmax. cbn [fold_right]. lia.
Qed.

Lemma fold_left_flat_map {A B} (f : A -> list B) (g : N -> B -> N) (l : list A) : forall u,
  fold_left (fun u a => fold_left g (f a) u) l u = fold_left g (flat_map f l) u.
Proof. induction l as [|a l IH]; intros u; cbn [fold_left flat_map]; [reflexivity|]. now rewrite fold_left_app, IH. Qed.

Lemma fold_left_map_lor (f : nat -> N) (l : list nat) : forall u,
  fold_left (fun u ii => N.lor u (f ii)) l u = fold_left N.lor (map f l) u.
Proof. induction l as [|a l IH]; intros u; cbn [fold_left map]; [reflexivity|]. apply IH. Qed.

Section Digits.
Variable st : states.
Notation sb := (sbits st).
Notation pb := (per_byte st).
Let Hpb := per_byte_pos st.
Let Hsb := per_byte_sbits st.

Lemma gdigit_high (h : list N) (c : nat) : small sb h -> (length h <= c)%nat -> gdigit sb (val sb 0 h) c = 0.
Proof.
  intros Hs Hc. unfold gdigit. pose proof (val_small sb pb Hpb Hsb h Hs) as Hv.
  assert (2 ^ (N.of_nat (length h) * sb) <= 2 ^ (N.of_nat c * sb)) by (apply N.pow_le_mono_r; nia).
  rewrite N.div_small by lia. apply N.mod_0_l. apply N.pow_nonzero. lia.
Qed.

Lemma gdigits_pad (h : list N) : small sb h -> forall k, gdigits sb (k + length h) (val sb 0 h) = repeat 0 k ++ h.
Proof.
  intros Hs. induction k as [|k IH]; cbn [Nat.add repeat app].
  - pose proof (gdigits_val sb pb Hpb Hsb h 0 Hs) as D. rewrite N.mul_0_l, N.add_0_l in D. exact D.
  - rewrite gdigits_S, IH. f_equal. apply gdigit_high; [exact Hs|lia].
Qed.

Lemma digits_asc (b : N) : map (digit st b) (seq 0 pb) = rev (gdigits sb pb b).
Proof. unfold gdigits. rewrite map_rev, rev_involutive. reflexivity. Qed.

(* the widest kind over all symbol slots of the packed form is the widest kind of the symbols *)
Lemma kmax_packed syms : small_syms st syms ->
  kmax (flat_map (fun b => map (digit st b) (seq 0 pb)) (write_n_state_loop st syms 0 None)) = kmax syms.
Proof.
  intros Hs. rewrite wns_is_loop.
  destruct (decompose sb pb Hpb Hsb syms) as (h & cs & -> & Hh & Hcs).
  apply Forall_app in Hs as [Hsh Hsc]. pose proof (forall_small_concat sb cs Hsc) as Hsc'.
  rewrite (wns_decomposed sb pb Hpb Hsb h cs Hh Hcs).
  assert (Hcs_k : kmax (flat_map (fun b => map (digit st b) (seq 0 pb)) (map (val sb 0) cs)) = kmax (concat cs)).
  { clear -Hcs Hsc' Hpb Hsb. induction cs as [|c cs IH]; [reflexivity|].
    apply Forall_cons_iff in Hcs as [Hc Hcs]. apply Forall_cons_iff in Hsc' as [Hsc Hsc'].
    cbn [map flat_map concat]. rewrite !kmax_app, IH by assumption. f_equal.
    rewrite digits_asc, kmax_rev. rewrite <- Hc.
    pose proof (gdigits_val sb pb Hpb Hsb c 0 Hsc) as D. rewrite N.mul_0_l, N.add_0_l in D. now rewrite D. }
  rewrite kmax_app. destruct h as [|s h'].
  - rewrite Hcs_k. unfold kmax at 2. cbn [fold_right]. lia.
  - cbn [flat_map]. rewrite kmax_app, Hcs_k. f_equal.
    rewrite digits_asc, kmax_rev.
    replace pb with ((pb - length (s :: h')) + length (s :: h'))%nat at 1 by lia.
    rewrite gdigits_pad by assumption. rewrite kmax_app, kmax_zeros. lia.
Qed.

Lemma digits_lt16 (bytes : list N) : Forall (fun v => v < 16) (flat_map (fun b => map (digit st b) (seq 0 pb)) bytes).
Proof.
  apply Forall_forall. intros v Hv. apply in_flat_map in Hv as (b & _ & Hv). apply in_map_iff in Hv as (i & <- & _).
  unfold digit, smod. assert (2 ^ sb <= 16) by (destruct st; cbn; lia).
  pose proof (N.mod_upper_bound (b / 2 ^ (N.of_nat i * sb)) (2 ^ sb) ltac:(apply N.pow_nonzero; lia)). lia.
Qed.

End Digits.

(* check_min_state on a packed value: the least kind that holds all its symbols *)
Lemma check_min_union st (data : list byte) :
  fold_left (fun u b => fold_left (fun u ii => N.lor u (digit st b ii)) (seq 0 (per_byte st)) u) data 0
  = fold_left N.lor (flat_map (fun b => map (digit st b) (seq 0 (per_byte st))) data) 0.
Proof.
  rewrite <- (fold_left_flat_map (fun b => map (digit st b) (seq 0 (per_byte st))) N.lor data 0).
  generalize 0. induction data as [|b data IH]; intros u; cbn [fold_left]; [reflexivity|].
  rewrite fold_left_map_lor. apply IH.
Qed.

Theorem check_min_state_spec st syms : small_syms st syms -> Forall (fun v => v <= 8) syms ->
  let m := check_min_state (write_n_state_loop st syms 0 None) st in
  small_syms m syms /\ states_num m <= states_num st /\
  (forall st', small_syms st' syms -> states_num m <= states_num st').
Proof.
  intros Hs H8. cbn zeta.
  assert (Hgen : st <> Two -> states_num (check_min_state (write_n_state_loop st syms 0 None) st) = kmax syms).
  { intros Hne. unfold check_min_state. destruct st; [congruence| |]; rewrite check_min_union;
      match goal with |- context [fold_left N.lor ?l 0] =>
        destruct (fold_lor_kind l 0 ltac:(lia) (digits_lt16 _ _)) as [_ Hk]; rewrite Hk end;
      rewrite kmax_packed by assumption; change (states_num (from_value 0)) with 0; lia. }
  assert (Hk : forall st', small_syms st' syms <-> kmax syms <= states_num st').
  { intros st'. unfold small_syms. clear Hs Hgen. induction H8 as [|v r Hv _ IH]; unfold kmax in *; cbn [fold_right].
    - split; [lia|constructor].
    - split.
      + intros H. apply Forall_cons_iff in H as [H1 H2]. apply IH in H2. apply (from_value_least v st' Hv) in H1. lia.
      + intros H. constructor; [apply (from_value_least v st' Hv); lia|apply IH; lia]. }
  destruct st.
  - cbn [check_min_state]. split; [exact Hs|]. split; [lia|]. intros st' _. cbn. lia.
  - specialize (Hgen ltac:(discriminate)). set (m := check_min_state _ Four) in *.
    split; [apply Hk; lia|]. split; [apply Hk in Hs; lia|]. intros st' H. apply Hk in H. lia.
  - specialize (Hgen ltac:(discriminate)). set (m := check_min_state _ Nine) in *.
    split; [apply Hk; lia|]. split; [apply Hk in Hs; lia|]. intros st' H. apply Hk in H. lia.
Qed.

(* ------------------------------------------------------------------ SignalEncoder::add_n_bit_change *)

Lemma wns_single' st v : write_n_state_loop st [v] 0 None = [v].
Proof.
  cbn [write_n_state_loop length]. change (N.of_nat 0) with 0. rewrite N.mul_0_l. change (0 mod 8 =? 0) with true.
  cbn iota. now rewrite N.mul_0_l, N.add_0_l.
Qed.

(* one successful add_n_bit_change with a correctly packed value appends exactly one stream entry, holding the
   value re-packed in the least sufficient kind *)
Lemma add_n_bit_change_entry se t st syms bits se' : se_tpe se = EncBits bits -> (1 <= bits)%nat ->
  length syms = bits -> small_syms st syms -> Forall (fun v => v <= 8) syms ->
  add_n_bit_change se t (write_n_state_loop st syms 0 None) st = Ok se' ->
  exists l,
    small_syms l syms /\ states_num l <= states_num st /\
    (forall l', small_syms l' syms -> states_num l <= states_num l') /\
    se_prev se <= t /\
    se_data se' = se_data se ++ enc_entry bits (t - se_prev se, l, write_n_state_loop l syms 0 None) /\
    (bits = 1%nat -> l = from_value (hd 0 syms)) /\
    se_tpe se' = se_tpe se /\ se_prev se' = t /\ se_max se' = join (se_max se) st.
Proof.
  intros Ht Hb Hl Hs H8 H. unfold add_n_bit_change, nsub in H. rewrite Ht in H.
  destruct (N.leb_spec (se_prev se) t) as [Hle|]; [|discriminate]. cbn [bind] in H.
  unfold enc_entry.
  destruct (Nat.eqb_spec bits 1) as [E1|E1].
  - rewrite E1 in Hl. destruct syms as [|v [|v2 r]]; try discriminate. rewrite wns_single' in *.
    destruct (15 <? v); [discriminate|].
    inversion H; subst se'; clear H. cbn [se_data se_prev se_max se_tpe hd].
    apply Forall_cons_iff in H8 as [H8 _]. apply Forall_cons_iff in Hs as [Hs _].
    exists (from_value v). rewrite wns_single'. cbn [hd].
    split; [constructor; [apply from_value_least; [exact H8|lia]|constructor]|].
    split; [now apply from_value_least|].
    split; [intros l' Hl'; apply Forall_cons_iff in Hl' as [Hl' _]; now apply from_value_least|].
    repeat split; auto.
  - pose proof (packed_length st syms) as Hpl. rewrite Hl in Hpl.
    unfold usub in H. rewrite Hpl in H.
    destruct (Nat.leb_spec (div_ceil bits (per_byte st)) (div_ceil bits (per_byte st))) as [_|]; [|lia].
    cbn [bind] in H. rewrite Nat.sub_diag in H. cbn [skipn] in H.
    destruct (check_min_state_spec st syms Hs H8) as (Hm1 & Hm2 & Hm3). cbn zeta in *.
    set (m := check_min_state (write_n_state_loop st syms 0 None) st) in *.
    assert (Hpacked : (if states_eqb m st then Ok (write_n_state_loop st syms 0 None)
                       else compress_template (write_n_state_loop st syms 0 None) st m bits)
                      = Ok (write_n_state_loop m syms 0 None)).
    { destruct (states_eqb m st) eqn:E.
      - unfold states_eqb in E. apply N.eqb_eq in E. assert (m = st) by (destruct m, st; cbn in E; congruence). congruence.
      - rewrite <- Hl. now apply compress_template_spec. }
    rewrite Hpacked in H. cbn [bind] in H.
    destruct (write_n_state_loop m syms 0 None) as [|b0 pr] eqn:Epk; [discriminate|].
    destruct ((0 <? _) && (_ <=? b0)); [discriminate|].
    inversion H; subst se'; clear H. rewrite <- Epk.
    cbn [se_data se_prev se_max se_tpe]. exists m. repeat split; auto. intros E; congruence.
Qed.
