//! `serde <path>` / `serdev <sigs> <hdrhex> <bodyhex>`: serialises the Hierarchy and every loaded Signal with
//! serde_json (feature serde1), deserialises them again and compares the complete observation of the clone
//! (tree walk with attributes, lookups, meta data, slice info, change iteration, point queries) with the original.
//! Also prints the JSON of the hierarchy (`serdej`) for the shape check against the generated schema.
use crate::hier::*;
use crate::obs::*;
use crate::util::*;
use wellen::*;

fn full_hier_obs(h: &Hierarchy) -> String {
    let mut out = hierarchy_obs(h, true);
    out.push_str(&format!(
        " date={} version={} ts={:?} fmt={:?}",
        hex_of_bytes(h.date().as_bytes()),
        hex_of_bytes(h.version().as_bytes()),
        h.timescale(),
        h.file_format()
    ));
    // lookups of every scope path / variable, slice info of every signal
    let mut lk = vec![];
    for s in h.iter_scopes() {
        let full = s.full_name(h);
        let path: Vec<&str> = full.split('.').collect();
        lk.push(format!("{:?}", h.lookup_scope(&path).map(|r| r.index())));
    }
    for v in h.iter_vars() {
        let full = v.full_name(h);
        let mut path: Vec<&str> = full.split('.').collect();
        let name = path.pop().unwrap();
        lk.push(format!("{:?}", h.lookup_var(&path, &name).map(|r| r.index())));
        lk.push(format!("{:?}", h.lookup_var_with_index(&path, &name, &v.index()).map(|r| r.index())));
        lk.push(format!("{:?}", h.get_slice_info(v.signal_ref()).map(|s| (s.msb, s.lsb, s.sliced_signal.index()))));
    }
    out.push_str(&format!(" lookups={}", lk.join(";").replace(' ', "")));
    out
}

fn signal_full_obs(s: &Signal, ntimes: u32) -> String {
    let mut out = signal_obs(s);
    let idx: Vec<String> = s.time_indices().iter().map(|i| i.to_string()).collect();
    out.push_str(&format!(" ti={}", idx.join(".")));
    out.push_str(&format!(" first={:?}", s.get_first_time_idx()));
    for q in 0..(ntimes + 2) {
        match s.get_offset(q) {
            None => out.push_str(" q~"),
            Some(d) => {
                out.push_str(&format!(" q{}:{}:{}:{:?}:{}", d.start, d.elements, d.time_match, d.next_index, s.get_time_idx_at(&d)));
                for e in 0..d.elements {
                    out.push_str(&format!(":{}", guarded(|| format!("{}", s.get_value_at(&d, e)))));
                }
            }
        }
    }
    out
}

fn roundtrip(mut wave: simple::Waveform) -> String {
    let h_json = serde_json::to_string(wave.hierarchy()).unwrap();
    let h2: Hierarchy = match serde_json::from_str(&h_json) {
        Ok(h) => h,
        Err(e) => return format!("HIERARCHY-DESERIALIZE-ERROR:{}", e.to_string().replace(' ', "_")),
    };
    let a = full_hier_obs(wave.hierarchy());
    let b = full_hier_obs(&h2);
    if a != b {
        return format!("HIERARCHY-DIFFERS orig={} clone={}", &a[..a.len().min(400)], &b[..b.len().min(400)]);
    }
    let n = wave.hierarchy().num_unique_signals();
    let ids: Vec<SignalRef> = (0..n)
        .map(|i| SignalRef::from_index(i).unwrap())
        .filter(|r| wave.hierarchy().get_signal_tpe(*r).is_some())
        .collect();
    wave.load_signals(&ids);
    let ntimes = wave.time_table().len() as u32;
    let mut nsig = 0;
    for id in ids {
        let s = wave.get_signal(id).unwrap();
        let j = serde_json::to_string(s).unwrap();
        let s2: Signal = match serde_json::from_str(&j) {
            Ok(s) => s,
            Err(e) => return format!("SIGNAL-DESERIALIZE-ERROR:{}:{}", id.index(), e.to_string().replace(' ', "_")),
        };
        let a = signal_full_obs(s, ntimes);
        let b = signal_full_obs(&s2, ntimes);
        if a != b {
            return format!("SIGNAL-DIFFERS:{} orig={} clone={}", id.index(), &a[..a.len().min(300)], &b[..b.len().min(300)]);
        }
        // a second round trip must give the same text
        let j2 = serde_json::to_string(&s2).unwrap();
        if j != j2 {
            return format!("SIGNAL-JSON-UNSTABLE:{}", id.index());
        }
        nsig += 1;
    }
    format!("ok vars={} scopes={} signals={}", wave.hierarchy().iter_vars().count(), wave.hierarchy().iter_scopes().count(), nsig)
}

fn load_guarded(f: impl FnOnce() -> wellen::Result<simple::Waveform>) -> Option<simple::Waveform> {
    match std::panic::catch_unwind(std::panic::AssertUnwindSafe(f)) {
        Ok(Ok(w)) => Some(w),
        _ => None,
    }
}

pub fn run_path(args: &[&str]) -> String {
    // a file that does not load is not a serde matter
    match load_guarded(|| simple::read(args[0])) {
        Some(w) => roundtrip(w),
        None => "LOADFAIL".to_string(),
    }
}

pub fn run_vcd(args: &[&str]) -> String {
    let mut file = bytes_of_hex(args[1]);
    file.extend_from_slice(&bytes_of_hex(args[2]));
    match load_guarded(|| simple::read_from_reader(std::io::Cursor::new(file))) {
        Some(w) => roundtrip(w),
        None => "LOADFAIL".to_string(),
    }
}

/// `serdej <path>` / `serdej - <hdrhex> <bodyhex>`: the JSON of the hierarchy and of the first signals (shape check
/// against the generated schema and against the model's `de` / `ser`)
pub fn run_json(args: &[&str]) -> String {
    let mut wave = if args[0] == "-" {
        let mut file = bytes_of_hex(args[1]);
        file.extend_from_slice(&bytes_of_hex(args[2]));
        match load_guarded(|| simple::read_from_reader(std::io::Cursor::new(file))) {
            Some(w) => w,
            None => return "LOADFAIL".to_string(),
        }
    } else {
        simple::read(args[0]).unwrap()
    };
    let h = serde_json::to_string(wave.hierarchy()).unwrap();
    let n = wave.hierarchy().num_unique_signals();
    let ids: Vec<SignalRef> = (0..n)
        .map(|i| SignalRef::from_index(i).unwrap())
        .filter(|r| wave.hierarchy().get_signal_tpe(*r).is_some())
        .take(40)
        .collect();
    wave.load_signals(&ids);
    let sigs: Vec<String> = ids.iter().map(|i| serde_json::to_string(wave.get_signal(*i).unwrap()).unwrap()).collect();
    format!("{{\"hierarchy\":{},\"signals\":[{}]}}", h, sigs.join(","))
}

/// `serdede <Hierarchy|Signal> <jsonhex>`: hands a document to the derived Deserialize; prints `reject`, or
/// `accept-same` / `accept-differs` according to whether serialising the object again gives the same document
/// (compared as JSON values: the iteration order of a HashMap is not part of the document's meaning)
pub fn run_de(args: &[&str]) -> String {
    let text = match String::from_utf8(bytes_of_hex(args[1])) {
        Ok(t) => t,
        Err(_) => return "BADCASE".to_string(),
    };
    let again: Option<String> = match args[0] {
        "Hierarchy" => serde_json::from_str::<Hierarchy>(&text).ok().map(|h| serde_json::to_string(&h).unwrap()),
        "Signal" => serde_json::from_str::<Signal>(&text).ok().map(|s| serde_json::to_string(&s).unwrap()),
        _ => return "BADCASE".to_string(),
    };
    match again {
        None => "reject".to_string(),
        Some(j) => {
            let a: serde_json::Value = serde_json::from_str(&text).unwrap();
            let b: serde_json::Value = serde_json::from_str(&j).unwrap();
            if a == b { "accept-same".to_string() } else { "accept-differs".to_string() }
        }
    }
}
