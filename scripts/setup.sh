#!/bin/sh
# Builds the framework from files on disk only (offline): Coq development, OCaml model runner,
# Rust harness (debug + release).
set -e
cd /verif
export CARGO_NET_OFFLINE=true
mkdir -p .cache/run evidence
(cd coq && coq_makefile -f _CoqProject -o Makefile > /dev/null && timeout 3000 make -j16 2>&1 | grep -v 'abstract-large-number\|applications of Init.Nat\|^Warning: To avoid stack' | tail -5)
(cd coq && ./extract/build.sh)
(cd harness && RUSTFLAGS="--cfg wellen_verif" CARGO_TARGET_DIR=/verif/.cache/target cargo build --offline 2>&1 | tail -2)
(cd harness && RUSTFLAGS="--cfg wellen_verif" CARGO_TARGET_DIR=/verif/.cache/target cargo build --offline --release 2>&1 | tail -2)
(cd /repo && CARGO_TARGET_DIR=/verif/.cache/target-py cargo build -p pywellen --offline 2>&1 | tail -1)
echo setup done
