(* The FST value path for real-valued and string-valued signals (fst.rs SignalWriter::add_change, the String and
   Real arms): the signal built from the changes the FST reader delivers reports exactly those changes, a change
   that repeats the value before it once (property C10); and it is the report the wavemem store gives for the same
   recorded values (property C12). *)
From Coq Require Import Lia ZifyBool ZifyNat ZifyN.
From WV Require Import Model.Base Generated.Consts Model.Bits Model.Leb128 Model.WaveMem Model.FstLoad
  Spec.TimeSpec Spec.StoreSpec Proofs.BitsProofs Proofs.StoreProofs Proofs.EncoderProofs
  Proofs.RealStringProofs Proofs.RealStringEnc.
Open Scope N_scope.

Definition fv_payload (v : fst_value) : list byte := match v with FvString s => s | FvReal le => le end.

(* the changes a real / string writer accepts *)
Definition fst_rs_ok (str : bool) (c : N * fst_value) : Prop :=
  match snd c with
  | FvString _ => str = true
  | FvReal le => str = false /\ length le = 8%nat
  end.

Definition sw_rep (str : bool) (sw : signal_writer) (canon : list (N * list byte)) : Prop :=
  sw_tpe sw = rs_tpe str /\ sw_idx sw = map fst canon /\
  (if str then sw_strings sw = map snd canon
   else sw_data sw = concat (map snd canon) /\ entries_ok 8 canon).

Lemma sw_add_change_rs str sw canon t v : sw_rep str sw canon -> fst_rs_ok str (t, v) ->
  exists sw', sw_add_change sw t v = Ok sw' /\ sw_rep str sw' (push_canon canon (t, fv_payload v)).
Proof.
  intros (Htp & Hidx & Hdata) Hok. unfold fst_rs_ok in Hok. cbn [snd] in Hok.
  destruct v as [s|le]; cbn [sw_add_change fv_payload].
  - subst str. rewrite Htp. cbn [rs_tpe]. rewrite Hdata, last_opt_map_snd. unfold push_canon. cbn [snd].
    destruct (last_opt canon) as [[tp prev]|] eqn:El; cbn [option_map snd].
    + destruct (list_eqb prev s); cbn [negb].
      * exists sw. split; [reflexivity|]. repeat split; assumption.
      * eexists. split; [reflexivity|]. unfold sw_rep. cbn [sw_tpe sw_idx sw_strings].
        split; [first [exact Htp|reflexivity]|]. now rewrite Hidx, ?Hdata, !map_app.
    + eexists. split; [reflexivity|]. unfold sw_rep. cbn [sw_tpe sw_idx sw_strings].
      split; [first [exact Htp|reflexivity]|]. now rewrite Hidx, ?Hdata, !map_app.
  - destruct Hok as [-> Hl]. destruct Hdata as [Hd Hokc]. rewrite Hd.
    pose proof (push_entry_spec 8 canon t le ltac:(lia) Hokc Hl) as Hp.
    destruct (check_if_changed_and_truncate 8 _) as [changed out]. destruct Hp as (H1 & H2 & H3).
    eexists. split; [reflexivity|]. unfold sw_rep. cbn [sw_tpe sw_idx sw_data].
    split; [first [exact Htp|reflexivity]|]. split; [rewrite Hidx; exact H1|]. split; assumption.
Qed.

Lemma sw_run_rs str : forall changes sw canon sw', sw_rep str sw canon -> Forall (fst_rs_ok str) changes ->
  sw_run sw changes = Ok sw' ->
  sw_rep str sw' (fold_left push_canon (map (fun c : N * fst_value => (fst c, fv_payload (snd c))) changes) canon).
Proof.
  induction changes as [|[t v] r IH]; intros sw canon sw' Hrep Hok H; cbn [sw_run map fold_left] in *.
  - inversion H; subst. exact Hrep.
  - apply Forall_cons_iff in Hok as [Hc Hok].
    destruct (sw_add_change_rs str sw canon t v Hrep Hc) as (sw1 & H1 & Hrep1). rewrite H1 in H. cbn [bind] in H.
    cbn [fst snd]. now apply (IH sw1).
Qed.

(* Property C10, value path of real and string signals *)
Theorem fst_writer_rs_spec str changes sw : Forall (fst_rs_ok str) changes ->
  sw_run (sw_new (rs_tpe str)) changes = Ok sw ->
  observe_signal (sw_finish sw)
  = Ok (map (fun a : N * list byte => (fst a, if str then KString else KReal, snd a))
            (gdedup (map (fun c : N * fst_value => (fst c, fv_payload (snd c))) changes))).
Proof.
  intros Hok H.
  assert (Hinit : sw_rep str (sw_new (rs_tpe str)) []).
  { unfold sw_rep, sw_new. cbn. destruct str; repeat split; constructor. }
  pose proof (sw_run_rs str changes _ [] sw Hinit Hok H) as (Htp & Hidx & Hdata).
  rewrite push_canon_gdedup in *. cbn [last_opt option_map app] in *.
  fold (gdedup (map (fun c : N * fst_value => (fst c, fv_payload (snd c))) changes)) in *.
  unfold sw_finish. rewrite Htp. destruct str; cbn [rs_tpe].
  - rewrite Hidx, Hdata. apply observe_strings.
  - destruct Hdata as [Hd Hokc]. rewrite Hidx, Hd. now apply observe_reals.
Qed.

Example fst_writer_rs_example :
  (do sw <- sw_run (sw_new EncString) [(0, FvString [97]); (2, FvString [97]); (5, FvString []); (6, FvString [98; 99])];
   observe_signal (sw_finish sw)) = Ok [(0, KString, [97]); (5, KString, []); (6, KString, [98; 99])] /\
  (do sw <- sw_run (sw_new EncReal) [(1, FvReal [0;0;0;0;0;0;240;63]); (2, FvReal [0;0;0;0;0;0;240;63]); (4, FvReal [0;0;0;0;0;0;0;64])];
   observe_signal (sw_finish sw)) = Ok [(1, KReal, [0;0;0;0;0;0;240;63]); (4, KReal, [0;0;0;0;0;0;0;64])].
Proof. split; vm_compute; reflexivity. Qed.

(* Property C12 for reals and strings: the wavemem store (VCD text or doubles handed over, any segmentation) and the FST
   signal writer report the same for the same recorded values *)
Theorem vcd_fst_same_report_rs
  (parse_f64 : list byte -> option (list byte)) (parse_f64_len : forall r le, parse_f64 r = Some le -> length le = 8%nat)
  (lz_compress : list byte -> list byte) (lz_decompress : list byte -> nat -> option (list byte))
  (lz_ok : forall d n, (length d <= n)%nat -> lz_decompress (lz_compress d) n = Some d)
  cap (cap_pos : 1 <= cap) (cap_u16 : cap <= 65536) id str tpes ops e blocks ttb changes sw :
  nth_error tpes id = Some (rs_tpe str) ->
  Forall (rs_op_ok id str) ops ->
  ops_cost id ops < 4294967264 ->
  run_ops parse_f64 lz_compress cap (enc_new tpes) ops = Ok e ->
  enc_finish lz_compress e = Ok (blocks, ttb) -> N.of_nat (length ttb) < 4294967296 ->
  Forall (fst_rs_ok str) changes ->
  sw_run (sw_new (rs_tpe str)) changes = Ok sw ->
  (* the FST changes are the values the store recorded *)
  Forall2 (fun (c : N * fst_value) r => gdecodes parse_f64 str (fst c, fv_payload (snd c)) r)
          changes (recorded_rs id ops [] false) ->
  exists sig, load_signal lz_decompress blocks id (rs_tpe str) = Ok sig /\
              observe_signal sig = observe_signal (sw_finish sw).
Proof.
  intros Htp Hok Hbud Hrun Hfin Hlen Hcok Hsw Hsame.
  destruct (storage_transparent_rs parse_f64 parse_f64_len lz_compress lz_decompress lz_ok cap cap_pos cap_u16 id str
              tpes ops e blocks ttb Htp Hok Hbud Hrun Hfin Hlen) as (R & sig & Hdec & _ & Hload & Hobs).
  exists sig. split; [exact Hload|]. rewrite Hobs, (fst_writer_rs_spec str changes sw Hcok Hsw). f_equal. f_equal. f_equal.
  clear -Hdec Hsame. revert R Hdec. induction Hsame as [|c r cs rs Hc _ IH]; intros R Hdec.
  - inversion Hdec. reflexivity.
  - inversion Hdec as [|a ? R' ? Ha Hd']; subst. cbn [map]. f_equal; [|now apply IH].
    (* both are decoded from the same recorded value *)
    destruct a as [g p]. destruct Hc as [Hg1 Hv1]. destruct Ha as [Hg2 Hv2]. cbn [fst snd] in *.
    assert (p = fv_payload (snd c)).
    { destruct (snd r) as [v|le].
      - destruct str.
        + destruct Hv1 as (c1 & E1). destruct Hv2 as (c2 & E2). rewrite E1 in E2. now inversion E2.
        + destruct Hv1 as (c1 & r1 & E1 & P1). destruct Hv2 as (c2 & r2 & E2 & P2). rewrite E1 in E2. inversion E2; subst.
          rewrite P1 in P2. now inversion P2.
      - destruct Hv1 as [_ E1]. destruct Hv2 as [_ E2]. congruence. }
    subst p. f_equal. congruence.
Qed.
