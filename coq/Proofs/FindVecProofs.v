(* GhwSignalTracker::find_vec (ghw/hierarchy.rs; property C13): the bookkeeping keeps, for every registered vector, the
   slots of its GHW signals pointing back at it - so a later request for any sub-range of it finds the vector (the
   premise of AliasProofs.register_subrange_spec), for every sequence of registrations. *)
From Coq Require Import Lia.
From WV Require Import Model.Base Model.GhwAlias Proofs.AliasProofs.
Open Scope nat_scope.

Definition slot_vec (s : sig_slot) : option nat := match s with Some (_, _, v) => v | None => None end.

Definition vec_slots (t : tracker) : Prop :=
  (forall vid v, nth_error (tr_vectors t) vid = Some v ->
     vi_min v <= vi_max v /\ vi_max v < length (tr_signals t) /\
     forall i, vi_min v <= i <= vi_max v -> exists s, nth_error (tr_signals t) i = Some s /\ slot_vec s = Some vid) /\
  (forall i s vid, nth_error (tr_signals t) i = Some s -> slot_vec s = Some vid ->
     exists v, nth_error (tr_vectors t) vid = Some v /\ vi_min v <= i <= vi_max v).

Lemma find_vec_go_found signals vid : forall n ii,
  (forall i, ii <= i < ii + n -> exists s, nth_error signals i = Some s /\ slot_vec s = Some vid) ->
  find_vec_go signals ii n (Some vid) = Ok (Some vid).
Proof.
  induction n as [|n IH]; intros ii H; [reflexivity|]. cbn [find_vec_go].
  destruct (H ii ltac:(lia)) as (s & Es & Hs). rewrite Es. destruct s as [[[tp r] v]|]; [|discriminate]. cbn [slot_vec] in Hs. subst v.
  rewrite Nat.eqb_refl. apply IH. intros i Hi. apply H. lia.
Qed.

Theorem find_vec_spec t vid v mn mx : vec_slots t -> nth_error (tr_vectors t) vid = Some v ->
  vi_min v <= mn -> mn <= mx -> mx <= vi_max v -> find_vec t mn mx = Ok (Some vid).
Proof.
  intros [H1 _] Hv Ha Hb Hc. destruct (H1 vid v Hv) as (_ & _ & Hs). unfold find_vec.
  replace (S mx - mn) with (S (mx - mn)) by lia. cbn [find_vec_go].
  destruct (Hs mn ltac:(lia)) as (s & Es & Hsv). rewrite Es. destruct s as [[[tp r] vv]|]; [|discriminate]. cbn [slot_vec] in Hsv. subst vv.
  apply find_vec_go_found. intros i Hi. apply Hs. lia.
Qed.

(* ------------------------------------------------------------------ the invariant is kept *)
Lemma fill_nth x : forall n signals ii i,
  nth_error (fill signals ii n x) i = if (ii <=? i) && (i <? ii + n) && (i <? length signals) then Some x else nth_error signals i.
Proof.
  induction n as [|n IH]; intros signals ii i; cbn [fill].
  - destruct (Nat.leb_spec ii i) as [E1|E1]; cbn [andb]; [|reflexivity]. destruct (Nat.ltb_spec i (ii + 0)); [lia|reflexivity].
  - rewrite IH, list_update_len. destruct (Nat.eq_dec ii i) as [<-|Hne].
    + destruct (Nat.leb_spec (S ii) ii); [lia|]. cbn [andb]. destruct (Nat.leb_spec ii ii); [|lia]. destruct (Nat.ltb_spec ii (ii + S n)); [|lia]. cbn [andb].
      destruct (Nat.ltb_spec ii (length signals)) as [Hl|Hl]; [now apply nth_error_update_eq|].
      assert (E : nth_error (list_update signals ii x) ii = None) by (apply nth_error_None; rewrite list_update_len; lia).
      rewrite E. symmetry. apply nth_error_None. lia.
    + rewrite nth_error_update_ne by exact Hne.
      destruct (Nat.leb_spec (S ii) i), (Nat.leb_spec ii i), (Nat.ltb_spec i (S ii + n)), (Nat.ltb_spec i (ii + S n)); cbn [andb]; try reflexivity; lia.
Qed.

Lemma fill_len x : forall n signals ii, length (fill signals ii n x) = length signals.
Proof. induction n as [|n IH]; intros signals ii; cbn [fill]; [reflexivity|]. now rewrite IH, list_update_len. Qed.

Lemma all_free_spec signals : forall n ii, all_free signals ii n = true -> forall i, ii <= i < ii + n -> nth_error signals i = Some None.
Proof.
  induction n as [|n IH]; intros ii H i Hi; [lia|]. cbn [all_free] in H.
  destruct (nth_error signals ii) as [[s|]|] eqn:E; try discriminate. destruct (Nat.eq_dec ii i) as [<-|Hne]; [exact E|]. apply (IH (S ii) H). lia.
Qed.

Lemma alias_walk_keeps : forall fuel t id msb lsb sliced t' r, alias_walk fuel t id msb lsb sliced = Ok (t', r) ->
  tr_signals t' = tr_signals t /\ tr_vectors t' = tr_vectors t.
Proof.
  induction fuel as [|f IH]; intros t id msb lsb sliced t' r H; cbn [alias_walk] in H; [discriminate|].
  destruct (nth_error (tr_aliases t) id) as [a|]; [|discriminate]. cbn [of_option bind] in H.
  destruct (Nat.eqb (ai_msb a) msb && Nat.eqb (ai_lsb a) lsb); [inversion H; subst; split; reflexivity|].
  destruct (ai_next a) as [nx|]; [exact (IH _ _ _ _ _ _ _ H)|]. inversion H; subst. split; reflexivity.
Qed.

Theorem register_keeps_slots t mn mx b t' r : vec_slots t -> register_bit_vec t mn mx b = Ok (t', r) -> vec_slots t'.
Proof.
  intros [H1 H2] H. unfold register_bit_vec in H. destruct (Nat.ltb_spec mx mn) as [|Hle]; [discriminate|].
  remember (S mx - mn) as len eqn:Elen. assert (Hlen : mn + len = S mx) by lia. clear Elen.
  destruct (find_vec t mn mx) as [[vid|]| |] eqn:Ef; try discriminate; cbn [bind] in H.
  - destruct (nth_error (tr_vectors t) vid) as [v|] eqn:Ev; [|discriminate]. cbn [of_option bind] in H.
    destruct (Nat.eqb mx (vi_max v) && Nat.eqb mn (vi_min v)).
    + destruct (nth_error (tr_signals t) mn) as [[[[tp r0] vv]|]|]; try discriminate. inversion H; subst. split; assumption.
    + destruct ((vi_min v <=? mn) && (mx <=? vi_max v)); [|discriminate]. unfold find_or_add_alias in H. rewrite Ev in H. cbn [of_option bind] in H.
      destruct (vi_alias v) as [first|].
      * destruct (alias_walk_keeps _ _ _ _ _ _ _ _ H) as [Es Evs]. split.
        -- intros vid' v' Hv'. rewrite Evs in Hv'. rewrite Es. exact (H1 vid' v' Hv').
        -- intros i s vid' Hs Hsv. rewrite Es in Hs. rewrite Evs. exact (H2 i s vid' Hs Hsv).
      * inversion H; subst t' r. clear H. unfold vec_slots. cbn [tr_signals tr_vectors]. split.
        -- intros vid' v' Hv'. destruct (Nat.eq_dec vid vid') as [<-|Hne].
           ++ rewrite nth_error_update_eq in Hv' by (apply nth_error_Some; congruence). inversion Hv'; subst v'. cbn [vi_min vi_max]. exact (H1 vid v Ev).
           ++ rewrite nth_error_update_ne in Hv' by exact Hne. exact (H1 vid' v' Hv').
        -- intros i s vid' Hs Hsv. destruct (H2 i s vid' Hs Hsv) as (v' & Hv' & Hr). destruct (Nat.eq_dec vid vid') as [<-|Hne].
           ++ rewrite Ev in Hv'. inversion Hv'; subst v'. eexists. split; [apply nth_error_update_eq; apply nth_error_Some; congruence|exact Hr].
           ++ exists v'. split; [now rewrite nth_error_update_ne by exact Hne|exact Hr].
  - destruct (Nat.eqb_spec mn mx) as [<-|Hne].
    + (* a scalar *)
      unfold register_scalar in H. destruct (nth_error (tr_signals t) mn) as [[[[tp r0] vv]|]|] eqn:Es; try discriminate.
      * destruct (Nat.eqb tp _); [|discriminate]. inversion H; subst. split; assumption.
      * inversion H; subst t' r. clear H. unfold vec_slots. cbn [tr_signals tr_vectors]. split.
        -- intros vid v Hv. destruct (H1 vid v Hv) as (Ha & Hb & Hc). rewrite list_update_len. split; [exact Ha|]. split; [exact Hb|].
           intros i Hi. destruct (Hc i Hi) as (s & Hs & Hsv). destruct (Nat.eq_dec mn i) as [<-|Hn]; [rewrite Es in Hs; inversion Hs; subst s; discriminate|].
           exists s. split; [now rewrite nth_error_update_ne by exact Hn|exact Hsv].
        -- intros i s vid Hs Hsv. destruct (Nat.eq_dec mn i) as [<-|Hn].
           ++ rewrite nth_error_update_eq in Hs by (apply nth_error_Some; congruence). inversion Hs; subst s. discriminate.
           ++ rewrite nth_error_update_ne in Hs by exact Hn. exact (H2 i s vid Hs Hsv).
    + (* a new vector *)
      destruct (all_free (tr_signals t) mn len) eqn:Efree; [|discriminate]. cbn [negb] in H. inversion H; subst t' r. clear H.
      unfold vec_slots. cbn [tr_signals tr_vectors]. pose proof (all_free_spec _ _ _ Efree) as Hfree.
      assert (Hmxl : mx < length (tr_signals t)) by (apply nth_error_Some; rewrite (Hfree mx ltac:(lia)); discriminate).
      set (x := Some ((if b then 3 else 1), tr_count t, Some (length (tr_vectors t)))).
      split.
      * intros vid v Hv. rewrite fill_len. destruct (Nat.lt_ge_cases vid (length (tr_vectors t))) as [Hlt|Hge].
        -- rewrite nth_error_app1 in Hv by exact Hlt. destruct (H1 vid v Hv) as (Ha & Hb & Hc). split; [exact Ha|]. split; [exact Hb|].
           intros i Hi. destruct (Hc i Hi) as (s & Hs & Hsv). exists s. split; [|exact Hsv]. rewrite fill_nth.
           destruct ((mn <=? i) && (i <? mn + len) && (i <? length (tr_signals t))) eqn:Ein; [|exact Hs].
           exfalso. apply andb_prop in Ein as [Ein _]. apply andb_prop in Ein as [E1 E2]. apply Nat.leb_le in E1. apply Nat.ltb_lt in E2.
           rewrite (Hfree i ltac:(lia)) in Hs. inversion Hs; subst s. discriminate.
        -- rewrite nth_error_app2 in Hv by exact Hge. destruct (vid - length (tr_vectors t)) as [|k] eqn:Ek; [|destruct k; discriminate].
           inversion Hv; subst v. cbn [vi_min vi_max]. split; [lia|]. split; [exact Hmxl|]. intros i Hi. exists x. split.
           ++ rewrite fill_nth. destruct (Nat.leb_spec mn i); [|lia]. destruct (Nat.ltb_spec i (mn + len)); [|lia]. destruct (Nat.ltb_spec i (length (tr_signals t))); [reflexivity|lia].
           ++ unfold x. cbn [slot_vec]. f_equal. lia.
      * intros i s vid Hs Hsv. rewrite fill_nth in Hs. destruct ((mn <=? i) && (i <? mn + len) && (i <? length (tr_signals t))) eqn:Ein.
        -- inversion Hs; subst s. unfold x in Hsv. cbn [slot_vec] in Hsv. inversion Hsv; subst vid.
           apply andb_prop in Ein as [Ein _]. apply andb_prop in Ein as [E1 E2]. apply Nat.leb_le in E1. apply Nat.ltb_lt in E2.
           eexists. split; [rewrite nth_error_app2 by lia; rewrite Nat.sub_diag; reflexivity|]. cbn [vi_min vi_max]. lia.
        -- destruct (H2 i s vid Hs Hsv) as (v & Hv & Hr). exists v. split; [|exact Hr]. rewrite nth_error_app1; [exact Hv|]. apply nth_error_Some. congruence.
Qed.

Lemma vec_slots_new n : vec_slots (tr_new n).
Proof.
  split.
  - intros vid v Hv. destruct vid; discriminate.
  - intros i s vid Hs Hsv. unfold tr_new in Hs. cbn [tr_signals] in Hs. apply nth_error_In in Hs. apply repeat_spec in Hs. subst s. discriminate.
Qed.

(* for every sequence of registrations *)
Theorem register_all_slots : forall ops t t' refs, vec_slots t -> register_all t ops = Ok (t', refs) -> vec_slots t'.
Proof.
  induction ops as [|[[mn mx] b] ops IH]; intros t t' refs Hs H; cbn [register_all] in H; [inversion H; subst; exact Hs|].
  destruct (register_bit_vec t mn mx b) as [[t1 r]| |] eqn:E1; try discriminate. cbn [bind] in H.
  destruct (register_all t1 ops) as [[t2 rs]| |] eqn:E2; try discriminate. cbn [bind] in H. inversion H; subst.
  exact (IH t1 t' rs (register_keeps_slots t mn mx b t1 r Hs E1) E2).
Qed.

Lemma alias_ok_count t sigs vecs : alias_ok t -> (forall vid v f, nth_error vecs vid = Some v -> vi_alias v = Some f -> f < length (tr_aliases t)) ->
  alias_ok (mk_tr sigs (S (tr_count t)) vecs (tr_aliases t)).
Proof.
  intros [Ha Hv] Hv'. split; cbn [tr_aliases tr_count tr_vectors].
  - intros id a E. destruct (Ha id a E) as [H1 H2]. split; [lia|exact H2].
  - exact Hv'.
Qed.

Theorem register_keeps_alias_ok t mn mx b t' r : alias_ok t -> register_bit_vec t mn mx b = Ok (t', r) -> alias_ok t'.
Proof.
  intros Hok H. pose proof H as Hcopy. unfold register_bit_vec in H. destruct (Nat.ltb_spec mx mn) as [|Hle]; [discriminate|].
  destruct (find_vec t mn mx) as [[vid|]| |] eqn:Ef; try discriminate; cbn [bind] in H.
  - destruct (nth_error (tr_vectors t) vid) as [v|] eqn:Ev; [|discriminate]. cbn [of_option bind] in H.
    destruct (Nat.eqb mx (vi_max v) && Nat.eqb mn (vi_min v)) eqn:Eq.
    + destruct (nth_error (tr_signals t) mn) as [[[[tp r0] vv]|]|]; try discriminate. inversion H; subst. exact Hok.
    + destruct (Nat.leb_spec (vi_min v) mn) as [Hmin|]; [|discriminate]. destruct (Nat.leb_spec mx (vi_max v)) as [Hmax|]; [|discriminate]. cbn [andb] in H.
      assert (Hne : ~ (mx = vi_max v /\ mn = vi_min v)).
      { intros [E1 E2]. subst. rewrite !Nat.eqb_refl in Eq. discriminate. }
      destruct (register_subrange_spec t mn mx b vid v Hok Ef Ev Hmin Hle Hmax Hne) as (t2 & r2 & Hr & Hok2 & _).
      rewrite Hcopy in Hr. inversion Hr; subst. exact Hok2.
  - destruct (Nat.eqb_spec mn mx) as [<-|Hne].
    + unfold register_scalar in H. destruct (nth_error (tr_signals t) mn) as [[[[tp r0] vv]|]|]; try discriminate.
      * destruct (Nat.eqb tp _); [|discriminate]. inversion H; subst. exact Hok.
      * inversion H; subst. apply alias_ok_count; [exact Hok|exact (proj2 Hok)].
    + destruct (all_free (tr_signals t) mn (S mx - mn)); [|discriminate]. cbn [negb] in H. inversion H; subst. apply alias_ok_count; [exact Hok|].
      intros vid v f Hv Hf. destruct (Nat.lt_ge_cases vid (length (tr_vectors t))) as [Hlt|Hge].
      * rewrite nth_error_app1 in Hv by exact Hlt. exact (proj2 Hok vid v f Hv Hf).
      * rewrite nth_error_app2 in Hv by exact Hge. destruct (vid - length (tr_vectors t)) as [|k]; [|destruct k; discriminate]. inversion Hv; subst v. discriminate.
Qed.

Lemma alias_ok_new n : alias_ok (tr_new n).
Proof. split; [intros id a E; destruct id; discriminate|intros vid v f E; destruct vid; discriminate]. Qed.

Theorem register_all_alias_ok : forall ops t t' refs, alias_ok t -> register_all t ops = Ok (t', refs) -> alias_ok t'.
Proof.
  induction ops as [|[[mn mx] b] ops IH]; intros t t' refs Hs H; cbn [register_all] in H; [inversion H; subst; exact Hs|].
  destruct (register_bit_vec t mn mx b) as [[t1 r]| |] eqn:E1; try discriminate. cbn [bind] in H.
  destruct (register_all t1 ops) as [[t2 rs]| |] eqn:E2; try discriminate. cbn [bind] in H. inversion H; subst.
  exact (IH t1 t' rs (register_keeps_alias_ok t mn mx b t1 r Hs E1) E2).
Qed.

(* Property C13, the alias arithmetic without its premise: after any sequence of registrations, a request for a proper
   sub-range of a registered vector is answered with the slice [pmax - mn : pmax - mx] of that vector *)
Theorem register_subrange_complete n ops t refs mn mx two vid v :
  register_all (tr_new n) ops = Ok (t, refs) ->
  nth_error (tr_vectors t) vid = Some v ->
  vi_min v <= mn -> mn <= mx -> mx <= vi_max v -> ~ (mx = vi_max v /\ mn = vi_min v) ->
  exists t' r,
    register_bit_vec t mn mx two = Ok (t', r) /\ alias_ok t' /\ extends t t' /\
    (exists k a, nth_error (tr_aliases t') k = Some a /\
                 ai_msb a = vi_max v - mn /\ ai_lsb a = vi_max v - mx /\ ai_ref a = r).
Proof.
  intros Hreg Hv H1 H2 H3 Hne.
  pose proof (register_all_alias_ok ops (tr_new n) t refs (alias_ok_new n) Hreg) as Hok.
  pose proof (register_all_slots ops (tr_new n) t refs (vec_slots_new n) Hreg) as Hs.
  pose proof (find_vec_spec t vid v mn mx Hs Hv H1 H2 H3) as Hfv.
  destruct (register_subrange_spec t mn mx two vid v Hok Hfv Hv H1 H2 H3 Hne) as (t' & r & Hr & Hok' & Hext & Hex & _).
  exists t', r. split; [exact Hr|]. split; [exact Hok'|]. split; [exact Hext|exact Hex].
Qed.
