(* Looking scopes up by their path (hierarchy.rs lookup_scope, Scope::full_name; property C08): the scope found for a
   path is the scope whose ancestors' names and own name are that path, every scope is found under its own path, and
   full_name is the '.'-join of that path.  On top of the children-list invariant of Proofs/HierProofs.v. *)
From Coq Require Import Lia Permutation.
From WV Require Import Model.Base Model.Bits Model.WaveMem Model.Hierarchy Proofs.HierProofs Proofs.NavProofs.
Open Scope nat_scope.

(* the names on the way from the top level to scope s *)
Fixpoint scope_path (fuel : nat) (b : builder) (s : nat) : outcome (list name) :=
  match fuel with
  | O => Panic
  | S f =>
    do sc <- of_option (nth_error (hb_scopes b) s);
    match sc_parent sc with
    | None => Ok [sc_name sc]
    | Some p => do pp <- scope_path f b p; Ok (pp ++ [sc_name sc])
    end
  end.

Fixpoint join (l : list name) : name :=
  match l with
  | [] => []
  | [n] => n
  | n :: r => n ++ [46%N] ++ join r
  end.

Lemma join_snoc l n : l <> [] -> join (l ++ [n]) = join l ++ [46%N] ++ n.
Proof.
  induction l as [|x l IH]; intros H; [congruence|]. destruct l as [|y l]; [reflexivity|].
  cbn [app join] in *. rewrite IH by discriminate. now rewrite <- !app_assoc.
Qed.

(* Scope::full_name is the join of the path *)
Lemma full_name_join b : forall fuel s, 
  scope_full_name fuel b s = (do p <- scope_path fuel b s; Ok (join p)) /\
  (forall p, scope_path fuel b s = Ok p -> p <> []).
Proof.
  induction fuel as [|f IH]; intros s; [split; [reflexivity|discriminate]|]. cbn [scope_full_name scope_path].
  destruct (nth_error (hb_scopes b) s) as [sc|]; [|split; [reflexivity|discriminate]]. cbn [of_option bind].
  destruct (sc_parent sc) as [p|]; [|split; [reflexivity|intros q H; inversion H; discriminate]].
  destruct (IH p) as [E Hne]. rewrite E. destruct (scope_path f b p) as [pp| |]; cbn [bind]; split; try reflexivity; try discriminate.
  - now rewrite join_snoc by (now apply Hne).
  - intros q H. inversion H. destruct pp; discriminate.
Qed.

Section Lookup.
Variable b : builder.
Variable kt : list item_id.
Variable ks : list (list item_id).
Hypothesis Hinv : hinv b kt ks.
Hypothesis Hnames : names_ok b kt ks.

(* enough fuel: the parent chain decreases *)
Lemma scope_path_total : forall s fuel, s < length (hb_scopes b) -> s < fuel ->
  exists p, scope_path fuel b s = Ok p /\ forall fuel', s < fuel' -> scope_path fuel' b s = Ok p.
Proof.
  induction s as [s IH] using lt_wf_ind. intros fuel Hs Hf. destruct fuel as [|f]; [lia|]. cbn [scope_path].
  destruct (nth_error (hb_scopes b) s) as [sc|] eqn:E; [|apply nth_error_None in E; lia]. cbn [of_option bind].
  destruct (sc_parent sc) as [p|] eqn:Ep.
  - assert (Hpar : parent_of b (IScope s) = Some p) by (cbn [parent_of]; now rewrite E).
    pose proof (h_parlt _ _ _ Hinv s p Hpar) as Hlt.
    destruct (IH p Hlt f ltac:(lia) ltac:(lia)) as (pp & Hpp & Hind). rewrite Hpp. cbn [bind]. eexists. split; [reflexivity|].
    intros [|f'] Hf'; [lia|]. cbn [scope_path]. rewrite E. cbn [of_option bind]. rewrite Ep, (Hind f' ltac:(lia)). reflexivity.
  - eexists. split; [reflexivity|]. intros [|f'] Hf'; [lia|]. cbn [scope_path]. rewrite E. cbn [of_option bind]. now rewrite Ep.
Qed.

Definition path_of (s : nat) : outcome (list name) := scope_path (S s) b s.

Lemma path_of_child s sc p pp : nth_error (hb_scopes b) s = Some sc -> sc_parent sc = Some p -> path_of p = Ok pp ->
  path_of s = Ok (pp ++ [sc_name sc]).
Proof.
  intros E Ep Hp. unfold path_of. cbn [scope_path]. rewrite E. cbn [of_option bind]. rewrite Ep.
  assert (Hpar : parent_of b (IScope s) = Some p) by (cbn [parent_of]; now rewrite E).
  pose proof (h_parlt _ _ _ Hinv s p Hpar) as Hlt.
  assert (Hpl : p < length (hb_scopes b)) by (apply nth_error_Some; intros En; unfold path_of in Hp; cbn [scope_path] in Hp; rewrite En in Hp; discriminate).
  destruct (scope_path_total p (S p) Hpl ltac:(lia)) as (q & Hq & Hind). unfold path_of in Hp. rewrite Hq in Hp. inversion Hp; subst q.
  rewrite (Hind s Hlt). reflexivity.
Qed.

Lemma path_of_top s sc : nth_error (hb_scopes b) s = Some sc -> sc_parent sc = None -> path_of s = Ok [sc_name sc].
Proof. intros E Ep. unfold path_of. cbn [scope_path]. rewrite E. cbn [of_option bind]. now rewrite Ep. Qed.

(* find_scope_named: the first scope of the list with that name *)
Lemma find_scope_named_some items nm s : find_scope_named b items nm = Some s ->
  In (IScope s) items /\ exists sc, nth_error (hb_scopes b) s = Some sc /\ sc_name sc = nm.
Proof.
  unfold find_scope_named. induction items as [|x items IH]; intros H; [discriminate|]. destruct x as [i|v].
  - destruct (nth_error (hb_scopes b) i) as [sc|] eqn:E.
    + destruct (list_eqb (sc_name sc) nm) eqn:En.
      * inversion H; subst i. split; [now left|]. exists sc. split; [exact E|]. now apply list_eqb_true.
      * destruct (IH H) as [Hin Hsc]. split; [now right|exact Hsc].
    + destruct (IH H) as [Hin Hsc]. split; [now right|exact Hsc].
  - destruct (IH H) as [Hin Hsc]. split; [now right|exact Hsc].
Qed.

Lemma find_scope_named_unique items s sc : NoDup (scope_names b items) -> In (IScope s) items ->
  nth_error (hb_scopes b) s = Some sc -> find_scope_named b items (sc_name sc) = Some s.
Proof.
  unfold find_scope_named. induction items as [|x items IH]; intros Hnd Hin E; [destruct Hin|]. destruct x as [i|v].
  - cbn [scope_names flat_map] in Hnd. destruct (nth_error (hb_scopes b) i) as [sci|] eqn:Ei.
    + cbn [app] in Hnd. apply NoDup_cons_iff in Hnd as [Hni Hnd]. destruct Hin as [Hin|Hin].
      * inversion Hin; subst i. rewrite E in Ei. inversion Ei; subst sci. 
        assert (Ht : list_eqb (sc_name sc) (sc_name sc) = true) by (now apply list_eqb_true). now rewrite Ht.
      * destruct (list_eqb (sc_name sci) (sc_name sc)) eqn:En.
        -- exfalso. apply list_eqb_true in En. apply Hni. rewrite En. unfold scope_names. apply in_flat_map. exists (IScope s). split; [exact Hin|]. rewrite E. now left.
        -- now apply IH.
    + destruct Hin as [Hin|Hin]; [inversion Hin; subst i; congruence|]. now apply IH.
  - destruct Hin as [Hin|Hin]; [discriminate|]. apply IH; assumption.
Qed.

(* lookup_scope is sound: what it finds has the looked-up path *)
Lemma lookup_from_sound : forall path cur P s, cur < length (hb_scopes b) -> path_of cur = Ok P ->
  lookup_scope_from b cur path = Ok (Some s) -> path_of s = Ok (P ++ path) /\ s < length (hb_scopes b).
Proof.
  induction path as [|nm path IH]; intros cur P s Hc HP H; cbn [lookup_scope_from] in H.
  - inversion H; subst s. rewrite app_nil_r. split; assumption.
  - rewrite (scope_items_spec b kt ks Hinv cur Hc) in H. cbn [bind] in H.
    destruct (find_scope_named b (nth cur ks []) nm) as [s'|] eqn:Ef; [|discriminate].
    destruct (find_scope_named_some _ _ _ Ef) as [Hin (sc & Esc & Hnm)].
    assert (Hck : cur < length ks) by (rewrite (h_len _ _ _ Hinv); exact Hc).
    pose proof (h_par _ _ _ Hinv (Some cur) (IScope s') Hck Hin) as Hpar. cbn [parent_of] in Hpar. rewrite Esc in Hpar.
    assert (Hs' : s' < length (hb_scopes b)) by (apply nth_error_Some; congruence).
    pose proof (path_of_child s' sc cur P Esc Hpar HP) as Hp'. rewrite Hnm in Hp'.
    destruct (IH s' (P ++ [nm]) s Hs' Hp' H) as [H1 H2]. split; [|exact H2]. now rewrite <- app_assoc in H1.
Qed.

Theorem lookup_scope_sound path s : lookup_scope b path = Ok (Some s) -> path_of s = Ok path /\ s < length (hb_scopes b).
Proof.
  intros H. unfold lookup_scope in H. destruct path as [|nm path]; [discriminate|].
  rewrite (top_items_spec b kt ks Hinv) in H. cbn [bind] in H.
  destruct (find_scope_named b kt nm) as [s'|] eqn:Ef; [|discriminate].
  destruct (find_scope_named_some _ _ _ Ef) as [Hin (sc & Esc & Hnm)].
  pose proof (h_par _ _ _ Hinv None (IScope s') I Hin) as Hpar. cbn [parent_of] in Hpar. rewrite Esc in Hpar.
  assert (Hs' : s' < length (hb_scopes b)) by (apply nth_error_Some; congruence).
  pose proof (path_of_top s' sc Esc Hpar) as Hp'. rewrite Hnm in Hp'.
  exact (lookup_from_sound path s' [nm] s Hs' Hp' H).
Qed.

(* lookup_scope is complete: every scope is found under its own path (sibling scopes have different names) *)
Lemma lookup_from_app : forall a c cur, lookup_scope_from b cur (a ++ c) =
  do x <- lookup_scope_from b cur a; match x with None => Ok None | Some s => lookup_scope_from b s c end.
Proof.
  induction a as [|nm a IH]; intros c cur; [reflexivity|]. cbn [app lookup_scope_from].
  destruct (scope_items b cur) as [items| |]; try reflexivity. cbn [bind].
  destruct (find_scope_named b items nm) as [s|]; [apply IH|reflexivity].
Qed.

Lemma lookup_scope_app a c : a <> [] -> lookup_scope b (a ++ c) =
  do x <- lookup_scope b a; match x with None => Ok None | Some s => lookup_scope_from b s c end.
Proof.
  intros Ha. destruct a as [|nm a]; [congruence|]. cbn [app lookup_scope].
  destruct (top_items b) as [items| |]; try reflexivity. cbn [bind].
  destruct (find_scope_named b items nm) as [s|]; [apply lookup_from_app|reflexivity].
Qed.

Theorem lookup_scope_complete : forall s p, s < length (hb_scopes b) -> path_of s = Ok p -> lookup_scope b p = Ok (Some s).
Proof.
  induction s as [s IH] using lt_wf_ind. intros p Hs Hp.
  destruct (nth_error (hb_scopes b) s) as [sc|] eqn:E; [|apply nth_error_None in E; lia].
  assert (Hin : In (IScope s) (kt ++ concat ks)).
  { eapply Permutation_in; [apply Permutation_sym, (h_perm _ _ _ Hinv)|]. apply in_all_ids. exact Hs. }
  destruct (sc_parent sc) as [par|] eqn:Ep.
  - (* a child: first the parent's path, then one more step *)
    assert (Hpar : parent_of b (IScope s) = Some par) by (cbn [parent_of]; now rewrite E).
    pose proof (h_parlt _ _ _ Hinv s par Hpar) as Hlt.
    assert (Hpl : par < length (hb_scopes b)) by lia.
    destruct (scope_path_total par (S par) Hpl ltac:(lia)) as (pp & Hpp & _). fold (path_of par) in Hpp.
    rewrite (path_of_child s sc par pp E Ep Hpp) in Hp. inversion Hp; subst p.
    assert (Hne : pp <> []) by (apply (proj2 (full_name_join b (S par) par)); exact Hpp).
    rewrite (lookup_scope_app pp [sc_name sc] Hne), (IH par Hlt pp Hpl Hpp). cbn [bind lookup_scope_from].
    rewrite (scope_items_spec b kt ks Hinv par Hpl). cbn [bind].
    assert (Hk : par < length ks) by (rewrite (h_len _ _ _ Hinv); exact Hpl).
    assert (Hkid : In (IScope s) (nth par ks [])).
    { apply in_app_or in Hin as [Hin|Hin].
      - rewrite (h_par _ _ _ Hinv None (IScope s) I Hin) in Hpar. discriminate.
      - apply in_concat in Hin as (l & Hl & Hx). apply (In_nth _ _ []) in Hl as (q & Hq & <-).
        rewrite (h_par _ _ _ Hinv (Some q) (IScope s) Hq Hx) in Hpar. inversion Hpar; subst. exact Hx. }
    rewrite (find_scope_named_unique (nth par ks []) s sc (Hnames (Some par) Hk) Hkid E). reflexivity.
  - (* a top-level scope *)
    rewrite (path_of_top s sc E Ep) in Hp. inversion Hp; subst p. cbn [lookup_scope].
    rewrite (top_items_spec b kt ks Hinv). cbn [bind].
    assert (Hkid : In (IScope s) kt).
    { apply in_app_or in Hin as [Hin|Hin]; [exact Hin|].
      apply in_concat in Hin as (l & Hl & Hx). apply (In_nth _ _ []) in Hl as (q & Hq & <-).
      pose proof (h_par _ _ _ Hinv (Some q) (IScope s) Hq Hx) as Hp'. cbn [parent_of] in Hp'. rewrite E, Ep in Hp'. discriminate. }
    rewrite (find_scope_named_unique kt s sc (Hnames None I) Hkid E). reflexivity.
Qed.

End Lookup.

(* ------------------------------------------------------------------ lookup_var *)
Definition vmatch (nm : name) (index : option (Z * Z)) (vr : var) : bool :=
  list_eqb (v_name vr) nm && (match index with None => true | Some i => index_eqb (v_index vr) (Some i) end).

Lemma index_eqb_true a c : index_eqb a c = true <-> a = c.
Proof.
  destruct a as [[m1 l1]|], c as [[m2 l2]|]; cbn [index_eqb]; split; intros H; try discriminate; try reflexivity.
  - apply andb_prop in H as [H1 H2]. apply Z.eqb_eq in H1, H2. now subst.
  - inversion H; subst. now rewrite !Z.eqb_refl.
Qed.

Lemma vmatch_spec nm index vr : vmatch nm index vr = true <-> v_name vr = nm /\ (index = None \/ v_index vr = index).
Proof.
  unfold vmatch. rewrite Bool.andb_true_iff, list_eqb_true. destruct index as [i|].
  - rewrite index_eqb_true. split.
    + intros [H1 H2]. split; [exact H1|now right].
    + intros [H1 [H2|H2]]; [discriminate|]. split; assumption.
  - split.
    + intros [H1 _]. split; [exact H1|now left].
    + intros [H1 _]. split; [exact H1|reflexivity].
Qed.

Definition find_var (b : builder) (nm : name) (index : option (Z * Z)) : list item_id -> option nat :=
  fix go (l : list item_id) : option nat :=
    match l with
    | [] => None
    | IVar v :: r =>
      match nth_error (hb_vars b) v with
      | Some vr => if list_eqb (v_name vr) nm && (match index with None => true | Some i => index_eqb (v_index vr) (Some i) end)
                   then Some v else go r
      | None => go r
      end
    | IScope _ :: r => go r
    end.

Lemma find_var_spec b nm index : forall items v, find_var b nm index items = Some v -> increasing (vars_of items) ->
  In (IVar v) items /\ (exists vr, nth_error (hb_vars b) v = Some vr /\ vmatch nm index vr = true) /\
  (forall v' vr', In (IVar v') items -> nth_error (hb_vars b) v' = Some vr' -> vmatch nm index vr' = true -> v <= v').
Proof.
  induction items as [|x items IH]; intros v H Hinc; [discriminate|]. destruct x as [s|x]; cbn [find_var] in H.
  - cbn [vars_of flat_map app] in Hinc. destruct (IH v H Hinc) as (H1 & H2 & H3). split; [now right|]. split; [exact H2|].
    intros v' vr' [Hd|Hin]; [discriminate|]. now apply H3.
  - cbn [vars_of flat_map app] in Hinc. fold (vars_of items) in Hinc. destruct Hinc as [Hall Hinc].
    destruct (nth_error (hb_vars b) x) as [vr|] eqn:E.
    + fold (vmatch nm index vr) in H. destruct (vmatch nm index vr) eqn:Em.
      * inversion H; subst x. split; [now left|]. split; [eauto|]. intros v' vr' [Hd|Hin] E' Hm'; [inversion Hd; lia|].
        rewrite Forall_forall in Hall. assert (v < v'); [|lia]. apply Hall. unfold vars_of. apply in_flat_map. exists (IVar v'). split; [exact Hin|now left].
      * destruct (IH v H Hinc) as (H1 & H2 & H3). split; [now right|]. split; [exact H2|].
        intros v' vr' [Hd|Hin] E' Hm'; [inversion Hd; subst v'; congruence|]. now apply (H3 v' vr').
    + destruct (IH v H Hinc) as (H1 & H2 & H3). split; [now right|]. split; [exact H2|].
      intros v' vr' [Hd|Hin] E' Hm'; [inversion Hd; subst v'; congruence|]. now apply (H3 v' vr').
Qed.

Section LookupVar.
Variable b : builder.
Variable kt : list item_id.
Variable ks : list (list item_id).
Hypothesis Hinv : hinv b kt ks.
Hypothesis Hord : order_ok kt ks.

Lemma var_in_kids v P : v < length (hb_vars b) -> parent_of b (IVar v) = P -> In (IVar v) (kids kt ks P).
Proof.
  intros Hv Hp.
  assert (Hin : In (IVar v) (kt ++ concat ks)).
  { eapply Permutation_in; [apply Permutation_sym, (h_perm _ _ _ Hinv)|]. apply in_all_ids. exact Hv. }
  apply in_app_or in Hin as [Hin|Hin].
  - rewrite (h_par _ _ _ Hinv None (IVar v) I Hin) in Hp. subst P. exact Hin.
  - apply in_concat in Hin as (l & Hl & Hx). apply (In_nth _ _ []) in Hl as (q & Hq & <-).
    rewrite (h_par _ _ _ Hinv (Some q) (IVar v) Hq Hx) in Hp. subst P. exact Hx.
Qed.

(* lookup_var(_with_index): the first declared variable of the looked-up scope (of the top level for an empty path)
   with the given name and, if one is asked for, the given index *)
Theorem lookup_var_spec path nm index v : lookup_var b path nm index = Ok (Some v) ->
  exists P vr,
    (match path with [] => P = None | _ => exists s, lookup_scope b path = Ok (Some s) /\ P = Some s end) /\
    nth_error (hb_vars b) v = Some vr /\ v_parent vr = P /\ v_name vr = nm /\ (index = None \/ v_index vr = index) /\
    (forall v' vr', nth_error (hb_vars b) v' = Some vr' -> v_parent vr' = P -> v_name vr' = nm ->
                    (index = None \/ v_index vr' = index) -> v <= v').
Proof.
  intros H. unfold lookup_var in H.
  assert (G : forall P items, pvalid ks P -> items = kids kt ks P -> find_var b nm index items = Some v ->
              exists vr, nth_error (hb_vars b) v = Some vr /\ v_parent vr = P /\ v_name vr = nm /\ (index = None \/ v_index vr = index) /\
              (forall v' vr', nth_error (hb_vars b) v' = Some vr' -> v_parent vr' = P -> v_name vr' = nm ->
                              (index = None \/ v_index vr' = index) -> v <= v')).
  { intros P items HP -> Hf. destruct (find_var_spec b nm index _ v Hf (proj1 (Hord P HP))) as (Hin & (vr & Evr & Hm) & Hfirst).
    exists vr. split; [exact Evr|]. pose proof (h_par _ _ _ Hinv P (IVar v) HP Hin) as Hpar. cbn [parent_of] in Hpar. rewrite Evr in Hpar.
    apply vmatch_spec in Hm as [Hn Hi]. repeat split; try assumption.
    intros v' vr' E' Hp' Hn' Hi'. apply (Hfirst v' vr'); [|exact E'|apply vmatch_spec; split; assumption].
    apply var_in_kids; [apply nth_error_Some; congruence|]. cbn [parent_of]. now rewrite E'. }
  destruct path as [|p0 path'].
  - rewrite (top_items_spec b kt ks Hinv) in H. cbn [bind] in H. inversion H as [Hf].
    destruct (G None kt I eq_refl Hf) as (vr & R). exists None, vr. split; [reflexivity|exact R].
  - destruct (lookup_scope b (p0 :: path')) as [[s|]| |] eqn:El; cbn [bind] in H; try discriminate.
    assert (Hs : s < length (hb_scopes b)).
    { unfold lookup_scope in El. rewrite (top_items_spec b kt ks Hinv) in El. cbn [bind] in El.
      destruct (find_scope_named b kt p0) as [s'|] eqn:Ef; [|discriminate].
      destruct (find_scope_named_some b _ _ _ Ef) as [Hin (sc & Esc & Hnm)].
      pose proof (h_par _ _ _ Hinv None (IScope s') I Hin) as Hpar. cbn [parent_of] in Hpar. rewrite Esc in Hpar.
      assert (Hs' : s' < length (hb_scopes b)) by (apply nth_error_Some; congruence).
      pose proof (path_of_top b s' sc Esc Hpar) as Hpt. rewrite Hnm in Hpt.
      exact (proj2 (lookup_from_sound b kt ks Hinv path' s' [p0] s Hs' Hpt El)). }
    rewrite (scope_items_spec b kt ks Hinv s Hs) in H. cbn [bind] in H. inversion H as [Hf].
    assert (Hk : s < length ks) by (rewrite (h_len _ _ _ Hinv); exact Hs).
    destruct (G (Some s) (nth s ks []) Hk eq_refl Hf) as (vr & R). exists (Some s), vr. split; [exists s; split; reflexivity|exact R].
Qed.

End LookupVar.

(* for every hierarchy built by a balanced sequence of builder calls *)
Theorem hierarchy_lookup ops b : balanced 0 ops -> hier_run hb_new ops = Ok b ->
  (forall path s, lookup_scope b path = Ok (Some s) -> path_of b s = Ok path /\ s < length (hb_scopes b)) /\
  (forall s, s < length (hb_scopes b) ->
     exists p, path_of b s = Ok p /\ lookup_scope b p = Ok (Some s) /\ scope_full_name (items_fuel b) b s = Ok (join p)).
Proof.
  intros Hbal H.
  destruct (hier_run_wf ops hb_new [] [] b hinv_new ltac:(intros [s|] Hp; [cbn in Hp; lia|constructor])
              ltac:(intros [s|] Hp; [cbn in Hp; lia|cbn; split; exact I]) Hbal H) as (kt & ks & Hinv & Hnames & _).
  split.
  - intros path s Hl. exact (lookup_scope_sound b kt ks Hinv path s Hl).
  - intros s Hs. destruct (scope_path_total b kt ks Hinv s (S s) Hs ltac:(lia)) as (p & Hp & Hind). exists p. split; [exact Hp|]. split.
    + exact (lookup_scope_complete b kt ks Hinv Hnames s p Hs Hp).
    + rewrite (proj1 (full_name_join b (items_fuel b) s)), (Hind (items_fuel b) ltac:(unfold items_fuel; lia)). reflexivity.
Qed.

Theorem hierarchy_lookup_var ops b path nm index v : balanced 0 ops -> hier_run hb_new ops = Ok b ->
  lookup_var b path nm index = Ok (Some v) ->
  exists P vr,
    (match path with [] => P = None | _ => exists s, lookup_scope b path = Ok (Some s) /\ P = Some s end) /\
    nth_error (hb_vars b) v = Some vr /\ v_parent vr = P /\ v_name vr = nm /\ (index = None \/ v_index vr = index) /\
    (forall v' vr', nth_error (hb_vars b) v' = Some vr' -> v_parent vr' = P -> v_name vr' = nm ->
                    (index = None \/ v_index vr' = index) -> v <= v').
Proof.
  intros Hbal H Hl.
  destruct (hier_run_wf ops hb_new [] [] b hinv_new ltac:(intros [s|] Hp; [cbn in Hp; lia|constructor])
              ltac:(intros [s|] Hp; [cbn in Hp; lia|cbn; split; exact I]) Hbal H) as (kt & ks & Hinv & _ & Hord).
  exact (lookup_var_spec b kt ks Hinv Hord path nm index v Hl).
Qed.

Local Open Scope N_scope.
Example lookup_example :
  let ops := [HScope [97] None 0 None false; HVar [120] 0 0 (EncBits 1) None 0%nat None; HScope [99] None 0 None false; HPop; HPop;
              HScope [98] None 0 None false; HPop; HScope [97] None 0 None false; HScope [100] None 0 None false; HPop; HPop] in
  exists b, hier_run hb_new ops = Ok b /\ balanced 0 ops /\
            lookup_scope b [[97]; [100]] = Ok (Some 3%nat) /\ path_of b 3 = Ok [[97]; [100]] /\
            scope_full_name (items_fuel b) b 3 = Ok [97; 46; 100] /\ lookup_scope b [[98]; [100]] = Ok None.
Proof. cbn zeta. eexists. split; [vm_compute; reflexivity|]. split; [cbn; repeat split; lia|]. repeat split; vm_compute; reflexivity. Qed.
