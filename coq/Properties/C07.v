(* Property C07: signal loading is independent of how it is requested. *)
From Coq Require Import Sorted.
From WV Require Import Model.Base Model.Loader Proofs.LoaderProofs.

(* SignalSource::load_signals returns exactly one entry per distinct requested id, in increasing
   id order, each paired with its own id - for every request list and every inner source *)
Check load_signals_shape :
  forall (Sig : Type) (slice_info : nat -> option (nat * nat * nat)) (has_tpe : nat -> bool)
         (inner_load : list nat -> outcome (list Sig)) (slice : Sig -> nat -> nat -> outcome Sig)
         (ids : list nat) (res : list (nat * Sig)),
  load_signals Sig slice_info has_tpe inner_load slice ids = Ok res -> map fst res = sort_dedup ids.

Check sort_dedup_spec :
  forall l, StronglySorted lt (sort_dedup l) /\ (forall y, In y (sort_dedup l) <-> In y l).

(* with a source whose answer for an id depends on that id only (the wavemem reader, by construction;
   the FST database by assumption A-fst) the content returned for an id never depends on the request *)
Check load_signals_content :
  forall (Sig : Type) (slice_info : nat -> option (nat * nat * nat)) (has_tpe : nat -> bool)
         (inner_load : list nat -> outcome (list Sig)) (slice : Sig -> nat -> nat -> outcome Sig)
         (content : nat -> outcome Sig),
  (forall ids, inner_load ids = outcome_map_pairs content ids) ->
  forall ids res, load_signals Sig slice_info has_tpe inner_load slice ids = Ok res ->
  forall id s, In (id, s) res -> final_content Sig slice_info slice content id = Ok s.

(* every history of load / unload calls exposes exactly the signals loaded and not since unloaded,
   each with its request-independent content *)
Check waveform_history :
  forall (Sig : Type) (slice_info : nat -> option (nat * nat * nat)) (has_tpe : nat -> bool)
         (inner_load : list nat -> outcome (list Sig)) (slice : Sig -> nat -> nat -> outcome Sig)
         (content : nat -> outcome Sig),
  (forall ids, inner_load ids = outcome_map_pairs content ids) ->
  forall ops w l w',
  wave_ok Sig slice_info slice content w -> wave_keys Sig w l ->
  wave_run Sig slice_info has_tpe inner_load slice w ops = Ok w' ->
  wave_ok Sig slice_info slice content w' /\ wave_keys Sig w' (loaded_after ops l).

(* loading further signals never changes those already loaded *)
Check load_keeps_loaded :
  forall (Sig : Type) (slice_info : nat -> option (nat * nat * nat)) (has_tpe : nat -> bool)
         (inner_load : list nat -> outcome (list Sig)) (slice : Sig -> nat -> nat -> outcome Sig)
         (content : nat -> outcome Sig),
  (forall ids, inner_load ids = outcome_map_pairs content ids) ->
  forall w l ids w',
  wave_ok Sig slice_info slice content w -> wave_keys Sig w l ->
  wave_load Sig slice_info has_tpe inner_load slice w ids = Ok w' ->
  forall id s, wave_get Sig w id = Some s -> wave_get Sig w' id = Some s.

Print Assumptions load_signals_shape.
Print Assumptions sort_dedup_spec.
Print Assumptions load_signals_content.
Print Assumptions waveform_history.
Print Assumptions load_keeps_loaded.
