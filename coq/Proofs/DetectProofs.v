(* Proofs about Model/Detect.v (property C16). *)
From WV Require Import Model.Base Model.Bits Model.VcdBody Model.Detect.
From Coq Require Import Lia ZifyBool ZifyNat ZifyN.
Ltac Zify.zify_post_hook ::= Z.div_mod_to_equations.
Open Scope N_scope.

(* ---------- the VCD and GHW probes are total: only the FST block walk can panic or hang ---------- *)

Theorem is_vcd_total input : exists b, is_vcd input = PBool b.
Proof.
  unfold is_vcd. destruct (skip_ws input) as [[c r]|]; [|eauto].
  destruct (negb (c =? 36)); [eauto|]. destruct (read_token r []) as [[w r2]|]; [|eauto].
  destruct (is_vcd_command w); eauto.
Qed.

Theorem detect_total_if_walk_total debug input :
  (exists b, is_fst debug input = PBool b) -> exists f, detect debug input = DFormat f.
Proof.
  intros [b Hb]. unfold detect. destruct input as [|x r]; [eauto|].
  destruct (is_vcd_total (x :: r)) as [bv ->]. destruct bv; [eauto|]. rewrite Hb.
  destruct b; [eauto|]. destruct (is_ghw (x :: r)); eauto.
Qed.

(* ---------- known findings: the walk of the dependency is not total ---------- *)

(* D13: nine bytes on which detection never returns (the block walk returns to offset 0) *)
Theorem detect_hang_refuted :
  detect true [0; 255; 255; 255; 255; 255; 255; 255; 255] = DHang /\
  detect false [0; 255; 255; 255; 255; 255; 255; 255; 255] = DHang.
Proof. split; vm_compute; reflexivity. Qed.

(* D17: a block length of 2^63 overflows `(len as i64) - 8` in a debug build *)
Theorem detect_overflow_refuted :
  detect true [0; 128; 0; 0; 0; 0; 0; 0; 0] = DPanic.
Proof. vm_compute. reflexivity. Qed.

(* ---------- data that begins like none of the three formats is Unknown ---------- *)

Definition first_nonblank (input : list byte) : option byte :=
  match skip_ws input with Some (c, _) => Some c | None => None end.

Definition starts_gh (input : list byte) : bool :=
  match input with a :: b :: _ => (a =? 71) && (b =? 72) | _ => false end.

Definition begins_like_none (input : list byte) : Prop :=
  first_nonblank input <> Some 36 /\
  (match input with b :: _ => valid_block_type b = false | [] => True end) /\
  starts_gh input = false.

Lemma is_vcd_not_dollar input : first_nonblank input <> Some 36 -> is_vcd input = PBool false.
Proof.
  unfold first_nonblank, is_vcd. destruct (skip_ws input) as [[c r]|]; [|reflexivity].
  intros H. destruct (N.eqb_spec c 36) as [->|]; [exfalso; apply H; reflexivity|reflexivity].
Qed.

Lemma is_fst_bad_first debug b r : valid_block_type b = false -> is_fst debug (b :: r) = PBool false.
Proof.
  intros H. unfold is_fst. cbn [length Nat.add fst_walk].
  destruct (Z.leb_spec (Z.of_nat (S (length r))) 0); [lia|].
  cbn [Z.to_nat nth_error]. now rewrite H.
Qed.

Lemma is_ghw_needs_magic input : starts_gh input = false -> is_ghw input = false.
Proof.
  destruct input as [|a [|b r]]; try reflexivity. unfold starts_gh, is_ghw. intros ->. reflexivity.
Qed.

Theorem detect_unknown debug input : begins_like_none input -> detect debug input = DFormat FUnknown.
Proof.
  intros (Hv & Hf & Hg). unfold detect. destruct input as [|b r]; [reflexivity|].
  rewrite (is_vcd_not_dollar _ Hv), (is_fst_bad_first debug b r Hf), (is_ghw_needs_magic _ Hg). reflexivity.
Qed.

(* ---------- a VCD file is classified as VCD ---------- *)

(* the matcher finds `$end` when no `$` precedes it (a `$` directly before `$end` would reset it) *)
Lemma find_end_no_dollar : forall pre rest, Forall (fun b => b <> 36) pre ->
  find_end (pre ++ [36; 101; 110; 100] ++ rest) 0 = true.
Proof.
  induction pre as [|p pre IH]; intros rest Hp.
  - reflexivity.
  - apply Forall_cons_iff in Hp as [Hp1 Hp2]. cbn [app find_end].
    destruct (N.eqb_spec p 36); [contradiction|]. cbn [N.eqb andb]. now apply IH.
Qed.

Definition no_dollar (l : list byte) : Prop := Forall (fun b => b <> 36) l.
Definition no_blank (l : list byte) : Prop := Forall (fun b => is_white_space b = false) l.
Definition all_blank (l : list byte) : Prop := Forall (fun b => is_white_space b = true) l.

Lemma skip_ws_blank ws c r : all_blank ws -> is_white_space c = false ->
  skip_ws (ws ++ c :: r) = Some (c, r).
Proof.
  induction 1 as [|w ws Hw _ IH]; intros Hc; cbn [app skip_ws]; [now rewrite Hc|]. rewrite Hw. now apply IH.
Qed.

Lemma read_token_word w : forall acc sep r, no_blank w -> is_white_space sep = true ->
  read_token (w ++ sep :: r) acc = Some (rev_append acc [] ++ w, r).
Proof.
  induction w as [|x w IH]; intros acc sep r Hw Hs; cbn [app read_token].
  - rewrite Hs. now rewrite app_nil_r.
  - apply Forall_cons_iff in Hw as [Hx Hw]. rewrite Hx. rewrite IH by assumption.
    f_equal. f_equal. rewrite !rev_append_rev, !app_nil_r. cbn [rev]. rewrite <- app_assoc. reflexivity.
Qed.

(* every input that starts (after blank space) with a VCD command followed by `$end` is a VCD *)
Theorem detect_vcd debug ws w sep body rest :
  all_blank ws -> is_vcd_command w = true -> no_blank w -> is_white_space sep = true -> no_dollar body ->
  detect debug (ws ++ 36 :: w ++ sep :: body ++ [36; 101; 110; 100] ++ rest) = DFormat FVcd.
Proof.
  intros Hws Hcmd Hw Hsep Hbody. unfold detect.
  destruct (ws ++ 36 :: w ++ sep :: body ++ [36; 101; 110; 100] ++ rest) eqn:E.
  { destruct ws; discriminate. }
  rewrite <- E. unfold is_vcd. rewrite (skip_ws_blank ws 36 _ Hws eq_refl). cbn [N.eqb negb].
  change (36 =? 36) with true. cbn [negb].
  rewrite (read_token_word w [] sep _ Hw Hsep). cbn [rev_append app]. rewrite Hcmd.
  pose proof (find_end_no_dollar body rest Hbody) as F. cbn [app] in F. unfold byte in *. rewrite F.
  rewrite Pos.eqb_refl. reflexivity.
Qed.

Example detect_vcd_nonvacuous :
  detect true [10; 36; 100; 97; 116; 101; 32; 120; 32; 36; 101; 110; 100; 10] = DFormat FVcd /\
  detect true [] = DFormat FUnknown /\ detect true [32; 120] = DFormat FUnknown.
Proof. repeat split; reflexivity. Qed.

(* ---------- the block walk terminates whenever every declared block length moves forward ---------- *)

Definition forward_blocks (input : list byte) : Prop :=
  forall pos tpe, nth_error input pos = Some tpe -> valid_block_type tpe = true ->
    length (firstn 8 (skipn (pos + 1) input)) = 8%nat ->
    8 <= be_value (firstn 8 (skipn (pos + 1) input)) 0 < 4611686018427387904.

Lemma fst_walk_forward debug input : forward_blocks input -> (Z.of_nat (length input) < 4611686018427387904)%Z ->
  forall fuel pos, (0 <= pos)%Z -> (Z.max 0 (Z.of_nat (length input) - pos) + 1 <= Z.of_nat fuel)%Z ->
  exists b, fst_walk debug fuel input pos = PBool b.
Proof.
  intros Hfw Hlen. induction fuel as [|f IH]; intros pos Hpos Hm.
  - exfalso. lia.
  - cbn [fst_walk]. destruct (Z.leb_spec (Z.of_nat (length input)) pos) as [Hle|Hlt]; [eauto|].
    destruct (nth_error input (Z.to_nat pos)) as [tpe|] eqn:En; [|eauto].
    destruct (valid_block_type tpe) eqn:Ev; cbn [negb]; [|eauto].
    replace (Z.to_nat pos + 1)%nat with (Z.to_nat pos + 1)%nat by reflexivity.
    destruct (Nat.ltb_spec (length (firstn 8 (skipn (Z.to_nat pos + 1) input))) 8) as [Hs|Hs]; [eauto|].
    assert (Hl8 : length (firstn 8 (skipn (Z.to_nat pos + 1) input)) = 8%nat).
    { pose proof (firstn_le_length 8 (skipn (Z.to_nat pos + 1) input)). lia. }
    pose proof (Hfw (Z.to_nat pos) tpe En Ev Hl8) as [Hlo Hhi].
    set (len := be_value (firstn 8 (skipn (Z.to_nat pos + 1) input)) 0) in *.
    destruct (N.ltb_spec len 9223372036854775808) as [_|Hbig]; [|lia].
    destruct (Z.ltb_spec (Z.of_N len - 8) (-9223372036854775808)) as [Hneg|_]; [lia|].
    destruct (Z.ltb_spec (pos + 9 + (Z.of_N len - 8)) 0) as [Hn|_]; [lia|].
    destruct (Z.ltb_spec 9223372036854775807 (pos + 9 + (Z.of_N len - 8))) as [Ho|_]; [lia|].
    cbn [orb]. apply IH; lia.
Qed.

(* detection is total (no panic, no hang) on every input whose block lengths all point forward *)
Theorem detect_total_forward debug input : forward_blocks input ->
  (Z.of_nat (length input) < 4611686018427387904)%Z -> exists f, detect debug input = DFormat f.
Proof.
  intros Hfw Hlen. apply detect_total_if_walk_total. unfold is_fst.
  apply fst_walk_forward; try assumption; lia.
Qed.

(* ---------- a file with a legal GHW header is classified as GHW ---------- *)

Theorem detect_ghw debug (v e w o : N) rest : v <= 1 -> (e = 1 \/ e = 2) ->
  detect debug (ghw_header_start ++ [16; 0; v; e; w; o; 0] ++ rest) = DFormat FGhw.
Proof.
  intros Hv He.
  assert (Hv' : v = 0 \/ v = 1) by lia.
  destruct Hv' as [-> | ->]; destruct He as [-> | ->]; reflexivity.
Qed.
