(* Model of the value path of wellen/src/fst.rs: SignalWriter::{add_change, finish},
   expand_entries, and the time-index cursor of FstWaveDatabase::load_signals.
   The FST container (blocks, compression, hierarchy bytes, time chain) is the dependency
   `fst-reader` and is not modelled (A-fst). *)
From WV Require Import Model.Base Generated.Consts Model.Bits Model.WaveMem.
Open Scope N_scope.

Record signal_writer := mk_sw {
  sw_tpe : sig_enc;
  sw_data : list byte;
  sw_strings : list (list byte);
  sw_idx : list N;
  sw_max : states
}.

Definition sw_new (tpe : sig_enc) : signal_writer := mk_sw tpe [] [] [] Two.

Fixpoint chunks (n : nat) (fuel : nat) (l : list byte) : list (list byte) :=
  match fuel with
  | O => []
  | S f => match l with
           | [] => []
           | _ => firstn n l :: chunks n f (skipn n l)
           end
  end.

(* expand_entries *)
Definition expand_entries (from to : states) (old : list byte) (bits : nat) : outcome (list byte) :=
  let '(from_len, from_meta) := get_len_and_meta from bits in
  let from_bpe := get_bytes_per_entry from_len from_meta in
  let '(to_len, to_meta) := get_len_and_meta to bits in
  if Nat.eqb from_len to_len && Bool.eqb from_meta to_meta then Ok old
  else
    do padding_len <- (if negb to_meta then do x <- usub to_len from_len; usub x 1
                       else usub to_len from_len);
    if Nat.eqb from_bpe 0 then Panic                          (* chunks(0) panics *)
    else
      outcome_map_concat
        (fun value =>
           do v0 <- of_option (hd_error value);
           let meta_data := if states_eqb from Two then 0 else (v0 / 64) * 64 in
           Ok (meta_data :: zeros padding_len ++
               (if from_meta then tl value else value)))
        (chunks from_bpe (length old) old).

(* one change of a bit-vector signal; `value` are the characters delivered by the FST reader *)
Definition sw_add_bits (sw : signal_writer) (bits : nat) (time_idx : N) (value : list byte)
  : outcome signal_writer :=
  do local <- of_option (check_states value);                   (* unwrap_or_else(panic) *)
  let signal_states := join (sw_max sw) local in
  do data0 <- (if states_eqb signal_states (sw_max sw) then Ok (sw_data sw)
               else expand_entries (sw_max sw) signal_states (sw_data sw) bits);
  let '(len, has_meta) := get_len_and_meta signal_states bits in
  let meta_data := states_num local * 64 in
  let '(local_len, local_has_meta) := get_len_and_meta local bits in
  do entry <-
    (if Nat.eqb local_len len && Bool.eqb local_has_meta has_meta then
       if has_meta then do p <- write_n_state local value None; Ok (meta_data :: p)
       else write_n_state local value (Some meta_data)
     else
       do pad <- (if has_meta then usub len local_len else do x <- usub len local_len; usub x 1);
       do p <- write_n_state local value None;
       Ok (meta_data :: zeros pad ++ p));
  let bpe := get_bytes_per_entry len has_meta in
  let '(changed, out) := check_if_changed_and_truncate bpe (data0 ++ entry) in
  Ok (mk_sw (sw_tpe sw) out (sw_strings sw)
            (if changed then sw_idx sw ++ [time_idx] else sw_idx sw) signal_states).

(* FstSignalValue::String(value) | FstSignalValue::Real(le bytes) *)
Inductive fst_value := FvString (v : list byte) | FvReal (le : list byte).

Definition sw_add_change (sw : signal_writer) (time_idx : N) (v : fst_value) : outcome signal_writer :=
  match v with
  | FvString value =>
    match sw_tpe sw with
    | EncString =>
      let changed := match last_opt (sw_strings sw) with
                     | Some prev => negb (list_eqb prev value) | None => true end in
      if changed then Ok (mk_sw (sw_tpe sw) (sw_data sw) (sw_strings sw ++ [value])
                                (sw_idx sw ++ [time_idx]) (sw_max sw))
      else Ok sw
    | EncBits bits => sw_add_bits sw bits time_idx value
    | EncReal => Panic
    end
  | FvReal le =>
    let '(changed, out) := check_if_changed_and_truncate 8 (sw_data sw ++ le) in
    Ok (mk_sw (sw_tpe sw) out (sw_strings sw)
              (if changed then sw_idx sw ++ [time_idx] else sw_idx sw) (sw_max sw))
  end.

(* SignalWriter::finish *)
Definition sw_finish (sw : signal_writer) : signal :=
  match sw_tpe sw with
  | EncString => mk_signal (sw_idx sw) (SigStrings (sw_strings sw))
  | EncReal => mk_signal (sw_idx sw) (SigReal (sw_data sw))
  | EncBits bits =>
    let '(bytes, meta_byte) := get_len_and_meta (sw_max sw) bits in
    mk_signal (sw_idx sw) (SigBits (sw_max sw) bits meta_byte (get_bytes_per_entry bytes meta_byte) (sw_data sw))
  end.

Fixpoint sw_run (sw : signal_writer) (changes : list (N * fst_value)) : outcome signal_writer :=
  match changes with
  | [] => Ok sw
  | (t, v) :: r => do sw' <- sw_add_change sw t v; sw_run sw' r
  end.

(* the time cursor of FstWaveDatabase::load_signals: `while *(index_and_time.1) < time { next().unwrap() }`
   over the enumerated time table; returns the index and the remaining cursor *)
Fixpoint time_cursor (fuel : nat) (tt : list N) (pos : nat) (time : N) : outcome nat :=
  match fuel with
  | O => Panic
  | S f =>
    match nth_error tt pos with
    | None => Panic                                            (* time_table.next().unwrap() *)
    | Some t => if t <? time then time_cursor f tt (S pos) time else Ok pos
    end
  end.
