(* C11: the string table of a GHW file.  Every string is stored as the characters that follow the prefix it shares with its
   predecessor, followed by the number of characters the next string shares with it (5 bits per byte, least significant group
   first, the bytes of a group code lie in 0..31 and 128..159 and thereby end the characters).  read_string_section's loop
   (Model/GhwHier.v str_loop) reconstructs the strings - whatever the shared lengths, one byte or several. *)
From Coq Require Import Lia ZifyBool ZifyNat ZifyN.
From WV Require Import Model.Base Model.GhwHier.
Ltac Zify.zify_post_hook ::= Z.div_mod_to_equations.
Open Scope N_scope.
Arguments N.add : simpl never. Arguments N.mul : simpl never. Arguments N.pow : simpl never.
Arguments N.div : simpl never. Arguments N.modulo : simpl never. Arguments N.land : simpl never.
Arguments N.lor : simpl never. Arguments N.shiftl : simpl never.

(* the code of a shared length *)
Fixpoint len_code (fuel : nat) (n : N) : list byte :=
  match fuel with
  | O => []
  | S f => if n <? 32 then [n] else (128 + n mod 32) :: len_code f (n / 32)
  end.

Lemma lor_disjoint acc x shift : acc < 2 ^ shift -> N.lor acc (N.shiftl x shift) = acc + x * 2 ^ shift.
Proof.
  intros H. rewrite N.shiftl_mul_pow2.
  assert (E : N.land acc (x * 2 ^ shift) = 0).
  { apply N.bits_inj. intros n. rewrite N.land_spec, N.bits_0.
    destruct (N.lt_ge_cases n shift) as [Hn|Hn].
    - rewrite N.mul_pow2_bits_low by exact Hn. apply andb_false_r.
    - destruct (N.eq_dec acc 0) as [->|Hz]; [rewrite N.bits_0; reflexivity|].
      rewrite (N.bits_above_log2 acc n); [reflexivity|].
      apply N.log2_lt_pow2 in H; lia. }
  rewrite <- N.lxor_lor by exact E. symmetry. apply N.add_nocarry_lxor. exact E.
Qed.

Lemma land31 c : N.land c 31 = c mod 32.
Proof. change 31 with (N.ones 5). rewrite N.land_ones. reflexivity. Qed.

Lemma code_head_low f m c tail : c :: tail = len_code (S f) m -> N.land c 31 = m mod 32.
Proof.
  cbn [len_code]. destruct (m <? 32) eqn:E; intros H; injection H as -> _; rewrite land31.
  - apply N.ltb_lt in E. rewrite N.mod_small by exact E. reflexivity.
  - replace (128 + m mod 32) with (m mod 32 + 4 * 32) by lia. rewrite N.mod_add by lia. apply N.mod_mod. lia.
Qed.

Lemma prefix_len_decode : forall f m c tail rest acc shift fu,
  c :: tail = len_code (S f) m -> m < 32 ^ N.of_nat (S f) -> acc < 2 ^ shift -> (length tail < fu)%nat ->
  str_prefix_len fu c (tail ++ rest) acc shift = Ok (acc + (m / 32) * 2 ^ shift, rest).
Proof.
  induction f as [|f IH]; intros m c tail rest acc shift fu Hc Hm Ha Hfu; (destruct fu as [|fu]; [lia|]);
    cbn [len_code] in Hc; cbn [str_prefix_len].
  - (* one byte: m < 32 *)
    assert (m < 32) by (cbn in Hm; lia).
    destruct (N.ltb_spec m 32); [|lia]. injection Hc as -> ->.
    destruct (N.leb_spec 128 m); [lia|]. cbn [app]. rewrite N.div_small by lia. f_equal. f_equal. lia.
  - destruct (N.ltb_spec m 32) as [Hlt|Hge].
    + injection Hc as -> ->. destruct (N.leb_spec 128 m); [lia|]. cbn [app]. rewrite N.div_small by lia. f_equal. f_equal. lia.
    + injection Hc as -> Ht.
      destruct (N.leb_spec 128 (128 + m mod 32)); [|lia].
      destruct tail as [|c' tail']; [cbn [len_code] in Ht; destruct (m / 32 <? 32); discriminate|].
      cbn [app read_u8 bind].
      rewrite (code_head_low f (m / 32) c' tail' Ht).
      rewrite lor_disjoint by exact Ha.
      assert (Hm' : m / 32 < 32 ^ N.of_nat (S f)).
      { rewrite (Nat2N.inj_succ (S f)), N.pow_succ_r' in Hm. apply N.div_lt_upper_bound; lia. }
      rewrite (IH (m / 32) c' tail' rest (acc + (m / 32) mod 32 * 2 ^ shift) (shift + 5) fu Ht Hm').
      * f_equal. f_equal. rewrite N.pow_add_r. change (2 ^ 5) with 32.
        pose proof (N.div_mod (m / 32) 32 ltac:(lia)). nia.
      * rewrite N.pow_add_r. change (2 ^ 5) with 32. assert ((m / 32) mod 32 < 32) by (apply N.mod_lt; lia). nia.
      * cbn [length] in Hfu. lia.
Qed.

Lemma len_code_nonempty f m : len_code (S f) m <> [].
Proof. cbn [len_code]. destruct (m <? 32); discriminate. Qed.

Lemma len_code_head_end f m c tail : c :: tail = len_code (S f) m -> is_str_end c = true.
Proof.
  cbn [len_code]. unfold is_str_end. destruct (N.ltb_spec m 32) as [H|H]; intros E; injection E as -> _.
  - apply orb_true_iff. left. apply N.leb_le. lia.
  - apply orb_true_iff. right. assert (m mod 32 < 32) by (apply N.mod_lt; lia).
    apply andb_true_iff. split; apply N.leb_le; lia.
Qed.

(* the characters of a string: no byte of a length code *)
Definition plain (s : list byte) : Prop := Forall (fun c => is_str_end c = false) s.

Lemma str_chars_plain : forall suf buf c rest fuel,
  plain suf -> is_str_end c = true -> (length suf < fuel)%nat ->
  str_chars fuel (suf ++ c :: rest) buf = Ok (buf ++ suf, c, rest).
Proof.
  induction suf as [|x suf IH]; intros buf c rest fuel Hp Hc Hf; (destruct fuel as [|f]; [cbn in Hf; lia|]); cbn [app str_chars].
  - rewrite Hc, app_nil_r. reflexivity.
  - inversion Hp as [|x0 l0 Hx Hr]; subst. rewrite Hx. rewrite (IH (buf ++ [x]) c rest f Hr Hc ltac:(cbn in Hf; lia)).
    rewrite <- app_assoc. reflexivity.
Qed.

(* the strings a list of (suffix, length shared with the next string) denotes, given the characters kept so far *)
Fixpoint strings_of (buf : list byte) (recs : list (list byte * N)) : list (list byte) :=
  match recs with
  | [] => []
  | (suf, plen) :: r => let s := buf ++ suf in s :: strings_of (firstn (N.to_nat plen) s) r
  end.

Definition rec_text (fuel : nat) (r : list byte * N) : list byte := fst r ++ len_code fuel (snd r).

Theorem string_table_decoded cf : forall recs buf table rest fuel,
  (1 <= cf)%nat -> Forall (fun r => plain (fst r) /\ snd r < 32 ^ N.of_nat cf) recs ->
  (length recs < fuel)%nat ->
  str_loop fuel (N.of_nat (length recs)) (concat (map (rec_text cf) recs) ++ rest) buf table
  = Ok (table ++ strings_of buf recs, rest).
Proof.
  induction recs as [|[suf plen] r IH]; intros buf table rest fuel Hcf Hall Hf; (destruct fuel as [|f]; [cbn in Hf; lia|]).
  - cbn [length str_loop N.of_nat]. cbn. rewrite app_nil_r. reflexivity.
  - apply Forall_cons_iff in Hall as [[Hp Hl] Hall]. cbn [fst snd] in Hp, Hl.
    cbn [length map concat strings_of str_loop]. rewrite Nat2N.inj_succ.
    destruct (N.eqb_spec (N.succ (N.of_nat (length r))) 0) as [E|_]; [lia|].
    destruct cf as [|cf']; [lia|]. change (rec_text (S cf') (suf, plen)) with (suf ++ len_code (S cf') plen).
    destruct (len_code (S cf') plen) as [|c tail] eqn:Ec; [now elim (len_code_nonempty cf' plen)|].
    rewrite <- !app_assoc. cbn [app].
    rewrite (str_chars_plain suf buf c _ _ Hp (len_code_head_end cf' plen c tail (eq_sym Ec))) by (rewrite !app_length; cbn [length]; lia).
    cbn [bind].
    rewrite (prefix_len_decode cf' plen c tail _ (N.land c 31) 5 _ (eq_sym Ec) Hl).
    + cbn [bind]. rewrite (code_head_low cf' plen c tail (eq_sym Ec)).
      replace (plen mod 32 + plen / 32 * 2 ^ 5) with plen by (change (2 ^ 5) with 32; pose proof (N.div_mod plen 32 ltac:(lia)); lia).
      replace (N.succ (N.of_nat (length r)) - 1) with (N.of_nat (length r)) by lia.
      rewrite (IH _ (table ++ [buf ++ suf]) rest f (le_n_S _ _ (Nat.le_0_l cf')) Hall ltac:(cbn in Hf; lia)).
      rewrite <- app_assoc. cbn [app]. f_equal. f_equal. f_equal. f_equal.
      (* truncate(prev_len) *)
      destruct (N.leb_spec plen (N.of_nat (length (buf ++ suf)))) as [Hle|Hgt].
      * rewrite N.min_l by exact Hle. reflexivity.
      * rewrite N.min_r by lia. rewrite Nat2N.id. rewrite !firstn_all2; [reflexivity|lia|lia].
    + rewrite land31. change (2 ^ 5) with 32. apply N.mod_lt. lia.
    + rewrite app_length. lia.
Qed.

(* non-vacuity: "valid_in", then "valid_out" sharing 6 characters, then "x"; and a shared length of 40 (two bytes) *)
Example string_table_example :
  strings_of [] [([118; 97; 108; 105; 100; 95; 105; 110], 6); ([111; 117; 116], 0); ([120], 0)]
  = [[118; 97; 108; 105; 100; 95; 105; 110]; [118; 97; 108; 105; 100; 95; 111; 117; 116]; [120]] /\
  len_code 2 40 = [136; 1].
Proof. split; reflexivity. Qed.
