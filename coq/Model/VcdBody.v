(* Model of the VCD body path of wellen/src/vcd.rs: parse_first_token, parse_body (byte state
   machine with hand-over stop rule and end-of-input flush), VcdEncoder::{time,value}, id_to_int,
   determine_thread_chunks, read_values (multi- and single-threaded), read_body's reader driver.
   Not modelled: progress reporting, mmap, scheduling of the rayon workers (A-rayon). *)
From WV Require Import Model.Base Generated.Consts Model.Bits Model.Leb128 Model.WaveMem.
Open Scope N_scope.

Inductive body_state := SkippingNewLine | ParsingFirstToken | ParsingIdToken | LookingForEndToken.

Inductive event := EvTime (t : N) | EvValue (value id : list byte).

Definition is_white_space (b : byte) : bool := (b =? 32) || (b =? 10) || (b =? 13) || (b =? 9).

(* str::parse::<u64> on bytes: optional '+', at least one digit, no overflow *)
Fixpoint parse_digits (l : list byte) (acc : N) : option N :=
  match l with
  | [] => Some acc
  | c :: r => if (48 <=? c) && (c <=? 57)
              then let acc' := acc * 10 + (c - 48) in
                   if u64_max <? acc' then None else parse_digits r acc'
              else None
  end.
Definition parse_u64 (l : list byte) : option N :=
  match l with
  | [] => None
  | 43 :: [] => None
  | 43 :: r => parse_digits r 0
  | _ => parse_digits l 0
  end.

Inductive first_token := FtTime (t : N) | FtOneBit | FtMultiBit | FtComment | FtIgnored.

Definition bytes_eqb := list_eqb.
Definition kw_dumpall : list byte := [36;100;117;109;112;97;108;108].
Definition kw_comment : list byte := [36;99;111;109;109;101;110;116].
Definition kw_dumpvars : list byte := [36;100;117;109;112;118;97;114;115].
Definition kw_end : list byte := [36;101;110;100].
Definition kw_dumpoff : list byte := [36;100;117;109;112;111;102;102].
Definition kw_dumpon : list byte := [36;100;117;109;112;111;110].

(* Generated/Consts.v, from the match arms of vcd.rs parse_first_token *)
Definition one_bit_first_chars : list byte := one_bit_first_chars_src.
Definition multi_bit_first_chars : list byte := multi_bit_first_chars_src.
Definition mem_byte (c : byte) (l : list byte) : bool := existsb (N.eqb c) l.

(* parse_first_token; `debug` = debug_assert!(token.len() > 1) is compiled in *)
Definition parse_first_token (debug : bool) (token : list byte) : outcome first_token :=
  if debug && (length token <=? 1)%nat then Panic
  else match token with
  | [] => Panic                                                     (* token[0] *)
  | c :: rest =>
    if c =? 35 then
      match parse_u64 rest with Some v => Ok (FtTime v) | None => Err end
    else if mem_byte c one_bit_first_chars then Ok FtOneBit
    else if mem_byte c multi_bit_first_chars then Ok FtMultiBit
    else if bytes_eqb token kw_dumpall then Ok (FtTime 0)
    else if bytes_eqb token kw_comment then Ok FtComment
    else if bytes_eqb token kw_dumpvars || bytes_eqb token kw_end
            || bytes_eqb token kw_dumpoff || bytes_eqb token kw_dumpon then Ok FtIgnored
    else Err
  end.

Inductive presult := PDone | PErr | PPanic.

(* the loop of parse_body; events are accumulated in reverse.
   Returns (events in order, how the parser ended). *)
Fixpoint parse_loop (debug : bool) (input : list byte) (pos : N) (stop_pos : N)
         (state : body_state) (first id : list byte) (acc : list event) : list event * presult :=
  match input with
  | [] =>
    (* end of input: flush a pending token, ignoring the stop rule *)
    match state with
    | ParsingFirstToken =>
      match first with
      | [] => (rev_append acc [], PDone)
      | c :: rest =>
        match parse_first_token debug first with
        | Ok (FtTime v) => (rev_append (EvTime v :: acc) [], PDone)
        | Ok FtOneBit => (rev_append (EvValue [c] rest :: acc) [], PDone)
        | Ok _ => (rev_append acc [], PDone)
        | Err => (rev_append acc [], PErr)
        | Panic => (rev_append acc [], PPanic)
        end
      end
    | ParsingIdToken => (rev_append (EvValue first id :: acc) [], PDone)
    | _ => (rev_append acc [], PDone)
    end
  | b :: r =>
    match state with
    | SkippingNewLine =>
      parse_loop debug r (pos + 1) stop_pos (if b =? 10 then ParsingFirstToken else SkippingNewLine) first id acc
    | ParsingFirstToken =>
      if is_white_space b then
        match first with
        | [] => parse_loop debug r (pos + 1) stop_pos ParsingFirstToken first id acc
        | c :: rest =>
          match parse_first_token debug first with
          | Err => (rev_append acc [], PErr)
          | Panic => (rev_append acc [], PPanic)
          | Ok (FtTime v) =>
            (* time_token_start = pos - first.len() - 1 *)
            if pos <? N.of_nat (length first) + 1 then (rev_append acc [], PPanic)
            else if stop_pos <? pos - N.of_nat (length first) - 1 then (rev_append acc [], PDone)
            else parse_loop debug r (pos + 1) stop_pos ParsingFirstToken [] id (EvTime v :: acc)
          | Ok FtOneBit =>
            parse_loop debug r (pos + 1) stop_pos ParsingFirstToken [] id (EvValue [c] rest :: acc)
          | Ok FtMultiBit => parse_loop debug r (pos + 1) stop_pos ParsingIdToken first id acc
          | Ok FtComment => parse_loop debug r (pos + 1) stop_pos LookingForEndToken [] id acc
          | Ok FtIgnored => parse_loop debug r (pos + 1) stop_pos ParsingFirstToken [] id acc
          end
        end
      else parse_loop debug r (pos + 1) stop_pos ParsingFirstToken (first ++ [b]) id acc
    | ParsingIdToken =>
      if is_white_space b then
        match id with
        | [] => parse_loop debug r (pos + 1) stop_pos ParsingIdToken first id acc
        | _ => parse_loop debug r (pos + 1) stop_pos ParsingFirstToken [] [] (EvValue first id :: acc)
        end
      else parse_loop debug r (pos + 1) stop_pos ParsingIdToken first (id ++ [b]) acc
    | LookingForEndToken =>
      if is_white_space b then
        match first with
        | [] => parse_loop debug r (pos + 1) stop_pos LookingForEndToken first id acc
        | _ => parse_loop debug r (pos + 1) stop_pos
                          (if bytes_eqb first kw_end then ParsingFirstToken else LookingForEndToken) [] id acc
        end
      else parse_loop debug r (pos + 1) stop_pos LookingForEndToken (first ++ [b]) id acc
    end
  end.

(* parse_body: both values of starts_on_new_line start in SkippingNewLine (as in the code) *)
Definition parse_body (debug : bool) (input : list byte) (stop_pos : N) : list event * presult :=
  parse_loop debug input 0 stop_pos SkippingNewLine [] [] [].

(* id_to_int *)
Fixpoint id_to_int_go (rev_id : list byte) (result : N) : option N :=
  match rev_id with
  | [] => Some result
  | i :: r =>
    if (i <? id_char_min) || (id_char_max <? i) then None
    else
      let c := (i - id_char_min) + 1 in
      let r1 := result * (id_char_max - id_char_min + 1) in
      if u64_max <? r1 then None
      else let r2 := r1 + c in
           if u64_max <? r2 then None else id_to_int_go r r2
  end.
Definition id_to_int (id : list byte) : option N :=
  match id with
  | [] => None
  | _ => option_map (fun x => x - 1) (id_to_int_go (rev id) 0)
  end.

(* IdLookup = Option<HashMap<Vec<u8>, SignalRef>> *)
Definition id_lookup := option (list (list byte * nat)).
Fixpoint map_get (m : list (list byte * nat)) (k : list byte) : option nat :=
  match m with
  | [] => None
  | (a, v) :: r => if bytes_eqb a k then Some v else map_get r k
  end.

Section WithExternals.
Variable parse_f64 : list byte -> option (list byte).
Variable lz_compress : list byte -> list byte.
Variable lz_decompress : list byte -> nat -> option (list byte).
Variable cap : N.

Record vcd_encoder := mk_ve { ve_enc : encoder; ve_first : bool; ve_found : bool }.

(* VcdEncoder::time *)
Definition ve_time (ve : vcd_encoder) (t : N) : outcome vcd_encoder :=
  do e <- time_change lz_compress cap (ve_enc ve) t;
  Ok (mk_ve e (ve_first ve) true).

(* VcdEncoder::value *)
Definition ve_value (lookup : id_lookup) (ve : vcd_encoder) (value id : list byte) : outcome vcd_encoder :=
  do ve1 <- (if ve_first ve && negb (ve_found ve) then ve_time ve 0 else Ok ve);
  if ve_found ve1 then
    do num_id <- (match lookup with
                  | None => do v <- of_option (id_to_int id); Ok (N.to_nat v)
                  | Some m => of_option (map_get m id)
                  end);
    do e <- vcd_value_change parse_f64 (ve_enc ve1) num_id value;
    Ok (mk_ve e (ve_first ve1) (ve_found ve1))
  else Ok ve1.

Fixpoint feed_events (lookup : id_lookup) (ve : vcd_encoder) (evs : list event) : outcome vcd_encoder :=
  match evs with
  | [] => Ok ve
  | EvTime t :: r => do ve' <- ve_time ve t; feed_events lookup ve' r
  | EvValue v i :: r => do ve' <- ve_value lookup ve v i; feed_events lookup ve' r
  end.

(* read_single_stream_of_values: a panic of the encoder comes before the parser's own end *)
Definition read_single_stream (debug : bool) (tpes : list sig_enc) (lookup : id_lookup)
           (input : list byte) (stop_pos : N) (is_first : bool) : outcome encoder :=
  let '(evs, pres) := parse_body debug input stop_pos in
  do ve <- feed_events lookup (mk_ve (enc_new tpes) is_first false) evs;
  match pres with PDone => Ok (ve_enc ve) | PErr => Err | PPanic => Panic end.

(* determine_thread_chunks; div_ceil by zero panics *)
Definition ndiv_ceil_nat (a b : nat) : outcome nat :=
  if Nat.eqb b 0 then Panic else Ok ((a + b - 1) / b)%nat.

Definition determine_thread_chunks (body_len max_threads min_chunk : nat) : outcome (list (nat * nat)) :=
  do n4 <- ndiv_ceil_nat body_len min_chunk;
  let num_threads := Nat.min max_threads n4 in
  do chunk_size <- ndiv_ceil_nat body_len num_threads;
  Ok (map (fun ii => (ii * chunk_size, chunk_size)%nat) (seq 0 num_threads)).

(* one closure of the par_iter in read_values *)
Definition run_chunk (debug : bool) (tpes : list sig_enc) (lookup : id_lookup) (input : list byte)
           (chunk : nat * nat) : outcome encoder :=
  let '(start, len) := chunk in
  let is_first := Nat.eqb start 0 in
  do _ <- (if is_first then Ok 0
           else of_option (nth_error input (start - 1)));          (* input[*start - 1] *)
  if (length input <? start)%nat then Panic                         (* &input[*start..] *)
  else
    do stop <- usub len 1;
    read_single_stream debug tpes lookup (skipn start input) (N.of_nat stop) is_first.

(* collect::<Result<Vec<_>>>: a panic in any closure propagates; otherwise an Err wins *)
Fixpoint collect_results {A} (l : list (outcome A)) : outcome (list A) :=
  match l with
  | [] => Ok []
  | x :: r =>
    match x, collect_results r with
    | Panic, _ | _, Panic => Panic
    | Err, _ | _, Err => Err
    | Ok a, Ok l' => Ok (a :: l')
    end
  end.

(* read_values, multi-threaded branch (A-rayon: indexed collect preserves chunk order) *)
Definition read_values_mt_nonempty (debug : bool) (tpes : list sig_enc) (lookup : id_lookup) (input : list byte)
           (max_threads min_chunk : nat) : outcome (list block * list N) :=
  do chunks <- determine_thread_chunks (length input) max_threads min_chunk;
  do encoders <- collect_results (map (run_chunk debug tpes lookup input) chunks);
  match encoders with
  | [] => Panic                                                     (* encoder_iter.next().unwrap() *)
  | first :: others =>
    do e <- append_all lz_compress first others;
    enc_finish lz_compress e
  end.

(* read_values, single-threaded branch: stop_pos = input.len() - 1 *)
Definition read_values_st (debug : bool) (tpes : list sig_enc) (lookup : id_lookup) (input : list byte)
  : outcome (list block * list N) :=
  let stop := (length input - 1)%nat in                             (* saturating_sub(1) *)
  do e <- read_single_stream debug tpes lookup input (N.of_nat stop) true;
  enc_finish lz_compress e.

(* read_values: `if multi_thread && !input.is_empty()` *)
Definition read_values_mt (debug : bool) (tpes : list sig_enc) (lookup : id_lookup) (input : list byte)
           (max_threads min_chunk : nat) : outcome (list block * list N) :=
  match input with
  | [] => read_values_st debug tpes lookup input
  | _ => read_values_mt_nonempty debug tpes lookup input max_threads min_chunk
  end.

(* read_body with Input::Reader: stop_pos = absolute end of the file (header included) *)
Definition read_values_reader (debug : bool) (tpes : list sig_enc) (lookup : id_lookup) (input : list byte)
           (header_len : nat) : outcome (list block * list N) :=
  do e <- read_single_stream debug tpes lookup input (N.of_nat (header_len + length input)) true;
  enc_finish lz_compress e.

End WithExternals.
