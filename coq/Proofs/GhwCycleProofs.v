(* C11: from the bytes of a GHW cycle to the per-bit records of the vector buffer.  The value part of one cycle is a
   sequence of records `LEB128(distance to the previous record's signal) value-byte`, ended by a distance of 0.  For records
   that address elements of std_logic / bit vectors, read_cycle_signals (Model/Ghw.v cycle_signals) performs exactly the
   vector-buffer updates VecStepProofs.run_updates speaks about: in file order, the element's GHW signal index being the
   running sum of the distances minus one, the symbol being the std_logic code of the byte (STD_LOGIC_LUT) or the bit.
   With time_step_spec this ties "vectors are assembled from their per-bit records in declaration order" to the bytes. *)
From Coq Require Import Lia.
From WV Require Import Model.Base Generated.Consts Model.Bits Model.Leb128 Model.WaveMem Model.Ghw
  Proofs.LebProofs Proofs.VecProofs Proofs.VecStepProofs Proofs.GhwProofs.
Open Scope N_scope.


(* a record: distance, value byte *)
Definition rec_bytes (r : N * byte) : list byte := leb_write (fst r) ++ [snd r].
Definition cycle_bytes (rs : list (N * byte)) : list byte := concat (map rec_bytes rs) ++ [0].

Definition vec_value (t : ghw_tpe) (g : byte) : option (N * states) :=
  match t with
  | GNineVec => option_map (fun v => (v, Nine)) (nth_error std_logic_lut (N.to_nat g))
  | GTwoVec => if 1 <? g then None else Some (g, Two)
  | _ => None
  end.

(* the updates the records denote: (vector, GHW signal index, symbol) *)
Fixpoint script_of (sigs : list ghw_sig) (pos : N) (rs : list (N * byte)) : option (list (nat * nat * N)) :=
  match rs with
  | [] => Some []
  | (delta, g) :: r =>
    let pos' := pos + delta in
    match nth_error sigs (N.to_nat (pos' - 1)) with
    | Some info =>
      match gs_vec info, vec_value (gs_tpe info) g, script_of sigs pos' r with
      | Some vid, Some (value, _), Some s => Some ((vid, N.to_nat (pos' - 1), value) :: s)
      | _, _, _ => None
      end
    | None => None
    end
  end.

Fixpoint recs_ok (pos : N) (rs : list (N * byte)) : Prop :=
  match rs with
  | [] => True
  | (delta, _) :: r => 1 <= delta /\ pos + delta < 4294967296 /\ recs_ok (pos + delta) r
  end.

(* the decode information agrees with the buffer: an element of a vector refers to a vector of the buffer with the
   signal reference and the state kind the element's type says *)
Definition consistent (sigs : list ghw_sig) (vb : vec_buffer) : Prop :=
  forall idx info vid, nth_error sigs idx = Some info -> gs_vec info = Some vid ->
    forall g value st, vec_value (gs_tpe info) g = Some (value, st) ->
    exists v, nth_error (vb_vecs vb) vid = Some v /\ ve_ref v = gs_ref info /\ ve_states v = st.

Definition vkeys (vb : vec_buffer) : list (nat * states) := map (fun v => (ve_ref v, ve_states v)) (vb_vecs vb).

Lemma vec_update_keys vb e vec_id si value sref st vb' e' :
  vec_update vb e vec_id si value sref st = Ok (vb', e') -> vkeys vb' = vkeys vb.
Proof.
  unfold vec_update. intros H.
  destruct (nth_error (vb_vecs vb) vec_id) as [v|] eqn:Ev; [|discriminate]. cbn [of_option bind] in H.
  destruct (bit_of v si) as [bit| |]; try discriminate. cbn [bind] in H.
  destruct (nth_error (ve_bit_change v) bit) as [ch|]; [|discriminate]. cbn [of_option bind] in H.
  destruct (ve_get_value v bit) as [old| |]; try discriminate. cbn [bind] in H.
  set (key := fun v : vec_entry => (ve_ref v, ve_states v)).
  assert (G : forall v1 e1, key v1 = key v ->
     (do data <- ve_set_value v1 bit value;
      let was_listed := ve_signal_change v1 in
      let v2 := mk_ve (ve_bits v1) (ve_states v1) (ve_ref v1) (ve_max_index v1) data (list_update (ve_bit_change v1) bit true) true in
      let cl := if was_listed then vb_change_list vb else vb_change_list vb ++ [vec_id] in
      do '(v3, e3) <- (if full_signal_has_changed v2 then do e' <- raw e1 sref (ve_data v2) st; Ok (clear_changes v2, e') else Ok (v2, e1));
      Ok (mk_vb (list_update (vb_vecs vb) vec_id v3) cl, e3)) = Ok (vb', e') -> vkeys vb' = vkeys vb).
  { intros v1 e1 Hst G. destruct (ve_set_value v1 bit value) as [data| |]; try discriminate. cbn [bind] in G. cbn zeta in G.
    match type of G with context [full_signal_has_changed ?vv] => destruct (full_signal_has_changed vv) end.
    - destruct (raw e1 sref _ st) as [e2| |]; try discriminate. cbn [bind] in G. inversion G; subst. unfold vkeys. cbn [vb_vecs].
      apply (map_update_same key _ vec_id _ v Ev). exact Hst.
    - inversion G; subst. unfold vkeys. cbn [vb_vecs]. apply (map_update_same key _ vec_id _ v Ev). exact Hst. }
  destruct (ch && negb (old =? value)).
  - destruct (raw e sref (ve_data v) st) as [e1| |]; try discriminate. cbn [bind] in H. exact (G (clear_changes v) e1 eq_refl H).
  - cbn [bind] in H. exact (G v e eq_refl H).
Qed.

Lemma consistent_keys sigs vb vb' : vkeys vb' = vkeys vb -> consistent sigs vb -> consistent sigs vb'.
Proof.
  intros Hk Hc idx info vid Hi Hv g value st Hval.
  destruct (Hc idx info vid Hi Hv g value st Hval) as (v & Hn & Hr & Hs).
  assert (E : nth_error (vkeys vb') vid = Some (ve_ref v, ve_states v)).
  { rewrite Hk. unfold vkeys. rewrite nth_error_map, Hn. reflexivity. }
  unfold vkeys in E. rewrite nth_error_map in E. destruct (nth_error (vb_vecs vb') vid) as [v'|]; [|discriminate].
  cbn in E. injection E as E1 E2. exists v'. split; [reflexivity|]. split; congruence.
Qed.

Lemma leb_write_zero : leb_write 0 = [0].
Proof. reflexivity. Qed.

Theorem cycle_signals_vectors sigs : forall rs pos vb e rest script fuel,
  script_of sigs pos rs = Some script -> recs_ok pos rs -> consistent sigs vb -> (length rs < fuel)%nat ->
  cycle_signals fuel sigs pos vb e (concat (map rec_bytes rs) ++ 0 :: rest)
  = match run_updates vb e script with
    | Ok (vb', e') => Ok (Some (vb', e', rest))
    | Err => Err
    | Panic => Panic
    end.
Proof.
  induction rs as [|[delta g] r IH]; intros pos vb e rest script fuel Hs Hok Hc Hf.
  - cbn in Hs. injection Hs as <-. destruct fuel as [|f]; [cbn in Hf; lia|].
    cbn [map concat app cycle_signals run_updates].
    change (0 :: rest) with (leb_write 0 ++ rest). rewrite leb_roundtrip by lia. reflexivity.
  - cbn [script_of] in Hs. cbn [recs_ok] in Hok. destruct Hok as (Hd & Hp & Hok).
    destruct (nth_error sigs (N.to_nat (pos + delta - 1))) as [info|] eqn:Ei; [|discriminate].
    destruct (gs_vec info) as [vid|] eqn:Ev; [|discriminate].
    destruct (vec_value (gs_tpe info) g) as [[value st]|] eqn:Eval; [|discriminate].
    destruct (script_of sigs (pos + delta) r) as [s|] eqn:Er; [|discriminate]. injection Hs as <-.
    destruct fuel as [|f]; [cbn in Hf; lia|]. cbn [length] in Hf.
    cbn [map concat cycle_signals]. unfold rec_bytes at 1. cbn [fst snd]. rewrite <- !app_assoc. cbn [app].
    rewrite leb_roundtrip by lia.
    replace (delta =? 0) with false by (symmetry; apply N.eqb_neq; lia).
    replace (18446744073709551616 <=? pos + delta) with false by (symmetry; apply N.leb_gt; lia).
    rewrite (N.mod_small (pos + delta) 4294967296) by lia.
    replace (pos + delta =? 0) with false by (symmetry; apply N.eqb_neq; lia).
    assert (Hlen : (N.to_nat (pos + delta - 1) < length sigs)%nat) by (apply nth_error_Some; rewrite Ei; discriminate).
    replace (N.of_nat (length sigs) <=? pos + delta - 1) with false by (symmetry; apply N.leb_gt; lia).
    (* read_signal_value on a vector element *)
    destruct (Hc _ info vid Ei Ev g value st Eval) as (v & Hv & Href & Hst).
    cbn [run_updates]. rewrite Hv. cbn [of_option bind]. rewrite Href, Hst.
    unfold read_signal_value. rewrite Ei. cbn [of_option bind].
    assert (Hrsv :
      (match gs_tpe info with
       | GNineVec | GTwoVec =>
         do '(value0, st0) <- (match gs_tpe info with
                               | GNineVec => do v0 <- of_option (nth_error std_logic_lut (N.to_nat g)); Ok (v0, Nine)
                               | _ => if 1 <? g then Panic else Ok (g, Two)
                               end);
         do vec_id <- of_option (gs_vec info);
         do '(vb', e') <- vec_update vb e vec_id (N.to_nat (pos + delta - 1)) value0 (gs_ref info) st0;
         Ok (Some (vb', e', concat (map rec_bytes r) ++ 0 :: rest))
       | _ => Panic
       end)
      = do '(vb', e') <- vec_update vb e vid (N.to_nat (pos + delta - 1)) value (gs_ref info) st;
        Ok (Some (vb', e', concat (map rec_bytes r) ++ 0 :: rest))).
    { unfold vec_value in Eval. destruct (gs_tpe info); try discriminate.
      - destruct (nth_error std_logic_lut (N.to_nat g)) as [v0|]; [|discriminate]. cbn in Eval. injection Eval as <- <-.
        cbn [of_option bind]. rewrite Ev. reflexivity.
      - destruct (1 <? g); [discriminate|]. injection Eval as <- <-. cbn [bind]. rewrite Ev. reflexivity. }
    assert (Hshape : match gs_tpe info with GNineVec | GTwoVec => True | _ => False end).
    { unfold vec_value in Eval. destruct (gs_tpe info); try discriminate; exact I. }
    destruct (gs_tpe info) eqn:Et; try contradiction.
    + rewrite Hrsv.
      destruct (vec_update vb e vid (N.to_nat (pos + delta - 1)) value (gs_ref info) st) as [[vb1 e1]| |] eqn:Eu; cbn [bind]; [|reflexivity..].
      apply (IH (pos + delta) vb1 e1 rest s f Er Hok); [|lia].
      exact (consistent_keys sigs vb vb1 (vec_update_keys _ _ _ _ _ _ _ _ _ Eu) Hc).
    + rewrite Hrsv.
      destruct (vec_update vb e vid (N.to_nat (pos + delta - 1)) value (gs_ref info) st) as [[vb1 e1]| |] eqn:Eu; cbn [bind]; [|reflexivity..].
      apply (IH (pos + delta) vb1 e1 rest s f Er Hok); [|lia].
      exact (consistent_keys sigs vb vb1 (vec_update_keys _ _ _ _ _ _ _ _ _ Eu) Hc).
Qed.


(* the symbols the records carry are symbols of the addressed vector's kind *)
Lemma script_values_ok sigs vb : consistent sigs vb -> forall rs pos script,
  script_of sigs pos rs = Some script -> Forall (value_ok (vb_vecs vb)) script.
Proof.
  intros Hc. induction rs as [|[delta g] r IH]; intros pos script Hs; cbn [script_of] in Hs.
  - injection Hs as <-. constructor.
  - destruct (nth_error sigs (N.to_nat (pos + delta - 1))) as [info|] eqn:Ei; [|discriminate].
    destruct (gs_vec info) as [vid|] eqn:Ev; [|discriminate].
    destruct (vec_value (gs_tpe info) g) as [[value st]|] eqn:Eval; [|discriminate].
    destruct (script_of sigs (pos + delta) r) as [s|] eqn:Er; [|discriminate]. injection Hs as <-.
    constructor; [|exact (IH _ _ Er)].
    destruct (Hc _ info vid Ei Ev g value st Eval) as (v & Hv & _ & Hst).
    unfold value_ok. rewrite Hv, Hst. unfold vec_value in Eval. destruct (gs_tpe info); try discriminate.
    + destruct (nth_error std_logic_lut (N.to_nat g)) as [v0|] eqn:El; [|discriminate]. cbn in Eval. injection Eval as <- <-.
      pose proof (lut_le8 g v0 El). cbn. split; lia.
    + destruct (1 <? g) eqn:E1; [discriminate|]. injection Eval as <- <-. apply N.ltb_ge in E1. cbn. split; lia.
Qed.

(* one cycle made of records for vector elements, from its bytes to what the store is handed *)
Theorem cycle_vectors_step (lz_compress : list byte -> list byte) (cap : N) (parse_f64 : list byte -> option (list byte)) sigs rs vb SS e rest script vb1 e1 rest' vb2 e2 :
  script_of sigs 0 rs = Some script -> recs_ok 0 rs -> consistent sigs vb ->
  vbinv vb SS -> vb_change_list vb = [] ->
  (forall id v, nth_error (vb_vecs vb) id = Some v -> ve_signal_change v = false) ->
  cycle_signals (S (length rs)) sigs 0 vb e (concat (map rec_bytes rs) ++ 0 :: rest) = Ok (Some (vb1, e1, rest')) ->
  finish_time_step vb1 e1 = Ok (vb2, e2) ->
  rest' = rest /\
  let vecs0 := vb_vecs vb in
  let S2 := fold_left (apply_update vecs0) script SS in
  let touched := map (fun u : nat * nat * N => fst (fst u)) script in
  exists T,
    run_ops parse_f64 lz_compress cap e (ops_of_trace vecs0 T) = Ok e2 /\
    vbinv vb2 S2 /\ vb_change_list vb2 = [] /\
    (forall id v, nth_error (vb_vecs vb2) id = Some v -> ve_signal_change v = false) /\
    (forall id syms, nth_error S2 id = Some syms -> In id touched -> last_opt (for_id id T) = Some syms) /\
    (forall id, ~ In id touched -> for_id id T = [] /\ nth_error S2 id = nth_error SS id).
Proof.
  intros Hs Hok Hc Hinv Hcl Hclean Hcy Hfin.
  rewrite (cycle_signals_vectors sigs rs 0 vb e rest script (S (length rs)) Hs Hok Hc ltac:(lia)) in Hcy.
  destruct (run_updates vb e script) as [[vb1' e1']| |] eqn:Eru; try discriminate.
  injection Hcy as <- <- <-. split; [reflexivity|].
  exact (time_step_spec parse_f64 lz_compress cap (vb_vecs vb) vb SS e script vb1' e1' vb2 e2 eq_refl Hinv Hcl Hclean
           (script_values_ok sigs vb Hc rs 0 script Hs) Eru Hfin).
Qed.


(* non-vacuity: a std_logic_vector(2 downto 0) on the GHW signals 1..3 (indices 0..2), signal reference 1; the cycle writes
   'Z' (byte 4) to signal 1 and '1' (byte 3) to signal 3: distances 1 and 2 *)
Example cycle_vectors_example :
  let sigs := [mk_gs GNineVec 1 (Some 0%nat); mk_gs GNineVec 1 (Some 0%nat); mk_gs GNineVec 1 (Some 0%nat)] in
  let rs := [(1, 4); (2, 3)] in
  match vec_of (1%nat, 3%nat, false, 1%nat) with
  | Ok v =>
      let vb := mk_vb [v] [] in
      script_of sigs 0 rs = Some [(0%nat, 0%nat, nth 4 std_logic_lut 0); (0%nat, 2%nat, nth 3 std_logic_lut 0)] /\
      recs_ok 0 rs /\ cycle_bytes rs = [1; 4; 2; 3; 0] /\
      (forall idx info vid, nth_error sigs idx = Some info -> gs_vec info = Some vid ->
         nth_error (vb_vecs vb) vid = Some v /\ ve_ref v = gs_ref info /\ ve_states v = Nine)
  | _ => False
  end.
Proof.
  cbn zeta. vm_compute vec_of. split; [vm_compute; reflexivity|]. split; [cbn; lia|]. split; [reflexivity|].
  intros idx info vid Hi Hv. do 3 (destruct idx as [|idx]; [cbn in Hi; injection Hi as <-; cbn in Hv; injection Hv as <-; repeat split|]).
  destruct idx; discriminate.
Qed.

(* ------------------------------------------------------------------ a whole cycle section: several cycles *)
(* a cycle: its records and the bytes of the signed LEB128 distance to the next cycle's time (negative: the last one) *)
Record cyc := mk_cyc { c_recs : list (N * byte); c_dt_bytes : list byte; c_dt : Z }.
Definition cyc_bytes (c : cyc) : list byte := concat (map rec_bytes (c_recs c)) ++ 0 :: c_dt_bytes c.
Definition dt_ok (c : cyc) : Prop := forall rest, sleb_read (c_dt_bytes c ++ rest) = Some (c_dt c, rest).

Fixpoint dts_shape (cs : list cyc) : Prop :=
  match cs with
  | [] => False
  | [c] => (c_dt c < 0)%Z
  | c :: r => (0 <= c_dt c)%Z /\ dts_shape r
  end.

(* what one step guarantees about the values handed over (the last two clauses of time_step_spec) *)
Definition step_ok (vecs0 : list vec_entry) (SS : list (list N)) (script : list (nat * nat * N)) (T : list (nat * list N)) : Prop :=
  let S2 := fold_left (apply_update vecs0) script SS in
  let touched := map (fun u : nat * nat * N => fst (fst u)) script in
  (forall id syms, nth_error S2 id = Some syms -> In id touched -> last_opt (for_id id T) = Some syms) /\
  (forall id, ~ In id touched -> for_id id T = [] /\ nth_error S2 id = nth_error SS id).

(* the operations a run of cycles hands to the store: per cycle its time stamp and the trace of its step *)
Inductive cycles_spec (vecs0 : list vec_entry) (sigs : list ghw_sig) :
  N -> list (list N) -> list cyc -> list enc_op -> list (list N) -> Prop :=
| CsLast c time SS script T :
    (c_dt c < 0)%Z -> script_of sigs 0 (c_recs c) = Some script -> step_ok vecs0 SS script T ->
    cycles_spec vecs0 sigs time SS [c] (OpTime time :: ops_of_trace vecs0 T) (fold_left (apply_update vecs0) script SS)
| CsMore c cs time SS script T ops Sf :
    (0 <= c_dt c)%Z -> script_of sigs 0 (c_recs c) = Some script -> step_ok vecs0 SS script T ->
    cycles_spec vecs0 sigs (u64_wrap (time + Z.to_N (c_dt c))) (fold_left (apply_update vecs0) script SS) cs ops Sf ->
    cycles_spec vecs0 sigs time SS (c :: cs) (OpTime time :: ops_of_trace vecs0 T ++ ops) Sf.

Lemma value_ok_shape a b u : same_shape a b -> value_ok b u -> value_ok a u.
Proof.
  intros Hs. destruct u as [[vid si] value]. unfold value_ok.
  destruct (nth_error a vid) as [va|] eqn:Ea; [|intros _; exact I].
  destruct (nth_error b vid) as [vb0|] eqn:Eb.
  - destruct (same_shape_nth a b vid vb0 Hs Eb) as (v0 & E0 & Hsh). rewrite Ea in E0. injection E0 as <-.
    unfold shape in Hsh. assert (Hst : ve_states va = ve_states vb0) by congruence. rewrite Hst. exact (fun H => H).
  - exfalso. unfold same_shape in Hs. apply (f_equal (@length _)) in Hs. rewrite !map_length in Hs.
    apply nth_error_None in Eb. assert (vid < length a)%nat by (apply nth_error_Some; rewrite Ea; discriminate). lia.
Qed.

Lemma consistent_shape sigs a vb vb' :
  same_shape a (vb_vecs vb) -> same_shape a (vb_vecs vb') -> consistent sigs vb -> consistent sigs vb'.
Proof.
  intros H1 H2 Hc idx info vid Hi Hv g value st Hval.
  destruct (Hc idx info vid Hi Hv g value st Hval) as (v & Hn & Hr & Hs).
  destruct (same_shape_nth a (vb_vecs vb) vid v H1 Hn) as (v0 & E0 & Hsh0).
  assert (Hl : (vid < length (vb_vecs vb'))%nat).
  { unfold same_shape in H2. apply (f_equal (@length _)) in H2. rewrite !map_length in H2. rewrite <- H2.
    apply nth_error_Some. rewrite E0. discriminate. }
  destruct (nth_error (vb_vecs vb') vid) as [v'|] eqn:E'; [|apply nth_error_None in E'; lia].
  destruct (same_shape_nth a (vb_vecs vb') vid v' H2 E') as (v1 & E1 & Hsh1). rewrite E0 in E1. injection E1 as <-.
  unfold shape in Hsh0, Hsh1. inversion Hsh0. inversion Hsh1. exists v'. split; [reflexivity|]. split; congruence.
Qed.

Lemma rec_bytes_length rs : (length rs <= length (concat (map rec_bytes rs)))%nat.
Proof.
  induction rs as [|r rs IH]; cbn [map concat length]; [lia|]. rewrite app_length. unfold rec_bytes at 1. rewrite app_length. cbn [length]. lia.
Qed.

Theorem cycle_loop_vectors (parse_f64 : list byte -> option (list byte)) (lz_compress : list byte -> list byte) (cap : N)
        vecs0 sigs : forall cs time vb SS e rest fuel vb' e' rest',
  dts_shape cs -> Forall dt_ok cs ->
  Forall (fun c => recs_ok 0 (c_recs c) /\ exists script, script_of sigs 0 (c_recs c) = Some script) cs ->
  same_shape vecs0 (vb_vecs vb) -> consistent sigs vb -> vbinv vb SS -> vb_change_list vb = [] ->
  (forall id v, nth_error (vb_vecs vb) id = Some v -> ve_signal_change v = false) ->
  (length cs <= fuel)%nat ->
  cycle_loop lz_compress cap fuel sigs time vb e (concat (map cyc_bytes cs) ++ rest) = Ok (Some (vb', e', rest')) ->
  rest' = rest /\
  exists ops Sf,
    cycles_spec vecs0 sigs time SS cs ops Sf /\ run_ops parse_f64 lz_compress cap e ops = Ok e' /\
    vbinv vb' Sf /\ same_shape vecs0 (vb_vecs vb') /\ vb_change_list vb' = [] /\
    (forall id v, nth_error (vb_vecs vb') id = Some v -> ve_signal_change v = false).
Proof.
  induction cs as [|c cs IH]; intros time vb SS e rest fuel vb' e' rest' Hshape Hdt Hrecs Hsh Hc Hinv Hcl Hclean Hf H; [destruct Hshape|].
  destruct fuel as [|f]; [cbn in Hf; lia|]. cbn [length] in Hf.
  apply Forall_cons_iff in Hdt as [Hdt0 Hdt]. apply Forall_cons_iff in Hrecs as [[Hok0 [script Hscr]] Hrecs].
  cbn [map concat] in H. cbn [cycle_loop] in H.
  destruct (time_change lz_compress cap e time) as [e1| |] eqn:Et; cbn [bind] in H; try discriminate.
  change (cyc_bytes c) with (concat (map rec_bytes (c_recs c)) ++ 0 :: c_dt_bytes c) in H. rewrite <- !app_assoc in H. cbn [app] in H.
  match type of H with context [cycle_signals ?fu sigs 0 vb e1 ?inp] =>
    assert (Hcs : cycle_signals fu sigs 0 vb e1 inp
                  = match run_updates vb e1 script with Ok (vb1, e2) => Ok (Some (vb1, e2, c_dt_bytes c ++ concat (map cyc_bytes cs) ++ rest)) | Err => Err | Panic => Panic end)
  end.
  { refine (cycle_signals_vectors sigs (c_recs c) 0 vb e1 (c_dt_bytes c ++ concat (map cyc_bytes cs) ++ rest) script _ Hscr Hok0 Hc _).
    rewrite app_length. pose proof (rec_bytes_length (c_recs c)). lia. }
  rewrite Hcs in H. clear Hcs.
  destruct (run_updates vb e1 script) as [[vb1 e2]| |] eqn:Eru; cbn [bind] in H; try discriminate.
  destruct (finish_time_step vb1 e2) as [[vb3 e3]| |] eqn:Efin; cbn [bind] in H; try discriminate.
  rewrite (Hdt0 _) in H.
  assert (Hvok : Forall (value_ok vecs0) script).
  { pose proof (script_values_ok sigs vb Hc (c_recs c) 0 script Hscr) as Hv. rewrite Forall_forall in Hv |- *.
    intros u Hu. exact (value_ok_shape vecs0 (vb_vecs vb) u Hsh (Hv u Hu)). }
  destruct (time_step_spec_shape parse_f64 lz_compress cap vecs0 vb SS e1 script vb1 e2 vb3 e3 Hsh Hinv Hcl Hclean Hvok Eru Efin)
    as (T & Hrun & Hinv3 & Hcl3 & Hclean3 & Hlast & Hun & Hsh3).
  assert (Hstep : step_ok vecs0 SS script T) by (split; assumption).
  assert (Hrun0 : run_ops parse_f64 lz_compress cap e (OpTime time :: ops_of_trace vecs0 T) = Ok e3).
  { cbn [WaveMem.run_ops WaveMem.run_op]. rewrite Et. cbn [bind]. exact Hrun. }
  destruct (c_dt c <? 0)%Z eqn:Edt.
  - (* the last cycle *)
    apply Z.ltb_lt in Edt. injection H as <- <- <-.
    destruct cs as [|c2 cs2]; [|cbn [dts_shape] in Hshape; lia].
    cbn [map concat app]. split; [reflexivity|].
    exists (OpTime time :: ops_of_trace vecs0 T), (fold_left (apply_update vecs0) script SS).
    split; [exact (CsLast vecs0 sigs c time SS script T Edt Hscr Hstep)|]. split; [exact Hrun0|].
    split; [exact Hinv3|]. split; [exact Hsh3|]. split; assumption.
  - apply Z.ltb_ge in Edt.
    destruct cs as [|c2 cs2].
    { cbn [dts_shape] in Hshape. lia. }
    assert (Hshape' : dts_shape (c2 :: cs2)) by (cbn [dts_shape] in Hshape |- *; tauto).
    destruct (IH (u64_wrap (time + Z.to_N (c_dt c))) vb3 (fold_left (apply_update vecs0) script SS) e3 rest f vb' e' rest'
                 Hshape' Hdt Hrecs Hsh3 (consistent_shape sigs vecs0 vb vb3 Hsh Hsh3 Hc) Hinv3 Hcl3 Hclean3 ltac:(lia) H)
      as (-> & ops & Sf & Hspec & Hrun' & Hinv' & Hsh' & Hcl' & Hclean').
    split; [reflexivity|].
    exists (OpTime time :: ops_of_trace vecs0 T ++ ops), Sf.
    split; [exact (CsMore vecs0 sigs c (c2 :: cs2) time SS script T ops Sf Edt Hscr Hstep Hspec)|].
    split; [|split; [exact Hinv'|split; [exact Hsh'|split; assumption]]].
    change (OpTime time :: ops_of_trace vecs0 T ++ ops) with ((OpTime time :: ops_of_trace vecs0 T) ++ ops).
    exact (run_ops_cat parse_f64 lz_compress cap _ _ e e3 e' Hrun0 Hrun').
Qed.

(* ------------------------------------------------------------------ the snapshot: one value byte per signal, in order *)
Fixpoint snap_script (sigs : list ghw_sig) (idx : nat) (bs : list byte) : option (list (nat * nat * N)) :=
  match bs with
  | [] => Some []
  | g :: r =>
    match nth_error sigs idx with
    | Some info =>
      match gs_vec info, vec_value (gs_tpe info) g, snap_script sigs (S idx) r with
      | Some vid, Some (value, _), Some s => Some ((vid, idx, value) :: s)
      | _, _, _ => None
      end
    | None => None
    end
  end.

Theorem snapshot_vectors sigs : forall bs idx vb e rest script,
  snap_script sigs idx bs = Some script -> consistent sigs vb ->
  snapshot_signals sigs (length bs) idx vb e (bs ++ rest)
  = match run_updates vb e script with
    | Ok (vb', e') => Ok (Some (vb', e', rest))
    | Err => Err
    | Panic => Panic
    end.
Proof.
  induction bs as [|g r IH]; intros idx vb e rest script Hs Hc.
  - cbn in Hs. injection Hs as <-. reflexivity.
  - cbn [snap_script] in Hs.
    destruct (nth_error sigs idx) as [info|] eqn:Ei; [|discriminate].
    destruct (gs_vec info) as [vid|] eqn:Ev; [|discriminate].
    destruct (vec_value (gs_tpe info) g) as [[value st]|] eqn:Eval; [|discriminate].
    destruct (snap_script sigs (S idx) r) as [s|] eqn:Er; [|discriminate]. injection Hs as <-.
    destruct (Hc _ info vid Ei Ev g value st Eval) as (v & Hv & Href & Hst).
    cbn [length snapshot_signals app run_updates]. rewrite Hv. cbn [of_option bind]. rewrite Href, Hst.
    unfold read_signal_value. rewrite Ei. cbn [of_option bind].
    assert (Hrsv :
      (match gs_tpe info with
       | GNineVec | GTwoVec =>
         do '(value0, st0) <- (match gs_tpe info with
                               | GNineVec => do v0 <- of_option (nth_error std_logic_lut (N.to_nat g)); Ok (v0, Nine)
                               | _ => if 1 <? g then Panic else Ok (g, Two)
                               end);
         do vec_id <- of_option (gs_vec info);
         do '(vb', e') <- vec_update vb e vec_id idx value0 (gs_ref info) st0;
         Ok (Some (vb', e', r ++ rest))
       | _ => Panic
       end)
      = do '(vb', e') <- vec_update vb e vid idx value (gs_ref info) st; Ok (Some (vb', e', r ++ rest))).
    { unfold vec_value in Eval. destruct (gs_tpe info); try discriminate.
      - destruct (nth_error std_logic_lut (N.to_nat g)) as [v0|]; [|discriminate]. cbn in Eval. injection Eval as <- <-.
        cbn [of_option bind]. rewrite Ev. reflexivity.
      - destruct (1 <? g); [discriminate|]. injection Eval as <- <-. cbn [bind]. rewrite Ev. reflexivity. }
    assert (Hshape : match gs_tpe info with GNineVec | GTwoVec => True | _ => False end).
    { unfold vec_value in Eval. destruct (gs_tpe info); try discriminate; exact I. }
    destruct (gs_tpe info) eqn:Et; try contradiction.
    + rewrite Hrsv.
      destruct (vec_update vb e vid idx value (gs_ref info) st) as [[vb1 e1]| |] eqn:Eu; cbn [bind]; [|reflexivity..].
      apply (IH (S idx) vb1 e1 rest s Er). exact (consistent_keys sigs vb vb1 (vec_update_keys _ _ _ _ _ _ _ _ _ Eu) Hc).
    + rewrite Hrsv.
      destruct (vec_update vb e vid idx value (gs_ref info) st) as [[vb1 e1]| |] eqn:Eu; cbn [bind]; [|reflexivity..].
      apply (IH (S idx) vb1 e1 rest s Er). exact (consistent_keys sigs vb vb1 (vec_update_keys _ _ _ _ _ _ _ _ _ Eu) Hc).
Qed.

(* ------------------------------------------------------------------ records of every value type *)
(* what one record does: an element of a vector updates the buffer; every other signal is handed to the store directly -
   std_logic / bit scalars and 8-bit enumerations as one symbol, integers as the 64-bit two's complement of the signed
   LEB128 number (big endian, 2-state), reals as the 8 bytes of the IEEE double *)
Inductive eff :=
| EUpd (vid si : nat) (value : N)
| ERaw (ref : nat) (data : list byte) (st : states)
| EReal (ref : nat) (le : list byte).

Fixpoint run_effs (vb : vec_buffer) (e : encoder) (effs : list eff) : outcome (vec_buffer * encoder) :=
  match effs with
  | [] => Ok (vb, e)
  | EUpd vid si value :: r =>
    do v <- of_option (nth_error (vb_vecs vb) vid);
    do '(vb', e') <- vec_update vb e vid si value (ve_ref v) (ve_states v);
    run_effs vb' e' r
  | ERaw ref data st :: r => do e' <- raw e ref data st; run_effs vb e' r
  | EReal ref le :: r => do e' <- real_change e ref le; run_effs vb e' r
  end.

(* a record's payload and what it denotes for a signal of the given decode information *)
Definition payload_eff (info : ghw_sig) (si : nat) (payload : list byte) : option eff :=
  match gs_tpe info, payload with
  | GNine, [g] => option_map (fun v => ERaw (gs_ref info) [v] Nine) (nth_error std_logic_lut (N.to_nat g))
  | GTwo, [g] => if 1 <? g then None else Some (ERaw (gs_ref info) [g] Two)
  | GU8, [g] => Some (ERaw (gs_ref info) [g] Two)
  | (GNineVec | GTwoVec), [g] =>
      match gs_vec info, vec_value (gs_tpe info) g with
      | Some vid, Some (value, _) => Some (EUpd vid si value)
      | _, _ => None
      end
  | GLeb, _ => match sleb_read payload with
               | Some (z, []) => Some (ERaw (gs_ref info) (be_bytes 8 (u64_of_z z)) Two)
               | _ => None
               end
  | GF64, _ => if Nat.eqb (length payload) 8 then Some (EReal (gs_ref info) payload) else None
  | _, _ => None
  end.

(* the payload is self-delimiting: whatever follows, the reader consumes exactly it *)
Definition payload_ok (info : ghw_sig) (payload : list byte) : Prop :=
  match gs_tpe info with
  | GLeb => exists z, forall rest, sleb_read (payload ++ rest) = Some (z, rest)
  | _ => True
  end.

Lemma read_signal_value_payload sigs si info vb e payload rest ef :
  nth_error sigs si = Some info -> payload_eff info si payload = Some ef -> payload_ok info payload -> consistent sigs vb ->
  read_signal_value sigs si vb e (payload ++ rest)
  = match run_effs vb e [ef] with
    | Ok (vb', e') => Ok (Some (vb', e', rest))
    | Err => Err
    | Panic => Panic
    end.
Proof.
  intros Hi Hp Hok Hc. unfold read_signal_value. rewrite Hi. cbn [of_option bind]. unfold payload_eff in Hp. unfold byte in *.
  destruct (gs_tpe info) eqn:Et.
  - (* GNine *) destruct payload as [|g [|x y]]; try discriminate. cbn [app].
    destruct (nth_error std_logic_lut (N.to_nat g)) as [v|]; [|discriminate]. injection Hp as <-.
    cbn [of_option bind run_effs]. destruct (raw e (gs_ref info) [v] Nine); cbn [bind]; reflexivity.
  - (* GNineVec *) destruct payload as [|g [|x y]]; try discriminate. cbn [app].
    destruct (gs_vec info) as [vid|] eqn:Ev; [|discriminate].
    destruct (vec_value GNineVec g) as [[value st]|] eqn:Eval; [|discriminate]. injection Hp as <-.
    rewrite <- Et in Eval. destruct (Hc si info vid Hi Ev g value st Eval) as (v & Hv & Href & Hst).
    cbn [run_effs]. rewrite Hv. cbn [of_option bind]. rewrite Href, Hst.
    rewrite Et in Eval. unfold vec_value in Eval.
    destruct (nth_error std_logic_lut (N.to_nat g)) as [v0|]; [|discriminate]. cbn in Eval. injection Eval as <- <-.
    cbn [of_option bind].
    destruct (vec_update vb e vid si v0 (gs_ref info) Nine) as [[vb1 e1]| |]; cbn [bind]; reflexivity.
  - (* GTwo *) destruct payload as [|g [|x y]]; try discriminate. cbn [app].
    destruct (1 <? g); [discriminate|]. injection Hp as <-. cbn [run_effs bind].
    destruct (raw e (gs_ref info) [g] Two); cbn [bind]; reflexivity.
  - (* GTwoVec *) destruct payload as [|g [|x y]]; try discriminate. cbn [app].
    destruct (gs_vec info) as [vid|] eqn:Ev; [|discriminate].
    destruct (vec_value GTwoVec g) as [[value st]|] eqn:Eval; [|discriminate]. injection Hp as <-.
    rewrite <- Et in Eval. destruct (Hc si info vid Hi Ev g value st Eval) as (v & Hv & Href & Hst).
    cbn [run_effs]. rewrite Hv. cbn [of_option bind]. rewrite Href, Hst.
    rewrite Et in Eval. unfold vec_value in Eval. destruct (1 <? g); [discriminate|]. injection Eval as <- <-.
    cbn [of_option bind].
    destruct (vec_update vb e vid si g (gs_ref info) Two) as [[vb1 e1]| |]; cbn [bind]; reflexivity.
  - (* GU8 *) destruct payload as [|g [|x y]]; try discriminate. cbn [app]. injection Hp as <-. cbn [run_effs bind].
    destruct (raw e (gs_ref info) [g] Two); cbn [bind]; reflexivity.
  - (* GLeb *) unfold payload_ok in Hok. rewrite Et in Hok. destruct Hok as (z & Hz). unfold byte in *.
    pose proof (Hz []) as H0. rewrite app_nil_r in H0. rewrite H0 in Hp.
    rewrite (Hz rest). remember (be_bytes 8 (u64_of_z z)) as data eqn:Edata. injection Hp as <-.
    cbn [run_effs bind]. destruct (raw e (gs_ref info) data Two); cbn [bind]; reflexivity.
  - (* GF64 *) destruct (Nat.eqb (length payload) 8) eqn:El; [|discriminate]. injection Hp as <-. apply Nat.eqb_eq in El.
    assert (Hlt : (length (payload ++ rest) <? 8)%nat = false) by (apply Nat.ltb_ge; rewrite app_length; lia).
    rewrite Hlt.
    assert (Hf : firstn 8 (payload ++ rest) = payload).
    { rewrite <- El. rewrite firstn_app, Nat.sub_diag. cbn [firstn]. rewrite app_nil_r. apply firstn_all. }
    assert (Hs : skipn 8 (payload ++ rest) = rest).
    { rewrite <- El. rewrite skipn_app, Nat.sub_diag, skipn_all. reflexivity. }
    rewrite Hf, Hs. cbn [run_effs bind]. destruct (real_change e (gs_ref info) payload); cbn [bind]; reflexivity.
Qed.

(* the records of a cycle in general: (distance, payload) *)
Definition grec_bytes (r : N * list byte) : list byte := leb_write (fst r) ++ snd r.

Fixpoint effs_of (sigs : list ghw_sig) (pos : N) (rs : list (N * list byte)) : option (list eff) :=
  match rs with
  | [] => Some []
  | (delta, payload) :: r =>
    let pos' := pos + delta in
    match nth_error sigs (N.to_nat (pos' - 1)) with
    | Some info =>
      match payload_eff info (N.to_nat (pos' - 1)) payload, effs_of sigs pos' r with
      | Some ef, Some s => if Nat.eqb 0 0 then Some (ef :: s) else None
      | _, _ => None
      end
    | None => None
    end
  end.

Fixpoint grecs_ok (sigs : list ghw_sig) (pos : N) (rs : list (N * list byte)) : Prop :=
  match rs with
  | [] => True
  | (delta, payload) :: r =>
    1 <= delta /\ pos + delta < 4294967296 /\
    (forall info, nth_error sigs (N.to_nat (pos + delta - 1)) = Some info -> payload_ok info payload) /\
    grecs_ok sigs (pos + delta) r
  end.

Lemma run_effs_cons vb e ef r :
  run_effs vb e (ef :: r) = match run_effs vb e [ef] with Ok (vb', e') => run_effs vb' e' r | Err => Err | Panic => Panic end.
Proof.
  destruct ef as [vid si value|ref data st|ref le]; cbn [run_effs].
  - destruct (nth_error (vb_vecs vb) vid) as [v|]; cbn [of_option bind]; [|reflexivity].
    destruct (vec_update vb e vid si value (ve_ref v) (ve_states v)) as [[vb1 e1]| |]; reflexivity.
  - destruct (raw e ref data st); reflexivity.
  - destruct (real_change e ref le); reflexivity.
Qed.

Lemma run_effs_one_keys vb e ef vb' e' : run_effs vb e [ef] = Ok (vb', e') -> vkeys vb' = vkeys vb.
Proof.
  destruct ef as [vid si value|ref data st|ref le]; cbn [run_effs]; intros H.
  - destruct (nth_error (vb_vecs vb) vid) as [v|]; cbn [of_option bind] in H; [|discriminate].
    destruct (vec_update vb e vid si value (ve_ref v) (ve_states v)) as [[vb1 e1]| |] eqn:Eu; cbn [bind] in H; try discriminate.
    injection H as <- <-. exact (vec_update_keys _ _ _ _ _ _ _ _ _ Eu).
  - destruct (raw e ref data st); cbn [bind] in H; try discriminate. injection H as <- <-. reflexivity.
  - destruct (real_change e ref le); cbn [bind] in H; try discriminate. injection H as <- <-. reflexivity.
Qed.

(* the value part of any cycle: the records are carried out one after the other, in file order *)
Theorem cycle_signals_records sigs : forall rs pos vb e rest effs fuel,
  effs_of sigs pos rs = Some effs -> grecs_ok sigs pos rs -> consistent sigs vb -> (length rs < fuel)%nat ->
  cycle_signals fuel sigs pos vb e (concat (map grec_bytes rs) ++ 0 :: rest)
  = match run_effs vb e effs with
    | Ok (vb', e') => Ok (Some (vb', e', rest))
    | Err => Err
    | Panic => Panic
    end.
Proof.
  induction rs as [|[delta payload] r IH]; intros pos vb e rest effs fuel Hs Hok Hc Hf.
  - cbn in Hs. injection Hs as <-. destruct fuel as [|f]; [cbn in Hf; lia|].
    cbn [map concat app cycle_signals run_effs].
    change (0 :: rest) with (leb_write 0 ++ rest). rewrite leb_roundtrip by lia. reflexivity.
  - cbn [effs_of] in Hs. cbn [grecs_ok] in Hok. destruct Hok as (Hd & Hp & Hpay & Hok).
    destruct (nth_error sigs (N.to_nat (pos + delta - 1))) as [info|] eqn:Ei; [|discriminate].
    destruct (payload_eff info (N.to_nat (pos + delta - 1)) payload) as [ef|] eqn:Ee; [|discriminate].
    destruct (effs_of sigs (pos + delta) r) as [s|] eqn:Er; [|discriminate]. cbn [Nat.eqb] in Hs. injection Hs as <-.
    destruct fuel as [|f]; [cbn in Hf; lia|]. cbn [length] in Hf.
    cbn [map concat cycle_signals]. unfold grec_bytes at 1. cbn [fst snd]. rewrite <- !app_assoc.
    rewrite leb_roundtrip by lia.
    replace (delta =? 0) with false by (symmetry; apply N.eqb_neq; lia).
    replace (18446744073709551616 <=? pos + delta) with false by (symmetry; apply N.leb_gt; lia).
    rewrite (N.mod_small (pos + delta) 4294967296) by lia.
    replace (pos + delta =? 0) with false by (symmetry; apply N.eqb_neq; lia).
    assert (Hlen : (N.to_nat (pos + delta - 1) < length sigs)%nat) by (apply nth_error_Some; rewrite Ei; discriminate).
    replace (N.of_nat (length sigs) <=? pos + delta - 1) with false by (symmetry; apply N.leb_gt; lia).
    rewrite (read_signal_value_payload sigs _ info vb e payload _ ef Ei Ee (Hpay info eq_refl) Hc).
    rewrite (run_effs_cons vb e ef s).
    destruct (run_effs vb e [ef]) as [[vb1 e1]| |] eqn:E1; cbn [bind]; [|reflexivity..].
    apply (IH (pos + delta) vb1 e1 rest s f Er Hok); [|lia].
    exact (consistent_keys sigs vb vb1 (run_effs_one_keys _ _ _ _ _ E1) Hc).
Qed.

(* ------------------------------------------------------------------ a whole cycle section, records of every type *)
Record gcyc := mk_gcyc { gc_recs : list (N * list byte); gc_dt_bytes : list byte; gc_dt : Z }.
Definition gcyc_bytes (c : gcyc) : list byte := concat (map grec_bytes (gc_recs c)) ++ 0 :: gc_dt_bytes c.
Definition gdt_ok (c : gcyc) : Prop := forall rest, sleb_read (gc_dt_bytes c ++ rest) = Some (gc_dt c, rest).

(* the abstract run: per cycle its time stamp, its records in file order, the end of the time step; the distance to the next
   time; a negative distance ends the section *)
Fixpoint run_cycles (lz_compress : list byte -> list byte) (cap : N) (sigs : list ghw_sig) (time : N) (vb : vec_buffer)
                    (e : encoder) (cs : list gcyc) : outcome (option (vec_buffer * encoder)) :=
  match cs with
  | [] => Ok None
  | c :: r =>
    match effs_of sigs 0 (gc_recs c) with
    | None => Ok None
    | Some effs =>
      do e1 <- time_change lz_compress cap e time;
      do '(vb1, e2) <- run_effs vb e1 effs;
      do '(vb3, e3) <- finish_time_step vb1 e2;
      if (gc_dt c <? 0)%Z then Ok (Some (vb3, e3))
      else run_cycles lz_compress cap sigs (u64_wrap (time + Z.to_N (gc_dt c))) vb3 e3 r
    end
  end.

Lemma run_effs_keys : forall effs vb e vb' e', run_effs vb e effs = Ok (vb', e') -> vkeys vb' = vkeys vb.
Proof.
  induction effs as [|ef r IH]; intros vb e vb' e' H; [cbn in H; injection H as <- <-; reflexivity|].
  rewrite run_effs_cons in H. destruct (run_effs vb e [ef]) as [[vb1 e1]| |] eqn:E1; try discriminate.
  rewrite (IH _ _ _ _ H). exact (run_effs_one_keys _ _ _ _ _ E1).
Qed.

Lemma process_changed_keys : forall cl vecs e vecs' e',
  process_changed vecs cl e = Ok (vecs', e') -> map (fun v => (ve_ref v, ve_states v)) vecs' = map (fun v => (ve_ref v, ve_states v)) vecs.
Proof.
  induction cl as [|id r IH]; intros vecs e vecs' e' H; cbn [process_changed] in H; [injection H as <- <-; reflexivity|].
  destruct (nth_error vecs id) as [v|] eqn:Ev; cbn [of_option bind] in H; [|discriminate].
  destruct (ve_signal_change v).
  - destruct (raw e (ve_ref v) (ve_data v) (ve_states v)) as [e1| |]; cbn [bind] in H; try discriminate.
    rewrite (IH _ _ _ _ H). apply (map_update_same (fun v => (ve_ref v, ve_states v)) _ id _ v Ev). reflexivity.
  - exact (IH _ _ _ _ H).
Qed.

Lemma finish_keys vb e vb' e' : finish_time_step vb e = Ok (vb', e') -> vkeys vb' = vkeys vb.
Proof.
  unfold finish_time_step. intros H.
  destruct (process_changed (vb_vecs vb) (vb_change_list vb) e) as [[vecs e1]| |] eqn:E; cbn [bind] in H; try discriminate.
  injection H as <- <-. unfold vkeys. cbn [vb_vecs]. exact (process_changed_keys _ _ _ _ _ E).
Qed.

Lemma grec_bytes_length rs : (length rs <= length (concat (map grec_bytes rs)))%nat.
Proof.
  induction rs as [|[d p] rs IH]; cbn [map concat length]; [lia|]. rewrite app_length. unfold grec_bytes at 1. cbn [fst snd].
  rewrite app_length. assert (1 <= length (leb_write d))%nat.
  { unfold leb_write. cbn [leb_write_fuel]. destruct (d / 128 =? 0); cbn [length]; lia. }
  lia.
Qed.

Theorem cycle_loop_records lz_compress cap sigs : forall cs time vb e rest fuel,
  cs <> [] -> Forall gdt_ok cs -> Forall (fun c => grecs_ok sigs 0 (gc_recs c) /\ effs_of sigs 0 (gc_recs c) <> None) cs ->
  (forall c, In c (removelast cs) -> (0 <= gc_dt c)%Z) -> (gc_dt (last cs (mk_gcyc [] [] 0)) < 0)%Z ->
  consistent sigs vb -> (length cs <= fuel)%nat ->
  cycle_loop lz_compress cap fuel sigs time vb e (concat (map gcyc_bytes cs) ++ rest)
  = match run_cycles lz_compress cap sigs time vb e cs with
    | Ok (Some (vb', e')) => Ok (Some (vb', e', rest))
    | Ok None => Ok None
    | Err => Err
    | Panic => Panic
    end.
Proof.
  induction cs as [|c cs IH]; intros time vb e rest fuel Hne Hdt Hrecs Hpos Hlast Hc Hf; [now elim Hne|].
  destruct fuel as [|f]; [cbn in Hf; lia|]. cbn [length] in Hf.
  apply Forall_cons_iff in Hdt as [Hdt0 Hdt]. apply Forall_cons_iff in Hrecs as [[Hok0 Heff] Hrecs].
  cbn [map concat cycle_loop run_cycles].
  destruct (effs_of sigs 0 (gc_recs c)) as [effs|] eqn:Ee; [|now elim Heff].
  destruct (time_change lz_compress cap e time) as [e1| |]; cbn [bind]; [|reflexivity..].
  change (gcyc_bytes c) with (concat (map grec_bytes (gc_recs c)) ++ 0 :: gc_dt_bytes c). rewrite <- !app_assoc. cbn [app].
  rewrite (cycle_signals_records sigs (gc_recs c) 0 vb e1 (gc_dt_bytes c ++ concat (map gcyc_bytes cs) ++ rest) effs _ Ee Hok0 Hc)
    by (rewrite app_length; pose proof (grec_bytes_length (gc_recs c)); lia).
  destruct (run_effs vb e1 effs) as [[vb1 e2]| |] eqn:Er; cbn [bind]; [|reflexivity..].
  destruct (finish_time_step vb1 e2) as [[vb3 e3]| |] eqn:Efin; cbn [bind]; [|reflexivity..].
  rewrite (Hdt0 _).
  destruct (gc_dt c <? 0)%Z eqn:Edt.
  - (* the last cycle *)
    destruct cs as [|c2 cs2]; [cbn [map concat app]; reflexivity|].
    exfalso. apply Z.ltb_lt in Edt. assert (0 <= gc_dt c)%Z by (apply Hpos; cbn [removelast]; now left). lia.
  - destruct cs as [|c2 cs2]; [cbn [last] in Hlast; apply Z.ltb_ge in Edt; lia|].
    apply (IH _ vb3 e3 rest f ltac:(discriminate) Hdt Hrecs); [| | |lia].
    + intros c0 Hin. apply Hpos. cbn [removelast] in Hin |- *. now right.
    + exact Hlast.
    + apply (consistent_keys sigs vb vb3); [|exact Hc]. rewrite (finish_keys _ _ _ _ Efin). exact (run_effs_keys _ _ _ _ _ Er).
Qed.

(* ------------------------------------------------------------------ a cycle section inside the sequence of sections *)
(* `CYC\0`, the 8 bytes of the first time, the cycles, `ECY\0`: the section reader runs the cycles and goes on with what
   follows the end mark *)
Theorem section_cycles lz_compress cap be sigs cs t8 vb e rest f :
  length t8 = 8%nat ->
  cs <> [] -> Forall gdt_ok cs -> Forall (fun c => grecs_ok sigs 0 (gc_recs c) /\ effs_of sigs 0 (gc_recs c) <> None) cs ->
  (forall c, In c (removelast cs) -> (0 <= gc_dt c)%Z) -> (gc_dt (last cs (mk_gcyc [] [] 0)) < 0)%Z ->
  consistent sigs vb ->
  sections lz_compress cap (S f) be sigs vb e (CYC ++ t8 ++ concat (map gcyc_bytes cs) ++ ECY ++ rest)
  = match run_cycles lz_compress cap sigs (read_int be t8) vb e cs with
    | Ok (Some (vb', e')) => sections lz_compress cap f be sigs vb' e' rest
    | Ok None => Ok None
    | Err => Err
    | Panic => Panic
    end.
Proof.
  intros Ht Hne Hdt Hrecs Hpos Hlast Hc.
  destruct t8 as [|a0 [|a1 [|a2 [|a3 [|a4 [|a5 [|a6 [|a7 [|x y]]]]]]]]]; try discriminate.
  set (body := concat (map gcyc_bytes cs) ++ ECY ++ rest).
  unfold CYC, ghw_cycle_section. cbn [app sections length firstn skipn Nat.ltb Nat.leb].
  cbn [mark_eq list_eqb]. unfold SNP, ghw_snapshot_section. cbn [list_eqb N.eqb Pos.eqb andb].
  unfold CYC, ghw_cycle_section. cbn [list_eqb N.eqb Pos.eqb andb].
  fold body.
  pose (R := match run_cycles lz_compress cap sigs (read_int be [a0; a1; a2; a3; a4; a5; a6; a7]) vb e cs with
             | Ok (Some (vb', e')) => Ok (Some (vb', e', ECY ++ rest))
             | Ok None => Ok None | Err => Err | Panic => Panic end).
  assert (Hcl : cycle_loop lz_compress cap (S (S (S (S (S (S (S (S (S (length body)))))))))) sigs
                  (read_int be [a0; a1; a2; a3; a4; a5; a6; a7]) vb e body = R).
  { unfold body, R. apply (cycle_loop_records lz_compress cap sigs cs _ vb e (ECY ++ rest) _ Hne Hdt Hrecs Hpos Hlast Hc).
    rewrite app_length.
    assert (length cs <= length (concat (map gcyc_bytes cs)))%nat.
    { clear. induction cs as [|c r IH]; cbn [map concat length]; [lia|]. rewrite app_length. unfold gcyc_bytes at 1.
      rewrite app_length. cbn [length]. lia. }
    lia. }
  rewrite Hcl. unfold R.
  destruct (run_cycles lz_compress cap sigs (read_int be [a0; a1; a2; a3; a4; a5; a6; a7]) vb e cs) as [[[vb' e']|]| |]; cbn [bind]; try reflexivity.
Qed.

(* ------------------------------------------------------------------ the snapshot section, signals of every type *)
Fixpoint snap_effs (sigs : list ghw_sig) (idx : nat) (ps : list (list byte)) : option (list eff) :=
  match ps with
  | [] => Some []
  | p :: r =>
    match nth_error sigs idx with
    | Some info =>
      match payload_eff info idx p, snap_effs sigs (S idx) r with
      | Some ef, Some s => Some (ef :: s)
      | _, _ => None
      end
    | None => None
    end
  end.

Fixpoint snap_ok (sigs : list ghw_sig) (idx : nat) (ps : list (list byte)) : Prop :=
  match ps with
  | [] => True
  | p :: r => (forall info, nth_error sigs idx = Some info -> payload_ok info p) /\ snap_ok sigs (S idx) r
  end.

Theorem snapshot_records sigs : forall ps idx vb e rest effs,
  snap_effs sigs idx ps = Some effs -> snap_ok sigs idx ps -> consistent sigs vb ->
  snapshot_signals sigs (length ps) idx vb e (concat ps ++ rest)
  = match run_effs vb e effs with
    | Ok (vb', e') => Ok (Some (vb', e', rest))
    | Err => Err
    | Panic => Panic
    end.
Proof.
  induction ps as [|p r IH]; intros idx vb e rest effs Hs Hok Hc.
  - cbn in Hs. injection Hs as <-. reflexivity.
  - cbn [snap_effs] in Hs. cbn [snap_ok] in Hok. destruct Hok as [Hp Hok].
    destruct (nth_error sigs idx) as [info|] eqn:Ei; [|discriminate].
    destruct (payload_eff info idx p) as [ef|] eqn:Ee; [|discriminate].
    destruct (snap_effs sigs (S idx) r) as [s|] eqn:Er; [|discriminate]. injection Hs as <-.
    cbn [length snapshot_signals concat]. rewrite <- app_assoc.
    rewrite (read_signal_value_payload sigs idx info vb e p _ ef Ei Ee (Hp info eq_refl) Hc).
    rewrite (run_effs_cons vb e ef s).
    destruct (run_effs vb e [ef]) as [[vb1 e1]| |] eqn:E1; cbn [bind]; [|reflexivity..].
    apply (IH (S idx) vb1 e1 rest s Er Hok). exact (consistent_keys sigs vb vb1 (run_effs_one_keys _ _ _ _ _ E1) Hc).
Qed.

(* `SNP\0`, four zero bytes, the 8 bytes of the time, one value per signal in signal order, `ESN\0` *)
Theorem section_snapshot lz_compress cap be sigs ps t8 vb e rest f effs :
  length t8 = 8%nat -> length ps = length sigs ->
  snap_effs sigs 0 ps = Some effs -> snap_ok sigs 0 ps -> consistent sigs vb ->
  sections lz_compress cap (S f) be sigs vb e (SNP ++ [0; 0; 0; 0] ++ t8 ++ concat ps ++ ESN ++ rest)
  = do e1 <- time_change lz_compress cap e (read_int be t8);
    match run_effs vb e1 effs with
    | Ok (vb2, e2) => do '(vb3, e3) <- finish_time_step vb2 e2; sections lz_compress cap f be sigs vb3 e3 rest
    | Err => Err
    | Panic => Panic
    end.
Proof.
  intros Ht Hl Hs Hok Hc.
  destruct t8 as [|a0 [|a1 [|a2 [|a3 [|a4 [|a5 [|a6 [|a7 [|x y]]]]]]]]]; try discriminate.
  set (body := concat ps ++ ESN ++ rest).
  unfold SNP, ghw_snapshot_section. cbn [app sections length firstn skipn Nat.ltb Nat.leb].
  cbn [mark_eq list_eqb N.eqb Pos.eqb andb negb]. fold body.
  destruct (time_change lz_compress cap e (read_int be [a0; a1; a2; a3; a4; a5; a6; a7])) as [e1| |]; cbn [bind]; [|reflexivity..].
  rewrite <- Hl. unfold body. rewrite (snapshot_records sigs ps 0 vb e1 (ESN ++ rest) effs Hs Hok Hc).
  destruct (run_effs vb e1 effs) as [[vb2 e2]| |]; cbn [bind]; [|reflexivity..].
  destruct (finish_time_step vb2 e2) as [[vb3 e3]| |]; cbn [bind]; [|reflexivity..].
  unfold ESN, ghw_end_snapshot_section. cbn [app firstn skipn mark_eq list_eqb N.eqb Pos.eqb andb]. reflexivity.
Qed.

(* ------------------------------------------------------------------ the whole signal part of a file *)
Lemma run_cycles_keys lz_compress cap sigs : forall cs time vb e vb' e',
  run_cycles lz_compress cap sigs time vb e cs = Ok (Some (vb', e')) -> vkeys vb' = vkeys vb.
Proof.
  induction cs as [|c r IH]; intros time vb e vb' e' H; cbn [run_cycles] in H; [discriminate|].
  destruct (effs_of sigs 0 (gc_recs c)) as [effs|]; [|discriminate].
  destruct (time_change lz_compress cap e time) as [e1| |]; cbn [bind] in H; try discriminate.
  destruct (run_effs vb e1 effs) as [[vb1 e2]| |] eqn:Er; cbn [bind] in H; try discriminate.
  destruct (finish_time_step vb1 e2) as [[vb3 e3]| |] eqn:Ef; cbn [bind] in H; try discriminate.
  assert (Hk : vkeys vb3 = vkeys vb) by (rewrite (finish_keys _ _ _ _ Ef); exact (run_effs_keys _ _ _ _ _ Er)).
  destruct (gc_dt c <? 0)%Z; [injection H as <- <-; exact Hk|]. rewrite (IH _ _ _ _ _ H). exact Hk.
Qed.

(* a cycle section: the bytes of its first time and its cycles *)
Definition csec := (list byte * list gcyc)%type.
Definition csec_bytes (s : csec) : list byte := CYC ++ fst s ++ concat (map gcyc_bytes (snd s)) ++ ECY.
Definition csec_ok (sigs : list ghw_sig) (s : csec) : Prop :=
  length (fst s) = 8%nat /\ snd s <> [] /\ Forall gdt_ok (snd s) /\
  Forall (fun c => grecs_ok sigs 0 (gc_recs c) /\ effs_of sigs 0 (gc_recs c) <> None) (snd s) /\
  (forall c, In c (removelast (snd s)) -> (0 <= gc_dt c)%Z) /\ (gc_dt (last (snd s) (mk_gcyc [] [] 0)) < 0)%Z.

(* the abstract run of the cycle sections *)
Fixpoint run_sections (lz_compress : list byte -> list byte) (cap : N) (be : bool) (sigs : list ghw_sig)
                      (vb : vec_buffer) (e : encoder) (ss : list csec) : outcome (option (vec_buffer * encoder)) :=
  match ss with
  | [] => Ok (Some (vb, e))
  | s :: r =>
    do x <- run_cycles lz_compress cap sigs (read_int be (fst s)) vb e (snd s);
    match x with
    | Some (vb', e') => run_sections lz_compress cap be sigs vb' e' r
    | None => Ok None
    end
  end.

(* the directory and the tailer that end the file *)
Definition dir_tail_ok (be : bool) (dt : list byte) : Prop :=
  exists h4 nb entries tail junk,
    dt = DIR ++ h4 ++ nb ++ entries ++ EOD ++ TAI ++ tail ++ junk /\
    length h4 = 4%nat /\ length nb = 4%nat /\ read_int be nb < 2147483648 /\
    length entries = (N.to_nat (read_int be nb) * 8)%nat /\
    dir_entries_ok be (N.to_nat (read_int be nb)) (entries ++ EOD ++ TAI ++ tail ++ junk) = true /\ (8 <= length tail)%nat.

Lemma sections_tai lz_compress cap be sigs vb e tail junk f :
  (8 <= length tail)%nat -> sections lz_compress cap (S f) be sigs vb e (TAI ++ tail ++ junk) = Ok (Some e).
Proof.
  intros Ht. unfold TAI, ghw_tailer_section. cbn [app sections length firstn skipn Nat.ltb Nat.leb].
  cbn [mark_eq list_eqb N.eqb Pos.eqb andb negb].
  unfold SNP, ghw_snapshot_section, CYC, ghw_cycle_section, DIR, ghw_directory_section, TAI, ghw_tailer_section.
  cbn [list_eqb N.eqb Pos.eqb andb].
  match goal with |- context [(?a <=? 7)%nat] => destruct (Nat.leb_spec a 7) as [H|H] end;
    [rewrite app_length in H; lia|reflexivity].
Qed.

Lemma sections_dir_tail lz_compress cap be sigs vb e dt f :
  dir_tail_ok be dt -> sections lz_compress cap (S (S f)) be sigs vb e dt = Ok (Some e).
Proof.
  intros (h4 & nb & entries & tail & junk & -> & H4 & Hn & Hlt & Hle & Hde & Ht).
  destruct h4 as [|b0 [|b1 [|b2 [|b3 [|x y]]]]]; try discriminate.
  destruct nb as [|n0 [|n1 [|n2 [|n3 [|x y]]]]]; try discriminate.
  remember (read_int be [n0; n1; n2; n3]) as n eqn:En.
  remember (S f) as f1 eqn:Ef1.
  remember (entries ++ EOD ++ TAI ++ tail ++ junk) as body eqn:Eb.
  unfold DIR, ghw_directory_section. cbn [app sections length firstn skipn Nat.ltb Nat.leb].
  cbn [mark_eq list_eqb N.eqb Pos.eqb andb negb].
  unfold SNP, ghw_snapshot_section, CYC, ghw_cycle_section, DIR, ghw_directory_section. cbn [list_eqb N.eqb Pos.eqb andb].
  unfold byte in *. rewrite <- En.
  replace (2147483648 <=? n) with false by (symmetry; apply N.leb_gt; exact Hlt).
  assert (Hlb : N.of_nat (length body) <? n * 8 + 4 = false).
  { apply N.ltb_ge. rewrite Eb. rewrite !app_length. unfold EOD, ghw_end_directory_section. cbn [length]. lia. }
  rewrite Hlb, Hde. cbn [negb].
  assert (Hsk : skipn (N.to_nat n * 8) body = EOD ++ TAI ++ tail ++ junk).
  { rewrite Eb, <- Hle. rewrite skipn_app, Nat.sub_diag, skipn_all. reflexivity. }
  assert (Hsk4 : skipn (N.to_nat n * 8 + 4) body = TAI ++ tail ++ junk).
  { rewrite Eb, <- Hle. rewrite skipn_app. replace (length entries + 4 - length entries)%nat with 4%nat by lia.
    rewrite skipn_all2 by lia. unfold EOD, ghw_end_directory_section. reflexivity. }
  rewrite Hsk, Hsk4. unfold EOD, ghw_end_directory_section. cbn [app firstn mark_eq list_eqb N.eqb Pos.eqb andb].
  rewrite Ef1. exact (sections_tai lz_compress cap be sigs vb e tail junk f Ht).
Qed.

Lemma sections_cycles_all lz_compress cap be sigs : forall ss vb e dt f,
  Forall (csec_ok sigs) ss -> consistent sigs vb -> dir_tail_ok be dt -> (length ss + 2 <= f)%nat ->
  sections lz_compress cap f be sigs vb e (concat (map csec_bytes ss) ++ dt)
  = match run_sections lz_compress cap be sigs vb e ss with
    | Ok (Some (_, e')) => Ok (Some e')
    | Ok None => Ok None
    | Err => Err
    | Panic => Panic
    end.
Proof.
  induction ss as [|s r IH]; intros vb e dt f Hall Hc Hdt Hf.
  - cbn [map concat app run_sections]. destruct f as [|[|f]]; try (cbn in Hf; lia). exact (sections_dir_tail _ _ _ _ _ _ _ _ Hdt).
  - apply Forall_cons_iff in Hall as [(H8 & Hne & Hg & Hr & Hp & Hl) Hall].
    destruct f as [|f]; [cbn in Hf; lia|]. cbn [length] in Hf.
    cbn [map concat run_sections]. unfold csec_bytes at 1. rewrite <- !app_assoc.
    rewrite (section_cycles lz_compress cap be sigs (snd s) (fst s) vb e _ f H8 Hne Hg Hr Hp Hl Hc).
    destruct (run_cycles lz_compress cap sigs (read_int be (fst s)) vb e (snd s)) as [[[vb' e']|]| |] eqn:E; cbn [bind]; try reflexivity.
    apply (IH vb' e' dt f Hall); [|exact Hdt|lia].
    exact (consistent_keys sigs vb vb' (run_cycles_keys _ _ _ _ _ _ _ _ _ E) Hc).
Qed.

(* the signal part of a file - snapshot section, cycle sections, directory, tailer - is its abstract run: the snapshot's
   time stamp and values, the end of that step, then every cycle section's cycles *)
Theorem ghw_body_run lz_compress cap be sigs ps t8 effs ss dt vb e f :
  length t8 = 8%nat -> length ps = length sigs ->
  snap_effs sigs 0 ps = Some effs -> snap_ok sigs 0 ps -> consistent sigs vb ->
  Forall (csec_ok sigs) ss -> dir_tail_ok be dt -> (length ss + 3 <= f)%nat ->
  sections lz_compress cap f be sigs vb e
           (SNP ++ [0; 0; 0; 0] ++ t8 ++ concat ps ++ ESN ++ concat (map csec_bytes ss) ++ dt)
  = do e1 <- time_change lz_compress cap e (read_int be t8);
    do '(vb2, e2) <- run_effs vb e1 effs;
    do '(vb3, e3) <- finish_time_step vb2 e2;
    match run_sections lz_compress cap be sigs vb3 e3 ss with
    | Ok (Some (_, e')) => Ok (Some e')
    | Ok None => Ok None
    | Err => Err
    | Panic => Panic
    end.
Proof.
  intros Ht Hl Hs Hok Hc Hall Hdt Hf. destruct f as [|f]; [lia|].
  rewrite (section_snapshot lz_compress cap be sigs ps t8 vb e _ f effs Ht Hl Hs Hok Hc).
  destruct (time_change lz_compress cap e (read_int be t8)) as [e1| |]; cbn [bind]; [|reflexivity..].
  destruct (run_effs vb e1 effs) as [[vb2 e2]| |] eqn:Er; cbn [bind]; [|reflexivity..].
  destruct (finish_time_step vb2 e2) as [[vb3 e3]| |] eqn:Ef; cbn [bind]; [|reflexivity..].
  apply (sections_cycles_all lz_compress cap be sigs ss vb3 e3 dt f Hall); [|exact Hdt|lia].
  apply (consistent_keys sigs vb vb3); [|exact Hc]. rewrite (finish_keys _ _ _ _ Ef). exact (run_effs_keys _ _ _ _ _ Er).
Qed.

(* non-vacuity of ghw_body_run: one std_logic signal and one integer; snapshot values '0' (byte 2) and 5; one cycle section
   whose only cycle sets the std_logic to '1' (distance 1, byte 3) and the integer to -2 (distance 1, signed LEB128 7e);
   an empty directory; a tailer *)
Example ghw_body_example :
  let sigs := [mk_gs GNine 0%nat None; mk_gs GLeb 1%nat None] in
  let ps := [[2]; [5]] in
  let c := mk_gcyc [(1, [3]); (1, [126])] [127] (-1)%Z in
  let ss : list csec := [([10; 0; 0; 0; 0; 0; 0; 0], [c])] in
  let dt := DIR ++ [0; 0; 0; 0] ++ [0; 0; 0; 0] ++ [] ++ EOD ++ TAI ++ [0; 0; 0; 0; 0; 0; 0; 0] ++ [] in
  (exists effs, snap_effs sigs 0 ps = Some effs) /\ snap_ok sigs 0 ps /\ Forall (csec_ok sigs) ss /\ dir_tail_ok false dt /\
  consistent sigs (mk_vb [] []).
Proof.
  cbn zeta. split; [eexists; vm_compute; reflexivity|]. split.
  { cbn [snap_ok]. split; [|split; [|exact I]].
    - intros info H. injection H as <-. exact I.
    - intros info H. injection H as <-. cbn [payload_ok gs_tpe]. exists 5%Z. intros rest. reflexivity. }
  split.
  { constructor; [|constructor]. unfold csec_ok. cbn [fst snd]. split; [reflexivity|]. split; [discriminate|].
    split.
    { constructor; [|constructor]. intros rest. reflexivity. }
    split.
    { constructor; [|constructor]. cbn [gc_recs]. split; [|vm_compute; discriminate].
      cbn [grecs_ok]. split; [lia|]. split; [lia|]. split.
      - intros info H. vm_compute in H. injection H as <-. exact I.
      - split; [lia|]. split; [lia|]. split; [|exact I].
        intros info H. vm_compute in H. injection H as <-. cbn [payload_ok gs_tpe]. exists (-2)%Z. intros rest. reflexivity. }
    split; [intros c0 []|cbn; lia]. }
  split.
  { exists [0; 0; 0; 0], [0; 0; 0; 0], [], [0; 0; 0; 0; 0; 0; 0; 0], []. repeat split; try reflexivity; cbn; lia. }
  intros idx info vid Hi Hv. apply nth_error_In in Hi. destruct Hi as [<-|[<-|[]]]; discriminate.
Qed.
