(* Property C03: multi-threaded VCD loading equals single-threaded loading.
   Pinned: (0) read_values_mt_equals_st: for every body written one token group per line (time stamp, scalar change,
   vector/real/string change, $comment ... $end, $dumpvars/$end/$dumpoff/$dumpon, each followed by a newline; any content
   the grammar of TokenProofs.line_ok admits) whose time stamps - the implicit time 0 of changes in front of the first time
   stamp included - increase, for every
   max_threads and min_chunk, the model of read_values' multi-threaded branch (determine_thread_chunks, one run_chunk per
   chunk, Encoder::append in chunk order, finish) and the model of its single-threaded branch produce stores from which
   every bit-vector signal (and, _rs, every real and string signal) reports the same changes and the time tables are equal - although the blocks differ.  The steps: thread_first/thread_later
   (which lines a thread started at an arbitrary byte offset parses: from the first line start after its offset to the
   first time stamp line starting beyond its end), ops_tile (these pieces tile the sequential operation list without gap
   or overlap), rec_concat (the recordings of the pieces, shifted by the time stamps before them, are the recording of
   the whole), appended_transparent (what the appended stores report).
   (1) the parser side of the hand-over for arbitrary layouts (handover_segment, chunk_simulates): a parser thread started in the
   middle of the body skips to the next line start and then emits - until its stop rule fires - exactly the events
   the sequential parser emits from that line start on, provided the sequential parser is between tokens there;
   no token is split, altered or invented at a seam.  (2) the storage side (appended_transparent for bit vectors, appended_transparent_rs for reals
   and strings): whatever the per-thread encoders recorded is reported in chunk order with shifted time indices, de-duplicated across seams.
   read_values_mt_equals_st_rs / mt_equals_st_rs: the same for real-valued and string-valued variables.
   NOT proved: (0) for layouts other than one token group per line (several changes per line, indented lines); for
   those the tiling is decided by the correspondence run and the oracle.  The hypotheses "time stamps increase (no `#0`
   after changes at the implicit time 0)", "a time stamp starts its line", "every line ends in a newline", "the loads
   succeed (the first chunk records a time step)" are exactly where the known findings D8/D15/D16 live
   (Proofs/HandoverRefuted.v). *)
From WV Require Import Model.Base Model.Bits Model.WaveMem Model.VcdBody Spec.TimeSpec Spec.StoreSpec
  Proofs.TimeTableProofs Proofs.StoreProofs Proofs.EncoderProofs Proofs.BodyProofs Proofs.HandoverProofs Proofs.RealStringEnc
  Proofs.VcdStreamProofs Proofs.TokenProofs Proofs.TilingProofs Proofs.MtProofs Proofs.MtRsProofs.
From Coq Require Import List Sorted. Import ListNotations.
Open Scope N_scope.

Check appended_transparent :
  forall (parse_f64 : list byte -> option (list byte)) (lz_compress : list byte -> list byte)
         (lz_decompress : list byte -> nat -> option (list byte)),
  (forall d n, (length d <= n)%nat -> lz_decompress (lz_compress d) n = Some d) ->
  forall cap, 1 <= cap -> cap <= 65536 -> forall id bits, (1 <= bits)%nat ->
  forall tpes (opss : list (list enc_op)) (encs : list encoder) first others e blocks ttb,
  nth_error tpes id = Some (EncBits bits) ->
  Forall2 (fun ops en => run_ops parse_f64 lz_compress cap (enc_new tpes) ops = Ok en) opss encs ->
  Forall (fun ops => Forall (op_ok id bits) ops /\ N.of_nat (count_vcd id ops) * (10 + N.of_nat bits) < 4294967264) opss ->
  encs = first :: others ->
  append_all lz_compress first others = Ok e ->
  enc_finish lz_compress e = Ok (blocks, ttb) -> N.of_nat (length ttb) < 4294967296 ->
  exists Rs sig,
    Forall2 (fun R ops => Forall2 (decodes bits) R (recorded id ops [] false)) Rs opss /\
    load_signal lz_decompress blocks id (EncBits bits) = Ok sig /\
    observe_signal sig
    = outcome_map render_of
        (dedup (cat_shift (combine Rs (map (fun ops => N.of_nat (length (accepted (times_of ops)))) opss)) 0)).

Check handover_segment :
  forall debug stop_c (pre suf : list byte) (c : nat) s0 nolf,
  (c < length pre)%nat -> skipn c pre = nolf ++ [10] -> ~ In 10 nolf ->
  run_bytes debug (N.of_nat (length (pre ++ suf))) pre init_state = Running s0 ->
  ps_state s0 = ParsingFirstToken -> ps_first s0 = [] ->
  exists more,
    fst (parse_body debug (pre ++ suf) (N.of_nat (length (pre ++ suf))))
    = rev (ps_acc s0) ++ fst (parse_body debug (skipn c (pre ++ suf)) stop_c) ++ more.

Check chunk_simulates :
  forall debug stop_c stop_s d A bytes sc ss,
  related d A sc ss -> no_underflow sc ->
  ps_pos ss + N.of_nat (length bytes) <= stop_s + 1 ->
  exists more, HandoverProofs.events_of debug (run_bytes debug stop_s bytes ss)
               = rev A ++ HandoverProofs.events_of debug (run_bytes debug stop_c bytes sc) ++ more.

Check run_bytes_app :
  forall debug stop_pos a b s,
  run_bytes debug stop_pos (a ++ b) s
  = match run_bytes debug stop_pos a s with
    | Finished r => Finished r
    | Running s' => run_bytes debug stop_pos b s'
    end.

Check appended_transparent_rs :
  forall (parse_f64 : list byte -> option (list byte)),
  (forall r le, parse_f64 r = Some le -> length le = 8%nat) ->
  forall (lz_compress : list byte -> list byte) (lz_decompress : list byte -> nat -> option (list byte)),
  (forall d n, (length d <= n)%nat -> lz_decompress (lz_compress d) n = Some d) ->
  forall cap, 1 <= cap -> cap <= 65536 -> forall id str tpes
         (opss : list (list enc_op)) (encs : list encoder) first others e blocks ttb,
  nth_error tpes id = Some (rs_tpe str) ->
  Forall2 (fun ops en => run_ops parse_f64 lz_compress cap (enc_new tpes) ops = Ok en) opss encs ->
  Forall (fun ops => Forall (rs_op_ok id str) ops /\ ops_cost id ops < 4294967264) opss ->
  encs = first :: others ->
  append_all lz_compress first others = Ok e ->
  enc_finish lz_compress e = Ok (blocks, ttb) -> N.of_nat (length ttb) < 4294967296 ->
  exists Rs sig,
    Forall2 (fun R ops => Forall2 (gdecodes parse_f64 str) R (recorded_rs id ops [] false)) Rs opss /\
    load_signal lz_decompress blocks id (rs_tpe str) = Ok sig /\
    observe_signal sig
    = Ok (map (fun a : N * list byte => (fst a, if str then KString else KReal, snd a))
              (gdedup (gcat_shift (combine Rs (map (fun ops => N.of_nat (length (accepted (times_of ops)))) opss)) 0))).


Check read_values_mt_equals_st :
  forall (parse_f64 : list byte -> option (list byte)) (lz_compress : list byte -> list byte)
         (lz_decompress : list byte -> nat -> option (list byte)),
  (forall d n, (length d <= n)%nat -> lz_decompress (lz_compress d) n = Some d) ->
  forall cap, 1 <= cap -> cap <= 65536 ->
  forall debug tpes lookup ls max_threads min_chunk b_st t_st b_mt t_mt id bits,
  Forall line_ok ls -> (1 <= bits)%nat -> nth_error tpes id = Some (EncBits bits) ->
  read_values_st parse_f64 lz_compress cap debug tpes lookup (body ls) = Ok (b_st, t_st) -> N.of_nat (length t_st) < 4294967296 ->
  read_values_mt parse_f64 lz_compress cap debug tpes lookup (body ls) max_threads min_chunk = Ok (b_mt, t_mt) ->
  N.of_nat (length t_mt) < 4294967296 ->
  (forall ops, ops_of lookup true false (evs ls) = Some ops ->
     StronglySorted N.lt (times_of ops) /\ N.of_nat (count_vcd id ops) * (10 + N.of_nat bits) < 4294967264) ->
  exists s_st s_mt,
    load_signal lz_decompress b_st id (EncBits bits) = Ok s_st /\
    load_signal lz_decompress b_mt id (EncBits bits) = Ok s_mt /\
    observe_signal s_st = observe_signal s_mt /\ t_st = t_mt.

Check mt_equals_st :
  forall (parse_f64 : list byte -> option (list byte)) (lz_compress : list byte -> list byte)
         (lz_decompress : list byte -> nat -> option (list byte)),
  (forall d n, (length d <= n)%nat -> lz_decompress (lz_compress d) n = Some d) ->
  forall cap, 1 <= cap -> cap <= 65536 ->
  forall debug tpes lookup ls len0 rest stop_st e_st b_st t_st encs first others e_mt b_mt t_mt id bits,
  Forall line_ok ls ->
  contig 0 ((0%nat, len0) :: rest) -> (length (body ls) <= end_of 0 ((0%nat, len0) :: rest))%nat ->
  (1 <= bits)%nat -> nth_error tpes id = Some (EncBits bits) ->
  N.of_nat (length (body ls)) <= stop_st + 1 ->
  read_single_stream parse_f64 lz_compress cap debug tpes lookup (body ls) stop_st true = Ok e_st ->
  enc_finish lz_compress e_st = Ok (b_st, t_st) -> N.of_nat (length t_st) < 4294967296 ->
  Forall2 (fun c en => run_chunk parse_f64 lz_compress cap debug tpes lookup (body ls) c = Ok en) ((0%nat, len0) :: rest) encs ->
  encs = first :: others -> append_all lz_compress first others = Ok e_mt ->
  enc_finish lz_compress e_mt = Ok (b_mt, t_mt) -> N.of_nat (length t_mt) < 4294967296 ->
  (forall ops, ops_of lookup true false (evs ls) = Some ops ->
     StronglySorted N.lt (times_of ops) /\ N.of_nat (count_vcd id ops) * (10 + N.of_nat bits) < 4294967264) ->
  exists s_st s_mt,
    load_signal lz_decompress b_st id (EncBits bits) = Ok s_st /\
    load_signal lz_decompress b_mt id (EncBits bits) = Ok s_mt /\
    observe_signal s_st = observe_signal s_mt /\ t_st = t_mt.

Check ops_tile :
  forall lookup ls len0 rest ops, Forall line_ok ls ->
  contig 0 ((0%nat, len0) :: rest) -> (length (body ls) <= end_of 0 ((0%nat, len0) :: rest))%nat ->
  ops_of lookup true false (evs ls) = Some ops ->
  exists opss, Forall2 (fun c o => thread_ops lookup ls c = Some o) ((0%nat, len0) :: rest) opss /\ ops = concat opss.

Check thread_first :
  forall debug ls len, Forall line_ok ls -> (1 <= len)%nat ->
  parse_body debug (body ls) (N.of_nat (len - 1)) = (flat_map TokenProofs.events_of (cutabs len 1 ls), PDone).

Check thread_later :
  forall debug ls s len, Forall line_ok ls -> (1 <= s)%nat -> (s <= length (body ls))%nat -> (1 <= len)%nat ->
  parse_body debug (skipn s (body ls)) (N.of_nat (len - 1))
  = (flat_map TokenProofs.events_of (cutabs (s + len) (snd (after s 1 ls)) (fst (after s 1 ls))), PDone).

Check chunks_shape :
  forall body_len max_threads min_chunk chunks, (1 <= body_len)%nat ->
  determine_thread_chunks body_len max_threads min_chunk = Ok chunks ->
  exists len0 rest, chunks = (0%nat, len0) :: rest /\ contig 0 chunks /\ (body_len <= end_of 0 chunks)%nat.


Check read_values_mt_equals_st_rs :
  forall (parse_f64 : list byte -> option (list byte)),
  (forall r le, parse_f64 r = Some le -> length le = 8%nat) ->
  forall (lz_compress : list byte -> list byte) (lz_decompress : list byte -> nat -> option (list byte)),
  (forall d n, (length d <= n)%nat -> lz_decompress (lz_compress d) n = Some d) ->
  forall cap, 1 <= cap -> cap <= 65536 ->
  forall debug tpes lookup ls max_threads min_chunk b_st t_st b_mt t_mt id str,
  Forall line_ok ls -> nth_error tpes id = Some (rs_tpe str) ->
  read_values_st parse_f64 lz_compress cap debug tpes lookup (body ls) = Ok (b_st, t_st) -> N.of_nat (length t_st) < 4294967296 ->
  read_values_mt parse_f64 lz_compress cap debug tpes lookup (body ls) max_threads min_chunk = Ok (b_mt, t_mt) ->
  N.of_nat (length t_mt) < 4294967296 ->
  (forall ops, ops_of lookup true false (evs ls) = Some ops ->
     StronglySorted N.lt (times_of ops) /\ Forall (rs_op_ok id str) ops /\ ops_cost id ops < 4294967264) ->
  exists s_st s_mt,
    load_signal lz_decompress b_st id (rs_tpe str) = Ok s_st /\
    load_signal lz_decompress b_mt id (rs_tpe str) = Ok s_mt /\
    observe_signal s_st = observe_signal s_mt /\ t_st = t_mt.

Check mt_equals_st_rs :
  forall (parse_f64 : list byte -> option (list byte)),
  (forall r le, parse_f64 r = Some le -> length le = 8%nat) ->
  forall (lz_compress : list byte -> list byte) (lz_decompress : list byte -> nat -> option (list byte)),
  (forall d n, (length d <= n)%nat -> lz_decompress (lz_compress d) n = Some d) ->
  forall cap, 1 <= cap -> cap <= 65536 ->
  forall debug tpes lookup ls len0 rest stop_st e_st b_st t_st encs first others e_mt b_mt t_mt id str,
  Forall line_ok ls ->
  contig 0 ((0%nat, len0) :: rest) -> (length (body ls) <= end_of 0 ((0%nat, len0) :: rest))%nat ->
  nth_error tpes id = Some (rs_tpe str) ->
  N.of_nat (length (body ls)) <= stop_st + 1 ->
  read_single_stream parse_f64 lz_compress cap debug tpes lookup (body ls) stop_st true = Ok e_st ->
  enc_finish lz_compress e_st = Ok (b_st, t_st) -> N.of_nat (length t_st) < 4294967296 ->
  Forall2 (fun c en => run_chunk parse_f64 lz_compress cap debug tpes lookup (body ls) c = Ok en) ((0%nat, len0) :: rest) encs ->
  encs = first :: others -> append_all lz_compress first others = Ok e_mt ->
  enc_finish lz_compress e_mt = Ok (b_mt, t_mt) -> N.of_nat (length t_mt) < 4294967296 ->
  (forall ops, ops_of lookup true false (evs ls) = Some ops ->
     StronglySorted N.lt (times_of ops) /\ Forall (rs_op_ok id str) ops /\ ops_cost id ops < 4294967264) ->
  exists s_st s_mt,
    load_signal lz_decompress b_st id (rs_tpe str) = Ok s_st /\
    load_signal lz_decompress b_mt id (rs_tpe str) = Ok s_mt /\
    observe_signal s_st = observe_signal s_mt /\ t_st = t_mt.

Print Assumptions handover_segment.
Print Assumptions read_values_mt_equals_st_rs.
Print Assumptions mt_equals_st_rs.
Print Assumptions read_values_mt_equals_st.
Print Assumptions mt_equals_st.
Print Assumptions ops_tile.
Print Assumptions thread_first.
Print Assumptions thread_later.
Print Assumptions chunks_shape.
Print Assumptions appended_transparent_rs.
Print Assumptions chunk_simulates.
Print Assumptions appended_transparent.
Print Assumptions run_bytes_app.
