(* Property C02: the time table is the strictly increasing list of recorded time steps. *)
From Coq Require Import Sorted.
From WV Require Import Model.Base Model.Bits Model.WaveMem Spec.TimeSpec Proofs.TimeTableProofs.
Open Scope N_scope.

(* for every operation sequence on an encoder (any interleaving of value changes, any block
   capacity >= 1, any compressor) the table returned by finish is `accepted` of the times fed *)
Check time_table_spec :
  forall (parse_f64 : list byte -> option (list byte)) (lz_compress : list byte -> list byte) (cap : N),
  1 <= cap ->
  forall tpes ops e, run_ops parse_f64 lz_compress cap (enc_new tpes) ops = Ok e ->
  exists blocks, enc_finish lz_compress e = Ok (blocks, accepted (times_of ops)).

Check accepted_strict : forall ts, StronglySorted N.lt (accepted ts).

Check accepted_complete :
  forall ts t pre, (forall x, In x pre -> x < t) -> In t (accepted (pre ++ t :: ts)).

(* timestamps alone can never crash the store *)
Check time_change_total :
  forall (lz_compress : list byte -> list byte) (cap : N), 1 <= cap ->
  forall e t, inv e -> exists e', time_change lz_compress cap e t = Ok e'.

Print Assumptions time_table_spec.
Print Assumptions accepted_strict.
Print Assumptions accepted_complete.
Print Assumptions time_change_total.
