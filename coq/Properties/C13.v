(* Property C13: a variable aliasing a sub-range of a vector reports exactly that sub-range.
   Pinned: the slicer (slice_signal_spec, recorded_then_sliced and the byte-level facts under them) and the GHW
   alias arithmetic in front of it (Proofs/AliasProofs.v): register_subrange_spec - a sub-range [mn..mx] of a
   vector [pmin..pmax] is registered with the bounds msb = pmax - mn, lsb = pmax - mx, found again if registered before
   and given a fresh reference otherwise; alias_bounds_select - those bounds make the slicer select exactly the
   elements mn..mx of the parent's value (first declared element leftmost); refs_distinct_step - different sub-ranges
   never share a signal reference.
   register_subrange_complete (Proofs/FindVecProofs.v) removes the premises of register_subrange_spec: after ANY sequence of
   registrations (scalars, vectors, repeated and sub-range requests) the slots of every registered vector point back at
   it (register_all_slots), so find_vec identifies the parent of any sub-range request (find_vec_spec), and the alias
   table stays well formed (register_all_alias_ok).
   NOT proved: the alias substitution of SignalSource::load_signals (its shape is proved under C07); decided by the
   correspondence run. *)
From WV Require Import Model.Base Model.Bits Model.WaveMem Model.Slice Spec.StoreSpec Proofs.BitsProofs Proofs.StoreProofs Proofs.EncoderProofs
  Proofs.SliceProofs Proofs.SliceSignalProofs Model.GhwAlias Proofs.AliasProofs Proofs.FindVecProofs.
Open Scope N_scope.

(* for every state kind, parent width and sub-range strictly inside the parent: slicing the packed
   parent value yields the packed form of the characters W-1-msb .. W-1-lsb (counted from the left) *)
Check slice_n_states_spec :
  forall debug st syms msb lsb, small_syms st syms ->
  (lsb <= msb < length syms)%nat -> (msb - lsb + 1 < length syms)%nat ->
  slice_n_states debug st (write_n_state_loop st syms 0 None) msb lsb (length syms)
  = Ok (write_n_state_loop st (firstn (msb - lsb + 1) (skipn (length syms - 1 - msb) syms)) 0 None).

(* ... which renders as exactly those characters, in the same order *)
Check slice_renders_substring :
  forall debug st syms msb lsb, small_syms st syms ->
  (lsb <= msb < length syms)%nat -> (msb - lsb + 1 < length syms)%nat ->
  exists packed,
    slice_n_states debug st (write_n_state_loop st syms 0 None) msb lsb (length syms) = Ok packed /\
    n_state_symbols st packed (msb - lsb + 1) = Ok (firstn (msb - lsb + 1) (skipn (length syms - 1 - msb) syms)).

(* the symbol at bit i of a right-aligned packed value (stray bits of the first byte are never read) *)
Check packed_symbol :
  forall st syms (i : nat), small_syms st syms -> (i < length syms)%nat ->
  let data := write_n_state_loop st syms 0 None in
  let max_bits := (length data * per_byte st)%nat in
  exists b, nth_error data ((max_bits - S i) / per_byte st) = Some b /\
            digit st b (i mod per_byte st) = nth (length syms - 1 - i) syms 0.

(* slicing depends only on the symbols the data renders to, whatever the unused high bits of its first byte hold
   (they carry the kind of the entry in a loaded signal) *)
Check slice_n_states_sem :
  forall debug st data syms msb lsb, small_syms st syms ->
  length data = div_ceil (length syms) (per_byte st) ->
  n_state_symbols st data (length syms) = Ok syms ->
  (lsb <= msb < length syms)%nat -> (msb - lsb + 1 < length syms)%nat ->
  slice_n_states debug st data msb lsb (length syms)
  = Ok (write_n_state_loop st (firstn (msb - lsb + 1) (skipn (length syms - 1 - msb) syms)) 0 None).

(* the whole slicer (slice_signal / slice_bit_vector / BitVectorBuilder), for every parent signal made of entries
   of any kinds <= mx, every proper sub-range, debug and release: the result reports for every parent entry the
   characters [msb:lsb] in their least sufficient kind at the same time index; an entry whose slice equals the slice
   before it is dropped (the slice changes only when the sub-range changes) *)
Check slice_signal_spec :
  forall debug mx bits msb lsb, (lsb <= msb < bits)%nat -> (msb - lsb + 1 < bits)%nat ->
  forall abs, (1 <= bits)%nat -> Forall (parent_ok mx bits) abs ->
  exists sig',
    slice_signal debug (mk_signal (map fst (map (wide_of mx bits) abs)) (parent_data mx bits abs)) msb lsb = Ok sig' /\
    observe_signal sig' = outcome_map render_of (dedup (map (slice_entry bits msb lsb) abs)).

(* record -> load -> slice: whatever history was recorded for the parent vector *)
Check recorded_then_sliced :
  forall (parse_f64 : list byte -> option (list byte)) (lz_compress : list byte -> list byte)
         (lz_decompress : list byte -> nat -> option (list byte)),
  (forall d n, (length d <= n)%nat -> lz_decompress (lz_compress d) n = Some d) ->
  forall cap, 1 <= cap -> cap <= 65536 -> forall id bits, (1 <= bits)%nat ->
  forall debug msb lsb tpes ops e blocks ttb,
  (lsb <= msb < bits)%nat -> (msb - lsb + 1 < bits)%nat ->
  nth_error tpes id = Some (EncBits bits) ->
  Forall (op_ok id bits) ops ->
  N.of_nat (count_vcd id ops) * (10 + N.of_nat bits) < 4294967264 ->
  run_ops parse_f64 lz_compress cap (enc_new tpes) ops = Ok e ->
  enc_finish lz_compress e = Ok (blocks, ttb) ->
  N.of_nat (length ttb) < 4294967296 ->
  exists R parent sliced,
    Forall2 (decodes bits) R (recorded id ops [] false) /\
    load_signal lz_decompress blocks id (EncBits bits) = Ok parent /\
    slice_signal debug parent msb lsb = Ok sliced /\
    observe_signal sliced = outcome_map render_of (dedup (map (slice_entry bits msb lsb) (dedup R))).

(* the alias arithmetic of the GHW hierarchy reader *)
Check @alias_bounds_select :
  forall (A : Type) (syms : list A) pmin pmax mn mx,
  (pmin <= mn)%nat -> (mn <= mx)%nat -> (mx <= pmax)%nat -> length syms = (pmax - pmin + 1)%nat ->
  let bits := (pmax - pmin + 1)%nat in let msb := (pmax - mn)%nat in let lsb := (pmax - mx)%nat in
  (lsb <= msb)%nat /\ (msb < bits)%nat /\
  firstn (msb - lsb + 1) (skipn (bits - 1 - msb) syms) = firstn (mx - mn + 1) (skipn (mn - pmin) syms).

Check register_subrange_spec :
  forall t mn mx two vid v,
  alias_ok t -> find_vec t mn mx = Ok (Some vid) -> nth_error (tr_vectors t) vid = Some v ->
  (vi_min v <= mn)%nat -> (mn <= mx)%nat -> (mx <= vi_max v)%nat -> ~ (mx = vi_max v /\ mn = vi_min v) ->
  exists t' r,
    register_bit_vec t mn mx two = Ok (t', r) /\ alias_ok t' /\ extends t t' /\
    (exists k a, nth_error (tr_aliases t') k = Some a /\
                 ai_msb a = (vi_max v - mn)%nat /\ ai_lsb a = (vi_max v - mx)%nat /\ ai_ref a = r) /\
    ((t' = t /\ (r < tr_count t)%nat) \/
     (r = tr_count t /\ tr_count t' = S r /\ length (tr_aliases t') = S (length (tr_aliases t)) /\
      exists a, nth_error (tr_aliases t') (length (tr_aliases t)) = Some a /\ ai_ref a = r)).

Check refs_distinct_step :
  forall t t' r, alias_ok t -> refs_distinct t -> extends t t' ->
  ((t' = t /\ (r < tr_count t)%nat) \/
   (r = tr_count t /\ tr_count t' = S r /\ length (tr_aliases t') = S (length (tr_aliases t)) /\
    exists a, nth_error (tr_aliases t') (length (tr_aliases t)) = Some a /\ ai_ref a = r)) ->
  refs_distinct t'.


Check register_subrange_complete :
  forall n ops t refs mn mx two vid v,
  register_all (tr_new n) ops = Ok (t, refs) ->
  nth_error (tr_vectors t) vid = Some v ->
  (vi_min v <= mn)%nat -> (mn <= mx)%nat -> (mx <= vi_max v)%nat -> ~ (mx = vi_max v /\ mn = vi_min v) ->
  exists t' r,
    register_bit_vec t mn mx two = Ok (t', r) /\ alias_ok t' /\ extends t t' /\
    (exists k a, nth_error (tr_aliases t') k = Some a /\
                 ai_msb a = (vi_max v - mn)%nat /\ ai_lsb a = (vi_max v - mx)%nat /\ ai_ref a = r).

Check find_vec_spec :
  forall t vid v mn mx, vec_slots t -> nth_error (tr_vectors t) vid = Some v ->
  (vi_min v <= mn)%nat -> (mn <= mx)%nat -> (mx <= vi_max v)%nat -> find_vec t mn mx = Ok (Some vid).

Check register_all_slots :
  forall ops t t' refs, vec_slots t -> register_all t ops = Ok (t', refs) -> vec_slots t'.

Print Assumptions slice_n_states_spec.
Print Assumptions register_subrange_complete.
Print Assumptions find_vec_spec.
Print Assumptions register_all_slots.
Print Assumptions alias_bounds_select.
Print Assumptions register_subrange_spec.
Print Assumptions refs_distinct_step.
Print Assumptions slice_n_states_sem.
Print Assumptions slice_signal_spec.
Print Assumptions recorded_then_sliced.
Print Assumptions slice_renders_substring.
Print Assumptions packed_symbol.
