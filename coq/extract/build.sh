#!/bin/sh
# Extracts the Coq model to OCaml and builds the model runner.  cwd: /verif/coq
set -e
cd "$(dirname "$0")/.."
mkdir -p extract/gen
rm -f extract/gen/*.ml extract/gen/*.mli
coqc -Q . WV -o "$(pwd)/extract/Extract.vo" extract/Extract.v > extract/gen/extract.log 2>&1 || { cat extract/gen/extract.log; exit 1; }
cp extract/conv.ml extract/driver.ml extract/gen/
cd extract/gen
SORTED=$(ocamlfind ocamldep -sort *.mli *.ml)
ocamlfind ocamlopt -O2 -w -a -o ../model_run $SORTED 2> build.log || ocamlfind ocamlopt -w -a -o ../model_run $SORTED
