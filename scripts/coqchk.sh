#!/bin/bash
# Independent re-check of the compiled development with coqchk (takes one to two minutes).
# Prints the context summary; "Axioms: <none>" is expected.
cd /verif/coq || exit 2
coq_makefile -f _CoqProject -o Makefile >/dev/null && timeout 1800 make -j16 >/dev/null 2>&1 || { echo "build failed"; exit 1; }
mods=$(ls Proofs/*.v | sed 's#/#.#; s#\.v$##; s#^#WV.#')
timeout 3000 coqchk -o -silent -Q . WV $mods 2>&1 | tail -14
