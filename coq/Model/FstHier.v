(* Model of wellen/src/fst.rs read_hierarchy: the stream of hierarchy entries that the dependency fst-reader decodes
   from an FST file is turned into calls of the hierarchy builder.  Attributes (source stems, VHDL variable info,
   enum table references) are pushed on a stack and consumed by the next scope or variable; path names and enum
   tables are remembered by id / handle.  The conversion tables are translated from the source (Generated/Consts.v).
   The container format itself is the dependency's and is not modelled.
   No proofs live in Model/ files. *)
From WV Require Import Model.Base Generated.Consts Model.Bits Model.WaveMem Model.VcdBody Model.Hierarchy Model.VcdHeader.
Open Scope N_scope.

Inductive fst_entry :=
| FeScope (tpe : N) (nm component : name)
| FeUpScope
| FeVar (tpe direction : N) (nm : name) (length : N) (handle : nat)   (* handle: 0-based index of the signal *)
| FePathName (id : N) (nm : name)
| FeSourceStem (is_instantiation : bool) (path_id line : N)
| FeComment
| FeEnumTable (nm : name) (handle : N) (mapping : list (name * name))
| FeEnumTableRef (handle : N)
| FeVhdlVarInfo (type_name : name) (var_type data_type : N)
| FeAttributeEnd.

Inductive fattr :=
| FaSrc (path : name) (line : N) (is_instantiation : bool)
| FaVhdl (type_name : name) (var_type data_type : N)
| FaEnum (id : nat).

(* calls of the hierarchy builder *)
Inductive fcall :=
| FcScope (nm : name) (component : option name) (tpe : N) (decl inst : option (name * N))
| FcVar (nm : name) (tpe direction : N) (enc : sig_enc) (index : option (Z * Z)) (signal_idx : nat)
        (enum : option nat) (type_name : option name)
| FcPop
| FcEnum (nm : name) (mapping : list (name * name)).

Record fstate := mk_fs {
  fs_attrs : list fattr;            (* attribute stack, newest first *)
  fs_paths : list (N * name);       (* path_names, newest first *)
  fs_enums : list (N * nat);        (* enum handle -> EnumTypeId (0-based), newest first *)
  fs_nenums : nat
}.
Definition fs_init : fstate := mk_fs [] [] [] 0.

Fixpoint n_get {A} (m : list (N * A)) (k : N) : option A :=
  match m with
  | [] => None
  | (k', v) :: r => if k' =? k then Some v else n_get r k
  end.

(* parse_scope_attributes: pops every attribute; of each kind of source locator the last one popped - the first one
   pushed - stays.  Any other attribute is a debug assertion. *)
Fixpoint f_scope_attrs (debug : bool) (attrs : list fattr) (decl inst : option (name * N))
  : outcome (option (name * N) * option (name * N)) :=
  match attrs with
  | [] => Ok (decl, inst)
  | FaSrc p l true :: r => f_scope_attrs debug r decl (Some (p, l))
  | FaSrc p l false :: r => f_scope_attrs debug r (Some (p, l)) inst
  | _ :: r => if debug then Panic else f_scope_attrs debug r decl inst
  end.

Definition merge_vhdl (tpe data_type : N) : N :=
  match n_get fst_vhdl_merge_tab data_type with Some t => t | None => tpe end.

(* parse_var_attributes *)
Fixpoint f_var_attrs (debug : bool) (attrs : list fattr) (tpe : N) (tn : option name) (en : option nat)
  : outcome (option name * N * option nat) :=
  match attrs with
  | [] => Ok (tn, tpe, en)
  | FaSrc _ _ _ :: r => if debug then Panic else f_var_attrs debug r tpe tn en
  | FaVhdl n _ dt :: r => f_var_attrs debug r (merge_vhdl tpe dt) (Some n) en
  | FaEnum id :: r => f_var_attrs debug r tpe tn (Some id)
  end.

Definition with_attrs (st : fstate) (a : list fattr) : fstate :=
  mk_fs a (fs_paths st) (fs_enums st) (fs_nenums st).

Definition vhdl_array_code : N := 23.

Definition fst_step (debug : bool) (st : fstate) (e : fst_entry) : outcome (fstate * list fcall) :=
  match e with
  | FeScope tpe nm comp =>
    do '(decl, inst) <- f_scope_attrs debug (fs_attrs st) None None;
    match n_get fst_scope_tab tpe with
    | None => Panic                                            (* unreachable!("unexpected scope type!") *)
    | Some t => Ok (with_attrs st [], [FcScope nm (Some comp) t decl inst])
    end
  | FeUpScope => Ok (st, [FcPop])
  | FeVar tpe dir nm length handle =>
    match parse_name nm with
    | Ok (var_name, index, scopes) =>
      match n_get fst_var_tab tpe, n_get fst_dir_tab dir with
      | Some vt, Some d =>
        do '(tn, var_type, en) <- f_var_attrs debug (fs_attrs st) vt None None;
        let enc := if existsb (N.eqb tpe) fst_string_var_types then EncString
                   else if existsb (N.eqb tpe) fst_real_var_types then EncReal
                   else EncBits (if length =? 0 then 1%nat else N.to_nat length) in
        Ok (with_attrs st [],
            map (fun s => FcScope s None vhdl_array_code None None) scopes
            ++ [FcVar var_name var_type d enc index handle en tn]
            ++ map (fun _ => FcPop) scopes)
      | _, _ => Panic
      end
    | _ => Panic                                               (* parse_name(..).unwrap() *)
    end
  | FePathName id nm => Ok (mk_fs (fs_attrs st) ((id, nm) :: fs_paths st) (fs_enums st) (fs_nenums st), [])
  | FeSourceStem is_inst path_id line =>
    match n_get (fs_paths st) path_id with
    | None => Panic                                            (* path_names[&path_id] *)
    | Some p => Ok (with_attrs st (FaSrc p line is_inst :: fs_attrs st), [])
    end
  | FeComment => Ok (st, [])
  | FeEnumTable nm handle mapping =>
    Ok (mk_fs (fs_attrs st) (fs_paths st) ((handle, fs_nenums st) :: fs_enums st) (S (fs_nenums st)), [FcEnum nm mapping])
  | FeEnumTableRef handle =>
    match n_get (fs_enums st) handle with
    | None => Panic                                            (* enums[&handle] *)
    | Some id => Ok (with_attrs st (FaEnum id :: fs_attrs st), [])
    end
  | FeVhdlVarInfo tn vt dt => Ok (with_attrs st (FaVhdl tn vt dt :: fs_attrs st), [])
  | FeAttributeEnd => Ok (st, [])
  end.

Fixpoint fst_run (debug : bool) (st : fstate) (es : list fst_entry) : outcome (fstate * list fcall) :=
  match es with
  | [] => Ok (st, [])
  | e :: r =>
    do '(st1, c1) <- fst_step debug st e;
    do '(st2, c2) <- fst_run debug st1 r;
    Ok (st2, c1 ++ c2)
  end.

Definition fst_read_hierarchy (debug : bool) (es : list fst_entry) : outcome (list fcall) :=
  do '(_, cs) <- fst_run debug fs_init es; Ok cs.

(* the calls as operations of the builder model (Model/Hierarchy.v keeps neither enum types nor the instantiation
   source of a scope; they are compared call by call) *)
Definition hier_op_of (c : fcall) : list hier_op :=
  match c with
  | FcScope nm comp tpe decl _ => [HScope nm comp tpe decl false]
  | FcVar nm tpe dir enc index sig _ tn => [HVar nm tpe dir enc index sig tn]
  | FcPop => [HPop]
  | FcEnum _ _ => []
  end.

(* convert_timescale: exponent (i8) -> (factor, TimescaleUnit: 0 fs, 1 ps, 2 ns, 3 us, 4 ms, 5 s);
   10u32.pow overflows for exponents above 9 (panic in debug builds, wrap-around otherwise) *)
Definition pow10_u32 (debug : bool) (e : Z) : outcome N :=
  let v := 10 ^ Z.to_N e in
  if v <=? 4294967295 then Ok v else if debug then Panic else Ok (v mod 4294967296).
Definition convert_timescale (debug : bool) (e : Z) : outcome (N * N) :=
  if (0 <=? e)%Z then do f <- pow10_u32 debug e; Ok (f, 5)
  else if (-3 <=? e)%Z then do f <- pow10_u32 debug (e + 3); Ok (f, 4)
  else if (-6 <=? e)%Z then do f <- pow10_u32 debug (e + 6); Ok (f, 3)
  else if (-9 <=? e)%Z then do f <- pow10_u32 debug (e + 9); Ok (f, 2)
  else if (-12 <=? e)%Z then do f <- pow10_u32 debug (e + 12); Ok (f, 1)
  else if (-15 <=? e)%Z then do f <- pow10_u32 debug (e + 15); Ok (f, 0)
  else Panic.

(* str::trim on ASCII text *)
Definition is_ascii_ws (b : byte) : bool := (b =? 32) || ((9 <=? b) && (b <=? 13)).
Fixpoint trim_start (l : list byte) : list byte :=
  match l with b :: r => if is_ascii_ws b then trim_start r else l | [] => [] end.
Definition trim (l : list byte) : list byte := rev (trim_start (rev (trim_start l))).

(* ------------------------------------------------------------------ FstWaveDatabase::load_signals
   The dependency calls back with (time, handle, value) for the signals of the filter; the time is turned into an index
   of the time table by a cursor that only moves forward, the handle into the position of its SignalWriter (idx_to_pos, a
   HashMap built from the requested ids: of equal ids the last position stays). *)
From WV Require Import Model.FstLoad.

Fixpoint last_pos (ids : list nat) (h : nat) (pos : nat) (acc : option nat) : option nat :=
  match ids with
  | [] => acc
  | i :: r => last_pos r h (S pos) (if Nat.eqb i h then Some pos else acc)
  end.

Fixpoint fst_dispatch (debug : bool) (tt : list N) (pos : nat) (ws : list signal_writer) (ids : list nat)
                      (cbs : list (N * nat * fst_value)) : outcome (list signal_writer) :=
  match cbs with
  | [] => Ok ws
  | (time, h, v) :: r =>
    do pos' <- time_cursor (S (length tt)) tt pos time;
    if debug && negb (nth pos' tt 0 =? time) then Panic       (* debug_assert_eq: the entry under the cursor is the time of the callback *)
    else match last_pos ids h 0 None with
         | None => Panic                                      (* idx_to_pos[&handle.get_index()] *)
         | Some p =>
           match nth_error ws p with
           | None => Panic
           | Some w =>
             do w' <- sw_add_change w (N.of_nat pos') v;
             fst_dispatch debug tt pos' (list_update ws p w') ids r
           end
         end
  end.

Definition fst_load_signals (debug : bool) (tt : list N) (ids : list nat) (tpes : list sig_enc)
                            (cbs : list (N * nat * fst_value)) : outcome (list signal) :=
  match tt with
  | [] => Panic                                               (* time_table.next().unwrap() *)
  | _ =>
    do ws <- fst_dispatch debug tt 0 (map sw_new tpes) ids cbs;
    Ok (map sw_finish ws)
  end.
