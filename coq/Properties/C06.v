(* Property C06: loaded signals are in canonical form.
   Pinned: loaded_signal_canonical - for every history of time stamps and VCD / raw value changes, every block
   capacity and compressor: the report of a loaded bit-vector signal (any width >= 1) lists values of exactly the
   declared width, each with the least state kind that can hold it, and no two neighbours are equal;
   fst_writer_spec (Properties/C10.v) gives the same form for the FST path.  Plus the two facts it rests on.
   loaded_rs_canonical gives the form for real and string signals (no two neighbours carry the same bytes, a real
   is its 8 bytes) and slice_signal_spec (Properties/C13.v) for sliced signals (its report is `dedup` of least-kind
   entries of the slice width).  The tie of the model to the code is the canonical-form monitor of the
   correspondence run (MANIFEST level_note). *)
From WV Require Import Model.Base Model.Bits Model.WaveMem Spec.TimeSpec Spec.StoreSpec
  Proofs.BitsProofs Proofs.StoreProofs Proofs.EncoderProofs Proofs.CanonProofs Proofs.RealStringEnc.
Open Scope N_scope.

Check loaded_signal_canonical :
  forall (parse_f64 : list byte -> option (list byte)) (lz_compress : list byte -> list byte)
         (lz_decompress : list byte -> nat -> option (list byte)),
  (forall d n, (length d <= n)%nat -> lz_decompress (lz_compress d) n = Some d) ->
  forall cap, 1 <= cap -> cap <= 65536 ->
  forall id bits tpes ops e blocks ttb,
  (1 <= bits)%nat -> nth_error tpes id = Some (EncBits bits) -> Forall (op_ok id bits) ops ->
  N.of_nat (count_vcd id ops) * (10 + N.of_nat bits) < 4294967264 ->
  run_ops parse_f64 lz_compress cap (enc_new tpes) ops = Ok e ->
  enc_finish lz_compress e = Ok (blocks, ttb) -> N.of_nat (length ttb) < 4294967296 ->
  exists sig (A : list aentry),
    load_signal lz_decompress blocks id (EncBits bits) = Ok sig /\
    observe_signal sig = Ok (map rendered A) /\
    Forall (fun a : aentry => let '(_, l, s) := a in
              length s = bits /\ small_syms l s /\ (forall l', small_syms l' s -> states_num l <= states_num l')) A /\
    no_adjacent akey_eqb None (map akey A).

Check check_states_min :
  forall value st, check_states value = Some st ->
  exists nums, chars_to_nums value = Some nums /\
    small_syms st nums /\ Forall (fun v => v <= 8) nums /\
    forall st', small_syms st' nums -> states_num st <= states_num st'.

Check from_value_least :
  forall v st, v <= 8 -> (v < 2 ^ sbits st <-> states_num (from_value v) <= states_num st).

Check loaded_rs_canonical :
  forall (parse_f64 : list byte -> option (list byte)),
  (forall r le, parse_f64 r = Some le -> length le = 8%nat) ->
  forall (lz_compress : list byte -> list byte) (lz_decompress : list byte -> nat -> option (list byte)),
  (forall d n, (length d <= n)%nat -> lz_decompress (lz_compress d) n = Some d) ->
  forall cap, 1 <= cap -> cap <= 65536 -> forall id str tpes ops e blocks ttb,
  nth_error tpes id = Some (rs_tpe str) ->
  Forall (rs_op_ok id str) ops ->
  ops_cost id ops < 4294967264 ->
  run_ops parse_f64 lz_compress cap (enc_new tpes) ops = Ok e ->
  enc_finish lz_compress e = Ok (blocks, ttb) -> N.of_nat (length ttb) < 4294967296 ->
  exists sig (A : list (N * list byte)),
    load_signal lz_decompress blocks id (rs_tpe str) = Ok sig /\
    observe_signal sig = Ok (map (fun a : N * list byte => (fst a, if str then KString else KReal, snd a)) A) /\
    no_adjacent list_eqb None (map snd A) /\
    (str = false -> Forall (fun a : N * list byte => length (snd a) = 8%nat) A).

Print Assumptions loaded_signal_canonical.
Print Assumptions loaded_rs_canonical.
Print Assumptions check_states_min.
Print Assumptions from_value_least.
