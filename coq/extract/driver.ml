(* Model runner: reads one case per line from the case file, evaluates the extracted
   Gallina model and prints one observation per line, in the same grammar as the
   Rust harness (`wv`). *)
open Conv

let show_outcome (f : 'a -> string) (o : 'a Base.outcome) : string =
  match o with Base.Ok a -> f a | Base.Err -> "ERR" | Base.Panic -> "PANIC"

(* ---- offsets: <idx,idx,...> <query,query,...>  (hex) ---- *)
let cmd_offsets (args : string list) : string =
  match args with
  | [idxs; queries] ->
    let l = Stdlib.List.map n_of_hex (split_on ',' idxs) in
    let qs = Stdlib.List.map n_of_hex (split_on ',' queries) in
    let one q =
      show_outcome (fun r ->
        match r with
        | None -> "none"
        | Some d ->
          let open Signals in
          let tidx = show_outcome hex_of_n (get_time_idx_at l d) in
          let elems = int_of_n d.do_elements in
          let poss = Stdlib.List.init (min elems 70000) (fun k ->
            show_outcome (fun p -> string_of_int (int_of_nat p)) (get_value_pos d (n_of_int k))) in
          Printf.sprintf "%d:%s:%s:%s:t%s:p%s" (int_of_nat d.do_start) (hex_of_n d.do_elements)
            (if d.do_time_match then "T" else "F")
            (match d.do_next_index with None -> "-" | Some x -> hex_of_n x)
            tidx (Stdlib.String.concat "." poss))
        (Signals.get_offset l q) in
    let vals = Stdlib.List.mapi (fun i _ -> i) l in
    let it = Signals.iter_changes l vals in
    "iter=" ^ Stdlib.String.concat "," (Stdlib.List.map (fun (t, v) -> hex_of_n t ^ ":" ^ string_of_int v) it)
    ^ " " ^ Stdlib.String.concat " " (Stdlib.List.map one qs)
  | _ -> "BADCASE"


(* ---- external functions the model is parametric in ---- *)

(* A-f64-parse: restricted decimal syntax on which OCaml's float_of_string (strtod) and Rust's
   str::parse::<f64> are both correctly rounded *)
let is_simple_float (s : string) : bool =
  let n = Stdlib.String.length s in
  let i = ref 0 in
  let digits () = let st = !i in
    while !i < n && s.[!i] >= '0' && s.[!i] <= '9' do incr i done; !i > st in
  if !i < n && (s.[!i] = '+' || s.[!i] = '-') then incr i;
  if not (digits ()) then false
  else begin
    let ok = ref true in
    if !i < n && s.[!i] = '.' then (incr i; if not (digits ()) then ok := false);
    if !ok && !i < n && (s.[!i] = 'e' || s.[!i] = 'E') then begin
      incr i;
      if !i < n && (s.[!i] = '+' || s.[!i] = '-') then incr i;
      if not (digits ()) then ok := false
    end;
    !ok && !i = n
  end

let le_bytes_of_int64 (b : int64) : BinNums.coq_N list =
  Stdlib.List.init 8 (fun k ->
    n_of_int (Int64.to_int (Int64.logand (Int64.shift_right_logical b (8 * k)) 0xFFL)))

let parse_f64 (l : BinNums.coq_N list) : BinNums.coq_N list option =
  let s = Stdlib.String.concat "" (Stdlib.List.map (fun b -> Stdlib.String.make 1 (Char.chr (int_of_n b))) l) in
  if is_simple_float s then Some (le_bytes_of_int64 (Int64.bits_of_float (float_of_string s)))
  else None

(* A-lz4: any compressor with decompress (compress d) n = d for n >= |d|; the identity never
   beats the keep-raw rule, so the model always stores raw data *)
let lz_compress (d : BinNums.coq_N list) = d
let lz_decompress (d : BinNums.coq_N list) (_ : Datatypes.nat) = Some d

let cap = ref Consts.block_time_idx_max

(* ---- canonical observation of a loaded signal ---- *)
let str_of_bytes (l : BinNums.coq_N list) : string =
  Stdlib.String.concat "" (Stdlib.List.map (fun b -> Stdlib.String.make 1 (Char.chr (int_of_n b))) l)

let real_hex (le : BinNums.coq_N list) : string =
  Stdlib.String.concat "" (Stdlib.List.rev_map (fun b -> Printf.sprintf "%02x" (int_of_n b)) le)

let signal_obs (s : WaveMem.signal) : string =
  let n = Stdlib.List.length s.WaveMem.s_idx in
  if n = 0 then "-" else
  Stdlib.String.concat "," (Stdlib.List.mapi (fun k t ->
    match WaveMem.get_value_at s.WaveMem.s_data (nat_of_int k) with
    | Base.Ok (kind, v) ->
      (match kind with
       | WaveMem.KBinary -> hex_of_n t ^ ":2:" ^ str_of_bytes v
       | WaveMem.KFour -> hex_of_n t ^ ":4:" ^ str_of_bytes v
       | WaveMem.KNine -> hex_of_n t ^ ":9:" ^ str_of_bytes v
       | WaveMem.KReal -> hex_of_n t ^ ":R:" ^ real_hex v
       | WaveMem.KString -> hex_of_n t ^ ":S:" ^ hex_of_bytes v)
    | _ -> "PANIC") s.WaveMem.s_idx)

let tt_obs (tt : BinNums.coq_N list) : string =
  if tt = [] then "-" else Stdlib.String.concat "," (Stdlib.List.map hex_of_n tt)

exception Model_panic
exception Model_err
let get (o : 'a Base.outcome) : 'a =
  match o with Base.Ok a -> a | Base.Err -> raise Model_err | Base.Panic -> raise Model_panic

let sig_enc_of (s : string) : WaveMem.sig_enc =
  match s.[0] with
  | 'r' -> WaveMem.EncReal
  | 's' -> WaveMem.EncString
  | _ ->
    let w = int_of_string (Stdlib.String.sub s 1 (Stdlib.String.length s - 1)) in
    WaveMem.EncBits (nat_of_int (if w = 0 then 1 else w))       (* SignalEncoding::bit_vec_of_len *)

let states_of (s : string) : Bits.states =
  match s with "0" -> Bits.Two | "1" -> Bits.Four | _ -> Bits.Nine

let split2 (c : char) (s : string) : string * string =
  let i = Stdlib.String.index s c in
  (Stdlib.String.sub s 0 i, Stdlib.String.sub s (i + 1) (Stdlib.String.length s - i - 1))

(* ---- enc <sigs> <ops> ---- *)
let cmd_enc (args : string list) : string =
  match args with
  | sigs :: ops :: _ ->
    let tpes = Stdlib.List.map sig_enc_of (split_on ',' sigs) in
    let ops = split_on ';' ops in
    let encs = ref [WaveMem.enc_new tpes] in
    let upd f = match !encs with e :: r -> encs := f e :: r | [] -> () in
    Stdlib.List.iter (fun op ->
      let kind = op.[0] and rest = Stdlib.String.sub op 1 (Stdlib.String.length op - 1) in
      match kind with
      | 't' -> upd (fun e -> get (WaveMem.time_change lz_compress !cap e (n_of_hex rest)))
      | 'v' -> let (id, v) = split2 ':' rest in
        upd (fun e -> get (WaveMem.vcd_value_change parse_f64 e (nat_of_int (int_of_string id)) (bytes_of_hex v)))
      | 'n' -> (match Stdlib.String.split_on_char ':' rest with
          | [id; st; v] ->
            upd (fun e -> get (WaveMem.raw_value_change e (nat_of_int (int_of_string id)) (bytes_of_hex v) (states_of st)))
          | _ -> failwith "bad n op")
      | 'f' -> let (id, v) = split2 ':' rest in
        let le = Stdlib.List.rev (bytes_of_hex v) in
        upd (fun e -> get (WaveMem.real_change e (nat_of_int (int_of_string id)) le))
      | 'A' -> encs := WaveMem.enc_new tpes :: !encs
      | _ -> failwith "bad op") ops;
    (match Stdlib.List.rev !encs with
     | first :: others ->
       let e = Stdlib.List.fold_left (fun acc o -> get (WaveMem.append lz_compress acc o)) first others in
       let (blocks, tt) = get (WaveMem.enc_finish lz_compress e) in
       let sigs = Stdlib.List.mapi (fun i tpe ->
         let s = get (WaveMem.load_signal lz_decompress blocks (nat_of_int i) tpe) in
         Printf.sprintf " s%d=%s" i (signal_obs s)) tpes in
       "tt=" ^ tt_obs tt ^ Stdlib.String.concat "" sigs
     | [] -> "BADCASE")
  | _ -> "BADCASE"


(* ---- body <hexbytes> <stop_pos> ---- *)
let debug = ref true

let cmd_body (args : string list) : string =
  match args with
  | [input; stop] ->
    let (evs, pres) = VcdBody.parse_body !debug (bytes_of_hex input) (n_of_int (int_of_string stop)) in
    (match pres with
     | VcdBody.PPanic -> "PANIC"
     | _ ->
       let l = Stdlib.List.map (fun e -> match e with
         | VcdBody.EvTime t -> "T" ^ hex_of_n t
         | VcdBody.EvValue (v, id) -> "V" ^ hex_of_bytes v ^ ":" ^ hex_of_bytes id) evs in
       (if l = [] then "-" else Stdlib.String.concat "," l) ^ "|" ^
       (match pres with VcdBody.PDone -> "OK" | _ -> "ERR"))
  | _ -> "BADCASE"

(* ---- vcd <mode> <D|M;tpes;idhex:idx,...> <hdrhex> <bodyhex> ---- *)
let parse_sigs (s : string) =
  match Stdlib.String.split_on_char ';' s with
  | [kind; tpes; ids] ->
    let tpes = Stdlib.List.map (fun t -> if t = "-" then None else Some (sig_enc_of t)) (split_on ',' tpes) in
    let lookup =
      if kind = "D" then None
      else Some (Stdlib.List.map (fun e -> let (id, idx) = split2 ':' e in
                   (bytes_of_hex id, nat_of_int (int_of_string idx))) (split_on ',' ids)) in
    (tpes, lookup)
  | _ -> failwith "bad sigs"

let load_all (tpes : WaveMem.sig_enc option list) (blocks, tt) : string =
  let sigs = Stdlib.List.mapi (fun i tpe ->
    match tpe with
    | None -> ""
    | Some tpe ->
      let s = get (WaveMem.load_signal lz_decompress blocks (nat_of_int i) tpe) in
      Printf.sprintf " s%d=%s" i (signal_obs s)) tpes in
  "tt=" ^ tt_obs tt ^ Stdlib.String.concat "" sigs

let cmd_vcd (args : string list) : string =
  match args with
  | [mode; sigs; hdr; body] ->
    let (tpes, lookup) = parse_sigs sigs in
    (* Encoder::new: a signal without a variable gets a String encoder *)
    let enc_tpes = Stdlib.List.map (fun t -> match t with None -> WaveMem.EncString | Some t -> t) tpes in
    let body_bytes = bytes_of_hex body in
    let header_len = (Stdlib.String.length hdr) / 2 in
    let header_len = if hdr = "-" then 0 else header_len in
    let m = Stdlib.String.split_on_char ':' mode in
    let st () = VcdBody.read_values_st parse_f64 lz_compress !cap !debug enc_tpes lookup body_bytes in
    let mt threads minc = VcdBody.read_values_mt parse_f64 lz_compress !cap !debug enc_tpes lookup body_bytes
        (nat_of_int threads) (nat_of_int (if minc = 0 then int_of_n Consts.min_chunk_size else minc)) in
    let rd () = VcdBody.read_values_reader parse_f64 lz_compress !cap !debug enc_tpes lookup body_bytes (nat_of_int header_len) in
    let bl = Printf.sprintf " bl=%x" (Stdlib.List.length body_bytes) in
    (match m with
     | ["st"] -> load_all tpes (get (st ()))
     | ["mt"; t; c] -> load_all tpes (get (mt (int_of_string t) (int_of_string c)))
     | ["rd"] | ["rb"] | ["rbc"; _] -> load_all tpes (get (rd ()))
     | ["hc"] | ["hp"] | ["hbc"; _; _] -> load_all tpes (get (rd ())) ^ bl
     | ["hf"; "0"] -> load_all tpes (get (st ())) ^ bl
     | ["hf"; "1"] -> load_all tpes (get (mt 4 0)) ^ bl
     | _ -> "BADMODE")
  | _ -> "BADCASE"


(* ---- fstw <tpe> <idx:hexvalue,...> ---- *)
let cmd_fstw (args : string list) : string =
  match args with
  | [tpe; changes] ->
    let tpe = sig_enc_of tpe in
    let changes = Stdlib.List.map (fun c ->
      let (idx, v) = split2 ':' c in
      let fv = (match tpe with
        | WaveMem.EncReal -> FstLoad.FvReal (Stdlib.List.rev (bytes_of_hex v))
        | _ -> FstLoad.FvString (bytes_of_hex v)) in
      (n_of_hex idx, fv)) (split_on ',' changes) in
    let sw = get (FstLoad.sw_run (FstLoad.sw_new tpe) changes) in
    "s0=" ^ signal_obs (FstLoad.sw_finish sw)
  | _ -> "BADCASE"


(* ---- hier <ops> <queries> ---- *)
let rec z_of_int (i : int) : BinNums.coq_Z =
  if i = 0 then BinNums.Z0 else if i > 0 then BinNums.Zpos (pos_of_int i) else BinNums.Zneg (pos_of_int (- i))
let int_of_z (z : BinNums.coq_Z) : int =
  match z with BinNums.Z0 -> 0 | BinNums.Zpos p -> int_of_pos p | BinNums.Zneg p -> - (int_of_pos p)

let parse_index (s : string) : (BinNums.coq_Z * BinNums.coq_Z) option =
  if s = "~" then None else
  let (m, l) = split2 '/' s in Some (z_of_int (int_of_string m), z_of_int (int_of_string l))

let enc_str (e : WaveMem.sig_enc) : string =
  match e with WaveMem.EncString -> "s" | WaveMem.EncReal -> "r" | WaveMem.EncBits n -> "b" ^ string_of_int (int_of_nat n)

let index_str (i : (BinNums.coq_Z * BinNums.coq_Z) option) : string =
  match i with None -> "~" | Some (m, l) -> Printf.sprintf "%d/%d" (int_of_z m) (int_of_z l)

let hier_ops_of (ops : string) : Hierarchy.hier_op list =
  Stdlib.List.map (fun op ->
    match Stdlib.String.split_on_char ':' op with
    | ["S"; fl; nm; comp; tpe] ->
      Hierarchy.HScope (bytes_of_hex nm, (if comp = "~" then None else Some (bytes_of_hex comp)),
                        n_of_int (int_of_string tpe), None, fl = "1")
    | ["V"; nm; tpe; dir; enc; idx; sg] ->
      Hierarchy.HVar (bytes_of_hex nm, n_of_int (int_of_string tpe), n_of_int (int_of_string dir),
                      sig_enc_of enc, parse_index idx, nat_of_int (int_of_string sg), None)
    | ["P"] -> Hierarchy.HPop
    | _ -> failwith ("bad hier op " ^ op)) (split_on ';' ops)

let dec_of_n (n : BinNums.coq_N) : string =
  let ten = n_of_int 10 in
  let rec go n acc =
    match n with
    | BinNums.N0 -> acc
    | _ -> let (q, r) = BinNat.N.div_eucl n ten in go q (string_of_int (int_of_n r) ^ acc) in
  match n with BinNums.N0 -> "0" | _ -> go n ""

let hierarchy_obs ?(extra=false) (b : Hierarchy.builder) : string =
  let open Hierarchy in
  let w = get (full_walk b) in
  let items = Stdlib.List.map (fun (d, it) ->
    let d = int_of_nat d in
    match it with
    | IScope i ->
      let sc = Stdlib.List.nth b.hb_scopes (int_of_nat i) in
      Printf.sprintf "%dS%d:%s:%s:%d:%s" d (int_of_nat i) (hex_of_bytes sc.sc_name)
        (hex_of_bytes (get (scope_full_name (items_fuel b) b i))) (int_of_n sc.sc_tpe)
        (match sc.sc_component with None -> "~" | Some c -> hex_of_bytes c)
      ^ (if extra then ":" ^ (match sc.sc_decl with None -> "~" | Some (p, l) -> hex_of_bytes p ^ "@" ^ dec_of_n l) ^ ":~" else "")
    | IVar i ->
      let v = Stdlib.List.nth b.hb_vars (int_of_nat i) in
      Printf.sprintf "%dV%d:%s:%s:%d:%d:%s:%s:%d" d (int_of_nat i) (hex_of_bytes v.v_name)
        (hex_of_bytes (get (var_full_name b i))) (int_of_n v.v_tpe) (int_of_n v.v_direction)
        (enc_str v.v_enc) (index_str v.v_index) (int_of_nat v.v_signal)
      ^ (if extra then ":" ^ (match v.v_type_name with None -> "~" | Some t -> hex_of_bytes t) ^ ":~" else "")) w in
  let refs items =
    let vs = Stdlib.List.filter_map (fun it -> match it with IVar i -> Some (string_of_int (int_of_nat i)) | _ -> None) items in
    let ss = Stdlib.List.filter_map (fun it -> match it with IScope i -> Some (string_of_int (int_of_nat i)) | _ -> None) items in
    Stdlib.String.concat "." vs ^ "/" ^ Stdlib.String.concat "." ss in
  let parts = refs (get (top_items b)) ::
    Stdlib.List.mapi (fun i _ -> refs (get (scope_items b (nat_of_int i)))) b.hb_scopes in
  let n = int_of_nat (num_unique_signals b) in
  let tpes = Stdlib.List.init n (fun i -> match get_signal_tpe b (nat_of_int i) with None -> "-" | Some e -> enc_str e) in
  Printf.sprintf "walk=%s nv=%d ns=%d part=%s nsig=%d tpes=%s first=%s"
    (if items = [] then "-" else Stdlib.String.concat "|" items)
    (Stdlib.List.length b.hb_vars) (Stdlib.List.length b.hb_scopes)
    (Stdlib.String.concat ";" parts) n (if tpes = [] then "-" else Stdlib.String.concat "," tpes)
    (match b.hb_scopes with [] -> "~" | sc :: _ -> hex_of_bytes sc.sc_name)

let path_of (s : string) : BinNums.coq_N list list =
  if s = "" then [] else
  Stdlib.List.map (fun x -> if x = "_" then [] else bytes_of_hex x) (Stdlib.String.split_on_char '/' s)

let queries_obs (b : Hierarchy.builder) (queries : string) : string =
  let res = Stdlib.List.map (fun q ->
    let kind = Stdlib.String.sub q 0 2 and rest = Stdlib.String.sub q 2 (Stdlib.String.length q - 2) in
    let show r = match r with None -> "~" | Some i -> string_of_int (int_of_nat i) in
    if kind = "s/" then
      show (get (Hierarchy.lookup_scope b (path_of rest)))
    else begin
      match Stdlib.String.split_on_char '=' rest with
      | [path; nm; idx] ->
        let path = path_of path in
        let index = if idx = "*" then None else parse_index idx in
        show (get (Hierarchy.lookup_var b path (bytes_of_hex nm) index))
      | _ -> failwith "bad query"
    end) (split_on ';' queries) in
  if res = [] then "-" else Stdlib.String.concat "," res

let cmd_hier (args : string list) : string =
  match args with
  | ops :: queries :: _ ->
    let b = get (Hierarchy.hier_run Hierarchy.hb_new (hier_ops_of ops)) in
    hierarchy_obs b ^ " lk=" ^ queries_obs b queries
  | _ -> "BADCASE"


(* ---- detect <hexbytes> ---- *)
let cmd_detect (args : string list) : string =
  match args with
  | [input] ->
    (match Detect.detect !debug (bytes_of_hex input) with
     | Detect.DFormat Detect.FVcd -> "vcd"
     | Detect.DFormat Detect.FFst -> "fst"
     | Detect.DFormat Detect.FGhw -> "ghw"
     | Detect.DFormat Detect.FUnknown -> "unknown"
     | Detect.DPanic -> "PANIC"
     | Detect.DHang -> "HANG")
  | _ -> "BADCASE"


(* ---- slice <width> <msb> <lsb> <idx:bits,...> ---- *)
let bytes_of_string (s : string) : BinNums.coq_N list =
  Stdlib.List.init (Stdlib.String.length s) (fun i -> n_of_int (Char.code s.[i]))

let cmd_slice (args : string list) : string =
  match args with
  | [width; msb; lsb; changes] ->
    let tpes = [sig_enc_of ("b" ^ width)] in
    let e = ref (WaveMem.enc_new tpes) in
    let last = ref (-1) in
    Stdlib.List.iter (fun c ->
      let (idx, v) = split2 ':' c in
      let idx = int_of_n (n_of_hex idx) in
      while !last < idx do
        incr last;
        e := get (WaveMem.time_change lz_compress !cap !e (n_of_int !last))
      done;
      e := get (WaveMem.vcd_value_change parse_f64 !e Datatypes.O (bytes_of_string ("b" ^ v)))) (split_on ',' changes);
    let (blocks, _) = get (WaveMem.enc_finish lz_compress !e) in
    let parent = get (WaveMem.load_signal lz_decompress blocks Datatypes.O (Stdlib.List.hd tpes)) in
    let sliced = get (Slice.slice_signal !debug parent (nat_of_int (int_of_string msb)) (nat_of_int (int_of_string lsb))) in
    "p=" ^ signal_obs parent ^ " s=" ^ signal_obs sliced
  | _ -> "BADCASE"


(* ---- vhdr <flatten> <filehex> ---- *)
let cmd_vhdr (args : string list) : string =
  match args with
  | [fl; file] ->
    let r = get (VcdHeader.read_header (fl = "1") (bytes_of_hex file)) in
    let b = get (Hierarchy.hier_run Hierarchy.hb_new r.VcdHeader.hr_ops) in
    Printf.sprintf "%s date=%s version=%s ts=%s hl=%d" (hierarchy_obs ~extra:true b)
      (hex_of_bytes r.VcdHeader.hr_date) (hex_of_bytes r.VcdHeader.hr_version)
      (match r.VcdHeader.hr_timescale with None -> "~" | Some (f, u) -> Printf.sprintf "%d:%d" (int_of_n f) (int_of_n u))
      (int_of_nat r.VcdHeader.hr_len)
  | _ -> "BADCASE"


(* ---- loadseq <sigs> <hdrhex> <bodyhex> <ops> ---- *)
let cmd_loadseq (args : string list) : string =
  match args with
  | [sigs; _hdr; body; ops] ->
    let (tpes, lookup) = parse_sigs sigs in
    let enc_tpes = Stdlib.List.map (fun t -> match t with None -> WaveMem.EncString | Some t -> t) tpes in
    let (blocks, _) = get (VcdBody.read_values_reader parse_f64 lz_compress !cap !debug enc_tpes lookup
                             (bytes_of_hex body) (nat_of_int 0)) in
    let tpe_of i = Stdlib.List.nth tpes (int_of_nat i) in
    let has_tpe i = (int_of_nat i) < Stdlib.List.length tpes && tpe_of i <> None in
    let content i = match tpe_of i with
      | Some t -> WaveMem.load_signal lz_decompress blocks i t
      | None -> Base.Panic in
    let inner ids = Base.outcome_map_pairs content ids in
    let slice_info _ = None in
    let slice s _ _ = Base.Ok s in
    let wops = Stdlib.List.map (fun op ->
      let (k, ids) = split2 ':' op in
      let ids = Stdlib.List.map (fun x -> nat_of_int (int_of_string x)) (split_on ',' ids) in
      if k = "U" then Loader.WUnload ids else Loader.WLoad ids) (split_on ';' ops) in
    let w = get (Loader.wave_run slice_info has_tpe inner slice [] wops) in
    let outs = Stdlib.List.mapi (fun i t ->
      match t with
      | None -> None
      | Some _ ->
        (match Loader.wave_get w (nat_of_int i) with
         | None -> Some (Printf.sprintf "s%d=unloaded" i)
         | Some s -> Some (Printf.sprintf "s%d=%s" i (signal_obs s)))) tpes in
    Stdlib.String.concat " " (Stdlib.List.filter_map (fun x -> x) outs)
  | _ -> "BADCASE"


(* ---- py <D|M;tpes;ids> <hdrhex> <bodyhex> <times> : the Python binding ---- *)
let show_py (v : Py.pyval option) : string =
  match v with
  | None -> "~"
  | Some (Py.PyInt n) -> "i" ^ hex_of_n n
  | Some (Py.PyStr s) -> "s" ^ hex_of_bytes s
  | Some (Py.PyFloat le) -> "f" ^ real_hex le

let cmd_py (args : string list) : string =
  match args with
  | [sigs; _hdr; body; times] ->
    let (tpes, lookup) = parse_sigs sigs in
    let enc_tpes = Stdlib.List.map (fun t -> match t with None -> WaveMem.EncString | Some t -> t) tpes in
    let (blocks, tt) = get (VcdBody.read_values_st parse_f64 lz_compress !cap !debug enc_tpes lookup (bytes_of_hex body)) in
    let n_tt = Stdlib.List.length tt in
    let times = Stdlib.List.map n_of_hex (split_on ',' times) in
    let ttobs = Stdlib.List.init (2 * n_tt + 4) (fun k ->
      let i = k - n_tt - 2 in
      match Py.time_table_getitem tt (z_of_int i) with None -> "~" | Some t -> "i" ^ hex_of_n t) in
    let sigsobs = Stdlib.List.mapi (fun i tpe ->
      match tpe with
      | None -> None
      | Some tpe ->
        let s = get (WaveMem.load_signal lz_decompress blocks (nat_of_int i) tpe) in
        let ch = get (Py.all_changes tt s) in
        let chs = Stdlib.String.concat "," (Stdlib.List.map (fun (t, v) -> hex_of_n t ^ ":" ^ show_py (Some v)) ch) in
        let at_idx = Stdlib.String.concat "," (Stdlib.List.init (n_tt + 2) (fun k -> show_py (get (Py.value_at_idx s (n_of_int k))))) in
        let at_time = Stdlib.String.concat "," (Stdlib.List.map (fun t -> show_py (get (Py.value_at_time tt s t))) times) in
        Some (Printf.sprintf "v%d=ch[%s]idx[%s]time[%s]" i chs at_idx at_time)) tpes in
    Stdlib.String.concat " " (("tt=" ^ Stdlib.String.concat "," ttobs) :: Stdlib.List.filter_map (fun x -> x) sigsobs)
  | _ -> "BADCASE"


(* ---- ghws <b|l> <vars> <sigs> <vecs> <hexbytes> ---- *)
let cmd_ghws (args : string list) : string =
  match args with
  | [endian; vars; sigs; vecs; input] ->
    let tpes = Stdlib.List.map sig_enc_of (split_on ',' vars) in
    let gsigs = Stdlib.List.map (fun s ->
      match Stdlib.String.split_on_char ':' s with
      | [t; r; v] ->
        let tpe = (match Ghw.ghw_tpe_of (n_of_int (int_of_string t)) with Some t -> t | None -> failwith "tpe") in
        { Ghw.gs_tpe = tpe; Ghw.gs_ref = nat_of_int (int_of_string r);
          Ghw.gs_vec = (if v = "~" then None else Some (nat_of_int (int_of_string v))) }
      | _ -> failwith "bad sig") (split_on ',' sigs) in
    let gvecs = Stdlib.List.map (fun s ->
      match Stdlib.String.split_on_char ':' s with
      | [mn; mx; two; r] -> (((nat_of_int (int_of_string mn), nat_of_int (int_of_string mx)), two = "1"), nat_of_int (int_of_string r))
      | _ -> failwith "bad vec") (split_on ',' vecs) in
    (match get (Ghw.read_signals lz_compress !cap (endian = "b") tpes gsigs gvecs (bytes_of_hex input)) with
     | None -> "ERR"
     | Some (blocks, tt) ->
       let obs = Stdlib.List.mapi (fun i tpe ->
         let s = get (WaveMem.load_signal lz_decompress blocks (nat_of_int i) tpe) in
         Printf.sprintf " s%d=%s" i (signal_obs s)) tpes in
       "tt=" ^ tt_obs tt ^ Stdlib.String.concat "" obs)
  | _ -> "BADCASE"


(* ---- ghwreg <max id> <min:max:bin,...> ---- *)
let cmd_ghwreg (args : string list) : string =
  match args with
  | [max_id; reqs] ->
    let ops = Stdlib.List.map (fun s ->
      match Stdlib.String.split_on_char ':' s with
      | [mn; mx; b] ->
        (* ids are 1-based in the file; the tracker works with 0-based indices; id 0 panics *)
        let mn = int_of_string mn and mx = int_of_string mx in
        if mn = 0 || mx = 0 then raise Model_panic;
        ((nat_of_int (mn - 1), nat_of_int (mx - 1)), b = "1")
      | _ -> failwith "bad req") (split_on ',' reqs) in
    let (t, refs) = get (GhwAlias.register_all (GhwAlias.tr_new (nat_of_int (int_of_string max_id))) ops) in
    let r = Stdlib.String.concat "," (Stdlib.List.map (fun x -> string_of_int (int_of_nat x)) refs) in
    let tb = Stdlib.List.map (fun a -> Printf.sprintf "%d:%d:%d:%d" (int_of_nat a.GhwAlias.ai_ref)
               (int_of_nat a.GhwAlias.ai_msb) (int_of_nat a.GhwAlias.ai_lsb) (int_of_nat a.GhwAlias.ai_sliced)) t.GhwAlias.tr_aliases in
    "refs=" ^ r ^ " aliases=" ^ (if tb = [] then "-" else Stdlib.String.concat "," tb)
  | _ -> "BADCASE"

(* ---- serde <TypeName> <doc> ----
   doc: n | t | f | i<decimal>; | s<hex>; | a<count>;item.. | o<count>;(s<hex>;item).. *)
let n_of_dec (s : string) : BinNums.coq_N =
  let ten = n_of_int 10 in
  let acc = ref BinNums.N0 in
  Stdlib.String.iter (fun c ->
    if c < '0' || c > '9' then failwith ("bad decimal " ^ s);
    acc := BinNat.N.add (BinNat.N.mul !acc ten) (n_of_int (Char.code c - 48))) s;
  !acc

let z_of_dec (s : string) : BinNums.coq_Z =
  let neg = Stdlib.String.length s > 0 && s.[0] = '-' in
  let body = if neg then Stdlib.String.sub s 1 (Stdlib.String.length s - 1) else s in
  match n_of_dec body with
  | BinNums.N0 -> BinNums.Z0
  | BinNums.Npos p -> if neg then BinNums.Zneg p else BinNums.Zpos p

let bytes_of_hexstr (h : string) : BinNums.coq_N list =
  Stdlib.List.init (Stdlib.String.length h / 2) (fun i -> n_of_int (int_of_string ("0x" ^ Stdlib.String.sub h (2 * i) 2)))

let parse_json_doc (s : string) : Serde.json =
  let pos = ref 0 in
  let until_semicolon () =
    let start = !pos in
    while s.[!pos] <> ';' do incr pos done;
    let r = Stdlib.String.sub s start (!pos - start) in
    incr pos; r in
  let rec item () : Serde.json =
    let c = s.[!pos] in
    incr pos;
    match c with
    | 'n' -> Serde.JNull
    | 't' -> Serde.JBool true
    | 'f' -> Serde.JBool false
    | 'i' -> Serde.JNum (z_of_dec (until_semicolon ()))
    | 's' -> Serde.JStr (bytes_of_hexstr (until_semicolon ()))
    | 'a' ->
      let n = int_of_string (until_semicolon ()) in
      let acc = ref [] in
      for _ = 1 to n do acc := item () :: !acc done;
      Serde.JArr (Stdlib.List.rev !acc)
    | 'o' ->
      let n = int_of_string (until_semicolon ()) in
      let acc = ref [] in
      for _ = 1 to n do
        (match item () with
         | Serde.JStr k -> let v = item () in acc := (k, v) :: !acc
         | _ -> failwith "object key is not a string")
      done;
      Serde.JObj (Stdlib.List.rev !acc)
    | _ -> failwith "bad document" in
  let j = item () in
  if !pos <> Stdlib.String.length s then failwith "trailing input in document";
  j

let cmd_serde (args : string list) : string =
  match args with
  | [name; doc] ->
    (match Stdlib.List.find_opt (fun (n, _) -> str_of_bytes n = name) SerdeSchema.serde_types with
     | None -> "NOTYPE"
     | Some (_, t) ->
       let j = parse_json_doc doc in
       (match Serde.de t j with
        | None -> "reject"
        | Some v ->
          (match Serde.ser t v with
           | None -> "accept-unwritable"
           | Some j2 -> if j2 = j then "accept-same" else "accept-differs")))
  | _ -> "BADCASE"

(* ---- fsth <debug01> <entries> <datehex> <versionhex> <exponent> ----
   entries: the dependency's hierarchy entry stream as printed by the harness command fsthier *)
let hxs (s : string) : BinNums.coq_N list = if s = "_" then [] else bytes_of_hex s
let hxo (l : BinNums.coq_N list) : string = if l = [] then "_" else hex_of_bytes l

let fst_entries_of (s : string) : FstHier.fst_entry list =
  if s = "-" then [] else
  Stdlib.List.map (fun e ->
    match Stdlib.String.split_on_char ':' e with
    | ["S"; tpe; nm; comp] -> FstHier.FeScope (n_of_int (int_of_string tpe), hxs nm, hxs comp)
    | ["U"] -> FstHier.FeUpScope
    | ["V"; tpe; dir; nm; len; h] ->
      FstHier.FeVar (n_of_int (int_of_string tpe), n_of_int (int_of_string dir), hxs nm, n_of_dec len, nat_of_int (int_of_string h))
    | ["P"; id; nm] -> FstHier.FePathName (n_of_dec id, hxs nm)
    | ["T"; inst; pid; line] -> FstHier.FeSourceStem (inst = "1", n_of_dec pid, n_of_dec line)
    | ["C"] -> FstHier.FeComment
    | ["E"; nm; h; m] ->
      let mapping = if m = "_" then [] else Stdlib.List.map (fun p -> let (a, b) = split2 '>' p in (hxs a, hxs b)) (Stdlib.String.split_on_char '+' m) in
      FstHier.FeEnumTable (hxs nm, n_of_dec h, mapping)
    | ["R"; h] -> FstHier.FeEnumTableRef (n_of_dec h)
    | ["H"; tn; vt; dt] -> FstHier.FeVhdlVarInfo (hxs tn, n_of_int (int_of_string vt), n_of_int (int_of_string dt))
    | ["A"] -> FstHier.FeAttributeEnd
    | _ -> failwith ("bad fst entry " ^ e)) (Stdlib.String.split_on_char ';' s)

let cmd_fsth (args : string list) : string =
  match args with
  | [dbg; entries; date; version; exp] ->
    let debug = dbg = "1" in
    let calls = get (FstHier.fst_read_hierarchy debug (fst_entries_of entries)) in
    let ops = Stdlib.List.concat_map FstHier.hier_op_of calls in
    let b = get (Hierarchy.hier_run Hierarchy.hb_new ops) in
    let enums = Stdlib.List.filter_map (fun c -> match c with FstHier.FcEnum (n, m) -> Some (n, m) | _ -> None) calls in
    let loc o = match o with None -> "~" | Some (p, l) -> hxo p ^ "@" ^ dec_of_n l in
    let vx = Stdlib.List.filter_map (fun c -> match c with
      | FstHier.FcVar (_, _, _, _, _, _, en, tn) ->
        Some ((match tn with None -> "~" | Some t -> hxo t) ^ "/" ^
              (match en with None -> "~" | Some id ->
                 let (n, m) = Stdlib.List.nth enums (int_of_nat id) in
                 hxo n ^ "[" ^ Stdlib.String.concat "+" (Stdlib.List.map (fun (a, b) -> hxo a ^ ">" ^ hxo b) m) ^ "]"))
      | _ -> None) calls in
    let sxl = Stdlib.List.filter_map (fun c -> match c with
      | FstHier.FcScope (_, _, _, d, i) -> Some (loc d ^ "/" ^ loc i)
      | _ -> None) calls in
    (* a scope that is declared again continues the first one: then the calls and the scopes are not one to one *)
    let sx = if Stdlib.List.length sxl <> Stdlib.List.length b.Hierarchy.hb_scopes then "?"
             else if sxl = [] then "-" else Stdlib.String.concat ";" sxl in
    let ts = (match FstHier.convert_timescale debug (z_of_dec exp) with
              | Base.Ok (f, u) -> dec_of_n f ^ ":" ^ dec_of_n u
              | Base.Err -> raise Model_err | Base.Panic -> raise Model_panic) in
    let hobs = Stdlib.String.map (fun c -> if c = ' ' then ',' else c) (hierarchy_obs b) in
    Printf.sprintf "%s vx=%s sx=%s date=%s version=%s ts=%s" hobs
      (if vx = [] then "-" else Stdlib.String.concat ";" vx) sx
      (hxo (FstHier.trim (hxs date))) (hxo (FstHier.trim (hxs version))) ts
  | _ -> "BADCASE"

(* ---- fstl <debug01> <tt> <ids> <tpes> <cbs> ---- FstWaveDatabase::load_signals *)
let cmd_fstl (args : string list) : string =
  match args with
  | [dbg; tt; ids; tpes; cbs] ->
    let debug = dbg = "1" in
    let tt = if tt = "-" then [] else Stdlib.List.map n_of_hex (split_on ',' tt) in
    let ids = Stdlib.List.map (fun i -> nat_of_int (int_of_string i)) (split_on ',' ids) in
    let tpes = Stdlib.List.map sig_enc_of (split_on ',' tpes) in
    let cbs = if cbs = "-" then [] else Stdlib.List.map (fun c ->
      match Stdlib.String.split_on_char ':' c with
      | [time; h; v] ->
        let payload = Stdlib.String.sub v 1 (Stdlib.String.length v - 1) in
        let fv = if v.[0] = 'r' then FstLoad.FvReal (Stdlib.List.rev (bytes_of_hex payload)) else FstLoad.FvString (hxs payload) in
        ((n_of_hex time, nat_of_int (int_of_string h)), fv)
      | _ -> failwith ("bad callback " ^ c)) (Stdlib.String.split_on_char ';' cbs) in
    let sigs = get (FstHier.fst_load_signals debug tt ids tpes cbs) in
    Stdlib.String.concat "|" (Stdlib.List.map signal_obs sigs)
  | _ -> "BADCASE"

(* ---- ghwh <debug01> <path> ---- the header of a GHW file (strings, types, hierarchy) read by the model of
   ghw/hierarchy.rs; prints the hierarchy the builder calls make, type names and enum tables per variable, the sub-range
   table and the decode information *)
let read_file_bytes (path : string) : BinNums.coq_N list =
  let ic = open_in_bin path in
  let n = in_channel_length ic in
  let s = really_input_string ic n in
  close_in ic;
  bytes_of_string s

let cmd_ghwh (args : string list) : string =
  match args with
  | [dbg; path] ->
    let debug = dbg = "1" in
    let (_, res) = get (GhwFile.ghw_read_header_file debug (read_file_bytes path)) in
    let calls = res.GhwHier.ghr_calls in
    let ops = Stdlib.List.concat_map FstHier.hier_op_of calls in
    let b = get (Hierarchy.hier_run Hierarchy.hb_new ops) in
    let enums = Stdlib.List.filter_map (fun c -> match c with FstHier.FcEnum (n, m) -> Some (n, m) | _ -> None) calls in
    let vx = Stdlib.List.filter_map (fun c -> match c with
      | FstHier.FcVar (_, _, _, _, _, _, en, tn) ->
        Some ((match tn with None -> "~" | Some t -> hxo t) ^ "/" ^
              (match en with None -> "~" | Some id ->
                 let (n, m) = Stdlib.List.nth enums (int_of_nat id) in
                 hxo n ^ "[" ^ Stdlib.String.concat "+" (Stdlib.List.map (fun (a, b) -> hxo a ^ ">" ^ hxo b) m) ^ "]"))
      | _ -> None) calls in
    let t = res.GhwHier.ghr_tracker in
    let sl = Stdlib.List.map (fun a -> Printf.sprintf "%d:%d:%d:%d" (int_of_nat a.GhwAlias.ai_ref)
               (int_of_nat a.GhwAlias.ai_msb) (int_of_nat a.GhwAlias.ai_lsb) (int_of_nat a.GhwAlias.ai_sliced)) t.GhwAlias.tr_aliases in
    let sl = Stdlib.List.sort compare sl in
    let hobs = Stdlib.String.map (fun c -> if c = ' ' then ',' else c) (hierarchy_obs b) in
    Printf.sprintf "%s vx=%s slices=%s" hobs
      (if vx = [] then "-" else Stdlib.String.concat ";" vx)
      (if sl = [] then "-" else Stdlib.String.concat "," sl)
  | _ -> "BADCASE"

(* ---- ghwf <debug01> <path> ---- a whole GHW file: header, then the signal sections read with the header's decode
   information; prints the time table and every signal that is not a sub-range of another one *)
let cmd_ghwf (args : string list) : string =
  match args with
  | [dbg; path] ->
    let debug = dbg = "1" in
    let ((res, tpes), body) = get (GhwFile.ghw_read_file lz_compress !cap debug (read_file_bytes path)) in
    (match body with
     | None -> "ERR"
     | Some (blocks, tt) ->
       let t = res.GhwHier.ghr_tracker in
       let alias_refs = Stdlib.List.map (fun a -> int_of_nat a.GhwAlias.ai_ref) t.GhwAlias.tr_aliases in
       let obs = Stdlib.List.mapi (fun i tpe ->
         if Stdlib.List.mem i alias_refs then ""
         else
           let s = get (WaveMem.load_signal lz_decompress blocks (nat_of_int i) tpe) in
           Printf.sprintf " s%d=%s" i (signal_obs s)) tpes in
       "tt=" ^ tt_obs tt ^ Stdlib.String.concat "" obs)
  | _ -> "BADCASE"

let dispatch (cmd : string) (args : string list) : string =
  match cmd with
  | "offsets" -> cmd_offsets args
  | "enc" -> cmd_enc args
  | "body" -> cmd_body args
  | "fstw" -> cmd_fstw args
  | "hier" -> cmd_hier args
  | "vhdr" -> cmd_vhdr args
  | "detect" -> cmd_detect args
  | "slice" -> cmd_slice args
  | "loadseq" -> cmd_loadseq args
  | "py" -> cmd_py args
  | "ghws" -> cmd_ghws args
  | "ghwreg" -> cmd_ghwreg args
  | "vcd" -> cmd_vcd args
  | "serde" -> cmd_serde args
  | "fsth" -> cmd_fsth args
  | "fstl" -> cmd_fstl args
  | "ghwh" -> cmd_ghwh args
  | "ghwf" -> cmd_ghwf args
  | _ -> "UNSUPPORTED"

let () =
  let argv = Array.to_list Sys.argv in
  let argv = Stdlib.List.filter (fun a -> if a = "--release" then (debug := false; false) else true) argv in
  let ic = (match argv with _ :: f :: _ -> open_in f | _ -> stdin) in
  let lineno = ref 0 in
  (try
    while true do
      let line = input_line ic in
      incr lineno;
      if line <> "" && line.[0] <> '#' then begin
        match Stdlib.String.split_on_char ' ' line with
        | cmd :: args ->
          let res = (try dispatch cmd args with
                     | Model_panic -> "PANIC"
                     | Model_err -> "ERR"
                     | Stack_overflow -> "MODEL-STACK-OVERFLOW"
                     | Failure m -> "MODEL-FAILURE:" ^ m) in
          print_string (string_of_int !lineno); print_char ' '; print_endline res
        | [] -> ()
      end
    done
  with End_of_file -> ())
