(* Property C14: all entry points load the same waveform.
   Pinned: the two single-stream ways of reading a VCD body - from a byte slice (stop position = last byte) and
   through a BufRead (stop position = absolute end of the file including the header) - produce the same blocks and
   time table for every input, because a stop position at or beyond the last byte can never fire the hand-over rule.
   NOT proved: the BufReader refill logic (fill_buf / consume with arbitrary capacities), memory-mapped files and
   the header entry points; those are decided by the correspondence run over buffer capacities 3..16 bytes, refill
   alignments and all entry points (MANIFEST level_note). *)
From WV Require Import Model.Base Model.Bits Model.WaveMem Model.VcdBody Proofs.BodyProofs Proofs.EntryProofs.
Open Scope N_scope.

Check entry_points_agree :
  forall (parse_f64 : list byte -> option (list byte)) (lz_compress : list byte -> list byte) (cap : N)
         debug tpes lookup input header_len,
  read_values_st parse_f64 lz_compress cap debug tpes lookup input
  = read_values_reader parse_f64 lz_compress cap debug tpes lookup input header_len.

Check parse_body_stop_irrelevant :
  forall debug input s1 s2, N.of_nat (length input) <= s1 + 1 -> N.of_nat (length input) <= s2 + 1 ->
  parse_body debug input s1 = parse_body debug input s2.

Print Assumptions entry_points_agree.
Print Assumptions parse_body_stop_irrelevant.
