//! Canonical observations of loaded signals, time tables and hierarchies.
use crate::util::*;
use wellen::*;

/// `idx:K:value` with K in {2,4,9,R,S}; reals as the 16 hex digits of the bit pattern,
/// strings hex encoded, bit vectors as their characters.
pub fn signal_obs(signal: &Signal) -> String {
    let mut out: Vec<String> = Vec::new();
    for (idx, value) in signal.iter_changes() {
        let s = guarded(|| match value {
            SignalValue::Binary(_, _) => format!("{:x}:2:{}", idx, value.to_bit_string().unwrap()),
            SignalValue::FourValue(_, _) => format!("{:x}:4:{}", idx, value.to_bit_string().unwrap()),
            SignalValue::NineValue(_, _) => format!("{:x}:9:{}", idx, value.to_bit_string().unwrap()),
            SignalValue::Real(r) => format!("{:x}:R:{:016x}", idx, r.to_bits()),
            SignalValue::String(s) => format!("{:x}:S:{}", idx, hex_of_bytes(s.as_bytes())),
        });
        out.push(s);
    }
    if out.is_empty() {
        "-".to_string()
    } else {
        out.join(",")
    }
}

pub fn time_table_obs(tt: &[Time]) -> String {
    if tt.is_empty() {
        return "-".to_string();
    }
    tt.iter().map(|t| format!("{:x}", t)).collect::<Vec<_>>().join(",")
}
