(* Model runner: reads one case per line from the case file, evaluates the extracted
   Gallina model and prints one observation per line, in the same grammar as the
   Rust harness (`wv`). *)
open Conv

let show_outcome (f : 'a -> string) (o : 'a Base.outcome) : string =
  match o with Base.Ok a -> f a | Base.Err -> "ERR" | Base.Panic -> "PANIC"

(* ---- offsets: <idx,idx,...> <query,query,...>  (hex) ---- *)
let cmd_offsets (args : string list) : string =
  match args with
  | [idxs; queries] ->
    let l = Stdlib.List.map n_of_hex (split_on ',' idxs) in
    let qs = Stdlib.List.map n_of_hex (split_on ',' queries) in
    let one q =
      show_outcome (fun r ->
        match r with
        | None -> "none"
        | Some d ->
          let open Signals in
          let tidx = show_outcome hex_of_n (get_time_idx_at l d) in
          let elems = int_of_n d.do_elements in
          let poss = Stdlib.List.init (min elems 70000) (fun k ->
            show_outcome (fun p -> string_of_int (int_of_nat p)) (get_value_pos d (n_of_int k))) in
          Printf.sprintf "%d:%s:%s:%s:t%s:p%s" (int_of_nat d.do_start) (hex_of_n d.do_elements)
            (if d.do_time_match then "T" else "F")
            (match d.do_next_index with None -> "-" | Some x -> hex_of_n x)
            tidx (Stdlib.String.concat "." poss))
        (Signals.get_offset l q) in
    let vals = Stdlib.List.mapi (fun i _ -> i) l in
    let it = Signals.iter_changes l vals in
    "iter=" ^ Stdlib.String.concat "," (Stdlib.List.map (fun (t, v) -> hex_of_n t ^ ":" ^ string_of_int v) it)
    ^ " " ^ Stdlib.String.concat " " (Stdlib.List.map one qs)
  | _ -> "BADCASE"

let dispatch (cmd : string) (args : string list) : string =
  match cmd with
  | "offsets" -> cmd_offsets args
  | _ -> "UNSUPPORTED"

let () =
  let ic = if Array.length Sys.argv > 1 then open_in Sys.argv.(1) else stdin in
  let lineno = ref 0 in
  (try
    while true do
      let line = input_line ic in
      incr lineno;
      if line <> "" && line.[0] <> '#' then begin
        match Stdlib.String.split_on_char ' ' line with
        | cmd :: args ->
          let res = (try dispatch cmd args with
                     | Stack_overflow -> "MODEL-STACK-OVERFLOW"
                     | Failure m -> "MODEL-FAILURE:" ^ m) in
          print_string (string_of_int !lineno); print_char ' '; print_endline res
        | [] -> ()
      end
    done
  with End_of_file -> ())
