(* slice_signal over a whole loaded signal (signals.rs slice_signal / slice_bit_vector / BitVectorBuilder):
   the sliced signal reports, for every entry of the parent, exactly the characters of the sub-range [msb:lsb], in
   the least sufficient kind, at the parent's time index; consecutive equal slices once (property C13). *)
From Coq Require Import Lia ZifyBool ZifyNat ZifyN.
From WV Require Import Model.Base Generated.Consts Model.Bits Model.Leb128 Model.WaveMem Model.Slice
  Spec.StoreSpec
  Proofs.BitsProofs Proofs.LebProofs Proofs.WaveMemProofs Proofs.StoreProofs Proofs.RawProofs Proofs.EncoderProofs
  Proofs.SliceProofs.
Ltac Zify.zify_post_hook ::= Z.div_mod_to_equations.
Open Scope N_scope.
Arguments N.add : simpl never. Arguments N.mul : simpl never. Arguments N.div : simpl never.
Arguments N.modulo : simpl never. Arguments N.pow : simpl never. Arguments N.lor : simpl never.
Arguments N.sub : simpl never.

(* ------------------------------------------------------------------ the raw value of the k-th entry *)

(* SignalChangeData::get_raw_value on the k-th entry of a loaded bit-vector signal: the kind the value was
   recorded with and data bytes that render to exactly its symbols *)
Lemma get_raw_value_entry mx bits local syms pre post (k : nat) :
  (1 <= bits)%nat -> length syms = bits -> small_syms local syms -> states_num local <= states_num mx ->
  length pre = (k * bpe_of mx bits)%nat ->
  exists data,
    get_raw_value (SigBits mx bits (snd (get_len_and_meta mx bits)) (bpe_of mx bits)
                           (pre ++ wide mx bits local (write_n_state_loop local syms 0 None) ++ post)) k
    = Ok (local, data) /\
    length data = div_ceil bits (per_byte local) /\ n_state_symbols local data bits = Ok syms.
Proof.
  intros Hb Hl Hs Hle Hpre.
  pose proof (wide_decode mx bits local syms Hb Hl Hs Hle) as Hd. cbn zeta in Hd.
  assert (Hwf : wf_entry mx bits local (write_n_state_loop local syms 0 None)).
  { repeat split; [assumption..|]. now rewrite packed_length, Hl. }
  pose proof (wide_length mx bits local _ Hwf) as Hwl.
  pose proof (bpe_pos mx bits Hb) as Hpos.
  set (w := wide mx bits local (write_n_state_loop local syms 0 None)) in *.
  unfold get_raw_value.
  destruct (Nat.ltb_spec (length (pre ++ w ++ post)) (k * bpe_of mx bits + bpe_of mx bits)) as [Hlt|_].
  { rewrite !app_length in Hlt. lia. }
  rewrite (firstn_skipn_mid pre w post _ _ (eq_sym Hpre) (eq_sym Hwl)).
  assert (Hw : w <> []) by (intros E; rewrite E in Hwl; cbn in Hwl; lia).
  destruct Hd as [Hd2 Hd9].
  destruct (states_eqb mx Two) eqn:Emx.
  - assert (mx = Two) by (destruct mx; [reflexivity|discriminate..]). subst mx.
    assert (local = Two) by (destruct local; cbn in Hle; [reflexivity|lia..]). subst local.
    specialize (Hd2 eq_refl). cbn [get_len_and_meta snd states_eqb states_num N.eqb negb andb] in *.
    cbn [bind]. exists w. split; [reflexivity|]. split; [|exact Hd2].
    rewrite Hwl. unfold bpe_of, get_len_and_meta, get_bytes_per_entry. reflexivity.
  - assert (Hne : mx <> Two) by (intros ->; discriminate).
    destruct (Hd9 Hne) as (Hk & Hlen & Hsym).
    destruct w as [|w0 wr] eqn:Ew; [congruence|]. cbn [hd] in Hk.
    assert (Hdata : (if snd (get_len_and_meta mx bits) then match w0 :: wr with [] => Panic | _ :: r => Ok r end else Ok (w0 :: wr))
                    = Ok (if snd (get_len_and_meta mx bits) then tl (w0 :: wr) else w0 :: wr)).
    { destruct (snd (get_len_and_meta mx bits)); reflexivity. }
    rewrite Hdata. cbn [bind].
    set (data := if snd (get_len_and_meta mx bits) then tl (w0 :: wr) else w0 :: wr) in *.
    exists (skipn (length data - div_ceil bits (per_byte local)) data).
    split.
    + destruct mx; [congruence| |]; cbn [hd_error of_option bind]; rewrite Hk, states_of_num_num; cbn [of_option bind];
        unfold usub; (destruct (Nat.leb_spec (div_ceil bits (per_byte local)) (length data)) as [_|Hc]; [|lia]);
        cbn [bind]; reflexivity.
    + split; [rewrite skipn_length; lia|exact Hsym].
Qed.

(* ------------------------------------------------------------------ the least kind of a symbol list *)

Definition kind_of_syms (syms : list N) : states :=
  if forallb (fun v => v <? 2) syms then Two else if forallb (fun v => v <? 4) syms then Four else Nine.

Lemma small_syms_forallb st syms : small_syms st syms <-> forallb (fun v => v <? 2 ^ sbits st) syms = true.
Proof.
  unfold small_syms. rewrite forallb_forall, Forall_forall. split; intros H x Hx; specialize (H x Hx); now apply N.ltb_lt.
Qed.

Lemma kind_of_syms_least syms : Forall (fun v => v <= 8) syms ->
  small_syms (kind_of_syms syms) syms /\
  (forall st, small_syms st syms -> states_num (kind_of_syms syms) <= states_num st).
Proof.
  intros H8. unfold kind_of_syms.
  destruct (forallb (fun v => v <? 2) syms) eqn:E2.
  - split; [apply (small_syms_forallb Two); exact E2|]. intros st _. destruct st; cbn; lia.
  - destruct (forallb (fun v => v <? 4) syms) eqn:E4.
    + split; [apply (small_syms_forallb Four); exact E4|].
      intros st Hst. destruct st; cbn [states_num]; try lia.
      apply (small_syms_forallb Two) in Hst. change (2 ^ sbits Two) with 2 in Hst. congruence.
    + split.
      * unfold small_syms. eapply Forall_impl; [|exact H8]. intros v Hv. cbn beta in *. change (2 ^ sbits Nine) with 16. lia.
      * intros st Hst. destruct st; cbn [states_num]; try lia.
        -- apply (small_syms_forallb Two) in Hst. change (2 ^ sbits Two) with 2 in Hst. congruence.
        -- apply (small_syms_forallb Four) in Hst. change (2 ^ sbits Four) with 4 in Hst. congruence.
Qed.

Lemma states_num_inj a b : states_num a = states_num b -> a = b.
Proof. destruct a, b; cbn; intros H; try reflexivity; discriminate. Qed.

Lemma check_min_state_kind st syms : small_syms st syms -> Forall (fun v => v <= 8) syms ->
  check_min_state (write_n_state_loop st syms 0 None) st = kind_of_syms syms.
Proof.
  intros Hs H8. destruct (check_min_state_spec st syms Hs H8) as (H1 & H2 & H3). cbn zeta in *.
  destruct (kind_of_syms_least syms H8) as [K1 K2].
  apply states_num_inj. specialize (H3 _ K1). specialize (K2 _ H1). lia.
Qed.

(* ------------------------------------------------------------------ one entry through the slicer *)

Section Slice.
Variable debug : bool.
Variable mx : states.
Variable bits : nat.
Variable msb lsb : nat.
Hypothesis range_ok : (lsb <= msb < bits)%nat.
Hypothesis proper : (msb - lsb + 1 < bits)%nat.

Definition rbits : nat := (msb - lsb + 1)%nat.
Definition sub_of (syms : list N) : list N := firstn rbits (skipn (bits - 1 - msb) syms).

(* what the slice of one recorded value is: same time index, the sub-range, in its least kind *)
Definition slice_entry (a : aentry) : aentry :=
  let '(t, _, syms) := a in (t, kind_of_syms (sub_of syms), sub_of syms).

Lemma sub_of_length syms : length syms = bits -> length (sub_of syms) = rbits.
Proof. intros H. unfold sub_of, rbits. rewrite firstn_length, skipn_length. lia. Qed.

Lemma sub_of_small st syms : small_syms st syms -> small_syms st (sub_of syms).
Proof.
  unfold small_syms, sub_of. intros H. apply Forall_forall. intros x Hx. rewrite Forall_forall in H. apply H.
  apply in_firstn in Hx. now apply in_skipn in Hx.
Qed.

Lemma sub_of_le8 syms : Forall (fun v => v <= 8) syms -> Forall (fun v => v <= 8) (sub_of syms).
Proof.
  unfold sub_of. intros H. apply Forall_forall. intros x Hx. rewrite Forall_forall in H. apply H.
  apply in_firstn in Hx. now apply in_skipn in Hx.
Qed.

Definition builder_rep (b : bv_builder) (canon : list (N * list byte)) : Prop :=
  bb_max b = mx /\ bb_bits b = rbits /\ bb_len b = fst (get_len_and_meta mx rbits) /\
  bb_has_meta b = snd (get_len_and_meta mx rbits) /\ bb_bpe b = bpe_of mx rbits /\
  bb_idx b = map fst canon /\ bb_data b = concat (map snd canon) /\ entries_ok (bpe_of mx rbits) canon.

(* BitVectorBuilder::add_change appends the widened entry, unless it repeats the previous one *)
Lemma bvb_add_change_spec b canon t m syms : builder_rep b canon ->
  length syms = rbits -> small_syms m syms -> Forall (fun v => v <= 8) syms -> states_num m <= states_num mx ->
  exists b', bvb_add_change debug b t m (write_n_state_loop m syms 0 None) = Ok b' /\
             builder_rep b' (push_canon canon (t, wide mx rbits m (write_n_state_loop m syms 0 None))).
Proof.
  intros (Hmx & Hbits & Hlen & Hmeta & Hbpe & Hidx & Hdata & Hok) Hl Hs H8 Hle.
  assert (Hrb : (1 <= rbits)%nat) by (unfold rbits; lia).
  assert (Hwf : wf_entry mx rbits m (write_n_state_loop m syms 0 None)).
  { repeat split; [assumption..|]. now rewrite packed_length, Hl. }
  pose proof (wide_length mx rbits m _ Hwf) as Hwl.
  pose proof (wide_code mx rbits m _ Hwf) as Hwc.
  set (W := wide mx rbits m (write_n_state_loop m syms 0 None)) in *.
  (* the tail of add_change, once the entry is known *)
  assert (Htail : exists b',
    (let '(changed, out) := check_if_changed_and_truncate (bb_bpe b) (bb_data b ++ W) in
     Ok (mk_bvb (bb_max b) (bb_bits b) (bb_len b) (bb_has_meta b) (bb_bpe b) out
                (if changed then bb_idx b ++ [t] else bb_idx b))) = Ok b' /\
    builder_rep b' (push_canon canon (t, W))).
  { rewrite Hbpe, Hdata.
    pose proof (push_entry_spec (bpe_of mx rbits) canon t W (bpe_pos mx rbits Hrb) Hok Hwl) as Hp.
    destruct (check_if_changed_and_truncate (bpe_of mx rbits) _) as [changed out]. destruct Hp as (H1 & H2 & H3).
    eexists. split; [reflexivity|]. unfold builder_rep. cbn [bb_max bb_bits bb_len bb_has_meta bb_bpe bb_idx bb_data].
    repeat split; try assumption. rewrite Hidx. exact H1. }
  destruct Htail as (b' & Hb' & Hrep'). exists b'. split; [|exact Hrep']. rewrite <- Hb'.
  unfold bvb_add_change. rewrite Hmx.
  destruct (N.ltb_spec (states_num mx) (states_num m)) as [Hc|_]; [lia|]. rewrite Bool.andb_false_r.
  rewrite Hbits, Hlen, Hmeta.
  destruct (Nat.eqb_spec rbits 1) as [E1|E1].
  - (* a one bit slice *)
    assert (HW : W = [N.lor (hd 0 syms mod 16) (states_num m * 64)] /\ write_n_state_loop m syms 0 None = [hd 0 syms]).
    { unfold W. rewrite E1 in *. destruct syms as [|v [|v2 r]]; try discriminate. rewrite wns_single. cbn [hd].
      apply Forall_cons_iff in H8 as [H8 _]. rewrite N.mod_small by lia. unfold wide.
      assert (G : forall st, get_len_and_meta st 1 = (1%nat, false)).
      { intros st. unfold get_len_and_meta, div_ceil. destruct st; reflexivity. }
      rewrite !G. cbn [Nat.eqb Bool.eqb andb hd tl]. now rewrite N.lor_comm. }
    destruct HW as [HW1 HW2]. rewrite HW2. cbn [hd_error of_option bind]. rewrite <- HW1. reflexivity.
  - cbn zeta. rewrite packed_length, Hl, Nat.eqb_refl. cbn [negb].
    destruct (get_len_and_meta mx rbits) as [len has_meta] eqn:Eg. cbn [fst snd].
    destruct (get_len_and_meta m rbits) as [local_len local_has_meta] eqn:Egl.
    cbn zeta in Hwc. rewrite Hwc. cbn [bind]. reflexivity.
Qed.

(* slicing one recorded value *)
Lemma slice_step b canon (t : N) l syms pre post (k : nat) : builder_rep b canon ->
  (1 <= bits)%nat -> length syms = bits -> small_syms l syms -> Forall (fun v => v <= 8) syms ->
  states_num l <= states_num mx -> length pre = (k * bpe_of mx bits)%nat ->
  let d := SigBits mx bits (snd (get_len_and_meta mx bits)) (bpe_of mx bits)
                   (pre ++ wide mx bits l (write_n_state_loop l syms 0 None) ++ post) in
  exists b',
    (do '(st, data) <- get_raw_value d k;
     do buf <- slice_n_states debug st data msb lsb bits;
     let min_states := check_min_state buf st in
     if states_eqb min_states st then bvb_add_change debug b t st buf
     else do mb <- compress_template buf st min_states rbits; bvb_add_change debug b t min_states mb) = Ok b' /\
    builder_rep b' (push_canon canon (wide_of mx rbits (slice_entry (t, l, syms)))).
Proof.
  intros Hrep Hb Hl Hs H8 Hle Hpre. cbn zeta.
  destruct (get_raw_value_entry mx bits l syms pre post k Hb Hl Hs Hle Hpre) as (data & Hraw & Hdl & Hsym).
  rewrite Hraw. cbn [bind].
  rewrite <- Hl in Hdl, Hsym.
  assert (Hsl : slice_n_states debug l data msb lsb bits
                = Ok (write_n_state_loop l (sub_of syms) 0 None)).
  { unfold sub_of, rbits. rewrite <- Hl. apply slice_n_states_sem; try assumption; rewrite Hl; assumption. }
  rewrite Hsl. cbn [bind].
  pose proof (sub_of_small l syms Hs) as Hss. pose proof (sub_of_le8 syms H8) as Hs8.
  pose proof (sub_of_length syms Hl) as Hsl'.
  rewrite (check_min_state_kind l (sub_of syms) Hss Hs8).
  destruct (kind_of_syms_least (sub_of syms) Hs8) as [K1 K2]. specialize (K2 l Hss).
  set (m := kind_of_syms (sub_of syms)) in *.
  assert (Hm : states_num m <= states_num mx) by lia.
  cbn [slice_entry wide_of]. fold m.
  destruct (states_eqb m l) eqn:Eq.
  - assert (m = l) by (apply states_num_inj; unfold states_eqb in Eq; lia). rewrite <- H.
    apply bvb_add_change_spec; assumption.
  - rewrite <- Hsl'. rewrite (compress_template_spec l m (sub_of syms) Hss). cbn [bind]. rewrite Hsl'.
    apply bvb_add_change_spec; assumption.
Qed.

Definition parent_ok (a : aentry) : Prop :=
  let '(_, l, syms) := a in
  length syms = bits /\ small_syms l syms /\ Forall (fun v => v <= 8) syms /\ states_num l <= states_num mx.

Definition parent_data (abs : list aentry) : signal_data :=
  SigBits mx bits (snd (get_len_and_meta mx bits)) (bpe_of mx bits) (concat (map snd (map (wide_of mx bits) abs))).

Lemma wide_of_length a : (1 <= bits)%nat -> parent_ok a -> length (snd (wide_of mx bits a)) = bpe_of mx bits.
Proof.
  destruct a as [[t l] syms]. intros Hb (Hl & Hs & _ & Hle). cbn [wide_of snd]. apply wide_length.
  repeat split; [assumption..|]. now rewrite packed_length, Hl.
Qed.

Lemma concat_wide_length abs : (1 <= bits)%nat -> Forall parent_ok abs ->
  length (concat (map snd (map (wide_of mx bits) abs))) = (length abs * bpe_of mx bits)%nat.
Proof.
  intros Hb H. induction H as [|a r Ha _ IH]; [reflexivity|].
  cbn [map concat length]. rewrite app_length, IH, (wide_of_length a Hb Ha). lia.
Qed.

(* the loop of slice_bit_vector over all entries of the parent *)
Lemma slice_go_spec abs : (1 <= bits)%nat -> Forall parent_ok abs ->
  forall todo done b canon, abs = done ++ todo -> builder_rep b canon ->
  exists b',
    slice_go debug (parent_data abs) msb lsb bits rbits
             (combine (seq (length done) (length todo)) (map fst (map (wide_of mx bits) todo))) b = Ok b' /\
    builder_rep b' (fold_left push_canon (map (wide_of mx rbits) (map slice_entry todo)) canon).
Proof.
  intros Hb Hok. induction todo as [|a todo IH]; intros done b canon E Hrep.
  - exists b. split; [reflexivity|exact Hrep].
  - assert (Ha : parent_ok a).
    { rewrite Forall_forall in Hok. apply Hok. rewrite E. apply in_or_app. right. now left. }
    assert (Hd : Forall parent_ok done).
    { rewrite E in Hok. now apply Forall_app in Hok as [H _]. }
    destruct a as [[t l] syms]. destruct Ha as (Hl & Hs & H8 & Hle).
    assert (Hbytes : parent_data abs
                     = SigBits mx bits (snd (get_len_and_meta mx bits)) (bpe_of mx bits)
                               (concat (map snd (map (wide_of mx bits) done))
                                ++ wide mx bits l (write_n_state_loop l syms 0 None)
                                ++ concat (map snd (map (wide_of mx bits) todo)))).
    { unfold parent_data. rewrite E, !map_app, concat_app. reflexivity. }
    destruct (slice_step b canon t l syms _ (concat (map snd (map (wide_of mx bits) todo))) (length done) Hrep Hb Hl Hs H8 Hle
                (concat_wide_length done Hb Hd)) as (b1 & Hstep & Hrep1).
    cbn zeta in Hstep. rewrite <- Hbytes in Hstep.
    specialize (IH (done ++ [(t, l, syms)]) b1 (push_canon canon (wide_of mx rbits (slice_entry (t, l, syms))))).
    rewrite app_length in IH. cbn [length] in IH. rewrite Nat.add_1_r in IH.
    destruct (IH ltac:(rewrite <- app_assoc; exact E) Hrep1) as (b' & Hgo & Hrep').
    exists b'. split; [|exact Hrep'].
    cbn [length seq map combine slice_go wide_of fst]. rewrite Hstep. cbn [bind]. exact Hgo.
Qed.

Lemma slice_entry_rok a : (1 <= bits)%nat -> parent_ok a -> rok rbits mx (slice_entry a).
Proof.
  destruct a as [[t l] syms]. intros Hb (Hl & Hs & H8 & Hle). cbn [slice_entry].
  pose proof (sub_of_le8 syms H8) as Hs8.
  destruct (kind_of_syms_least (sub_of syms) Hs8) as [K1 K2]. specialize (K2 l (sub_of_small l syms Hs)).
  split; [|cbn [fst snd]; lia]. cbn [rec_ok]. repeat split; [now apply sub_of_length|exact K1|exact Hs8].
Qed.

(* Property C13, the slicer: the signal slice_signal builds from a loaded bit-vector signal reports, for every entry
   of the parent, the characters [msb:lsb] of that entry in their least sufficient kind at the same time index;
   an entry whose slice equals the slice before it is dropped *)
Theorem slice_signal_spec abs : (1 <= bits)%nat -> Forall parent_ok abs ->
  exists sig',
    slice_signal debug (mk_signal (map fst (map (wide_of mx bits) abs)) (parent_data abs)) msb lsb = Ok sig' /\
    observe_signal sig' = outcome_map render_of (dedup (map slice_entry abs)).
Proof.
  intros Hb Hok. unfold slice_signal. cbn [s_data s_idx parent_data].
  destruct (Nat.ltb_spec msb lsb) as [Hc|_]; [lia|]. rewrite Bool.andb_false_r.
  unfold usub. destruct (Nat.leb_spec lsb msb) as [_|Hc]; [|lia]. cbn [bind].
  assert (Hrb : S (msb - lsb) = rbits) by (unfold rbits; lia). rewrite Hrb.
  assert (Hrb1 : (1 <= rbits)%nat) by (unfold rbits; lia).
  unfold bvb_new. destruct (Nat.eqb_spec rbits 0) as [Hc|_]; [lia|].
  destruct (get_len_and_meta mx rbits) as [len has_meta] eqn:Eg. cbn [bind].
  set (b0 := mk_bvb mx rbits len has_meta (get_bytes_per_entry len has_meta) [] []).
  assert (Hrep0 : builder_rep b0 []).
  { unfold builder_rep, b0, bpe_of. rewrite Eg. cbn. repeat split; constructor. }
  rewrite !map_length.
  destruct (slice_go_spec abs Hb Hok abs [] b0 [] eq_refl Hrep0) as (b' & Hgo & Hrep').
  cbn [length] in Hgo. fold (parent_data abs). rewrite Hgo. cbn [bind].
  eexists. split; [reflexivity|].
  assert (Hrok : Forall (rok rbits mx) (map slice_entry abs)).
  { apply Forall_forall. intros x Hx. apply in_map_iff in Hx as (a & <- & Ha).
    rewrite Forall_forall in Hok. now apply slice_entry_rok, Hok. }
  pose proof (push_canon_dedup rbits Hrb1 mx (map slice_entry abs) [] Hrok ltac:(constructor)) as Hd.
  cbn [map app last_opt option_map] in Hd. rewrite Hd in Hrep'. fold (dedup (map slice_entry abs)) in Hrep'.
  destruct Hrep' as (Hmx & Hbits & Hlen & Hmeta & Hbpe & Hidx & Hdata & _).
  unfold bvb_finish. rewrite Hmx, Hbits, Hmeta, Hbpe, Hidx, Hdata.
  apply observe_entries; [exact Hrb1|].
  rewrite Forall_forall in *. intros a Ha. apply dedup_by_in in Ha. specialize (Hrok a Ha).
  destruct a as [[g l] s]. destruct Hrok as [(H1 & H2 & _) H3]. cbn [fst snd] in *. repeat split; assumption.
Qed.

End Slice.

(* the hypotheses are satisfiable: an 8-bit parent with entries of three kinds, sliced to [5:2]; the second and third
   parent values have the same slice *)
Example slice_signal_example :
  let abs := [(0, Two, [1;0;1;1;0;0;1;0]); (3, Four, [1;0;2;3;0;0;1;1]); (4, Nine, [0;7;2;3;0;0;8;1]); (9, Two, [0;0;0;0;0;0;0;0])] in
  Forall (parent_ok Nine 8) abs /\
  (do s <- slice_signal true (mk_signal (map fst (map (wide_of Nine 8) abs)) (parent_data Nine 8 abs)) 5 2; observe_signal s)
  = Ok [(0, KBinary, [49; 49; 48; 48]); (3, KFour, [120; 122; 48; 48]); (9, KBinary, [48; 48; 48; 48])].
Proof.
  cbn zeta. split.
  - repeat constructor; cbn; try lia.
  - vm_compute. reflexivity.
Qed.

(* ------------------------------------------------------------------ record, load, slice *)

(* Property C13 end to end on the store: whatever history was recorded for a vector, the signal obtained by loading
   it and slicing out [msb:lsb] reports the sub-range of every reported parent value, and changes only when the
   sub-range changes *)
Theorem recorded_then_sliced
  (parse_f64 : list byte -> option (list byte)) (lz_compress : list byte -> list byte)
  (lz_decompress : list byte -> nat -> option (list byte))
  (lz_ok : forall d n, (length d <= n)%nat -> lz_decompress (lz_compress d) n = Some d)
  cap (cap_pos : 1 <= cap) (cap_u16 : cap <= 65536) id bits (bits_pos : (1 <= bits)%nat)
  debug msb lsb tpes ops e blocks ttb :
  (lsb <= msb < bits)%nat -> (msb - lsb + 1 < bits)%nat ->
  nth_error tpes id = Some (EncBits bits) ->
  Forall (op_ok id bits) ops ->
  N.of_nat (count_vcd id ops) * (10 + N.of_nat bits) < 4294967264 ->
  run_ops parse_f64 lz_compress cap (enc_new tpes) ops = Ok e ->
  enc_finish lz_compress e = Ok (blocks, ttb) ->
  N.of_nat (length ttb) < 4294967296 ->
  exists R parent sliced,
    Forall2 (decodes bits) R (recorded id ops [] false) /\
    load_signal lz_decompress blocks id (EncBits bits) = Ok parent /\
    slice_signal debug parent msb lsb = Ok sliced /\
    observe_signal sliced = outcome_map render_of (dedup (map (slice_entry bits msb lsb) (dedup R))).
Proof.
  intros Hr Hp Htp Hops Hbud Hrun Hfin Hlen.
  destruct (storage_loaded_shape parse_f64 lz_compress lz_decompress lz_ok cap cap_pos cap_u16 id bits bits_pos
              tpes ops e blocks ttb Htp Hops Hbud Hrun Hfin Hlen) as (R & mx & Hrec & Hrok & Hload).
  assert (Hpok : Forall (parent_ok mx bits) (dedup R)).
  { rewrite Forall_forall in *. intros a Ha. apply dedup_by_in in Ha. specialize (Hrok a Ha).
    destruct a as [[g l] s]. destruct Hrok as [(H1 & H2 & H3) H4]. cbn [fst snd] in *. repeat split; assumption. }
  destruct (slice_signal_spec debug mx bits msb lsb Hr Hp (dedup R) bits_pos Hpok) as (sig' & Hsl & Hobs).
  exists R. eexists. exists sig'. split; [exact Hrec|]. split; [exact Hload|]. split; [exact Hsl|exact Hobs].
Qed.
