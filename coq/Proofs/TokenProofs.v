(* The VCD body parser against the text (vcd.rs parse_body, property C01): a body written as one token group per line -
   `#<time>`, `<scalar><id>`, `<vector> <id>`, `$comment words... $end`, `$dumpvars` / `$end` / `$dumpoff` / `$dumpon` -
   is parsed into exactly the events those lines denote, in order, without error. *)
From WV Require Import Model.Base Generated.Consts Model.Bits Model.VcdBody Proofs.BodyProofs.
From Coq Require Import Lia.
Open Scope N_scope.

(* a word: at least one byte, no blank space *)
Definition no_ws (w : list byte) : Prop := Forall (fun b => is_white_space b = false) w.

(* feeding the bytes of a word *)
Lemma feed_first debug stop : forall w s, ps_state s = ParsingFirstToken -> no_ws w ->
  run_bytes debug stop w s = Running (mk_ps (ps_pos s + N.of_nat (length w)) ParsingFirstToken (ps_first s ++ w) (ps_id s) (ps_acc s)).
Proof.
  induction w as [|b w IH]; intros s Hst Hw.
  - cbn [run_bytes length]. rewrite N.add_0_r, app_nil_r. destruct s; cbn in *; subst; reflexivity.
  - apply Forall_cons_iff in Hw as [Hb Hw]. cbn [run_bytes]. rewrite Hst, Hb.
    rewrite IH by (try reflexivity; exact Hw). cbn [ps_pos ps_first ps_id ps_acc length]. f_equal. f_equal; [lia|now rewrite <- app_assoc].
Qed.

Lemma feed_id debug stop : forall w s, ps_state s = ParsingIdToken -> no_ws w ->
  run_bytes debug stop w s = Running (mk_ps (ps_pos s + N.of_nat (length w)) ParsingIdToken (ps_first s) (ps_id s ++ w) (ps_acc s)).
Proof.
  induction w as [|b w IH]; intros s Hst Hw.
  - cbn [run_bytes length]. rewrite N.add_0_r, app_nil_r. destruct s; cbn in *; subst; reflexivity.
  - apply Forall_cons_iff in Hw as [Hb Hw]. cbn [run_bytes]. rewrite Hst, Hb.
    rewrite IH by (try reflexivity; exact Hw). cbn [ps_pos ps_first ps_id ps_acc length]. f_equal. f_equal; [lia|now rewrite <- app_assoc].
Qed.

Lemma feed_end debug stop : forall w s, ps_state s = LookingForEndToken -> no_ws w ->
  run_bytes debug stop w s = Running (mk_ps (ps_pos s + N.of_nat (length w)) LookingForEndToken (ps_first s ++ w) (ps_id s) (ps_acc s)).
Proof.
  induction w as [|b w IH]; intros s Hst Hw.
  - cbn [run_bytes length]. rewrite N.add_0_r, app_nil_r. destruct s; cbn in *; subst; reflexivity.
  - apply Forall_cons_iff in Hw as [Hb Hw]. cbn [run_bytes]. rewrite Hst, Hb.
    rewrite IH by (try reflexivity; exact Hw). cbn [ps_pos ps_first ps_id ps_acc length]. f_equal. f_equal; [lia|now rewrite <- app_assoc].
Qed.

(* ------------------------------------------------------------------ lines *)

Inductive line :=
| LTime (digits : list byte)
| LScalar (c : byte) (id : list byte)
| LVector (value id : list byte)
| LComment (words : list (list byte))
| LIgnored (kw : list byte).

Definition sp (w : list byte) : list byte := 32 :: w.

Definition text_of (l : line) : list byte :=
  match l with
  | LTime d => 35 :: d
  | LScalar c id => c :: id
  | LVector v id => v ++ [32] ++ id
  | LComment ws => kw_comment ++ concat (map sp ws) ++ [32] ++ kw_end
  | LIgnored kw => kw
  end.

Definition render (ls : list line) : list byte := 10 :: concat (map (fun l => text_of l ++ [10]) ls).

Definition okw (w : list byte) : Prop := w <> [] /\ no_ws w /\ bytes_eqb w kw_end = false.

Definition line_ok (l : line) : Prop :=
  match l with
  | LTime d => no_ws d /\ exists v, parse_u64 d = Some v
  | LScalar c id => mem_byte c one_bit_first_chars = true /\ id <> [] /\ no_ws id
  | LVector v id => (exists c rest, v = c :: rest /\ rest <> [] /\ mem_byte c multi_bit_first_chars = true) /\ no_ws v /\
                    id <> [] /\ no_ws id
  | LComment ws => Forall okw ws
  | LIgnored kw => kw = kw_dumpvars \/ kw = kw_end \/ kw = kw_dumpoff \/ kw = kw_dumpon
  end.

Definition events_of (l : line) : list event :=
  match l with
  | LTime d => match parse_u64 d with Some v => [EvTime v] | None => [] end
  | LScalar c id => [EvValue [c] id]
  | LVector v id => [EvValue v id]
  | _ => []
  end.

(* the state between two lines *)
Definition clean (s : pstate) : Prop := ps_state s = ParsingFirstToken /\ ps_first s = [] /\ ps_id s = [] /\ 1 <= ps_pos s.

Lemma ws_10 : is_white_space 10 = true. Proof. reflexivity. Qed.
Lemma ws_32 : is_white_space 32 = true. Proof. reflexivity. Qed.

Lemma one_bit_facts c : mem_byte c one_bit_first_chars = true -> is_white_space c = false /\ (c =? 35) = false.
Proof.
  unfold mem_byte, one_bit_first_chars, one_bit_first_chars_src. cbn [existsb]. intros H.
  repeat (apply Bool.orb_true_iff in H as [H|H]; [apply N.eqb_eq in H; subst c; split; reflexivity|]). discriminate.
Qed.

Lemma multi_bit_facts c : mem_byte c multi_bit_first_chars = true ->
  is_white_space c = false /\ (c =? 35) = false /\ mem_byte c one_bit_first_chars = false.
Proof.
  unfold mem_byte at 1, multi_bit_first_chars, multi_bit_first_chars_src. cbn [existsb]. intros H.
  repeat (apply Bool.orb_true_iff in H as [H|H]; [apply N.eqb_eq in H; subst c; repeat split; reflexivity|]). discriminate.
Qed.

Lemma no_ws_cons b w : is_white_space b = false -> no_ws w -> no_ws (b :: w).
Proof. intros. now constructor. Qed.

Lemma last_default {A} (l : list A) : forall x d1 d2, last (x :: l) d1 = last (x :: l) d2.
Proof. induction l as [|y l IH]; intros x d1 d2; [reflexivity|]. cbn [last] in *. apply (IH y). Qed.

Lemma last_shift {A} (l : list A) x d : last (x :: l) d = last l x.
Proof. destruct l as [|y l]; [reflexivity|]. cbn [last]. change (last (y :: l) d = last (y :: l) x). apply last_default. Qed.

(* inside a comment, in front of a blank: directly after `$comment`, or after a word that is not `$end` *)
Definition pre_blank (s : pstate) : Prop :=
  (ps_state s = ParsingFirstToken /\ ps_first s = kw_comment) \/
  (ps_state s = LookingForEndToken /\ (ps_first s = [] \/ bytes_eqb (ps_first s) kw_end = false)).

Lemma blank_step debug stop s : pre_blank s ->
  run_bytes debug stop [32] s = Running (mk_ps (ps_pos s + 1) LookingForEndToken [] (ps_id s) (ps_acc s)).
Proof.
  intros [[Hst Hf]|[Hst Hf]]; cbn [run_bytes]; rewrite Hst, ws_32.
  - rewrite Hf. destruct debug; reflexivity.
  - destruct (ps_first s) as [|f0 fr]; [reflexivity|]. destruct Hf as [Hf|Hf]; [discriminate|]. now rewrite Hf.
Qed.

(* the words of a comment: each one is collected and dropped at the next blank *)
Lemma comment_words debug stop : forall ws s, pre_blank s -> Forall okw ws ->
  exists s', run_bytes debug stop (concat (map sp ws)) s = Running s' /\ pre_blank s' /\
             ps_pos s' = ps_pos s + N.of_nat (length (concat (map sp ws))) /\ ps_id s' = ps_id s /\ ps_acc s' = ps_acc s.
Proof.
  induction ws as [|w ws IH]; intros s Hs Hws.
  - exists s. cbn [map concat run_bytes length]. repeat split; [exact Hs|lia].
  - apply Forall_cons_iff in Hws as [(Hwn & Hww & Hwe) Hws]. cbn [map concat]. unfold sp at 1.
    change ((32 :: w) ++ concat (map sp ws)) with ([32] ++ (w ++ concat (map sp ws))).
    rewrite run_bytes_app, (blank_step debug stop s Hs), run_bytes_app.
    rewrite (feed_end debug stop w); [|reflexivity|exact Hww]. cbn [ps_pos ps_first ps_id ps_acc app].
    destruct (IH (mk_ps (ps_pos s + 1 + N.of_nat (length w)) LookingForEndToken w (ps_id s) (ps_acc s))) as (s' & Hr & Hp & Hpos & Hi & Ha).
    { right. split; [reflexivity|right; exact Hwe]. }
    { exact Hws. }
    exists s'. split; [exact Hr|]. split; [exact Hp|]. cbn [ps_pos ps_id ps_acc] in *. split; [|split; assumption].
    rewrite Hpos. cbn [length app]. rewrite app_length. unfold sp. cbn [length]. lia.
Qed.

(* one line, from a clean state to a clean state *)
Definition is_time (l : line) : bool := match l with LTime _ => true | _ => false end.

Lemma line_step debug stop l s : line_ok l -> clean s ->
  (is_time l = true -> ps_pos s <= stop + 1) ->
  exists s', run_bytes debug stop (text_of l ++ [10]) s = Running s' /\ clean s' /\
             ps_pos s' = ps_pos s + N.of_nat (length (text_of l)) + 1 /\ ps_acc s' = rev (events_of l) ++ ps_acc s.
Proof.
  intros Hok (Hst & Hf & Hid & Hpos) Hstop. destruct l as [d|c id|v id|ws|kw]; cbn [line_ok text_of events_of] in *.
  - (* time *)
    specialize (Hstop eq_refl). destruct Hok as [Hd (v & Hv)]. rewrite Hv.
    rewrite run_bytes_app, (feed_first debug stop (35 :: d) s Hst (no_ws_cons 35 d eq_refl Hd)), Hf. cbn [app].
    cbn [run_bytes ps_state ps_pos ps_first ps_id ps_acc]. rewrite ws_10.
    assert (Hpf : parse_first_token debug (35 :: d) = Ok (FtTime v)).
    { unfold parse_first_token. destruct d as [|d0 dr]; [cbn in Hv; discriminate|].
      cbn [length]. rewrite Bool.andb_false_r. change (35 =? 35) with true. cbn iota. now rewrite Hv. }
    rewrite Hpf. cbn [length] in *.
    destruct (N.ltb_spec (ps_pos s + N.of_nat (S (length d))) (N.of_nat (S (length d)) + 1)) as [Hc|_]; [lia|].
    destruct (N.ltb_spec stop (ps_pos s + N.of_nat (S (length d)) - N.of_nat (S (length d)) - 1)) as [Hc|_]; [lia|].
    eexists. split; [reflexivity|]. unfold clean. cbn [ps_state ps_first ps_id ps_pos ps_acc rev app]. repeat split; try reflexivity; try assumption; try lia.
  - (* scalar *)
    destruct Hok as (Hc & Hidn & Hidw). destruct (one_bit_facts c Hc) as [Hcw Hc35].
    rewrite run_bytes_app, (feed_first debug stop (c :: id) s Hst (no_ws_cons c id Hcw Hidw)), Hf. cbn [app].
    cbn [run_bytes ps_state ps_pos ps_first ps_id ps_acc]. rewrite ws_10.
    assert (Hpf : parse_first_token debug (c :: id) = Ok FtOneBit).
    { unfold parse_first_token. destruct id as [|i0 ir]; [congruence|]. cbn [length]. rewrite Bool.andb_false_r. now rewrite Hc35, Hc. }
    rewrite Hpf. eexists. split; [reflexivity|]. unfold clean. cbn [ps_state ps_first ps_id ps_pos ps_acc rev app length] in *.
    repeat split; try reflexivity; try assumption; try lia.
  - (* vector, real, string *)
    destruct Hok as ((c & rest & -> & Hrest & Hc) & Hvw & Hidn & Hidw). destruct (multi_bit_facts c Hc) as (Hcw & Hc35 & Hc1).
    rewrite <- app_assoc. rewrite run_bytes_app, (feed_first debug stop (c :: rest) s Hst Hvw), Hf. cbn [app].
    cbn [run_bytes ps_state ps_pos ps_first ps_id ps_acc]. rewrite ws_32.
    assert (Hpf : parse_first_token debug (c :: rest) = Ok FtMultiBit).
    { unfold parse_first_token. destruct rest as [|r0 rr]; [congruence|]. cbn [length]. rewrite Bool.andb_false_r. now rewrite Hc35, Hc1, Hc. }
    rewrite Hpf. rewrite run_bytes_app. rewrite feed_id; [|reflexivity|exact Hidw]. cbn [ps_pos ps_first ps_id ps_acc].
    rewrite Hid. cbn [app run_bytes ps_state ps_pos ps_first ps_id ps_acc]. rewrite ws_10.
    destruct id as [|i0 ir]; [congruence|].
    eexists. split; [reflexivity|]. unfold clean. cbn [ps_state ps_first ps_id ps_pos ps_acc rev app].
    repeat split; try reflexivity; try assumption; try (repeat (rewrite ?app_length; cbn [length]); lia).
  - (* comment *)
    rewrite <- !app_assoc. rewrite run_bytes_app, (feed_first debug stop kw_comment s Hst ltac:(repeat constructor)), Hf. cbn [app].
    rewrite run_bytes_app.
    destruct (comment_words debug stop ws (mk_ps (ps_pos s + N.of_nat (length kw_comment)) ParsingFirstToken kw_comment (ps_id s) (ps_acc s)))
      as (s1 & Hr1 & Hp1 & Hpos1 & Hid1 & Hacc1); [left; split; reflexivity|exact Hok|].
    rewrite Hr1. change (32 :: kw_end ++ [10]) with ([32] ++ (kw_end ++ [10])).
    rewrite run_bytes_app, (blank_step debug stop s1 Hp1), run_bytes_app.
    rewrite (feed_end debug stop kw_end); [|reflexivity|repeat constructor].
    cbn [ps_pos ps_first ps_id ps_acc app run_bytes ps_state]. rewrite ws_10.
    change (bytes_eqb kw_end kw_end) with true. cbn iota.
    eexists. split; [reflexivity|]. unfold clean. cbn [ps_state ps_first ps_id ps_pos ps_acc rev app] in *.
    rewrite Hpos1, Hid1, Hacc1. repeat split; try reflexivity; try assumption; try (repeat (rewrite ?app_length; cbn [length]); lia).
  - (* ignored commands *)
    assert (Hkw : no_ws kw /\ kw <> [] /\ parse_first_token debug kw = Ok FtIgnored).
    { destruct Hok as [E|[E|[E|E]]]; subst kw; (split; [repeat constructor|split; [discriminate|destruct debug; reflexivity]]). }
    destruct Hkw as (Hw & Hn & Hp).
    rewrite run_bytes_app, (feed_first debug stop kw s Hst Hw), Hf. cbn [app run_bytes ps_state ps_pos ps_first ps_id ps_acc]. rewrite ws_10.
    destruct kw as [|k0 kr]; [congruence|]. rewrite Hp.
    eexists. split; [reflexivity|]. unfold clean. cbn [ps_state ps_first ps_id ps_pos ps_acc rev app].
    repeat split; try reflexivity; try assumption; try lia.
Qed.


Lemma lines_run debug stop : forall ls s, Forall line_ok ls -> clean s ->
  ps_pos s + N.of_nat (length (concat (map (fun l => text_of l ++ [10]) ls))) <= stop + 1 ->
  exists s', run_bytes debug stop (concat (map (fun l => text_of l ++ [10]) ls)) s = Running s' /\ clean s' /\
             ps_acc s' = rev (flat_map events_of ls) ++ ps_acc s.
Proof.
  induction ls as [|l ls IH]; intros s Hok Hs Hstop.
  - exists s. cbn. repeat split; try apply Hs. 
  - apply Forall_cons_iff in Hok as [Hl Hls]. cbn [map concat] in *. rewrite !app_length in Hstop. cbn [length] in Hstop.
    destruct (line_step debug stop l s Hl Hs ltac:(intros _; lia)) as (s1 & Hr1 & Hc1 & Hp1 & Ha1).
    rewrite run_bytes_app, Hr1.
    destruct (IH s1 Hls Hc1 ltac:(rewrite Hp1; lia)) as (s' & Hr & Hc & Ha).
    exists s'. split; [exact Hr|]. split; [exact Hc|]. rewrite Ha, Ha1. cbn [flat_map]. rewrite rev_app_distr, app_assoc. reflexivity.
Qed.

(* Property C01, the text level: a body written one token group per line is parsed into exactly the events its lines
   denote - every time stamp, every scalar and every vector / real / string change with its identifier code, in order;
   comments and the ignored commands contribute nothing; no error, no panic *)
Theorem parse_body_lines debug ls stop : Forall line_ok ls -> N.of_nat (length (render ls)) <= stop + 1 ->
  parse_body debug (render ls) stop = (flat_map events_of ls, PDone).
Proof.
  intros Hok Hstop. unfold parse_body, render in *. rewrite parse_loop_run. cbn [length] in Hstop.
  cbn [run_bytes ps_state ps_pos ps_first ps_id ps_acc]. change (10 =? 10) with true. cbn iota.
  destruct (lines_run debug stop ls (mk_ps (0 + 1) ParsingFirstToken [] [] []) Hok) as (s' & Hr & (Hst & Hf & _) & Ha).
  - unfold clean. cbn. repeat split; lia.
  - cbn [ps_pos]. lia.
  - rewrite Hr. cbn [finish]. unfold eof_flush. rewrite Hst, Hf, Ha. cbn [ps_acc]. rewrite app_nil_r, rev_append_rev, app_nil_r, rev_involutive. reflexivity.
Qed.

Example parse_body_lines_example :
  let ls := [LIgnored kw_dumpvars; LScalar 49 [33]; LVector [98; 49; 120] [34]; LIgnored kw_end; LTime [53];
             LComment [[49; 33]; [35; 55]]; LComment []; LVector [114; 49; 46; 53] [35]; LScalar 120 [33]] in
  Forall line_ok ls /\
  parse_body true (render ls) 1000 = ([EvValue [49] [33]; EvValue [98; 49; 120] [34]; EvTime 5; EvValue [114; 49; 46; 53] [35]; EvValue [120] [33]], PDone).
Proof.
  cbn zeta. split; [|vm_compute; reflexivity].
  assert (Hw : forall w, forallb (fun b => negb (is_white_space b)) w = true -> no_ws w).
  { intros w H. apply Forall_forall. intros b Hb. rewrite forallb_forall in H. specialize (H b Hb). now destruct (is_white_space b). }
  repeat apply Forall_cons; try apply Forall_nil; cbn [line_ok].
  - left. reflexivity.
  - split; [reflexivity|split; [discriminate|now apply Hw]].
  - split; [exists 98, [49; 120]; split; [reflexivity|split; [discriminate|reflexivity]]|]. split; [now apply Hw|split; [discriminate|now apply Hw]].
  - right. left. reflexivity.
  - split; [now apply Hw|exists 5; reflexivity].
  - split; [discriminate|split; [now apply Hw|reflexivity]].
  - split; [discriminate|split; [now apply Hw|reflexivity]].
  - split; [exists 114, [49; 46; 53]; split; [reflexivity|split; [discriminate|reflexivity]]|]. split; [now apply Hw|split; [discriminate|now apply Hw]].
  - split; [reflexivity|split; [discriminate|now apply Hw]].
Qed.
