(* Navigating the hierarchy (hierarchy.rs items() walks, full_name): the pre-order walk from the top-level items
   through each scope's items terminates within its fuel and visits every variable and every scope exactly once;
   full names are total (the parent chain is strictly decreasing).  Property C08, on top of Proofs/HierProofs.v. *)
From Coq Require Import Lia Permutation.
From WV Require Import Model.Base Model.Bits Model.WaveMem Model.Hierarchy Proofs.HierProofs.
Open Scope nat_scope.

Lemma nodup_app_l {A} (a b : list A) : NoDup (a ++ b) -> NoDup a.
Proof.
  induction a as [|x a IH]; intros H; [constructor|]. cbn [app] in H. inversion H as [|? ? Hx Hn]; subst.
  constructor; [intros Hi; apply Hx; apply in_or_app; now left|now apply IH].
Qed.

(* ------------------------------------------------------------------ forests given by children lists *)

Section Forest.
Variable kt : list item_id.
Variable ks : list (list item_id).
Let n := length ks.
Let kid (s : nat) : list item_id := nth s ks [].

(* every scope index 0..n-1 occurs; listed scopes are valid; children have larger indices; nothing is listed twice *)
Hypothesis all_scopes : forall i, i < n -> In (IScope i) (kt ++ concat ks).
Hypothesis scopes_valid : forall i, In (IScope i) (kt ++ concat ks) -> i < n.
Hypothesis child_gt : forall s i, s < n -> In (IScope i) (kid s) -> s < i.
Hypothesis nodup : NoDup (kt ++ concat ks).

Fixpoint scopes_in (l : list item_id) : list nat :=
  match l with [] => [] | IScope s :: r => s :: scopes_in r | IVar _ :: r => scopes_in r end.

Lemma scopes_in_app a b : scopes_in (a ++ b) = scopes_in a ++ scopes_in b.
Proof. induction a as [|x a IH]; cbn [app scopes_in]; [reflexivity|]. destruct x; [now rewrite IH|exact IH]. Qed.

Lemma scopes_in_In l s : In s (scopes_in l) <-> In (IScope s) l.
Proof.
  induction l as [|x l IH]; cbn [scopes_in In]; [tauto|]. destruct x as [s'|v]; cbn [In].
  - rewrite IH. split.
    + intros [H|H]; [left; congruence|now right].
    + intros [H|H]; [left; now inversion H|now right].
  - rewrite IH. split; [intros H; now right|intros [H|H]; [discriminate|exact H]].
Qed.

Lemma scopes_in_perm a b : Permutation a b -> Permutation (scopes_in a) (scopes_in b).
Proof.
  induction 1 as [|x a b _ IH|x y a|a b c _ IH1 _ IH2]; cbn [scopes_in].
  - constructor.
  - destruct x; [now constructor|exact IH].
  - destruct x, y; try reflexivity. apply perm_swap.
  - now transitivity (scopes_in b).
Qed.

Lemma scopes_in_nodup l : NoDup l -> NoDup (scopes_in l).
Proof.
  induction 1 as [|x l Hx _ IH]; cbn [scopes_in]; [constructor|]. destruct x as [s|v]; [|exact IH].
  constructor; [|exact IH]. intros H. apply Hx. now apply scopes_in_In.
Qed.

(* the children of a list of scopes *)
Definition kids_of (S : list nat) : list item_id := concat (map kid S).

Lemma kids_of_app a b : kids_of (a ++ b) = kids_of a ++ kids_of b.
Proof. unfold kids_of. now rewrite map_app, concat_app. Qed.

Lemma kids_of_perm a b : Permutation a b -> Permutation (kids_of a) (kids_of b).
Proof.
  unfold kids_of. induction 1 as [|x a b _ IH|x y a|a b c _ IH1 _ IH2]; cbn [map concat].
  - constructor.
  - now apply Permutation_app_head.
  - rewrite !app_assoc. apply Permutation_app_tail, Permutation_app_comm.
  - now transitivity (concat (map kid b)).
Qed.

Lemma kids_of_seq : kids_of (seq 0 n) = concat ks.
Proof.
  unfold kids_of, kid, n. f_equal. clear.
  assert (G : forall (l : list (list item_id)) pre, map (fun s => nth s (pre ++ l) []) (seq (length pre) (length l)) = l).
  { induction l as [|x l IH]; intros pre; cbn [length seq map]; [reflexivity|]. f_equal.
    - rewrite app_nth2 by lia. now rewrite Nat.sub_diag.
    - specialize (IH (pre ++ [x])). rewrite app_length in IH. cbn [length] in IH. rewrite Nat.add_1_r, <- app_assoc in IH. exact IH. }
  exact (G ks []).
Qed.

(* the items the walk lists: each item followed by the walk of its children, `fd` levels deep *)
Fixpoint flat (fd : nat) (items : list item_id) : list item_id :=
  match fd with
  | O => items
  | S f => flat_map (fun it => it :: match it with IScope s => flat f (kid s) | IVar _ => [] end) items
  end.

Lemma flat_app fd a b : flat fd (a ++ b) = flat fd a ++ flat fd b.
Proof. destruct fd; cbn [flat]; [reflexivity|apply flat_map_app]. Qed.

(* level by level: the items themselves, then the walk of all their children *)
Lemma flat_levels fd : forall items, Permutation (flat (S fd) items) (items ++ flat fd (kids_of (scopes_in items))).
Proof.
  induction items as [|it items IH]; [destruct fd; reflexivity|].
  change (flat (S fd) (it :: items)) with ((it :: match it with IScope s => flat fd (kid s) | IVar _ => [] end) ++ flat (S fd) items).
  cbn [app]. apply perm_skip. destruct it as [s|v]; cbn [scopes_in].
  - unfold kids_of. cbn [map concat]. fold (kids_of (scopes_in items)). rewrite flat_app.
    rewrite IH. rewrite !app_assoc. apply Permutation_app_tail, Permutation_app_comm.
  - exact IH.
Qed.

Lemma flat_perm fd : forall a b, Permutation a b -> Permutation (flat fd a) (flat fd b).
Proof.
  destruct fd; cbn [flat]; [auto|]. intros a b H.
  induction H as [|x a b _ IH|x y a|a b c _ IH1 _ IH2]; cbn [flat_map].
  - constructor.
  - now apply Permutation_app_head.
  - rewrite !app_assoc. apply Permutation_app_tail, Permutation_app_comm.
  - etransitivity; eassumption.
Qed.

(* the next level of a list of items, and everything down to level j *)
Definition nextl (X : list item_id) : list item_id := kids_of (scopes_in X).

Lemma nextl_app a b : nextl (a ++ b) = nextl a ++ nextl b.
Proof. unfold nextl. now rewrite scopes_in_app, kids_of_app. Qed.

Lemma nextl_perm X Y : Permutation X Y -> Permutation (nextl X) (nextl Y).
Proof. intros H. unfold nextl. apply kids_of_perm, scopes_in_perm, H. Qed.

Fixpoint V (j : nat) (X : list item_id) : list item_id := match j with O => X | S k => X ++ V k (nextl X) end.

Lemma flat_V : forall j X, Permutation (flat j X) (V j X).
Proof.
  induction j as [|j IH]; intros X; [reflexivity|]. cbn [V]. rewrite flat_levels. apply Permutation_app_head.
  fold (nextl X). apply IH.
Qed.

Lemma nextl_V : forall j X, nextl (V j X) = V j (nextl X).
Proof. induction j as [|j IH]; intros X; cbn [V]; [reflexivity|]. now rewrite nextl_app, IH. Qed.

Fixpoint U (j : nat) : list item_id := match j with O => kt | S k => kt ++ nextl (U k) end.

Lemma V_U : forall j, Permutation (V j kt) (U j).
Proof.
  induction j as [|j IH]; [reflexivity|]. cbn [V U]. apply Permutation_app_head.
  rewrite <- nextl_V. now apply nextl_perm.
Qed.

Lemma flat_U j : Permutation (flat j kt) (U j).
Proof. rewrite flat_V. apply V_U. Qed.

(* ---------- U j grows to the whole forest ---------- *)

Let A := kt ++ concat ks.

Lemma in_kid_A s x : s < n -> In x (kid s) -> In x A.
Proof. intros Hs Hx. apply in_or_app. right. apply in_concat. exists (kid s). split; [apply nth_In; exact Hs|exact Hx]. Qed.

Lemma in_A_cases x : In x A -> In x kt \/ exists s, s < n /\ In x (kid s).
Proof.
  intros H. apply in_app_or in H as [H|H]; [now left|right].
  apply in_concat in H as (l & Hl & Hx). apply (In_nth _ _ []) in Hl as (s & Hs & <-). exists s. split; assumption.
Qed.

(* a duplicate-free list of scope indices below n is part of seq 0 n *)
Lemma nodup_incl_split (S L : list nat) : NoDup S -> incl S L -> exists rest, Permutation L (S ++ rest).
Proof.
  revert L. induction S as [|x S IH]; intros L Hn Hi; [exists L; reflexivity|].
  inversion Hn as [|? ? Hx Hn']; subst.
  assert (Hin : In x L) by (apply Hi; now left).
  apply in_split in Hin as (l1 & l2 & ->).
  destruct (IH (l1 ++ l2) Hn') as (rest & Hp).
  { intros y Hy. assert (In y (l1 ++ x :: l2)) by (apply Hi; now right).
    apply in_app_or in H as [H|[H|H]]; [apply in_or_app; now left|subst; contradiction|apply in_or_app; now right]. }
  exists rest. rewrite <- Permutation_middle. cbn [app]. now apply perm_skip.
Qed.

Lemma nodup_kids_of S : NoDup S -> (forall s, In s S -> s < n) -> NoDup (kt ++ kids_of S).
Proof.
  intros Hn Hlt. destruct (nodup_incl_split S (seq 0 n) Hn) as (rest & Hp).
  { intros s Hs. apply in_seq. specialize (Hlt s Hs). lia. }
  assert (HA : Permutation A (kt ++ kids_of S ++ kids_of rest)).
  { unfold A. rewrite <- kids_of_seq, <- kids_of_app. apply Permutation_app_head, kids_of_perm, Hp. }
  pose proof (Permutation_NoDup HA nodup) as H. rewrite app_assoc in H. now apply nodup_app_l in H.
Qed.

Lemma incl_kids_of S : (forall s, In s S -> s < n) -> incl (kids_of S) A.
Proof.
  intros Hlt x Hx. unfold kids_of in Hx. apply in_concat in Hx as (l & Hl & Hx). apply in_map_iff in Hl as (s & <- & Hs).
  apply (in_kid_A s); [now apply Hlt|exact Hx].
Qed.

Lemma U_inv : forall j, NoDup (U j) /\ incl (U j) A /\ (forall i, i < j -> i < n -> In (IScope i) (U j)).
Proof.
  induction j as [|j (Hnd & Hincl & Hcov)].
  - cbn [U]. split; [unfold A in nodup; now apply nodup_app_l in nodup|]. split; [intros x Hx; apply in_or_app; now left|lia].
  - cbn [U]. unfold nextl.
    assert (Hs_lt : forall s, In s (scopes_in (U j)) -> s < n).
    { intros s Hs. apply scopes_in_In in Hs. apply scopes_valid. now apply Hincl. }
    split; [apply nodup_kids_of; [now apply scopes_in_nodup|exact Hs_lt]|]. split.
    + intros x Hx. apply in_app_or in Hx as [Hx|Hx]; [apply in_or_app; now left|now apply (incl_kids_of _ Hs_lt)].
    + intros i Hi Hn. destruct (in_A_cases (IScope i) (all_scopes i Hn)) as [Hk|(p & Hp & Hk)]; [apply in_or_app; now left|].
      apply in_or_app. right. pose proof (child_gt p i Hp Hk) as Hlt.
      unfold kids_of. apply in_concat. exists (kid p). split; [|exact Hk].
      apply in_map. apply scopes_in_In. apply Hcov; lia.
Qed.

(* from level n on, U j is the whole forest *)
Lemma U_full j : n < j -> Permutation (U j) A.
Proof.
  intros Hj. destruct j as [|j]; [lia|]. cbn [U]. unfold nextl.
  destruct (U_inv j) as (Hnd & Hincl & Hcov).
  assert (Hp : Permutation (scopes_in (U j)) (seq 0 n)).
  { apply NoDup_Permutation; [now apply scopes_in_nodup|apply seq_NoDup|].
    intros s. rewrite in_seq. split.
    - intros Hs. apply scopes_in_In in Hs. split; [lia|]. apply scopes_valid. now apply Hincl.
    - intros [_ Hs]. apply scopes_in_In. apply Hcov; lia. }
  unfold A. rewrite <- kids_of_seq. apply Permutation_app_head, kids_of_perm, Hp.
Qed.

Theorem flat_full j : n < j -> Permutation (flat j kt) A.
Proof. intros Hj. rewrite flat_U. now apply U_full. Qed.

End Forest.

(* ------------------------------------------------------------------ the walk of the model *)

Section Walk.
Variables (b : builder) (kt : list item_id) (ks : list (list item_id)).
Hypothesis Hinv : hinv b kt ks.
Let n := length ks.
Let kid (s : nat) : list item_id := nth s ks [].

Lemma w_all_scopes i : i < n -> In (IScope i) (kt ++ concat ks).
Proof.
  intros Hi. eapply Permutation_in; [apply Permutation_sym, (h_perm _ _ _ Hinv)|].
  apply in_all_ids. cbn [valid]. unfold n in Hi. now rewrite (h_len _ _ _ Hinv) in Hi.
Qed.

Lemma w_scopes_valid i : In (IScope i) (kt ++ concat ks) -> i < n.
Proof.
  intros H. apply (Permutation_in _ (h_perm _ _ _ Hinv)) in H. apply in_all_ids in H. cbn [valid] in H.
  unfold n. now rewrite (h_len _ _ _ Hinv).
Qed.

Lemma w_child_gt s i : s < n -> In (IScope i) (kid s) -> s < i.
Proof.
  intros Hs Hi. apply (h_parlt _ _ _ Hinv). apply (h_par _ _ _ Hinv (Some s)); [exact Hs|exact Hi].
Qed.

Lemma w_nodup : NoDup (kt ++ concat ks).
Proof. apply (nodup_whole b kt ks Hinv). Qed.

(* the specification of the walk with depths *)
Fixpoint pre (fd depth : nat) (items : list item_id) : list (nat * item_id) :=
  match fd with
  | O => map (pair depth) items
  | S f => flat_map (fun it => (depth, it) :: match it with IScope s => pre f (S depth) (kid s) | IVar _ => [] end) items
  end.

Lemma pre_flat : forall fd depth items, map snd (pre fd depth items) = flat ks fd items.
Proof.
  induction fd as [|fd IH]; intros depth items; cbn [pre flat].
  - rewrite map_map. cbn [snd]. apply map_id.
  - induction items as [|it items IHi]; [reflexivity|]. cbn [flat_map]. rewrite map_app. cbn [map snd]. rewrite IHi.
    destruct it as [s|v]; [now rewrite IH|reflexivity].
Qed.

Lemma pre_cons fd depth it r :
  pre (S fd) depth (it :: r) = ((depth, it) :: match it with IScope s => pre fd (S depth) (kid s) | IVar _ => [] end) ++ pre (S fd) depth r.
Proof. reflexivity. Qed.

Definition adequate (fd : nat) (items : list item_id) : Prop :=
  forall s, In (IScope s) items -> s < n /\ n <= s + fd.

(* walk computes the specification whenever its fuel exceeds the number of items it lists *)
Lemma walk_pre : forall f fd depth items, adequate fd items -> length (pre fd depth items) < f ->
  walk f b depth items = Ok (pre fd depth items).
Proof.
  induction f as [|f IH]; intros fd depth items Had Hlen; [lia|].
  destruct items as [|it r]; [destruct fd; reflexivity|]. cbn [walk].
  assert (Hadr : adequate fd r) by (intros s Hs; apply Had; now right).
  destruct fd as [|g].
  - (* no scope can be listed here *)
    destruct it as [s|v]; [destruct (Had s ltac:(now left)); lia|].
    cbn [bind pre map]. cbn [pre map length] in Hlen.
    rewrite (IH 0 depth r Hadr) by (cbn [pre]; lia). reflexivity.
  - rewrite pre_cons in *. rewrite app_length in Hlen. cbn [length] in Hlen.
    destruct it as [s|v].
    + destruct (Had s ltac:(now left)) as [Hs Hfd].
      assert (Hsc : scope_items b s = Ok (kid s)).
      { apply (scope_items_spec b kt ks Hinv). unfold n in Hs. now rewrite (h_len _ _ _ Hinv) in Hs. }
      rewrite Hsc. cbn [bind].
      assert (Hadk : adequate g (kid s)).
      { intros i Hi. pose proof (w_child_gt s i Hs Hi). split; [|lia].
        apply w_scopes_valid. apply in_or_app. right. apply in_concat. exists (kid s). split; [apply nth_In; exact Hs|exact Hi]. }
      rewrite (IH g (S depth) (kid s) Hadk) by lia. cbn [bind].
      rewrite (IH (S g) depth r Hadr) by lia. reflexivity.
    + cbn [bind app]. rewrite (IH (S g) depth r Hadr) by (cbn [length app] in Hlen; lia). reflexivity.
Qed.

(* Property C08, the walk: walking from the top-level items through each scope's items terminates within the fuel
   of the model and visits every variable and every scope exactly once *)
Theorem full_walk_spec :
  exists w, full_walk b = Ok w /\ Permutation (map snd w) (all_ids b) /\ NoDup (map snd w) /\
            w = pre (S n) 0 kt.
Proof.
  unfold full_walk. rewrite (top_items_spec b kt ks Hinv). cbn [bind].
  assert (Hperm : Permutation (flat ks (S n) kt) (kt ++ concat ks)).
  { apply (flat_full kt ks w_all_scopes w_scopes_valid w_child_gt w_nodup). unfold n. lia. }
  assert (Had : adequate (S n) kt).
  { intros s Hs. split; [apply w_scopes_valid; apply in_or_app; now left|lia]. }
  assert (Hlen : length (pre (S n) 0 kt) < 2 * items_fuel b).
  { rewrite <- (map_length snd), pre_flat, (Permutation_length Hperm), (Permutation_length (h_perm _ _ _ Hinv)).
    unfold all_ids, items_fuel. rewrite app_length, !map_length, !seq_length. lia. }
  rewrite (walk_pre _ (S n) 0 kt Had Hlen). eexists. split; [reflexivity|].
  rewrite pre_flat. split; [|split; [|reflexivity]].
  - etransitivity; [exact Hperm|apply (h_perm _ _ _ Hinv)].
  - eapply Permutation_NoDup; [apply Permutation_sym, Hperm|apply w_nodup].
Qed.

(* ---------- full names: the parent chain is strictly decreasing, so the recursion ends ---------- *)

Lemma scope_full_name_total : forall s fuel, s < length (hb_scopes b) -> s < fuel ->
  exists nm, scope_full_name fuel b s = Ok nm.
Proof.
  induction s as [s IH] using lt_wf_ind. intros fuel Hs Hf. destruct fuel as [|f]; [lia|]. cbn [scope_full_name].
  destruct (nth_error (hb_scopes b) s) as [sc|] eqn:E; [|apply nth_error_None in E; lia]. cbn [of_option bind].
  destruct (sc_parent sc) as [p|] eqn:Ep; [|eauto].
  assert (Hpar : parent_of b (IScope s) = Some p) by (cbn [parent_of]; now rewrite E).
  pose proof (h_parlt _ _ _ Hinv s p Hpar) as Hlt.
  destruct (IH p Hlt f ltac:(lia) ltac:(lia)) as (pn & Hpn). rewrite Hpn. cbn [bind]. eauto.
Qed.

Lemma var_parent_valid v p : v < length (hb_vars b) -> parent_of b (IVar v) = Some p -> p < length (hb_scopes b).
Proof.
  intros Hv Hp.
  assert (Hin : In (IVar v) (kt ++ concat ks)).
  { eapply Permutation_in; [apply Permutation_sym, (h_perm _ _ _ Hinv)|]. apply in_all_ids. exact Hv. }
  apply in_app_or in Hin as [Hin|Hin].
  - rewrite (h_par _ _ _ Hinv None (IVar v) I Hin) in Hp. discriminate.
  - apply in_concat in Hin as (l & Hl & Hx). apply (In_nth _ _ []) in Hl as (s & Hs & <-).
    rewrite (h_par _ _ _ Hinv (Some s) (IVar v) Hs Hx) in Hp. inversion Hp; subst. now rewrite <- (h_len _ _ _ Hinv).
Qed.

Theorem var_full_name_total v : v < length (hb_vars b) -> exists nm, var_full_name b v = Ok nm.
Proof.
  intros Hv. unfold var_full_name.
  destruct (nth_error (hb_vars b) v) as [vr|] eqn:E; [|apply nth_error_None in E; lia]. cbn [of_option bind].
  destruct (v_parent vr) as [p|] eqn:Ep; [|eauto].
  assert (Hpar : parent_of b (IVar v) = Some p) by (cbn [parent_of]; now rewrite E).
  pose proof (var_parent_valid v p Hv Hpar) as Hp.
  destruct (scope_full_name_total p (items_fuel b) Hp ltac:(unfold items_fuel; lia)) as (pn & Hpn). rewrite Hpn. cbn [bind]. eauto.
Qed.

End Walk.

(* for every hierarchy built by a balanced sequence of builder calls *)
Theorem hierarchy_walk ops b : balanced 0 ops -> hier_run hb_new ops = Ok b ->
  (exists w, full_walk b = Ok w /\ Permutation (map snd w) (all_ids b) /\ NoDup (map snd w)) /\
  (forall s, s < length (hb_scopes b) -> exists nm, scope_full_name (items_fuel b) b s = Ok nm) /\
  (forall v, v < length (hb_vars b) -> exists nm, var_full_name b v = Ok nm).
Proof.
  intros Hbal H.
  destruct (hier_run_wf ops hb_new [] [] b hinv_new ltac:(intros [s|] Hp; [cbn in Hp; lia|constructor])
              ltac:(intros [s|] Hp; [cbn in Hp; lia|cbn; split; exact I]) Hbal H) as (kt & ks & Hinv & _ & _).
  split; [|split].
  - destruct (full_walk_spec b kt ks Hinv) as (w & Hw & Hp & Hn & _). eauto.
  - intros s Hs. apply (scope_full_name_total b kt ks Hinv); [exact Hs|unfold items_fuel; lia].
  - intros v Hv. apply (var_full_name_total b kt ks Hinv v Hv).
Qed.

Local Open Scope N_scope.
Example walk_example :
  let ops := [HScope [97] None 0 None false; HVar [120] 0 0 (EncBits 1) None 0%nat None; HScope [99] None 0 None false; HPop; HPop;
              HScope [98] None 0 None false; HPop; HScope [97] None 0 None false; HVar [121] 0 0 (EncBits 8) None 1%nat None; HPop] in
  exists b, hier_run hb_new ops = Ok b /\
            full_walk b = Ok [(0, IScope 0); (1, IVar 0); (1, IScope 1); (1, IVar 1); (0, IScope 2)]%nat /\
            var_full_name b 1%nat = Ok [97; 46; 121].
Proof. cbn zeta. eexists. split; [vm_compute; reflexivity|]. split; vm_compute; reflexivity. Qed.
