(* Specification of point queries (property C05), independent of the search algorithm. *)
From Coq Require Import List NArith Arith Bool.
Import ListNotations.

Definition at_ (l : list N) (q : nat) : N := nth q l 0%N.

(* change indices of a loaded signal never decrease *)
Definition sorted (l : list N) : Prop :=
  forall i j, i <= j -> j < length l -> (at_ l i <= at_ l j)%N.

(* "no change at an index <= i" *)
Definition no_change_le (l : list N) (i : N) : Prop :=
  forall q, q < length l -> (i < at_ l q)%N.

(* the group of changes carrying the greatest index <= i:
   positions [start, start+elements) all carry m, everything before is smaller,
   everything after is greater than i (hence m is the greatest index <= i). *)
Record group_spec (l : list N) (i : N) (start elements : nat) (time_match : bool)
       (next_index : option N) : Prop := {
  gs_nonempty : 1 <= elements;
  gs_in_range : start + elements <= length l;
  gs_le : (at_ l start <= i)%N;
  gs_group : forall q, start <= q < start + elements -> at_ l q = at_ l start;
  gs_first : forall q, q < start -> (at_ l q < at_ l start)%N;
  gs_greatest : forall q, start + elements <= q < length l -> (i < at_ l q)%N;
  gs_group_maximal : forall q, start + elements <= q < length l -> (at_ l start < at_ l q)%N;
  gs_time_match : time_match = N.eqb (at_ l start) i;
  gs_next : next_index = if start + elements <? length l
                         then Some (at_ l (start + elements)) else None
}.

