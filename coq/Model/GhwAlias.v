(* Model of GhwSignalTracker (wellen/src/ghw/hierarchy.rs): register_scalar, register_bit_vec,
   find_vec, find_or_add_alias - the bookkeeping that decides which GHW signals form a vector, which
   variables share a signal and which variables are sub-ranges (slices) of a larger vector. *)
From WV Require Import Model.Base.

Record vec_info := mk_vi { vi_min : nat; vi_max : nat; vi_two : bool; vi_ref : nat; vi_alias : option nat }.
Record alias_info := mk_ai { ai_msb : nat; ai_lsb : nat; ai_ref : nat; ai_sliced : nat; ai_next : option nat }.
(* per GHW signal (0-based index): (type code, signal ref, vector index) *)
Definition sig_slot := option (nat * nat * option nat).

Record tracker := mk_tr {
  tr_signals : list sig_slot;
  tr_count : nat;                 (* signal_ref_count *)
  tr_vectors : list vec_info;
  tr_aliases : list alias_info
}.

Definition tr_new (max_signal_id : nat) : tracker := mk_tr (repeat None max_signal_id) 0 [] [].

(* find_vec (debug build: all slots of the range are inspected; the last vector id found wins) *)
Fixpoint find_vec_go (signals : list sig_slot) (ii : nat) (n : nat) (res : option nat) : outcome (option nat) :=
  match n with
  | O => Ok res
  | S k =>
    match nth_error signals ii with
    | None => Panic                                             (* self.signals[ii] *)
    | Some None => find_vec_go signals (S ii) k res
    | Some (Some (_, _, v)) =>
      (* debug_assert!(res.is_none() || vec_id.is_none() || res == vec_id) *)
      match res, v with
      | Some a, Some b => if Nat.eqb a b then find_vec_go signals (S ii) k v else Panic
      | _, _ => find_vec_go signals (S ii) k v
      end
    end
  end.
Definition find_vec (t : tracker) (mn mx : nat) : outcome (option nat) :=
  find_vec_go (tr_signals t) mn (S mx - mn) None.

(* find_or_add_alias: walk the alias list of the vector; fuel = number of aliases *)
Fixpoint alias_walk (fuel : nat) (t : tracker) (alias_id msb lsb sliced : nat) : outcome (tracker * nat) :=
  match fuel with
  | O => Panic
  | S f =>
    do a <- of_option (nth_error (tr_aliases t) alias_id);
    if Nat.eqb (ai_msb a) msb && Nat.eqb (ai_lsb a) lsb then Ok (t, ai_ref a)
    else match ai_next a with
         | Some nx => alias_walk f t nx msb lsb sliced
         | None =>
           let r := tr_count t in
           let new_id := length (tr_aliases t) in
           let aliases := list_update (tr_aliases t) alias_id
                                      (mk_ai (ai_msb a) (ai_lsb a) (ai_ref a) (ai_sliced a) (Some new_id)) in
           Ok (mk_tr (tr_signals t) (S r) (tr_vectors t) (aliases ++ [mk_ai msb lsb r sliced None]), r)
         end
  end.

Definition find_or_add_alias (t : tracker) (vec_id msb lsb : nat) : outcome (tracker * nat) :=
  do v <- of_option (nth_error (tr_vectors t) vec_id);
  match vi_alias v with
  | Some first => alias_walk (S (length (tr_aliases t))) t first msb lsb (vi_ref v)
  | None =>
    let r := tr_count t in
    let new_id := length (tr_aliases t) in
    Ok (mk_tr (tr_signals t) (S r)
              (list_update (tr_vectors t) vec_id (mk_vi (vi_min v) (vi_max v) (vi_two v) (vi_ref v) (Some new_id)))
              (tr_aliases t ++ [mk_ai msb lsb r (vi_ref v) None]), r)
  end.

(* register_scalar; type codes: 0 NineState, 2 TwoState *)
Definition register_scalar (t : tracker) (idx tpe : nat) : outcome (tracker * nat) :=
  match nth_error (tr_signals t) idx with
  | None => Panic
  | Some (Some (tp, r, _)) => if Nat.eqb tp tpe then Ok (t, r) else Panic       (* debug_assert_eq! *)
  | Some None =>
    let r := tr_count t in
    Ok (mk_tr (list_update (tr_signals t) idx (Some (tpe, r, None))) (S r) (tr_vectors t) (tr_aliases t), r)
  end.

Fixpoint all_free (signals : list sig_slot) (ii n : nat) : bool :=
  match n with
  | O => true
  | S k => match nth_error signals ii with Some None => all_free signals (S ii) k | _ => false end
  end.
Fixpoint fill (signals : list sig_slot) (ii n : nat) (x : sig_slot) : list sig_slot :=
  match n with O => signals | S k => fill (list_update signals ii x) (S ii) k x end.

(* register_bit_vec (min, max are 0-based signal indices) *)
Definition register_bit_vec (t : tracker) (mn mx : nat) (is_binary : bool) : outcome (tracker * nat) :=
  if (mx <? mn)%nat then Panic                                                   (* debug_assert!(max >= min) *)
  else
  do fv <- find_vec t mn mx;
  match fv with
  | Some vid =>
    do v <- of_option (nth_error (tr_vectors t) vid);
    let pmin := vi_min v in let pmax := vi_max v in
    if Nat.eqb mx pmax && Nat.eqb mn pmin then
      match nth_error (tr_signals t) mn with
      | Some (Some (_, r, _)) => Ok (t, r)
      | _ => Panic                                                               (* self.signals[min].unwrap() *)
      end
    else if (pmin <=? mn)%nat && (mx <=? pmax)%nat then
      (* the first element (smallest id) is the most significant bit *)
      find_or_add_alias t vid (pmax - mn) (pmax - mx)
    else Panic                                                                   (* todo!() *)
  | None =>
    if Nat.eqb mn mx then register_scalar t mn (if is_binary then 2 else 0)
    else if negb (all_free (tr_signals t) mn (S mx - mn)) then Panic             (* assert! *)
    else
      let vid := length (tr_vectors t) in
      let r := tr_count t in
      let tpe := if is_binary then 3 else 1 in
      Ok (mk_tr (fill (tr_signals t) mn (S mx - mn) (Some (tpe, r, Some vid))) (S r)
                (tr_vectors t ++ [mk_vi mn mx is_binary r None]) (tr_aliases t), r)
  end.

(* a sequence of register_bit_vec calls; observation: the signal ref of each call, then the alias table *)
Fixpoint register_all (t : tracker) (ops : list (nat * nat * bool)) : outcome (tracker * list nat) :=
  match ops with
  | [] => Ok (t, [])
  | (mn, mx, b) :: r =>
    do '(t1, ref) <- register_bit_vec t mn mx b;
    do '(t2, refs) <- register_all t1 r;
    Ok (t2, ref :: refs)
  end.
