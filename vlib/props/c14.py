"""C14 - all entry points load the same waveform."""
from .. import core, gen
from . import vcdfam

PID = "C14"
LEVEL = "translation_validation"
MODES = ["st", "rd", "rb", "hc", "hp", "hf:0", "hf:1", "mt:4:0"]
RULE = ("every generated VCD (generator of C01, incl. CRLF, $dumpvars, hashed ids, values before the first timestamp) is loaded "
        "through all entry points: read_with_options (mmap, multi_thread false/true), read_from_reader over Cursor and over "
        "BufReader<File>, viewers::read_header+read_body over a Cursor (with and without progress counter), "
        "viewers::read_header_from_file+read_body with both multi_thread values. Oracle: all observations equal each other and "
        "the meaning of the abstract history; body_len equal for the two-phase entry points. Non-trivial: the file has >= 2 time "
        "steps and >= 1 value change; distinct = distinct files.")
ASSUMPTIONS = ["mmap, BufReader, ProgressTracker are I/O plumbing: exercised, not modelled",
               "FST/GHW entry points are compared in C10/C11/C12"]
TRUSTED_BASE = ["Python oracle gen.expected_obs"]


def run(res, rng, tier, model_ok, replay=None):
    cases = []
    groups = []
    if replay:
        line = replay.get("case") or replay["broken_correspondence"]["case"]
        cases.append({"line": line})
    else:
        n = 150 if tier == "quick" else 3000
        for i in range(n):
            sigs, steps, imp = gen.gen_history(rng, max_steps=10)
            idents, kind, idx, nuniq = gen.assign_ids(rng, len(sigs))
            hdr = gen.header_text(rng, sigs, idents)
            body = gen.body_text(rng, sigs, idents, steps, imp, rng.choice(["mixed", "crlf", "plain"]))
            if rng.random() < 0.3 and body.strip():
                body = body.rstrip(b" \t\r\n")      # the file ends directly after its last token
            table, out = gen.expected_obs(sigs, steps, imp)
            exp = gen.obs_string(table, out, idx)
            sarg = gen.sigs_arg(sigs, kind, idx, nuniq, idents)
            nt = i if (len(table) >= 2 and any(ch for _, ch in steps)) else None
            start = len(cases)
            for mode in MODES:
                cases.append({"line": "vcd %s %s %s %s" % (mode, sarg, hdr.hex(), body.hex()), "expect": exp,
                              "key": nt, "klass": "mode-" + mode.split(":")[0]})
            groups.append((start, len(body)))
        # an empty body and a blank body through every entry point (D5 was fixed / recorded)
    impl, _ = vcdfam.run_both(res, cases, "c14", model_ok)
    for start, blen in groups:
        bls = set()
        for k, mode in enumerate(MODES):
            o = impl[start + k]
            if " bl=" in o:
                bls.add(o.split(" bl=")[1])
        if len(bls) > 1 or (bls and bls != {"%x" % blen}):
            res.violations.append((cases[start]["line"], "body_len values %s" % sorted(bls), "%x" % blen, "body_len differs between entry points"))
    res.samples = [c["line"][:300] for c in cases[:2]]


def check_known(entry):
    return False
