//! `slice <width> <msb> <lsb> <idx:bits,...>`: builds a parent bit-vector signal through the Encoder
//! hook (values in VCD text form), then calls `signals::slice_signal` (hook) and prints the slice.
use crate::enc::build_hierarchy;
use crate::obs::*;
use crate::util::*;
use wellen::verif::{slice_signal, Encoder};
use wellen::*;

pub fn run(args: &[&str]) -> String {
    let width = args[0];
    let msb = args[1].parse::<u32>().unwrap();
    let lsb = args[2].parse::<u32>().unwrap();
    let sig = format!("b{}", width);
    let h = build_hierarchy(&[sig.as_str()]);
    let mut enc = Encoder::new(&h);
    let mut last: i64 = -1;
    for c in split(args[3], ',') {
        let (idx, v) = c.split_once(':').unwrap();
        let idx = hex_u64(idx) as i64;
        while last < idx {
            last += 1;
            enc.time_change(last as u64);
        }
        let mut txt = vec![b'b'];
        txt.extend_from_slice(v.as_bytes());
        enc.vcd_value_change(0, &txt);
    }
    let (mut source, _tt) = enc.finish();
    let id = SignalRef::from_index(0).unwrap();
    let loaded = source.load_signals(&[id], &h, false);
    let parent = &loaded[0].1;
    let sliced = slice_signal(SignalRef::from_index(1).unwrap(), parent, msb, lsb);
    format!("p={} s={}", signal_obs(parent), signal_obs(&sliced))
}

/// `ghwslices <path>`: loads a GHW file through the public API and checks every variable whose signal is a
/// slice of another signal against the substring of the parent variable's values.
pub fn run_ghw(args: &[&str]) -> String {
    let mut wave = simple::read(args[0]).unwrap();
    let h = wave.hierarchy();
    let mut pairs = vec![];
    for var in h.iter_vars() {
        if let Some(slice) = h.get_slice_info(var.signal_ref()) {
            pairs.push((var.full_name(h), var.signal_ref(), slice));
        }
    }
    let mut ids: Vec<SignalRef> = pairs.iter().map(|p| p.1).collect();
    ids.extend(pairs.iter().map(|p| p.2.sliced_signal));
    wave.load_signals(&ids);
    let mut bad = vec![];
    let mut checked = 0usize;
    for (name, id, slice) in pairs.iter() {
        let parent = wave.get_signal(slice.sliced_signal).unwrap();
        let child = wave.get_signal(*id).unwrap();
        // expected: substring of every parent value, deduplicated
        let mut exp: Vec<(u32, String)> = vec![];
        for (idx, v) in parent.iter_changes() {
            let s = v.to_bit_string().unwrap();
            let w = s.len();
            let sub = s[(w - 1 - slice.msb as usize)..(w - slice.lsb as usize)].to_string();
            if exp.last().map(|e| e.1 != sub).unwrap_or(true) {
                exp.push((idx, sub));
            }
        }
        let got: Vec<(u32, String)> = child.iter_changes().map(|(i, v)| (i, v.to_bit_string().unwrap())).collect();
        checked += 1;
        // when the file declares bit ranges for both variables the position of the sub-range is known
        // independently of the loader's alias arithmetic: child(m downto l) of parent(M downto L)
        let h = wave.hierarchy();
        let cvar = h.iter_vars().find(|v| v.signal_ref() == *id).unwrap();
        let pvar = h.iter_vars().find(|v| v.signal_ref() == slice.sliced_signal).unwrap();
        if let (Some(ci), Some(pi)) = (cvar.index(), pvar.index()) {
            if pi.msb() >= pi.lsb() && ci.msb() >= ci.lsb() && ci.msb() <= pi.msb() && ci.lsb() >= pi.lsb() {
                let (em, el) = ((ci.msb() - pi.lsb()) as u32, (ci.lsb() - pi.lsb()) as u32);
                if (slice.msb, slice.lsb) != (em, el) {
                    bad.push(format!("{}: declared ({},{}) of parent ({},{}) but slice [{}:{}]", name, ci.msb(), ci.lsb(), pi.msb(), pi.lsb(), slice.msb, slice.lsb));
                }
            }
        }
        if got != exp {
            bad.push(format!("{}[{}:{}]", name, slice.msb, slice.lsb));
        }
        for (_, v) in child.iter_changes() {
            let s = v.to_bit_string().unwrap();
            let min = if s.chars().all(|c| c == '0' || c == '1') { 2 } else if s.chars().all(|c| "01xz".contains(c)) { 4 } else { 9 };
            let k = match v { SignalValue::Binary(..) => 2, SignalValue::FourValue(..) => 4, SignalValue::NineValue(..) => 9, _ => 0 };
            if k != min {
                bad.push(format!("{} kind {} for {}", name, k, s));
            }
        }
    }
    if bad.is_empty() { format!("ok {} sub-range variables", checked) } else { format!("BAD {}", bad.join(";")) }
}

/// `ghwaliases <path>`: lists every sub-range variable: name, slice info, parent name, first values of both
pub fn run_aliases(args: &[&str]) -> String {
    let mut wave = simple::read(args[0]).unwrap();
    let h = wave.hierarchy();
    let mut out = vec![];
    let mut ids = vec![];
    for var in h.iter_vars() {
        if let Some(slice) = h.get_slice_info(var.signal_ref()) {
            let parent = h.iter_vars().find(|v| v.signal_ref() == slice.sliced_signal).unwrap();
            out.push((var.full_name(h), var.index(), slice, parent.full_name(h), parent.index(), var.signal_ref()));
            ids.push(var.signal_ref());
            ids.push(slice.sliced_signal);
        }
    }
    wave.load_signals(&ids);
    let mut lines = vec![];
    for (name, idx, slice, pname, pidx, id) in out {
        let c: Vec<String> = wave.get_signal(id).unwrap().iter_changes().take(4).map(|(i, v)| format!("{}:{}", i, v.to_bit_string().unwrap())).collect();
        let p: Vec<String> = wave.get_signal(slice.sliced_signal).unwrap().iter_changes().take(4).map(|(i, v)| format!("{}:{}", i, v.to_bit_string().unwrap())).collect();
        lines.push(format!("{}{:?}=[{}:{}]of:{}{:?} child={} parent={}", name, idx.map(|i| (i.msb(), i.lsb())), slice.msb, slice.lsb, pname, pidx.map(|i| (i.msb(), i.lsb())), c.join(","), p.join(",")).replace(' ', ""));
    }
    lines.join(" ")
}

/// `canonfile <path>`: loads a file of any format through the public API, loads the signal of every variable and
/// checks the canonical form of what every variable reports: bit-vector values have exactly the variable's declared
/// width and the smallest sufficient kind, real variables report reals and string variables strings, and no two
/// consecutive changes carry the same value.
pub fn run_canonfile(args: &[&str]) -> String {
    let mut wave = match simple::read(args[0]) {
        Ok(w) => w,
        Err(_) => return "ERR".to_string(),
    };
    let ids: Vec<SignalRef> = wave.hierarchy().iter_vars().map(|v| v.signal_ref()).collect();
    wave.load_signals(&ids);
    let h = wave.hierarchy();
    let mut bad = vec![];
    let mut checked = 0usize;
    for var in h.iter_vars() {
        let name = var.full_name(h);
        let sig = match wave.get_signal(var.signal_ref()) {
            Some(s) => s,
            None => {
                bad.push(format!("{}: not loaded", name));
                continue;
            }
        };
        checked += 1;
        let mut last: Option<String> = None;
        for (_, v) in sig.iter_changes() {
            let shown = match v {
                SignalValue::Binary(..) | SignalValue::FourValue(..) | SignalValue::NineValue(..) => {
                    let s = v.to_bit_string().unwrap();
                    if let Some(len) = var.length() {
                        if s.len() as u32 != len {
                            bad.push(format!("{}: value of {} bits for a variable of {} bits", name, s.len(), len));
                        }
                    }
                    let min = if s.chars().all(|c| c == '0' || c == '1') { 2 } else if s.chars().all(|c| "01xz".contains(c)) { 4 } else { 9 };
                    let k = match v { SignalValue::Binary(..) => 2, SignalValue::FourValue(..) => 4, _ => 9 };
                    if k != min {
                        bad.push(format!("{}: kind {} for {}", name, k, s));
                    }
                    format!("B{}", s)
                }
                SignalValue::String(s) => {
                    if !var.is_string() { bad.push(format!("{}: string value", name)); }
                    format!("S{}", s)
                }
                SignalValue::Real(r) => {
                    if !var.is_real() { bad.push(format!("{}: real value", name)); }
                    format!("R{:016x}", r.to_bits())
                }
                _ => "?".to_string(),
            };
            if last.as_deref() == Some(shown.as_str()) {
                bad.push(format!("{}: repeated value {}", name, &shown[..shown.len().min(40)]));
            }
            last = Some(shown);
        }
        if bad.len() > 8 { break; }
    }
    if bad.is_empty() { format!("ok {} variables", checked) } else { format!("BAD {}", bad.join(";")) }
}
