(* Model of wellen/src/ghw/hierarchy.rs: the header of a GHW file - string table (prefix compressed), type table
   (enumerations, scalar and array subtypes, arrays, records; std_ulogic-like and bit-like enumerations and their arrays
   are recognised as 9-state / 2-state bits and vectors), well-known types, hierarchy (scopes, processes, signals and
   ports of any type; composite signals become scopes with one variable per leaf) - up to the end-of-header mark.
   Output: the calls of the hierarchy builder (the vocabulary of Model/FstHier.v), the enum tables, and the signal
   tracker (Model/GhwAlias.v) with the decode information for the signal sections (Model/Ghw.v).
   Err: the reader returns an error (unexpected end of input, unknown codes, failed checks); Panic: unwrap / index out of
   bounds / todo! / unreachable! / debug assertions (when `debug`).  Strings are byte lists (String::from_utf8_lossy is
   not modelled: names are ASCII in the model's inputs).  Float ranges are read and forgotten.
   No proofs live in Model/ files. *)
From WV Require Import Model.Base Generated.Consts Model.Bits Model.Leb128 Model.WaveMem Model.Hierarchy Model.VcdHeader
  Model.FstHier Model.Ghw Model.GhwAlias Model.Serde.
Open Scope N_scope.

(* ------------------------------------------------------------------ reading *)
Definition take (n : nat) (inp : list byte) : outcome (list byte * list byte) :=
  if (length inp <? n)%nat then Err else Ok (firstn n inp, skipn n inp).
Definition read_u8 (inp : list byte) : outcome (byte * list byte) :=
  match inp with [] => Err | b :: r => Ok (b, r) end.
Definition read_uleb (inp : list byte) : outcome (N * list byte) :=
  match leb_read inp with Some x => Ok x | None => Err end.
Definition read_sleb (inp : list byte) : outcome (Z * list byte) :=
  match sleb_read inp with Some x => Ok x | None => Err end.
(* HeaderData::read_u32 on four bytes: an i32 that must not be negative *)
Definition u32_of (be : bool) (b : list byte) : outcome N :=
  let v := read_int be b in if 2147483648 <=? v then Err else Ok v.
Definition zeros4 (h : list byte) : bool :=
  match h with 0 :: 0 :: 0 :: 0 :: _ => true | _ => false end.

(* table lookups by an index that may be any u64: never turn an unchecked number into a unary nat *)
Definition nthN {A} (l : list A) (n : N) : option A :=
  if n <? N.of_nat (length l) then nth_error l (N.to_nat n) else None.

(* StringId: usize; TypeId: NonZeroU32, index() = value - 1 *)
Definition read_type_id (inp : list byte) : outcome (N * list byte) :=
  do '(v, r) <- read_uleb inp;
  let v32 := v mod 4294967296 in
  if v32 =? 0 then Panic else Ok (v32 - 1, r).

(* ------------------------------------------------------------------ the string table *)
Definition is_str_end (c : byte) : bool := (c <=? 31) || ((128 <=? c) && (c <=? 159)).

Fixpoint str_chars (fuel : nat) (inp buf : list byte) : outcome (list byte * byte * list byte) :=
  match fuel with
  | O => Err
  | S f =>
    match inp with
    | [] => Err
    | c :: r => if is_str_end c then Ok (buf, c, r) else str_chars f r (buf ++ [c])
    end
  end.

Fixpoint str_prefix_len (fuel : nat) (c : byte) (inp : list byte) (acc shift : N) : outcome (N * list byte) :=
  match fuel with
  | O => Err
  | S f =>
    if 128 <=? c then
      do '(c', r) <- read_u8 inp;
      str_prefix_len f c' r (N.lor acc (N.shiftl (N.land c' 31) shift)) (shift + 5)
    else Ok (acc, inp)
  end.

Fixpoint str_loop (fuel : nat) (count : N) (inp buf : list byte) (table : list (list byte))
  : outcome (list (list byte) * list byte) :=
  match fuel with
  | O => Err
  | S f =>
    if count =? 0 then Ok (table, inp)
    else
      do '(buf1, c, r) <- str_chars (S (length inp)) inp buf;
      do '(plen, r2) <- str_prefix_len (S (length r)) c r (N.land c 31) 5;
      str_loop f (count - 1) r2 (firstn (N.to_nat (N.min plen (N.of_nat (length buf1)))) buf1) (table ++ [buf1])
  end.

Definition anon : list byte := [60; 97; 110; 111; 110; 62].   (* "<anon>" *)

Definition read_string_section (be : bool) (inp : list byte) : outcome (list (list byte) * list byte) :=
  do '(h, r) <- take 12 inp;
  if negb (zeros4 h) then Err else
  do n <- u32_of be (firstn 4 (skipn 4 h));
  (* string_num = n + 1; the loop `for _ in 1..(string_num + 1)` reads string_num strings *)
  str_loop (S (length r)) (n + 1) r [] [anon].

(* ------------------------------------------------------------------ types *)
Inductive irange := IR (downto : bool) (l r : Z).
Inductive grange := RInt (rg : irange) | RFloat.

Inductive vtype :=
| TNineBit (nm : N)
| TNineVec (nm : N) (rg : irange)
| TBit (nm : N)
| TBitVec (nm : N) (rg : irange)
| TAlias (nm : N) (base : N)
| TI32 (nm : N) (rg : option irange)
| TI64 (nm : N) (rg : option irange)
| TF64 (nm : N)
| TRecord (nm : N) (fields : list (N * N))
| TEnum (nm : N) (lits : list N) (id : nat)
| TArray (nm : N) (elem : N) (rg : option irange).

Definition vt_name (t : vtype) : N :=
  match t with
  | TNineBit n | TNineVec n _ | TBit n | TBitVec n _ | TAlias n _ | TI32 n _ | TI64 n _ | TF64 n
  | TRecord n _ | TEnum n _ _ | TArray n _ _ => n
  end.

(* IntRange::range(): start, end (exclusive) *)
Definition ir_start_end (rg : irange) : Z * Z :=
  match rg with IR true l r => (r, l + 1) | IR false l r => (l, r + 1) end%Z.
Definition ir_len (rg : irange) : Z :=
  match rg with IR true l r => l - r + 1 | IR false l r => r - l + 1 end%Z.
Definition ir_default : irange := IR false (-2147483648) 2147483647.
Definition ir_subset (a b : irange) : bool :=
  let '(s1, e1) := ir_start_end a in let '(s2, e2) := ir_start_end b in (s2 <=? s1)%Z && (e1 <=? e2)%Z.

Definition lookup_concrete (debug : bool) (types : list vtype) (id : N) : outcome vtype :=
  do t <- of_option (nthN types id);
  match t with
  | TAlias _ base =>
    do b <- of_option (nthN types base);
    match b with TAlias _ _ => if debug then Panic else Ok b | _ => Ok b end
  | _ => Ok t
  end.
Definition lookup_concrete_id (debug : bool) (types : list vtype) (id : N) : outcome N :=
  do t <- of_option (nthN types id);
  match t with
  | TAlias _ base =>
    do b <- of_option (nthN types base);
    match b with TAlias _ _ => if debug then Panic else Ok base | _ => Ok base end
  | _ => Ok id
  end.

Definition int_range_of (t : vtype) : option irange :=
  match t with
  | TNineBit _ => Some (IR false 0 8)
  | TI32 _ rg | TI64 _ rg => rg
  | TEnum _ lits _ => Some (IR false 0 (Z.of_nat (length lits)))
  | _ => None
  end.

Definition pick_best_name (a b : N) : N := if a =? 0 then b else a.

Definition lower (c : byte) : byte := if (65 <=? c) && (c <=? 90) then c + 32 else c.

(* check_literals_match *)
Fixpoint lits_match (strings : list (list byte)) (lits : list N) (expected : list byte) : outcome bool :=
  match lits, expected with
  | [], [] => Ok true
  | l :: lr, e :: er =>
    do s <- of_option (nthN strings l);
    match s with
    | [c] => if lower c =? lower e then lits_match strings lr er else Ok false
    | [_; c; _] => if lower c =? lower e then lits_match strings lr er else Ok false
    | _ => Ok false
    end
  | _, _ => Ok false
  end.
Definition literals_match (strings : list (list byte)) (lits : list N) (expected : list byte) : outcome bool :=
  if negb (Nat.eqb (length lits) (length expected)) then Ok false else lits_match strings lits expected.

Definition from_enum (strings : list (list byte)) (count : nat) (nm : N) (lits : list N) : outcome (vtype * nat) :=
  do nine <- literals_match strings lits ghw_std_logic_values;
  if nine then Ok (TNineBit nm, count)
  else do two <- literals_match strings lits ghw_vhdl_bit_values;
       if two then Ok (TBit nm, count) else Ok (TEnum nm lits count, S count).

Definition from_array (debug : bool) (types : list vtype) (nm elem index : N) : outcome vtype :=
  do eid <- lookup_concrete_id debug types elem;
  do it <- lookup_concrete debug types index;
  do et <- of_option (nthN types eid);
  match et, int_range_of it with
  | TNineBit _, Some rg => Ok (TNineVec nm rg)
  | TBit _, Some rg => Ok (TBitVec nm rg)
  | _, rg => Ok (TArray nm eid rg)
  end.

Definition from_subtype_array (debug : bool) (types : list vtype) (nm base : N) (rg : grange) : outcome vtype :=
  do bt <- lookup_concrete debug types base;
  match bt, rg with
  | TArray bn el mbr, RInt r =>
    if debug && (match mbr with Some br => negb (ir_subset r br) | None => false end) then Panic
    else Ok (TArray (pick_best_name nm bn) el (Some r))
  | TNineVec bn br, RInt r => if debug && negb (ir_subset r br) then Panic else Ok (TNineVec (pick_best_name nm bn) r)
  | TBitVec bn br, RInt r => if debug && negb (ir_subset r br) then Panic else Ok (TBitVec (pick_best_name nm bn) r)
  | _, _ => Panic                                               (* todo! *)
  end.

Definition from_subtype_scalar (debug : bool) (types : list vtype) (nm base : N) (rg : grange) : outcome vtype :=
  do bt <- lookup_concrete debug types base;
  match bt, rg with
  | TEnum _ lits _, RInt r =>
    let '(s, e) := ir_start_end r in
    let n := Z.of_nat (length lits) in
    if debug && negb ((0 <=? s) && (s <=? n) && (0 <=? e) && (e <=? n))%Z then Panic
    else if ((s =? 0) && (e =? n))%Z then Ok (TAlias nm base) else Panic
  | TNineBit _, RInt r =>
    let '(s, e) := ir_start_end r in
    if ((s =? 0) && (e =? 9))%Z then Ok (TAlias nm base) else Panic
  | TI32 _ mbr, RInt r =>
    if debug && negb (ir_subset r (match mbr with Some b => b | None => ir_default end)) then Panic
    else Ok (TI32 nm (Some r))
  | TF64 _, RFloat => Ok (TF64 nm)
  | _, _ => Panic
  end.

(* read_range; the kind codes are GhwRtik's *)
Definition rtik_known (k : N) : bool :=
  existsb (N.eqb k) [0; 15; 16; 17; 18; 19; 20; 21; 22; 23; 25; 26; 27; 28; 29; 31; 32; 34; 35; 37; 38; 39].

Definition read_range (inp : list byte) : outcome (grange * list byte) :=
  do '(t, r) <- read_u8 inp;
  let k := N.land t 127 in
  let downto := negb (N.land t 128 =? 0) in
  if negb (rtik_known k) then Err
  else if (k =? 23) || (k =? 22) then
    do '(b, r2) <- take 2 r;
    Ok (RInt (IR downto (Z.of_N (nth 0 b 0)) (Z.of_N (nth 1 b 0))), r2)
  else if (k =? 25) || (k =? 28) || (k =? 26) || (k =? 29) then
    do '(l, r2) <- read_sleb r;
    do '(rr, r3) <- read_sleb r2;
    Ok (RInt (IR downto l rr), r3)
  else if k =? 27 then
    do '(_, r2) <- take 16 r; Ok (RFloat, r2)
  else Err.

Fixpoint read_ids (fuel : nat) (count : N) (inp : list byte) (acc : list N) : outcome (list N * list byte) :=
  match fuel with
  | O => Err
  | S f =>
    if count =? 0 then Ok (acc, inp)
    else do '(v, r) <- read_uleb inp; read_ids f (count - 1) r (acc ++ [v])
  end.

Fixpoint read_type_ids (fuel : nat) (count : N) (inp : list byte) (acc : list N) : outcome (list N * list byte) :=
  match fuel with
  | O => Err
  | S f =>
    if count =? 0 then Ok (acc, inp)
    else do '(v, r) <- read_type_id inp; read_type_ids f (count - 1) r (acc ++ [v])
  end.

Fixpoint read_fields (fuel : nat) (count : N) (inp : list byte) (acc : list (N * N))
  : outcome (list (N * N) * list byte) :=
  match fuel with
  | O => Err
  | S f =>
    if count =? 0 then Ok (acc, inp)
    else
      do '(nm, r) <- read_uleb inp;
      do '(t, r2) <- read_type_id r;
      read_fields f (count - 1) r2 (acc ++ [(nm, t)])
  end.

Definition read_one_type (debug : bool) (strings : list (list byte)) (types : list vtype) (count : nat) (inp : list byte)
  : outcome (vtype * nat * list byte) :=
  do '(t, r) <- read_u8 inp;
  if negb (rtik_known t) then Err else
  do '(nm, r1) <- read_uleb r;
  if (t =? 23) || (t =? 22) then
    do '(n, r2) <- read_uleb r1;
    do '(lits, r3) <- read_ids (S (length r2)) n r2 [];
    do '(ty, c) <- from_enum strings count nm lits;
    Ok (ty, c, r3)
  else if t =? 25 then Ok (TI32 nm None, count, r1)
  else if t =? 26 then Ok (TI64 nm None, count, r1)
  else if t =? 27 then Ok (TF64 nm, count, r1)
  else if t =? 34 then
    do '(base, r2) <- read_type_id r1;
    do '(rg, r3) <- read_range r2;
    do ty <- from_subtype_scalar debug types nm base rg;
    Ok (ty, count, r3)
  else if t =? 31 then
    do '(elem, r2) <- read_type_id r1;
    do '(nd, r3) <- read_uleb r2;
    do '(dims, r4) <- read_type_ids (S (length r3)) nd r3 [];
    match dims with
    | [d] => do ty <- from_array debug types nm elem d; Ok (ty, count, r4)
    | _ => Panic                                                (* no dimension: dims[0]; several: todo! *)
    end
  else if t =? 35 then
    do '(base, r2) <- read_type_id r1;
    do '(rg, r3) <- read_range r2;
    do ty <- from_subtype_array debug types nm base rg;
    Ok (ty, count, r3)
  else if t =? 32 then
    do '(n, r2) <- read_uleb r1;
    do '(fields, r3) <- read_fields (S (length r2)) n r2 [];
    Ok (TRecord nm fields, count, r3)
  else Panic.                                                   (* todo!("Support: ..") *)

Fixpoint types_loop (debug : bool) (fuel : nat) (n : N) (strings : list (list byte)) (types : list vtype) (count : nat)
                    (inp : list byte) : outcome (list vtype * list byte) :=
  match fuel with
  | O => Err
  | S f =>
    if n =? 0 then Ok (types, inp)
    else
      do '(ty, c, r) <- read_one_type debug strings types count inp;
      types_loop debug f (n - 1) strings (types ++ [ty]) c r
  end.

Definition read_type_section (debug be : bool) (strings : list (list byte)) (inp : list byte)
  : outcome (list vtype * list byte) :=
  do '(h, r) <- take 8 inp;
  if negb (zeros4 h) then Err else
  do n <- u32_of be (skipn 4 h);
  do '(types, r2) <- types_loop debug (S (length r)) n strings [] 0%nat r;
  do '(z, r3) <- read_u8 r2;
  if z =? 0 then Ok (types, r3) else Err.

(* add_enums_to_wellen_hierarchy: name and (binary code, literal) pairs of every enumeration, in type order *)
Fixpoint bin_digits (fuel : nat) (n : N) : list byte :=
  match fuel with
  | O => []
  | S f => if n <? 2 then [48 + n] else bin_digits f (n / 2) ++ [48 + n mod 2]
  end.
(* format!("{ii:0bits$b}") *)
Definition bin_str (bits ii : N) : list byte :=
  let d := bin_digits 70 ii in
  repeat 48 (N.to_nat bits - length d) ++ d.
Definition enum_bits (len : nat) : outcome N :=
  match len with O => Panic | S k => Ok (N.size (N.of_nat k)) end.   (* literals.len() as u64 - 1 *)

Fixpoint enum_lits (strings : list (list byte)) (bits : N) (ii : N) (lits : list N) : outcome (list (name * name)) :=
  match lits with
  | [] => Ok []
  | l :: r =>
    do s <- of_option (nthN strings l);
    do rest <- enum_lits strings bits (ii + 1) r;
    Ok ((bin_str bits ii, s) :: rest)
  end.

Fixpoint enums_of (strings : list (list byte)) (types : list vtype) : outcome (list fcall) :=
  match types with
  | [] => Ok []
  | TEnum nm lits _ :: r =>
    do bits <- enum_bits (length lits);
    do ls <- enum_lits strings bits 0 lits;
    do n <- of_option (nthN strings nm);
    do rest <- enums_of strings r;
    Ok (FcEnum n ls :: rest)
  | _ :: r => enums_of strings r
  end.

(* ------------------------------------------------------------------ well-known types *)
Fixpoint wkt_loop (debug : bool) (fuel : nat) (types : list vtype) (t : byte) (inp : list byte) : outcome (list byte) :=
  match fuel with
  | O => Err
  | S f =>
    if t =? 0 then Ok inp
    else if 3 <? t then Err
    else
      do '(id, r) <- read_type_id inp;
      do ty <- of_option (nthN types id);
      let bad := match t, ty with
                 | 1, TEnum _ _ _ => false
                 | 2, TBit _ => false
                 | 3, TNineBit _ => false
                 | 0, _ => false
                 | _, _ => true
                 end in
      if debug && bad then Panic
      else do '(t', r2) <- read_u8 r; wkt_loop debug f types t' r2
  end.

Definition read_wkt_section (debug : bool) (types : list vtype) (inp : list byte) : outcome (list byte) :=
  do '(h, r) <- take 4 inp;
  if negb (zeros4 h) then Err else
  do '(t, r2) <- read_u8 r;
  wkt_loop debug (S (length r2)) types t r2.

(* ------------------------------------------------------------------ the hierarchy section *)
Record gstate := mk_g {
  g_calls : list fcall;          (* newest last *)
  g_tracker : tracker
}.

Definition get_type_and_name (debug : bool) (strings : list (list byte)) (types : list vtype) (id : N)
  : outcome (vtype * name) :=
  do top <- of_option (nthN types id);
  do ty <- lookup_concrete debug types id;
  do n <- of_option (nthN strings (pick_best_name (vt_name top) (vt_name ty)));
  Ok (ty, n).

Definition read_signal_id (max_id : nat) (inp : list byte) : outcome (nat * list byte) :=
  do '(v, r) <- read_uleb inp;
  if N.of_nat max_id <? v then Err
  else if v mod 4294967296 =? 0 then Panic                      (* NonZeroU32::new(index).unwrap() *)
  else Ok (N.to_nat (v mod 4294967296 - 1), r).

Definition iter_count (rg : irange) : N := let '(s, e) := ir_start_end rg in Z.to_N (e - s).

(* dummy_read_signal_value *)
Fixpoint skip_bytes (n : N) (fuel : nat) (inp : list byte) : outcome (list byte) :=
  match fuel with
  | O => Err
  | S f => if n =? 0 then Ok inp else match inp with [] => Err | _ :: r => skip_bytes (n - 1) f r end
  end.

Fixpoint dummy_value (debug : bool) (fuel : nat) (strings : list (list byte)) (types : list vtype) (ty : vtype)
                     (inp : list byte) {struct fuel} : outcome (list byte) :=
  match fuel with
  | O => Panic
  | S f =>
    match ty with
    | TNineBit _ | TBit _ | TEnum _ _ _ => do '(_, r) <- read_u8 inp; Ok r
    | TNineVec _ rg | TBitVec _ rg => skip_bytes (iter_count rg) (S (length inp)) inp
    | TI32 _ _ | TI64 _ _ => do '(_, r) <- read_sleb inp; Ok r
    | TF64 _ => do '(_, r) <- take 8 inp; Ok r
    | TRecord _ fields =>
      (fix go (fs : list (N * N)) (inp : list byte) : outcome (list byte) :=
         match fs with
         | [] => Ok inp
         | (_, tid) :: fr =>
           do '(fty, _) <- get_type_and_name debug strings types tid;
           do r <- dummy_value debug f strings types fty inp;
           go fr r
         end) fields inp
    | TArray _ el (Some rg) =>
      do '(ety, _) <- get_type_and_name debug strings types el;
      (fix go (k : nat) (inp : list byte) : outcome (list byte) :=
         match k with
         | O => Ok inp
         | S k' => do r <- dummy_value debug f strings types ety inp; go k' r
         end) (N.to_nat (N.min (iter_count rg) (N.of_nat (S (length inp))))) inp
    | TArray _ _ None => Ok inp
    | TAlias _ _ => Panic
    end
  end.

Definition lower_str (s : list byte) : list byte := map lower s.
Definition str_eqb (a b : list byte) : bool := list_eqb a b.

Definition bit_var_type (tn : name) : N :=
  let l := lower_str tn in
  if str_eqb l [115;116;100;95;117;108;111;103;105;99] then VarType_StdULogic
  else if str_eqb l [115;116;100;95;108;111;103;105;99] then VarType_StdLogic
  else if str_eqb l [98;105;116] then VarType_Bit
  else VarType_Wire.
Definition vec_var_type (tn : name) : N :=
  let l := lower_str tn in
  if str_eqb l [115;116;100;95;117;108;111;103;105;99;95;118;101;99;116;111;114] then VarType_StdULogicVector
  else if str_eqb l [115;116;100;95;108;111;103;105;99;95;118;101;99;116;111;114] then VarType_StdLogicVector
  else if str_eqb l [98;105;116;95;118;101;99;116;111;114] then VarType_BitVector
  else VarType_Wire.

(* "[<element id>]" *)
Definition index_name (z : Z) : name :=
  [91] ++ (if (z <? 0)%Z then 45 :: show_N (Z.to_N (- z)) else show_N (Z.to_N z)) ++ [93].

Definition bits_enc (n : N) : sig_enc := EncBits (if n =? 0 then 1%nat else N.to_nat n).

Fixpoint contiguous (ids : list nat) : bool :=
  match ids with
  | a :: ((b :: _) as r) => Nat.eqb (S a) b && contiguous r
  | _ => true
  end.

Fixpoint read_sig_ids (fuel : nat) (count : N) (max_id : nat) (inp : list byte) (acc : list nat)
  : outcome (list nat * list byte) :=
  match fuel with
  | O => Err
  | S f =>
    if count =? 0 then Ok (acc, inp)
    else do '(v, r) <- read_signal_id max_id inp; read_sig_ids f (count - 1) max_id r (acc ++ [v])
  end.

(* the elements of an array signal, in declaration order (from the left to the right bound): element k of `count` is
   handed to `h` under the name of its declared index *)
Definition elem_handler := gstate -> name -> list byte -> outcome (gstate * list byte).
Fixpoint array_loop (h : elem_handler) (fuel2 : nat) (s e : Z) (downto : bool) (k : Z) (g : gstate) (inp : list byte)
  : outcome (gstate * list byte) :=
  match fuel2 with
  | O => Panic
  | S f2 =>
    if (e - s <=? k)%Z then Ok (g, inp)
    else
      let element_id := if downto then (e - 1 - k)%Z else (s + k)%Z in
      do '(g', r) <- h g (index_name element_id) inp;
      array_loop h f2 s e downto (k + 1)%Z g' r
  end.

(* the fields of a record signal, in declaration order *)
Fixpoint record_loop (h : gstate -> name -> N -> list byte -> outcome (gstate * list byte)) (strings : list (list byte))
                     (fs : list (N * N)) (g : gstate) (inp : list byte) : outcome (gstate * list byte) :=
  match fs with
  | [] => Ok (g, inp)
  | (fname, ftid) :: fr =>
    do fnm <- of_option (nthN strings fname);
    do '(g', r) <- h g fnm ftid inp;
    record_loop h strings fr g' r
  end.

(* add_var; dir: VarDirection code of the declaration *)
Fixpoint add_var (debug : bool) (fuel : nat) (strings : list (list byte)) (types : list vtype) (max_id : nat) (dir : N)
                 (g : gstate) (nm : name) (tid : N) (inp : list byte) {struct fuel} : outcome (gstate * list byte) :=
  match fuel with
  | O => Panic
  | S f =>
    do '(ty, tn) <- get_type_and_name debug strings types tid;
    let emit (g : gstate) (c : list fcall) (t : tracker) := mk_g (g_calls g ++ c) t in
    match ty with
    | TEnum _ lits eid =>
      (* tables.enums[enum_id]: one entry per enumeration, by construction *)
      do '(idx, r) <- read_signal_id max_id inp;
      do bits <- enum_bits (length lits);
      do '(t, ref) <- register_scalar (g_tracker g) idx 4;
      Ok (emit g [FcVar nm VarType_Enum dir (bits_enc bits) None ref (Some eid) (Some tn)] t, r)
    | TNineBit _ | TBit _ =>
      do '(idx, r) <- read_signal_id max_id inp;
      let two := match ty with TBit _ => true | _ => false end in
      do '(t, ref) <- register_bit_vec (g_tracker g) idx idx two;
      Ok (emit g [FcVar nm (bit_var_type tn) dir (EncBits 1) None ref None (Some tn)] t, r)
    | TI32 _ _ =>
      do '(idx, r) <- read_signal_id max_id inp;
      do '(t, ref) <- register_scalar (g_tracker g) idx 5;
      Ok (emit g [FcVar nm VarType_Integer dir (EncBits 32) None ref None (Some tn)] t, r)
    | TF64 _ =>
      do '(idx, r) <- read_signal_id max_id inp;
      do '(t, ref) <- register_scalar (g_tracker g) idx 6;
      Ok (emit g [FcVar nm VarType_Real dir EncReal None ref None (Some tn)] t, r)
    | TNineVec _ rg | TBitVec _ rg =>
      let nbits := Z.to_N (Z.abs (ir_len rg)) mod 4294967296 in
      if nbits =? 0 then Ok (g, inp)
      else
        do '(ids, r) <- read_sig_ids (S (length inp)) nbits max_id inp [];
        if debug && negb (contiguous ids) then Panic
        else
          let two := match ty with TBitVec _ _ => true | _ => false end in
          do mn <- of_option (hd_error ids);
          do mx <- of_option (hd_error (rev ids));
          do '(t, ref) <- register_bit_vec (g_tracker g) mn mx two;
          do index <- (match rg with IR _ l rr => var_index_new l rr end);
          Ok (emit g [FcVar nm (vec_var_type tn) dir (bits_enc nbits) (Some index) ref None (Some tn)] t, r)
    | TRecord _ fields =>
      let g1 := emit g [FcScope nm None ScopeType_VhdlRecord None None] (g_tracker g) in
      do '(g2, r) <- record_loop (fun g fnm ftid inp => add_var debug f strings types max_id dir g fnm ftid inp) strings fields g1 inp;
      Ok (emit g2 [FcPop] (g_tracker g2), r)
    | TArray _ el mrg =>
      let rg := match mrg with Some x => x | None => ir_default end in
      let '(s, e) := ir_start_end rg in
      let downto := match rg with IR d _ _ => d end in
      let g1 := emit g [FcScope nm None ScopeType_VhdlArray None None] (g_tracker g) in
      do '(g2, r) <- array_loop (fun g enm inp => add_var debug f strings types max_id dir g enm el inp) (S (S (length inp))) s e downto 0%Z g1 inp;
      Ok (emit g2 [FcPop] (g_tracker g2), r)
    | TI64 _ _ | TAlias _ _ => Panic                            (* todo!("deal with ..") *)
    end
  end.

Definition scope_type_of_kind (k : N) : option N :=
  if k =? 3 then Some ScopeType_VhdlBlock else if k =? 4 then Some ScopeType_VhdlIfGenerate
  else if k =? 5 then Some ScopeType_VhdlForGenerate else if k =? 6 then Some ScopeType_VhdlArchitecture
  else if k =? 7 then Some ScopeType_VhdlPackage else if k =? 14 then Some ScopeType_GhwGeneric else None.
Definition dir_of_kind (k : N) : option N :=
  if k =? 16 then Some VarDirection_Implicit else if k =? 17 then Some VarDirection_Input
  else if k =? 18 then Some VarDirection_Output else if k =? 19 then Some VarDirection_InOut
  else if k =? 20 then Some VarDirection_Buffer else if k =? 21 then Some VarDirection_Linkage else None.
Definition hier_kind_known (k : N) : bool :=
  existsb (N.eqb k) [0; 1; 3; 4; 5; 6; 7; 13; 14; 15; 16; 17; 18; 19; 20; 21].

Fixpoint hier_loop (debug : bool) (fuel : nat) (strings : list (list byte)) (types : list vtype) (max_id : nat)
                   (expected_vars : N) (nvars : N) (g : gstate) (inp : list byte) : outcome (gstate * list byte) :=
  match fuel with
  | O => Err
  | S f =>
    do '(k, r) <- read_u8 inp;
    if negb (hier_kind_known k) then Err
    else if k =? 0 then Ok (g, r)
    else if k =? 15 then hier_loop debug f strings types max_id expected_vars nvars (mk_g (g_calls g ++ [FcPop]) (g_tracker g)) r
    else if k =? 1 then Panic                                   (* unreachable!() *)
    else if k =? 13 then
      do '(_, r2) <- read_uleb r;
      hier_loop debug f strings types max_id expected_vars nvars g r2
    else match scope_type_of_kind k, dir_of_kind k with
    | Some st, _ =>
      do '(nm, r2) <- read_uleb r;
      do r3 <- (if k =? 5 then
                  do '(tid, r3) <- read_type_id r2;
                  do '(ity, _) <- get_type_and_name debug strings types tid;
                  dummy_value debug (S (length types)) strings types ity r3
                else Ok r2);
      do n <- of_option (nthN strings nm);
      hier_loop debug f strings types max_id expected_vars nvars
                (mk_g (g_calls g ++ [FcScope n None st None None]) (g_tracker g)) r3
    | None, Some d =>
      do '(nm, r2) <- read_uleb r;
      do n <- of_option (nthN strings nm);
      do '(tid, r3) <- read_type_id r2;
      do '(g', r4) <- add_var debug (S (length types)) strings types max_id d g n tid r3;
      if expected_vars <? nvars + 1 then Err
      else hier_loop debug f strings types max_id expected_vars (nvars + 1) g' r4
    | None, None => Panic
    end
  end.

Definition read_hierarchy_section (debug be : bool) (strings : list (list byte)) (types : list vtype) (inp : list byte)
  : outcome (gstate * list byte) :=
  do '(h, r) <- take 16 inp;
  if negb (zeros4 h) then Err else
  do _ <- u32_of be (firstn 4 (skipn 4 h));
  do nvars <- u32_of be (firstn 4 (skipn 8 h));
  do max_id <- u32_of be (skipn 12 h);
  (* vec![None; max_signal_id]: a table of more than 2^20 entries is treated as an allocation failure *)
  if 1048576 <? max_id then Panic else
  hier_loop debug (S (length r)) strings types (N.to_nat max_id) nvars 0 (mk_g [] (tr_new (N.to_nat max_id))) r.

(* ------------------------------------------------------------------ read_hierarchy: the sections up to EOH *)
Record ghw_header_result := mk_ghr {
  ghr_calls : list fcall;          (* enum tables first, then the builder calls of the hierarchy section *)
  ghr_tracker : tracker;
  ghr_rest : list byte             (* what follows the end-of-header mark *)
}.

Fixpoint header_sections (debug be : bool) (fuel : nat) (strings : list (list byte)) (types : list vtype)
                         (enums : list fcall) (hier : option gstate) (inp : list byte) : outcome ghw_header_result :=
  match fuel with
  | O => Err
  | S f =>
    do '(mark, r) <- take 4 inp;
    if list_eqb mark ghw_string_section then
      do '(tbl, r2) <- read_string_section be r;
      if debug && negb (match strings with [] => true | _ => false end) then Panic
      else header_sections debug be f tbl types enums hier r2
    else if list_eqb mark ghw_type_section then
      if debug && negb (match types with [] => true | _ => false end) then Panic
      else
        do '(tys, r2) <- read_type_section debug be strings r;
        do es <- enums_of strings tys;
        header_sections debug be f strings tys es hier r2
    else if list_eqb mark ghw_wk_type_section then
      do r2 <- read_wkt_section debug types r;
      header_sections debug be f strings types enums hier r2
    else if list_eqb mark ghw_hierarchy_section then
      do '(g, r2) <- read_hierarchy_section debug be strings types r;
      if debug && (match hier with Some _ => true | None => false end) then Panic
      else header_sections debug be f strings types enums (Some g) r2
    else if list_eqb mark ghw_end_of_header_section then
      match hier with
      | Some g => Ok (mk_ghr (enums ++ g_calls g) (g_tracker g) r)
      | None => Panic                                           (* decode.unwrap() *)
      end
    else Err
  end.

(* read_ghw_header: 16 bytes *)
Definition ghw_magic : list byte := [71; 72; 68; 76; 119; 97; 118; 101; 10].      (* "GHDLwave\n" *)
Definition read_ghw_header (inp : list byte) : outcome (bool * list byte) :=
  do '(m, r) <- take 9 inp;
  if negb (list_eqb m ghw_magic) then Err else
  do '(h, r2) <- take 7 r;
  let big := nth 3 h 0 =? 2 in
  if negb ((nth 0 h 0 =? 16) && (nth 1 h 0 =? 0)) then Err
  else if 1 <? nth 2 h 0 then Err
  else if negb ((nth 3 h 0 =? 1) || (nth 3 h 0 =? 2)) then Err
  else if negb (nth 6 h 0 =? 0) then Err
  else Ok (big, r2).

Definition ghw_read_header (debug : bool) (inp : list byte) : outcome (bool * ghw_header_result) :=
  do '(be, r) <- read_ghw_header inp;
  do res <- header_sections debug be (S (length r)) [] [] [] None r;
  Ok (be, res).
