(* Property C14: all entry points load the same waveform.
   Pinned: the two single-stream ways of reading a VCD body - from a byte slice (stop position = last byte) and
   through a BufRead (stop position = absolute end of the file including the header) - produce the same blocks and
   time table for every input, because a stop position at or beyond the last byte can never fire the hand-over rule.
   entry_points_all_agree adds the third way, the multi-threaded read of a byte slice (C03's read_values_mt_equals_st):
   for a body written one token group per line with increasing time stamps, reader, single-threaded slice and
   multi-threaded slice load the same time table and every bit-vector signal reports the same changes.
   The header is read by one generic function from all entry points (its model: C09's read_header_mdecls).
   MODELLED, not verified: that std's `Bytes` adaptor over a BufRead (whatever the buffer capacity and refill alignment)
   and a memory-mapped file deliver the bytes of the file in order - both are the standard library's / memmap2's, wellen
   has no refill logic of its own; the dispatch glue of the entry points (simple::read*, viewers::read_header*,
   read_body).  Those are decided by the correspondence run over buffer capacities 3..16 bytes, refill alignments and all
   entry points (MANIFEST level_note). *)
From WV Require Import Model.Base Model.Bits Model.WaveMem Model.VcdBody Spec.TimeSpec Spec.StoreSpec Proofs.TimeTableProofs Proofs.StoreProofs Proofs.EncoderProofs Proofs.BodyProofs Proofs.EntryProofs Proofs.HandoverProofs Proofs.RealStringEnc Proofs.VcdStreamProofs Proofs.TokenProofs Proofs.TilingProofs Proofs.MtProofs Proofs.EntryAllProofs.
From Coq Require Import Sorted.
Open Scope N_scope.

Check entry_points_agree :
  forall (parse_f64 : list byte -> option (list byte)) (lz_compress : list byte -> list byte) (cap : N)
         debug tpes lookup input header_len,
  read_values_st parse_f64 lz_compress cap debug tpes lookup input
  = read_values_reader parse_f64 lz_compress cap debug tpes lookup input header_len.

Check parse_body_stop_irrelevant :
  forall debug input s1 s2, N.of_nat (length input) <= s1 + 1 -> N.of_nat (length input) <= s2 + 1 ->
  parse_body debug input s1 = parse_body debug input s2.

Check entry_points_all_agree :
  forall (parse_f64 : list byte -> option (list byte)) (lz_compress : list byte -> list byte)
         (lz_decompress : list byte -> nat -> option (list byte)),
  (forall d n, (length d <= n)%nat -> lz_decompress (lz_compress d) n = Some d) ->
  forall cap, 1 <= cap -> cap <= 65536 ->
  forall debug tpes lookup ls header_len max_threads min_chunk b_r t_r b_mt t_mt id bits,
  Forall line_ok ls -> (1 <= bits)%nat -> nth_error tpes id = Some (EncBits bits) ->
  read_values_reader parse_f64 lz_compress cap debug tpes lookup (body ls) header_len = Ok (b_r, t_r) ->
  N.of_nat (length t_r) < 4294967296 ->
  read_values_mt parse_f64 lz_compress cap debug tpes lookup (body ls) max_threads min_chunk = Ok (b_mt, t_mt) ->
  N.of_nat (length t_mt) < 4294967296 ->
  (forall ops, ops_of lookup true false (evs ls) = Some ops ->
     StronglySorted N.lt (times_of ops) /\ N.of_nat (count_vcd id ops) * (10 + N.of_nat bits) < 4294967264) ->
  read_values_st parse_f64 lz_compress cap debug tpes lookup (body ls) = Ok (b_r, t_r) /\
  exists s_r s_mt,
    load_signal lz_decompress b_r id (EncBits bits) = Ok s_r /\
    load_signal lz_decompress b_mt id (EncBits bits) = Ok s_mt /\
    observe_signal s_r = observe_signal s_mt /\ t_r = t_mt.

Print Assumptions entry_points_agree.
Print Assumptions entry_points_all_agree.
Print Assumptions parse_body_stop_irrelevant.
