#!/bin/bash
# usage: mutant_verify.sh <PID> <N>  - confirms an agent-produced mutation in its scratch worktree:
# applies, builds both ways, runs the pinned suite (must equal baseline), runs the demo (must fail), and the
# demo on the clean tree (must pass).  Prints a one-line verdict.
PID=$1; N=$2
W=/tmp/mut/$PID; O=/tmp/mut/$PID-out
export CARGO_TARGET_DIR=$W/target CARGO_NET_OFFLINE=true
cd $W || exit 2
git checkout -q -- . ; git clean -fdq wellen/tests pywellen 2>/dev/null
demo=$(ls $O/mut${N}_demo.* | head -1)
ext="${demo##*.}"
run_demo() {
  if [ "$ext" = "rs" ]; then
    cp $demo wellen/tests/mutdemo.rs
    RUSTFLAGS="$1" timeout 900 cargo test --offline -p wellen --test mutdemo > $O/verify_demo_$2.txt 2>&1; rc=$?
    rm -f wellen/tests/mutdemo.rs
    return $rc
  else
    timeout 900 bash $demo > $O/verify_demo_$2.txt 2>&1; return $?
  fi
}
FLAGS=""
grep -q "wellen_verif\|wellen::verif" $demo && FLAGS="--cfg wellen_verif"
run_demo "$FLAGS" clean; clean_rc=$?
git apply $O/mut$N.diff || { echo "$PID mut$N: DIFF DOES NOT APPLY"; exit 1; }
cargo build --offline > /dev/null 2>&1 || { echo "$PID mut$N: DOES NOT BUILD"; git checkout -q -- .; exit 1; }
RUSTFLAGS="--cfg wellen_verif" cargo build --offline > /dev/null 2>&1 || { echo "$PID mut$N: DOES NOT BUILD WITH HOOKS"; git checkout -q -- .; exit 1; }
timeout 1200 cargo test --workspace --no-fail-fast --offline > $O/verify_suite_$N.txt 2>&1
python3 - $O/verify_suite_$N.txt <<'PY'
import json, re, sys
log = open(sys.argv[1], errors="replace").read()
base = json.load(open("/root/.vp/BASELINE.json"))
passed = set(); binary = None
for line in log.split("\n"):
    m = re.search(r"Running (?:unittests )?(\S+)", line)
    if m:
        p = m.group(1); crate = "pywellen" if "pywellen" in line else "wellen"
        name = p.split("/")[-1].replace(".rs", "")
        binary = (crate, None if p.startswith("src/") else name)
    m = re.match(r"test (\S+) \.\.\. ok", line)
    if m and binary:
        crate, b = binary; t = m.group(1)
        passed.add("%s::%s" % (crate, t) if b is None else "%s::%s::%s" % (crate, b, t))
missing = [t for t in base["stable_pass"] if t not in passed]
sys.exit(1 if missing else 0)
PY
suite_rc=$?
run_demo "$FLAGS" mutated; mut_rc=$?
git checkout -q -- . ; git clean -fdq wellen/tests 2>/dev/null
echo "$PID mut$N: demo_clean_rc=$clean_rc suite_ok=$([ $suite_rc = 0 ] && echo yes || echo NO) demo_mutated_rc=$mut_rc => $([ $clean_rc = 0 ] && [ $suite_rc = 0 ] && [ $mut_rc != 0 ] && echo CONFIRMED || echo REJECTED)"
