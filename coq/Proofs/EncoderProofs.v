(* The encoder side of the store (wavemem.rs Encoder): every history of time / value operations
   leaves blocks whose decoded content is exactly what Spec/StoreSpec.v says was recorded.
   Together with Proofs/StoreProofs.v this gives storage_transparent (property C04). *)
From Coq Require Import Lia ZifyBool ZifyNat ZifyN.
From WV Require Import Model.Base Generated.Consts Model.Bits Model.Leb128 Model.WaveMem
  Spec.TimeSpec Spec.StoreSpec
  Proofs.BitsProofs Proofs.LebProofs Proofs.WaveMemProofs Proofs.TimeTableProofs Proofs.StoreProofs Proofs.RawProofs.
Ltac Zify.zify_post_hook ::= Z.div_mod_to_equations.
Open Scope N_scope.
Arguments N.add : simpl never. Arguments N.mul : simpl never. Arguments N.div : simpl never.
Arguments N.modulo : simpl never. Arguments N.pow : simpl never. Arguments N.lor : simpl never.
Arguments N.sub : simpl never.

(* ------------------------------------------------------------------ absolute entries *)

(* the entries of a delta-coded stream with absolute time indices, starting after `t` *)
Fixpoint abs_from (t : N) (es : list sentry) : list (N * states * list byte) :=
  match es with
  | [] => []
  | (delta, l, p) :: r => (t + delta, l, p) :: abs_from (t + delta) r
  end.

Definition sum_deltas (es : list sentry) : N := fold_left (fun a e => a + fst (fst e)) es 0.

Lemma fold_deltas_acc es : forall a, fold_left (fun a (e : sentry) => a + fst (fst e)) es a = a + sum_deltas es.
Proof.
  unfold sum_deltas. induction es as [|e es IH]; intros a; cbn [fold_left]; [lia|].
  rewrite IH, (IH (0 + _)). lia.
Qed.

Lemma sum_deltas_app es e : sum_deltas (es ++ [e]) = sum_deltas es + fst (fst e).
Proof. unfold sum_deltas. rewrite fold_left_app. reflexivity. Qed.

Lemma sum_deltas_cons d l p r : sum_deltas ((d, l, p) :: r) = d + sum_deltas r.
Proof. unfold sum_deltas at 1. cbn [fold_left fst]. rewrite fold_deltas_acc. lia. Qed.

Lemma abs_from_app t es e : abs_from t (es ++ [e])
  = abs_from t es ++ [(t + sum_deltas es + fst (fst e), snd (fst e), snd e)].
Proof.
  revert t. induction es as [|[[d l] p] r IH]; intros t.
  - destruct e as [[d l] p]. cbn [app abs_from fst snd]. unfold sum_deltas. cbn [fold_left].
    replace (t + 0 + d) with (t + d) by lia. reflexivity.
  - cbn [app abs_from]. rewrite IH, sum_deltas_cons.
    replace (t + d + sum_deltas r + fst (fst e)) with (t + (d + sum_deltas r) + fst (fst e)) by lia. reflexivity.
Qed.

Definition wide3 (mx : states) (bits : nat) (a : N * states * list byte) : N * list byte :=
  let '(t, l, p) := a in (t, wide mx bits l p).

(* load_spec is the fold of push_canon over the absolute entries *)
Lemma load_spec_fold mx bits : forall es t canon,
  load_spec mx bits es t canon = fold_left push_canon (map (wide3 mx bits) (abs_from t es)) canon.
Proof.
  induction es as [|[[d l] p] r IH]; intros t canon; [reflexivity|].
  cbn [load_spec abs_from map fold_left wide3]. apply IH.
Qed.

(* all absolute entries of a list of finished blocks, the first block starting at index `off` *)
Fixpoint blocks_abs (bl : list blk) (off : N) : list (N * states * list byte) :=
  match bl with
  | [] => []
  | (_, _, ttb, _, es) :: r => abs_from off es ++ blocks_abs r (off + N.of_nat (length ttb))
  end.

Definition blocks_len (bl : list blk) : N :=
  fold_left (fun a (x : blk) => let '(_, _, ttb, _, _) := x in a + N.of_nat (length ttb)) bl 0.

Lemma blocks_len_acc bl : forall a,
  fold_left (fun a (x : blk) => let '(_, _, ttb, _, _) := x in a + N.of_nat (length ttb)) bl a = a + blocks_len bl.
Proof.
  unfold blocks_len. induction bl as [|[[[[s st] ttb] se] es] r IH]; intros a; cbn [fold_left]; [lia|].
  rewrite IH, (IH (0 + _)). lia.
Qed.

Lemma blocks_len_app bl x : blocks_len (bl ++ [x]) = blocks_len bl + (let '(_, _, ttb, _, _) := x in N.of_nat (length ttb)).
Proof. unfold blocks_len. rewrite fold_left_app. destruct x as [[[[s st] ttb] se] es]. reflexivity. Qed.

Lemma blocks_abs_app bl : forall off x,
  blocks_abs (bl ++ [x]) off = blocks_abs bl off ++ (let '(_, _, _, _, es) := x in abs_from (off + blocks_len bl) es).
Proof.
  induction bl as [|[[[[s st] ttb] se] es] r IH]; intros off x.
  - destruct x as [[[[s st] ttb] se] es]. cbn [app blocks_abs]. unfold blocks_len. cbn [fold_left].
    rewrite app_nil_r. f_equal. lia.
  - cbn [app blocks_abs]. rewrite IH, <- app_assoc. f_equal. f_equal.
    destruct x as [[[[s' st'] ttb'] se'] es']. f_equal.
    unfold blocks_len at 2. cbn [fold_left]. rewrite blocks_len_acc. lia.
Qed.

(* blks_spec without the u32 wrap, as long as the time table stays below 2^32 entries *)
Lemma blks_spec_fold mx bits : forall bl off canon, off + blocks_len bl < 4294967296 ->
  blks_spec mx bits bl off canon = fold_left push_canon (map (wide3 mx bits) (blocks_abs bl off)) canon.
Proof.
  induction bl as [|[[[[s st] ttb] se] es] r IH]; intros off canon Hlt; [reflexivity|].
  cbn [blks_spec blocks_abs]. rewrite map_app, fold_left_app, <- load_spec_fold.
  unfold blocks_len in Hlt. cbn [fold_left] in Hlt. rewrite blocks_len_acc in Hlt.
  unfold u32_wrap. rewrite N.mod_small by lia. apply IH. lia.
Qed.

(* ------------------------------------------------------------------ helpers *)

Lemma nth_error_update_same {A} (l : list A) : forall i x y, nth_error l i = Some y -> nth_error (list_update l i x) i = Some x.
Proof. induction l as [|a l IH]; intros [|i] x y H; cbn in *; try discriminate; [reflexivity|]. eapply IH; eauto. Qed.

Lemma nth_error_update_other {A} (l : list A) : forall i j x, i <> j -> nth_error (list_update l i x) j = nth_error l j.
Proof. induction l as [|a l IH]; intros [|i] [|j] x H; cbn; try reflexivity; try congruence. apply IH. congruence. Qed.

Lemma leb_write_fuel_length f : forall v, (length (leb_write_fuel f v) <= f)%nat.
Proof. induction f as [|f IH]; intros v; cbn [leb_write_fuel length]; [lia|]. destruct (_ =? 0); cbn [length]; [lia|]. specialize (IH (v / 128)). lia. Qed.

Lemma leb_write_length v : (length (leb_write v) <= 10)%nat.
Proof. apply leb_write_fuel_length. Qed.

Lemma enc_stream_app bits es e : enc_stream bits (es ++ [e]) = enc_stream bits es ++ enc_entry bits e.
Proof. unfold enc_stream. rewrite map_app, concat_app. cbn [map concat]. now rewrite app_nil_r. Qed.

Lemma b_tt_blk lz (x : blk) : b_tt (blk_block lz x) = (let '(_, _, ttb, _, _) := x in ttb).
Proof. destruct x as [[[[s st] ttb] se] es]. unfold blk_block, block_of. destruct (finish_signals lz s []) as [[a b] c]. reflexivity. Qed.

Lemma flat_tt_len lz bl : N.of_nat (length (flat_map b_tt (map (blk_block lz) bl))) = blocks_len bl.
Proof.
  induction bl as [|x r IH] using rev_ind; [reflexivity|].
  rewrite map_app, flat_map_app, app_length, blocks_len_app. cbn [map flat_map]. rewrite app_nil_r, b_tt_blk.
  destruct x as [[[[s st] ttb] se] es]. lia.
Qed.

Lemma forall2_length {A B} (P : A -> B -> Prop) l1 l2 : Forall2 P l1 l2 -> length l1 = length l2.
Proof. induction 1; cbn; congruence. Qed.

Lemma wns_single st v : write_n_state_loop st [v] 0 None = [v].
Proof.
  cbn [write_n_state_loop length]. change (N.of_nat 0) with 0. rewrite N.mul_0_l. change (0 mod 8 =? 0) with true.
  cbn iota. now rewrite N.mul_0_l, N.add_0_l.
Qed.

Lemma join_l' a b : states_num a <= states_num (join a b).
Proof. rewrite join_num. lia. Qed.
Lemma join_r' a b : states_num b <= states_num (join a b).
Proof. rewrite join_num. lia. Qed.
Lemma wf_mono' mx mx' bits e : states_num mx <= states_num mx' -> wf_sentry mx bits e -> wf_sentry mx' bits e.
Proof. destruct e as [[d l] p]. unfold wf_sentry, wf_entry. intros H [(Hb & Hle & Hl) Hlt]. split; [repeat split; try assumption; lia|exact Hlt]. Qed.

(* ------------------------------------------------------------------ the invariant of one bit-vector signal *)
Section Enc.
Variable parse_f64 : list byte -> option (list byte).
Variable lz_compress : list byte -> list byte.
Variable cap : N.
Hypothesis cap_pos : 1 <= cap.
Hypothesis cap_u16 : cap <= 65536.
Variable id : nat.
Variable bits : nat.
Hypothesis bits_ge2 : (1 <= bits)%nat.

Notation time_change := (time_change lz_compress cap).
Notation run_op := (run_op parse_f64 lz_compress cap).
Notation run_ops := (run_ops parse_f64 lz_compress cap).
Notation finish_block := (finish_block lz_compress).
Notation enc_finish := (enc_finish lz_compress).

Definition pack3 (a : aentry) : N * states * list byte :=
  let '(g, l, s) := a in (g, l, write_n_state_loop l s 0 None).

Definition rec_ok (a : aentry) : Prop :=
  let '(_, l, s) := a in length s = bits /\ small_syms l s /\ Forall (fun v => v <= 8) s.

(* an abstract entry is the meaning of a recorded change *)
Definition decodes (a : aentry) (r : N * rec_val) : Prop :=
  let '(g, l, s) := a in
  g = fst r /\
  match snd r with
  | RText v => exists chars, normalize bits v = Ok chars /\ length chars = bits /\ chars_to_nums chars = Some s
  | RRaw data st => data = write_n_state_loop st s 0 None /\ length s = bits /\ small_syms st s /\ Forall (fun v => v <= 8) s
  end /\
  small_syms l s /\ (forall l', small_syms l' s -> states_num l <= states_num l').

Record sinv (e : encoder) (bl : list blk) (es : list sentry) (R : list aentry) : Prop := {
  si_inv : inv e;
  si_cap : e_len e <= cap;
  si_blocks : e_blocks e = map (blk_block lz_compress) bl;
  si_ok : Forall (blk_ok id bits) bl;
  si_idle : e_ttr e = [] -> es = [];
  si_sig : exists se, nth_error (e_signals e) id = Some se /\ se_tpe se = EncBits bits /\
             se_data se = enc_stream bits es /\ Forall (wf_sentry (se_max se) bits) es /\
             se_prev se = sum_deltas es /\
             N.of_nat (length (se_data se)) <= N.of_nat (length es) * (10 + N.of_nat bits);
  si_count : (length es <= length R)%nat;
  si_abs : map pack3 R = blocks_abs bl 0 ++ abs_from (blocks_len bl) es;
  si_rec : Forall rec_ok R
}.

Lemma table_len e bl es R : sinv e bl es R -> N.of_nat (length (table e)) = blocks_len bl + e_len e.
Proof.
  intros H. unfold table. rewrite app_length, rev_length, (si_blocks _ _ _ _ H).
  pose proof (flat_tt_len lz_compress bl). rewrite (inv_len _ (si_inv _ _ _ _ H)). lia.
Qed.

(* a VCD value change of the signal appends exactly one abstract entry (or nothing while skipping) *)
Lemma vcd_step e bl es R i value e' : sinv e bl es R ->
  vcd_value_change parse_f64 e i value = Ok e' ->
  exists es' R',
    sinv e' bl es' (R ++ R') /\ e_skip e' = e_skip e /\ table e' = table e /\
    Forall2 decodes R' (if e_skip e || negb (Nat.eqb i id) then []
                        else [(N.of_nat (length (table e)) - 1, RText value)]).
Proof.
  intros Hs H. pose proof (table_len _ _ _ _ Hs) as Htl.
  destruct Hs as [Hinv Hcap Hbl Hok Hidle (se & Hn & Htp & Hd & Hwf & Hprev & Hsz) Hcnt Habs Hrec].
  unfold vcd_value_change in H.
  destruct (with_signal_inv e i _ e' Hinv H) as [Hinv' Htab].
  unfold with_signal in H. destruct (e_ttr e) as [|t0 tr] eqn:Ettr; [discriminate|].
  destruct (e_skip e) eqn:Esk.
  - inversion H; subst e'. exists es, []. rewrite app_nil_r. cbn [orb].
    split; [|split; [first [reflexivity|exact Esk]|split; [reflexivity|constructor]]].
    apply Build_sinv; auto; [intros E; rewrite Ettr in E; discriminate|]. exists se. repeat split; auto.
  - destruct (nth_error (e_signals e) i) as [sei|] eqn:Eni; [|discriminate]. cbn [of_option bind] in H.
    destruct (add_vcd_change parse_f64 sei (u16_wrap (e_len e - 1)) value) as [sei'| |] eqn:Eadd; try discriminate.
    cbn [bind] in H. inversion H; subst e'; clear H. cbn [e_skip orb].
    destruct (Nat.eqb_spec i id) as [->|Hne]; cbn [negb].
    + (* the signal itself *)
      rewrite Hn in Eni. inversion Eni; subst sei; clear Eni.
      destruct (add_vcd_change_entry parse_f64 se _ value bits sei' Htp Eadd)
        as (st & chars & nums & Hnorm & Hlc & Hcn & Hsm & H8 & Hmin & Hle & Hdata & Hone & Htp' & Hprev' & Hmax').
      pose proof (inv_len _ Hinv) as Hlen. rewrite Ettr in Hlen. cbn [length] in Hlen.
      assert (Hidx : u16_wrap (e_len e - 1) = e_len e - 1) by (unfold u16_wrap; rewrite N.mod_small; lia).
      rewrite Hidx in *.
      destruct (chars_to_nums_lookup chars nums Hcn) as [Hln _].
      set (ent := (e_len e - 1 - se_prev se, st, write_n_state_loop st nums 0 None) : sentry) in *.
      exists (es ++ [ent]), [(blocks_len bl + (e_len e - 1), st, nums)].
      split; [|split; [reflexivity|split; [exact Htab|]]].
      * apply Build_sinv; cbn [e_len e_ttr e_blocks e_signals]; auto.
        -- intros E. discriminate.
        -- exists sei'. split; [eapply nth_error_update_same; eassumption|].
           split; [congruence|]. split; [now rewrite Hdata, Hd, enc_stream_app|].
           split.
           { apply Forall_app. split.
             - eapply Forall_impl; [|exact Hwf]. intros a. apply wf_mono'. rewrite Hmax'. apply join_l'.
             - constructor; [|constructor]. unfold ent, wf_sentry. split.
               + repeat split; [exact bits_ge2|rewrite Hmax'; apply join_r'|rewrite packed_length; congruence].
               + destruct (Nat.eqb_spec bits 1) as [E1|E1].
                 * specialize (Hone E1). assert (Hl1 : length nums = 1%nat) by congruence.
                   destruct nums as [|bv [|bv2 r]]; try discriminate. rewrite wns_single. cbn [hd] in *.
                   apply Forall_cons_iff in H8 as [H8 _]. assert (2 ^ 32 = 4294967296) by reflexivity.
                   repeat split; [lia|exact H8|exact Hone].
                 * pose proof (states_num_lt4 st). assert (2 ^ 32 = 4294967296) by reflexivity. lia. }
           split; [rewrite sum_deltas_app; unfold ent; cbn [fst]; lia|].
           rewrite Hdata, !app_length. unfold ent at 1, enc_entry.
           destruct (Nat.eqb bits 1).
           { pose proof (leb_write_length ((e_len e - 1 - se_prev se) * 16 + hd 0 (write_n_state_loop st nums 0 None))). cbn [length]. nia. }
           rewrite app_length, packed_length.
           pose proof (leb_write_length ((e_len e - 1 - se_prev se) * 4 + states_num st)).
           assert (div_ceil (length nums) (per_byte st) <= bits)%nat.
           { unfold div_ceil. rewrite Hln, Hlc. destruct st; cbn [per_byte]; lia. }
           cbn [length]. lia.
        -- rewrite !app_length. cbn [length]. lia.
        -- rewrite map_app, Habs, abs_from_app, <- app_assoc. cbn [map pack3]. unfold ent. cbn [fst snd].
           replace (blocks_len bl + sum_deltas es + (e_len e - 1 - se_prev se)) with (blocks_len bl + (e_len e - 1))
             by (rewrite <- Hprev; lia). reflexivity.
        -- apply Forall_app. split; [assumption|]. constructor; [|constructor]. repeat split; try assumption. congruence.
      * constructor; [|constructor]. cbn [decodes fst snd]. split; [lia|].
        split; [exists chars; repeat split; assumption|]. split; assumption.
    + (* some other signal *)
      exists es, []. rewrite app_nil_r.
      split; [|split; [reflexivity|split; [exact Htab|constructor]]].
      apply Build_sinv; cbn [e_len e_ttr e_blocks e_signals]; auto.
      exists se. rewrite nth_error_update_other by assumption. repeat split; auto.
Qed.

(* a raw (pre-packed) value change of the signal appends exactly one abstract entry (or nothing while skipping) *)
Lemma raw_step e bl es R i st0 syms e' : sinv e bl es R ->
  (i = id -> length syms = bits /\ small_syms st0 syms /\ Forall (fun v => v <= 8) syms) ->
  raw_value_change e i (write_n_state_loop st0 syms 0 None) st0 = Ok e' ->
  exists es' R',
    sinv e' bl es' (R ++ R') /\ e_skip e' = e_skip e /\ table e' = table e /\
    Forall2 decodes R' (if e_skip e || negb (Nat.eqb i id) then []
                        else [(N.of_nat (length (table e)) - 1, RRaw (write_n_state_loop st0 syms 0 None) st0)]).
Proof.
  intros Hs Hraw H. pose proof (table_len _ _ _ _ Hs) as Htl.
  destruct Hs as [Hinv Hcap Hbl Hok Hidle (se & Hn & Htp & Hd & Hwf & Hprev & Hsz) Hcnt Habs Hrec].
  unfold raw_value_change in H.
  destruct (with_signal_inv e i _ e' Hinv H) as [Hinv' Htab].
  unfold with_signal in H. destruct (e_ttr e) as [|t0 tr] eqn:Ettr; [discriminate|].
  destruct (e_skip e) eqn:Esk.
  - inversion H; subst e'. exists es, []. rewrite app_nil_r. cbn [orb].
    split; [|split; [first [reflexivity|exact Esk]|split; [reflexivity|constructor]]].
    apply Build_sinv; auto; [intros E; rewrite Ettr in E; discriminate|]. exists se. repeat split; auto.
  - destruct (nth_error (e_signals e) i) as [sei|] eqn:Eni; [|discriminate]. cbn [of_option bind] in H.
    destruct (add_n_bit_change sei (u16_wrap (e_len e - 1)) (write_n_state_loop st0 syms 0 None) st0) as [sei'| |] eqn:Eadd; try discriminate.
    cbn [bind] in H. inversion H; subst e'; clear H. cbn [e_skip orb].
    destruct (Nat.eqb_spec i id) as [->|Hne]; cbn [negb].
    + (* the signal itself *)
      rewrite Hn in Eni. inversion Eni; subst sei; clear Eni.
      destruct (Hraw eq_refl) as (Hlc & Hs0 & H8). set (nums := syms) in *.
      destruct (add_n_bit_change_entry se _ st0 nums bits sei' Htp bits_ge2 Hlc Hs0 H8 Eadd)
        as (st & Hsm & Hlst & Hmin & Hle & Hdata & Hone & Htp' & Hprev' & Hmax').
      pose proof (inv_len _ Hinv) as Hlen. rewrite Ettr in Hlen. cbn [length] in Hlen.
      assert (Hidx : u16_wrap (e_len e - 1) = e_len e - 1) by (unfold u16_wrap; rewrite N.mod_small; lia).
      rewrite Hidx in *.
      assert (Hln : length nums = bits) by exact Hlc.
      set (ent := (e_len e - 1 - se_prev se, st, write_n_state_loop st nums 0 None) : sentry) in *.
      exists (es ++ [ent]), [(blocks_len bl + (e_len e - 1), st, nums)].
      split; [|split; [reflexivity|split; [exact Htab|]]].
      * apply Build_sinv; cbn [e_len e_ttr e_blocks e_signals]; auto.
        -- intros E. discriminate.
        -- exists sei'. split; [eapply nth_error_update_same; eassumption|].
           split; [congruence|]. split; [now rewrite Hdata, Hd, enc_stream_app|].
           split.
           { apply Forall_app. split.
             - eapply Forall_impl; [|exact Hwf]. intros a. apply wf_mono'. rewrite Hmax'. apply join_l'.
             - constructor; [|constructor]. unfold ent, wf_sentry. split.
               + repeat split; [exact bits_ge2|rewrite Hmax'; pose proof (join_r' (se_max se) st0); lia|rewrite packed_length; congruence].
               + destruct (Nat.eqb_spec bits 1) as [E1|E1].
                 * specialize (Hone E1). assert (Hl1 : length nums = 1%nat) by congruence.
                   destruct nums as [|bv [|bv2 r]]; try discriminate. rewrite wns_single. cbn [hd] in *.
                   apply Forall_cons_iff in H8 as [H8 _]. assert (2 ^ 32 = 4294967296) by reflexivity.
                   repeat split; [lia|exact H8|exact Hone].
                 * pose proof (states_num_lt4 st). assert (2 ^ 32 = 4294967296) by reflexivity. lia. }
           split; [rewrite sum_deltas_app; unfold ent; cbn [fst]; lia|].
           rewrite Hdata, !app_length. unfold ent at 1, enc_entry.
           destruct (Nat.eqb bits 1).
           { pose proof (leb_write_length ((e_len e - 1 - se_prev se) * 16 + hd 0 (write_n_state_loop st nums 0 None))). cbn [length]. nia. }
           rewrite app_length, packed_length.
           pose proof (leb_write_length ((e_len e - 1 - se_prev se) * 4 + states_num st)).
           assert (div_ceil (length nums) (per_byte st) <= bits)%nat.
           { unfold div_ceil. rewrite Hln. destruct st; cbn [per_byte]; lia. }
           cbn [length]. lia.
        -- rewrite !app_length. cbn [length]. lia.
        -- rewrite map_app, Habs, abs_from_app, <- app_assoc. cbn [map pack3]. unfold ent. cbn [fst snd].
           replace (blocks_len bl + sum_deltas es + (e_len e - 1 - se_prev se)) with (blocks_len bl + (e_len e - 1))
             by (rewrite <- Hprev; lia). reflexivity.
        -- apply Forall_app. split; [assumption|]. constructor; [|constructor]. repeat split; try assumption.
      * constructor; [|constructor]. cbn [decodes fst snd]. split; [lia|].
        split; [repeat split; assumption|]. split; assumption.
    + (* some other signal *)
      exists es, []. rewrite app_nil_r.
      split; [|split; [reflexivity|split; [exact Htab|constructor]]].
      apply Build_sinv; cbn [e_len e_ttr e_blocks e_signals]; auto.
      exists se. rewrite nth_error_update_other by assumption. repeat split; auto.
Qed.

(* a change of any other signal leaves this signal's state alone *)
Lemma other_step e bl es R i f e' : sinv e bl es R -> i <> id ->
  with_signal e i f = Ok e' -> sinv e' bl es R /\ e_skip e' = e_skip e /\ table e' = table e.
Proof.
  intros Hs Hne H.
  destruct Hs as [Hinv Hcap Hbl Hok Hidle (se & Hn & Htp & Hd & Hwf & Hprev & Hsz) Hcnt Habs Hrec].
  destruct (with_signal_inv e i _ e' Hinv H) as [Hinv' Htab].
  unfold with_signal in H. destruct (e_ttr e) as [|t0 tr] eqn:Ettr; [discriminate|].
  destruct (e_skip e) eqn:Esk.
  - inversion H; subst e'. split; [|split; [exact Esk|reflexivity]].
    apply Build_sinv; auto; [intros E; rewrite Ettr in E; discriminate|]. exists se. repeat split; auto.
  - destruct (nth_error (e_signals e) i) as [sei|] eqn:Eni; [|discriminate]. cbn [of_option bind] in H.
    destruct (f sei (u16_wrap (e_len e - 1))) as [sei'| |]; try discriminate.
    cbn [bind] in H. inversion H; subst e'; clear H. cbn [e_skip].
    split; [|split; [reflexivity|exact Htab]].
    apply Build_sinv; cbn [e_len e_ttr e_blocks e_signals]; auto.
    exists se. rewrite nth_error_update_other by assumption. repeat split; auto.
Qed.

Lemma nth_error_map_ {A B} (f : A -> B) l k : nth_error (map f l) k = option_map f (nth_error l k).
Proof. revert k; induction l as [|x l IH]; intros [|k]; cbn; auto. Qed.

(* a time stamp: the step is accepted (possibly after closing a full block), repeated or rejected *)
Lemma time_step e bl es R t e' : sinv e bl es R ->
  N.of_nat (length R) * (10 + N.of_nat bits) < 4294967264 ->
  time_change e t = Ok e' ->
  exists bl' es',
    sinv e' bl' es' R /\ table e' = accept (table e) t /\
    e_skip e' = match last_of (table e) with
                | None => false
                | Some p => match N.compare p t with Gt => true | _ => false end
                end.
Proof.
  intros Hs Hbud H.
  destruct (time_change_inv lz_compress cap cap_pos e t (si_inv _ _ _ _ Hs)) as (e'' & He'' & Hinv' & Htab).
  rewrite H in He''. inversion He''; subst e''; clear He''.
  destruct Hs as [Hinv Hcap Hbl Hok Hidle (se & Hn & Htp & Hd & Hwf & Hprev & Hsz) Hcnt Habs Hrec].
  pose proof Hinv as [Hlen Hnew Hidl Hlast].
  (* the "continue" branch *)
  assert (Hcont : forall e2,
    (do e1 <- (if cap <=? e_len e
               then do e0 <- finish_block e;
                    Ok (mk_enc [] 0 (e_signals e0) (e_new e0) (e_skip e0) (e_blocks e0))
               else Ok e);
     Ok (mk_enc (t :: e_ttr e1) (e_len e1 + 1) (e_signals e1) true false (e_blocks e1))) = Ok e2 ->
    inv e2 -> exists bl' es', sinv e2 bl' es' R /\ e_skip e2 = false).
  { intros e2 H2 Hinv2. destruct (N.leb_spec cap (e_len e)) as [Hfull|Hroom].
    - assert (Hne : e_ttr e <> []) by (intros E; rewrite E in Hlen; cbn in Hlen; lia).
      unfold WaveMem.finish_block in H2. rewrite (Hnew Hne) in H2. cbn [negb] in H2.
      pose proof (finish_signals_spec lz_compress (e_signals e) []) as Hfs.
      pose proof (region_found lz_compress (fun _ _ => None) (e_signals e) id se) as Hrf.
      destruct (finish_signals lz_compress (e_signals e) []) as [[sigs' offs] data] eqn:Efs.
      destruct Hfs as (Hsigs & _ & _).
      destruct (last_opt (e_ttr e)) as [stt|] eqn:El; [|cbn in H2; discriminate].
      destruct (hd_error (e_ttr e)) as [endt|] eqn:Eh; [|cbn in H2; discriminate].
      cbn [of_option bind e_signals e_new e_skip e_blocks e_len e_ttr] in H2. inversion H2; subst e2; clear H2.
      set (x := (e_signals e, stt, rev (e_ttr e), se, es) : blk).
      exists (bl ++ [x]), []. split; [|reflexivity].
      apply Build_sinv; cbn [e_len e_ttr e_blocks e_signals].
      + exact Hinv2.
      + lia.
      + rewrite Hbl, map_app. cbn [map]. f_equal. f_equal. unfold x, blk_block, block_of. rewrite Efs.
        now rewrite rev_append_rev, app_nil_r.
      + apply Forall_app. split; [assumption|]. constructor; [|constructor]. unfold x, blk_ok.
        repeat split; try assumption. nia.
      + intros E; discriminate.
      + exists (mk_se [] (se_tpe se) 0 (se_max se)). rewrite Hsigs, nth_error_map_, Hn. cbn [option_map].
        unfold se_finish. cbn [fst]. split.
        * destruct (se_data se); [reflexivity|]. destruct (_ || _); [reflexivity|]. destruct (_ <=? _)%nat; reflexivity.
        * cbn [se_tpe se_data se_prev se_max length]. repeat split; try assumption; try constructor; try reflexivity; try lia.
      + cbn [length]. lia.
      + rewrite Habs, blocks_abs_app. unfold x. cbn [abs_from]. rewrite app_nil_r. now rewrite N.add_0_l.
      + exact Hrec.
    - cbn [bind] in H2. inversion H2; subst e2; clear H2.
      exists bl, es. split; [|reflexivity].
      apply Build_sinv; cbn [e_len e_ttr e_blocks e_signals]; try assumption.
      + lia.
      + intros E; discriminate.
      + exists se. repeat split; auto. }
  unfold WaveMem.time_change in H.
  destruct (hd_error (e_ttr e)) as [prev|] eqn:Ehd.
  - assert (Hl : last_of (table e) = Some prev).
    { destruct Hlast as [Hx|[Hx _]]; [congruence|]. rewrite Hx in Ehd. discriminate. }
    rewrite Hl. destruct (N.compare_spec prev t) as [Heq|Hlt|Hgt].
    + inversion H; subst e'; clear H. exists bl, es. split; [|split; [exact Htab|reflexivity]].
      apply Build_sinv; cbn [e_len e_ttr e_blocks e_signals]; auto. exists se. repeat split; auto.
    + destruct (Hcont e' H Hinv') as (bl' & es' & Hs' & Hsk). exists bl', es'. split; [exact Hs'|split; [exact Htab|exact Hsk]].
    + inversion H; subst e'; clear H. exists bl, es. split; [|split; [exact Htab|reflexivity]].
      apply Build_sinv; cbn [e_len e_ttr e_blocks e_signals]; auto. exists se. repeat split; auto.
  - assert (Hnil : e_ttr e = []) by (destruct (e_ttr e); [reflexivity|discriminate]).
    destruct (Hcont e' H Hinv') as (bl' & es' & Hs' & Hsk). exists bl', es'.
    split; [exact Hs'|]. split; [exact Htab|]. rewrite Hsk.
    destruct Hlast as [Hx|[_ Hb]].
    + rewrite Hx. reflexivity.
    + unfold table. rewrite Hb, Hnil. reflexivity.
Qed.

(* the histories considered: the signal is driven by VCD value changes and by raw value changes whose data is
   the packed form of `bits` valid symbols (what the GHW vector buffer delivers); no real-valued changes *)
Definition op_ok (op : enc_op) : Prop :=
  match op with
  | OpRaw i data st =>
    i = id -> exists syms, data = write_n_state_loop st syms 0 None /\ length syms = bits /\
                           small_syms st syms /\ Forall (fun v => v <= 8) syms
  | OpReal i _ => i <> id
  | _ => True
  end.

Fixpoint count_vcd (ops : list enc_op) : nat :=
  match ops with
  | [] => O
  | OpVcd i _ :: r => if Nat.eqb i id then S (count_vcd r) else count_vcd r
  | OpRaw i _ _ :: r => if Nat.eqb i id then S (count_vcd r) else count_vcd r
  | _ :: r => count_vcd r
  end.

Lemma run_ops_sinv : forall ops e bl es R e',
  sinv e bl es R -> Forall op_ok ops ->
  N.of_nat (length R + count_vcd ops) * (10 + N.of_nat bits) < 4294967264 ->
  run_ops e ops = Ok e' ->
  exists bl' es' R', sinv e' bl' es' (R ++ R') /\ Forall2 decodes R' (recorded id ops (table e) (e_skip e)).
Proof.
  induction ops as [|op ops IH]; intros e bl es R e' Hs Hok Hbud H; cbn [WaveMem.run_ops] in H.
  - inversion H; subst e'. exists bl, es, []. rewrite app_nil_r. split; [exact Hs|constructor].
  - apply Forall_cons_iff in Hok as [Hop Hok].
    destruct (run_op e op) as [e1| |] eqn:E1; try discriminate. cbn [bind] in H.
    destruct op as [t|i v|i v st|i le]; cbn [WaveMem.run_op] in E1; cbn [recorded count_vcd] in *.
    + (* time *)
      destruct (time_step e bl es R t e1 Hs ltac:(nia) E1) as (bl1 & es1 & Hs1 & Htab & Hsk).
      destruct (IH e1 bl1 es1 R e' Hs1 Hok Hbud H) as (bl' & es' & R' & Hs' & Hrec).
      exists bl', es', R'. split; [exact Hs'|]. rewrite Htab, Hsk in Hrec. unfold accept in Hrec.
      destruct (last_of (table e)) as [p|]; [|exact Hrec].
      destruct (N.compare_spec p t); destruct (N.ltb_spec p t); try lia; exact Hrec.
    + (* VCD value change *)
      destruct (vcd_step e bl es R i v e1 Hs E1) as (es1 & R1 & Hs1 & Hsk & Htab & Hdec).
      assert (Hlen1 : (length R1 <= (if Nat.eqb i id then 1 else 0))%nat).
      { apply forall2_length in Hdec. rewrite Hdec. destruct (e_skip e); cbn [orb]; [cbn; lia|].
        destruct (Nat.eqb i id); cbn; lia. }
      destruct (IH e1 bl es1 (R ++ R1) e' Hs1 Hok) as (bl' & es' & R' & Hs' & Hrec); [|exact H|].
      { rewrite app_length. destruct (Nat.eqb i id); nia. }
      exists bl', es', (R1 ++ R'). rewrite app_assoc. split; [exact Hs'|].
      rewrite Htab, Hsk in Hrec.
      destruct (e_skip e || negb (Nat.eqb i id)).
      * inversion Hdec; subst. exact Hrec.
      * inversion Hdec as [|a b l1 l2 Hab Hl12]; subst. inversion Hl12; subst. cbn [app]. constructor; assumption.
    + (* raw value change *)
      destruct (Nat.eqb_spec i id) as [Ei|Ei].
      * destruct (Hop Ei) as (syms & -> & Hraw).
        destruct (raw_step e bl es R i st syms e1 Hs (fun _ => Hraw) E1) as (es1 & R1 & Hs1 & Hsk & Htab & Hdec).
        assert (Hlen1 : (length R1 <= 1)%nat).
        { apply forall2_length in Hdec. rewrite Hdec. destruct (e_skip e || negb (Nat.eqb i id)); cbn; lia. }
        destruct (IH e1 bl es1 (R ++ R1) e' Hs1 Hok) as (bl' & es' & R' & Hs' & Hrec); [|exact H|].
        { rewrite app_length. nia. }
        exists bl', es', (R1 ++ R'). rewrite app_assoc. split; [exact Hs'|].
        rewrite Htab, Hsk in Hrec. subst i. rewrite Nat.eqb_refl in *. cbn [negb] in *.
        destruct (e_skip e || false).
        -- inversion Hdec; subst. exact Hrec.
        -- inversion Hdec as [|a b l1 l2 Hab Hl12]; subst. inversion Hl12; subst. cbn [app]. constructor; assumption.
      * destruct (other_step e bl es R i _ e1 Hs Ei E1) as (Hs1 & Hsk & Htab).
        destruct (IH e1 bl es R e' Hs1 Hok Hbud H) as (bl' & es' & R' & Hs' & Hrec).
        exists bl', es', R'. split; [exact Hs'|]. rewrite Htab, Hsk in Hrec.
        replace (e_skip e || negb false) with true by (destruct (e_skip e); reflexivity). exact Hrec.
    + destruct (other_step e bl es R i _ e1 Hs Hop E1) as (Hs1 & Hsk & Htab).
      destruct (IH e1 bl es R e' Hs1 Hok Hbud H) as (bl' & es' & R' & Hs' & Hrec).
      exists bl', es', R'. split; [exact Hs'|]. now rewrite Htab, Hsk in Hrec.
Qed.

Lemma sinv_new tpes : nth_error tpes id = Some (EncBits bits) -> sinv (enc_new tpes) [] [] [].
Proof.
  intros H. apply Build_sinv; cbn [enc_new e_len e_ttr e_blocks e_signals map].
  - apply inv_new_enc.
  - lia.
  - reflexivity.
  - constructor.
  - reflexivity.
  - exists (se_new (EncBits bits)). rewrite nth_error_map_, H. cbn. repeat split; try constructor. lia.
  - cbn; lia.
  - reflexivity.
  - constructor.
Qed.

(* Encoder::finish: all recorded entries end up in finished blocks *)
Lemma finish_sinv e bl es R blocks ttb : sinv e bl es R ->
  N.of_nat (length R) * (10 + N.of_nat bits) < 4294967264 ->
  enc_finish e = Ok (blocks, ttb) ->
  exists bl', blocks = map (blk_block lz_compress) bl' /\ Forall (blk_ok id bits) bl' /\
              blocks_abs bl' 0 = map pack3 R /\ blocks_len bl' = N.of_nat (length ttb).
Proof.
  intros Hs Hbud H.
  destruct Hs as [Hinv Hcap Hbl Hok Hidle (se & Hn & Htp & Hd & Hwf & Hprev & Hsz) Hcnt Habs Hrec].
  pose proof Hinv as [Hlen Hnew Hidl Hlast].
  unfold WaveMem.enc_finish, WaveMem.finish_block in H.
  destruct (e_new e) eqn:Enew; cbn [negb] in H.
  - pose proof (finish_signals_spec lz_compress (e_signals e) []) as Hfs.
    destruct (finish_signals lz_compress (e_signals e) []) as [[sigs' offs] data] eqn:Efs.
    destruct (last_opt (e_ttr e)) as [stt|] eqn:El; [|cbn in H; discriminate].
    destruct (hd_error (e_ttr e)) as [endt|] eqn:Eh; [|cbn in H; discriminate].
    cbn [of_option bind e_blocks] in H. inversion H; subst blocks ttb; clear H.
    set (x := (e_signals e, stt, rev (e_ttr e), se, es) : blk).
    assert (Hx : mk_block stt (rev_append (e_ttr e) []) offs data = blk_block lz_compress x).
    { unfold x, blk_block, block_of. rewrite Efs. now rewrite rev_append_rev, app_nil_r. }
    exists (bl ++ [x]). rewrite Hx. split; [now rewrite Hbl, map_app|]. split; [|split].
    + apply Forall_app. split; [assumption|]. constructor; [|constructor]. unfold x, blk_ok.
      repeat split; try assumption. nia.
    + rewrite blocks_abs_app. unfold x. now rewrite N.add_0_l, Habs.
    + rewrite Hbl. change [blk_block lz_compress x] with (map (blk_block lz_compress) [x]). rewrite <- map_app. apply eq_sym, flat_tt_len.
  - cbn [bind] in H. inversion H; subst blocks ttb; clear H.
    assert (Hnil : e_ttr e = []).
    { destruct (e_ttr e) eqn:E; [reflexivity|]. exfalso. assert (X : false = true) by (apply Hnew; discriminate). discriminate. }
    rewrite (Hidle Hnil) in Habs. cbn [abs_from] in Habs. rewrite app_nil_r in Habs.
    exists bl. split; [exact Hbl|]. split; [exact Hok|]. split; [now rewrite Habs|].
    rewrite Hbl. apply eq_sym, flat_tt_len.
Qed.

End Enc.

(* ------------------------------------------------------------------ de-duplication on abstract entries *)

Definition akey (a : aentry) : states * list N := (snd (fst a), snd a).
Definition akey_eqb (x y : states * list N) : bool := states_eqb (fst x) (fst y) && list_eqb (snd x) (snd y).
Definition dedup (R : list aentry) : list aentry := dedup_by akey_eqb akey R None.

Definition char_of (v : N) : byte := nth (N.to_nat v) nine_state_lookup 0.

Lemma char_of_inj_sweep :
  forallb (fun u => forallb (fun v => negb (char_of u =? char_of v) || (u =? v)) small9) small9 = true.
Proof. vm_compute. reflexivity. Qed.

Lemma char_of_inj u v : u <= 8 -> v <= 8 -> char_of u = char_of v -> u = v.
Proof.
  intros Hu Hv E. pose proof char_of_inj_sweep as S. rewrite forallb_forall in S.
  specialize (S u (le8_in u Hu)). rewrite forallb_forall in S. specialize (S v (le8_in v Hv)).
  rewrite E, N.eqb_refl in S. cbn [negb orb] in S. now apply N.eqb_eq.
Qed.

Lemma lookup_ok l s : small_syms l s -> Forall (fun v => v <= 8) s ->
  lookup_all (lookup_table l) s = Ok (map char_of s).
Proof.
  intros Hs H8. apply lookup_all_spec; [assumption|assumption|].
  clear Hs. induction H8 as [|v r Hv _ IH]; cbn [map]; constructor; [|exact IH].
  unfold char_of. apply nth_error_nth'. change (length nine_state_lookup) with 9%nat. lia.
Qed.

Lemma map_char_inj s1 : forall s2, Forall (fun v => v <= 8) s1 -> Forall (fun v => v <= 8) s2 ->
  map char_of s1 = map char_of s2 -> s1 = s2.
Proof.
  induction s1 as [|a r IH]; intros [|b r2] H1 H2 E; cbn [map] in E; try discriminate; [reflexivity|].
  apply Forall_cons_iff in H1 as [Ha Hr]. apply Forall_cons_iff in H2 as [Hb Hr2].
  inversion E. f_equal; [now apply char_of_inj|now apply IH].
Qed.

Section Final.
Variable bits : nat.
Hypothesis bits_ge2 : (1 <= bits)%nat.

Definition rok (mx : states) (a : aentry) : Prop :=
  rec_ok bits a /\ states_num (snd (fst a)) <= states_num mx.

(* two recorded values have the same stored entry iff they have the same kind and symbols *)
Lemma wide_inj mx a b : rok mx a -> rok mx b ->
  list_eqb (snd (wide_of mx bits a)) (snd (wide_of mx bits b)) = akey_eqb (akey a) (akey b).
Proof.
  destruct a as [[ga la] sa], b as [[gb lb] sb]. intros [(Hla & Hsa & H8a) Hma] [(Hlb & Hsb & H8b) Hmb].
  cbn [fst snd] in *. unfold akey, akey_eqb. cbn [wide_of fst snd].
  destruct (list_eqb _ _) eqn:E.
  - apply list_eqb_spec in E.
    pose proof (entry_render mx bits la sa [] [] 0 bits_ge2 Hla Hsa Hma eq_refl) as Ra.
    pose proof (entry_render mx bits lb sb [] [] 0 bits_ge2 Hlb Hsb Hmb eq_refl) as Rb.
    cbn [app] in Ra, Rb. rewrite !app_nil_r in *. rewrite E, Rb in Ra.
    rewrite (lookup_ok la sa Hsa H8a), (lookup_ok lb sb Hsb H8b) in Ra. cbn [bind] in Ra.
    inversion Ra as [[Hk Hc]].
    assert (la = lb) by (destruct la, lb; cbn in Hk; congruence). subst lb.
    apply map_char_inj in Hc; try assumption. subst sb.
    unfold states_eqb. rewrite N.eqb_refl. cbn [andb]. apply eq_sym, list_eqb_spec. reflexivity.
  - destruct (states_eqb la lb && list_eqb sa sb) eqn:E2; [|reflexivity].
    apply andb_prop in E2 as [E3 E4]. apply list_eqb_spec in E4. subst sb.
    assert (la = lb) by (unfold states_eqb in E3; apply N.eqb_eq in E3; destruct la, lb; cbn in E3; congruence). subst lb.
    assert (list_eqb (wide mx bits la (write_n_state_loop la sa 0 None)) (wide mx bits la (write_n_state_loop la sa 0 None)) = true)
      by (apply list_eqb_spec; reflexivity). congruence.
Qed.

Lemma dedup_by_in (l : list aentry) : forall prev a, In a (dedup_by akey_eqb akey l prev) -> In a l.
Proof.
  induction l as [|x l IH]; intros prev a H; cbn [dedup_by] in H; [exact H|].
  destruct prev as [p|].
  - destruct (akey_eqb p (akey x)); [right; eapply IH; eauto|].
    destruct H as [->|H]; [now left|right; eapply IH; eauto].
  - destruct H as [->|H]; [now left|right; eapply IH; eauto].
Qed.

Lemma last_opt_map {A B} (f : A -> B) l : last_opt (map f l) = option_map f (last_opt l).
Proof. induction l as [|x [|y l] IH]; try reflexivity. exact IH. Qed.

Lemma push_one mx c a : rok mx a -> Forall (rok mx) c ->
  push_canon (map (wide_of mx bits) c) (wide_of mx bits a)
  = map (wide_of mx bits) (match last_opt c with
                           | Some a0 => if akey_eqb (akey a0) (akey a) then c else c ++ [a]
                           | None => c ++ [a]
                           end).
Proof.
  intros Ha Hc. unfold push_canon. rewrite last_opt_map.
  destruct (last_opt c) as [a0|] eqn:Elc; cbn [option_map].
  - assert (Ha0 : rok mx a0).
    { apply last_opt_some in Elc as [c' ->]. apply Forall_app in Hc as [_ Hx]. now apply Forall_cons_iff in Hx as [? _]. }
    pose proof (wide_inj mx a0 a Ha0 Ha) as Hinj.
    destruct (wide_of mx bits a0) as [t0 w0]. cbn [snd] in Hinj. rewrite Hinj.
    destruct (akey_eqb (akey a0) (akey a)); [reflexivity|]. now rewrite map_app.
  - now rewrite map_app.
Qed.

(* the loader's push/compare/truncate discipline computes exactly the abstract de-duplication *)
Lemma push_canon_dedup mx : forall (l c : list aentry), Forall (rok mx) l -> Forall (rok mx) c ->
  fold_left push_canon (map (wide_of mx bits) l) (map (wide_of mx bits) c)
  = map (wide_of mx bits) (c ++ dedup_by akey_eqb akey l (option_map akey (last_opt c))).
Proof.
  induction l as [|a l IH]; intros c Hl Hc; cbn [map fold_left dedup_by]; [now rewrite app_nil_r|].
  apply Forall_cons_iff in Hl as [Ha Hl]. rewrite (push_one mx c a Ha Hc).
  destruct (last_opt c) as [a0|] eqn:Elc; cbn [option_map].
  - destruct (akey_eqb (akey a0) (akey a)).
    + rewrite IH by assumption. now rewrite Elc.
    + rewrite IH; [|assumption|apply Forall_app; split; [assumption|now constructor]].
      rewrite last_opt_app. cbn [option_map]. now rewrite <- app_assoc.
  - rewrite IH; [|assumption|apply Forall_app; split; [assumption|now constructor]].
    rewrite last_opt_app. cbn [option_map]. now rewrite <- app_assoc.
Qed.

End Final.

(* ------------------------------------------------------------------ storage is transparent *)

Lemma abs_from_in es : forall t g l p, In (g, l, p) (abs_from t es) -> exists d, In (d, l, p) es.
Proof.
  induction es as [|[[d0 l0] p0] r IH]; intros t g l p H; cbn [abs_from] in H; [destruct H|].
  destruct H as [H|H]; [inversion H; subst; exists d0; now left|].
  destruct (IH _ _ _ _ H) as [d Hd]. exists d. now right.
Qed.

Lemma blocks_abs_in bl : forall off g l p, In (g, l, p) (blocks_abs bl off) ->
  exists x, In x bl /\ (let '(_, _, _, se, es) := x in exists d, In (d, l, p) es).
Proof.
  induction bl as [|[[[[s st] ttb] se] es] r IH]; intros off g l p H; cbn [blocks_abs] in H; [destruct H|].
  apply in_app_or in H as [H|H].
  - exists (s, st, ttb, se, es). split; [now left|]. eapply abs_from_in; eauto.
  - destruct (IH _ _ _ _ H) as (x & Hx & Hd). exists x. split; [now right|exact Hd].
Qed.

Lemma recorded_length id ops : forall tbl skip, (length (recorded id ops tbl skip) <= count_vcd id ops)%nat.
Proof.
  induction ops as [|op ops IH]; intros tbl skip; cbn [recorded count_vcd]; [cbn; lia|].
  destruct op as [t|i v|i v st|i le]; try apply IH.
  - destruct (last_of tbl) as [p|]; [destruct (p ?= t)|]; apply IH.
  - specialize (IH tbl skip). destruct skip; cbn [orb].
    + destruct (Nat.eqb i id); lia.
    + destruct (Nat.eqb i id); cbn [negb length]; lia.
  - specialize (IH tbl skip). destruct skip; cbn [orb].
    + destruct (Nat.eqb i id); lia.
    + destruct (Nat.eqb i id); cbn [negb length]; lia.
Qed.

Section Transparent.
Variable parse_f64 : list byte -> option (list byte).
Variable lz_compress : list byte -> list byte.
Variable lz_decompress : list byte -> nat -> option (list byte).
Hypothesis lz_ok : forall d n, (length d <= n)%nat -> lz_decompress (lz_compress d) n = Some d.
Variable cap : N.
Hypothesis cap_pos : 1 <= cap.
Hypothesis cap_u16 : cap <= 65536.
Variable id : nat.
Variable bits : nat.
Hypothesis bits_ge2 : (1 <= bits)%nat.

(* Property C04 for bit-vector signals written through the VCD path: for every history of time stamps
   and value changes (of any number of signals), every block capacity (every segmentation) and every
   compressor satisfying the round-trip law, the loaded signal reports exactly the recorded values:
   each with its time table index, the least kind that holds it and its characters, consecutive equal
   values reported once *)
(* the loaded signal itself: its time indices and bytes are the widened entries of the de-duplicated recorded list *)
Theorem storage_loaded_shape tpes ops e blocks ttb :
  nth_error tpes id = Some (EncBits bits) ->
  Forall (op_ok id bits) ops ->
  N.of_nat (count_vcd id ops) * (10 + N.of_nat bits) < 4294967264 ->
  run_ops parse_f64 lz_compress cap (enc_new tpes) ops = Ok e ->
  enc_finish lz_compress e = Ok (blocks, ttb) ->
  N.of_nat (length ttb) < 4294967296 ->
  exists R mx,
    Forall2 (decodes bits) R (recorded id ops [] false) /\ Forall (rok bits mx) R /\
    load_signal lz_decompress blocks id (EncBits bits)
    = Ok (mk_signal (map fst (map (wide_of mx bits) (dedup R)))
                    (SigBits mx bits (snd (get_len_and_meta mx bits)) (bpe_of mx bits)
                             (concat (map snd (map (wide_of mx bits) (dedup R)))))).
Proof.
  intros Htp Hops Hbud Hrun Hfin Hlen.
  destruct (run_ops_sinv parse_f64 lz_compress cap cap_pos cap_u16 id bits bits_ge2 ops _ [] [] [] e
              (sinv_new lz_compress cap cap_pos cap_u16 id bits bits_ge2 tpes Htp) Hops ltac:(cbn [length Nat.add]; exact Hbud) Hrun)
    as (bl & es & R & Hs & Hrec).
  cbn [app] in Hs. change (table (enc_new tpes)) with (@nil N) in Hrec. cbn [enc_new e_skip] in Hrec.
  assert (HlenR : (length R <= count_vcd id ops)%nat).
  { rewrite (forall2_length _ _ _ Hrec). apply recorded_length. }
  destruct (finish_sinv parse_f64 lz_compress cap cap_pos cap_u16 id bits bits_ge2 e bl es R blocks ttb Hs ltac:(nia) Hfin) as (bl' & -> & Hok & Habs & Hbl).
  destruct (load_signal_blocks lz_compress lz_decompress lz_ok id bits bl' bits_ge2 Hok) as (mx & Hmx & Hload).
  exists R, mx. split; [exact Hrec|].
  assert (Hrok : Forall (rok bits mx) R).
  { pose proof (si_rec _ _ _ _ _ _ _ _ Hs) as Hr. rewrite Forall_forall in *. intros a Ha. split; [now apply Hr|].
    destruct a as [[g l] s]. cbn [fst snd].
    assert (Hin : In (g, l, write_n_state_loop l s 0 None) (blocks_abs bl' 0)).
    { rewrite Habs. change (g, l, write_n_state_loop l s 0 None) with (pack3 (g, l, s)). now apply in_map. }
    destruct (blocks_abs_in bl' 0 _ _ _ Hin) as (x & Hx & Hd).
    specialize (Hok x Hx). specialize (Hmx x Hx). destruct x as [[[[sg st] tb] se] es'].
    destruct Hd as [d Hd]. destruct Hok as (_ & _ & Hwf & _). rewrite Forall_forall in Hwf.
    specialize (Hwf _ Hd). destruct Hwf as [(_ & Hle & _) _].
    assert (es' <> []) by (intros ->; destruct Hd). specialize (Hmx H). lia. }
  split; [exact Hrok|]. rewrite Hload.
  rewrite blks_spec_fold by (rewrite Hbl; lia). rewrite Habs.
  replace (map (wide3 mx bits) (map pack3 R)) with (map (wide_of mx bits) R)
    by (rewrite map_map; apply map_ext; intros [[g l] s]; reflexivity).
  pose proof (push_canon_dedup bits bits_ge2 mx R [] Hrok ltac:(constructor)) as Hd.
  cbn [map app last_opt option_map] in Hd. rewrite Hd. reflexivity.
Qed.

Theorem storage_transparent tpes ops e blocks ttb :
  nth_error tpes id = Some (EncBits bits) ->
  Forall (op_ok id bits) ops ->
  N.of_nat (count_vcd id ops) * (10 + N.of_nat bits) < 4294967264 ->
  run_ops parse_f64 lz_compress cap (enc_new tpes) ops = Ok e ->
  enc_finish lz_compress e = Ok (blocks, ttb) ->
  N.of_nat (length ttb) < 4294967296 ->
  exists R sig,
    Forall2 (decodes bits) R (recorded id ops [] false) /\
    load_signal lz_decompress blocks id (EncBits bits) = Ok sig /\
    observe_signal sig = outcome_map render_of (dedup R).
Proof.
  intros Htp Hops Hbud Hrun Hfin Hlen.
  destruct (storage_loaded_shape tpes ops e blocks ttb Htp Hops Hbud Hrun Hfin Hlen) as (R & mx & Hrec & Hrok & Hload).
  exists R. eexists. split; [exact Hrec|]. split; [exact Hload|].
  apply observe_entries; [exact bits_ge2|].
  rewrite Forall_forall in *. intros a Ha. apply dedup_by_in in Ha. specialize (Hrok a Ha).
  destruct a as [[g l] s]. destruct Hrok as [(H1 & H2 & _) H3]. cbn [fst snd] in *. repeat split; assumption.
Qed.

End Transparent.

(* ------------------------------------------------------------------ Encoder::append (several parser threads) *)

Definition shift3 (k : N) (a : N * states * list byte) : N * states * list byte := let '(g, l, p) := a in (k + g, l, p).
Definition shift (k : N) (R : list aentry) : list aentry := map (fun a : aentry => let '(g, l, s) := a in (k + g, l, s)) R.

Lemma abs_from_shift es : forall t k, abs_from (k + t) es = map (shift3 k) (abs_from t es).
Proof.
  induction es as [|[[d l] p] r IH]; intros t k; [reflexivity|]. cbn [abs_from map shift3].
  replace (k + t + d) with (k + (t + d)) by lia. now rewrite IH.
Qed.

Lemma blocks_abs_shift bl : forall off k, blocks_abs bl (k + off) = map (shift3 k) (blocks_abs bl off).
Proof.
  induction bl as [|[[[[s st] ttb] se] es] r IH]; intros off k; [reflexivity|]. cbn [blocks_abs].
  rewrite map_app, abs_from_shift. f_equal. replace (k + off + N.of_nat (length ttb)) with (k + (off + N.of_nat (length ttb))) by lia.
  apply IH.
Qed.

Lemma blocks_abs_app2 bl1 : forall bl2 off,
  blocks_abs (bl1 ++ bl2) off = blocks_abs bl1 off ++ blocks_abs bl2 (off + blocks_len bl1).
Proof.
  induction bl1 as [|[[[[s st] ttb] se] es] r IH]; intros bl2 off.
  - cbn [app blocks_abs]. unfold blocks_len. cbn [fold_left]. f_equal. lia.
  - cbn [app blocks_abs]. rewrite IH, <- app_assoc. f_equal. f_equal. f_equal.
    unfold blocks_len at 2. cbn [fold_left]. rewrite blocks_len_acc. lia.
Qed.

Lemma blocks_len_app2 bl1 bl2 : blocks_len (bl1 ++ bl2) = blocks_len bl1 + blocks_len bl2.
Proof. unfold blocks_len at 1. rewrite fold_left_app. fold (blocks_len bl1). apply blocks_len_acc. Qed.

Section Append.
Variable parse_f64 : list byte -> option (list byte).
Variable lz_compress : list byte -> list byte.
Variable cap : N.
Hypothesis cap_pos : 1 <= cap.
Hypothesis cap_u16 : cap <= 65536.
Variable id : nat.
Variable bits : nat.
Hypothesis bits_ge2 : (1 <= bits)%nat.

(* an encoder whose pending data has been moved into blocks *)
Definition fin (e : encoder) (bl : list blk) (R : list aentry) : Prop :=
  e_new e = false /\ e_blocks e = map (blk_block lz_compress) bl /\ Forall (blk_ok id bits) bl /\
  blocks_abs bl 0 = map (pack3) R /\ Forall (rec_ok bits) R.

Lemma finish_block_fin e bl es R e1 : sinv lz_compress cap id bits e bl es R ->
  N.of_nat (length R) * (10 + N.of_nat bits) < 4294967264 ->
  finish_block lz_compress e = Ok e1 -> exists bl', fin e1 bl' R /\ blocks_len bl' = N.of_nat (length (table e)).
Proof.
  intros Hs Hbud H. assert (Htl : N.of_nat (length (table e)) = blocks_len bl + e_len e) by (eapply table_len; eauto).
  destruct Hs as [Hinv Hcap Hbl Hok Hidle (se & Hn & Htp & Hd & Hwf & Hprev & Hsz) Hcnt Habs Hrec].
  pose proof Hinv as [Hlen Hnew Hidl Hlast].
  unfold WaveMem.finish_block in H.
  destruct (e_new e) eqn:Enew; cbn [negb] in H.
  - destruct (finish_signals lz_compress (e_signals e) []) as [[sigs' offs] data] eqn:Efs.
    destruct (last_opt (e_ttr e)) as [stt|] eqn:El; [|cbn in H; discriminate].
    destruct (hd_error (e_ttr e)) as [endt|] eqn:Eh; [|cbn in H; discriminate].
    cbn [of_option bind] in H. inversion H; subst e1; clear H.
    set (x := (e_signals e, stt, rev (e_ttr e), se, es) : blk).
    assert (Hx : mk_block stt (rev_append (e_ttr e) []) offs data = blk_block lz_compress x).
    { unfold x, blk_block, block_of. rewrite Efs. now rewrite rev_append_rev, app_nil_r. }
    exists (bl ++ [x]). split.
    + unfold fin. cbn [e_new e_blocks]. rewrite Hx. split; [reflexivity|].
      split; [now rewrite Hbl, map_app|]. split; [|split; [|exact Hrec]].
      * apply Forall_app. split; [assumption|]. constructor; [|constructor]. unfold x, blk_ok.
        repeat split; try assumption. nia.
      * rewrite blocks_abs_app. unfold x. now rewrite N.add_0_l, Habs.
    + rewrite blocks_len_app. unfold x. rewrite rev_length. lia.
  - inversion H; subst e1; clear H.
    assert (Hnil : e_ttr e = []).
    { destruct (e_ttr e) eqn:E; [reflexivity|]. exfalso. assert (X : false = true) by (apply Hnew; discriminate). discriminate. }
    rewrite (Hidle Hnil) in Habs. cbn [abs_from] in Habs. rewrite app_nil_r in Habs.
    exists bl. split; [unfold fin; repeat split; auto|]. rewrite Hnil in Hlen. cbn in Hlen. lia.
Qed.

Lemma finish_block_idem e : e_new e = false -> finish_block lz_compress e = Ok e.
Proof. intros H. unfold WaveMem.finish_block. now rewrite H. Qed.

(* Encoder::append: the blocks of the second encoder follow those of the first; its time indices are
   shifted by the length of the first encoder's time table *)
Lemma append_fin e o bl1 bl2 R1 R2 e' : fin e bl1 R1 -> fin o bl2 R2 ->
  append lz_compress e o = Ok e' ->
  fin e' (bl1 ++ bl2) (R1 ++ shift (blocks_len bl1) R2).
Proof.
  intros (Hn1 & Hb1 & Hok1 & Ha1 & Hr1) (Hn2 & Hb2 & Hok2 & Ha2 & Hr2) H.
  unfold append in H. rewrite (finish_block_idem e Hn1), (finish_block_idem o Hn2) in H. cbn [bind] in H.
  assert (Hshift : map pack3 (shift (blocks_len bl1) R2) = map (shift3 (blocks_len bl1)) (map pack3 R2)).
  { unfold shift. rewrite !map_map. apply map_ext. intros [[g l] s]. reflexivity. }
  assert (Hrs : Forall (rec_ok bits) (shift (blocks_len bl1) R2)).
  { unfold shift. rewrite Forall_forall in *. intros a Ha. apply in_map_iff in Ha as ([[g l] s] & <- & Hin). exact (Hr2 _ Hin). }
  destruct (e_blocks o) as [|first rest] eqn:Eo.
  - inversion H; subst e'; clear H. assert (bl2 = []) by (destruct bl2; [reflexivity|discriminate]). subst bl2.
    cbn [blocks_abs map] in Ha2. destruct R2; [|discriminate]. cbn [shift map]. rewrite !app_nil_r.
    unfold fin. repeat split; auto.
  - destruct (last_opt (e_blocks e)) as [lb|]; [|cbn in H; discriminate]. cbn [of_option bind] in H.
    destruct (last_opt (b_tt lb)) as [ue|]; [|cbn in H; discriminate]. cbn [of_option bind] in H.
    destruct (ue <=? b_start first); [|discriminate]. inversion H; subst e'; clear H.
    unfold fin. cbn [e_new e_blocks]. split; [exact Hn1|]. split; [now rewrite Hb1, Hb2, map_app|].
    split; [apply Forall_app; now split|]. split; [|apply Forall_app; now split].
    rewrite blocks_abs_app2, map_app, Ha1, Hshift, <- Ha2.
    rewrite (N.add_comm 0 (blocks_len bl1)), blocks_abs_shift. reflexivity.
Qed.


Lemma finish_block_new e e1 : finish_block lz_compress e = Ok e1 -> e_new e1 = false.
Proof.
  unfold WaveMem.finish_block. destruct (e_new e) eqn:E; cbn [negb]; intros H.
  - destruct (finish_signals lz_compress (e_signals e) []) as [[a b] c].
    destruct (last_opt (e_ttr e)); [|discriminate]. destruct (hd_error (e_ttr e)); [|discriminate].
    cbn in H. inversion H. reflexivity.
  - inversion H; subst. exact E.
Qed.

Lemma append_unfold e o e' : append lz_compress e o = Ok e' ->
  exists e1 o1, finish_block lz_compress e = Ok e1 /\ finish_block lz_compress o = Ok o1 /\ append lz_compress e1 o1 = Ok e'.
Proof.
  intros H. unfold append in H.
  destruct (finish_block lz_compress e) as [e1| |] eqn:E1; try discriminate. cbn [bind] in H.
  destruct (finish_block lz_compress o) as [o1| |] eqn:E2; try discriminate. cbn [bind] in H.
  exists e1, o1. split; [reflexivity|]. split; [reflexivity|]. unfold append.
  rewrite (finish_block_idem e1 (finish_block_new e e1 E1)), (finish_block_idem o1 (finish_block_new o o1 E2)). exact H.
Qed.

Lemma append_first_fin e e1 o : finish_block lz_compress e = Ok e1 -> append lz_compress e o = append lz_compress e1 o.
Proof.
  intros H. unfold append. rewrite H. cbn [bind]. now rewrite (finish_block_idem e1 (finish_block_new e e1 H)).
Qed.

(* finishing the first encoder up front does not change the result of appending and finishing *)
Lemma append_all_first first others e r : append_all lz_compress first others = Ok e -> enc_finish lz_compress e = Ok r ->
  exists f1, finish_block lz_compress first = Ok f1 /\
             exists e', append_all lz_compress f1 others = Ok e' /\ enc_finish lz_compress e' = Ok r.
Proof.
  intros Ha Hf. destruct others as [|o rest]; cbn [append_all] in Ha.
  - inversion Ha; subst e. unfold WaveMem.enc_finish in Hf.
    destruct (finish_block lz_compress first) as [f1| |] eqn:E; try discriminate. cbn [bind] in Hf.
    exists f1. split; [reflexivity|]. exists f1. split; [reflexivity|].
    unfold WaveMem.enc_finish. rewrite (finish_block_idem f1 (finish_block_new first f1 E)). exact Hf.
  - destruct (append lz_compress first o) as [a| |] eqn:Ea; try discriminate. cbn [bind] in Ha.
    destruct (append_unfold first o a Ea) as (f1 & o1 & F1 & _ & _).
    exists f1. split; [exact F1|]. exists e. split; [|exact Hf].
    cbn [append_all]. rewrite <- (append_first_fin first f1 o F1), Ea. exact Ha.
Qed.

(* the entries of several recordings, each shifted by the total length of the time tables before it *)
Fixpoint cat_shift (l : list (list aentry * N)) (off : N) : list aentry :=
  match l with
  | [] => []
  | (R, n) :: r => shift off R ++ cat_shift r (off + n)
  end.

Lemma shift_shift a b R : shift a (shift b R) = shift (a + b) R.
Proof. unfold shift. rewrite map_map. apply map_ext. intros [[g l] s]. f_equal. f_equal. lia. Qed.

Lemma shift_app k R1 R2 : shift k (R1 ++ R2) = shift k R1 ++ shift k R2.
Proof. unfold shift. apply map_app. Qed.

Lemma shift_0 R : shift 0 R = R.
Proof. unfold shift. rewrite <- (map_id R) at 2. apply map_ext. intros [[g l] s]. reflexivity. Qed.

(* one recording per parser thread: its encoder state after all its operations *)
Definition thread_ok (x : encoder * list blk * list sentry * list aentry) : Prop :=
  let '(e, bl, es, R) := x in
  sinv lz_compress cap id bits e bl es R /\ N.of_nat (length R) * (10 + N.of_nat bits) < 4294967264.

Lemma fin_len e bl R : fin e bl R -> blocks_len bl = N.of_nat (length (flat_map b_tt (e_blocks e))).
Proof. intros (_ & Hb & _). rewrite Hb. apply eq_sym, flat_tt_len. Qed.

Lemma append_all_fin : forall (ths : list (encoder * list blk * list sentry * list aentry)) acc bla Ra e',
  fin acc bla Ra -> Forall thread_ok ths ->
  append_all lz_compress acc (map (fun x => fst (fst (fst x))) ths) = Ok e' ->
  exists bls, Forall2 (fun b x => blocks_len b = N.of_nat (length (table (fst (fst (fst x)))))) bls ths /\
    fin e' (bla ++ concat bls)
        (Ra ++ cat_shift (combine (map (fun x => snd x) ths) (map blocks_len bls)) (blocks_len bla)).
Proof.
  induction ths as [|[[[o blo] eso] Ro] ths IH]; intros acc bla Ra e' Hf Hok H; cbn [map append_all] in H.
  - inversion H; subst e'. exists []. cbn [concat combine cat_shift map]. rewrite !app_nil_r. split; [constructor|exact Hf].
  - apply Forall_cons_iff in Hok as [[Hs Hbud] Hok]. cbn [fst] in H.
    destruct (append lz_compress acc o) as [a| |] eqn:Ea; try discriminate. cbn [bind] in H.
    destruct (append_unfold acc o a Ea) as (acc1 & o1 & F1 & F2 & Ea').
    assert (acc1 = acc).
    { destruct Hf as (Hn & _). rewrite (finish_block_idem acc Hn) in F1. now inversion F1. } subst acc1.
    destruct (finish_block_fin o blo eso Ro o1 Hs Hbud F2) as (blo' & Hfo & Hlo).
    pose proof (append_fin acc o1 bla blo' Ra Ro a Hf Hfo Ea') as Hfa.
    destruct (IH a _ _ e' Hfa Hok H) as (bls & Hl & Hfe).
    exists (blo' :: bls). split; [constructor; [exact Hlo|exact Hl]|].
    cbn [concat map combine cat_shift snd]. rewrite <- !app_assoc in Hfe. rewrite blocks_len_app2 in Hfe. exact Hfe.
Qed.

End Append.

(* ------------------------------------------------------------------ independence of the segmentation *)

Lemma decodes_fun bits a b r : decodes bits a r -> decodes bits b r -> a = b.
Proof.
  destruct a as [[ga la] sa], b as [[gb lb] sb]. cbn [decodes].
  intros (Hg1 & Hv1 & Hs1 & Hm1) (Hg2 & Hv2 & Hs2 & Hm2).
  assert (sa = sb).
  { destruct (snd r) as [v|data st].
    - destruct Hv1 as (c1 & Hn1 & _ & Hc1). destruct Hv2 as (c2 & Hn2 & _ & Hc2).
      rewrite Hn1 in Hn2. inversion Hn2; subst c2. rewrite Hc1 in Hc2. now inversion Hc2.
    - destruct Hv1 as (Hd1 & Hl1 & Hq1 & _). destruct Hv2 as (Hd2 & Hl2 & Hq2 & _).
      pose proof (pack_unpack st sa Hq1) as P1. pose proof (pack_unpack st sb Hq2) as P2.
      rewrite <- Hd1, Hl1 in P1. rewrite <- Hd2, Hl2 in P2. rewrite P1 in P2. now inversion P2. }
  subst sb.
  assert (states_num la = states_num lb) by (specialize (Hm1 lb Hs2); specialize (Hm2 la Hs1); lia).
  assert (la = lb) by (destruct la, lb; cbn in *; congruence). congruence.
Qed.

Lemma forall2_decodes_fun bits R1 : forall R2 rec, Forall2 (decodes bits) R1 rec -> Forall2 (decodes bits) R2 rec -> R1 = R2.
Proof.
  induction R1 as [|a R1 IH]; intros R2 rec H1 H2; inversion H1; subst; inversion H2; subst; [reflexivity|].
  f_equal; [eapply decodes_fun; eauto|eapply IH; eauto].
Qed.

(* what a loaded signal reports does not depend on the block capacity (how the history was divided
   into blocks) nor on the compressor: two stores fed the same history report the same changes *)
Theorem storage_independent_of_segmentation
  parse1 parse2 lzc1 lzd1 lzc2 lzd2 cap1 cap2 id bits tpes ops e1 e2 b1 t1 b2 t2 :
  (forall d n, (length d <= n)%nat -> lzd1 (lzc1 d) n = Some d) ->
  (forall d n, (length d <= n)%nat -> lzd2 (lzc2 d) n = Some d) ->
  1 <= cap1 <= 65536 -> 1 <= cap2 <= 65536 -> (1 <= bits)%nat ->
  nth_error tpes id = Some (EncBits bits) -> Forall (op_ok id bits) ops ->
  N.of_nat (count_vcd id ops) * (10 + N.of_nat bits) < 4294967264 ->
  run_ops parse1 lzc1 cap1 (enc_new tpes) ops = Ok e1 -> enc_finish lzc1 e1 = Ok (b1, t1) ->
  run_ops parse2 lzc2 cap2 (enc_new tpes) ops = Ok e2 -> enc_finish lzc2 e2 = Ok (b2, t2) ->
  N.of_nat (length t1) < 4294967296 -> N.of_nat (length t2) < 4294967296 ->
  exists s1 s2, load_signal lzd1 b1 id (EncBits bits) = Ok s1 /\ load_signal lzd2 b2 id (EncBits bits) = Ok s2 /\
                observe_signal s1 = observe_signal s2.
Proof.
  intros L1 L2 [C1 C1'] [C2 C2'] Hb Htp Hops Hbud R1 F1 R2 F2 T1 T2.
  destruct (storage_transparent parse1 lzc1 lzd1 L1 cap1 C1 C1' id bits Hb tpes ops e1 b1 t1 Htp Hops Hbud R1 F1 T1)
    as (Ra & s1 & Hda & Hl1 & Ho1).
  destruct (storage_transparent parse2 lzc2 lzd2 L2 cap2 C2 C2' id bits Hb tpes ops e2 b2 t2 Htp Hops Hbud R2 F2 T2)
    as (Rb & s2 & Hdb & Hl2 & Ho2).
  exists s1, s2. split; [exact Hl1|]. split; [exact Hl2|].
  rewrite Ho1, Ho2. now rewrite (forall2_decodes_fun bits Ra Rb _ Hda Hdb).
Qed.

(* the hypotheses are satisfiable and the conclusion is what one expects: a 3-bit signal and a second
   signal, block capacity 2 (three blocks), a repeated value, a rejected (backwards) time step *)
Example storage_example :
  let ops := [OpTime 1; OpVcd 0 [98; 49; 120; 48]; OpVcd 1 [49]; OpTime 2; OpVcd 0 [98; 49; 88; 48]; OpTime 3;
              OpVcd 0 [98; 49; 49; 49]; OpTime 2; OpVcd 0 [98; 48; 48; 48]; OpTime 5; OpVcd 0 [98; 122]; OpVcd 1 [48]] in
  exists e blocks ttb,
    run_ops (fun _ => None) (fun d => d) 2 (enc_new [EncBits 3; EncBits 1]) ops = Ok e /\
    enc_finish (fun d => d) e = Ok (blocks, ttb) /\ length blocks = 2%nat /\ ttb = [1; 2; 3; 5] /\
    recorded 0 ops [] false = [(0, RText [98; 49; 120; 48]); (1, RText [98; 49; 88; 48]); (2, RText [98; 49; 49; 49]); (3, RText [98; 122])] /\
    (do s <- load_signal (fun d _ => Some d) blocks 0 (EncBits 3); observe_signal s)
    = Ok [(0, KFour, [49; 120; 48]); (2, KBinary, [49; 49; 49]); (3, KFour, [122; 122; 122])].
Proof. cbn zeta. do 3 eexists. vm_compute. repeat split; reflexivity. Qed.

(* ------------------------------------------------------------------ several encoders (parser threads) appended *)
Section Threads.
Variable parse_f64 : list byte -> option (list byte).
Variable lz_compress : list byte -> list byte.
Variable lz_decompress : list byte -> nat -> option (list byte).
Hypothesis lz_ok : forall d n, (length d <= n)%nat -> lz_decompress (lz_compress d) n = Some d.
Variable cap : N.
Hypothesis cap_pos : 1 <= cap.
Hypothesis cap_u16 : cap <= 65536.
Variable id : nat.
Variable bits : nat.
Hypothesis bits_ge2 : (1 <= bits)%nat.

(* loading from a finished encoder *)
Lemma fin_load e bl R blocks ttb : fin lz_compress id bits e bl R ->
  enc_finish lz_compress e = Ok (blocks, ttb) -> N.of_nat (length ttb) < 4294967296 ->
  exists sig, load_signal lz_decompress blocks id (EncBits bits) = Ok sig /\
              observe_signal sig = outcome_map render_of (dedup R).
Proof.
  intros (Hn & Hb & Hok & Habs & Hrec) Hfin Hlen.
  unfold WaveMem.enc_finish in Hfin. rewrite (finish_block_idem lz_compress e Hn) in Hfin. cbn [bind] in Hfin.
  inversion Hfin; subst blocks ttb; clear Hfin. rewrite Hb in *.
  destruct (load_signal_blocks lz_compress lz_decompress lz_ok id bits bl bits_ge2 Hok) as (mx & Hmx & Hload).
  eexists. split; [exact Hload|].
  assert (Hrok : Forall (rok bits mx) R).
  { rewrite Forall_forall in *. intros a Ha. split; [now apply Hrec|].
    destruct a as [[g l] s]. cbn [fst snd].
    assert (Hin : In (g, l, write_n_state_loop l s 0 None) (blocks_abs bl 0)).
    { rewrite Habs. change (g, l, write_n_state_loop l s 0 None) with (pack3 (g, l, s)). now apply in_map. }
    destruct (blocks_abs_in bl 0 _ _ _ Hin) as (x & Hx & Hd).
    specialize (Hok x Hx). specialize (Hmx x Hx). destruct x as [[[[sg st] tb] se] es'].
    destruct Hd as [d Hd]. destruct Hok as (_ & _ & Hwf & _). rewrite Forall_forall in Hwf.
    specialize (Hwf _ Hd). destruct Hwf as [(_ & Hle & _) _].
    assert (es' <> []) by (intros ->; destruct Hd). specialize (Hmx H). lia. }
  rewrite blks_spec_fold by (rewrite N.add_0_l, <- (flat_tt_len lz_compress bl); exact Hlen). rewrite Habs.
  replace (map (wide3 mx bits) (map pack3 R)) with (map (wide_of mx bits) R)
    by (rewrite map_map; apply map_ext; intros [[g l] s]; reflexivity).
  pose proof (push_canon_dedup bits bits_ge2 mx R [] Hrok ltac:(constructor)) as Hd.
  cbn [map app last_opt option_map] in Hd. rewrite Hd.
  apply observe_entries; [exact bits_ge2|].
  rewrite Forall_forall in *. intros a Ha. apply dedup_by_in in Ha. specialize (Hrok a Ha).
  destruct a as [[g l] s]. destruct Hrok as [(H1 & H2 & _) H3]. cbn [fst snd] in *. repeat split; assumption.
Qed.

(* Storage half of C03/C04 "however the recording was divided among parser threads": k encoders, each fed
   its own history, appended in order and finished.  The loaded signal reports the recordings of the
   threads one after the other, each thread's time indices shifted by the lengths of the time tables
   before it, de-duplicated across the seams as well. *)
Theorem appended_transparent tpes (opss : list (list enc_op)) (encs : list encoder) first others e blocks ttb :
  nth_error tpes id = Some (EncBits bits) ->
  Forall2 (fun ops en => run_ops parse_f64 lz_compress cap (enc_new tpes) ops = Ok en) opss encs ->
  Forall (fun ops => Forall (op_ok id bits) ops /\ N.of_nat (count_vcd id ops) * (10 + N.of_nat bits) < 4294967264) opss ->
  encs = first :: others ->
  append_all lz_compress first others = Ok e ->
  enc_finish lz_compress e = Ok (blocks, ttb) -> N.of_nat (length ttb) < 4294967296 ->
  exists Rs sig,
    Forall2 (fun R ops => Forall2 (decodes bits) R (recorded id ops [] false)) Rs opss /\
    load_signal lz_decompress blocks id (EncBits bits) = Ok sig /\
    observe_signal sig
    = outcome_map render_of
        (dedup (cat_shift (combine Rs (map (fun ops => N.of_nat (length (accepted (times_of ops)))) opss)) 0)).
Proof.
  intros Htp Hruns Hops Hencs Happ Hfin Hlen.
  (* every thread: its invariant state and its decoded recording *)
  assert (Hth : exists ths : list (encoder * list blk * list sentry * list aentry),
            map (fun x => fst (fst (fst x))) ths = encs /\ Forall (thread_ok lz_compress cap id bits) ths /\
            Forall2 (fun R ops => Forall2 (decodes bits) R (recorded id ops [] false)) (map (fun x => snd x) ths) opss /\
            Forall2 (fun x ops => table (fst (fst (fst x))) = accepted (times_of ops)) ths opss).
  { clear Hencs Happ. induction Hruns as [|ops en opss encs Hrun Hruns IH].
    - exists []. repeat split; constructor.
    - apply Forall_cons_iff in Hops as [[Hok Hbud] Hops]. destruct (IH Hops) as (ths & Hm & Hto & Hdec & Htab).
      destruct (run_ops_sinv parse_f64 lz_compress cap cap_pos cap_u16 id bits bits_ge2 ops _ [] [] [] en
                  (sinv_new lz_compress cap cap_pos cap_u16 id bits bits_ge2 tpes Htp) Hok ltac:(cbn [length Nat.add]; exact Hbud) Hrun)
        as (bl & es & R & Hs & Hrec).
      cbn [app] in Hs. change (table (enc_new tpes)) with (@nil N) in Hrec. cbn [enc_new e_skip] in Hrec.
      assert (HlenR : (length R <= count_vcd id ops)%nat) by (rewrite (forall2_length _ _ _ Hrec); apply recorded_length).
      destruct (run_ops_inv parse_f64 lz_compress cap cap_pos ops _ _ (inv_new_enc tpes) Hrun) as [_ Ht].
      exists ((en, bl, es, R) :: ths). cbn [map fst snd]. split; [now rewrite Hm|]. split; [|split].
      + constructor; [|exact Hto]. split; [exact Hs|nia].
      + constructor; assumption.
      + constructor; [|exact Htab]. cbn [fst]. rewrite Ht. reflexivity. }
  destruct Hth as (ths & Hm & Hto & Hdec & Htab).
  destruct ths as [|[[[f blf] esf] Rf] ths]; [rewrite Hencs in Hm; discriminate|].
  cbn [map fst] in Hm. rewrite Hencs in Hm. injection Hm as Hf Hothers. subst f.
  apply Forall_cons_iff in Hto as [[Hsf Hbf] Hto].
  destruct opss as [|ops0 opss]; [inversion Hdec|].
  inversion Hdec as [|? ? ? ? Hdec0 Hdecs]; subst. inversion Htab as [|? ? ? ? Htab0 Htabs]; subst. cbn [fst snd] in *.
  (* finish the first encoder; the rest of the computation does not notice *)
  destruct (append_all_first lz_compress first _ e (blocks, ttb) Happ Hfin) as (f1 & Ef & e' & Happ' & Hfin').
  destruct (finish_block_fin parse_f64 lz_compress cap cap_pos cap_u16 id bits bits_ge2 first blf esf Rf f1 Hsf Hbf Ef) as (blf' & Hfin1 & Hl1).
  destruct (append_all_fin parse_f64 lz_compress cap cap_pos cap_u16 id bits bits_ge2 ths f1 blf' Rf e' Hfin1 Hto Happ') as (bls & Hlens & Hfe).
  destruct (fin_load e' _ _ blocks ttb Hfe Hfin' Hlen) as (sig & Hload & Hobs).
  exists (Rf :: map (fun x => snd x) ths), sig. split; [constructor; assumption|]. split; [exact Hload|].
  rewrite Hobs. f_equal. f_equal. cbn [map combine cat_shift]. rewrite shift_0. f_equal.
  rewrite N.add_0_l, Hl1, Htab0. f_equal.
  (* the block lengths of the other threads are the lengths of their accepted time tables *)
  clear -Hlens Htabs. revert bls opss Hlens Htabs. induction ths as [|t0 ths IH]; intros bls opss Hl Ht.
  - inversion Hl; subst. reflexivity.
  - inversion Hl as [|b ? bls' ? Hb Hl']; subst. inversion Ht as [|? ops ? opss' Ho Ht']; subst.
    cbn [map combine]. f_equal; [f_equal; now rewrite Hb, Ho|]. now apply IH.
Qed.

End Threads.
