(* Model of wellen/src/signals.rs: binary_search, find_offset_from_time_table_idx,
   Signal::get_offset / get_time_idx_at / iter positions.  Mirrors the Rust code
   line by line; usize underflow and out-of-bounds indexing are explicit Panics. *)
From WV Require Import Model.Base.

(* fn binary_search(indices, needle) -> usize; the while loop runs on explicit fuel *)
Fixpoint bsearch (fuel : nat) (l : list N) (needle : N) (lo hi : nat) : outcome nat :=
  match fuel with
  | O => Panic
  | S f =>
    if hi <? lo then (match lo with O => Panic | S lo' => Ok lo' end)   (* lower_idx - 1 *)
    else
      let mid := lo + (hi - lo) / 2 in
      match nth_error l mid with
      | None => Panic
      | Some v =>
        match N.compare v needle with
        | Lt => bsearch f l needle (mid + 1) hi
        | Eq => Ok mid
        | Gt => match mid with O => Panic | S m' => bsearch f l needle lo m' end  (* mid_idx - 1 *)
        end
      end
  end.

Definition binary_search (l : list N) (needle : N) : outcome nat :=
  match l with
  | [] => Panic                       (* indices.len() - 1 underflows *)
  | _ => bsearch (S (length l)) l needle 0 (length l - 1)
  end.

(* while start > 0 && indices[start - 1] == res_index { start -= 1 } *)
Fixpoint find_start (l : list N) (start : nat) (v : N) : outcome nat :=
  match start with
  | O => Ok O
  | S s' =>
    match nth_error l s' with
    | None => Panic
    | Some x => if N.eqb x v then find_start l s' v else Ok start
    end
  end.

(* while start + elements < len && indices[start + elements] == res_index { elements += 1 }
   run on the suffix that starts at start+1 *)
Fixpoint run_len (tail : list N) (v : N) : nat :=
  match tail with
  | [] => O
  | x :: t => if N.eqb x v then S (run_len t v) else O
  end.

Record data_offset := mk_offset {
  do_start : nat;
  do_elements : N;          (* u16 *)
  do_time_match : bool;
  do_next_index : option N  (* Option<NonZeroU32> *)
}.

Definition nonzero_new (x : N) : option N := if N.eqb x 0 then None else Some x.

Definition find_offset (l : list N) (needle : N) : outcome data_offset :=
  do res <- binary_search l needle;
  do res_index <- of_option (nth_error l res);
  do start <- find_start l res res_index;
  let elements := S (run_len (skipn (S start) l) res_index) in
  let next_index :=
    match nth_error l (start + elements) with
    | Some x => nonzero_new x
    | None => None
    end in
  Ok (mk_offset start (u16_wrap (N.of_nat elements)) (N.eqb res_index needle) next_index).

(* Signal::get_offset *)
Definition get_offset (l : list N) (idx : N) : outcome (option data_offset) :=
  match l with
  | [] => Ok None
  | first :: _ =>
    if N.ltb idx first then Ok None
    else do d <- find_offset l idx; Ok (Some d)
  end.

(* Signal::get_time_idx_at *)
Definition get_time_idx_at (l : list N) (d : data_offset) : outcome N :=
  of_option (nth_error l (do_start d)).

(* Signal::get_value_at: the position of the value that is returned (assert element < elements) *)
Definition get_value_pos (d : data_offset) (element : N) : outcome nat :=
  if N.ltb element (do_elements d) then Ok (do_start d + N.to_nat element) else Panic.

(* SignalChangeIterator: positions 0..len paired with time_indices *)
Definition iter_changes {V} (l : list N) (values : list V) : list (N * V) := combine l values.
