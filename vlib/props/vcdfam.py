"""Helpers shared by the checks that run whole VCD files / encoder histories through both sides."""
from .. import core


def strip_bl(obs):
    return obs.split(" bl=")[0]


def run_both(res, cases, tag, model_ok, release=False, timeout=900):
    """cases: list of dicts {line, expect (str|None), key (non-trivial key or None), klass}.
    Compares implementation vs expectation (oracle) and vs model (correspondence)."""
    lines = [c["line"] for c in cases]
    wv = core.WV_RELEASE if release else core.WV_DEBUG
    impl = core.run_cases(wv, lines, tag + "i", timeout=timeout)
    if model_ok:
        # cases marked `nomodel` (too large for the extracted model within the time limit) are decided by the oracle alone
        idx = [i for i, c in enumerate(cases) if not c.get("nomodel")]
        mout = core.run_cases(core.MODEL_RUN_RELEASE if release else core.MODEL_RUN, [lines[i] for i in idx], tag + "m", timeout=timeout)
        model = [None] * len(lines)
        for i, o in zip(idx, mout):
            model[i] = o
    else:
        model = [None] * len(lines)
    for c, io, mo in zip(cases, impl, model):
        res.evaluations += 1
        if c.get("key") is not None:
            res.nontrivial.add(c["key"])
        k = c.get("klass", "other")
        res.distribution[k] = res.distribution.get(k, 0) + 1
        exp = c.get("expect")
        if exp is not None:
            got = strip_bl(io)
            if got != exp:
                res.violations.append((c["line"], io, exp, c.get("why", "implementation differs from the meaning of the input")))
        pred = c.get("pred")
        if pred is not None:
            why = pred(io)
            if why:
                res.violations.append((c["line"], io, "predicate", why))
        if mo is not None and mo != io:
            res.mismatches.append((c["line"], io, mo))
    return impl, model
