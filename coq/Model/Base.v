(* Shared conventions of the executable model (DESIGN.md section 3).
   No proofs live in Model/ files. *)
From Coq Require Export List NArith ZArith Bool Arith.
Export ListNotations.

(* Rust panics (unwrap, index out of bounds, integer under/overflow in debug, assert),
   errors (Result::Err) and normal results are three different outcomes. *)
Inductive outcome (A : Type) : Type :=
| Ok (a : A)
| Err
| Panic.
Arguments Ok {A} a.
Arguments Err {A}.
Arguments Panic {A}.

Definition bind {A B} (x : outcome A) (f : A -> outcome B) : outcome B :=
  match x with Ok a => f a | Err => Err | Panic => Panic end.
Notation "'do' x <- e ; k" := (bind e (fun x => k))
  (at level 200, x name, e at level 100, k at level 200, right associativity).
Notation "'do' ' p <- e ; k" := (bind e (fun x => match x with p => k end))
  (at level 200, p pattern, e at level 100, k at level 200, right associativity).

Definition of_option {A} (o : option A) : outcome A :=
  match o with Some a => Ok a | None => Panic end.

(* usize subtraction: underflow panics (debug) / wraps to a huge index that then panics on use *)
Definition usub (a b : nat) : outcome nat :=
  if b <=? a then Ok (a - b) else Panic.

Definition byte := N.

Definition u16_wrap (n : N) : N := (n mod 65536)%N.
Definition u32_wrap (n : N) : N := (n mod 4294967296)%N.
Definition u64_max : N := 18446744073709551615%N.
Definition u64_wrap (n : N) : N := (n mod 18446744073709551616)%N.

Fixpoint list_update {A} (l : list A) (i : nat) (x : A) : list A :=
  match l, i with
  | [], _ => []
  | _ :: t, O => x :: t
  | h :: t, S i' => h :: list_update t i' x
  end.

Fixpoint outcome_map_pairs {A B} (f : A -> outcome B) (l : list A) : outcome (list B) :=
  match l with
  | [] => Ok []
  | x :: r => do y <- f x; do ys <- outcome_map_pairs f r; Ok (y :: ys)
  end.
