//! `fstw <tpe> <idx:hexvalue,...>`: drives fst::SignalWriter (hook `verif_fst_signal_writer`).
//! tpe: `b<width>` | `r` | `s`; for reals the value is the 16 hex digit bit pattern.
use crate::obs::*;
use crate::util::*;
use wellen::verif::verif_fst_signal_writer;
use wellen::*;

pub fn run(args: &[&str]) -> String {
    let tpe = match args[0].as_bytes()[0] {
        b'r' => SignalEncoding::Real,
        b's' => SignalEncoding::String,
        _ => SignalEncoding::bit_vec_of_len(args[0][1..].parse::<u32>().unwrap()),
    };
    let changes: Vec<(u32, Vec<u8>)> = split(args[1], ',')
        .iter()
        .map(|c| {
            let (idx, v) = c.split_once(':').unwrap();
            let bytes = if matches!(tpe, SignalEncoding::Real) {
                hex_u64(v).to_le_bytes().to_vec()
            } else {
                bytes_of_hex(v)
            };
            (hex_u64(idx) as u32, bytes)
        })
        .collect();
    let signal = verif_fst_signal_writer(tpe, &changes);
    format!("s0={}", signal_obs(&signal))
}
