(* Property C03: multi-threaded VCD loading equals single-threaded loading.
   Pinned: (1) the parser side of the hand-over (handover_segment, chunk_simulates): a parser thread started in the
   middle of the body skips to the next line start and then emits - until its stop rule fires - exactly the events
   the sequential parser emits from that line start on, provided the sequential parser is between tokens there;
   no token is split, altered or invented at a seam.  (2) the storage side (appended_transparent for bit vectors, appended_transparent_rs for reals
   and strings): whatever the per-thread encoders recorded is reported in chunk order with shifted time indices, de-duplicated across seams.
   NOT proved: that the segments of consecutive threads tile the sequential event list without gap or overlap
   (it needs the line discipline of time stamps, and is false for the inputs of the known findings D8/D15/D16),
   and that the concatenated per-thread recordings equal the sequential recording; that part is decided by the
   correspondence run and the oracle. *)
From WV Require Import Model.Base Model.Bits Model.WaveMem Model.VcdBody Spec.TimeSpec Spec.StoreSpec
  Proofs.TimeTableProofs Proofs.StoreProofs Proofs.EncoderProofs Proofs.BodyProofs Proofs.HandoverProofs Proofs.RealStringEnc.
Open Scope N_scope.

Check appended_transparent :
  forall (parse_f64 : list byte -> option (list byte)) (lz_compress : list byte -> list byte)
         (lz_decompress : list byte -> nat -> option (list byte)),
  (forall d n, (length d <= n)%nat -> lz_decompress (lz_compress d) n = Some d) ->
  forall cap, 1 <= cap -> cap <= 65536 -> forall id bits, (1 <= bits)%nat ->
  forall tpes (opss : list (list enc_op)) (encs : list encoder) first others e blocks ttb,
  nth_error tpes id = Some (EncBits bits) ->
  Forall2 (fun ops en => run_ops parse_f64 lz_compress cap (enc_new tpes) ops = Ok en) opss encs ->
  Forall (fun ops => Forall (op_ok id bits) ops /\ N.of_nat (count_vcd id ops) * (10 + N.of_nat bits) < 4294967264) opss ->
  encs = first :: others ->
  append_all lz_compress first others = Ok e ->
  enc_finish lz_compress e = Ok (blocks, ttb) -> N.of_nat (length ttb) < 4294967296 ->
  exists Rs sig,
    Forall2 (fun R ops => Forall2 (decodes bits) R (recorded id ops [] false)) Rs opss /\
    load_signal lz_decompress blocks id (EncBits bits) = Ok sig /\
    observe_signal sig
    = outcome_map render_of
        (dedup (cat_shift (combine Rs (map (fun ops => N.of_nat (length (accepted (times_of ops)))) opss)) 0)).

Check handover_segment :
  forall debug stop_c (pre suf : list byte) (c : nat) s0 nolf,
  (c < length pre)%nat -> skipn c pre = nolf ++ [10] -> ~ In 10 nolf ->
  run_bytes debug (N.of_nat (length (pre ++ suf))) pre init_state = Running s0 ->
  ps_state s0 = ParsingFirstToken -> ps_first s0 = [] ->
  exists more,
    fst (parse_body debug (pre ++ suf) (N.of_nat (length (pre ++ suf))))
    = rev (ps_acc s0) ++ fst (parse_body debug (skipn c (pre ++ suf)) stop_c) ++ more.

Check chunk_simulates :
  forall debug stop_c stop_s d A bytes sc ss,
  related d A sc ss -> no_underflow sc ->
  ps_pos ss + N.of_nat (length bytes) <= stop_s + 1 ->
  exists more, events_of debug (run_bytes debug stop_s bytes ss)
               = rev A ++ events_of debug (run_bytes debug stop_c bytes sc) ++ more.

Check run_bytes_app :
  forall debug stop_pos a b s,
  run_bytes debug stop_pos (a ++ b) s
  = match run_bytes debug stop_pos a s with
    | Finished r => Finished r
    | Running s' => run_bytes debug stop_pos b s'
    end.

Check appended_transparent_rs :
  forall (parse_f64 : list byte -> option (list byte)),
  (forall r le, parse_f64 r = Some le -> length le = 8%nat) ->
  forall (lz_compress : list byte -> list byte) (lz_decompress : list byte -> nat -> option (list byte)),
  (forall d n, (length d <= n)%nat -> lz_decompress (lz_compress d) n = Some d) ->
  forall cap, 1 <= cap -> cap <= 65536 -> forall id str tpes
         (opss : list (list enc_op)) (encs : list encoder) first others e blocks ttb,
  nth_error tpes id = Some (rs_tpe str) ->
  Forall2 (fun ops en => run_ops parse_f64 lz_compress cap (enc_new tpes) ops = Ok en) opss encs ->
  Forall (fun ops => Forall (rs_op_ok id str) ops /\ ops_cost id ops < 4294967264) opss ->
  encs = first :: others ->
  append_all lz_compress first others = Ok e ->
  enc_finish lz_compress e = Ok (blocks, ttb) -> N.of_nat (length ttb) < 4294967296 ->
  exists Rs sig,
    Forall2 (fun R ops => Forall2 (gdecodes parse_f64 str) R (recorded_rs id ops [] false)) Rs opss /\
    load_signal lz_decompress blocks id (rs_tpe str) = Ok sig /\
    observe_signal sig
    = Ok (map (fun a : N * list byte => (fst a, if str then KString else KReal, snd a))
              (gdedup (gcat_shift (combine Rs (map (fun ops => N.of_nat (length (accepted (times_of ops)))) opss)) 0))).

Print Assumptions handover_segment.
Print Assumptions appended_transparent_rs.
Print Assumptions chunk_simulates.
Print Assumptions appended_transparent.
Print Assumptions run_bytes_app.
